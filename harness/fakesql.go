package main

// fakesql: an in-memory database/sql driver that understands exactly the statements sqlgen
// generates, records every statement and its arguments, and evaluates them on small tables.

import (
	"context"
	"database/sql"
	"database/sql/driver"
	"errors"
	"fmt"
	"io"
	"regexp"
	"sort"
	"strings"
	"sync"
	"time"
)

type fsStmt struct {
	SQL  string        `json:"sql"`
	Args []interface{} `json:"args"`
	Tx   bool          `json:"tx"`
}

type fsTable struct {
	Cols []string
	PK   []string
	Rows []map[string]driver.Value
}

type fsDB struct {
	mu     sync.Mutex
	tables map[string]*fsTable
	log    []fsStmt
	onLog  func(fsStmt) // called under mu
	// onWrite is called (under mu) for every row change: table, position of the row in the table as it was when the
	// statement started (-1 for an appended row), before (nil for insert), after (nil for delete)
	onWrite func(table string, idx int, before, after map[string]driver.Value)
	// onExecEnd is called (under mu) when a write statement is done
	onExecEnd func()
	// afterSelect is called after a SELECT has taken its rows and released the lock, before the rows are returned
	afterSelect func(q string)
	failNext    error
	// declaredUpper: information_schema reports the column names as the table declares them, with a capital first
	// letter ("Name" for the struct's "name"); statements find them all the same, as MySQL's do
	declaredUpper bool
}

var fsRegistry = struct {
	sync.Mutex
	dbs map[string]*fsDB
	n   int
}{dbs: map[string]*fsDB{}}

type fsDriver struct{}

func init() { sql.Register("fakesql", fsDriver{}) }

func (fsDriver) Open(name string) (driver.Conn, error) {
	fsRegistry.Lock()
	db := fsRegistry.dbs[name]
	fsRegistry.Unlock()
	if db == nil {
		return nil, fmt.Errorf("fakesql: unknown database %q", name)
	}
	return &fsConn{db: db}, nil
}

// newFakeDB creates a fresh database and a *sql.DB connected to it.
func newFakeDB() (*fsDB, *sql.DB) {
	fsRegistry.Lock()
	fsRegistry.n++
	name := fmt.Sprintf("db%d", fsRegistry.n)
	db := &fsDB{tables: map[string]*fsTable{}}
	fsRegistry.dbs[name] = db
	fsRegistry.Unlock()
	conn, err := sql.Open("fakesql", name)
	if err != nil {
		panic(err)
	}
	return db, conn
}

func (db *fsDB) createTable(name string, cols []string, pk []string) {
	db.mu.Lock()
	db.tables[name] = &fsTable{Cols: cols, PK: pk}
	db.mu.Unlock()
}

func (db *fsDB) statements() []fsStmt {
	db.mu.Lock()
	defer db.mu.Unlock()
	return append([]fsStmt{}, db.log...)
}

func (db *fsDB) resetLog() { db.mu.Lock(); db.log = nil; db.mu.Unlock() }

func (db *fsDB) snapshot(table string) []map[string]driver.Value {
	db.mu.Lock()
	defer db.mu.Unlock()
	var out []map[string]driver.Value
	for _, r := range db.tables[table].Rows {
		c := map[string]driver.Value{}
		for k, v := range r {
			c[k] = v
		}
		out = append(out, c)
	}
	return out
}

type fsConn struct {
	db *fsDB
	tx bool
}

func (c *fsConn) Prepare(q string) (driver.Stmt, error) {
	return nil, errors.New("fakesql: Prepare unsupported")
}
func (c *fsConn) Close() error              { return nil }
func (c *fsConn) Begin() (driver.Tx, error) { c.tx = true; return &fsTx{c}, nil }
func (c *fsConn) BeginTx(ctx context.Context, opts driver.TxOptions) (driver.Tx, error) {
	return c.Begin()
}

type fsTx struct{ c *fsConn }

func (t *fsTx) Commit() error   { t.c.tx = false; return nil }
func (t *fsTx) Rollback() error { t.c.tx = false; return nil }

func fsNorm(v driver.Value) driver.Value {
	switch v := v.(type) {
	case []byte:
		return string(v)
	case bool:
		if v {
			return int64(1)
		}
		return int64(0)
	case time.Time:
		// the MySQL driver sends microseconds and cuts off the rest
		return v.UTC().Format("2006-01-02 15:04:05.999999")
	case int:
		return int64(v)
	}
	return v
}

// fsEq is MySQL's `=` on the value kinds the fake stores: NULL never equals anything.
func fsEq(a, b driver.Value) bool {
	a, b = fsNorm(a), fsNorm(b)
	if a == nil || b == nil {
		return false
	}
	switch x := a.(type) {
	case int64:
		switch y := b.(type) {
		case int64:
			return x == y
		case float64:
			return float64(x) == y
		case string:
			return fmt.Sprint(x) == y
		}
	case float64:
		switch y := b.(type) {
		case int64:
			return x == float64(y)
		case float64:
			return x == y
		}
	case string:
		switch y := b.(type) {
		case string:
			return x == y
		case int64:
			return x == fmt.Sprint(y)
		}
	}
	return false
}

var (
	fsSelectRe = regexp.MustCompile(`(?s)^SELECT (.+?) FROM (\w+)(?: WHERE (.+?))?(?: ORDER BY (.+?))?(?: LIMIT (\d+))?(?: FOR UPDATE)?$`)
	fsInsertRe = regexp.MustCompile(`^INSERT INTO (\w+) \((.+?)\) VALUES (.+?)( ON DUPLICATE KEY UPDATE .+)?$`)
	fsUpdateRe = regexp.MustCompile(`^UPDATE (\w+) SET (.+?)(?: WHERE (.+))?$`)
	fsDeleteRe = regexp.MustCompile(`^DELETE FROM (\w+)(?: WHERE (.+))?$`)
)

// fsCond is a parsed WHERE clause in disjunctive form: OR of AND-groups of (column, op, arguments).
// The clause may nest AND / OR with parentheses (SelectOptions.Where); AND binds tighter than OR.
type fsAtom struct {
	col string
	op  string // "=" | "IS" | "ISNULL" | "IN"
	n   int    // number of arguments
	at  int    // index of its first argument
}

type fsWhereParser struct {
	s    string
	i    int
	args int
}

func fsSpace(c byte) bool { return c == ' ' || c == '\n' || c == '\t' || c == '\r' }

func (p *fsWhereParser) ws() {
	for p.i < len(p.s) && fsSpace(p.s[p.i]) {
		p.i++
	}
}

// kw: a keyword as MySQL reads it: any case, any white space around it; "||" is OR (MySQL's default sql_mode)
func (p *fsWhereParser) kw(k string) bool {
	p.ws()
	if k == "OR" && strings.HasPrefix(p.s[p.i:], "||") {
		p.i += 2
		return true
	}
	if len(p.s)-p.i >= len(k) && strings.EqualFold(p.s[p.i:p.i+len(k)], k) && (p.i+len(k) == len(p.s) || fsSpace(p.s[p.i+len(k)]) || p.s[p.i+len(k)] == '(') {
		p.i += len(k)
		return true
	}
	return false
}

func (p *fsWhereParser) or() ([][]fsAtom, error) {
	out, err := p.and()
	if err != nil {
		return nil, err
	}
	for p.kw("OR") {
		r, err := p.and()
		if err != nil {
			return nil, err
		}
		out = append(out, r...)
	}
	return out, nil
}

func (p *fsWhereParser) and() ([][]fsAtom, error) {
	out, err := p.factor()
	if err != nil {
		return nil, err
	}
	for p.kw("AND") {
		r, err := p.factor()
		if err != nil {
			return nil, err
		}
		var prod [][]fsAtom
		for _, a := range out {
			for _, b := range r {
				prod = append(prod, append(append([]fsAtom{}, a...), b...))
			}
		}
		out = prod
	}
	return out, nil
}

var fsAtomRe = regexp.MustCompile(`^(\w+) ?(= ?\?|IS NULL|IS \?|IN \(([?, ]*)\))`)

func (p *fsWhereParser) factor() ([][]fsAtom, error) {
	p.ws()
	if p.i < len(p.s) && p.s[p.i] == '(' {
		p.i++
		r, err := p.or()
		if err != nil {
			return nil, err
		}
		p.ws()
		if p.i >= len(p.s) || p.s[p.i] != ')' {
			return nil, fmt.Errorf("fakesql: missing ) in %q at %d", p.s, p.i)
		}
		p.i++
		return r, nil
	}
	m := fsAtomRe.FindStringSubmatch(p.s[p.i:])
	if m == nil {
		return nil, fmt.Errorf("fakesql: cannot parse condition %q", p.s[p.i:])
	}
	p.i += len(m[0])
	a := fsAtom{col: m[1], at: p.args}
	switch {
	case strings.HasPrefix(m[2], "="):
		a.op, a.n = "=", 1
	case m[2] == "IS NULL":
		a.op, a.n = "ISNULL", 0
	case m[2] == "IS ?":
		a.op, a.n = "IS", 1
	default:
		a.op, a.n = "IN", strings.Count(m[3], "?")
	}
	p.args += a.n
	return [][]fsAtom{{a}}, nil
}

func fsParseWhere(w string) ([][]fsAtom, error) {
	w = strings.TrimSpace(w)
	if w == "" {
		return nil, nil
	}
	p := &fsWhereParser{s: w}
	out, err := p.or()
	if err != nil {
		return nil, err
	}
	p.ws()
	if p.i != len(p.s) {
		return nil, fmt.Errorf("fakesql: trailing text in WHERE %q at %d", w, p.i)
	}
	return out, nil
}

func fsMatch(cond [][]fsAtom, args []driver.Value, row map[string]driver.Value) bool {
	if cond == nil {
		return true
	}
	any := false
	for _, group := range cond {
		ok := true
		for _, a := range group {
			vals := args[a.at : a.at+a.n]
			switch a.op {
			case "=":
				if !fsEq(row[a.col], vals[0]) {
					ok = false
				}
			case "ISNULL":
				if row[a.col] != nil {
					ok = false
				}
			case "IS":
				if !(vals[0] == nil && row[a.col] == nil) {
					ok = false
				}
			case "IN":
				hit := false
				for _, v := range vals {
					if fsEq(row[a.col], v) {
						hit = true
					}
				}
				if !hit {
					ok = false
				}
			}
		}
		if ok {
			any = true
		}
	}
	return any
}

func fsCountArgs(cond [][]fsAtom) int {
	n := 0
	for _, g := range cond {
		for _, a := range g {
			if a.at+a.n > n {
				n = a.at + a.n
			}
		}
	}
	return n
}

func (c *fsConn) record(q string, args []driver.NamedValue) []driver.Value {
	vals := make([]driver.Value, len(args))
	ia := make([]interface{}, len(args))
	for i, a := range args {
		vals[i] = a.Value
		ia[i] = fsNorm(a.Value)
	}
	st := fsStmt{SQL: q, Args: ia, Tx: c.tx}
	c.db.log = append(c.db.log, st)
	if c.db.onLog != nil {
		c.db.onLog(st)
	}
	return vals
}

func (c *fsConn) QueryContext(ctx context.Context, q string, args []driver.NamedValue) (driver.Rows, error) {
	rows, err := c.queryLocked(q, args)
	if h := c.db.afterSelect; h != nil && err == nil {
		h(q) // the snapshot is taken, the lock released: whatever happens now happens "after the read"
	}
	return rows, err
}

func (c *fsConn) queryLocked(q string, args []driver.NamedValue) (driver.Rows, error) {
	c.db.mu.Lock()
	defer c.db.mu.Unlock()
	vals := c.record(q, args)
	if err := c.db.failNext; err != nil {
		c.db.failNext = nil
		return nil, err
	}
	if strings.Contains(q, "information_schema.columns") && len(vals) == 2 {
		// livesql's fetchColumns: the table's columns in ordinal order
		out := &fsRows{cols: []string{"column_name"}}
		if t := c.db.tables[fmt.Sprint(vals[1])]; t != nil {
			for _, cn := range t.Cols {
				if c.db.declaredUpper && cn != "" {
					cn = strings.ToUpper(cn[:1]) + cn[1:]
				}
				out.rows = append(out.rows, []driver.Value{cn})
			}
		}
		return out, nil
	}
	m := fsSelectRe.FindStringSubmatch(q)
	if m == nil {
		return nil, fmt.Errorf("fakesql: unsupported query %q", q)
	}
	t := c.db.tables[m[2]]
	if t == nil {
		return nil, fmt.Errorf("fakesql: no table %s", m[2])
	}
	cond, err := fsParseWhere(m[3])
	if err != nil {
		return nil, err
	}
	if fsCountArgs(cond) != len(vals) {
		return nil, fmt.Errorf("fakesql: %d placeholders, %d arguments in %q", fsCountArgs(cond), len(vals), q)
	}
	var hit []map[string]driver.Value
	for _, r := range t.Rows {
		if fsMatch(cond, vals, r) {
			hit = append(hit, r)
		}
	}
	if m[1] == "COUNT(*)" {
		return &fsRows{cols: []string{"COUNT(*)"}, rows: [][]driver.Value{{int64(len(hit))}}}, nil
	}
	cols := strings.Split(m[1], ", ")
	if m[4] != "" {
		// ORDER BY col [ASC|DESC], one key, stable
		parts := strings.Fields(m[4])
		key := strings.Trim(parts[0], "`")
		desc := len(parts) > 1 && strings.EqualFold(parts[1], "DESC")
		sort.SliceStable(hit, func(i, j int) bool {
			a, b := fsNorm(hit[i][key]), fsNorm(hit[j][key])
			less := false
			switch x := a.(type) {
			case int64:
				y, _ := b.(int64)
				less = x < y
				if desc {
					less = x > y
				}
			case string:
				y, _ := b.(string)
				less = x < y
				if desc {
					less = x > y
				}
			}
			return less
		})
	}
	if m[5] != "" {
		var lim int
		fmt.Sscan(m[5], &lim)
		if len(hit) > lim {
			hit = hit[:lim]
		}
	}
	out := &fsRows{cols: cols}
	for _, r := range hit {
		row := make([]driver.Value, len(cols))
		for i, col := range cols {
			row[i] = r[col]
		}
		out.rows = append(out.rows, row)
	}
	return out, nil
}

type fsResult struct{ n int64 }

func (r fsResult) LastInsertId() (int64, error) { return 0, nil }
func (r fsResult) RowsAffected() (int64, error) { return r.n, nil }

func (c *fsConn) ExecContext(ctx context.Context, q string, args []driver.NamedValue) (driver.Result, error) {
	c.db.mu.Lock()
	defer c.db.mu.Unlock()
	vals := c.record(q, args)
	if err := c.db.failNext; err != nil {
		c.db.failNext = nil
		return nil, err
	}
	write := func(table string, idx int, before, after map[string]driver.Value) {
		if c.db.onWrite != nil {
			c.db.onWrite(table, idx, before, after)
		}
	}
	if c.db.onExecEnd != nil {
		defer c.db.onExecEnd()
	}
	cp := func(r map[string]driver.Value) map[string]driver.Value {
		o := map[string]driver.Value{}
		for k, v := range r {
			o[k] = v
		}
		return o
	}
	if m := fsInsertRe.FindStringSubmatch(q); m != nil {
		t := c.db.tables[m[1]]
		if t == nil {
			return nil, fmt.Errorf("fakesql: no table %s", m[1])
		}
		cols := strings.Split(m[2], ", ")
		if len(vals)%len(cols) != 0 {
			return nil, fmt.Errorf("fakesql: %d values for %d columns", len(vals), len(cols))
		}
		upsert := m[4] != ""
		n := int64(0)
		for i := 0; i < len(vals); i += len(cols) {
			row := map[string]driver.Value{}
			for _, cn := range t.Cols {
				row[cn] = nil
			}
			for j, cn := range cols {
				row[cn] = fsNorm(vals[i+j])
			}
			dup := -1
			for k, r := range t.Rows {
				same := len(t.PK) > 0
				for _, p := range t.PK {
					if !fsEq(r[p], row[p]) {
						same = false
					}
				}
				if same {
					dup = k
				}
			}
			switch {
			case dup >= 0 && !upsert:
				return nil, fmt.Errorf("fakesql: duplicate key")
			case dup >= 0:
				before := cp(t.Rows[dup])
				for _, cn := range cols {
					t.Rows[dup][cn] = row[cn]
				}
				write(m[1], dup, before, cp(t.Rows[dup]))
			default:
				t.Rows = append(t.Rows, row)
				write(m[1], -1, nil, cp(row))
			}
			n++
		}
		return fsResult{n}, nil
	}
	if m := fsUpdateRe.FindStringSubmatch(q); m != nil {
		t := c.db.tables[m[1]]
		if t == nil {
			return nil, fmt.Errorf("fakesql: no table %s", m[1])
		}
		var setCols []string
		for _, a := range strings.Split(m[2], ", ") {
			setCols = append(setCols, strings.TrimSuffix(a, " = ?"))
		}
		cond, err := fsParseWhere(m[3])
		if err != nil {
			return nil, err
		}
		if len(setCols)+fsCountArgs(cond) != len(vals) {
			return nil, fmt.Errorf("fakesql: argument count in %q", q)
		}
		n := int64(0)
		for k, r := range t.Rows {
			if fsMatch(cond, vals[len(setCols):], r) {
				before := cp(r)
				for j, cn := range setCols {
					r[cn] = fsNorm(vals[j])
				}
				write(m[1], k, before, cp(r))
				n++
			}
		}
		return fsResult{n}, nil
	}
	if m := fsDeleteRe.FindStringSubmatch(q); m != nil {
		t := c.db.tables[m[1]]
		if t == nil {
			return nil, fmt.Errorf("fakesql: no table %s", m[1])
		}
		cond, err := fsParseWhere(m[2])
		if err != nil {
			return nil, err
		}
		if fsCountArgs(cond) != len(vals) {
			return nil, fmt.Errorf("fakesql: argument count in %q", q)
		}
		var keep []map[string]driver.Value
		n := int64(0)
		for k, r := range t.Rows {
			if fsMatch(cond, vals, r) {
				write(m[1], k, cp(r), nil)
				n++
			} else {
				keep = append(keep, r)
			}
		}
		t.Rows = keep
		return fsResult{n}, nil
	}
	return nil, fmt.Errorf("fakesql: unsupported statement %q", q)
}

type fsRows struct {
	cols []string
	rows [][]driver.Value
	i    int
}

func (r *fsRows) Columns() []string { return r.cols }
func (r *fsRows) Close() error      { return nil }
func (r *fsRows) Next(dest []driver.Value) error {
	if r.i >= len(r.rows) {
		return io.EOF
	}
	copy(dest, r.rows[r.i])
	r.i++
	return nil
}

// fsSortRows gives rows a canonical order (by their printed form).
func fsSortRows(rows []string) { sort.Strings(rows) }

type driverValue = driver.Value

// driverNull: v, or NULL when isNull
func driverNull(v int64, isNull bool) driver.Value {
	if isNull {
		return nil
	}
	return v
}
