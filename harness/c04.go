package main

// C04 — No lost invalidation: a stale computation is always re-run.

import (
	"context"
	"encoding/json"
	"errors"
	"fmt"
	"os"
	"runtime"
	"sync"
	"sync/atomic"
	"time"

	"github.com/samsarahq/thunder/reactive"
)

func init() { register("C04", runC04) }

// ---- event log of the real package (verif hooks) -------------------------------------------------

type rxLabel struct {
	L string `json:"l"`
	A int    `json:"a"`
	B int    `json:"b"`
}

type rxLog struct {
	mu       sync.Mutex
	labels   []rxLabel
	rel      []rxLabel   // labels of the release model (C08)
	spawned  map[int]int // internally committed releases not yet begun
	bornDead map[int]bool // throw-away nodes of AddDependency calls outside any rerunner
	nodes    map[interface{}]int // *node -> model index
	rrs      map[interface{}]int // *Rerunner -> model index
	nextNode int
	bindGo   map[int64]int     // goroutine -> node index reserved by rr.enter
	lastNew  map[int64]interface{} // goroutine -> node pointer of the resource it created last
	inRunOf  map[int]int       // node index -> rerunner (while its run is in progress)
	problems []string
	foreign  int
	curKind  string
	r        *Rand
	perturb  bool
	events   int64
}

func newRxLog(r *Rand) *rxLog {
	return &rxLog{nodes: map[interface{}]int{}, rrs: map[interface{}]int{}, bindGo: map[int64]int{}, lastNew: map[int64]interface{}{}, inRunOf: map[int]int{}, spawned: map[int]int{}, bornDead: map[int]bool{}, r: r, perturb: true}
}

func (l *rxLog) add(lab string, a, b int) { l.labels = append(l.labels, rxLabel{lab, a, b}) }
func (l *rxLog) addRel(lab string, a, b int) { l.rel = append(l.rel, rxLabel{lab, a, b}) }

func (l *rxLog) nodeOf(p interface{}) int {
	if i, ok := l.nodes[p]; ok {
		return i
	}
	// a node we never saw being created (cannot happen with the hooks in place)
	l.problems = append(l.problems, fmt.Sprintf("unknown node %p in %s", p, l.curKind))
	i := l.nextNode
	l.nextNode++
	l.nodes[p] = i
	l.add("newNode", 0, 0)
	l.addRel("newNode", 0, 0)
	return i
}

// known: the event is about objects created in this scenario (goroutines of an earlier scenario
// may still be finishing releases when the next one has installed its hook)
func (l *rxLog) known(kind string, a, b interface{}) bool {
	switch kind {
	case "node.new", "comp.new", "rr.new":
		return true
	case "rr.enter", "rr.skip", "rr.exitfail", "rr.exitretry", "rr.cancel", "rr.stop":
		_, ok := l.rrs[a]
		return ok
	}
	if _, ok := l.nodes[a]; !ok {
		return false
	}
	if kind == "addOut.skip" {
		return true // the dependant may be the throw-away node of an AddDependency without rerunner
	}
	if b != nil {
		if _, ok := l.nodes[b]; !ok {
			return false
		}
	}
	return true
}

func (l *rxLog) hook(kind string, a, b interface{}) {
	if kind == "yield" {
		// a point before a lock is taken: only perturb the schedule
		l.mu.Lock()
		on := l.perturb
		dice := 0
		if on {
			dice = l.r.Intn(100)
		}
		l.mu.Unlock()
		if on {
			switch {
			case dice < 20:
				runtime.Gosched()
			case dice < 32:
				time.Sleep(time.Duration(20+dice*8) * time.Microsecond)
			}
		}
		return
	}
	l.mu.Lock()
	if !l.known(kind, a, b) {
		l.foreign++
		l.mu.Unlock()
		return
	}
	atomic.AddInt64(&l.events, 1)
	l.curKind = kind
	switch kind {
	case "node.new":
		l.nodes[a] = l.nextNode
		l.nextNode++
		l.lastNew[goid()] = a
		l.add("newNode", 0, 0)
		l.addRel("newNode", 0, 0)
	case "comp.new":
		g := goid()
		if idx, ok := l.bindGo[g]; ok {
			l.nodes[a] = idx
			delete(l.bindGo, g)
		} else {
			l.nodes[a] = l.nextNode
			l.nextNode++
			l.add("newNode", 0, 0)
			l.addRel("newNode", 0, 0)
		}
	case "rr.new":
		l.rrs[a] = len(l.rrs)
		l.add("newRr", 0, 0)
	case "strobe":
		l.add("strobe", l.nodeOf(a), 0)
	case "inv", "inv.noop":
		l.add("runInv", l.nodeOf(a), 0)
	case "inv.spawn":
		// Resource.Invalidate: `go r.invalidate()`
		l.add("spawnInv", l.nodeOf(a), 0)
	case "rel.begin":
		// release starts by calling invalidate on the node
		n := l.nodeOf(a)
		l.add("spawnInv", n, 0)
		if l.spawned[n] > 0 {
			l.spawned[n]--
		} else {
			l.addRel("callRelease", n, 0)
		}
	case "rel.spawn":
		l.spawned[l.nodeOf(a)]++
	case "rel", "rel.noop":
		l.addRel("relCS", l.nodeOf(a), 0)
	case "rel.edge":
		l.addRel("relEdge", l.nodeOf(a), l.nodeOf(b))
	case "handleRelease":
		l.addRel("handleRelease", l.nodeOf(a), 0)
	case "addOut.skip":
		if _, ok := l.nodes[b]; !ok {
			// a node that was born released (AddDependency outside any rerunner): create it released
			idx := l.nextNode
			l.nextNode++
			l.nodes[b] = idx
			l.bornDead[idx] = true
			l.add("newNode", 0, 0)
			l.addRel("newNode", 0, 0)
			l.addRel("callRelease", idx, 0)
			l.addRel("relCS", idx, 0)
		}
		// the invalidation side of addOut does not depend on the released check
		l.add("addOut", l.nodeOf(a), l.nodeOf(b))
		l.addRel("addOut", l.nodeOf(a), l.nodeOf(b))
	case "addOut":
		l.add("addOut", l.nodeOf(a), l.nodeOf(b))
		l.addRel("addOut", l.nodeOf(a), l.nodeOf(b))
	case "handle":
		n := l.nodeOf(a)
		if r, ok := l.inRunOf[n]; ok {
			delete(l.inRunOf, n)
			l.add("rrExitOk", r, 0)
		} else {
			l.problems = append(l.problems, fmt.Sprintf("handleInvalidate on node %d which is not a run in progress", n))
		}
	case "rr.enter":
		r := l.rrs[a]
		idx := l.nextNode
		l.nextNode++
		l.bindGo[goid()] = idx
		l.inRunOf[idx] = r
		l.add("rrEnter", r, idx)
		l.addRel("newNode", 0, 0)
	case "rr.skip":
		l.add("rrSkip", l.rrs[a], 0)
	case "rr.exitfail":
		r := l.rrs[a]
		for n, q := range l.inRunOf {
			if q == r {
				delete(l.inRunOf, n)
			}
		}
		l.add("rrExitFail", r, 0)
	case "rr.exitretry":
		r := l.rrs[a]
		for n, q := range l.inRunOf {
			if q == r {
				delete(l.inRunOf, n)
			}
		}
		l.add("rrExitRetry", r, 0)
	case "rr.cancel":
		l.add("rrCancel", l.rrs[a], 0)
	case "rr.stop":
		l.add("rrStop", l.rrs[a], 0)
	}
	perturb := l.perturb
	var dice int
	if perturb {
		dice = l.r.Intn(100)
	}
	l.mu.Unlock()
	// perturb the schedule: the caller still holds the node's lock (or the rerunner's mutex)
	if perturb {
		switch {
		case dice < 25:
			runtime.Gosched()
		case dice < 32:
			time.Sleep(time.Duration(20+dice*3) * time.Microsecond)
		}
	}
}

// external Invalidate (the inv.spawn hook logs the commitment to call invalidate)
func (l *rxLog) invalidate(res *reactive.Resource, nodePtr interface{}) {
	res.Invalidate()
}

// ---- workload -----------------------------------------------------------------------------------

type rxSlot struct {
	mu      sync.Mutex
	version int64
	res     *reactive.Resource
	node    interface{}
}

type rxWorld struct {
	log   *rxLog
	slots []*rxSlot
	// node pointer of the resource created last (filled by the hook wrapper)
	lastNode interface{}
}

type rxRunner struct {
	id       int
	rr       *reactive.Rerunner
	reads    []int // slots read by every run
	mu       sync.Mutex
	last     map[int]int64 // versions seen by the last successful run
	inRun    int32
	overlap  int32
	runs     int64
	stopped  int32 // set after Stop returned
	lateRuns int32 // runs entered after Stop returned
	failAt   int64 // fail (non-retry) at this run number (0: never)
	retryAt  int64
	lateReg  bool // reads the data first and registers the dependency afterwards (on a resource that may be invalidated by then)
}

func (w *rxWorld) newResource() (*reactive.Resource, interface{}) {
	res := reactive.NewResource()
	// the node pointer was reported by the node.new hook on this goroutine
	g := goid()
	w.log.mu.Lock()
	got := w.log.lastNew[g]
	delete(w.log.lastNew, g)
	w.log.mu.Unlock()
	return res, got
}

type c04Case struct {
	Seed    uint64 `json:"seed"`
	Slots   int    `json:"slots"`
	Runners int    `json:"runners"`
	Bumps   int    `json:"bumps"`
	Strobe  bool   `json:"strobe"`
	Stop    bool   `json:"stop"`
}

// c04Scenario runs one concurrent workload on the real package and returns the event trace and
// what the implementation-level oracle saw.
func c04Scenario(c *Ctx, cs c04Case) (labels []rxLabel, verdict string, detail map[string]interface{}) {
	r := NewRand(cs.Seed)
	log := newRxLog(r.Fork())
	reactive.VerifHook = log.hook
	defer func() { reactive.VerifHook = nil }()
	oldDelay := reactive.WriteThenReadDelay
	reactive.WriteThenReadDelay = []time.Duration{0, 0, 150 * time.Microsecond, 600 * time.Microsecond}[r.Intn(4)]
	defer func() { reactive.WriteThenReadDelay = oldDelay }()

	w := &rxWorld{log: log}
	var creation sync.Mutex // resource creation swaps the hook: one at a time
	mk := func() (*reactive.Resource, interface{}) {
		creation.Lock()
		defer creation.Unlock()
		return w.newResource()
	}
	for i := 0; i < cs.Slots; i++ {
		res, n := mk()
		w.slots = append(w.slots, &rxSlot{res: res, node: n})
	}
	var runners []*rxRunner
	for i := 0; i < cs.Runners; i++ {
		rn := &rxRunner{id: i, last: map[int]int64{}}
		k := 1 + r.Intn(cs.Slots)
		perm := r.Perm(cs.Slots)
		rn.reads = perm[:k]
		if r.Chance(0.15) {
			rn.failAt = int64(2 + r.Intn(4))
		}
		if r.Chance(0.2) {
			rn.retryAt = int64(1 + r.Intn(3))
		}
		rn.lateReg = !cs.Strobe && r.Chance(0.4) // (a Strobe between read and registration leaves nothing to notice: registering first is the contract there)
		runners = append(runners, rn)
	}
	ctx, cancelAll := context.WithCancel(context.Background())
	defer cancelAll()
	for _, rn := range runners {
		rn := rn
		rn.rr = reactive.NewRerunner(ctx, func(ctx context.Context) (interface{}, error) {
			if atomic.AddInt32(&rn.inRun, 1) > 1 {
				atomic.StoreInt32(&rn.overlap, 1)
			}
			defer atomic.AddInt32(&rn.inRun, -1)
			if atomic.LoadInt32(&rn.stopped) == 1 {
				atomic.StoreInt32(&rn.lateRuns, 1)
			}
			n := atomic.AddInt64(&rn.runs, 1)
			seen := map[int]int64{}
			for _, si := range rn.reads {
				s := w.slots[si]
				if rn.lateReg {
					// read first, register afterwards: the resource may have been invalidated in between; registering
					// a dependency on an invalidated resource must invalidate this run
					s.mu.Lock()
					if s.res.Invalidated() {
						nr, nn := mk()
						s.res, s.node = nr, nn
					}
					res := s.res
					v := s.version
					s.mu.Unlock()
					if int(n)%2 == 0 {
						time.Sleep(time.Duration(20+int(n)%5*30) * time.Microsecond)
					} else {
						runtime.Gosched()
					}
					reactive.AddDependency(ctx, res, nil)
					seen[si] = v
					continue
				}
				// register the dependency first, then read the data; a resource that lost all its
				// dependants has been released (and thereby invalidated) for good: replace it
				s.mu.Lock()
				if s.res.Invalidated() {
					nr, nn := mk()
					s.res, s.node = nr, nn
				}
				res := s.res
				s.mu.Unlock()
				reactive.AddDependency(ctx, res, nil)
				s.mu.Lock()
				cur := s.res
				v := s.version
				s.mu.Unlock()
				if cur != res {
					// the slot moved on to a new resource between the two looks: depend on that one too
					reactive.AddDependency(ctx, cur, nil)
				}
				seen[si] = v
				if r2 := int(n) % 3; r2 == 0 {
					runtime.Gosched()
				}
			}
			if rn.retryAt != 0 && n == rn.retryAt {
				return nil, reactive.RetrySentinelError
			}
			if rn.failAt != 0 && n == rn.failAt {
				return nil, errors.New("fail")
			}
			rn.mu.Lock()
			rn.last = seen
			rn.mu.Unlock()
			return nil, nil
		}, time.Microsecond, r.Bool())
	}
	// concurrent data changes
	var wg sync.WaitGroup
	bumpers := 1 + r.Intn(3)
	for b := 0; b < bumpers; b++ {
		wg.Add(1)
		br := r.Fork()
		go func() {
			defer wg.Done()
			for i := 0; i < cs.Bumps; i++ {
				si := br.Intn(cs.Slots)
				s := w.slots[si]
				if cs.Strobe && br.Bool() {
					s.mu.Lock()
					s.version++
					res := s.res
					s.mu.Unlock()
					res.Strobe()
				} else {
					res, n := mk()
					s.mu.Lock()
					s.version++
					old, oldNode := s.res, s.node
					s.res, s.node = res, n
					s.mu.Unlock()
					log.invalidate(old, oldNode)
				}
				if br.Chance(0.5) {
					runtime.Gosched()
				} else if br.Chance(0.2) {
					time.Sleep(time.Duration(br.Intn(200)) * time.Microsecond)
				}
			}
		}()
	}
	// stop some rerunners while everything is moving
	stopped := map[int]bool{}
	if cs.Stop {
		for _, rn := range runners {
			if r.Chance(0.4) {
				time.Sleep(time.Duration(r.Intn(300)) * time.Microsecond)
				rn.rr.Stop()
				atomic.StoreInt32(&rn.stopped, 1)
				stopped[rn.id] = true
			}
		}
	}
	wg.Wait()
	// quiescence: no event for a while and no run in progress
	deadline := newPatience(5 * time.Second)
	for {
		before := atomic.LoadInt64(&log.events)
		time.Sleep(15 * time.Millisecond)
		busy := false
		for _, rn := range runners {
			if atomic.LoadInt32(&rn.inRun) != 0 {
				busy = true
			}
		}
		if !busy && atomic.LoadInt64(&log.events) == before {
			time.Sleep(10 * time.Millisecond)
			if atomic.LoadInt64(&log.events) == before {
				break
			}
		}
		if deadline.expired() {
			var st []string
			for _, rn := range runners {
				st = append(st, fmt.Sprintf("r%d inRun=%d runs=%d stopped=%d", rn.id, atomic.LoadInt32(&rn.inRun), atomic.LoadInt64(&rn.runs), atomic.LoadInt32(&rn.stopped)))
			}
			log.mu.Lock()
			tail := log.labels
			if len(tail) > 15 {
				tail = tail[len(tail)-15:]
			}
			tl := fmt.Sprint(tail)
			log.mu.Unlock()
			return nil, "harness_error", map[string]interface{}{"error": "no quiescence within 5 s", "runners": st, "events": atomic.LoadInt64(&log.events), "tail": tl}
		}
	}
	// implementation-level oracle
	detail = map[string]interface{}{}
	verdict = ""
	log.mu.Lock()
	detail["quiescent_at"] = len(log.labels)
	log.mu.Unlock()
	for _, rn := range runners {
		if atomic.LoadInt32(&rn.overlap) == 1 {
			verdict = "impl_ne_spec"
			detail["what"] = fmt.Sprintf("two runs of rerunner %d overlapped", rn.id)
		}
		if atomic.LoadInt32(&rn.lateRuns) == 1 {
			verdict = "impl_ne_spec"
			detail["what"] = fmt.Sprintf("a run of rerunner %d started after Stop had returned", rn.id)
		}
		failed := rn.failAt != 0 && atomic.LoadInt64(&rn.runs) >= rn.failAt
		if stopped[rn.id] || failed {
			continue
		}
		rn.mu.Lock()
		for _, si := range rn.reads {
			w.slots[si].mu.Lock()
			cur := w.slots[si].version
			w.slots[si].mu.Unlock()
			if rn.last[si] != cur {
				verdict = "impl_ne_spec"
				detail["what"] = fmt.Sprintf("lost invalidation: at quiescence rerunner %d last read version %d of slot %d, current version is %d", rn.id, rn.last[si], si, cur)
			}
		}
		rn.mu.Unlock()
	}
	// stop everything, then take the trace
	for _, rn := range runners {
		rn.rr.Stop()
	}
	for i := 0; i < 100; i++ {
		before := atomic.LoadInt64(&log.events)
		time.Sleep(4 * time.Millisecond)
		if atomic.LoadInt64(&log.events) == before {
			break
		}
	}
	log.mu.Lock()
	log.perturb = false
	labels = append([]rxLabel{}, log.labels...)
	if len(log.problems) > 0 && verdict == "" {
		verdict = "harness_error"
		detail["error"] = log.problems[0]
	}
	// expected flags of the resources, for the comparison with the model
	inval := map[int]bool{}
	for _, s := range w.slots {
		if i, ok := log.nodes[s.node]; ok {
			inval[i] = s.res.Invalidated()
		}
	}
	log.mu.Unlock()
	detail["resource_flags"] = inval
	detail["runs"] = func() []int64 {
		var out []int64
		for _, rn := range runners {
			out = append(out, atomic.LoadInt64(&rn.runs))
		}
		return out
	}()
	return labels, verdict, detail
}

// rxQuiescentCheck replays the trace up to the moment the implementation was quiescent: the model
// must not be committed to work the implementation will never do (an invalidation of a valid
// node, a run of a live rerunner).
func rxQuiescentCheck(m *Model, labels []rxLabel, at int, ignore map[int]bool) (string, map[string]interface{}) {
	if at > len(labels) {
		at = len(labels)
	}
	resp, err := m.Call(map[string]interface{}{"op": "replay", "labels": labels[:at]})
	if err != nil {
		return "harness_error", map[string]interface{}{"error": err.Error()}
	}
	if resp["stuck"] != nil {
		return "", nil // reported by the full replay
	}
	st := resp["state"].(map[string]interface{})
	flags := st["invalidated"].([]interface{})
	for _, t := range st["pendingInv"].([]interface{}) {
		n := int(toInt64(t))
		if n < len(flags) && !flags[n].(bool) && !ignore[n] {
			return "impl_ne_model", map[string]interface{}{"what": "the implementation is quiescent but the model is committed to invalidating a node that is still valid: an invalidation was lost", "node": n, "state": st}
		}
	}
	rrs := st["rrs"].([]interface{})
	for _, t := range st["pendingRun"].([]interface{}) {
		r := int(toInt64(t))
		if r < len(rrs) {
			rm := rrs[r].(map[string]interface{})
			if !rm["cancelled"].(bool) && !rm["stopped"].(bool) && !rm["failed"].(bool) {
				return "impl_ne_model", map[string]interface{}{"what": "the implementation is quiescent but the model has a committed run of a live rerunner: a rerun was lost", "rerunner": r, "state": st}
			}
		}
	}
	for r, x := range rrs {
		rm := x.(map[string]interface{})
		if rm["inRun"] != nil {
			return "impl_ne_model", map[string]interface{}{"what": "the implementation is quiescent but the model has a run in progress", "rerunner": r}
		}
	}
	return "", nil
}

func c04One(c *Ctx, m *Model, cs c04Case) {
	rep := c.Rep
	labels, verdict, detail := c04Scenario(c, cs)
	if verdict != "" {
		detail["labels"] = len(labels)
		rep.Fail(verdict, nil, cs, detail)
		return
	}
	if kind, d := rxQuiescentCheck(m, labels, detail["quiescent_at"].(int), nil); kind != "" {
		rep.Fail(kind, nil, cs, d)
		return
	}
	resp, err := m.Call(map[string]interface{}{"op": "replay", "labels": labels})
	if err != nil {
		rep.Fail("harness_error", nil, cs, map[string]interface{}{"error": err.Error()})
		return
	}
	if resp["stuck"] != nil {
		i := int(toInt64(resp["stuck"]))
		lo := i - 12
		if lo < 0 {
			lo = 0
		}
		rep.Fail("impl_ne_model", nil, cs, map[string]interface{}{"what": "the model cannot take a step the implementation took", "index": i, "label": labels[i], "before": labels[lo:i], "state": resp["state"]})
		return
	}
	st := resp["state"].(map[string]interface{})
	flags := st["invalidated"].([]interface{})
	for idx, want := range detail["resource_flags"].(map[int]bool) {
		if idx < len(flags) && flags[idx].(bool) != want {
			rep.Fail("impl_ne_model", nil, cs, map[string]interface{}{"what": "a resource's invalidated flag differs from the model after replay", "node": idx, "impl": want})
			return
		}
	}
	// model-side: after everything was stopped nothing is pending or in progress for live rerunners (theorem quiescent_not_stale
	// is about live ones; here all are stopped) — record the sizes for the evidence
	rep.Count("ok")
	runs := int64(0)
	for _, n := range detail["runs"].([]int64) {
		runs += n
	}
	rep.Count(fmt.Sprintf("runs_per_scenario<=%d", ((runs/10)+1)*10))
	rep.Eval(fmt.Sprintf("c04-%d", cs.Seed), len(labels) > 20, map[string]interface{}{"labels": len(labels), "runs": runs, "case": cs})
	rep.Traces++
}

func runC04(c *Ctx) error {
	m, err := StartModel("C04")
	if err != nil {
		return err
	}
	defer m.Close()
	c.Rep.Rule = "concurrent workloads on the real reactive package: 1-4 rerunners each reading 1..k of 1-4 versioned slots (dependency registered before the data is read), 1-3 goroutines changing slots (replace the resource and Invalidate the old one, or Strobe), optional Stop of some rerunners while everything moves, retry and failing runs; verif hooks log every critical section (and perturb the schedule with yields and short sleeps while the lock is held); the trace is replayed in the Lean transition system (every step must be enabled, resource flags must agree) and the implementation is checked directly: at quiescence every live rerunner's last run read the current versions, runs of one rerunner never overlap, no run starts after Stop returned"
	c.Rep.Assumptions = append(c.Rep.Assumptions,
		"the log order is a linearisation: node events are logged while the node's lock is held",
		"interleavings are those the Go scheduler produces under perturbation, not an enumeration",
		"release and the cache are covered by C08")
	if c.Replay != "" {
		var f struct {
			Case c04Case `json:"case"`
		}
		b, err := os.ReadFile(c.Replay)
		if err != nil {
			return err
		}
		if err := json.Unmarshal(b, &f); err != nil {
			return err
		}
		for i := 0; i < 20; i++ {
			c04One(c, m, f.Case)
		}
		fmt.Printf("replay (20 re-executions of the scenario): %d failures\n", len(c.Rep.Failures))
		return nil
	}
	n := c.N(300, 6000)
	for i := 0; i < n && !c.Rep.ShouldStop(); i++ {
		cs := c04Case{Seed: c.Rng.U64(), Slots: 1 + c.Rng.Intn(4), Runners: 1 + c.Rng.Intn(4), Bumps: 1 + c.Rng.Intn(12), Strobe: c.Rng.Bool(), Stop: c.Rng.Chance(0.4)}
		c04One(c, m, cs)
	}
	// last: the releases its Stops start run on goroutines nothing waits for, and no recorder is installed after them
	c04Directed(c)
	return nil
}

// c04Directed (finding C04-1, notes/hunt/C04 find1): a rerunner whose computation ends its goroutine in the middle of
// an invalidation's walk over the dependants must not keep the rerunners after it from being re-run.
func c04Directed(c *Ctx) {
	rep := c.Rep
	oldDelay := reactive.WriteThenReadDelay
	reactive.WriteThenReadDelay = 0
	defer func() { reactive.WriteThenReadDelay = oldDelay }()
	const siblings = 12
	for trial := 0; trial < 3; trial++ {
		cs := map[string]interface{}{"directed": "one resource, twelve healthy rerunners and one whose second run calls runtime.Goexit; Strobe", "trial": trial}
		res := reactive.NewResource()
		var aRuns int32
		a := reactive.NewRerunner(context.Background(), func(ctx context.Context) (interface{}, error) {
			reactive.AddDependency(ctx, res, nil)
			if atomic.AddInt32(&aRuns, 1) == 2 {
				runtime.Goexit() // what t.FailNow does
			}
			return nil, nil
		}, 0, false)
		var runs [siblings]int32
		var rs []*reactive.Rerunner
		for i := 0; i < siblings; i++ {
			i := i
			rs = append(rs, reactive.NewRerunner(context.Background(), func(ctx context.Context) (interface{}, error) {
				reactive.AddDependency(ctx, res, nil)
				atomic.AddInt32(&runs[i], 1)
				return nil, nil
			}, 0, true))
		}
		atLeast := func(n int32) bool {
			for i := range runs {
				if atomic.LoadInt32(&runs[i]) < n {
					return false
				}
			}
			return true
		}
		wait := func(cond func() bool) bool {
			p := newPatience(3 * time.Second)
			for !cond() {
				if p.expired() {
					return false
				}
				time.Sleep(time.Millisecond)
			}
			return true
		}
		if !wait(func() bool { return atomic.LoadInt32(&aRuns) >= 1 && atLeast(1) }) {
			rep.Fail("harness_error", nil, cs, map[string]interface{}{"error": "the first runs did not happen"})
			return
		}
		res.Strobe()
		ok := wait(func() bool { return atLeast(2) })
		a.Stop()
		for _, r := range rs {
			r.Stop()
		}
		if !ok {
			stranded := 0
			for i := range runs {
				if atomic.LoadInt32(&runs[i]) < 2 {
					stranded++
				}
			}
			rep.Fail("impl_ne_spec", nil, cs, map[string]interface{}{"what": fmt.Sprintf("the resource was strobed, but %d of %d healthy rerunners that depend on it were never run again (a sibling's computation ended the goroutine that walks the dependants)", stranded, siblings)})
			return
		}
		rep.Count("directed:goexit_sibling")
		rep.Eval(fmt.Sprintf("directed|goexit-sibling|%d", trial), true, cs)
	}
	// the releases that Stop started run on goroutines of their own: let them finish before the next scenario installs
	// its recorder
	c04Settle()
}

// c04Settle waits until the number of goroutines has stopped changing (at most a second).
func c04Settle() {
	last, same := runtime.NumGoroutine(), 0
	for i := 0; i < 100 && same < 5; i++ {
		time.Sleep(10 * time.Millisecond)
		if n := runtime.NumGoroutine(); n == last {
			same++
		} else {
			last, same = n, 0
		}
	}
}
