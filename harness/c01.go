package main

// C01 — Query results equal sequential reference semantics under any scheduling.

import (
	"context"
	"encoding/json"
	"fmt"
	"github.com/samsarahq/thunder/reactive"
	"os"
	"sync"
	"time"

	"github.com/samsarahq/thunder/batch"
	"github.com/samsarahq/thunder/graphql"
	"github.com/samsarahq/thunder/internal"
)

func init() { register("C01", runC01) }

// ---- work schedulers written by the harness ----------------------------------------------

// seqScheduler runs one unit at a time on the calling goroutine, choosing the next unit by
// policy: fifo, lifo or seeded random.
type seqScheduler struct {
	policy string
	r      *Rand
}

func (s *seqScheduler) Run(resolver graphql.UnitResolver, units ...*graphql.WorkUnit) {
	pool := append([]*graphql.WorkUnit(nil), units...)
	for len(pool) > 0 {
		i := 0
		switch s.policy {
		case "lifo":
			i = len(pool) - 1
		case "random":
			i = s.r.Intn(len(pool))
		}
		u := pool[i]
		pool = append(pool[:i], pool[i+1:]...)
		pool = append(pool, resolver(u)...)
	}
}

// poolScheduler runs units on a bounded pool of goroutines.
type poolScheduler struct{ n int }

func (p *poolScheduler) Run(resolver graphql.UnitResolver, units ...*graphql.WorkUnit) {
	var mu sync.Mutex
	cond := sync.NewCond(&mu)
	queue := append([]*graphql.WorkUnit(nil), units...)
	active := 0
	var wg sync.WaitGroup
	for w := 0; w < p.n; w++ {
		wg.Add(1)
		go func() {
			defer wg.Done()
			for {
				mu.Lock()
				for len(queue) == 0 && active > 0 {
					cond.Wait()
				}
				if len(queue) == 0 && active == 0 {
					mu.Unlock()
					cond.Broadcast()
					return
				}
				u := queue[0]
				queue = queue[1:]
				active++
				mu.Unlock()
				more := resolver(u)
				mu.Lock()
				queue = append(queue, more...)
				active--
				mu.Unlock()
				cond.Broadcast()
			}
		}()
	}
	wg.Wait()
}

func xSchedulers(r *Rand) map[string]graphql.WorkScheduler {
	if os.Getenv("VERIF_SEQ_ONLY") != "" {
		return map[string]graphql.WorkScheduler{"fifo": &seqScheduler{policy: "fifo"}}
	}
	return map[string]graphql.WorkScheduler{
		"goroutines": graphql.NewImmediateGoroutineScheduler(),
		"fifo":       &seqScheduler{policy: "fifo"},
		"lifo":       &seqScheduler{policy: "lifo"},
		"random":     &seqScheduler{policy: "random", r: r.Fork()},
		"pool3":      &poolScheduler{n: 3},
	}
}

type xCase struct {
	Root  *xNode                 `json:"root"`
	Query string                 `json:"query"`
	Vars  map[string]interface{} `json:"vars"`
	Flag  bool                   `json:"flag"`
}

// xRun executes a query on the real executor with the given scheduler.
// xInRerunner / xShareWrappers: execution environment of the next xRun calls (set per case by the checks that use them)
var xInRerunner, xShareWrappers bool

func xUnwrap(n *xNode, seen map[*xNode]bool) {
	if n == nil || seen[n] {
		return
	}
	seen[n] = true
	n.wa = nil
	var walk func(v *xVal)
	walk = func(v *xVal) {
		if v == nil {
			return
		}
		xUnwrap(v.Node, seen)
		for _, e := range v.List {
			walk(e)
		}
	}
	for _, v := range n.F {
		walk(v)
	}
}

func xRun(root *xNode, query string, vars map[string]interface{}, flag bool, sched graphql.WorkScheduler) (out interface{}, err error) {
	schema := buildXSchema()
	if p := safely(func() {
		var q *graphql.Query
		q, err = graphql.Parse(query, vars)
		if err != nil {
			return
		}
		ctx := context.WithValue(context.Background(), xRootKey{}, root)
		ctx = context.WithValue(ctx, xFlagKey{}, flag)
		ctx = batch.WithBatching(ctx)
		if err = graphql.PrepareQuery(ctx, schema.Query, q.SelectionSet); err != nil {
			return
		}
		if xShareWrappers {
			xPrewrap(root, map[*xNode]bool{})
		} else {
			xUnwrap(root, map[*xNode]bool{})
		}
		var v interface{}
		if xInRerunner {
			// the way http.go and the websocket server run the executor: inside a rerunner, so that the reactive cache
			// of Expensive fields is in effect
			done := make(chan struct{})
			rr := reactive.NewRerunner(ctx, func(ctx context.Context) (interface{}, error) {
				defer close(done)
				v, err = graphql.NewExecutor(sched).Execute(ctx, schema.Query, nil, q)
				return nil, err
			}, time.Hour, false)
			<-done
			rr.Stop()
		} else {
			v, err = graphql.NewExecutor(sched).Execute(ctx, schema.Query, nil, q)
		}
		if err != nil {
			return
		}
		out = internal.AsJSON(v)
	}); p != nil {
		return nil, fmt.Errorf("panic: %v", p)
	}
	return out, err
}

// xKF classifies a query into known-finding signatures (none at present for C01).
func xModel(m *Model, prop string, root *xNode, q *xQuery, flag bool) (map[string]interface{}, error) {
	return m.Call(map[string]interface{}{"op": "exec", "schema": xSchemaEnc(flag), "root": 4,
		"data": xNodeEnc(root), "query": q.enc(q.Set), "fuel": 40})
}

func c01One(c *Ctx, m *Model, root *xNode, q *xQuery, flag bool) {
	rep := c.Rep
	xInRerunner, xShareWrappers = c.Rng.Chance(0.5), c.Rng.Chance(0.6)
	defer func() { xInRerunner, xShareWrappers = false, false }()
	cs := xCase{Root: root, Query: q.Text, Vars: q.Vars, Flag: flag}
	resp, err := xModel(m, "C01", root, q, flag)
	if err != nil {
		rep.Fail("harness_error", nil, cs, map[string]interface{}{"error": err.Error()})
		return
	}
	ref, _ := resp["ref"].(map[string]interface{})
	exec, _ := resp["exec"].(map[string]interface{})
	refJ := Canon(sortJ(ref["ok"]))
	execJ := Canon(sortJ(exec["ok"]))
	if refJ != execJ {
		rep.Fail("model_ne_spec", nil, cs, map[string]interface{}{"what": "executor model differs from reference semantics (theorem exec_eq_ref)", "exec": exec, "ref": ref})
	}
	results := map[string]string{}
	for name, sched := range xSchedulers(c.Rng) {
		out, ierr := xRun(root, q.Text, q.Vars, flag, sched)
		if ierr != nil {
			rep.Fail("impl_ne_spec", nil, cs, map[string]interface{}{"what": "valid query on error-free data failed", "scheduler": name, "error": ierr.Error()})
			return
		}
		got := Canon(q.jEnc(out))
		results[name] = got
		if got != refJ {
			rep.Fail("impl_ne_spec", nil, cs, map[string]interface{}{"what": "result differs from the sequential reference semantics", "scheduler": name, "impl": q.jEnc(out), "spec": sortJ(ref["ok"])})
			return
		}
		if got != execJ {
			rep.Fail("impl_ne_model", nil, cs, map[string]interface{}{"what": "result differs from the executor model", "scheduler": name, "impl": q.jEnc(out), "model": sortJ(exec["ok"])})
			return
		}
	}
	rep.Count("ok")
	rep.Eval(q.Text+Canon(xNodeEnc(root)), true, map[string]interface{}{"query": firstN(q.Text, 300)})
}

func runC01(c *Ctx) error {
	m, err := StartModel("C01")
	if err != nil {
		return err
	}
	defer m.Close()
	buildXSchema()
	c.Rep.Rule = "random data trees (objects A/B, union U, lists, nil pointers, key fields) x type-directed random queries (repeated aliases with separate sub-selections, inline and named fragments spread several times, __typename, unions) over one schema exposing every datum under each execution mode (struct field / FieldFunc / Expensive / batch / batch-with-fallback on+off / NumParallelInvocations 2,3); each case executed under 5 work schedulers (goroutines, fifo, lifo, seeded random, pool of 3); all cases non-trivial; distinct by query+data"
	c.Rep.Assumptions = append(c.Rep.Assumptions,
		"resolvers are deterministic functions of the data",
		"fragments under an object parent name that object's type (thunder ignores other type conditions there); fragments under a union name a member",
		"the GraphQL lexer/parser is exercised, not modelled")
	if c.Replay != "" {
		var f struct {
			Case xCase `json:"case"`
		}
		b, err := os.ReadFile(c.Replay)
		if err != nil {
			return err
		}
		var probe struct {
			Case map[string]interface{} `json:"case"`
		}
		if json.Unmarshal(b, &probe) == nil && probe.Case["directed"] != nil {
			c01DirectedOnly = probe.Case
			c01Directed(c)
			return nil
		}
		if err := json.Unmarshal(b, &f); err != nil {
			return err
		}
		for name, sched := range xSchedulers(c.Rng) {
			out, ierr := xRun(f.Case.Root, f.Case.Query, f.Case.Vars, f.Case.Flag, sched)
			fmt.Printf("replay %s: %v %v\n", name, Canon(out), ierr)
		}
		return nil
	}
	c01Directed(c)
	// directed: a named fragment selecting an object field, spread at two places, each time followed by another
	// fragment that selects the same alias with a sub-selection of its own: the fragment's selection is the first
	// occurrence of two different merges (3 and 5 sub-selections: slices with spare capacity after parsing)
	for _, q := range c01SharedFirstOccurrence() {
		for k := 0; k < 6; k++ {
			g := &xGen{r: NewRand(uint64(900 + k))}
			root := g.node("Q", 3)
			c01One(c, m, root, q, k%2 == 0)
			c.Rep.Count("directed:shared_first_occurrence")
		}
	}
	n := c.N(600, 30000)
	for i := 0; i < n; i++ {
		g := &xGen{r: c.Rng}
		root := g.node("Q", 3)
		q := genXQuery(c.Rng, 3, []float64{0, 0, 0.2}[c.Rng.Intn(3)], 0)
		c01One(c, m, root, q, c.Rng.Bool())
	}
	return nil
}

func c01SharedFirstOccurrence() []*xQuery {
	leafNames := []string{"pEx", "qEx", "pBa", "okBa", "pBf", "pXp"}
	var out []*xQuery
	for _, of := range []string{"bsEx", "bsBa", "bEx", "bIn", "bvEx"} {
		for _, k := range []int{3, 5} {
			for _, roots := range [][2]string{{"a", "aXp"}, {"as", "a"}} {
				q := &xQuery{Defs: map[string]*xFrag{}, Vars: map[string]interface{}{}, alias: map[string]int{}}
				fsub := &xSelSet{}
				for i := 0; i < k; i++ {
					f := xFieldByName["B."+leafNames[i]]
					fsub.Sels = append(fsub.Sels, &xSel{Alias: f.Name, Field: f})
				}
				objF := xFieldByName["A."+of]
				def := &xFrag{On: "A", Named: "F1", Set: &xSelSet{Sels: []*xSel{{Alias: of, Field: objF, Sub: fsub}}}}
				q.Defs["F1"] = def
				place := func(rootField string, extra string) *xSel {
					ef := xFieldByName["B."+extra]
					inline := &xFrag{On: "A", Set: &xSelSet{Sels: []*xSel{{Alias: of, Field: objF, Sub: &xSelSet{Sels: []*xSel{{Alias: "k_" + extra, Field: ef}}}}}}}
					return &xSel{Alias: rootField, Field: xFieldByName["Q."+rootField], Sub: &xSelSet{Frags: []*xFrag{{On: "A", Set: def.Set, Named: "F1"}, inline}}}
				}
				q.Set = &xSelSet{Sels: []*xSel{place(roots[0], "qEx"), place(roots[1], "pEx")}}
				q.Text = q.render()
				out = append(out, q)
			}
		}
	}
	return out
}
