// Package main is the correspondence harness: it runs the real thunder code on generated
// inputs / histories, sends the same cases to the executable Lean models (tmodel), and
// reports where implementation, model and specification differ.
package main

import (
	"bufio"
	"bytes"
	"crypto/sha256"
	"encoding/hex"
	"encoding/json"
	"fmt"
	"io"
	"os"
	"os/exec"
	"sort"
	"sync"
	"time"
)

// ---------------------------------------------------------------------------------------
// PRNG: splitmix64; every random choice of a run derives from VERIF_SEED.

type Rand struct{ s uint64 }

func NewRand(seed uint64) *Rand { return &Rand{s: seed*0x9E3779B97F4A7C15 + 0x1234567} }

func (r *Rand) U64() uint64 {
	r.s += 0x9E3779B97F4A7C15
	z := r.s
	z = (z ^ (z >> 30)) * 0xBF58476D1CE4E5B9
	z = (z ^ (z >> 27)) * 0x94D049BB133111EB
	return z ^ (z >> 31)
}
func (r *Rand) Intn(n int) int {
	if n <= 0 {
		return 0
	}
	return int(r.U64() % uint64(n))
}
func (r *Rand) Bool() bool            { return r.U64()&1 == 1 }
func (r *Rand) Chance(p float64) bool { return float64(r.U64()%1000000)/1000000 < p }
func (r *Rand) Fork() *Rand           { return NewRand(r.U64()) }
func (r *Rand) Perm(n int) []int {
	p := make([]int, n)
	for i := range p {
		p[i] = i
	}
	for i := n - 1; i > 0; i-- {
		j := r.Intn(i + 1)
		p[i], p[j] = p[j], p[i]
	}
	return p
}

// ---------------------------------------------------------------------------------------
// Model client: one tmodel child per client, one JSON line per request.

type Model struct {
	cmd *exec.Cmd
	in  io.WriteCloser
	out *bufio.Reader
	mu  sync.Mutex
	n   int
}

func tmodelPath() string {
	if p := os.Getenv("VERIF_TMODEL"); p != "" {
		return p
	}
	return "/verif/lean/.lake/build/bin/tmodel"
}

func StartModel(prop string) (*Model, error) {
	cmd := exec.Command(tmodelPath(), prop)
	in, err := cmd.StdinPipe()
	if err != nil {
		return nil, err
	}
	out, err := cmd.StdoutPipe()
	if err != nil {
		return nil, err
	}
	cmd.Stderr = os.Stderr
	if err := cmd.Start(); err != nil {
		return nil, err
	}
	return &Model{cmd: cmd, in: in, out: bufio.NewReaderSize(out, 1<<20)}, nil
}

// Call sends one request and returns the "ok" payload, or an error carrying the model's "err".
func (m *Model) Call(req interface{}) (map[string]interface{}, error) {
	m.mu.Lock()
	defer m.mu.Unlock()
	b, err := json.Marshal(req)
	if err != nil {
		return nil, err
	}
	b = append(b, '\n')
	if _, err := m.in.Write(b); err != nil {
		return nil, fmt.Errorf("model write: %v", err)
	}
	line, err := m.out.ReadBytes('\n')
	if err != nil {
		return nil, fmt.Errorf("model read: %v", err)
	}
	m.n++
	var resp map[string]interface{}
	dec := json.NewDecoder(bytes.NewReader(line))
	dec.UseNumber()
	if err := dec.Decode(&resp); err != nil {
		return nil, fmt.Errorf("model response not JSON: %v: %s", err, line)
	}
	if e, ok := resp["err"]; ok {
		return nil, fmt.Errorf("model: %v", e)
	}
	ok, _ := resp["ok"].(map[string]interface{})
	if ok == nil {
		return map[string]interface{}{"value": resp["ok"]}, nil
	}
	return ok, nil
}

func (m *Model) Close() {
	m.in.Close()
	m.cmd.Wait()
}

// ---------------------------------------------------------------------------------------
// Canonical JSON (sorted keys; numbers as decoded with UseNumber or Go numbers).

func Canon(v interface{}) string {
	b, err := json.Marshal(canonValue(v))
	if err != nil {
		return fmt.Sprintf("<unmarshalable %T: %v>", v, err)
	}
	return string(b)
}

// canonValue round-trips through encoding/json so that maps are printed with sorted keys and
// all numbers take their JSON text form.
func canonValue(v interface{}) interface{} {
	b, err := json.Marshal(v)
	if err != nil {
		return fmt.Sprintf("<unmarshalable %T: %v>", v, err)
	}
	var out interface{}
	dec := json.NewDecoder(bytes.NewReader(b))
	dec.UseNumber()
	if err := dec.Decode(&out); err != nil {
		return string(b)
	}
	return out
}

func hashOf(s string) string {
	h := sha256.Sum256([]byte(s))
	return hex.EncodeToString(h[:8])
}

// ---------------------------------------------------------------------------------------
// Report: what a run covered and where it disagreed. Written as JSON for bin/check.

type Failure struct {
	// Kind: impl_ne_spec (property fails on the real code), impl_ne_model (correspondence
	// broken), model_ne_spec (theorem contradicted: machinery bug), harness_error.
	Kind   string                 `json:"kind"`
	KF     []string               `json:"kf"` // known-finding signatures this case satisfies
	Case   interface{}            `json:"case"`
	Detail map[string]interface{} `json:"detail"`
}

type Repro struct {
	Fails  bool   `json:"fails"`
	Detail string `json:"detail"`
}

type Report struct {
	Property    string                 `json:"property"`
	Tier        string                 `json:"tier"`
	Seed        uint64                 `json:"seed"`
	Evaluations int                    `json:"evaluations"`
	Distinct    int                    `json:"distinct_nontrivial"`
	Rule        string                 `json:"rule"`
	Samples     []interface{}          `json:"samples"`
	Histogram   map[string]int         `json:"histogram"`
	Traces      int                    `json:"traces_validated_against_impl"`
	Failures    []Failure              `json:"failures"`
	KFHits      map[string]int         `json:"known_findings_hit"`
	Repros      map[string]Repro       `json:"reproducers"`
	Assumptions []string               `json:"assumptions"`
	Extra       map[string]interface{} `json:"extra"`
	WallS       float64                `json:"wall_s"`

	mu       sync.Mutex
	seen     map[string]struct{}
	maxFail  int
	start    time.Time
	nSamples int
}

func NewReport(prop, tier string, seed uint64) *Report {
	return &Report{Property: prop, Tier: tier, Seed: seed, Histogram: map[string]int{}, KFHits: map[string]int{},
		Repros: map[string]Repro{}, Extra: map[string]interface{}{}, seen: map[string]struct{}{}, maxFail: 20,
		start: time.Now(), Samples: []interface{}{}, Failures: []Failure{}, Assumptions: []string{}}
}

func (r *Report) Count(key string) { r.mu.Lock(); r.Histogram[key]++; r.mu.Unlock() }
func (r *Report) CountN(key string, n int) {
	r.mu.Lock()
	r.Histogram[key] += n
	r.mu.Unlock()
}

// Eval records one evaluated case; canon identifies it, nontrivial says whether it exercises a
// non-identity branch of the core (rule documented per property).
func (r *Report) Eval(canon string, nontrivial bool, sample interface{}) {
	r.mu.Lock()
	defer r.mu.Unlock()
	r.Evaluations++
	if nontrivial {
		h := hashOf(canon)
		if _, ok := r.seen[h]; !ok {
			r.seen[h] = struct{}{}
			r.Distinct++
			if r.nSamples < 4 && sample != nil {
				r.Samples = append(r.Samples, sample)
				r.nSamples++
			}
		}
	}
}

// Inflight journals the case about to be executed (when the check asked for it), so that a case that kills
// the process - a crash outside recover, memory exhaustion, a hang - can be re-run on its own and reported.
func Inflight(c interface{}) {
	p := os.Getenv("VERIF_INFLIGHT")
	if p == "" {
		return
	}
	b, err := json.Marshal(c)
	if err != nil {
		return
	}
	os.WriteFile(p, b, 0644)
}

// InflightDone clears the journal.
func InflightDone() {
	if p := os.Getenv("VERIF_INFLIGHT"); p != "" {
		os.WriteFile(p, nil, 0644)
	}
}

func (r *Report) Fail(kind string, kf []string, c interface{}, detail map[string]interface{}) {
	r.mu.Lock()
	defer r.mu.Unlock()
	if len(kf) > 0 && kind == "impl_ne_spec" {
		for _, k := range kf {
			r.KFHits[k]++
		}
	}
	if len(kf) > 0 {
		r.Histogram["fail:"+kind+":known_finding"]++
	} else {
		r.Histogram["fail:"+kind]++
	}
	// keep up to maxFail cases per kind, so that a flood of correspondence failures cannot crowd
	// out a property violation
	// (cases accounted to known findings have their own quota)
	n := 0
	for _, f := range r.Failures {
		if f.Kind == kind && (len(f.KF) > 0) == (len(kf) > 0) {
			n++
		}
	}
	if n >= r.maxFail {
		return
	}
	if kf == nil {
		kf = []string{}
	}
	r.Failures = append(r.Failures, Failure{Kind: kind, KF: kf, Case: c, Detail: detail})
}

// ShouldStop tells long loops to end early once enough property violations have been recorded
// (every further case of a deadlocking mutant costs a timeout).
func (r *Report) ShouldStop() bool {
	r.mu.Lock()
	defer r.mu.Unlock()
	return r.Histogram["fail:impl_ne_spec"] >= 12
}

func (r *Report) NumFailures() int { r.mu.Lock(); defer r.mu.Unlock(); return len(r.Failures) }

func (r *Report) Write(path string) error {
	r.WallS = time.Since(r.start).Seconds()
	sort.SliceStable(r.Failures, func(i, j int) bool {
		return len(Canon(r.Failures[i].Case)) < len(Canon(r.Failures[j].Case))
	})
	b, err := json.MarshalIndent(r, "", " ")
	if err != nil {
		return err
	}
	return os.WriteFile(path, b, 0o644)
}

// ---------------------------------------------------------------------------------------
// Run context and registry.

type Ctx struct {
	Prop   string
	Tier   string
	Seed   uint64
	Rng    *Rand
	Rep    *Report
	Replay string // path of a replay file, or ""
	Only   string // run only this known-finding reproducer
}

// N picks the case count for the tier.
func (c *Ctx) N(quick, thorough int) int {
	if c.Tier == "thorough" {
		return thorough
	}
	return quick
}

type PropRunner func(c *Ctx) error

var registry = map[string]PropRunner{}

func register(id string, f PropRunner) { registry[id] = f }

// safely runs f, converting a panic into an error value ("panic: …").
func safely(f func()) (perr interface{}) {
	defer func() {
		if r := recover(); r != nil {
			perr = r
		}
	}()
	f()
	return nil
}

// withTimeout runs f in a goroutine and reports whether it finished in time.
func withTimeout(d time.Duration, f func()) bool {
	done := make(chan struct{})
	go func() { defer close(done); f() }()
	select {
	case <-done:
		return true
	case <-patient(d):
		return false
	}
}

func deepCopyJSON(v interface{}) interface{} {
	switch v := v.(type) {
	case map[string]interface{}:
		m := make(map[string]interface{}, len(v))
		for k, x := range v {
			m[k] = deepCopyJSON(x)
		}
		return m
	case []interface{}:
		s := make([]interface{}, len(v))
		for i, x := range v {
			s[i] = deepCopyJSON(x)
		}
		return s
	case []byte:
		return append([]byte(nil), v...)
	default:
		return v
	}
}

func sortedKeys(m map[string]interface{}) []string {
	ks := make([]string, 0, len(m))
	for k := range m {
		ks = append(ks, k)
	}
	sort.Strings(ks)
	return ks
}

// patient is time.After for the harness's own verdicts ("did not return within d"): the deadline is counted in twenty
// steps, and a step that took far longer than it should - the process or the whole machine was stopped for a while,
// a snapshot, a debugger - does not count. A single long timer would fire together with everything else the moment
// the process resumes, and the select that waits for it would report a hang that never was.
func patient(d time.Duration) <-chan struct{} {
	ch := make(chan struct{})
	go func() {
		step := d / 20
		if step <= 0 {
			step = time.Millisecond
		}
		for good := 0; good < 20; {
			t0 := time.Now()
			time.Sleep(step)
			if time.Since(t0) < 3*step+50*time.Millisecond {
				good++
			}
		}
		close(ch)
	}()
	return ch
}

// patience is a deadline for the harness's polling loops that only counts time the process was seen running: the
// time between two looks counts for at most a quarter of a second, so a stop of the process (or of the machine) in the
// middle does not turn into "did not settle within ...".
type patience struct {
	budget, used time.Duration
	last         time.Time
}

func newPatience(d time.Duration) *patience { return &patience{budget: d, last: time.Now()} }

func (p *patience) expired() bool {
	now := time.Now()
	e := now.Sub(p.last)
	if e > 250*time.Millisecond {
		e = 250 * time.Millisecond
	}
	p.used += e
	p.last = now
	return p.used >= p.budget
}
