package main

// Connection harness shared by C17 (lifecycle), C02 (convergence) and the websocket part of C16:
// a real graphql conn served over a fake JSON socket, a schema whose resolvers read a small
// versioned database through reactive resources, and a recorder for everything observable.

import (
	"context"
	"encoding/json"
	"errors"
	"fmt"
	"runtime"
	"sort"
	"sync"
	"sync/atomic"
	"time"

	"github.com/gorilla/websocket"
	"github.com/samsarahq/thunder/graphql"
	"github.com/samsarahq/thunder/graphql/schemabuilder"
	"github.com/samsarahq/thunder/internal"
	"github.com/samsarahq/thunder/merge"
	"github.com/samsarahq/thunder/reactive"
)

// ---- database ------------------------------------------------------------------------------------

type cnItem struct {
	ID   int64 `graphql:"id,key"`
	Name string
	Tags []string
	Sub  *cnSub
	Gone bool `graphql:"-"` // resolves to a null list element
}
type cnSub struct {
	V int64
}

// cnBlob: an object keyed by a []byte field (a binary(16) primary key): the diff of a live subscription meets a __key
// that cannot be compared (findings C15-6 / C02-1)
type cnBlob struct {
	Key  []byte `graphql:"key,key"`
	Name string
}
type cnBox struct{}
type CnCat struct{ Lives int64 }
type CnDog struct {
	Age   int64
	Owner *cnSub // null for half of the ages: a member switch then adds a field whose value is null
}
type cnPet struct {
	schemabuilder.Union
	*CnCat
	*CnDog
}

type cnDB struct {
	mu       sync.Mutex
	n        int64
	items    []cnItem
	pet      int // 0 none, 1 cat, 2 dog
	petVal   int64
	slowUs   int
	failMode int   // 0 ok, 1 plain error, 2 safe error, 3 panic, 4 plain error wrapping context.Canceled
	failOnce int   // the next run of `flaky` fails this way, once; its recovery is not accompanied by any invalidation
	vetoOnce bool  // the next re-run's result is computed and then refused by a middleware (result and error both set), once
	m        int64 // a datum of its own, behind its own resource (res2): read by an Expensive field below a slow parent
	res2     *reactive.Resource
	res      *reactive.Resource
	cleanups *int32
	allClean []*int32
	used     []*int32
}

func (db *cnDB) freshResource() {
	db.res = reactive.NewResource()
	c := new(int32)
	u := new(int32)
	db.cleanups = c
	db.allClean = append(db.allClean, c)
	db.used = append(db.used, u)
	db.res.Cleanup(func() { atomic.AddInt32(c, 1) })
}

// dep registers the dependency of the running computation on the database (before reading it).
func (db *cnDB) dep(ctx context.Context) {
	db.mu.Lock()
	if db.res == nil || db.res.Invalidated() {
		db.freshResource()
	}
	r := db.res
	atomic.StoreInt32(db.used[len(db.used)-1], 1)
	db.mu.Unlock()
	reactive.AddDependency(ctx, r, nil)
}

// dep2 registers the dependency on the second datum.
func (db *cnDB) dep2(ctx context.Context) {
	db.mu.Lock()
	if db.res2 == nil || db.res2.Invalidated() {
		db.res2 = reactive.NewResource()
	}
	r := db.res2
	db.mu.Unlock()
	reactive.AddDependency(ctx, r, nil)
}

// changeM changes the second datum and invalidates only what read it.
func (db *cnDB) changeM() {
	db.mu.Lock()
	db.m++
	old := db.res2
	db.res2 = nil
	db.mu.Unlock()
	if old != nil {
		old.Invalidate()
	}
}

// change applies f to the data and invalidates what was read before.
func (db *cnDB) change(f func()) {
	db.mu.Lock()
	f()
	old := db.res
	db.res = nil
	db.mu.Unlock()
	if old != nil {
		old.Invalidate()
	}
}

type cnRec struct {
	mu     sync.Mutex
	seq    int
	events []cnEvent
	reader int64 // goroutine id of the connection's reader loop
}

type cnEvent struct {
	Seq  int         `json:"seq"`
	Kind string      `json:"kind"` // in | write | S | U | exec | hook:<kind>
	ID   string      `json:"id,omitempty"`
	Data interface{} `json:"data,omitempty"`
	Key  string      `json:"key,omitempty"`
	Go   int64       `json:"go,omitempty"`
}

func (r *cnRec) add(kind, id string, data interface{}, key string) {
	r.mu.Lock()
	r.seq++
	r.events = append(r.events, cnEvent{Seq: r.seq, Kind: kind, ID: id, Data: data, Key: key, Go: goid()})
	r.mu.Unlock()
}

type cnSubIDKey struct{}

// application errors with a text for the log and another one for the client: only the latter may travel
type cnAppErr struct{}

func (cnAppErr) Error() string          { return "secret-app-log-text" }
func (cnAppErr) SanitizedError() string { return "app-client-text" }

type cnAppErrP struct{}

func (*cnAppErrP) Error() string          { return "secret-app-log-text" }
func (*cnAppErrP) SanitizedError() string { return "app-client-text" }

func cnSchema(db *cnDB, rec *cnRec) *graphql.Schema {
	sb := schemabuilder.NewSchema()
	q := sb.Query()
	enter := func(ctx context.Context, field string) error {
		id, _ := ctx.Value(cnSubIDKey{}).(string)
		rec.add("exec", id, field, "")
		db.dep(ctx)
		if db.slowUs > 0 {
			time.Sleep(time.Duration(db.slowUs) * time.Microsecond)
		}
		db.mu.Lock()
		mode := db.failMode
		if field == "flaky" && mode == 0 && db.failOnce != 0 {
			mode, db.failOnce = db.failOnce, 0
		}
		db.mu.Unlock()
		if field == "flaky" {
			switch mode {
			case 1:
				return errors.New("secret-plain-text")
			case 2:
				return graphql.NewSafeError("safe-text")
			case 3:
				panic("secret-panic-text")
			case 4:
				// an ordinary failure whose text mentions a cancellation it wraps: not a cancellation of this run
				return fmt.Errorf("secret-upstream-gave-up: %w", context.Canceled)
			case 5:
				// the resolver itself reports a cancellation (an upstream call of its own was cancelled) while the run goes on:
				// an ordinary failure (finding C16-4: an initially failing subscription of this kind used to end without a word)
				return context.Canceled
			case 6:
				// an application error with a text for the log and another one for the client
				return cnAppErr{}
			case 7:
				// a resolver that honours its context: it waits until the run is cancelled (4 s at most)
				select {
				case <-ctx.Done():
					return ctx.Err()
				case <-time.After(4 * time.Second):
					return nil
				}
			}
		}
		return nil
	}
	q.FieldFunc("n", func(ctx context.Context) (int64, error) {
		if err := enter(ctx, "n"); err != nil {
			return 0, err
		}
		db.mu.Lock()
		defer db.mu.Unlock()
		return db.n, nil
	})
	q.FieldFunc("flaky", func(ctx context.Context) (int64, error) {
		if err := enter(ctx, "flaky"); err != nil {
			return 0, err
		}
		db.mu.Lock()
		defer db.mu.Unlock()
		return db.n, nil
	})
	q.FieldFunc("items", func(ctx context.Context) ([]*cnItem, error) {
		if err := enter(ctx, "items"); err != nil {
			return nil, err
		}
		db.mu.Lock()
		defer db.mu.Unlock()
		out := make([]*cnItem, len(db.items))
		for i := range db.items {
			it := db.items[i]
			if it.Gone {
				continue // a nil pointer: a null element in place
			}
			it.Tags = append([]string{}, it.Tags...)
			if it.Sub != nil {
				s := *it.Sub
				it.Sub = &s
			}
			out[i] = &it
		}
		return out, nil
	})
	q.FieldFunc("blobs", func(ctx context.Context) ([]*cnBlob, error) {
		if err := enter(ctx, "blobs"); err != nil {
			return nil, err
		}
		db.mu.Lock()
		defer db.mu.Unlock()
		var out []*cnBlob
		for _, it := range db.items {
			if !it.Gone {
				out = append(out, &cnBlob{Key: []byte{byte(it.ID), 0xff}, Name: it.Name})
			}
		}
		return out, nil
	})
	q.FieldFunc("pet", func(ctx context.Context) (*cnPet, error) {
		if err := enter(ctx, "pet"); err != nil {
			return nil, err
		}
		db.mu.Lock()
		defer db.mu.Unlock()
		switch db.pet {
		case 1:
			return &cnPet{CnCat: &CnCat{Lives: db.petVal}}, nil
		case 2:
			d := &CnDog{Age: db.petVal}
			if (db.petVal/8)%2 == 1 {
				d.Owner = &cnSub{V: db.petVal}
			}
			return &cnPet{CnDog: d}, nil
		}
		return nil, nil
	})
	// `box` is slow to arrive (SlowUs, at least 1.5 ms); below it an Expensive field reads the second datum: its cached
	// value may be invalidated between the start of a re-run and the moment the re-run looks it up
	q.FieldFunc("box", func(ctx context.Context) (*cnBox, error) {
		if err := enter(ctx, "box"); err != nil {
			return nil, err
		}
		d := time.Duration(db.slowUs) * time.Microsecond
		if d < 1500*time.Microsecond {
			d = 1500 * time.Microsecond
		}
		time.Sleep(d)
		return &cnBox{}, nil
	})
	box := sb.Object("cnBox", cnBox{})
	box.FieldFunc("m", func(ctx context.Context, b *cnBox) (int64, error) {
		id, _ := ctx.Value(cnSubIDKey{}).(string)
		rec.add("exec", id, "m", "")
		db.dep2(ctx)
		db.mu.Lock()
		defer db.mu.Unlock()
		return db.m, nil
	}, schemabuilder.Expensive)
	sb.Object("cnItem", cnItem{})
	sb.Object("cnSub", cnSub{})
	sb.Object("cnBlob", cnBlob{})
	sb.Object("CnCat", CnCat{})
	sb.Object("CnDog", CnDog{})
	m := sb.Mutation()
	m.FieldFunc("setN", func(ctx context.Context, args struct{ V int64 }) (int64, error) {
		id, _ := ctx.Value(cnSubIDKey{}).(string)
		rec.add("exec", id, "setN", "")
		db.change(func() { db.n = args.V })
		return args.V, nil
	})
	m.FieldFunc("failing", func(ctx context.Context) (int64, error) {
		return 0, errors.New("secret-mutation-text")
	})
	m.FieldFunc("failingApp", func(ctx context.Context) (int64, error) { return 0, cnAppErr{} })
	m.FieldFunc("failingAppP", func(ctx context.Context) (int64, error) { return 0, &cnAppErrP{} })
	return sb.MustBuild()
}

var cnQueries = []string{
	"query A { n }",
	"query B { items { id name tags sub { v } } }",
	"query C { pet { __typename ... on CnCat { lives } ... on CnDog { age owner { v } } } n }",
	"query D { items { id name } n pet { ... on CnCat { lives } } }",
	"query E { flaky n }",
	"query F { n box { m } }",
	// the alias __key is refused since the repair C02-1 (a list under it made the first re-run's diff panic, a scalar
	// was lost from every update): a subscription that is refused when it is parsed
	"query G { __key: items { id name } n }",
	// objects whose key is a []byte: a __key that cannot be compared
	"query H { blobs { name } n }",
}

// ---- fake socket -------------------------------------------------------------------------------------

type cnSocket struct {
	abrupt bool // the read side ends with a plain error instead of a websocket close frame
	rec    *cnRec
	in     chan map[string]interface{}
	closed chan struct{}
	once   sync.Once
}

func (s *cnSocket) ReadJSON(v interface{}) error {
	s.rec.mu.Lock()
	if s.rec.reader == 0 {
		s.rec.reader = goid()
	}
	s.rec.mu.Unlock()
	select {
	case m, ok := <-s.in:
		if !ok {
			return &websocket.CloseError{Code: websocket.CloseNormalClosure}
		}
		b, _ := json.Marshal(m)
		s.rec.add("in", fmt.Sprint(m["id"]), m, "")
		return json.Unmarshal(b, v)
	case <-s.closed:
		if s.abrupt {
			return errors.New("read: connection reset by peer")
		}
		return &websocket.CloseError{Code: websocket.CloseGoingAway}
	}
}

func (s *cnSocket) WriteJSON(v interface{}) error {
	b, err := json.Marshal(v)
	if err != nil {
		return err
	}
	var m map[string]interface{}
	json.Unmarshal(b, &m)
	s.rec.add("write", fmt.Sprint(m["id"]), m, "")
	return nil
}

func (s *cnSocket) Close() error { s.once.Do(func() { close(s.closed) }); return nil }

type cnLogger struct{ rec *cnRec }

func (l *cnLogger) Subscribe(ctx context.Context, id string, tags map[string]string) {
	l.rec.add("S", id, tags["query"], "")
}
func (l *cnLogger) Unsubscribe(ctx context.Context, id string) { l.rec.add("U", id, nil, "") }

// ---- scenario -------------------------------------------------------------------------------------------

type cnAction struct {
	Op    string `json:"op"` // subscribe | unsubscribe | mutate | mutateFail | change | echo | malformed | fail | heal | pause
	ID    int    `json:"id,omitempty"`
	Query int    `json:"query,omitempty"`
	Arg   int64  `json:"arg,omitempty"`
}

type cnCase struct {
	Seed    uint64     `json:"seed"`
	Actions []cnAction `json:"actions"`
	MaxSubs int        `json:"max_subs"`
	// CloseEarly: the socket is closed right after the last action, while runs may be in flight (no settling first)
	CloseEarly bool `json:"close_early,omitempty"`
	// SlowUs: every resolver entry takes this long, so that closes, unsubscribes and failures land inside runs
	SlowUs int `json:"slow_us,omitempty"`
}

type cnResult struct {
	Events   []cnEvent
	Final    map[string]interface{} // fresh result per live subscription id at quiescence
	Queries  map[string]string      // query text of each accepted subscription, by id (latest)
	Cleanups []int32
	Used     []int32
	Problem  string
}

func cnGenActions(r *Rand, n int) []cnAction {
	var out []cnAction
	for i := 0; i < n; i++ {
		id := 1 + r.Intn(3)
		switch r.Intn(15) {
		case 14:
			out = append(out, cnAction{Op: []string{"failOnce", "failOnce", "vetoOnce", "changeM"}[r.Intn(4)], Arg: int64(1 + r.Intn(2))})
		case 0, 1, 2, 3:
			out = append(out, cnAction{Op: "subscribe", ID: id, Query: r.Intn(len(cnQueries))})
		case 4, 5:
			out = append(out, cnAction{Op: "unsubscribe", ID: id})
		case 6:
			out = append(out, cnAction{Op: "mutate", ID: id, Arg: int64(r.Intn(50))})
		case 7, 8, 9:
			arg := int64(r.Intn(1000))
			if r.Chance(0.25) {
				arg = arg/8*8 + 5 // member switches more often than the other kinds of change
			}
			out = append(out, cnAction{Op: "change", Arg: arg})
		case 10:
			out = append(out, cnAction{Op: []string{"echo", "malformed", "mutateFail"}[r.Intn(3)], ID: id})
		case 11:
			out = append(out, cnAction{Op: "fail", Arg: int64(1 + r.Intn(3))})
		case 12:
			out = append(out, cnAction{Op: "heal"})
		case 13:
			out = append(out, cnAction{Op: "pause", Arg: int64(r.Intn(400))})
		}
	}
	return out
}

func cnApplyChange(db *cnDB, r *Rand, arg int64) {
	db.change(func() {
		switch arg % 8 {
		case 0:
			db.n = arg
		case 1: // item appears
			db.items = append(db.items, cnItem{ID: int64(len(db.items) + 1 + int(arg%5)*10), Name: fmt.Sprintf("i%d", arg), Tags: []string{"a"}})
			seen := map[int64]bool{}
			var uniq []cnItem
			for _, it := range db.items {
				if !seen[it.ID] {
					seen[it.ID] = true
					uniq = append(uniq, it)
				}
			}
			db.items = uniq
		case 2: // item disappears
			if len(db.items) > 0 {
				i := int(arg) % len(db.items)
				db.items = append(db.items[:i:i], db.items[i+1:]...)
			}
		case 3: // reorder
			if len(db.items) > 1 {
				i, j := int(arg)%len(db.items), int(arg/7)%len(db.items)
				db.items[i], db.items[j] = db.items[j], db.items[i]
			}
		case 4: // nested change / null
			if len(db.items) > 0 {
				i := int(arg) % len(db.items)
				if db.items[i].Sub == nil {
					db.items[i].Sub = &cnSub{V: arg}
				} else if arg%2 == 0 {
					db.items[i].Sub = nil
				} else {
					db.items[i].Sub.V = arg
				}
				db.items[i].Tags = append(db.items[i].Tags, fmt.Sprintf("t%d", arg%4))
				if len(db.items[i].Tags) > 3 {
					db.items[i].Tags = db.items[i].Tags[2:]
				}
			}
		case 5: // union member switch
			db.pet = int(arg/7) % 3
			db.petVal = arg
		case 6:
			db.petVal = arg + 1
		case 7: // an element becomes null in place / comes back
			if len(db.items) > 0 {
				i := int(arg/8) % len(db.items)
				db.items[i].Gone = !db.items[i].Gone
			}
		}
	})
}

// cnRun plays one history against a real connection.
func cnRun(cs cnCase) *cnResult {
	r := NewRand(cs.Seed)
	rec := &cnRec{}
	db := &cnDB{slowUs: cs.SlowUs}
	db.items = []cnItem{{ID: 1, Name: "one", Tags: []string{"x"}}, {ID: 2, Name: "two", Tags: []string{}}}
	schema := cnSchema(db, rec)
	oldDelay := reactive.WriteThenReadDelay
	reactive.WriteThenReadDelay = 0
	defer func() { reactive.WriteThenReadDelay = oldDelay }()
	keys := map[interface{}]int{}
	graphql.VerifConnHook = func(kind, id string, key interface{}) {
		rec.mu.Lock()
		k := ""
		if key != nil {
			if _, ok := keys[key]; !ok {
				keys[key] = len(keys)
			}
			k = fmt.Sprint(keys[key])
		}
		rec.seq++
		seq := rec.seq
		rec.events = append(rec.events, cnEvent{Seq: rec.seq, Kind: "hook:" + kind, ID: id, Key: k, Go: goid()})
		rec.mu.Unlock()
		if r2 := seq % 5; r2 == 0 {
			runtime.Gosched()
		}
	}
	defer func() { graphql.VerifConnHook = nil }()

	sock := &cnSocket{rec: rec, in: make(chan map[string]interface{}), closed: make(chan struct{}), abrupt: cs.Seed%3 == 0}
	ctx, cancel := context.WithCancel(context.Background())
	defer cancel()
	max := cs.MaxSubs
	if max == 0 {
		max = 200
	}
	conn := graphql.CreateConnection(ctx, sock, schema,
		graphql.WithSubscriptionLogger(&cnLogger{rec}),
		graphql.WithMinRerunInterval(time.Microsecond),
		graphql.WithMaxSubscriptions(max),
		graphql.WithAlwaysSpawnGoroutineFunc(func(context.Context, *graphql.Query) bool { return cs.Seed%2 == 0 }))
	conn.Use(func(input *graphql.ComputationInput, next graphql.MiddlewareNextFunc) *graphql.ComputationOutput {
		input.Ctx = context.WithValue(input.Ctx, cnSubIDKey{}, input.Id)
		out := next(input)
		if out.Error == nil && input.ParsedQuery != nil && input.ParsedQuery.Kind != "mutation" && input.Previous != nil {
			db.mu.Lock()
			veto := db.vetoOnce
			db.vetoOnce = false
			db.mu.Unlock()
			if veto {
				// a policy middleware refuses a result that was computed: it is never sent; the server has to retry
				out.Error = errors.New("secret-middleware-veto")
				return out
			}
		}
		if out.Error == nil && input.ParsedQuery != nil && input.ParsedQuery.Kind != "mutation" {
			rec.add("result", input.Id, internal.AsJSON(out.Current), "")
		}
		return out
	})
	served := make(chan struct{})
	go func() { conn.ServeJSONSocket(); close(served) }()

	res := &cnResult{Queries: map[string]string{}}
	send := func(m map[string]interface{}) {
		select {
		case sock.in <- m:
		case <-patient(3 * time.Second):
			res.Problem = "the connection stopped reading"
		}
	}
	quiet := func() bool {
		deadline := newPatience(6 * time.Second)
		for {
			rec.mu.Lock()
			before := rec.seq
			rec.mu.Unlock()
			time.Sleep(25 * time.Millisecond)
			rec.mu.Lock()
			same := rec.seq == before
			rec.mu.Unlock()
			if same {
				return true
			}
			if deadline.expired() {
				return false
			}
		}
	}
	for _, a := range cs.Actions {
		id := fmt.Sprint(a.ID)
		switch a.Op {
		case "subscribe":
			send(map[string]interface{}{"id": id, "type": "subscribe", "message": map[string]interface{}{"query": cnQueries[a.Query], "variables": map[string]interface{}{}}})
		case "unsubscribe":
			send(map[string]interface{}{"id": id, "type": "unsubscribe"})
		case "mutate":
			send(map[string]interface{}{"id": id, "type": "mutate", "message": map[string]interface{}{"query": fmt.Sprintf("mutation M { setN(v: %d) }", a.Arg), "variables": map[string]interface{}{}}})
		case "mutateFail":
			send(map[string]interface{}{"id": id, "type": "mutate", "message": map[string]interface{}{"query": "mutation M { " + []string{"failing", "failingApp", "failingAppP"}[a.ID%3] + " }", "variables": map[string]interface{}{}}})
		case "echo":
			send(map[string]interface{}{"id": id, "type": "echo"})
		case "malformed":
			switch a.ID % 3 {
			case 0:
				send(map[string]interface{}{"id": id, "type": "nonsense"})
			case 1:
				send(map[string]interface{}{"id": id, "type": "subscribe", "message": "not an object"})
			case 2:
				send(map[string]interface{}{"id": id, "type": "subscribe", "message": map[string]interface{}{"query": "query { nope {", "variables": map[string]interface{}{}}})
			}
		case "change":
			cnApplyChange(db, r, a.Arg)
		case "fail":
			db.change(func() { db.failMode = int(a.Arg) })
		case "heal":
			db.change(func() { db.failMode = 0 })
		case "failOnce":
			// the data changes, and the next run of `flaky` fails once (plainly or with a client-safe error)
			db.change(func() { db.failOnce = int(a.Arg); db.n++ })
		case "vetoOnce":
			db.change(func() { db.vetoOnce = true; db.n++ })
		case "changeM":
			db.changeM()
		case "settle":
			quiet()
		case "pause":
			time.Sleep(time.Duration(a.Arg) * time.Microsecond)
		}
		if r.Chance(0.5) {
			runtime.Gosched()
		}
	}
	if cs.CloseEarly {
		// no settling: close while whatever is running runs
		rec.add("quiescent", "", nil, "")
		res.Final = map[string]interface{}{}
		sock.Close()
		select {
		case <-served:
		case <-patient(3 * time.Second):
			res.Problem = "ServeJSONSocket did not return after the socket closed"
		}
		rec.add("closed", "", nil, "")
		db.change(func() { db.failMode = 0 })
		deadline := newPatience(6 * time.Second)
		for {
			rec.mu.Lock()
			before := rec.seq
			rec.mu.Unlock()
			time.Sleep(25 * time.Millisecond)
			rec.mu.Lock()
			same := rec.seq == before
			rec.mu.Unlock()
			if same {
				break
			}
			if deadline.expired() {
				res.Problem = "no quiescence after close"
				break
			}
		}
		cnApplyChange(db, r, 7)
		time.Sleep(30 * time.Millisecond)
		rec.mu.Lock()
		res.Events = append([]cnEvent{}, rec.events...)
		rec.mu.Unlock()
		db.mu.Lock()
		for i, c := range db.allClean {
			res.Cleanups = append(res.Cleanups, atomic.LoadInt32(c))
			res.Used = append(res.Used, atomic.LoadInt32(db.used[i]))
		}
		db.mu.Unlock()
		return res
	}
	// let the data settle: heal (a persistent failure ends with a change; nothing is invalidated when none is
	// in force, so that a run lost earlier is not papered over), then wait until nothing happens any more
	db.mu.Lock()
	failing := db.failMode != 0
	db.mu.Unlock()
	if failing {
		db.change(func() { db.failMode = 0 })
	}
	if !quiet() {
		res.Problem = "no quiescence before close"
	}
	rec.add("quiescent", "", nil, "")
	// what a fresh execution of each query returns now
	res.Final = map[string]interface{}{}
	for qi, qt := range cnQueries {
		q, err := graphql.Parse(qt, map[string]interface{}{})
		if err == nil {
			err = graphql.PrepareQuery(context.Background(), schema.Query, q.SelectionSet)
		}
		if err == nil {
			v, err2 := graphql.NewExecutor(graphql.NewImmediateGoroutineScheduler()).Execute(context.Background(), schema.Query, nil, q)
			if err2 == nil {
				res.Final[fmt.Sprint(qi)] = internal.AsJSON(v)
			}
		}
	}
	// close the socket: everything must end
	sock.Close()
	select {
	case <-served:
	case <-patient(3 * time.Second):
		res.Problem = "ServeJSONSocket did not return after the socket closed"
	}
	rec.add("closed", "", nil, "")
	if !quiet() {
		res.Problem = "no quiescence after close"
	}
	// a change after everything ended must not wake anything up
	cnApplyChange(db, r, 7)
	cnApplyChange(db, r, 14)
	time.Sleep(30 * time.Millisecond)
	rec.mu.Lock()
	res.Events = append([]cnEvent{}, rec.events...)
	rec.mu.Unlock()
	db.mu.Lock()
	for i, c := range db.allClean {
		res.Cleanups = append(res.Cleanups, atomic.LoadInt32(c))
		res.Used = append(res.Used, atomic.LoadInt32(db.used[i]))
	}
	db.mu.Unlock()
	return res
}

// cnStripKeys removes the internal key fields from a result.
func cnStripKeys(v interface{}) interface{} {
	switch v := v.(type) {
	case map[string]interface{}:
		out := map[string]interface{}{}
		for k, x := range v {
			if k == "__key" {
				continue
			}
			out[k] = cnStripKeys(x)
		}
		return out
	case []interface{}:
		out := make([]interface{}, len(v))
		for i, x := range v {
			out[i] = cnStripKeys(x)
		}
		return out
	}
	return v
}

// cnClientStates replays the update envelopes the way a client does: per id, starting from nothing.
// It returns the state per id as of the "quiescent" marker, and the ids live at that moment
// according to the logger.
func cnClientStates(events []cnEvent) (states map[string]interface{}, firstKinds map[string][]string, problem string) {
	states = map[string]interface{}{}
	firstKinds = map[string][]string{}
	gen := map[string]int{}
	for _, e := range events {
		if e.Kind == "quiescent" {
			break
		}
		switch e.Kind {
		case "S":
			gen[e.ID]++
			delete(states, e.ID)
			firstKinds[e.ID+"#"+fmt.Sprint(gen[e.ID])] = nil
		case "write":
			m := e.Data.(map[string]interface{})
			typ, _ := m["type"].(string)
			k := e.ID + "#" + fmt.Sprint(gen[e.ID])
			if _, ok := firstKinds[k]; ok && typ != "echo" {
				firstKinds[k] = append(firstKinds[k], typ)
			}
			if typ == "update" {
				next, err := merge.Merge(states[e.ID], m["message"])
				if err != nil {
					return nil, nil, fmt.Sprintf("client cannot apply update for id %s: %v", e.ID, err)
				}
				states[e.ID] = next
			}
		}
	}
	return states, firstKinds, ""
}

func cnSortedKeys(m map[string]interface{}) []string {
	var ks []string
	for k := range m {
		ks = append(ks, k)
	}
	sort.Strings(ks)
	return ks
}
