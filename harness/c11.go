package main

// C11 — Pagination partitions the list.
// Implementation: a thunder-managed paginated FieldFunc (schemabuilder.Paginated) with filter and
// sort fields registered plain / Expensive / batch / batch-with-fallback, executed through the
// real parser, validator and executor.  Model: ThunderModel/Pagination.lean (`tmodel C11`).

import (
	"context"
	"encoding/base64"
	"encoding/json"
	"fmt"
	"github.com/samsarahq/thunder/internal/filter"
	"math"
	"os"
	"sort"
	"strconv"
	"strings"
	"sync"

	"github.com/samsarahq/thunder/batch"
	"github.com/samsarahq/thunder/graphql"
	"github.com/samsarahq/thunder/graphql/schemabuilder"
)

func init() { register("C11", runC11) }

type c11Item struct {
	Id int64
	A  string
	B  string
	N  int64
	S  string
	F  float64
	// NaN: the float sort value of this item is NaN (kept apart from F, which has to survive JSON)
	NaN bool `json:"NaN,omitempty"`
}

// c11PItem is an element whose key field is a pointer (finding C11-3)
type c11PItem struct {
	Id *int64
	A  string
}

type c11CtxKey struct{}
type c11FlagKey struct{}

type c11Case struct {
	Items []c11Item              `json:"items"`
	Args  map[string]interface{} `json:"args"`          // first,last (int), after,before (key int or "garbage"), filterText, filterTextFields, sortBy, sortOrder
	Flag  bool                   `json:"flag"`          // batch-with-fallback: use the batch function?
	Ptr   bool                   `json:"ptr,omitempty"` // ask the field over elements with a pointer key (no filter / sort arguments)
}

var c11FilterNames = []string{"fa", "fbExp", "faBatch", "fbFallback"}           // index = model field id
var c11SortNames = []string{"sn", "ss", "snExp", "snBatch", "ssFallback", "sf"} // index = model sort id

func c11Schema() *graphql.Schema {
	sb := schemabuilder.NewSchema()
	obj := sb.Object("item", c11Item{})
	obj.Key("id")
	q := sb.Query()
	flag := func(ctx context.Context) bool { b, _ := ctx.Value(c11FlagKey{}).(bool); return b }
	q.FieldFunc("items", func(ctx context.Context) []c11Item {
		items, _ := ctx.Value(c11CtxKey{}).([]c11Item)
		return items
	}, schemabuilder.Paginated,
		schemabuilder.FilterField("fa", func(i c11Item) string { return i.A }),
		schemabuilder.FilterField("fbExp", func(ctx context.Context, i c11Item) string { return i.B }, schemabuilder.Expensive),
		schemabuilder.BatchFilterField("faBatch", func(items map[batch.Index]c11Item) (map[batch.Index]string, error) {
			m := make(map[batch.Index]string, len(items))
			for k, it := range items {
				m[k] = it.A
			}
			return m, nil
		}),
		schemabuilder.BatchFilterFieldWithFallback("fbFallback", func(items map[batch.Index]c11Item) (map[batch.Index]string, error) {
			m := make(map[batch.Index]string, len(items))
			for k, it := range items {
				m[k] = it.B
			}
			return m, nil
		}, func(i c11Item) (string, error) { return i.B, nil }, flag),
		schemabuilder.SortField("sn", func(i c11Item) int64 { return i.N }),
		schemabuilder.SortField("ss", func(i c11Item) string { return i.S }),
		schemabuilder.SortField("snExp", func(ctx context.Context, i c11Item) int64 { return i.N }, schemabuilder.Expensive),
		schemabuilder.BatchSortField("snBatch", func(items map[batch.Index]c11Item) (map[batch.Index]int64, error) {
			m := make(map[batch.Index]int64, len(items))
			for k, it := range items {
				m[k] = it.N
			}
			return m, nil
		}),
		schemabuilder.BatchSortFieldWithFallback("ssFallback", func(items map[batch.Index]c11Item) (map[batch.Index]string, error) {
			m := make(map[batch.Index]string, len(items))
			for k, it := range items {
				m[k] = it.S
			}
			return m, nil
		}, func(i c11Item) (string, error) { return i.S, nil }, flag),
		schemabuilder.SortField("sf", func(i c11Item) float64 {
			if i.NaN {
				return math.NaN()
			}
			return i.F
		}),
	)
	pobj := sb.Object("pitem", c11PItem{})
	pobj.Key("id")
	q.FieldFunc("pitems", func(ctx context.Context) []c11PItem {
		items, _ := ctx.Value(c11CtxKey{}).([]c11Item)
		out := make([]c11PItem, 0, len(items))
		for _, it := range items {
			id := it.Id // a fresh pointer on every request
			out = append(out, c11PItem{Id: &id, A: it.A})
		}
		return out
	}, schemabuilder.Paginated)
	sb.Mutation()
	return sb.MustBuild()
}

func c11Cursor(key int64) string { return base64.StdEncoding.EncodeToString([]byte(fmt.Sprint(key))) }

func c11CursorArg(v interface{}) string {
	switch v := v.(type) {
	case string:
		return v // garbage cursor, used verbatim
	case float64:
		return c11Cursor(int64(v))
	case int:
		return c11Cursor(int64(v))
	case int64:
		return c11Cursor(v)
	}
	return ""
}

func c11Query(args map[string]interface{}) string {
	var parts []string
	for _, k := range []string{"first", "last"} {
		if v, ok := args[k]; ok && v != nil {
			parts = append(parts, fmt.Sprintf("%s: %v", k, toInt64(v)))
		}
	}
	for _, k := range []string{"after", "before"} {
		if v, ok := args[k]; ok && v != nil {
			parts = append(parts, fmt.Sprintf("%s: %s", k, strconv.Quote(c11CursorArg(v))))
		}
	}
	if v, ok := args["filterText"]; ok && v != nil {
		parts = append(parts, "filterText: "+strconv.Quote(v.(string)))
	}
	if v, ok := args["filterTextFields"]; ok && v != nil {
		var qs []string
		for _, f := range toStrings(v) {
			qs = append(qs, strconv.Quote(f))
		}
		parts = append(parts, "filterTextFields: ["+strings.Join(qs, ", ")+"]")
	}
	if v, ok := args["sortBy"]; ok && v != nil {
		parts = append(parts, "sortBy: "+strconv.Quote(v.(string)))
	}
	if v, ok := args["sortOrder"]; ok && v != nil {
		parts = append(parts, "sortOrder: "+v.(string))
	}
	a := ""
	if len(parts) > 0 {
		a = "(" + strings.Join(parts, ", ") + ")"
	}
	return "{ items" + a + " { totalCount edges { node { id } cursor } pageInfo { hasNextPage hasPrevPage startCursor endCursor } } }"
}

func c11QueryOf(cs c11Case) string {
	q := c11Query(cs.Args)
	if cs.Ptr {
		q = strings.Replace(q, "{ items", "{ items: pitems", 1)
	}
	return q
}

func toInt64(v interface{}) int64 {
	switch v := v.(type) {
	case int:
		return int64(v)
	case int64:
		return v
	case float64:
		return int64(v)
	case json.Number:
		n, _ := v.Int64()
		return n
	}
	return 0
}

func toStrings(v interface{}) []string {
	switch v := v.(type) {
	case []string:
		return v
	case []interface{}:
		var out []string
		for _, x := range v {
			out = append(out, fmt.Sprint(x))
		}
		return out
	}
	return nil
}

// c11Page is the canonical observation of one page.
type c11Page struct {
	Edges   []int64 `json:"edges"`
	HasNext bool    `json:"hasNext"`
	HasPrev bool    `json:"hasPrev"`
	Start   *int64  `json:"start"`
	End     *int64  `json:"end"`
	Total   int64   `json:"total"`
	Err     string  `json:"err,omitempty"`
}

func c11DecodeCursor(s string) (*int64, bool) {
	if s == "" {
		return nil, true
	}
	b, err := base64.StdEncoding.DecodeString(s)
	if err != nil {
		return nil, false
	}
	n, err := strconv.ParseInt(string(b), 10, 64)
	if err != nil {
		return nil, false
	}
	return &n, true
}

func c11RunImpl(schema *graphql.Schema, cs c11Case) c11Page {
	ctx := context.WithValue(context.Background(), c11CtxKey{}, cs.Items)
	ctx = context.WithValue(ctx, c11FlagKey{}, cs.Flag)
	out, err := gqlRun(ctx, schema, c11QueryOf(cs), nil)
	if err != nil {
		return c11Page{Err: err.Error()}
	}
	var p c11Page
	p.Edges = []int64{}
	root, _ := out.(map[string]interface{})
	conn, _ := root["items"].(map[string]interface{})
	if conn == nil {
		return c11Page{Err: "no connection in response: " + Canon(out)}
	}
	p.Total = toInt64(canonNum(conn["totalCount"]))
	edges, _ := conn["edges"].([]interface{})
	for _, e := range edges {
		em, _ := e.(map[string]interface{})
		node, _ := em["node"].(map[string]interface{})
		id := toInt64(canonNum(node["id"]))
		p.Edges = append(p.Edges, id)
		if cur, ok := em["cursor"].(string); !ok || cur != c11Cursor(id) {
			p.Err = "edge cursor is not the cursor of its node"
		}
	}
	pi, _ := conn["pageInfo"].(map[string]interface{})
	p.HasNext, _ = pi["hasNextPage"].(bool)
	p.HasPrev, _ = pi["hasPrevPage"].(bool)
	if s, ok := pi["startCursor"].(string); ok {
		p.Start, _ = c11DecodeCursor(s)
	}
	if s, ok := pi["endCursor"].(string); ok {
		p.End, _ = c11DecodeCursor(s)
	}
	return p
}

func canonNum(v interface{}) interface{} {
	switch v := v.(type) {
	case int64, int, float64:
		return v
	case int32:
		return int64(v)
	}
	return v
}

// c11Match is the harness's own statement of "passes the text filter" for the default filter:
// some non-empty whitespace-separated token is contained in the text, case-insensitively; no
// tokens at all = everything passes.
func c11Match(text, filterText string) bool {
	toks := strings.Fields(filterText)
	if len(toks) == 0 {
		return true
	}
	for _, t := range toks {
		if strings.Contains(strings.ToLower(text), strings.ToLower(t)) {
			return true
		}
	}
	return false
}

// c11Filter asks the model (ThunderModel/PageFilter.lean) which of the texts pass the default filter for ft.
var c11FilterMemo sync.Map

func c11Filter(m *Model, ft string, texts []string) (map[string]bool, error) {
	out := map[string]bool{}
	var ask []string
	for _, t := range texts {
		if v, ok := c11FilterMemo.Load(ft + "\x00" + t); ok {
			out[t] = v.(bool)
		} else if _, dup := out[t]; !dup {
			out[t] = false
			ask = append(ask, t)
		}
	}
	if len(ask) == 0 {
		return out, nil
	}
	resp, err := m.Call(map[string]interface{}{"op": "filter", "ft": ft, "texts": ask})
	if err != nil {
		return nil, err
	}
	ps := resp["passes"].([]interface{})
	for i, t := range ask {
		out[t] = ps[i].(bool)
		c11FilterMemo.Store(ft+"\x00"+t, out[t])
	}
	return out, nil
}

func c11ModelReq(m *Model, cs c11Case) (map[string]interface{}, error) {
	ft, _ := cs.Args["filterText"].(string)
	var texts []string
	for _, it := range cs.Items {
		texts = append(texts, it.A, it.B)
	}
	pass, err := c11Filter(m, ft, texts)
	if err != nil {
		return nil, err
	}
	if !strings.Contains(ft, "\"") {
		// the harness's own statement for quote-free filter texts
		for _, t := range texts {
			if pass[t] != c11Match(t, ft) {
				return nil, fmt.Errorf("model_ne_spec: text %q filter %q: model %v, whitespace-word statement %v", t, ft, pass[t], c11Match(t, ft))
			}
		}
	}
	// ranks for strings (case-folded) and floats
	rankS := rankStrings(cs.Items)
	rankF := rankFloats(cs.Items)
	nodes := make([]interface{}, 0, len(cs.Items))
	for _, it := range cs.Items {
		keep := []bool{pass[it.A], pass[it.B], pass[it.A], pass[it.B]}
		rf := rankF[it.F]
		if it.NaN {
			rf = -1 // NaN before every number
		}
		srt := []int64{it.N, rankS[strings.ToLower(it.S)], it.N, it.N, rankS[strings.ToLower(it.S)], rf}
		nodes = append(nodes, map[string]interface{}{"key": it.Id, "keep": keep, "sort": srt})
	}
	args := map[string]interface{}{"first": nil, "last": nil, "after": nil, "before": nil, "filter": ft != "", "fields": []int{}, "sortBy": nil, "desc": false}
	for _, k := range []string{"first", "last"} {
		if v, ok := cs.Args[k]; ok && v != nil {
			args[k] = toInt64(v)
		}
	}
	for _, k := range []string{"after", "before"} {
		if v, ok := cs.Args[k]; ok && v != nil {
			if _, isStr := v.(string); isStr {
				args[k] = 999999 // garbage cursor: a key no node has
			} else {
				args[k] = toInt64(v)
			}
		}
	}
	fields := []int{}
	if v, ok := cs.Args["filterTextFields"]; ok && v != nil {
		for _, name := range toStrings(v) {
			for i, n := range c11FilterNames {
				if n == name {
					fields = append(fields, i)
				}
			}
		}
	} else {
		for i := range c11FilterNames {
			fields = append(fields, i)
		}
	}
	args["fields"] = fields
	if v, ok := cs.Args["sortBy"]; ok && v != nil {
		args["sortBy"] = "unknown"
		for i, n := range c11SortNames {
			if n == v.(string) {
				args["sortBy"] = i
			}
		}
	}
	if v, ok := cs.Args["sortOrder"]; ok && v == "desc" {
		args["desc"] = true
	}
	return map[string]interface{}{"op": "conn", "nodes": nodes, "args": args}, nil
}

func rankStrings(items []c11Item) map[string]int64 {
	var ss []string
	seen := map[string]bool{}
	for _, it := range items {
		s := strings.ToLower(it.S)
		if !seen[s] {
			seen[s] = true
			ss = append(ss, s)
		}
	}
	sort.Strings(ss)
	m := map[string]int64{}
	for i, s := range ss {
		m[s] = int64(i)
	}
	return m
}

func rankFloats(items []c11Item) map[float64]int64 {
	var fs []float64
	seen := map[float64]bool{}
	for _, it := range items {
		if !seen[it.F] {
			seen[it.F] = true
			fs = append(fs, it.F)
		}
	}
	sort.Float64s(fs)
	m := map[float64]int64{}
	for i, f := range fs {
		m[f] = int64(i)
	}
	return m
}

func c11PageFromModel(v interface{}) c11Page {
	m, _ := v.(map[string]interface{})
	if m == nil {
		return c11Page{Err: "bad model value"}
	}
	if e, ok := m["err"]; ok {
		return c11Page{Err: fmt.Sprint(e)}
	}
	r, _ := m["ok"].(map[string]interface{})
	p := c11Page{Edges: []int64{}}
	for _, e := range r["edges"].([]interface{}) {
		p.Edges = append(p.Edges, toInt64(e))
	}
	p.HasNext, _ = r["hasNext"].(bool)
	p.HasPrev, _ = r["hasPrev"].(bool)
	if r["start"] != nil {
		n := toInt64(r["start"])
		p.Start = &n
	}
	if r["end"] != nil {
		n := toInt64(r["end"])
		p.End = &n
	}
	p.Total = toInt64(r["total"])
	return p
}

// errClass maps implementation errors to the model's small enum.
func c11ErrClass(e string) string {
	switch {
	case e == "":
		return ""
	case e == "negative" || e == "firstAndLast" || e == "unknownSort":
		return e
	case strings.Contains(e, "negative"):
		return "negative"
	case strings.Contains(e, "both first and last"):
		return "firstAndLast"
	case strings.Contains(e, "unknown sort field"):
		return "unknownSort"
	}
	return "other: " + e
}

func c11Same(a, b c11Page) bool {
	if a.Err != "" || b.Err != "" {
		return c11ErrClass(a.Err) == c11ErrClass(b.Err) || a.Err == b.Err
	}
	return Canon(a) == Canon(b)
}

func c11One(c *Ctx, m *Model, schema *graphql.Schema, cs c11Case) {
	rep := c.Rep
	impl := c11RunImpl(schema, cs)
	req, err := c11ModelReq(m, cs)
	if err != nil {
		kind := "harness_error"
		if strings.HasPrefix(err.Error(), "model_ne_spec") {
			kind = "model_ne_spec"
		}
		rep.Fail(kind, nil, cs, map[string]interface{}{"error": err.Error()})
		return
	}
	resp, err := m.Call(req)
	if err != nil {
		rep.Fail("harness_error", nil, cs, map[string]interface{}{"error": err.Error()})
		return
	}
	model := c11PageFromModel(resp["res"])
	spec := c11PageFromModel(resp["spec"])
	if !c11Same(impl, spec) {
		rep.Fail("impl_ne_spec", nil, cs, map[string]interface{}{"what": "page differs from the specified page", "impl": impl, "spec": spec, "query": c11QueryOf(cs)})
	}
	if !c11Same(impl, model) {
		rep.Fail("impl_ne_model", nil, cs, map[string]interface{}{"what": "page differs from model", "impl": impl, "model": model, "query": c11QueryOf(cs)})
	}
	if nd, _ := resp["nodup"].(bool); nd && !c11Same(model, spec) {
		rep.Fail("model_ne_spec", nil, cs, map[string]interface{}{"what": "model contradicts theorem page_exact", "model": model, "spec": spec})
	}
	for k := range cs.Args {
		rep.Count("arg:" + k)
	}
	if impl.Err != "" {
		rep.Count("outcome:error:" + c11ErrClass(impl.Err))
	} else {
		rep.Count("outcome:ok")
		if impl.HasNext {
			rep.Count("hasNext")
		}
		if impl.HasPrev {
			rep.Count("hasPrev")
		}
	}
	rep.Eval(Canon(cs), len(cs.Args) > 0 && len(cs.Items) > 0, cs)
}

// c11Walk chains real queries through the returned cursors.
func c11Walk(c *Ctx, m *Model, schema *graphql.Schema, items []c11Item, base map[string]interface{}, n int, flag bool) {
	rep := c.Rep
	cs0 := c11Case{Items: items, Args: base, Flag: flag}
	full := c11RunImpl(schema, cs0)
	if full.Err != "" {
		return
	}
	L := full.Edges
	cp := func(extra map[string]interface{}) map[string]interface{} {
		a := map[string]interface{}{}
		for k, v := range base {
			a[k] = v
		}
		for k, v := range extra {
			a[k] = v
		}
		return a
	}
	// forward
	var fw []int64
	var cur *int64
	pages := 0
	for {
		args := cp(map[string]interface{}{"first": n})
		if cur != nil {
			args["after"] = *cur
		}
		p := c11RunImpl(schema, c11Case{Items: items, Args: args, Flag: flag})
		pages++
		if p.Err != "" || pages > len(items)+3 {
			rep.Fail("impl_ne_spec", nil, c11Case{Items: items, Args: args, Flag: flag}, map[string]interface{}{"what": "forward walk does not terminate or fails", "err": p.Err, "pages": pages})
			break
		}
		fw = append(fw, p.Edges...)
		if !p.HasNext {
			break
		}
		cur = p.End
	}
	// backward
	var bw []int64
	cur = nil
	pages = 0
	for {
		args := cp(map[string]interface{}{"last": n})
		if cur != nil {
			args["before"] = *cur
		}
		p := c11RunImpl(schema, c11Case{Items: items, Args: args, Flag: flag})
		pages++
		if p.Err != "" || pages > len(items)+3 {
			rep.Fail("impl_ne_spec", nil, c11Case{Items: items, Args: args, Flag: flag}, map[string]interface{}{"what": "backward walk does not terminate or fails", "err": p.Err, "pages": pages})
			break
		}
		bw = append(append([]int64{}, p.Edges...), bw...)
		if !p.HasPrev {
			break
		}
		cur = p.Start
	}
	walkCase := map[string]interface{}{"items": items, "args": base, "n": n, "flag": flag}
	if Canon(fw) != Canon(L) && !(len(fw) == 0 && len(L) == 0) {
		rep.Fail("impl_ne_spec", nil, walkCase, map[string]interface{}{"what": "forward walk does not visit the list exactly once in order", "walk": fw, "list": L})
	}
	if Canon(bw) != Canon(L) && !(len(bw) == 0 && len(L) == 0) {
		rep.Fail("impl_ne_spec", nil, walkCase, map[string]interface{}{"what": "backward walk does not visit the list exactly once in order", "walk": bw, "list": L})
	}
	// model walk over the model's list
	req0, err := c11ModelReq(m, cs0)
	if err != nil {
		rep.Fail("harness_error", nil, cs0, map[string]interface{}{"error": err.Error()})
		return
	}
	resp, err := m.Call(req0)
	if err == nil {
		if Canon(resp["L"]) != Canon(L) && !(len(L) == 0) {
			rep.Fail("impl_ne_model", nil, walkCase, map[string]interface{}{"what": "filtered sorted list differs from model specList", "impl": L, "model": resp["L"]})
		}
		w, err := m.Call(map[string]interface{}{"op": "walk", "L": L, "n": n})
		if err == nil && len(L) > 0 {
			if Canon(w["forward"]) != Canon(fw) || Canon(w["backward"]) != Canon(bw) {
				rep.Fail("impl_ne_model", nil, walkCase, map[string]interface{}{"what": "walk differs from model walk", "impl_fw": fw, "impl_bw": bw, "model": w})
			}
		}
	}
	rep.Count("walks")
	rep.CountN("walk-pages", pages)
	rep.Traces++
}

var c11Words = []string{"can", "man", "Cannot", "soban", "AAN", "jan", "x", "", "ban ana", "Zed", "27\" screen", "big monitor"}

// filter texts with double quotes: phrases, words touching a quote, unclosed and empty quotes
var c11QuotedFilters = []string{"27\" monitor", "\"ban ana\"", "a\"n\"", "\"an\"x", "\"\"", "\"", "\"  \"", "zzz \"ban a", "x\"", "jan\"zzz\"", "\"zzz\"jan", "\"n a\" zzz", "zzz\"zzz\"Zed", "monitor\"", "\"big\"\"zzz\""}

func c11GenItems(r *Rand) []c11Item {
	n := r.Intn(9)
	if r.Chance(0.1) {
		n = 10 + r.Intn(15)
	}
	perm := r.Perm(n + 3)
	items := make([]c11Item, 0, n)
	for i := 0; i < n; i++ {
		items = append(items, c11Item{Id: int64(perm[i] + 1), A: c11Words[r.Intn(len(c11Words))], B: c11Words[r.Intn(len(c11Words))],
			N: int64(r.Intn(4) - 1), S: c11Words[r.Intn(len(c11Words))], F: float64(r.Intn(3)) / 2, NaN: r.Chance(0.12)})
	}
	return items
}

func c11GenBase(r *Rand) map[string]interface{} {
	a := map[string]interface{}{}
	if r.Chance(0.5) {
		a["filterText"] = []string{"an", "CAN", "x", "zzz", "  ", "ban z", "a", "averyveryverylongwordthatmatchesnothing an", "zzzzzzzzzzzzzzzzzzzzzzzz  A x", "an averyveryverylongwordthatmatchesnothing"}[r.Intn(10)]
		if r.Chance(0.3) {
			a["filterText"] = c11QuotedFilters[r.Intn(len(c11QuotedFilters))]
		}
		if r.Chance(0.5) {
			var fs []string
			for _, n := range c11FilterNames {
				if r.Bool() {
					fs = append(fs, n)
				}
			}
			if r.Chance(0.1) {
				fs = append(fs, "nosuch")
			}
			if fs == nil {
				fs = []string{}
			}
			a["filterTextFields"] = fs
		}
	}
	if r.Chance(0.6) {
		a["sortBy"] = c11SortNames[r.Intn(len(c11SortNames))]
		if r.Chance(0.03) {
			a["sortBy"] = "nosuch"
		}
		if r.Chance(0.6) {
			a["sortOrder"] = []string{"asc", "desc"}[r.Intn(2)]
		}
	}
	return a
}

func c11GenArgs(r *Rand, items []c11Item) map[string]interface{} {
	a := c11GenBase(r)
	cursor := func() interface{} {
		switch {
		case len(items) > 0 && r.Chance(0.85):
			return items[r.Intn(len(items))].Id
		case r.Chance(0.5):
			return int64(500 + r.Intn(5)) // well-formed but unknown
		default:
			return "!!garbage"
		}
	}
	if r.Chance(0.45) {
		a["first"] = r.Intn(6)
		if r.Chance(0.03) {
			a["first"] = -1
		}
	}
	if r.Chance(0.35) {
		a["last"] = r.Intn(6)
		if r.Chance(0.03) {
			a["last"] = -2
		}
	}
	if _, f := a["first"]; f && r.Chance(0.8) {
		delete(a, "last")
	}
	if r.Chance(0.5) {
		a["after"] = cursor()
	}
	if r.Chance(0.5) {
		a["before"] = cursor()
	}
	return a
}

func runC11(c *Ctx) error {
	m, err := StartModel("C11")
	if err != nil {
		return err
	}
	defer m.Close()
	schema := c11Schema()
	c.Rep.Rule = "random item lists (unique keys, duplicate texts/sort values) x random first/last/after/before (known, unknown, garbage cursors, both cursors) x filterText/filterTextFields x sortBy/sortOrder over filter+sort fields registered plain/Expensive/batch/batch-with-fallback; plus whole-list walks chained through returned cursors; non-trivial = non-empty list and at least one argument; distinct by canonical case"
	c.Rep.Assumptions = append(c.Rep.Assumptions,
		"node keys are unique (Nodup hypothesis of the theorems; generator guarantees it)",
		"'passes the text filter': the tokens of the filter text are words and double-quoted phrases (ThunderModel/PageFilter.lean; theorems word_emitted, phrase_emitted); a text passes when some non-empty token occurs in it, ASCII case ignored. For quote-free filter texts the harness states it itself (whitespace-separated words) and the model is checked against that; internal/filter is also compared with the model directly on random texts over letters, white space and quotes",
		"string sort keys are sent to the model as ranks of the case-folded strings, floats as ranks")
	if c.Replay != "" {
		var f struct {
			Case json.RawMessage `json:"case"`
		}
		b, err := os.ReadFile(c.Replay)
		if err != nil {
			return err
		}
		if err := json.Unmarshal(b, &f); err != nil {
			return err
		}
		var probe map[string]interface{}
		json.Unmarshal(f.Case, &probe)
		if _, isWalk := probe["n"]; isWalk {
			var w struct {
				Items []c11Item              `json:"items"`
				Args  map[string]interface{} `json:"args"`
				N     int                    `json:"n"`
				Flag  bool                   `json:"flag"`
			}
			json.Unmarshal(f.Case, &w)
			c11Walk(c, m, schema, w.Items, w.Args, w.N, w.Flag)
			return nil
		}
		var cs c11Case
		if err := json.Unmarshal(f.Case, &cs); err != nil {
			return err
		}
		c11One(c, m, schema, cs)
		return nil
	}
	// corpus: finding C11-1
	four := []c11Item{{Id: 1}, {Id: 2}, {Id: 3}, {Id: 4}}
	c11One(c, m, schema, c11Case{Items: four, Args: map[string]interface{}{"after": int64(1), "before": int64(4)}})
	c11One(c, m, schema, c11Case{Items: four, Args: map[string]interface{}{"after": int64(2), "before": int64(3)}})
	// finding C11-2: a word of the filter text that touches a double quote was dropped
	mon := []c11Item{{Id: 1, A: "Dell monitor", B: "x"}, {Id: 2, A: "room 27", B: "x"}, {Id: 3, A: "keyboard", B: "x"}}
	for _, ft := range []string{"27\" monitor", "monitor\"zzz\"", "\"zzz\"monitor", "a\"b\"", "\"hello world\"!"} {
		c11One(c, m, schema, c11Case{Items: mon, Args: map[string]interface{}{"filterText": ft, "filterTextFields": []string{"a"}}})
	}
	// finding C11-3: a pointer key; finding C11-4: a NaN among the float sort values
	c11One(c, m, schema, c11Case{Items: four[:3], Args: map[string]interface{}{"first": 2, "after": int64(2)}, Ptr: true})
	c11One(c, m, schema, c11Case{Items: []c11Item{{Id: 1, F: 3}, {Id: 2, NaN: true}, {Id: 3, F: 1}}, Args: map[string]interface{}{"sortBy": "sf", "sortOrder": "asc"}})
	c11One(c, m, schema, c11Case{Items: []c11Item{{Id: 1, F: 1}, {Id: 2, NaN: true}, {Id: 3, F: 3}}, Args: map[string]interface{}{"sortBy": "sf", "sortOrder": "desc"}})
	r := c.Rng
	c11Tokens(c, m, r, c.N(1500, 60000))
	n := c.N(2500, 150000)
	for i := 0; i < n; i++ {
		items := c11GenItems(r)
		cs := c11Case{Items: items, Args: c11GenArgs(r, items), Flag: r.Bool()}
		_, f1 := cs.Args["filterText"]
		_, f2 := cs.Args["filterTextFields"]
		_, f3 := cs.Args["sortBy"]
		_, f4 := cs.Args["sortOrder"]
		if !f1 && !f2 && !f3 && !f4 && r.Chance(0.5) {
			cs.Ptr = true
			rep0 := c.Rep
			rep0.Count("pointer-key")
		}
		c11One(c, m, schema, cs)
	}
	nw := c.N(150, 8000)
	for i := 0; i < nw; i++ {
		items := c11GenItems(r)
		c11Walk(c, m, schema, items, c11GenBase(r), 1+r.Intn(4), r.Bool())
	}
	return nil
}

// c11Tokens compares internal/filter (GetDefaultSearchTokens, DefaultFilterFunc) with the model directly on random
// filter texts over letters, white space and double quotes.
type c11TokCase struct {
	Ft    string   `json:"ft"`
	Texts []string `json:"texts"`
}

func c11GenText(r *Rand, n int) string {
	alpha := []string{"a", "b", "N", "z", " ", " ", "\t", "\n", "\"", "\"", "7", "!"}
	var sb strings.Builder
	for i := 0; i < n; i++ {
		sb.WriteString(alpha[r.Intn(len(alpha))])
	}
	return sb.String()
}

func c11Tokens(c *Ctx, m *Model, r *Rand, n int) {
	rep := c.Rep
	for i := 0; i < n; i++ {
		cs := c11TokCase{Ft: c11GenText(r, r.Intn(9))}
		for j := 0; j < 4; j++ {
			cs.Texts = append(cs.Texts, c11GenText(r, r.Intn(7)))
		}
		resp, err := m.Call(map[string]interface{}{"op": "filter", "ft": cs.Ft, "texts": cs.Texts})
		if err != nil {
			rep.Fail("harness_error", nil, cs, map[string]interface{}{"error": err.Error()})
			return
		}
		implToks := filter.GetDefaultSearchTokens(cs.Ft)
		var modelToks []string
		for _, t := range resp["tokens"].([]interface{}) {
			modelToks = append(modelToks, t.(string))
		}
		if fmt.Sprintf("%q", implToks) != fmt.Sprintf("%q", modelToks) {
			rep.Fail("impl_ne_model", nil, cs, map[string]interface{}{"what": "tokens of the filter text differ from the model's", "impl": implToks, "model": modelToks})
			continue
		}
		bad := false
		for j, t := range cs.Texts {
			if filter.DefaultFilterFunc(t, implToks) != resp["passes"].([]interface{})[j].(bool) {
				rep.Fail("impl_ne_model", nil, cs, map[string]interface{}{"what": "DefaultFilterFunc differs from the model's passes", "text": t, "tokens": implToks})
				bad = true
			}
		}
		if bad {
			continue
		}
		kind := "quote-free"
		if strings.Contains(cs.Ft, "\"") {
			kind = "with-quotes"
		}
		rep.Count("tokens:" + kind)
		rep.Eval(Canon(cs), cs.Ft != "", map[string]interface{}{"op": "tokens", "kind": kind, "tokens": len(implToks)})
	}
}
