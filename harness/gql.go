package main

// Shared helpers for the properties that drive the real GraphQL executor.

import (
	"context"
	"fmt"

	"github.com/samsarahq/thunder/batch"
	"github.com/samsarahq/thunder/graphql"
	"github.com/samsarahq/thunder/graphql/schemabuilder"
	"github.com/samsarahq/thunder/internal"
	"github.com/samsarahq/thunder/reactive"
)

// gqlRun parses, validates and executes a query with the default scheduler; returns the JSON
// value (as produced by internal.AsJSON) or the error.
func gqlRun(ctx context.Context, schema *graphql.Schema, query string, vars map[string]interface{}) (out interface{}, err error) {
	if p := safely(func() {
		var q *graphql.Query
		q, err = graphql.Parse(query, vars)
		if err != nil {
			return
		}
		if err = graphql.PrepareQuery(ctx, schema.Query, q.SelectionSet); err != nil {
			return
		}
		e := graphql.NewExecutor(graphql.NewImmediateGoroutineScheduler())
		var v interface{}
		ctx = batch.WithBatching(ctx)
		_, rerr := reactive.NewRerunner(ctx, func(ctx context.Context) (interface{}, error) { return nil, nil }, 0, false), error(nil)
		_ = rerr
		v, err = e.Execute(ctx, schema.Query, nil, q)
		if err != nil {
			return
		}
		out = internal.AsJSON(v)
	}); p != nil {
		return nil, fmt.Errorf("panic: %v", p)
	}
	return out, err
}

var _ = schemabuilder.NewSchema

// gqlRunSched is gqlRun with a given work scheduler.
func gqlRunSched(ctx context.Context, schema *graphql.Schema, query string, vars map[string]interface{}, sched graphql.WorkScheduler) (out interface{}, err error) {
	q, err := graphql.Parse(query, vars)
	if err != nil {
		return nil, err
	}
	if err = graphql.PrepareQuery(ctx, schema.Query, q.SelectionSet); err != nil {
		return nil, err
	}
	v, err := graphql.NewExecutor(sched).Execute(batch.WithBatching(ctx), schema.Query, nil, q)
	if err != nil {
		return nil, err
	}
	return internal.AsJSON(v), nil
}
