package main

// C08 — Reactive cache never serves superseded values and releases every resource.

import (
	"context"
	"encoding/json"
	"fmt"
	"os"
	"runtime"
	"sync"
	"sync/atomic"
	"time"

	"github.com/samsarahq/thunder/reactive"
)

func init() { register("C08", runC08) }

type c08Res struct {
	res      *reactive.Resource
	node     interface{}
	cleanups int32
	used     int32
}

type c08Slot struct {
	mu      sync.Mutex
	version int64
	cur     *c08Res
}

type c08Case struct {
	Vary    bool   `json:"vary"`    // runs skip some of their reads (a cached child dropped and adopted again later)
	StopMid bool   `json:"stopmid"` // stop some rerunners while runs are in flight
	Loose   bool   `json:"loose"`   // AddDependency from a context without rerunner on shared resources
	Seed    uint64 `json:"seed"`
	Slots   int    `json:"slots"`
	Runners int    `json:"runners"`
	Bumps   int    `json:"bumps"`
	Timers  bool   `json:"timers"`
	Purge   bool   `json:"purge"`
}

func c08Scenario(c *Ctx, cs c08Case) (graph, rel []rxLabel, verdict string, detail map[string]interface{}) {
	r := NewRand(cs.Seed)
	log := newRxLog(r.Fork())
	reactive.VerifHook = log.hook
	defer func() { reactive.VerifHook = nil }()
	oldDelay := reactive.WriteThenReadDelay
	reactive.WriteThenReadDelay = []time.Duration{0, 0, 150 * time.Microsecond}[r.Intn(3)]
	defer func() { reactive.WriteThenReadDelay = oldDelay }()

	var allMu sync.Mutex
	var all []*c08Res
	mk := func() *c08Res {
		res := reactive.NewResource()
		g := goid()
		log.mu.Lock()
		n := log.lastNew[g]
		delete(log.lastNew, g)
		log.mu.Unlock()
		cr := &c08Res{res: res, node: n}
		res.Cleanup(func() { atomic.AddInt32(&cr.cleanups, 1) })
		allMu.Lock()
		all = append(all, cr)
		allMu.Unlock()
		return cr
	}
	slots := make([]*c08Slot, cs.Slots)
	for i := range slots {
		slots[i] = &c08Slot{cur: mk()}
	}
	var quiet int32
	// read slot i through the cache; the cached computation of slot i may adopt that of slot i+1
	var readSlot func(ctx context.Context, i int, nest bool) (map[int]int64, error)
	readSlot = func(ctx context.Context, i int, nest bool) (map[int]int64, error) {
		v, err := reactive.Cache(ctx, fmt.Sprintf("k%d", i), func(ctx context.Context) (interface{}, error) {
			s := slots[i]
			s.mu.Lock()
			if s.cur.res.Invalidated() {
				s.cur = mk()
			}
			cr := s.cur
			s.mu.Unlock()
			atomic.StoreInt32(&cr.used, 1)
			reactive.AddDependency(ctx, cr.res, nil)
			s.mu.Lock()
			cur := s.cur
			ver := s.version
			s.mu.Unlock()
			if cur != cr {
				atomic.StoreInt32(&cur.used, 1)
				reactive.AddDependency(ctx, cur.res, nil)
			}
			out := map[int]int64{i: ver}
			if cs.Timers && atomic.LoadInt32(&quiet) == 0 && ver%3 == 0 {
				reactive.InvalidateAfter(ctx, time.Duration(200+ver*50)*time.Microsecond)
			}
			if nest && i+1 < len(slots) {
				sub, err := readSlot(ctx, i+1, nest)
				if err != nil {
					return nil, err
				}
				for k, x := range sub {
					out[k] = x
				}
			}
			return out, nil
		})
		if err != nil {
			return nil, err
		}
		return v.(map[int]int64), nil
	}
	type runner struct {
		rr      *reactive.Rerunner
		reads   []int
		nest    bool
		mu      sync.Mutex
		last    map[int]int64
		inRun   int32
		runs    int64
		stopped bool
	}
	var runners []*runner
	ctx := context.Background()
	for i := 0; i < cs.Runners; i++ {
		rn := &runner{nest: r.Bool(), last: map[int]int64{}}
		perm := r.Perm(cs.Slots)
		rn.reads = perm[:1+r.Intn(cs.Slots)]
		purge := cs.Purge && r.Bool()
		runners = append(runners, rn)
		rn.rr = reactive.NewRerunner(ctx, func(ctx context.Context) (interface{}, error) {
			atomic.AddInt32(&rn.inRun, 1)
			defer atomic.AddInt32(&rn.inRun, -1)
			n := atomic.AddInt64(&rn.runs, 1)
			if purge && n%4 == 2 {
				reactive.PurgeCache(ctx)
			}
			out := map[int]int64{}
			for k, si := range rn.reads {
				if cs.Vary && len(rn.reads) > 1 && (int(n)+k)%3 == 1 {
					continue // this run does not use this child
				}
				m, err := readSlot(ctx, si, rn.nest)
				if err != nil {
					return nil, err
				}
				for k, x := range m {
					out[k] = x
				}
				if n%2 == 0 {
					runtime.Gosched()
				}
			}
			rn.mu.Lock()
			rn.last = out
			rn.mu.Unlock()
			return nil, nil
		}, time.Microsecond, r.Bool())
	}
	var wg sync.WaitGroup
	for b := 0; b < 1+r.Intn(2); b++ {
		wg.Add(1)
		br := r.Fork()
		go func() {
			defer wg.Done()
			for i := 0; i < cs.Bumps; i++ {
				s := slots[br.Intn(cs.Slots)]
				if br.Bool() {
					s.mu.Lock()
					s.version++
					cr := s.cur
					s.mu.Unlock()
					cr.res.Strobe()
				} else {
					nr := mk()
					s.mu.Lock()
					s.version++
					old := s.cur
					s.cur = nr
					s.mu.Unlock()
					old.res.Invalidate()
				}
				if br.Chance(0.5) {
					runtime.Gosched()
				} else if br.Chance(0.3) {
					time.Sleep(time.Duration(br.Intn(300)) * time.Microsecond)
				}
			}
		}()
	}
	if cs.Loose {
		for i := 0; i < 3; i++ {
			s := slots[r.Intn(cs.Slots)]
			s.mu.Lock()
			cr := s.cur
			s.mu.Unlock()
			// legal: a read outside any rerunner registers nothing lasting
			reactive.AddDependency(context.Background(), cr.res, nil)
			atomic.StoreInt32(&cr.used, 1)
			runtime.Gosched()
		}
	}
	if cs.StopMid {
		for _, rn := range runners {
			if r.Chance(0.5) {
				time.Sleep(time.Duration(r.Intn(400)) * time.Microsecond)
				rn.rr.Stop()
				rn.mu.Lock()
				rn.stopped = true
				rn.mu.Unlock()
			}
		}
	}
	wg.Wait()
	atomic.StoreInt32(&quiet, 1)
	// a last change per slot, so that cached values holding an armed timer are recomputed without one
	for _, s := range slots {
		s.mu.Lock()
		s.version++
		cr := s.cur
		s.mu.Unlock()
		cr.res.Strobe()
	}
	waitQuiet := func(what string) string {
		deadline := time.Now().Add(6 * time.Second)
		for {
			before := atomic.LoadInt64(&log.events)
			time.Sleep(20 * time.Millisecond)
			busy := false
			for _, rn := range runners {
				if atomic.LoadInt32(&rn.inRun) != 0 {
					busy = true
				}
			}
			if !busy && atomic.LoadInt64(&log.events) == before {
				time.Sleep(15 * time.Millisecond)
				if atomic.LoadInt64(&log.events) == before {
					return ""
				}
			}
			if time.Now().After(deadline) {
				return "no quiescence " + what
			}
		}
	}
	detail = map[string]interface{}{}
	if e := waitQuiet("after the data changes"); e != "" {
		return nil, nil, "harness_error", map[string]interface{}{"error": e}
	}
	log.mu.Lock()
	detail["quiescent_at"] = len(log.labels)
	log.mu.Unlock()
	// freshness: every value in every rerunner's final output is the current version
	for ri, rn := range runners {
		rn.mu.Lock()
		if rn.stopped {
			rn.mu.Unlock()
			continue
		}
		for si, v := range rn.last {
			slots[si].mu.Lock()
			cur := slots[si].version
			slots[si].mu.Unlock()
			if v != cur {
				verdict = "impl_ne_spec"
				detail["what"] = fmt.Sprintf("stale value in the final output: rerunner %d holds version %d of slot %d (read directly or through a cached sub-computation), current version is %d", ri, v, si, cur)
			}
		}
		rn.mu.Unlock()
	}
	// stop everything: every resource that was ever registered must be cleaned up exactly once
	for _, rn := range runners {
		rn.rr.Stop()
	}
	if e := waitQuiet("after Stop"); e != "" {
		return nil, nil, "harness_error", map[string]interface{}{"error": e}
	}
	log.mu.Lock()
	log.perturb = false
	graph = append([]rxLabel{}, log.labels...)
	rel = append([]rxLabel{}, log.rel...)
	problems := append([]string{}, log.problems...)
	cleanups := map[int]int32{}
	allMu.Lock()
	for _, cr := range all {
		idx, ok := log.nodes[cr.node]
		n := atomic.LoadInt32(&cr.cleanups)
		used := atomic.LoadInt32(&cr.used) == 1
		if ok {
			cleanups[idx] = n
		}
		if verdict == "" && (n > 1 || (used && n != 1)) {
			verdict = "impl_ne_spec"
			detail["what"] = fmt.Sprintf("cleanup callback of resource node %d ran %d times after every computation using it was stopped (registered: %v)", idx, n, used)
		}
	}
	allMu.Unlock()
	log.mu.Unlock()
	if len(problems) > 0 && verdict == "" {
		verdict = "harness_error"
		detail["error"] = problems[0]
	}
	detail["cleanups"] = cleanups
	bd := map[int]bool{}
	log.mu.Lock()
	for k, v := range log.bornDead {
		bd[k] = v
	}
	log.mu.Unlock()
	detail["born_dead"] = bd
	var runs int64
	for _, rn := range runners {
		runs += atomic.LoadInt64(&rn.runs)
	}
	detail["runs"] = runs
	return graph, rel, verdict, detail
}

func c08One(c *Ctx, m *Model, cs c08Case) {
	rep := c.Rep
	graph, rel, verdict, detail := c08Scenario(c, cs)
	if verdict != "" {
		rep.Fail(verdict, nil, cs, detail)
		return
	}
	if kind, d := rxQuiescentCheck(m, graph, detail["quiescent_at"].(int), detail["born_dead"].(map[int]bool)); kind != "" {
		rep.Fail(kind, nil, cs, d)
		return
	}
	// invalidation trace in the graph model
	resp, err := m.Call(map[string]interface{}{"op": "replay", "labels": graph})
	if err != nil {
		rep.Fail("harness_error", nil, cs, map[string]interface{}{"error": err.Error()})
		return
	}
	if resp["stuck"] != nil {
		i := int(toInt64(resp["stuck"]))
		lo := i - 12
		if lo < 0 {
			lo = 0
		}
		rep.Fail("impl_ne_model", nil, cs, map[string]interface{}{"what": "invalidation model cannot take a step the implementation took", "index": i, "label": graph[i], "before": graph[lo:i]})
		return
	}
	// release trace in the release model
	resp, err = m.Call(map[string]interface{}{"op": "replayRelease", "labels": rel})
	if err != nil {
		rep.Fail("harness_error", nil, cs, map[string]interface{}{"error": err.Error()})
		return
	}
	if resp["stuck"] != nil {
		i := int(toInt64(resp["stuck"]))
		lo := i - 14
		if lo < 0 {
			lo = 0
		}
		rep.Fail("impl_ne_model", nil, cs, map[string]interface{}{"what": "release model cannot take a step the implementation took", "index": i, "label": rel[i], "before": rel[lo:i]})
		return
	}
	st := resp["state"].(map[string]interface{})
	nodes := st["nodes"].([]interface{})
	if len(st["pendRel"].([]interface{})) != 0 || len(st["pendEdge"].([]interface{})) != 0 {
		rep.Fail("impl_ne_model", nil, cs, map[string]interface{}{"what": "at quiescence of the implementation the release model still has committed work", "pendRel": st["pendRel"], "pendEdge": st["pendEdge"]})
		return
	}
	for idx, n := range detail["cleanups"].(map[int]int32) {
		if idx >= len(nodes) {
			continue
		}
		nm := nodes[idx].(map[string]interface{})
		if int32(toInt64(nm["fired"])) != n {
			rep.Fail("impl_ne_model", nil, cs, map[string]interface{}{"what": "cleanup count of a resource differs from the release model", "node": idx, "impl": n, "model": nm})
			return
		}
	}
	// every node of the model that was registered and has a handler (this includes the timer resources of InvalidateAfter)
	for idx, n := range nodes {
		nm := n.(map[string]interface{})
		if nm["handler"].(bool) && nm["everOut"].(bool) && toInt64(nm["fired"]) != 1 {
			rep.Fail("impl_ne_spec", nil, cs, map[string]interface{}{"what": "a registered resource with a cleanup handler was not cleaned up exactly once after everything stopped (release trace of the implementation)", "node": idx, "model": nm})
			return
		}
	}
	rep.Count("ok")
	rep.Count(fmt.Sprintf("release_labels<=%d", ((len(rel)/100)+1)*100))
	rep.Eval(fmt.Sprintf("c08-%d", cs.Seed), len(rel) > 20, map[string]interface{}{"graph_labels": len(graph), "release_labels": len(rel), "runs": detail["runs"], "case": cs})
	rep.Traces++
}

func runC08(c *Ctx) error {
	m, err := StartModel("C08")
	if err != nil {
		return err
	}
	defer m.Close()
	c.Rep.Rule = "concurrent workloads on the real reactive package: 1-3 rerunners reading 1-4 versioned slots through reactive.Cache (cached sub-computation of slot i optionally adopting that of slot i+1, shared between rerunners), resources with Cleanup callbacks, Invalidate / Strobe from 1-2 goroutines, optional InvalidateAfter timers and PurgeCache; hooks log every critical section of invalidation and release under perturbed schedules; both traces are replayed in the Lean models; oracles on the implementation: at quiescence every value of every rerunner's final output is the current version; after Stop every registered resource's cleanup ran exactly once (slot resources by callback counters, timer resources by the release trace)"
	c.Rep.Assumptions = append(c.Rep.Assumptions,
		"dependencies are registered before the data is read",
		"the per-key lock of Cache (locker) is exercised, not modelled",
		"interleavings are sampled under perturbation, not enumerated")
	if c.Replay != "" {
		var f struct {
			Case c08Case `json:"case"`
		}
		b, err := os.ReadFile(c.Replay)
		if err != nil {
			return err
		}
		if err := json.Unmarshal(b, &f); err != nil {
			return err
		}
		for i := 0; i < 20; i++ {
			c08One(c, m, f.Case)
		}
		fmt.Printf("replay (20 re-executions of the scenario): %d failures\n", len(c.Rep.Failures))
		return nil
	}
	n := c.N(250, 5000)
	for i := 0; i < n && !c.Rep.ShouldStop(); i++ {
		cs := c08Case{Seed: c.Rng.U64(), Slots: 1 + c.Rng.Intn(4), Runners: 1 + c.Rng.Intn(3), Bumps: 1 + c.Rng.Intn(10), Timers: c.Rng.Chance(0.4), Purge: c.Rng.Chance(0.3),
			Vary: c.Rng.Chance(0.4), StopMid: c.Rng.Chance(0.35), Loose: c.Rng.Chance(0.3)}
		c08One(c, m, cs)
	}
	return nil
}
