package main

// C08 — Reactive cache never serves superseded values and releases every resource.

import (
	"context"
	"encoding/json"
	"fmt"
	"os"
	"runtime"
	"sync"
	"sync/atomic"
	"time"

	"github.com/samsarahq/thunder/reactive"
)

func init() { register("C08", runC08) }

type c08Res struct {
	res       *reactive.Resource
	node      interface{}
	cleanups  int32
	used      int32
	premature int32 // cleaned up while the last successful run of a live rerunner depended on it
	loose     int32 // registered from a context without rerunner: released at once if nothing depends on it at that moment (after a Strobe, say)
}

type c08Slot struct {
	mu      sync.Mutex
	version int64
	cur     *c08Res
}

type c08Case struct {
	Vary    bool   `json:"vary"`    // runs skip some of their reads (a cached child dropped and adopted again later)
	StopMid bool   `json:"stopmid"` // stop some rerunners while runs are in flight
	Loose   bool   `json:"loose"`   // AddDependency from a context without rerunner on shared resources
	Seed    uint64 `json:"seed"`
	Slots   int    `json:"slots"`
	Runners int    `json:"runners"`
	Bumps   int    `json:"bumps"`
	Timers  bool   `json:"timers"`
	Purge   bool   `json:"purge"`
	Retry   bool   `json:"retry,omitempty"`   // some runs end with RetrySentinelError after reading (and reusing cached children)
	Late    bool   `json:"late,omitempty"`    // some resources are registered by a goroutine a run leaves behind, their Cleanup attached after the registration
	Diamond bool   `json:"diamond,omitempty"` // two cached children computed concurrently in one run share a cached grandchild
}

// c08Val: a cached value: versions read, and the resources they were read under
type c08Val struct {
	vals map[int]int64
	res  []*c08Res
}

func c08Scenario(c *Ctx, cs c08Case) (graph, rel []rxLabel, verdict string, detail map[string]interface{}) {
	r := NewRand(cs.Seed)
	log := newRxLog(r.Fork())
	reactive.VerifHook = log.hook
	defer func() { reactive.VerifHook = nil }()
	oldDelay := reactive.WriteThenReadDelay
	reactive.WriteThenReadDelay = []time.Duration{0, 0, 150 * time.Microsecond}[r.Intn(3)]
	defer func() { reactive.WriteThenReadDelay = oldDelay }()

	var allMu sync.Mutex
	var all []*c08Res
	var dbgPremature string
	// inUse reports whether the last successful run of a rerunner that nobody has stopped depends on the resource
	var inUse func(cr *c08Res) bool
	onCleanup := func(cr *c08Res) {
		if inUse != nil && atomic.LoadInt32(&cr.loose) == 0 && inUse(cr) {
			if atomic.CompareAndSwapInt32(&cr.premature, 0, 1) {
				log.mu.Lock()
				tail := log.rel
				if len(tail) > 40 {
					tail = tail[len(tail)-40:]
				}
				dbgPremature = fmt.Sprintf("node=%v invalidated=%v rel-tail=%v", log.nodes[cr.node], cr.res.Invalidated(), tail)
				log.mu.Unlock()
			}
		}
		atomic.AddInt32(&cr.cleanups, 1)
	}
	mk := func() *c08Res {
		res := reactive.NewResource()
		g := goid()
		log.mu.Lock()
		n := log.lastNew[g]
		delete(log.lastNew, g)
		log.mu.Unlock()
		cr := &c08Res{res: res, node: n}
		res.Cleanup(func() { onCleanup(cr) })
		allMu.Lock()
		all = append(all, cr)
		allMu.Unlock()
		return cr
	}
	// mkLate: the Cleanup is attached by the caller, after the resource was registered
	mkLate := func() *c08Res {
		res := reactive.NewResource()
		g := goid()
		log.mu.Lock()
		n := log.lastNew[g]
		delete(log.lastNew, g)
		log.mu.Unlock()
		cr := &c08Res{res: res, node: n}
		allMu.Lock()
		all = append(all, cr)
		allMu.Unlock()
		return cr
	}
	var latePending int64 // goroutines left behind by runs that have not finished their late registration yet
	slots := make([]*c08Slot, cs.Slots)
	for i := range slots {
		slots[i] = &c08Slot{cur: mk()}
	}
	var quiet int32
	// read slot i through the cache; the cached computation of slot i may adopt that of slot i+1
	var readSlot func(ctx context.Context, i int, nest bool) (*c08Val, error)
	readSlot = func(ctx context.Context, i int, nest bool) (*c08Val, error) {
		v, err := reactive.Cache(ctx, fmt.Sprintf("k%d", i), func(ctx context.Context) (interface{}, error) {
			s := slots[i]
			s.mu.Lock()
			if s.cur.res.Invalidated() {
				s.cur = mk()
			}
			cr := s.cur
			s.mu.Unlock()
			atomic.StoreInt32(&cr.used, 1)
			reactive.AddDependency(ctx, cr.res, nil)
			s.mu.Lock()
			cur := s.cur
			ver := s.version
			s.mu.Unlock()
			if cur != cr {
				atomic.StoreInt32(&cur.used, 1)
				reactive.AddDependency(ctx, cur.res, nil)
			}
			out := &c08Val{vals: map[int]int64{i: ver}, res: []*c08Res{cr}}
			if cur != cr {
				out.res = append(out.res, cur)
			}
			if cs.Timers && atomic.LoadInt32(&quiet) == 0 && ver%3 == 0 {
				reactive.InvalidateAfter(ctx, time.Duration(200+ver*50)*time.Microsecond)
			}
			if nest && i+1 < len(slots) {
				sub, err := readSlot(ctx, i+1, nest)
				if err != nil {
					return nil, err
				}
				for k, x := range sub.vals {
					out.vals[k] = x
				}
				out.res = append(out.res, sub.res...)
			}
			return out, nil
		})
		if err != nil {
			return nil, err
		}
		return v.(*c08Val), nil
	}
	// diamond: two cached children, computed concurrently, both reading slot i through the same cached grandchild
	readDiamond := func(ctx context.Context, i int) (*c08Val, error) {
		var wgd sync.WaitGroup
		var parts [2]*c08Val
		var errs [2]error
		for side := 0; side < 2; side++ {
			side := side
			wgd.Add(1)
			go func() {
				defer wgd.Done()
				v, err := reactive.Cache(ctx, fmt.Sprintf("d%d-%d", side, i), func(ctx context.Context) (interface{}, error) {
					sub, err := readSlot(ctx, i, false)
					if err != nil {
						return nil, err
					}
					return &c08Val{vals: map[int]int64{i: sub.vals[i]}, res: append([]*c08Res{}, sub.res...)}, nil
				})
				if err != nil {
					errs[side] = err
					return
				}
				parts[side] = v.(*c08Val)
			}()
		}
		wgd.Wait()
		for _, e := range errs {
			if e != nil {
				return nil, e
			}
		}
		out := &c08Val{vals: map[int]int64{}, res: nil}
		for side, p := range parts {
			// both sides must be current: the output keeps them apart
			out.vals[1000*(side+1)+i] = p.vals[i]
			out.res = append(out.res, p.res...)
		}
		return out, nil
	}
	type runner struct {
		rr      *reactive.Rerunner
		reads   []int
		nest    bool
		mu      sync.Mutex
		last    map[int]int64
		inRun   int32
		runs    int64
		stopped bool
		retryAt int64
		lastRes map[*c08Res]bool
	}
	var runners []*runner
	inUse = func(cr *c08Res) bool {
		for _, rn := range runners {
			rn.mu.Lock()
			hit := !rn.stopped && rn.lastRes[cr]
			rn.mu.Unlock()
			if hit {
				return true
			}
		}
		return false
	}
	ctx := context.Background()
	for i := 0; i < cs.Runners; i++ {
		rn := &runner{nest: r.Bool(), last: map[int]int64{}}
		perm := r.Perm(cs.Slots)
		rn.reads = perm[:1+r.Intn(cs.Slots)]
		purge := cs.Purge && r.Bool()
		if cs.Retry && r.Chance(0.7) {
			rn.retryAt = int64(2 + r.Intn(3))
		}
		diamond := cs.Diamond && r.Chance(0.7)
		late := cs.Late && r.Chance(0.7)
		runners = append(runners, rn)
		rn.rr = reactive.NewRerunner(ctx, func(ctx context.Context) (interface{}, error) {
			atomic.AddInt32(&rn.inRun, 1)
			defer atomic.AddInt32(&rn.inRun, -1)
			n := atomic.AddInt64(&rn.runs, 1)
			if purge && n%4 == 2 {
				reactive.PurgeCache(ctx)
			}
			out := map[int]int64{}
			used := map[*c08Res]bool{}
			for k, si := range rn.reads {
				if cs.Vary && len(rn.reads) > 1 && (int(n)+k)%3 == 1 {
					continue // this run does not use this child
				}
				var m *c08Val
				var err error
				if diamond && k == 0 {
					m, err = readDiamond(ctx, si)
				} else {
					m, err = readSlot(ctx, si, rn.nest)
				}
				if err != nil {
					return nil, err
				}
				for k, x := range m.vals {
					out[k] = x
				}
				for _, cr := range m.res {
					used[cr] = true
				}
				if n%2 == 0 {
					runtime.Gosched()
				}
			}
			if late && n <= 3 {
				// a goroutine the run leaves behind registers one more resource with this run's context - perhaps after
				// the run was superseded and released - and attaches the cleanup afterwards
				atomic.AddInt64(&latePending, 1)
				delay := time.Duration(int(n)*150) * time.Microsecond
				go func() {
					defer atomic.AddInt64(&latePending, -1)
					time.Sleep(delay)
					cr := mkLate()
					atomic.StoreInt32(&cr.used, 1)
					reactive.AddDependency(ctx, cr.res, nil)
					runtime.Gosched()
					cr.res.Cleanup(func() { onCleanup(cr) })
				}()
			}
			if rn.retryAt != 0 && n == rn.retryAt {
				return nil, reactive.RetrySentinelError
			}
			rn.mu.Lock()
			rn.last = out
			rn.lastRes = used
			rn.mu.Unlock()
			return nil, nil
		}, time.Microsecond, r.Bool())
	}
	var wg sync.WaitGroup
	for b := 0; b < 1+r.Intn(2); b++ {
		wg.Add(1)
		br := r.Fork()
		go func() {
			defer wg.Done()
			for i := 0; i < cs.Bumps; i++ {
				s := slots[br.Intn(cs.Slots)]
				if br.Bool() {
					s.mu.Lock()
					s.version++
					cr := s.cur
					s.mu.Unlock()
					cr.res.Strobe()
				} else {
					nr := mk()
					s.mu.Lock()
					s.version++
					old := s.cur
					s.cur = nr
					s.mu.Unlock()
					old.res.Invalidate()
				}
				if br.Chance(0.5) {
					runtime.Gosched()
				} else if br.Chance(0.3) {
					time.Sleep(time.Duration(br.Intn(300)) * time.Microsecond)
				}
			}
		}()
	}
	if cs.Loose {
		for i := 0; i < 3; i++ {
			s := slots[r.Intn(cs.Slots)]
			s.mu.Lock()
			cr := s.cur
			s.mu.Unlock()
			// legal: a read outside any rerunner registers nothing lasting
			atomic.StoreInt32(&cr.loose, 1)
			reactive.AddDependency(context.Background(), cr.res, nil)
			atomic.StoreInt32(&cr.used, 1)
			runtime.Gosched()
		}
	}
	if cs.StopMid {
		for _, rn := range runners {
			if r.Chance(0.5) {
				time.Sleep(time.Duration(r.Intn(400)) * time.Microsecond)
				rn.mu.Lock()
				rn.stopped = true
				rn.mu.Unlock()
				rn.rr.Stop()
			}
		}
	}
	wg.Wait()
	atomic.StoreInt32(&quiet, 1)
	// a last change per slot, so that cached values holding an armed timer are recomputed without one
	for _, s := range slots {
		s.mu.Lock()
		s.version++
		cr := s.cur
		s.mu.Unlock()
		cr.res.Strobe()
	}
	waitQuiet := func(what string) string {
		deadline := newPatience(6 * time.Second)
		for {
			before := atomic.LoadInt64(&log.events)
			time.Sleep(20 * time.Millisecond)
			busy := atomic.LoadInt64(&latePending) != 0
			for _, rn := range runners {
				if atomic.LoadInt32(&rn.inRun) != 0 {
					busy = true
				}
			}
			if !busy && atomic.LoadInt64(&log.events) == before {
				time.Sleep(15 * time.Millisecond)
				if atomic.LoadInt64(&log.events) == before {
					return ""
				}
			}
			if deadline.expired() {
				return "no quiescence " + what
			}
		}
	}
	detail = map[string]interface{}{}
	if e := waitQuiet("after the data changes"); e != "" {
		return nil, nil, "harness_error", map[string]interface{}{"error": e}
	}
	log.mu.Lock()
	detail["quiescent_at"] = len(log.labels)
	log.mu.Unlock()
	// freshness: every value in every rerunner's final output is the current version
	for ri, rn := range runners {
		rn.mu.Lock()
		if rn.stopped {
			rn.mu.Unlock()
			continue
		}
		for key, v := range rn.last {
			si := key % 1000
			slots[si].mu.Lock()
			cur := slots[si].version
			slots[si].mu.Unlock()
			if v != cur {
				verdict = "impl_ne_spec"
				detail["what"] = fmt.Sprintf("stale value in the final output: rerunner %d holds version %d of slot %d (read directly or through a cached sub-computation), current version is %d", ri, v, si, cur)
			}
		}
		rn.mu.Unlock()
	}
	// a cleanup that ran while the last successful run of a live rerunner depended on the resource: on the unchanged
	// code this happens when a dependant registers between the decision to release (no dependant left) and the release
	// itself, which then invalidates the newcomer; whether a release was decided while something depended on the node
	// is what the release model's replay checks (theorem cleanup_decided_only_when_unused). Recorded, not judged here.
	allMu.Lock()
	for _, cr := range all {
		if atomic.LoadInt32(&cr.premature) == 1 {
			detail["cleanup_while_in_use"] = dbgPremature
		}
	}
	allMu.Unlock()
	// stop everything: every resource that was ever registered must be cleaned up exactly once
	for _, rn := range runners {
		rn.mu.Lock()
		rn.stopped = true
		rn.mu.Unlock()
	}
	for _, rn := range runners {
		rn.rr.Stop()
	}
	if e := waitQuiet("after Stop"); e != "" {
		return nil, nil, "harness_error", map[string]interface{}{"error": e}
	}
	log.mu.Lock()
	log.perturb = false
	graph = append([]rxLabel{}, log.labels...)
	rel = append([]rxLabel{}, log.rel...)
	problems := append([]string{}, log.problems...)
	cleanups := map[int]int32{}
	allMu.Lock()
	for _, cr := range all {
		idx, ok := log.nodes[cr.node]
		n := atomic.LoadInt32(&cr.cleanups)
		used := atomic.LoadInt32(&cr.used) == 1
		if ok {
			cleanups[idx] = n
		}
		if verdict == "" && (n > 1 || (used && n != 1)) {
			verdict = "impl_ne_spec"
			detail["what"] = fmt.Sprintf("cleanup callback of resource node %d ran %d times after every computation using it was stopped (registered: %v)", idx, n, used)
		}
	}
	allMu.Unlock()
	log.mu.Unlock()
	if len(problems) > 0 && verdict == "" {
		verdict = "harness_error"
		detail["error"] = problems[0]
	}
	detail["cleanups"] = cleanups
	bd := map[int]bool{}
	log.mu.Lock()
	for k, v := range log.bornDead {
		bd[k] = v
	}
	log.mu.Unlock()
	detail["born_dead"] = bd
	var runs int64
	for _, rn := range runners {
		runs += atomic.LoadInt64(&rn.runs)
	}
	detail["runs"] = runs
	return graph, rel, verdict, detail
}

func c08One(c *Ctx, m *Model, cs c08Case) {
	rep := c.Rep
	graph, rel, verdict, detail := c08Scenario(c, cs)
	if verdict != "" {
		rep.Fail(verdict, nil, cs, detail)
		return
	}
	if kind, d := rxQuiescentCheck(m, graph, detail["quiescent_at"].(int), detail["born_dead"].(map[int]bool)); kind != "" {
		rep.Fail(kind, nil, cs, d)
		return
	}
	// invalidation trace in the graph model
	resp, err := m.Call(map[string]interface{}{"op": "replay", "labels": graph})
	if err != nil {
		rep.Fail("harness_error", nil, cs, map[string]interface{}{"error": err.Error()})
		return
	}
	if resp["stuck"] != nil {
		i := int(toInt64(resp["stuck"]))
		lo := i - 12
		if lo < 0 {
			lo = 0
		}
		rep.Fail("impl_ne_model", nil, cs, map[string]interface{}{"what": "invalidation model cannot take a step the implementation took", "index": i, "label": graph[i], "before": graph[lo:i]})
		return
	}
	// release trace in the release model
	resp, err = m.Call(map[string]interface{}{"op": "replayRelease", "labels": rel})
	if err != nil {
		rep.Fail("harness_error", nil, cs, map[string]interface{}{"error": err.Error()})
		return
	}
	if resp["stuck"] != nil {
		i := int(toInt64(resp["stuck"]))
		lo := i - 14
		if lo < 0 {
			lo = 0
		}
		rep.Fail("impl_ne_model", nil, cs, map[string]interface{}{"what": "release model cannot take a step the implementation took", "index": i, "label": rel[i], "before": rel[lo:i]})
		return
	}
	st := resp["state"].(map[string]interface{})
	nodes := st["nodes"].([]interface{})
	if len(st["pendRel"].([]interface{})) != 0 || len(st["pendEdge"].([]interface{})) != 0 {
		rep.Fail("impl_ne_model", nil, cs, map[string]interface{}{"what": "at quiescence of the implementation the release model still has committed work", "pendRel": st["pendRel"], "pendEdge": st["pendEdge"]})
		return
	}
	for idx, n := range detail["cleanups"].(map[int]int32) {
		if idx >= len(nodes) {
			continue
		}
		nm := nodes[idx].(map[string]interface{})
		if int32(toInt64(nm["fired"])) != n {
			rep.Fail("impl_ne_model", nil, cs, map[string]interface{}{"what": "cleanup count of a resource differs from the release model", "node": idx, "impl": n, "model": nm})
			return
		}
	}
	// every node of the model that was registered and has a handler (this includes the timer resources of InvalidateAfter)
	for idx, n := range nodes {
		nm := n.(map[string]interface{})
		if nm["handler"].(bool) && nm["everOut"].(bool) && toInt64(nm["fired"]) != 1 {
			rep.Fail("impl_ne_spec", nil, cs, map[string]interface{}{"what": "a registered resource with a cleanup handler was not cleaned up exactly once after everything stopped (release trace of the implementation)", "node": idx, "model": nm})
			return
		}
	}
	rep.Count("ok")
	rep.Count(fmt.Sprintf("release_labels<=%d", ((len(rel)/100)+1)*100))
	rep.Eval(fmt.Sprintf("c08-%d", cs.Seed), len(rel) > 20, map[string]interface{}{"graph_labels": len(graph), "release_labels": len(rel), "runs": detail["runs"], "case": cs})
	rep.Traces++
}

func runC08(c *Ctx) error {
	m, err := StartModel("C08")
	if err != nil {
		return err
	}
	defer m.Close()
	c.Rep.Rule = "concurrent workloads on the real reactive package: 1-3 rerunners reading 1-4 versioned slots through reactive.Cache (cached sub-computation of slot i optionally adopting that of slot i+1, shared between rerunners), resources with Cleanup callbacks, Invalidate / Strobe from 1-2 goroutines, optional InvalidateAfter timers and PurgeCache, runs that end with the retry sentinel after reusing cached children, two cached children computed concurrently over one cached grandchild, resources registered late by a goroutine a run left behind with their Cleanup attached afterwards; hooks log every critical section of invalidation and release under perturbed schedules; both traces are replayed in the Lean models; oracles on the implementation: at quiescence every value of every rerunner's final output is the current version; no cleanup runs while the last successful run of a live rerunner depends on the resource; after Stop every registered resource's cleanup ran exactly once (slot resources by callback counters, timer resources by the release trace)"
	c.Rep.Assumptions = append(c.Rep.Assumptions,
		"dependencies are registered before the data is read",
		"the per-key lock of Cache (locker) is exercised, not modelled",
		"interleavings are sampled under perturbation, not enumerated")
	if c.Replay != "" {
		var f struct {
			Case c08Case `json:"case"`
		}
		b, err := os.ReadFile(c.Replay)
		if err != nil {
			return err
		}
		if err := json.Unmarshal(b, &f); err != nil {
			return err
		}
		for i := 0; i < 20; i++ {
			c08One(c, m, f.Case)
		}
		fmt.Printf("replay (20 re-executions of the scenario): %d failures\n", len(c.Rep.Failures))
		return nil
	}
	n := c.N(250, 5000)
	for i := 0; i < n && !c.Rep.ShouldStop(); i++ {
		cs := c08Case{Seed: c.Rng.U64(), Slots: 1 + c.Rng.Intn(4), Runners: 1 + c.Rng.Intn(3), Bumps: 1 + c.Rng.Intn(10), Timers: c.Rng.Chance(0.4), Purge: c.Rng.Chance(0.3),
			Vary: c.Rng.Chance(0.4), StopMid: c.Rng.Chance(0.35), Loose: c.Rng.Chance(0.3)}
		cs.Retry, cs.Late, cs.Diamond = c.Rng.Chance(0.35), c.Rng.Chance(0.3), c.Rng.Chance(0.3)
		c08One(c, m, cs)
	}
	// last: see runC04
	c08Directed(c)
	return nil
}
