package main

// Reproducers of known findings that came out of the defect hunt on the unchanged tree (notes/hunt/): each one
// runs the real code on the specific input the finding is identified by and records whether it (still) fails.
// bin/check prints "KNOWN-FINDING: ..." for a listed finding whose reproducer fails and exits 0; a finding that
// stops failing simply stops being printed.

import (
	"context"
	"database/sql/driver"
	"encoding/json"
	"errors"
	"fmt"
	"math"
	"sort"
	"strings"
	"sync"
	"time"

	"github.com/samsarahq/thunder/batch"
	"github.com/samsarahq/thunder/graphql"
	"github.com/samsarahq/thunder/graphql/schemabuilder"
	"github.com/samsarahq/thunder/internal"
	"github.com/samsarahq/thunder/livesql"
	"github.com/samsarahq/thunder/reactive"
	"github.com/samsarahq/thunder/sqlgen"
)

func kfTry(f func() (bool, string)) (fails bool, detail string) {
	defer func() {
		if p := recover(); p != nil {
			fails, detail = true, fmt.Sprintf("panic: %v", firstN(fmt.Sprint(p), 200))
		}
	}()
	return f()
}

// a work scheduler that runs everything on the calling goroutine and recovers: a panic in the executor becomes an
// observation instead of the end of the harness
type kfSched struct{ panicked interface{} }

func (s *kfSched) Run(resolver graphql.UnitResolver, units ...*graphql.WorkUnit) {
	defer func() {
		if r := recover(); r != nil {
			s.panicked = r
		}
	}()
	queue := append([]*graphql.WorkUnit{}, units...)
	for len(queue) > 0 {
		unit := queue[0]
		queue = append(queue[1:], resolver(unit)...)
	}
}

func kfRun(schema *graphql.Schema, query string, vars map[string]interface{}) (out interface{}, accepted bool, err error) {
	q, err := graphql.Parse(query, vars)
	if err != nil {
		return nil, false, err
	}
	if err := graphql.PrepareQuery(context.Background(), schema.Query, q.SelectionSet); err != nil {
		return nil, false, err
	}
	s := &kfSched{}
	v, err := graphql.NewExecutor(s).Execute(context.Background(), schema.Query, nil, q)
	if s.panicked != nil {
		return nil, true, fmt.Errorf("executor panicked: %v", firstN(fmt.Sprint(s.panicked), 160))
	}
	if err != nil {
		return nil, true, err
	}
	b, _ := json.Marshal(internal.AsJSON(v))
	var j interface{}
	json.Unmarshal(b, &j)
	return j, true, nil
}

// ---- C18 ------------------------------------------------------------------------------------------------------

type kfEnum int32

type kfArgs struct {
	I8  *int8
	U8  *uint8
	I   *int64
	F32 *float32
	E   *kfEnum
	S   *string
}

func kfReproC18(rep *Report) {
	var got []kfArgs
	sb := schemabuilder.NewSchema()
	sb.Enum(kfEnum(0), map[string]kfEnum{"ONE": 1, "TWO": 2})
	sb.Query().FieldFunc("k", func(args kfArgs) string { got = append(got, args); return "ok" })
	sb.Mutation()
	schema := sb.MustBuild()
	// C18-1: numbers that are not values of the argument's type are accepted and changed
	f, d := kfTry(func() (bool, string) {
		var bad []string
		for _, c := range []struct{ arg, what string }{{"i8: 128", "int8 128"}, {"i: 1.5", "int64 1.5"}, {"u8: -1", "uint8 -1"}, {"f32: 1e300", "float32 1e300"}} {
			got = nil
			if _, accepted, err := kfRun(schema, "{ k("+c.arg+") }", nil); accepted && err == nil && len(got) == 1 {
				g := got[0]
				switch {
				case g.I8 != nil:
					bad = append(bad, fmt.Sprintf("%s arrives as %d", c.what, *g.I8))
				case g.I != nil:
					bad = append(bad, fmt.Sprintf("%s arrives as %d", c.what, *g.I))
				case g.U8 != nil:
					bad = append(bad, fmt.Sprintf("%s arrives as %d", c.what, *g.U8))
				case g.F32 != nil && math.IsInf(float64(*g.F32), 0):
					bad = append(bad, fmt.Sprintf("%s arrives as %v", c.what, *g.F32))
				}
			}
		}
		return len(bad) > 0, strings.Join(bad, "; ")
	})
	rep.Repros["C18-1"] = Repro{Fails: f, Detail: d}
	// C18-2: the literal kinds String and Enum are not told apart
	f, d = kfTry(func() (bool, string) {
		var bad []string
		got = nil
		if _, accepted, err := kfRun(schema, `{ k(e: "ONE") }`, nil); accepted && err == nil {
			bad = append(bad, `a quoted string is accepted for an enum argument`)
		}
		if _, accepted, err := kfRun(schema, `{ k(s: FOO) }`, nil); accepted && err == nil {
			bad = append(bad, `a bare name is accepted for a string argument`)
		}
		return len(bad) > 0, strings.Join(bad, "; ")
	})
	rep.Repros["C18-2"] = Repro{Fails: f, Detail: d}
	// C18-3: a surrogate-pair escape in a string literal (the vendored lexer) against the same text in a variable
	f, d = kfTry(func() (bool, string) {
		got = nil
		kfRun(schema, `{ k(s: "\uD83D\uDE00") }`, nil)
		kfRun(schema, `query Q($v: String) { k(s: $v) }`, map[string]interface{}{"v": "\U0001F600"})
		if len(got) == 2 && got[0].S != nil && got[1].S != nil && *got[0].S != *got[1].S {
			return true, fmt.Sprintf("literal arrives as %q, variable as %q", *got[0].S, *got[1].S)
		}
		return false, ""
	})
	rep.Repros["C18-3"] = Repro{Fails: f, Detail: d}
}

// ---- C14 ------------------------------------------------------------------------------------------------------

type kfLvl int64

func (l kfLvl) MarshalJSON() ([]byte, error) { return json.Marshal(fmt.Sprintf("level-%d", int64(l))) }

type kfHost struct{ Id int64 }
type kfItem struct {
	Id int64 `graphql:",key"`
}

func kfReproC14(rep *Report) {
	// C14-7: a fragment whose type condition is the union itself is neither validated nor applied
	f, d := kfTry(func() (bool, string) {
		schema := buildXSchema()
		q, err := graphql.Parse(`{ u { ... on XU { ... on XA { bogus } } } }`, nil)
		if err != nil {
			return false, ""
		}
		if err := graphql.PrepareQuery(context.Background(), schema.Query, q.SelectionSet); err == nil {
			return true, "{ u { ... on XU { ... on XA { bogus } } } } passes validation although XA has no field bogus"
		}
		return false, ""
	})
	rep.Repros["C14-7"] = Repro{Fails: f, Detail: d}
	// C14-8: a named scalar type with MarshalJSON is advertised by its kind and written as whatever it marshals to
	f, d = kfTry(func() (bool, string) {
		sb := schemabuilder.NewSchema()
		sb.Query().FieldFunc("lv", func() kfLvl { return 3 })
		sb.Mutation()
		schema := sb.MustBuild()
		adv := ""
		if nn, ok := schema.Query.(*graphql.Object).Fields["lv"].Type.(*graphql.NonNull); ok {
			if sc, ok := nn.Type.(*graphql.Scalar); ok {
				adv = sc.Type
			}
		}
		out, _, err := kfRun(schema, "{ lv }", nil)
		if err != nil {
			return false, ""
		}
		if _, isStr := out.(map[string]interface{})["lv"].(string); isStr && adv != "string" {
			return true, fmt.Sprintf("advertised %s!, written %v", adv, out)
		}
		return false, ""
	})
	rep.Repros["C14-8"] = Repro{Fails: f, Detail: d}
	// C14-9: a batch field func that leaves a source out of its result map: fine for scalars and objects, an error
	// for a nullable enum
	f, d = kfTry(func() (bool, string) {
		sb := schemabuilder.NewSchema()
		sb.Enum(kfEnum(0), map[string]kfEnum{"ONE": 1, "TWO": 2})
		sb.Query().FieldFunc("hosts", func() []*kfHost { return []*kfHost{{Id: 1}, {Id: 2}} })
		host := sb.Object("kfHost", kfHost{})
		host.BatchFieldFunc("color", func(in map[batch.Index]*kfHost) (map[batch.Index]kfEnum, error) {
			out := map[batch.Index]kfEnum{}
			for i, h := range in {
				if h.Id%2 == 0 {
					out[i] = 1
				}
			}
			return out, nil
		})
		sb.Mutation()
		schema := sb.MustBuild()
		_, accepted, err := kfRun(schema, "{ hosts { id color } }", nil)
		if accepted && err != nil {
			return true, "{ hosts { id color } } is accepted and fails: " + firstN(err.Error(), 120)
		}
		return false, ""
	})
	rep.Repros["C14-9"] = Repro{Fails: f, Detail: d}
	// C14-10: the node of a paginated field over struct values is advertised as NON_NULL of NON_NULL
	f, d = kfTry(func() (bool, string) {
		sb := schemabuilder.NewSchema()
		sb.Object("kfItem", kfItem{})
		sb.Query().FieldFunc("items", func() []kfItem { return []kfItem{{Id: 1}} }, schemabuilder.Paginated)
		sb.Mutation()
		schema := sb.MustBuild()
		found := ""
		seen := map[graphql.Type]bool{}
		var walk func(t graphql.Type, path string)
		walk = func(t graphql.Type, path string) {
			if t == nil || seen[t] {
				return
			}
			seen[t] = true
			switch t := t.(type) {
			case *graphql.NonNull:
				if _, ok := t.Type.(*graphql.NonNull); ok && found == "" {
					found = path
				}
				walk(t.Type, path)
			case *graphql.List:
				walk(t.Type, path)
			case *graphql.Object:
				for n, fl := range t.Fields {
					walk(fl.Type, path+"."+n)
				}
			}
		}
		walk(schema.Query, "Query")
		return found != "", "NON_NULL directly inside NON_NULL at " + found
	})
	rep.Repros["C14-10"] = Repro{Fails: f, Detail: d}
}

// ---- C13 ------------------------------------------------------------------------------------------------------

type kfBlob []byte
type kfBlobRow struct {
	Id   int64 `sql:",primary"`
	Data kfBlob
}
type kfJSONRow struct {
	Id int64  `sql:",primary"`
	J  []byte `sql:",json"`
}
type kfBin struct{ N byte }

func (b kfBin) MarshalBinary() ([]byte, error) { return []byte{b.N}, nil }
func (b *kfBin) UnmarshalBinary(d []byte) error {
	if len(d) != 1 {
		return errors.New("kfBin: one byte expected")
	}
	b.N = d[0]
	return nil
}

type kfBinRow struct {
	Id int64 `sql:",primary"`
	B  kfBin `sql:",binary"`
}

// kfStrict: a column type with Scan / Value written to the sql.Scanner contract (int64, float64, bool, []byte,
// string, time.Time, nil)
type kfStrict struct{ N int64 }

func (s kfStrict) Value() (driver.Value, error) { return s.N, nil }
func (s *kfStrict) Scan(src interface{}) error {
	n, ok := src.(int64)
	if !ok {
		return fmt.Errorf("kfStrict: int64 expected, got %T", src)
	}
	s.N = n
	return nil
}

type kfStrictRow struct {
	Id int64 `sql:",primary"`
	S  kfStrict
}

func kfReproC13(rep *Report) {
	schema := sqlgen.NewSchema()
	regErr := map[string]error{
		"blob":   schema.RegisterType("kfblob", sqlgen.UniqueId, kfBlobRow{}),
		"json":   schema.RegisterType("kfjson", sqlgen.UniqueId, kfJSONRow{}),
		"bin":    schema.RegisterType("kfbin", sqlgen.UniqueId, kfBinRow{}),
		"strict": schema.RegisterType("kfstrict", sqlgen.UniqueId, kfStrictRow{}),
	}
	// C13-5: a named type over []byte is accepted at registration and can never be decoded
	f, d := kfTry(func() (bool, string) {
		if regErr["blob"] != nil {
			return false, ""
		}
		for _, src := range []driver.Value{[]byte{1, 2, 3}, string([]byte{1, 2, 3})} {
			got, err := schema.BuildStruct("kfblob", []driver.Value{int64(1), src})
			if err != nil {
				return true, fmt.Sprintf("type Blob []byte is registered; decoding %T{1,2,3} fails: %s", src, firstN(err.Error(), 120))
			}
			if row, ok := got.(*kfBlobRow); !ok || string(row.Data) != string([]byte{1, 2, 3}) || row.Id != 1 {
				return true, fmt.Sprintf("type Blob []byte: %T{1,2,3} decodes to %#v", src, got)
			}
		}
		return false, ""
	})
	rep.Repros["C13-5"] = Repro{Fails: f, Detail: d}
	// C13-9: a named []byte value was not a driver.Value: the tester found a row unequal to itself
	f, d = kfTry(func() (bool, string) {
		if regErr["blob"] != nil {
			return false, ""
		}
		row := &kfBlobRow{Id: 1, Data: kfBlob{1, 2, 3}}
		tester, err := schema.MakeTester("kfblob", sqlgen.Filter{"id": int64(1), "data": row.Data})
		if err != nil {
			return true, "MakeTester with the row's own Blob value: " + firstN(err.Error(), 120)
		}
		if !tester.Test(row) {
			return true, "a filter made from the row's own column values (data: Blob{1,2,3}) does not match the row"
		}
		return false, ""
	})
	rep.Repros["C13-9"] = Repro{Fails: f, Detail: d}
	// C13-6: a []byte field tagged json is written as JSON and read back as the JSON text
	f, d = kfTry(func() (bool, string) {
		if regErr["json"] != nil {
			return false, ""
		}
		vals, err := schema.UnbuildStruct("kfjson", &kfJSONRow{Id: 1, J: []byte{1, 2, 3}})
		if err != nil {
			return false, ""
		}
		dv := make([]driver.Value, len(vals))
		for i, v := range vals {
			if vv, ok := v.(driver.Valuer); ok {
				dv[i], _ = vv.Value()
			} else {
				dv[i] = v
			}
		}
		back, err := schema.BuildStruct("kfjson", dv)
		if err != nil {
			return true, "round trip fails: " + firstN(err.Error(), 120)
		}
		if got := back.(*kfJSONRow).J; string(got) != string([]byte{1, 2, 3}) {
			return true, fmt.Sprintf("[]byte{1,2,3} under the json tag comes back as %q", string(got))
		}
		return false, ""
	})
	rep.Repros["C13-6"] = Repro{Fails: f, Detail: d}
	// C13-7: a binary-tagged field cannot be read from a value delivered as string (how the change-log reader delivers
	// BINARY / VARBINARY columns)
	f, d = kfTry(func() (bool, string) {
		if regErr["bin"] != nil {
			return false, ""
		}
		if _, err := schema.BuildStruct("kfbin", []driver.Value{int64(1), []byte{7}}); err != nil {
			return false, "" // not even []byte works: another matter
		}
		if _, err := schema.BuildStruct("kfbin", []driver.Value{int64(1), string([]byte{7})}); err != nil {
			return true, "the same bytes delivered as string: " + firstN(err.Error(), 120)
		}
		return false, ""
	})
	rep.Repros["C13-7"] = Repro{Fails: f, Detail: d}
	// C13-8: a type with Scan / Value is handed the change log's raw integer widths
	f, d = kfTry(func() (bool, string) {
		if regErr["strict"] != nil {
			return false, ""
		}
		if _, err := schema.BuildStruct("kfstrict", []driver.Value{int64(1), int64(5)}); err != nil {
			return false, ""
		}
		if _, err := schema.BuildStruct("kfstrict", []driver.Value{int64(1), int32(5)}); err != nil {
			return true, "an INT column's change-log value int32(5): " + firstN(err.Error(), 120)
		}
		return false, ""
	})
	rep.Repros["C13-8"] = Repro{Fails: f, Detail: d}
}

// ---- C12 ------------------------------------------------------------------------------------------------------

func kfReproC12(rep *Report) {
	// C12-5: raw SQL of SelectOptions is pasted into the statement: a Where with unbalanced parentheses escapes the limit
	f, d := kfTry(func() (bool, string) {
		env := c12NewEnv()
		db, err := env.base.WithShardLimit(sqlgen.Filter{"shard": int64(1)})
		if err != nil {
			return false, ""
		}
		env.fdb.resetLog()
		var out []*c12Row
		qerr := db.Query(context.Background(), &out, sqlgen.Filter{"shard": int64(1)}, &sqlgen.SelectOptions{Where: "1=1) OR (1=1"})
		for _, st := range env.fdb.statements() {
			if strings.Contains(st.SQL, ") OR (1=1") {
				return true, fmt.Sprintf("reached the driver: %s (error of the call: %v)", st.SQL, qerr)
			}
		}
		return false, ""
	})
	rep.Repros["C12-5"] = Repro{Fails: f, Detail: d}
	// C12-6: InsertRows checks and sends chunk by chunk: a row that does not comply in a later chunk is refused after
	// the earlier chunks were sent
	f, d = kfTry(func() (bool, string) {
		env := c12NewEnv()
		db, err := env.base.WithShardLimit(sqlgen.Filter{"shard": int64(1)})
		if err != nil {
			return false, ""
		}
		env.fdb.resetLog()
		rows := []*c12Row{c12MkRow([]int64{50, 1, -1, 0}), c12MkRow([]int64{51, 2, -1, 0})}
		ierr := db.InsertRows(context.Background(), rows, 1)
		n := 0
		for _, st := range env.fdb.statements() {
			if strings.HasPrefix(st.SQL, "INSERT") {
				n++
			}
		}
		if ierr != nil && n > 0 {
			return true, fmt.Sprintf("the call is refused (%v) after %d INSERT statement(s) were sent", firstN(ierr.Error(), 80), n)
		}
		return false, ""
	})
	rep.Repros["C12-6"] = Repro{Fails: f, Detail: d}
	// C12-7: UpdateRow carries the limit in its SET list only: a row that lives in another shard is overwritten
	f, d = kfTry(func() (bool, string) {
		env := c12NewEnv()
		db, err := env.base.WithShardLimit(sqlgen.Filter{"shard": int64(1)})
		if err != nil {
			return false, ""
		}
		// row 5 of the fixture is in shard 2 (5 % 3)
		uerr := db.UpdateRow(context.Background(), c12MkRow([]int64{5, 1, -1, 77}))
		for _, r := range env.fdb.snapshot("rows") {
			if toInt64(r["id"]) == 5 && toInt64(r["shard"]) == 1 {
				return true, fmt.Sprintf("row 5, which was in shard 2, now reads shard 1, n %v (error of the call: %v)", r["n"], uerr)
			}
		}
		return false, ""
	})
	rep.Repros["C12-7"] = Repro{Fails: f, Detail: d}
}

// ---- C10 ------------------------------------------------------------------------------------------------------

type kfC10Row struct {
	Id      int64 `sql:",primary"`
	Small   int8
	U32     uint32
	Account int64
	Flag    bool
	N       int64 // a NOT NULL-typed Go field over a column that may hold NULL
	P       int64 `sql:",implicitnull"`
	S       string
	W       time.Time
	J       c10J `sql:",json"`
}

// kfC10World: one table on the fake database; queries alone and batched
type kfC10World struct {
	fdb *fsDB
	db  *sqlgen.DB
}

func kfC10New(rows []map[string]driverValue) *kfC10World {
	fdb, conn := newFakeDB()
	fdb.createTable("kfrows", []string{"id", "small", "u32", "account", "flag", "n", "p", "s", "w", "j"}, []string{"id"})
	for _, r := range rows {
		full := map[string]driverValue{"small": int64(0), "u32": int64(0), "account": int64(0), "flag": int64(0), "n": int64(0), "p": int64(0), "s": "", "w": c10TimeBase, "j": []byte(`{"K":0}`)}
		for k, v := range r {
			full[k] = v
		}
		fdb.tables["kfrows"].Rows = append(fdb.tables["kfrows"].Rows, full)
	}
	schema := sqlgen.NewSchema()
	schema.MustRegisterType("kfrows", sqlgen.UniqueId, kfC10Row{})
	return &kfC10World{fdb: fdb, db: sqlgen.NewDB(conn, schema)}
}

// run returns, per filter, the ids (or "error: …") alone and batched together
func (w *kfC10World) run(filters []sqlgen.Filter) (alone, batched []string) {
	res := func(out []*kfC10Row, err error) string {
		if err != nil {
			return "error: " + firstN(err.Error(), 60)
		}
		ids := []int64{}
		for _, r := range out {
			ids = append(ids, r.Id)
		}
		sort.Slice(ids, func(i, j int) bool { return ids[i] < ids[j] })
		return fmt.Sprint(ids)
	}
	alone = make([]string, len(filters))
	batched = make([]string, len(filters))
	for i, f := range filters {
		var out []*kfC10Row
		err := w.db.Query(context.Background(), &out, f, nil)
		alone[i] = res(out, err)
	}
	ctx := batch.WithBatching(context.Background())
	var wg sync.WaitGroup
	for i := range filters {
		wg.Add(1)
		go func(i int) {
			defer wg.Done()
			defer func() {
				if p := recover(); p != nil {
					batched[i] = "panic"
				}
			}()
			var out []*kfC10Row
			err := w.db.Query(ctx, &out, filters[i], nil)
			batched[i] = res(out, err)
		}(i)
	}
	wg.Wait()
	return alone, batched
}

func kfC10Differs(rows []map[string]driverValue, filters []sqlgen.Filter) (bool, string) {
	alone, batched := kfC10New(rows).run(filters)
	for i := range filters {
		if alone[i] != batched[i] {
			return true, fmt.Sprintf("filter %v: alone %s, batched %s", filters[i], alone[i], batched[i])
		}
	}
	return false, ""
}

func kfReproC10(rep *Report) {
	two := []map[string]driverValue{{"id": int64(1)}, {"id": int64(2)}}
	set := func(i int, k string, v driverValue) []map[string]driverValue {
		out := []map[string]driverValue{{"id": int64(1)}, {"id": int64(2)}}
		out[i][k] = v
		return out
	}
	_ = two
	companion := sqlgen.Filter{"id": int64(2)}
	// C10-4: a filter value outside the column's range wrapped around in the tester
	f, d := kfTry(func() (bool, string) {
		// the companion call fetches the row that the wrapped value would match
		fetch := sqlgen.Filter{"id": int64(1)}
		if x, y := kfC10Differs(set(0, "small", int64(44)), []sqlgen.Filter{{"small": 300}, fetch}); x {
			return x, "int8 column holding 44, " + y
		}
		return kfC10Differs(set(0, "u32", int64(4294967295)), []sqlgen.Filter{{"u32": -1}, fetch})
	})
	rep.Repros["C10-4"] = Repro{Fails: f, Detail: d}
	// C10-5: whole floats and bools for integer / bool columns
	f, d = kfTry(func() (bool, string) {
		rows := []map[string]driverValue{{"id": int64(1), "account": int64(1234567), "small": int64(1), "flag": int64(1)}, {"id": int64(2), "account": int64(48)}}
		return kfC10Differs(rows, []sqlgen.Filter{{"account": float64(1234567)}, {"account": float64(48)}, {"small": true}, {"flag": float64(1)}, {"flag": 1}})
	})
	rep.Repros["C10-5"] = Repro{Fails: f, Detail: d}
	// C10-6: a pointer to a pointer
	f, d = kfTry(func() (bool, string) {
		x := int64(7)
		px := &x
		return kfC10Differs(set(0, "account", int64(7)), []sqlgen.Filter{{"account": &px}, companion})
	})
	rep.Repros["C10-6"] = Repro{Fails: f, Detail: d}
	// C10-7: a time with a part finer than a microsecond (the fake database, like the MySQL driver, cuts the parameter off)
	f, d = kfTry(func() (bool, string) {
		at := c10TimeBase.Add(5 * time.Second)
		return kfC10Differs(set(0, "w", at), []sqlgen.Filter{{"w": at.Add(300 * time.Nanosecond)}, companion})
	})
	rep.Repros["C10-7"] = Repro{Fails: f, Detail: d}
	// C10-8 (known): NULL in a column whose Go field is not a pointer
	f, d = kfTry(func() (bool, string) {
		return kfC10Differs(set(0, "n", nil), []sqlgen.Filter{{"n": nil}, {"n": 0}})
	})
	rep.Repros["C10-8"] = Repro{Fails: f, Detail: d}
	// C10-9 (known): a literal zero stored in an implicitnull column
	f, d = kfTry(func() (bool, string) {
		rows := []map[string]driverValue{{"id": int64(1), "p": int64(0)}, {"id": int64(2), "p": nil}}
		return kfC10Differs(rows, []sqlgen.Filter{{"p": 0}, {"id": int64(1)}})
	})
	rep.Repros["C10-9"] = Repro{Fails: f, Detail: d}
	// C10-10 (known): one row that cannot be decoded fails every call of the batch
	f, d = kfTry(func() (bool, string) {
		return kfC10Differs(set(0, "j", []byte(`{corrupt`)), []sqlgen.Filter{{"id": int64(1)}, companion})
	})
	rep.Repros["C10-10"] = Repro{Fails: f, Detail: d}
	// C10-11 (known): the tester compares strings byte by byte; MySQL's default collations do not
	f, d = kfTry(func() (bool, string) {
		schema := sqlgen.NewSchema()
		schema.MustRegisterType("kfrows", sqlgen.UniqueId, kfC10Row{})
		t, err := schema.MakeTester("kfrows", sqlgen.Filter{"s": "abc"})
		if err != nil {
			return false, ""
		}
		if !t.Test(&kfC10Row{Id: 1, S: "ABC"}) {
			return true, "WHERE s = 'abc' selects the row holding 'ABC' under MySQL's default (case-insensitive, PAD SPACE) collations; the tester does not hand it to the query"
		}
		return false, ""
	})
	rep.Repros["C10-11"] = Repro{Fails: f, Detail: d}
}

// ---- C07 ------------------------------------------------------------------------------------------------------

type kfC07Row struct {
	Id int64 `sql:",primary"`
	N  int64
}

// kfC07Live runs f once inside a rerunner (the way a live query runs) and returns what it returned
func kfC07Live(f func(ctx context.Context) (string, error)) (string, error) {
	type res struct {
		s   string
		err error
	}
	ch := make(chan res, 1)
	rr := reactive.NewRerunner(context.Background(), func(ctx context.Context) (interface{}, error) {
		s, err := f(ctx)
		select {
		case ch <- res{s, err}:
		default:
		}
		return nil, nil
	}, time.Hour, false)
	defer rr.Stop()
	select {
	case r := <-ch:
		return r.s, r.err
	case <-patient(5 * time.Second):
		return "", errors.New("the computation did not finish")
	}
}

func kfC07DB(rows ...[2]int64) *livesql.LiveDB {
	fdb, conn := newFakeDB()
	fdb.createTable("kfc07", []string{"id", "n"}, []string{"id"})
	for _, r := range rows {
		fdb.tables["kfc07"].Rows = append(fdb.tables["kfc07"].Rows, map[string]driverValue{"id": r[0], "n": r[1]})
	}
	schema := sqlgen.NewSchema()
	schema.MustRegisterType("kfc07", sqlgen.UniqueId, kfC07Row{})
	return livesql.NewLiveDB(sqlgen.NewDB(conn, schema))
}

func kfC07Ns(rows []*kfC07Row) string {
	var ns []int64
	for _, r := range rows {
		ns = append(ns, r.N)
	}
	sort.Slice(ns, func(i, j int) bool { return ns[i] < ns[j] })
	return fmt.Sprint(ns)
}

func kfReproC07(rep *Report) {
	// C07-2: two databases read in one computation shared a cache entry
	f, d := kfTry(func() (bool, string) {
		a, b := kfC07DB([2]int64{1, 10}), kfC07DB([2]int64{1, 20})
		got, err := kfC07Live(func(ctx context.Context) (string, error) {
			var ra, rb []*kfC07Row
			if err := a.Query(ctx, &ra, sqlgen.Filter{"id": int64(1)}, nil); err != nil {
				return "", err
			}
			if err := b.Query(ctx, &rb, sqlgen.Filter{"id": int64(1)}, nil); err != nil {
				return "", err
			}
			return kfC07Ns(ra) + " " + kfC07Ns(rb), nil
		})
		if err != nil {
			return true, err.Error()
		}
		if got != "[10] [20]" {
			return true, "the same live query on databases holding n=10 and n=20, in one computation, returned " + got
		}
		return false, ""
	})
	rep.Repros["C07-2"] = Repro{Fails: f, Detail: d}
	// C07-3: one SelectOptions value used by two live queries accumulated their filters
	f, d = kfTry(func() (bool, string) {
		db := kfC07DB([2]int64{1, 10}, [2]int64{2, 20})
		opts := &sqlgen.SelectOptions{OrderBy: "id"}
		got, err := kfC07Live(func(ctx context.Context) (string, error) {
			var r1, r2 []*kfC07Row
			if err := db.Query(ctx, &r1, sqlgen.Filter{"id": int64(1)}, opts); err != nil {
				return "", err
			}
			if err := db.Query(ctx, &r2, sqlgen.Filter{"id": int64(2)}, opts); err != nil {
				return "", err
			}
			return kfC07Ns(r1) + " " + kfC07Ns(r2), nil
		})
		if err != nil {
			return true, err.Error()
		}
		if got != "[10] [20]" || opts.Where != "" || opts.AllowNoIndex {
			return true, fmt.Sprintf("two live queries (id = 1, id = 2) sharing one SelectOptions value returned %s; the caller's options afterwards: Where %q", got, opts.Where)
		}
		return false, ""
	})
	rep.Repros["C07-3"] = Repro{Fails: f, Detail: d}
	// C07-4: the tester kept the caller's pointer
	f, d = kfTry(func() (bool, string) {
		schema := sqlgen.NewSchema()
		schema.MustRegisterType("kfc07", sqlgen.UniqueId, kfC07Row{})
		n := int64(1)
		t, err := schema.MakeTester("kfc07", sqlgen.Filter{"n": &n})
		if err != nil {
			return false, ""
		}
		n = 3 // the caller goes on with its variable
		if !t.Test(&kfC07Row{Id: 1, N: 1}) || t.Test(&kfC07Row{Id: 2, N: 3}) {
			return true, "a tester made for n = 1 (filter value given by pointer) compares with 3 after the caller has changed its variable"
		}
		return false, ""
	})
	rep.Repros["C07-4"] = Repro{Fails: f, Detail: d}
}
