package main

// C20 — Concurrency limiter.
// Implementation: package concurrencylimiter with its verif hook points used as gates, so that the
// harness decides the order of the atomic steps (CAS / swap / channel operations).  Every run is a
// schedule; the recorded label trace is replayed by the Lean model (ThunderModel/Limiter.lean) and
// the states after each step are compared (channel fill, holder statuses).  Independently the
// harness checks the property on the implementation: running holders <= limit at every step,
// capacity restored at the end, no call left blocked.

import (
	"context"
	"encoding/json"
	"fmt"
	"go/ast"
	"go/parser"
	"go/token"
	"os"
	"path/filepath"
	"runtime"
	"strings"
	"sync"
	"sync/atomic"
	"time"

	cl "github.com/samsarahq/thunder/concurrencylimiter"
)

func init() { register("C20", runC20) }

type c20Prog struct {
	Kind     string `json:"kind"`           // "main" | "releaser"
	Holder   int    `json:"holder"`         // which main this belongs to
	TRs      []int  `json:"trs"`            // for main: nesting depth of each TemporarilyRelease call (0 = plain f)
	Releases int    `json:"releases"`       // number of release() calls at the end of main / in the releaser
	Mode     string `json:"mode"`           // "limited" | "nolimiter" | "cancelled" | "reentrant" (Acquire on the context of the previous holder)
	Late     bool   `json:"late,omitempty"` // releaser: starts only after its holder's own goroutine has finished
	PanicAt  int    `json:"panic_at"`       // 1-based index of the TemporarilyRelease call whose innermost function panics (recovered by the caller); 0: none
}

type c20Scenario struct {
	Cap    int       `json:"cap"`
	Progs  []c20Prog `json:"progs"`
	Script []string  `json:"script"` // task names to step first, in order
	Seed   uint64    `json:"seed"`   // continues randomly with this seed
}

type c20Holder struct {
	ctx   context.Context
	rel   cl.ReleaseFunc
	index int // model index, -1 until acquired
	inTR  int // depth of TemporarilyRelease calls of the main goroutine
	noop  bool
	// bookkeeping by the harness itself, independent of the package's status word
	acquired   bool
	returned   bool // Acquire has returned on a context with a live limiter: from now on it counts as running
	relStarted int
	relDone    int
}

type c20TaskState struct {
	prog   c20Prog
	stack  []bool // block calls in progress on this task: true = primary (CAS succeeded)
	holder *c20Holder
}

func c20Run(c *Ctx, m *Model, sc c20Scenario) {
	rep := c.Rep
	s := NewSched()
	cl.VerifHook = func(point string, holder interface{}, status int64, chanLen int) { s.Gate(point, nil) }
	defer func() { cl.VerifHook = nil }()
	base := cl.With(context.Background(), sc.Cap)
	holders := map[int]*c20Holder{}
	var order []*c20Holder // by model index
	tasks := map[string]*Task{}
	r := NewRand(sc.Seed)

	startMain := func(p c20Prog) {
		h := &c20Holder{index: -1}
		holders[p.Holder] = h
		st := &c20TaskState{prog: p, holder: h}
		name := fmt.Sprintf("m%d", p.Holder)
		var t *Task
		t = s.Go(name, func() {
			actx := base
			switch p.Mode {
			case "nolimiter":
				actx = context.Background()
			case "cancelled":
				cctx, cancel := context.WithCancel(base)
				cancel()
				actx = cctx
			case "reentrant":
				// a context that already carries a holder: Acquire must still take a token of its own
				if prev := holders[p.Holder-1]; prev != nil && prev.ctx != nil {
					actx = prev.ctx
				}
			}
			h.ctx, h.rel = cl.Acquire(actx)
			h.returned = p.Mode == "limited" || p.Mode == "reentrant"
			for i, depth := range p.TRs {
				boom := p.PanicAt == i+1
				var f func(d int) func()
				f = func(d int) func() {
					return func() {
						if d > 0 {
							cl.TemporarilyRelease(h.ctx, f(d-1))
						}
						s.Gate("f.exit", nil)
						if d == 0 && boom {
							panic("c20: the function passed to TemporarilyRelease panics")
						}
					}
				}
				h.inTR++
				func() {
					defer func() { recover() }() // the caller recovers and carries on
					cl.TemporarilyRelease(h.ctx, f(depth))
				}()
				h.inTR--
			}
			for i := 0; i < p.Releases; i++ {
				h.relStarted++
				h.rel()
				h.relDone++
			}
		})
		t.User = st
		tasks[name] = t
	}
	for _, p := range sc.Progs {
		if p.Kind == "main" {
			startMain(p)
		}
	}
	startReleasers := func() {
		for _, p := range sc.Progs {
			p := p
			name := fmt.Sprintf("r%d", p.Holder)
			if p.Kind != "releaser" || tasks[name] != nil {
				continue
			}
			h := holders[p.Holder]
			if h == nil || h.rel == nil {
				continue
			}
			if mt := tasks[fmt.Sprintf("m%d", p.Holder)]; p.Late && mt != nil && !mt.Done {
				continue
			}
			t := s.Go(name, func() {
				for i := 0; i < p.Releases; i++ {
					h.relStarted++
					h.rel()
					h.relDone++
				}
			})
			t.User = &c20TaskState{prog: p, holder: h}
			tasks[name] = t
		}
	}

	chanLen := func() int { n, _, _ := cl.VerifState(base); return n }
	var labels [][]interface{}
	type obs struct {
		Chan     int     `json:"chan"`
		Statuses []int64 `json:"statuses"`
	}
	var observed []obs
	var trace []string
	observe := func() obs {
		o := obs{Chan: chanLen(), Statuses: []int64{}}
		for _, h := range order {
			_, _, st := cl.VerifState(h.ctx)
			o.Statuses = append(o.Statuses, st)
		}
		return o
	}
	maxRunning := 0
	violated := ""

	enabled := func(t *Task) bool {
		st := t.User.(*c20TaskState)
		switch t.At {
		case "acquire.enter":
			return chanLen() < sc.Cap || st.prog.Mode == "cancelled"
		case "release.recv", "block.recv", "block.giveback":
			return chanLen() > 0
		case "block.send":
			return chanLen() < sc.Cap
		}
		return true
	}

	script := append([]string(nil), sc.Script...)
	for steps := 0; steps < 400; steps++ {
		startReleasers()
		pend := s.Pending()
		if len(pend) == 0 {
			break
		}
		var en []*Task
		for _, t := range pend {
			if enabled(t) {
				en = append(en, t)
			}
		}
		if len(en) == 0 {
			break // every remaining call is blocked
		}
		var t *Task
		for len(script) > 0 && t == nil {
			if cand := tasks[script[0]]; cand != nil && !cand.Done && cand.At != "" && enabled(cand) {
				t = cand
			}
			script = script[1:]
		}
		if t == nil {
			t = en[r.Intn(len(en))]
		}
		st := t.User.(*c20TaskState)
		at := t.At
		before := chanLen()
		if !s.Step(t, 3*time.Second) {
			violated = fmt.Sprintf("task %s did not proceed from %s although the step is enabled", t.Name, at)
			break
		}
		trace = append(trace, t.Name+"@"+at)
		// label of the step just taken
		var label []interface{}
		h := st.holder
		switch at {
		case "start":
			// internal; but Acquire without limiter never reaches a gate: account for the noop
			if st.prog.Kind == "main" && st.prog.Mode == "nolimiter" && t.At != "acquire.enter" {
				label = []interface{}{"noop"}
				h.noop = true
			}
		case "acquire.enter":
			if chanLen() == before+1 {
				h.index = len(order)
				h.acquired = true
				order = append(order, h)
				label = []interface{}{"acquire"}
			} else {
				h.noop = true
				label = []interface{}{"noop"}
			}
		case "release.enter":
			label = []interface{}{"releaseSwap", h.index}
		case "release.recv":
			label = []interface{}{"releaseRecv", h.index}
		case "block.enter":
			primary := t.At == "block.recv"
			st.stack = append(st.stack, primary)
			label = []interface{}{"blockCas", h.index}
		case "block.recv":
			label = []interface{}{"blockRecv", h.index}
		case "f.exit":
			if n := len(st.stack); n > 0 {
				primary := st.stack[n-1]
				st.stack = st.stack[:n-1]
				if !primary {
					label = []interface{}{"nestedDone", h.index}
				}
			}
		case "block.defer":
			label = []interface{}{"fDone", h.index}
		case "block.send":
			label = []interface{}{"deferSend", h.index}
		case "block.cas2":
			label = []interface{}{"deferCas", h.index}
		case "block.giveback":
			label = []interface{}{"giveBack", h.index}
		}
		if label != nil && !(len(label) == 2 && label[1].(int) < 0) {
			labels = append(labels, label)
			observed = append(observed, observe())
		}
		// property oracle on the implementation
		// a holder runs from the moment its Acquire took a spot until a release of it starts, except
		// while its goroutine is inside TemporarilyRelease
		running := 0
		for _, hh := range holders {
			if hh.returned && hh.relStarted == 0 && hh.inTR == 0 {
				running++
			}
		}
		if running > maxRunning {
			maxRunning = running
		}
		if running > sc.Cap && violated == "" {
			violated = fmt.Sprintf("%d holders are running with limit %d", running, sc.Cap)
		}
	}
	// end of schedule: anything left is blocked for good
	var stuck []string
	for _, t := range s.Tasks {
		if !t.Done {
			stuck = append(stuck, t.Name+"@"+t.At)
		}
	}
	allReleased := true
	for _, hh := range order {
		if hh.relDone == 0 {
			allReleased = false
		}
	}
	if violated == "" && len(stuck) > 0 && allReleased {
		violated = fmt.Sprintf("calls remain blocked after every holder released: %v", stuck)
	}
	if violated == "" && len(stuck) == 0 && allReleased && chanLen() != 0 {
		violated = fmt.Sprintf("all holders released but %d tokens are still taken", chanLen())
	}
	if violated == "" && len(s.Panics) > 0 {
		violated = fmt.Sprintf("panic: %v", s.Panics[0])
	}
	for _, p := range sc.Progs {
		if p.PanicAt > 0 {
			rep.Count("scenario_with_panicking_function")
			break
		}
	}
	for _, p := range sc.Progs {
		if p.Mode == "reentrant" {
			rep.Count("scenario_with_reentrant_acquire")
			break
		}
	}
	rep.Count(fmt.Sprintf("cap:%d", sc.Cap))
	rep.CountN("steps", len(labels))
	if len(stuck) > 0 {
		rep.Count("ended-with-blocked-calls")
	}
	scOut := sc
	scOut.Script = trace2script(trace)
	if violated != "" {
		rep.Fail("impl_ne_spec", nil, scOut, map[string]interface{}{"what": violated, "trace": trace, "observed": observed, "stuck": stuck})
	}
	// model replay
	resp, err := m.Call(map[string]interface{}{"op": "run", "cap": sc.Cap, "labels": labels})
	if err != nil {
		rep.Fail("harness_error", nil, scOut, map[string]interface{}{"error": err.Error()})
		return
	}
	steps, _ := resp["steps"].([]interface{})
	for i, stp := range steps {
		sm, _ := stp.(map[string]interface{})
		if en, _ := sm["enabled"].(bool); !en {
			rep.Fail("impl_ne_model", nil, scOut, map[string]interface{}{"what": "implementation took a step the model does not enable", "step": i, "label": labels[i], "trace": trace})
			break
		}
		state, _ := sm["state"].(map[string]interface{})
		mo := map[string]interface{}{"chan": state["chan"], "statuses": state["statuses"]}
		if Canon(mo) != Canon(observed[i]) {
			rep.Fail("impl_ne_model", nil, scOut, map[string]interface{}{"what": "state after step differs from model", "step": i, "label": labels[i], "impl": observed[i], "model": mo, "trace": trace})
			break
		}
		if run := toInt64(state["running"]); run > int64(sc.Cap) {
			rep.Fail("model_ne_spec", nil, scOut, map[string]interface{}{"what": "model contradicts theorem running_le_cap"})
		}
	}
	rep.Traces++
	rep.Eval(Canon(trace), len(labels) > 3, map[string]interface{}{"cap": sc.Cap, "labels": labels})
}

func trace2script(trace []string) []string {
	out := make([]string, 0, len(trace))
	for _, t := range trace {
		for i := 0; i < len(t); i++ {
			if t[i] == '@' {
				out = append(out, t[:i])
				break
			}
		}
	}
	return out
}

func c20Gen(r *Rand) c20Scenario {
	sc := c20Scenario{Cap: 1 + r.Intn(3), Seed: r.U64()}
	n := 1 + r.Intn(5)
	for k := 0; k < n; k++ {
		p := c20Prog{Kind: "main", Holder: k, Releases: 1 + r.Intn(2), Mode: "limited"}
		if r.Chance(0.05) {
			p.Mode = "nolimiter"
		} else if r.Chance(0.05) {
			p.Mode = "cancelled"
		}
		for i := r.Intn(3); i > 0; i-- {
			p.TRs = append(p.TRs, r.Intn(3)%2+r.Intn(2)*0) // depth 0 or 1
		}
		if r.Chance(0.15) {
			p.Releases = 0
		}
		if k > 0 && p.Mode == "limited" && r.Chance(0.15) {
			// only on top of a limited holder: its context is live and carries the limiter
			for _, q := range sc.Progs {
				if q.Kind == "main" && q.Holder == k-1 && q.Mode == "limited" {
					p.Mode = "reentrant"
				}
			}
		}
		if len(p.TRs) > 0 && r.Chance(0.2) {
			p.PanicAt = 1 + r.Intn(len(p.TRs))
		}
		// holders that linger (their own goroutine never releases; a second goroutine does, later): only while
		// holders linger can over-admission be seen
		linger := p.Releases > 0 && r.Chance(0.4)
		if linger {
			p.Releases = 0
		}
		sc.Progs = append(sc.Progs, p)
		if linger || r.Chance(0.6) {
			sc.Progs = append(sc.Progs, c20Prog{Kind: "releaser", Holder: k, Releases: 1 + r.Intn(2), Late: linger && r.Chance(0.7)})
		}
	}
	return sc
}

// c20Corpus: the schedule of finding C20-1 (release lands between the re-acquire CAS and the send).
func c20Corpus() []c20Scenario {
	return []c20Scenario{{
		Cap: 2,
		Progs: []c20Prog{
			{Kind: "main", Holder: 0, TRs: []int{0}, Releases: 0, Mode: "limited"},
			{Kind: "releaser", Holder: 0, Releases: 1},
			{Kind: "main", Holder: 1, Releases: 0, Mode: "limited"},
			{Kind: "main", Holder: 2, Releases: 0, Mode: "limited"},
			{Kind: "main", Holder: 3, Releases: 0, Mode: "limited"},
		},
		// start steps, two acquires, m0: blockCas, blockRecv, f.exit, defer CAS; r0: swap (+recv); m2, m3 acquire
		Script: []string{"m0", "m1", "m2", "m3", "m0", "m1", "m0", "m0", "m0", "m0", "r0", "r0", "r0", "m2", "m3"},
		Seed:   1,
	}}
}

// c20Free: free-running goroutines (no gates) on the real limiter, with an independent count of who is between
// Acquire and release: (a) a context cancelled while its Acquire is blocked on a full limiter: the call returns,
// and no token is taken for it later; (b) With on a context that already carries a limiter: the inner limiter has
// its own tokens (a parent holding the outer limiter's only token fans out under an inner one); (c) release called
// from two goroutines at once, and racing with a TemporarilyRelease on the same holder.
func c20Free(c *Ctx, r *Rand, rounds int) {
	rep := c.Rep
	within := func(d time.Duration, f func()) bool {
		done := make(chan struct{})
		go func() { f(); close(done) }()
		select {
		case <-done:
			return true
		case <-patient(d):
			return false
		}
	}
	for round := 0; round < rounds && !rep.ShouldStop(); round++ {
		n := 1 + r.Intn(3)
		cs := map[string]interface{}{"free_running": true, "limit": n, "round": round}
		// (a) cancel while blocked
		{
			base := cl.With(context.Background(), n)
			var rels []func()
			for i := 0; i < n; i++ {
				_, rel := cl.Acquire(base)
				rels = append(rels, rel)
			}
			cctx, cancel := context.WithCancel(base)
			returned := make(chan struct{})
			var lateRel func()
			go func() {
				_, lateRel = cl.Acquire(cctx)
				close(returned)
			}()
			time.Sleep(time.Duration(50+r.Intn(300)) * time.Microsecond)
			cancel()
			select {
			case <-returned:
			case <-patient(2 * time.Second):
				rep.Fail("impl_ne_spec", nil, cs, map[string]interface{}{"what": "free-running: an Acquire blocked on a full limiter did not return after its context was cancelled"})
				for _, rel := range rels {
					rel()
				}
				return
			}
			for _, rel := range rels {
				rel()
			}
			if lateRel != nil {
				lateRel()
			}
			// the full capacity is available again
			ok := within(2*time.Second, func() {
				var rs []func()
				for i := 0; i < n; i++ {
					_, rel := cl.Acquire(base)
					rs = append(rs, rel)
				}
				for _, rel := range rs {
					rel()
				}
			})
			if !ok {
				rep.Fail("impl_ne_spec", nil, cs, map[string]interface{}{"what": "free-running: after a cancelled Acquire and all releases the full capacity is not available (a token was taken for the cancelled call)"})
				return
			}
		}
		// (b) an inner limiter under a holder of the outer one
		{
			outer := cl.With(context.Background(), 1)
			pctx, prel := cl.Acquire(outer)
			k := 2 + r.Intn(3)
			inner := cl.With(pctx, k)
			var running, maxRunning int32
			ok := within(3*time.Second, func() {
				var wg sync.WaitGroup
				for i := 0; i < k+2; i++ {
					wg.Add(1)
					go func() {
						defer wg.Done()
						_, rel := cl.Acquire(inner)
						cur := atomic.AddInt32(&running, 1)
						for {
							m := atomic.LoadInt32(&maxRunning)
							if cur <= m || atomic.CompareAndSwapInt32(&maxRunning, m, cur) {
								break
							}
						}
						time.Sleep(100 * time.Microsecond)
						atomic.AddInt32(&running, -1)
						rel()
					}()
				}
				wg.Wait()
			})
			prel()
			if !ok {
				rep.Fail("impl_ne_spec", nil, cs, map[string]interface{}{"what": "free-running: goroutines under an inner limiter are stuck behind the outer limiter's token held by their parent", "inner": k})
				return
			}
			if int(maxRunning) > k {
				rep.Fail("impl_ne_spec", nil, cs, map[string]interface{}{"what": "free-running: more goroutines than the inner limit between Acquire and release", "inner": k, "max": maxRunning})
				return
			}
		}
		// (c) release from two goroutines at once, partners sharing a holder, some inside TemporarilyRelease
		{
			base := cl.With(context.Background(), n)
			var running, maxRunning int32
			workers := n + 3
			ok := within(5*time.Second, func() {
				var wg sync.WaitGroup
				for w := 0; w < workers; w++ {
					wg.Add(1)
					go func(w int) {
						defer wg.Done()
						for it := 0; it < 30; it++ {
							hctx, rel := cl.Acquire(base)
							cur := atomic.AddInt32(&running, 1)
							for {
								m := atomic.LoadInt32(&maxRunning)
								if cur <= m || atomic.CompareAndSwapInt32(&maxRunning, m, cur) {
									break
								}
							}
							var once sync.Once
							leave := func() { once.Do(func() { atomic.AddInt32(&running, -1) }) }
							var pw sync.WaitGroup
							pw.Add(1)
							go func() {
								defer pw.Done()
								if (w+it)%3 == 0 {
									leave()
									cl.TemporarilyRelease(hctx, func() { runtime.Gosched() })
									return
								}
								leave()
								rel()
							}()
							leave()
							rel()
							pw.Wait()
							rel()
						}
					}(w)
				}
				wg.Wait()
			})
			if !ok {
				rep.Fail("impl_ne_spec", nil, cs, map[string]interface{}{"what": "free-running: releases racing with each other (two goroutines sharing a holder): a release or an Acquire never returned", "max_running": maxRunning})
				return
			}
			if int(maxRunning) > n {
				rep.Fail("impl_ne_spec", nil, cs, map[string]interface{}{"what": "free-running: more goroutines than the limit between Acquire and release", "max": maxRunning})
				return
			}
			if !within(2*time.Second, func() {
				var rs []func()
				for i := 0; i < n; i++ {
					_, rel := cl.Acquire(base)
					rs = append(rs, rel)
				}
				for _, rel := range rs {
					rel()
				}
			}) {
				rep.Fail("impl_ne_spec", nil, cs, map[string]interface{}{"what": "free-running: after all holders released the full capacity is not available"})
				return
			}
		}
		rep.Count("free_running_rounds")
		rep.Eval(fmt.Sprintf("c20-free-%d-%d", n, round), true, cs)
	}
}

// c20SegmentFacts reads concurrencylimiter.go and checks what the gated schedules rest on: between two consecutive
// hook points of a function there is at most one sync/atomic call or channel operation (a select counts as one).
// A segment with two of them has an interleaving point the gates cannot reach.
func c20SegmentFacts() string {
	repo := os.Getenv("VERIF_REPO")
	if repo == "" {
		repo = "/repo"
	}
	fset := token.NewFileSet()
	f, err := parser.ParseFile(fset, filepath.Join(repo, "concurrencylimiter", "concurrencylimiter.go"), nil, 0)
	if err != nil {
		return "cannot parse concurrencylimiter.go: " + err.Error()
	}
	problem := ""
	// the atomically accessed int64 must be the first field of holder: anywhere else it is not 64-bit aligned on
	// 32-bit platforms, every release panics and the token is lost (finding C20-3)
	ast.Inspect(f, func(n ast.Node) bool {
		ts, ok := n.(*ast.TypeSpec)
		if !ok || ts.Name.Name != "holder" {
			return true
		}
		st, ok := ts.Type.(*ast.StructType)
		if !ok || len(st.Fields.List) == 0 {
			return false
		}
		first := st.Fields.List[0]
		id, _ := first.Type.(*ast.Ident)
		if len(first.Names) != 1 || first.Names[0].Name != "status" || id == nil || id.Name != "int64" {
			problem = "holder.status (int64, accessed with sync/atomic) is not the first field of holder: unaligned on 32-bit platforms"
		}
		return false
	})
	for _, d := range f.Decls {
		fd, ok := d.(*ast.FuncDecl)
		if !ok || fd.Body == nil {
			continue
		}
		count := 0
		inSelectComm := map[ast.Node]bool{}
		ast.Inspect(fd.Body, func(n ast.Node) bool {
			if n == nil || problem != "" {
				return false
			}
			op := false
			switch x := n.(type) {
			case *ast.FuncLit:
				count = 0 // a deferred / nested function starts its own sequence of segments
			case *ast.SelectStmt:
				op = true
				for _, cc := range x.Body.List {
					if c, ok := cc.(*ast.CommClause); ok && c.Comm != nil {
						ast.Inspect(c.Comm, func(m ast.Node) bool {
							if m != nil {
								inSelectComm[m] = true
							}
							return true
						})
					}
				}
			case *ast.SendStmt:
				op = !inSelectComm[n]
			case *ast.UnaryExpr:
				op = x.Op == token.ARROW && !inSelectComm[n]
			case *ast.CallExpr:
				if id, ok := x.Fun.(*ast.Ident); ok && strings.HasPrefix(id.Name, "verifAt") {
					count = 0
				}
				if sel, ok := x.Fun.(*ast.SelectorExpr); ok {
					if pk, ok := sel.X.(*ast.Ident); ok && pk.Name == "atomic" {
						op = true
					}
				}
			}
			if op {
				count++
				if count > 1 {
					problem = fmt.Sprintf("%s: two atomic / channel operations in one segment between hook points, at %s", fd.Name.Name, fset.Position(n.Pos()))
				}
			}
			return true
		})
	}
	return problem
}

func runC20(c *Ctx) error {
	m, err := StartModel("C20")
	if err != nil {
		return err
	}
	defer m.Close()
	c.Rep.Rule = "schedules of Acquire / release (repeated, early, from a second goroutine) / TemporarilyRelease (nested) / contexts without limiter or cancelled, for limits 1..3 and up to 5 holders + 5 releasers; the harness chooses the order of atomic steps through the hook gates; non-trivial = more than 3 labelled steps; distinct by step trace; plus a free-running phase: a context cancelled while its Acquire is blocked, an inner limiter under a holder of the outer one, releases racing from two goroutines that share a holder"
	c.Rep.Assumptions = append(c.Rep.Assumptions,
		"each gated segment (one sync/atomic operation or one channel operation) is atomic and sequentially consistent (Go memory model)",
		"len(ch) read through the verif hook is the channel fill between steps (no step is in flight when it is read)")
	if c.Replay != "" {
		var f struct {
			Case c20Scenario `json:"case"`
		}
		b, err := os.ReadFile(c.Replay)
		if err != nil {
			return err
		}
		if err := json.Unmarshal(b, &f); err != nil {
			return err
		}
		c20Run(c, m, f.Case)
		return nil
	}
	if p := c20SegmentFacts(); p != "" {
		c.Rep.Fail("impl_ne_model", nil, map[string]interface{}{"source": "concurrencylimiter/concurrencylimiter.go"}, map[string]interface{}{"what": "the atomic steps of the code are no longer those the hook points separate (the model's steps): " + p})
	} else {
		c.Rep.Count("segment_facts_ok")
	}
	for _, sc := range c20Corpus() {
		c20Run(c, m, sc)
	}
	n := c.N(1500, 60000)
	for i := 0; i < n && !c.Rep.ShouldStop(); i++ {
		c20Run(c, m, c20Gen(c.Rng))
	}
	c20Directed(c)
	c20Free(c, c.Rng.Fork(), c.N(20, 400))
	return nil
}

// c20Directed (finding C20-2, notes/hunt/C20 find1): a goroutine whose Acquire came back empty-handed, on a context
// derived from the context of a goroutine that holds a token, must not be able to give that token away.
func c20Directed(c *Ctx) {
	rep := c.Rep
	cl.VerifHook = nil
	for round := 0; round < 5; round++ {
		cs := map[string]interface{}{"directed": "limit 1: parent holds the token; a child on a cancelled context derived from the parent's calls TemporarilyRelease; a third goroutine tries to acquire", "round": round}
		base := cl.With(context.Background(), 1)
		pctx, prel := cl.Acquire(base)
		cctx, cancel := context.WithCancel(pctx)
		cancel()
		c2, crel := cl.Acquire(cctx) // the channel is full and the context is done: empty-handed
		entered, leave := make(chan struct{}), make(chan struct{})
		go cl.TemporarilyRelease(c2, func() { close(entered); <-leave })
		<-entered
		got := make(chan struct{})
		go func() {
			_, r := cl.Acquire(base)
			close(got)
			r()
		}()
		select {
		case <-got:
			rep.Fail("impl_ne_spec", nil, cs, map[string]interface{}{"what": "two goroutines hold a token of a limiter of size 1: the child's TemporarilyRelease gave the parent's token away while the parent was running"})
			close(leave)
			prel()
			crel()
			return
		case <-time.After(60 * time.Millisecond):
		}
		close(leave)
		prel()
		crel()
		select {
		case <-got:
		case <-patient(5 * time.Second):
			rep.Fail("impl_ne_spec", nil, cs, map[string]interface{}{"what": "after every holder had released, an Acquire did not succeed within 5 s (a token was lost)"})
			return
		}
		rep.Count("directed:empty_handed_child")
		rep.Eval(fmt.Sprintf("directed|empty-handed-child|%d", round), true, cs)
	}
}
