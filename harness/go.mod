module github.com/samsarahq/thunder/verifharness

go 1.15

require (
	github.com/gorilla/websocket v1.0.1-0.20161018003955-8003df83eef3
	github.com/samsarahq/thunder v0.0.0
	github.com/siddontang/go-mysql v0.0.0-20160925014134-d8e777f00cdb
)

replace github.com/samsarahq/thunder => /repo
