module github.com/samsarahq/thunder/verifharness

go 1.15

require (
	github.com/gorilla/websocket v1.0.1-0.20161018003955-8003df83eef3
	github.com/samsarahq/thunder v0.0.0
)

replace github.com/samsarahq/thunder => /repo
