module github.com/samsarahq/thunder/verifharness

go 1.15

require github.com/samsarahq/thunder v0.0.0

replace github.com/samsarahq/thunder => /repo
