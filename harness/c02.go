package main

// C02 — Live subscriptions converge: client state equals the current query result.

import (
	"encoding/json"
	"fmt"
	"os"
	"strings"

	"github.com/samsarahq/thunder/merge"
)

func init() { register("C02", runC02) }

// c02Merge is the client: merge.Merge, with a panic (an update that does not fit the state it is
// applied to) reported as an error instead of ending the harness.
func c02Merge(state, u interface{}) (next interface{}, err error) {
	defer func() {
		if r := recover(); r != nil {
			err = fmt.Errorf("merge.Merge panicked: %v", r)
		}
	}()
	return merge.Merge(state, u)
}

type c02Gen struct {
	id                   string
	query                string
	results              []interface{} // results of the successful runs, in order
	resAt                []int         // how many updates had been written when each result was recorded
	updates              []interface{} // messages of the update envelopes, in order
	kinds                []string      // types of all envelopes written for it
	ended                bool
	execs                int  // resolver entries of its runs
	unsub                bool // the client asked to end it
	lastExec, lastResult int  // sequence numbers of its last resolver entry and its last successful run
}

// c02Split cuts the recording into subscription generations (Subscribe .. Unsubscribe), up to the
// moment the implementation was quiescent.
func c02Split(events []cnEvent) []*c02Gen {
	var gens []*c02Gen
	cur := map[string]*c02Gen{}
	var reader int64
	for _, e := range events {
		if e.Kind == "in" {
			reader = e.Go
			break
		}
	}
	for _, e := range events {
		if e.Kind == "quiescent" {
			break
		}
		switch e.Kind {
		case "S":
			q, _ := e.Data.(string)
			g := &c02Gen{id: e.ID, query: q}
			cur[e.ID] = g
			gens = append(gens, g)
		case "U":
			if g := cur[e.ID]; g != nil {
				g.ended = true
				delete(cur, e.ID)
			}
		case "result":
			if g := cur[e.ID]; g != nil {
				g.results = append(g.results, e.Data)
				g.resAt = append(g.resAt, len(g.updates))
				g.lastResult = e.Seq
			}
		case "exec":
			if g := cur[e.ID]; g != nil {
				g.execs++
				g.lastExec = e.Seq
			}
		case "in":
			if m, ok := e.Data.(map[string]interface{}); ok && m["type"] == "unsubscribe" {
				if id, ok := m["id"].(string); ok {
					if g := cur[id]; g != nil {
						g.unsub = true
					}
				}
			}
		case "write":
			m := e.Data.(map[string]interface{})
			typ, _ := m["type"].(string)
			if e.Go == reader {
				continue // answers to rejected or malformed messages, written by the reader loop
			}
			if g := cur[e.ID]; g != nil && typ != "echo" {
				g.kinds = append(g.kinds, typ)
				if typ == "update" {
					g.updates = append(g.updates, m["message"])
				}
			}
		}
	}
	return gens
}

func c02One(c *Ctx, m *Model, cs cnCase) {
	rep := c.Rep
	res := cnRun(cs)
	if res.Problem != "" {
		rep.Fail("impl_ne_spec", nil, cs, map[string]interface{}{"what": res.Problem})
		return
	}
	// nothing may be written for an id after its end (shared with C17)
	if kind, d := cnLifecycleOracle(res, 200); kind != "" {
		rep.Fail(kind, nil, cs, d)
		return
	}
	// nothing a client sees may carry the text of an error that is not marked safe (C16, websocket part)
	for _, e := range res.Events {
		if e.Kind == "write" {
			b, _ := json.Marshal(e.Data)
			if strings.Contains(string(b), "secret") {
				rep.Fail("impl_ne_spec", nil, cs, map[string]interface{}{"what": "an envelope carries the text of an error that is not marked safe for clients", "envelope": e.Data})
				return
			}
		}
	}
	gens := c02Split(res.Events)
	queryIdx := map[string]int{}
	for i, q := range cnQueries {
		queryIdx[q] = i
	}
	live := 0
	for _, g := range gens {
		// the first envelope of an accepted subscription is a full update (or its one error, after which it ends)
		if len(g.kinds) > 0 && g.kinds[0] != "update" && g.kinds[0] != "error" {
			rep.Fail("impl_ne_spec", nil, cs, map[string]interface{}{"what": "first envelope of a subscription is neither an update nor an error", "kinds": g.kinds, "id": g.id})
			return
		}
		if len(g.kinds) > 0 && g.kinds[0] == "error" {
			if len(g.kinds) != 1 {
				rep.Fail("impl_ne_spec", nil, cs, map[string]interface{}{"what": "an initially failing subscription was not reported exactly once", "kinds": g.kinds, "id": g.id})
				return
			}
			continue
		}
		// the client: start from nothing, merge every update in order
		var state interface{}
		k := 1
		for j := 0; j <= len(g.updates); j++ {
			// when run k delivered its result, the client had caught up with run k-1
			for ; k < len(g.results) && g.resAt[k] == j; k++ {
				if prev := cnStripKeys(g.results[k-1]); Canon(state) != Canon(prev) {
					rep.Fail("impl_ne_spec", nil, cs, map[string]interface{}{"what": "after the updates of one run the client state differs from that run's result (keys removed)", "client": state, "result": prev, "run": k - 1, "id": g.id, "query": g.query})
					return
				}
			}
			if j == len(g.updates) {
				break
			}
			next, err := c02Merge(state, g.updates[j])
			if err != nil {
				rep.Fail("impl_ne_spec", nil, cs, map[string]interface{}{"what": "the client cannot apply an update", "error": err.Error(), "id": g.id})
				return
			}
			state = next
		}
		if len(g.results) > 0 {
			last := cnStripKeys(g.results[len(g.results)-1])
			if Canon(state) != Canon(last) {
				rep.Fail("impl_ne_spec", nil, cs, map[string]interface{}{"what": "client state differs from the result of the subscription's last run (keys removed)", "client": state, "last_result": last, "id": g.id, "query": g.query})
				return
			}
		}
		if !g.ended {
			live++
			want := cnStripKeys(res.Final[fmt.Sprint(queryIdx[g.query])])
			if Canon(state) != Canon(want) {
				rep.Fail("impl_ne_spec", nil, cs, map[string]interface{}{"what": "at quiescence the client state is not the result of running the query against the final data", "client": state, "fresh": want, "id": g.id, "query": g.query})
				return
			}
		}
		// the Lean model predicts every message from the results of the runs
		in := newC03Intern()
		var rs []interface{}
		for _, r := range g.results {
			rs = append(rs, in.encData(r))
		}
		if len(rs) == 0 {
			continue
		}
		resp, err := m.Call(map[string]interface{}{"op": "session", "results": rs})
		if err != nil {
			rep.Fail("harness_error", nil, cs, map[string]interface{}{"error": err.Error()})
			return
		}
		if wf, _ := resp["wf"].(bool); !wf {
			rep.Count("results_not_wellformed(model skipped)")
			continue
		}
		var predicted []string
		for _, pm := range resp["messages"].([]interface{}) {
			if mm, ok := pm.(map[string]interface{}); ok && mm["none"] != nil {
				continue
			}
			predicted = append(predicted, Canon(pm))
		}
		var actual []string
		for _, u := range g.updates {
			actual = append(actual, Canon(in.encDelta(u)))
		}
		if len(actual) > len(predicted) || fmt.Sprint(actual) != fmt.Sprint(predicted[:len(actual)]) {
			rep.Fail("impl_ne_model", nil, cs, map[string]interface{}{"what": "update messages differ from the model's (diff against the previously sent value)", "impl": g.updates, "model": resp["messages"], "id": g.id})
			return
		}
		if len(actual) == len(predicted) {
			fin := resp["final"].(map[string]interface{})
			if ok, _ := fin["ok"].(map[string]interface{}); ok != nil {
				if Canon(ok["client"]) != Canon(in.encData(cnStripKeys(g.results[len(g.results)-1]))) {
					rep.Fail("model_ne_spec", nil, cs, map[string]interface{}{"what": "model: session does not end at the stripped last result (theorem fold_merge_converges)", "model": fin})
					return
				}
			}
		}
		rep.Count(fmt.Sprintf("runs_per_subscription<=%d", ((len(g.results)/3)+1)*3))
	}
	rep.Count("ok")
	rep.Eval(fmt.Sprintf("c02-%d", cs.Seed), len(gens) > 0, map[string]interface{}{"subscriptions": len(gens), "live_at_quiescence": live})
	rep.Traces++
}

func runC02(c *Ctx) error {
	m, err := StartModel("C02")
	if err != nil {
		return err
	}
	defer m.Close()
	c.Rep.Rule = "random histories of subscribe / unsubscribe / mutate / data change (scalars, list items appearing, disappearing and reordering by key, nested objects becoming null and back, union member switches, a member with a null object field) / a re-run failing once and recovering without a further change / resolver failures on a real conn over a fake socket, 5 queries, ids colliding on purpose; per subscription the update envelopes are merged by merge.Merge starting from nothing and compared (a) with the key-stripped result of its last run, (b) at quiescence with a fresh execution of the query on the final data; the Lean subscription model predicts every update message from the recorded results of the runs; first envelope is an update (or the single error of a failing subscription); no envelope after the end of its subscription; no unsafe error text in any envelope"
	c.Rep.Assumptions = append(c.Rep.Assumptions,
		"a client that applies updates in order (the fake socket preserves order)",
		"the JavaScript client is covered by C03's check")
	if c.Replay != "" {
		var f struct {
			Case cnCase `json:"case"`
		}
		b, err := os.ReadFile(c.Replay)
		if err != nil {
			return err
		}
		if err := json.Unmarshal(b, &f); err != nil {
			return err
		}
		for i := 0; i < 10; i++ {
			c02One(c, m, f.Case)
		}
		fmt.Printf("replay (10 re-executions): %d failures\n", len(c.Rep.Failures))
		return nil
	}
	// directed: a re-run that fails once (plainly / with a client-safe error) and recovers without any further change
	for _, mode := range []int64{1, 2} {
		for _, two := range []bool{false, true} {
			acts := []cnAction{{Op: "subscribe", ID: 1, Query: 4}}
			if two {
				acts = append(acts, cnAction{Op: "subscribe", ID: 2, Query: 0})
			}
			acts = append(acts, cnAction{Op: "settle"}, cnAction{Op: "failOnce", Arg: mode}, cnAction{Op: "settle"}, cnAction{Op: "echo", ID: 3})
			c02One(c, m, cnCase{Seed: uint64(7 + mode), Actions: acts})
		}
	}
	// directed: a re-run's result computed and then refused by a middleware, once; and the second datum changed while a
	// re-run caused by another change is under way (the cached Expensive value is invalidated before it is looked up)
	c02One(c, m, cnCase{Seed: 21, Actions: []cnAction{{Op: "subscribe", ID: 1, Query: 0}, {Op: "settle"}, {Op: "vetoOnce"}, {Op: "settle"}, {Op: "echo", ID: 2}}})
	c02One(c, m, cnCase{Seed: 22, Actions: []cnAction{{Op: "subscribe", ID: 1, Query: 3}, {Op: "subscribe", ID: 2, Query: 0}, {Op: "settle"}, {Op: "vetoOnce"}, {Op: "settle"}}})
	for _, pause := range []int64{300, 600, 900, 1200} {
		c02One(c, m, cnCase{Seed: 23, Actions: []cnAction{{Op: "subscribe", ID: 1, Query: 5}, {Op: "settle"}, {Op: "change", Arg: 8}, {Op: "pause", Arg: pause}, {Op: "changeM"}, {Op: "settle"}}})
	}
	// directed: union member switches between members without keys, the new member carrying a null object field
	for _, q := range []int{2, 3} {
		c02One(c, m, cnCase{Seed: 11, Actions: []cnAction{{Op: "subscribe", ID: 1, Query: q}, {Op: "settle"}, {Op: "change", Arg: 13}, {Op: "settle"},
			{Op: "change", Arg: 37}, {Op: "settle"}, {Op: "change", Arg: 13 + 56}, {Op: "settle"}, {Op: "change", Arg: 37 + 8}, {Op: "settle"}, {Op: "change", Arg: 37}, {Op: "settle"}}})
	}
	n := c.N(150, 4000)
	for i := 0; i < n && !c.Rep.ShouldStop(); i++ {
		acts := []cnAction{{Op: "subscribe", ID: 1 + c.Rng.Intn(3), Query: c.Rng.Intn(len(cnQueries))}}
		acts = append(acts, cnGenActions(c.Rng, 4+c.Rng.Intn(16))...)
		c02One(c, m, cnCase{Seed: c.Rng.U64(), Actions: acts})
	}
	return nil
}
