package main

// C05 — Batching.
// Implementation: batch.Func.Invoke with its verif hook points used as gates; the harness
// decides the order of the critical sections of concurrent callers.  The recorded label trace
// is replayed by the Lean model (ThunderModel/Batch.lean); group/index of every call, the
// arguments seen by Many and every returned value are compared.  Independently the property is
// evaluated on the implementation: own result, each argument fetched at most once (exactly once
// unless cancelled), MaxSize and shard purity, every call returns.

import (
	"context"
	"encoding/json"
	"errors"
	"fmt"
	"os"
	"runtime"
	"sort"
	"sync"
	"time"

	"github.com/samsarahq/thunder/batch"
)

func init() { register("C05", runC05) }

type c05Scenario struct {
	MaxSize  int      `json:"maxSize"`
	Sharded  bool     `json:"sharded"`
	Args     []int    `json:"args"`     // one caller per argument
	Outcomes []string `json:"outcomes"` // per group in creation order: ok | err | panic | short
	CancelAt int      `json:"cancelAt"` // cancel the context before this step (-1: never)
	Script   []string `json:"script"`
	Seed     uint64   `json:"seed"`
}

type c05Call struct {
	arg      int
	bg       interface{}
	index    int
	creator  bool
	model    int // index in the model's call list, -1 until joined
	ret      interface{}
	err      error
	returned bool
}

func c05F(arg int) int { return arg*10 + 1 }

func c05Run(c *Ctx, m *Model, sc c05Scenario) {
	rep := c.Rep
	s := NewSched()
	groupIdx := map[interface{}]int{}
	var groupOrder []interface{}
	var manyCalls [][]int
	calls := make([]*c05Call, len(sc.Args))
	byTask := map[*Task]*c05Call{}
	batch.VerifHook = func(point string, group interface{}, index int) { s.Gate(point, [2]interface{}{group, index}) }
	defer func() { batch.VerifHook = nil }()

	ctx, cancel := context.WithCancel(batch.WithBatching(context.Background()))
	defer cancel()
	var labels [][]interface{}
	var trace []string
	nextOutcome := 0
	var lastOutcome interface{}
	f := &batch.Func{
		MaxSize:      sc.MaxSize,
		WaitInterval: 150 * time.Microsecond,
		MaxDuration:  time.Hour,
		Many: func(ctx context.Context, args []interface{}) ([]interface{}, error) {
			in := make([]int, len(args))
			for i, a := range args {
				in[i] = a.(int)
			}
			manyCalls = append(manyCalls, in)
			o := "ok"
			if nextOutcome < len(sc.Outcomes) {
				o = sc.Outcomes[nextOutcome]
			}
			nextOutcome++
			switch o {
			case "err":
				lastOutcome = "err"
				return nil, fmt.Errorf("many failed")
			case "panic":
				lastOutcome = "panic"
				panic("many panicked")
			case "panicerr":
				lastOutcome = "panic"
				panic(fmt.Errorf("many panicked with an error value"))
			case "panicnil":
				// a panic whose value is nil: recover() returns nil (this module's Go language version predates
				// PanicNilError); Many has produced no results, which the batch must report as an error
				lastOutcome = map[string]interface{}{"ok": []int{}}
				var none interface{}
				panic(none)
			case "long":
				out := make([]interface{}, 0, len(args)+1)
				rs := []int{}
				for i := 0; i < len(args); i++ {
					out = append(out, c05F(in[i]))
					rs = append(rs, c05F(in[i]))
				}
				out = append(out, 0)
				rs = append(rs, 0)
				lastOutcome = map[string]interface{}{"ok": rs}
				return out, nil
			case "short":
				out := make([]interface{}, 0, len(args))
				rs := []int{}
				for i := 0; i+1 < len(args); i++ {
					out = append(out, c05F(in[i]))
					rs = append(rs, c05F(in[i]))
				}
				lastOutcome = map[string]interface{}{"ok": rs}
				return out, nil
			}
			out := make([]interface{}, len(args))
			rs := make([]int, len(args))
			for i := range args {
				out[i] = c05F(in[i])
				rs[i] = c05F(in[i])
			}
			lastOutcome = map[string]interface{}{"ok": rs}
			return out, nil
		},
	}
	if sc.Sharded {
		if sc.Seed%3 == 0 {
			// shard keys of different types that print alike: they are still different shards
			f.Shard = func(arg interface{}) interface{} {
				if arg.(int)%2 == 0 {
					return 7
				}
				return "7"
			}
		} else {
			f.Shard = func(arg interface{}) interface{} { return arg.(int) % 2 }
		}
	}
	key := func(arg int) int {
		if sc.Sharded {
			return arg % 2
		}
		return 0
	}
	tasks := map[string]*Task{}
	for i, a := range sc.Args {
		i, a := i, a
		cl := &c05Call{arg: a, model: -1}
		calls[i] = cl
		name := fmt.Sprintf("c%d", i)
		t := s.Go(name, func() {
			cl.ret, cl.err = f.Invoke(ctx, a)
			cl.returned = true
		})
		byTask[t] = cl
		tasks[name] = t
	}
	groupDone := map[interface{}]bool{}
	nJoined := 0
	cancelled := false
	violated := ""
	type obsT struct {
		Group, Index int
	}
	script := append([]string(nil), sc.Script...)
	for steps := 0; steps < 600; steps++ {
		if sc.CancelAt == steps && !cancelled {
			cancel()
			cancelled = true
			labels = append(labels, []interface{}{"cancel"})
			trace = append(trace, "cancel")
		}
		var en []*Task
		for _, t := range s.Pending() {
			cl := byTask[t]
			if t.At == "invoke.wait" && !groupDone[cl.bg] {
				continue // <-bg.doneCh blocks
			}
			en = append(en, t)
		}
		if len(en) == 0 {
			break
		}
		var t *Task
		for len(script) > 0 && t == nil {
			if cand := tasks[script[0]]; cand != nil {
				for _, e := range en {
					if e == cand {
						t = cand
					}
				}
			}
			script = script[1:]
		}
		if t == nil {
			t = en[NewRand(sc.Seed+uint64(steps)*7919).Intn(len(en))]
		}
		cl := byTask[t]
		at := t.At
		if !s.Step(t, 1500*time.Millisecond) {
			violated = fmt.Sprintf("call %s did not proceed from %s", t.Name, at)
			break
		}
		trace = append(trace, t.Name+"@"+at)
		switch at {
		case "invoke.enter":
			// first critical section done; the task is parked at invoke.joined with (group, index)
			d, _ := t.Data.([2]interface{})
			cl.bg, cl.index = d[0], d[1].(int)
			cl.model = nJoined
			nJoined++
			if _, ok := groupIdx[cl.bg]; !ok {
				groupIdx[cl.bg] = len(groupOrder)
				groupOrder = append(groupOrder, cl.bg)
				cl.creator = true
			}
			labels = append(labels, []interface{}{"join", cl.arg, key(cl.arg)})
		case "invoke.joined":
			if cl.creator {
				labels = append(labels, []interface{}{"wake", cl.model})
			}
		case "invoke.wake":
			labels = append(labels, []interface{}{"unpublish", cl.model})
		case "invoke.unpublished":
			var o interface{} = "err"
			if lastOutcome != nil {
				o = lastOutcome
			}
			lastOutcome = nil
			labels = append(labels, []interface{}{"run", cl.model, o})
			groupDone[cl.bg] = true
		case "invoke.return":
			labels = append(labels, []interface{}{"ret", cl.model})
		}
	}
	// S on the implementation
	var stuck []string
	for _, t := range s.Tasks {
		if !t.Done {
			stuck = append(stuck, t.Name+"@"+t.At)
		}
	}
	if violated == "" && len(stuck) > 0 {
		violated = fmt.Sprintf("calls never return: %v", stuck)
	}
	if violated == "" && len(s.Panics) > 0 {
		violated = fmt.Sprintf("Invoke panicked: %v", s.Panics[0])
	}
	seen := map[int]int{}
	for _, mc := range manyCalls {
		if sc.MaxSize > 0 && len(mc) > sc.MaxSize && violated == "" {
			violated = fmt.Sprintf("batch of %d exceeds MaxSize %d", len(mc), sc.MaxSize)
		}
		for _, a := range mc {
			seen[a]++
			if key(a) != key(mc[0]) && violated == "" {
				violated = fmt.Sprintf("batch mixes shards: %v", mc)
			}
		}
	}
	for _, cl := range calls {
		if !cl.returned {
			continue
		}
		if seen[cl.arg] > 1 && violated == "" {
			violated = fmt.Sprintf("argument %d handed to Many %d times", cl.arg, seen[cl.arg])
		}
		if cl.err == nil {
			if v, ok := cl.ret.(int); (!ok || v != c05F(cl.arg)) && violated == "" {
				violated = fmt.Sprintf("call with argument %d returned %v, want %d", cl.arg, cl.ret, c05F(cl.arg))
			}
			if seen[cl.arg] != 1 && violated == "" {
				violated = fmt.Sprintf("call with argument %d got a result but Many saw it %d times", cl.arg, seen[cl.arg])
			}
		} else if !cancelled && seen[cl.arg] != 1 && violated == "" {
			violated = fmt.Sprintf("argument %d was never handed to Many although the context was not cancelled", cl.arg)
		}
	}
	scOut := sc
	scOut.Script = trace2script(trace)
	if violated != "" {
		rep.Fail("impl_ne_spec", nil, scOut, map[string]interface{}{"what": violated, "trace": trace, "many": manyCalls})
	}
	// model replay
	resp, err := m.Call(map[string]interface{}{"op": "run", "maxSize": sc.MaxSize, "labels": labels})
	if err != nil {
		rep.Fail("harness_error", nil, scOut, map[string]interface{}{"error": err.Error(), "labels": labels})
		return
	}
	steps, _ := resp["steps"].([]interface{})
	ok := true
	var final map[string]interface{}
	for i, stp := range steps {
		sm, _ := stp.(map[string]interface{})
		if en, _ := sm["enabled"].(bool); !en {
			rep.Fail("impl_ne_model", nil, scOut, map[string]interface{}{"what": "implementation took a step the model does not enable", "step": i, "label": labels[i], "trace": trace})
			ok = false
			break
		}
		final, _ = sm["state"].(map[string]interface{})
	}
	if ok && final != nil {
		// compare slots, Many arguments and returned values with the model's final state
		mcalls, _ := final["calls"].([]interface{})
		mgroups, _ := final["groups"].([]interface{})
		for _, cl := range calls {
			if cl.model < 0 || cl.model >= len(mcalls) {
				continue
			}
			mc := mcalls[cl.model].(map[string]interface{})
			if int(toInt64(mc["group"])) != groupIdx[cl.bg] || int(toInt64(mc["index"])) != cl.index {
				rep.Fail("impl_ne_model", nil, scOut, map[string]interface{}{"what": "call slot differs from model", "call": cl.model, "impl": []int{groupIdx[cl.bg], cl.index}, "model": mc})
				ok = false
				break
			}
			if cl.returned {
				var want interface{} = map[string]interface{}{"returned": nil}
				if cl.err == nil {
					want = map[string]interface{}{"returned": cl.ret}
				}
				if Canon(mc["pc"]) != Canon(want) {
					rep.Fail("impl_ne_model", nil, scOut, map[string]interface{}{"what": "returned value differs from model", "call": cl.model, "impl": want, "model": mc["pc"], "trace": trace})
					ok = false
					break
				}
			}
		}
		// Many saw exactly the model's arguments for the groups that ran
		var modelMany [][]int
		for _, g := range mgroups {
			gm := g.(map[string]interface{})
			if toInt64(gm["many"]) > 0 {
				var a []int
				for _, x := range gm["args"].([]interface{}) {
					a = append(a, int(toInt64(x)))
				}
				modelMany = append(modelMany, a)
			}
		}
		canonMany := func(x [][]int) string {
			var ss []string
			for _, a := range x {
				ss = append(ss, fmt.Sprint(a))
			}
			sort.Strings(ss)
			return fmt.Sprint(ss)
		}
		if ok && canonMany(modelMany) != canonMany(manyCalls) {
			rep.Fail("impl_ne_model", nil, scOut, map[string]interface{}{"what": "arguments handed to Many differ from model", "impl": manyCalls, "model": modelMany, "trace": trace})
		}
	}
	rep.Traces++
	rep.CountN("steps", len(labels))
	rep.Count(fmt.Sprintf("maxSize:%d", sc.MaxSize))
	rep.CountN("many-calls", len(manyCalls))
	if cancelled {
		rep.Count("cancelled")
	}
	rep.Eval(Canon(trace), len(sc.Args) > 1, map[string]interface{}{"maxSize": sc.MaxSize, "labels": labels})
}

func c05Gen(r *Rand) c05Scenario {
	sc := c05Scenario{MaxSize: r.Intn(4), Sharded: r.Bool(), CancelAt: -1, Seed: r.U64()}
	n := 1 + r.Intn(8)
	for i := 0; i < n; i++ {
		sc.Args = append(sc.Args, 100+i) // distinct arguments identify callers
	}
	for i := 0; i < n; i++ {
		switch r.Intn(10) {
		case 0:
			sc.Outcomes = append(sc.Outcomes, "err")
		case 1:
			sc.Outcomes = append(sc.Outcomes, []string{"panic", "panicerr", "panicnil"}[r.Intn(3)])
		case 2:
			sc.Outcomes = append(sc.Outcomes, "short")
		case 3:
			sc.Outcomes = append(sc.Outcomes, "long")
		default:
			sc.Outcomes = append(sc.Outcomes, "ok")
		}
	}
	if r.Chance(0.2) {
		sc.CancelAt = r.Intn(6 * n)
	}
	return sc
}

// c05Free: callers on real goroutines, no gates: the windows between the package's hook points are open.
// Only successful batches; every caller must get its own result, every argument must reach Many exactly once,
// no batch may exceed MaxSize or mix shards, every call must return.
func c05Free(c *Ctx, r *Rand, rounds int) {
	rep := c.Rep
	for round := 0; round < rounds && !rep.ShouldStop(); round++ {
		maxSize := r.Intn(4)
		sharded := r.Bool()
		k := 2 + r.Intn(7)
		wait := time.Duration(20+r.Intn(100)) * time.Microsecond
		var mu sync.Mutex
		var batches [][]int
		f := &batch.Func{MaxSize: maxSize, WaitInterval: wait, MaxDuration: time.Hour,
			Many: func(ctx context.Context, args []interface{}) ([]interface{}, error) {
				in := make([]int, len(args))
				out := make([]interface{}, len(args))
				for i, a := range args {
					in[i] = a.(int)
					out[i] = c05F(in[i])
				}
				mu.Lock()
				batches = append(batches, in)
				mu.Unlock()
				return out, nil
			}}
		ctx := batch.WithBatching(context.Background())
		// the shard function: plain; or one that looks the shard up through a second batch function on the same
		// context; or one that panics for one malformed argument (that caller's problem only)
		shardMode := 0
		badArg := -1
		if sharded {
			shardMode = 1 + r.Intn(3)
			switch shardMode {
			case 1:
				f.Shard = func(arg interface{}) interface{} { return arg.(int) % 2 }
			case 2:
				g := &batch.Func{WaitInterval: wait / 2, MaxDuration: time.Hour,
					Many: func(ctx context.Context, args []interface{}) ([]interface{}, error) {
						out := make([]interface{}, len(args))
						for i, a := range args {
							out[i] = a.(int) % 2
						}
						return out, nil
					}}
				f.Shard = func(arg interface{}) interface{} {
					v, err := g.Invoke(ctx, arg)
					if err != nil {
						panic(err)
					}
					return v
				}
			case 3:
				badArg = 100 + r.Intn(k)
				f.Shard = func(arg interface{}) interface{} {
					if arg.(int) == badArg {
						panic("malformed argument")
					}
					return arg.(int) % 2
				}
			}
		}
		type res struct {
			v     interface{}
			err   error
			panic interface{}
		}
		results := make([]res, k)
		delays := make([]time.Duration, k)
		for i := range delays {
			// arrivals spread around the moment the interval timer of an earlier arrival fires
			delays[i] = time.Duration(r.Intn(3)) * wait / 2
			if r.Bool() {
				delays[i] += time.Duration(r.Intn(int(wait/time.Microsecond)+1)) * time.Microsecond
			}
		}
		var wg sync.WaitGroup
		for i := 0; i < k; i++ {
			wg.Add(1)
			go func(i int) {
				defer wg.Done()
				defer func() {
					if p := recover(); p != nil {
						results[i].panic = p
					}
				}()
				time.Sleep(delays[i])
				results[i].v, results[i].err = f.Invoke(ctx, 100+i)
			}(i)
		}
		done := make(chan struct{})
		go func() { wg.Wait(); close(done) }()
		cs := map[string]interface{}{"free_running": true, "callers": k, "max_size": maxSize, "sharded": sharded, "shard_mode": shardMode, "bad_arg": badArg, "wait_us": int(wait / time.Microsecond), "delays_us": delays}
		select {
		case <-done:
		case <-patient(5 * time.Second):
			rep.Fail("impl_ne_spec", nil, cs, map[string]interface{}{"what": "free-running callers: an Invoke did not return within 5 s"})
			return
		}
		mu.Lock()
		seen := map[int]int{}
		bad := ""
		for _, b := range batches {
			if maxSize > 0 && len(b) > maxSize {
				bad = fmt.Sprintf("a batch of %d with MaxSize %d", len(b), maxSize)
			}
			for _, a := range b {
				seen[a]++
				if sharded && a%2 != b[0]%2 {
					bad = fmt.Sprintf("a batch mixes shards: %v", b)
				}
			}
		}
		mu.Unlock()
		for i := 0; i < k && bad == ""; i++ {
			if 100+i == badArg {
				// the caller whose argument the shard function rejects: its own failure, and the argument is never fetched
				if seen[badArg] != 0 {
					bad = fmt.Sprintf("argument %d, which the shard function rejected, reached Many", badArg)
				}
				continue
			}
			switch {
			case results[i].panic != nil:
				bad = fmt.Sprintf("Invoke(%d) panicked: %v", 100+i, results[i].panic)
			case results[i].err != nil:
				bad = fmt.Sprintf("Invoke(%d) failed although every batch succeeded: %v", 100+i, results[i].err)
			case results[i].v != c05F(100+i):
				bad = fmt.Sprintf("Invoke(%d) returned %v, its own result is %d", 100+i, results[i].v, c05F(100+i))
			case seen[100+i] != 1:
				bad = fmt.Sprintf("argument %d reached Many %d times", 100+i, seen[100+i])
			}
		}
		if bad != "" {
			rep.Fail("impl_ne_spec", nil, cs, map[string]interface{}{"what": "free-running callers: " + bad, "batches": batches})
			return
		}
		rep.Count("free_running_rounds")
		rep.Count(fmt.Sprintf("free_running_shard_mode=%d", shardMode))
	}
}

func runC05(c *Ctx) error {
	m, err := StartModel("C05")
	if err != nil {
		return err
	}
	defer m.Close()
	c.Rep.Rule = "1..8 concurrent Invoke calls, MaxSize 0..3, optional shard function, Many outcome per batch (ok / error / panic / short result), cancellation at a random step; the harness orders the critical sections through the hook gates (joins before and after the creator's timer fired, late joiners, size-triggered hand-over); non-trivial = more than one caller; distinct by step trace"
	c.Rep.Assumptions = append(c.Rep.Assumptions,
		"each gated segment (one mutex-protected section, the select, the call of Many, the return) is atomic with respect to the others",
		"the interval timer is short (150µs) and the max-duration timer long; timer arithmetic is not modelled: the model lets the creator wake at any time")
	if c.Replay != "" {
		var f struct {
			Case c05Scenario `json:"case"`
		}
		b, err := os.ReadFile(c.Replay)
		if err != nil {
			return err
		}
		if err := json.Unmarshal(b, &f); err != nil {
			return err
		}
		c05Run(c, m, f.Case)
		return nil
	}
	n := c.N(700, 30000)
	free := c.Rng.Fork()
	for i := 0; i < n && !c.Rep.ShouldStop(); i++ {
		c05Run(c, m, c05Gen(c.Rng))
	}
	c05Directed(c)
	c05Free(c, free, c.N(4000, 60000))
	return nil
}

// ---- directed cases from the defect hunt (notes/hunt/C05) -----------------------------------------------------------

// c05Directed: legal calls must return also after another caller's mistake: a Shard value that cannot be a map key
// (finding C05-1: the context's mutex stayed locked), a batch function that ends its goroutine (finding C05-2: the
// other callers of the batch waited for ever).
func c05Directed(c *Ctx) {
	rep := c.Rep
	// an unhashable shard, then an unrelated Func on the same batching context
	{
		cs := map[string]interface{}{"directed": "unhashable shard, then a legal Invoke on the same context"}
		ctx := batch.WithBatching(context.Background())
		bad := &batch.Func{
			Many:  func(ctx context.Context, args []interface{}) ([]interface{}, error) { return args, nil },
			Shard: func(arg interface{}) interface{} { return []int{1} },
		}
		good := &batch.Func{Many: func(ctx context.Context, args []interface{}) ([]interface{}, error) {
			out := make([]interface{}, len(args))
			for i, a := range args {
				out[i] = c05F(a.(int))
			}
			return out, nil
		}, WaitInterval: time.Millisecond}
		func() {
			defer func() { recover() }()
			bad.Invoke(ctx, 1)
		}()
		done := make(chan interface{}, 1)
		go func() {
			v, err := good.Invoke(ctx, 7)
			if err != nil {
				done <- err
			} else {
				done <- v
			}
		}()
		select {
		case v := <-done:
			if v != c05F(7) {
				rep.Fail("impl_ne_spec", nil, cs, map[string]interface{}{"what": "the legal call returned something else than its own result", "got": fmt.Sprint(v)})
			} else {
				rep.Count("directed:unhashable_shard")
				rep.Eval("directed|unhashable-shard", true, cs)
			}
		case <-patient(5 * time.Second):
			rep.Fail("impl_ne_spec", nil, cs, map[string]interface{}{"what": "an Invoke with a legal argument did not return within 5 s after another call's Shard value had made the lookup panic"})
		}
	}
	// a batch function that calls runtime.Goexit: the callers that joined the batch must get an error
	{
		cs := map[string]interface{}{"directed": "runtime.Goexit inside Many, three callers"}
		ctx := batch.WithBatching(context.Background())
		started := make(chan struct{})
		f := &batch.Func{Many: func(ctx context.Context, args []interface{}) ([]interface{}, error) {
			close(started)
			runtime.Goexit()
			return nil, nil
		}, WaitInterval: 50 * time.Millisecond}
		results := make(chan error, 3)
		for i := 0; i < 3; i++ {
			go func(i int) {
				finished := false
				defer func() {
					if !finished {
						results <- errors.New("goexit") // the caller that ran the batch: its goroutine ended
					}
				}()
				_, err := f.Invoke(ctx, i)
				finished = true
				if err == nil {
					err = errors.New("no error")
				}
				results <- err
			}(i)
		}
		got := 0
		timeout := patient(5 * time.Second)
	wait:
		for got < 3 {
			select {
			case err := <-results:
				if err.Error() == "no error" {
					rep.Fail("impl_ne_spec", nil, cs, map[string]interface{}{"what": "a caller of a batch whose function never returned got a result without an error"})
					return
				}
				got++
			case <-timeout:
				break wait
			}
		}
		if got < 3 {
			rep.Fail("impl_ne_spec", nil, cs, map[string]interface{}{"what": fmt.Sprintf("%d of 3 callers of a batch whose function ended its goroutine did not return within 5 s", 3-got)})
		} else {
			rep.Count("directed:goexit_in_many")
			rep.Eval("directed|goexit", true, cs)
		}
	}
}
