package main

// C18 — Arguments reach resolvers exactly as sent, by literal or by variable.
// Implementation: graphql.Parse (literal → JSON, variable defaults) + PrepareQuery (argument
// parsers of schemabuilder/input.go) + the resolver call.  Model: ThunderModel/Gql/Args.lean.

import (
	"context"
	"encoding/base64"
	"encoding/json"
	"fmt"
	"math"
	"os"
	"reflect"
	"sort"
	"strconv"
	"strings"
	"time"
	"unicode"

	"github.com/samsarahq/thunder/graphql"
	"github.com/samsarahq/thunder/graphql/schemabuilder"
)

func init() { register("C18", runC18) }

type c18Enum int32

type c18Text struct{ V string }

func (t *c18Text) UnmarshalText(b []byte) error { t.V = string(b); return nil }

type c18Named string

type c18Inner struct {
	X int32
	Y *string
	Z []int64
}

// a self-referential input type (nested through a pointer and through a list)
type c18Rec struct {
	Name  string
	Not   *c18Rec
	Any   []c18Rec
	Limit int64
	Tag   *string
}

type c18Args struct {
	B   bool
	I8  int8
	I16 int16
	I32 int32
	I64 int64
	I   int
	U8  uint8
	U16 uint16
	U32 uint32
	U64 uint64
	U   uint
	F32 float32
	F64 float64
	S   string
	By  []byte
	T   time.Time
	E   c18Enum
	Txt c18Text
	Nm  c18Named
	PI  *int64
	PS  *string
	PB  *bool
	PE  *c18Enum
	PF  *float64
	OI  int64   `graphql:",optional"`
	OS  string  `graphql:",optional"`
	OE  c18Enum `graphql:",optional"`
	L   []int32
	LS  []string
	LP  []*int64
	LI  []c18Inner
	In  c18Inner
	PIn *c18Inner
	OIn c18Inner `graphql:",optional"`
	Rec c18Rec
}

type c18Key struct{}

type c18Pair struct {
	Left  string
	Right *string
}
type c18Small struct {
	Tags  []string
	Note  *string
	Name  *string
	Count *int64
	Flag  *bool
	Pair  *c18Pair
}

// two names for one value are legal (UNO = ONE, DOS = TWO): every registered name must be accepted
var c18EnumNames = map[string]c18Enum{"ONE": 1, "TWO": 2, "THREE": 3, "UNO": 1, "DOS": 2}
var c18EnumIDs = map[string]int{"ONE": 1, "TWO": 2, "THREE": 3, "UNO": 1, "DOS": 2}

func c18Schema() *graphql.Schema {
	sb := schemabuilder.NewSchema()
	sb.Enum(c18Enum(0), map[string]c18Enum{"ONE": 1, "TWO": 2, "THREE": 3, "UNO": 1, "DOS": 2})
	q := sb.Query()
	// a small argument struct for queries that select one field several times with look-alike values
	q.FieldFunc("echo2", func(ctx context.Context, args c18Small) string {
		if p, ok := ctx.Value(c18Key{}).(*[]c18Small); ok {
			*p = append(*p, args)
		}
		return "ok"
	})
	q.FieldFunc("echo", func(ctx context.Context, args c18Args) string {
		if p, ok := ctx.Value(c18Key{}).(*[]c18Args); ok {
			*p = append(*p, args)
		}
		return "ok"
	})
	sb.Mutation()
	return sb.MustBuild()
}

// ---- tokens -----------------------------------------------------------------------------

type c18Toks struct {
	strs     map[string]int
	nums     map[float64]int
	enumPick int
	// mix: inside a list literal, some elements are sent as variables; alloc declares one
	mix   func() bool
	alloc func(jsonV, jv interface{}) (string, int)
}

func newC18Toks() *c18Toks {
	return &c18Toks{strs: map[string]int{"": 0}, nums: map[float64]int{0: 0}}
}
func (t *c18Toks) str(s string) int {
	if v, ok := t.strs[s]; ok {
		return v
	}
	t.strs[s] = len(t.strs)
	return t.strs[s]
}
func (t *c18Toks) num(f float64) int {
	if v, ok := t.nums[f]; ok {
		return v
	}
	t.nums[f] = len(t.nums)
	return t.nums[f]
}

func lowerFirst(s string) string {
	// schemabuilder's makeGraphql: lower-case the first rune only
	r := []rune(s)
	if len(r) > 0 {
		r[0] = unicode.ToLower(r[0])
	}
	return string(r)
}

var c18FieldIDs = map[string]int{}

func c18FieldID(name string) int {
	if id, ok := c18FieldIDs[name]; ok {
		return id
	}
	c18FieldIDs[name] = len(c18FieldIDs) + 1
	return c18FieldIDs[name]
}

var textUnmarshalerType = reflect.TypeOf((*interface{ UnmarshalText([]byte) error })(nil)).Elem()

// c18TypeEnc mirrors how the schema builder classifies a Go argument type.
var c18RecDepth = 0

func c18TypeEnc(t reflect.Type) interface{} {
	if t == reflect.TypeOf(c18Rec{}) {
		// unrolled as deep as generated values go; below that only nil pointers and empty lists occur
		if c18RecDepth >= 4 {
			return "bool"
		}
		c18RecDepth++
		defer func() { c18RecDepth-- }()
	}
	if t.Kind() == reflect.Ptr {
		return map[string]interface{}{"ptr": c18TypeEnc(t.Elem())}
	}
	switch t {
	case reflect.TypeOf(c18Enum(0)):
		return map[string]interface{}{"enum": []int{1, 2, 3}}
	case reflect.TypeOf(time.Time{}):
		return "time"
	case reflect.TypeOf([]byte(nil)):
		return "bytes"
	}
	if reflect.PtrTo(t).Implements(textUnmarshalerType) {
		return "text"
	}
	switch t.Kind() {
	case reflect.Bool:
		return "bool"
	case reflect.Float32, reflect.Float64:
		return "float"
	case reflect.String:
		return "str"
	case reflect.Int8, reflect.Int16, reflect.Int32, reflect.Int64, reflect.Int:
		return map[string]interface{}{"int": []interface{}{t.Bits(), true}}
	case reflect.Uint8, reflect.Uint16, reflect.Uint32, reflect.Uint64, reflect.Uint:
		return map[string]interface{}{"int": []interface{}{t.Bits(), false}}
	case reflect.Slice:
		return map[string]interface{}{"list": c18TypeEnc(t.Elem())}
	case reflect.Struct:
		var fs []interface{}
		for i := 0; i < t.NumField(); i++ {
			f := t.Field(i)
			ft := c18TypeEnc(f.Type)
			if strings.Contains(f.Tag.Get("graphql"), "optional") {
				ft = map[string]interface{}{"opt": ft}
			}
			fs = append(fs, []interface{}{c18FieldID(lowerFirst(f.Name)), ft})
		}
		return map[string]interface{}{"struct": fs}
	}
	return "?"
}

// c18GV encodes a received Go value for comparison with the model.
func (tk *c18Toks) gv(v reflect.Value) interface{} {
	if v.Kind() == reflect.Ptr {
		if v.IsNil() {
			return nil
		}
		return map[string]interface{}{"p": tk.gv(v.Elem())}
	}
	switch x := v.Interface().(type) {
	case c18Enum:
		return map[string]interface{}{"e": int(x)}
	case time.Time:
		if x.IsZero() {
			return map[string]interface{}{"t": 0}
		}
		return map[string]interface{}{"t": tk.str(x.UTC().Format(time.RFC3339))}
	case []byte:
		return map[string]interface{}{"y": tk.str(base64.StdEncoding.EncodeToString(x))}
	case c18Text:
		return map[string]interface{}{"x": tk.str(x.V)}
	}
	switch v.Kind() {
	case reflect.Bool:
		return map[string]interface{}{"b": v.Bool()}
	case reflect.Float32, reflect.Float64:
		return map[string]interface{}{"f": tk.num(v.Float())}
	case reflect.String:
		return map[string]interface{}{"s": tk.str(v.String())}
	case reflect.Int8, reflect.Int16, reflect.Int32, reflect.Int64, reflect.Int:
		return map[string]interface{}{"i": []interface{}{v.Type().Bits(), true, v.Int()}}
	case reflect.Uint8, reflect.Uint16, reflect.Uint32, reflect.Uint64, reflect.Uint:
		return map[string]interface{}{"i": []interface{}{v.Type().Bits(), false, v.Uint()}}
	case reflect.Slice:
		l := []interface{}{}
		for i := 0; i < v.Len(); i++ {
			l = append(l, tk.gv(v.Index(i)))
		}
		return map[string]interface{}{"l": l}
	case reflect.Struct:
		var fs []interface{}
		for i := 0; i < v.NumField(); i++ {
			fs = append(fs, []interface{}{c18FieldID(lowerFirst(v.Type().Field(i).Name)), tk.gv(v.Field(i))})
		}
		return map[string]interface{}{"o": fs}
	}
	return "?"
}

// c18Send produces, for a Go value, its GraphQL literal text, the model's Lit encoding, the real
// JSON value for a variables map and the model's JV encoding. `nil` pointers have no literal:
// the caller leaves the argument out or sends a null variable.
func (tk *c18Toks) send(v reflect.Value) (text string, lit interface{}, jsonV interface{}, jv interface{}) {
	if v.Kind() == reflect.Ptr {
		return tk.send(v.Elem())
	}
	switch x := v.Interface().(type) {
	case c18Enum:
		name := "ONE"
		var names []string
		for n, e := range c18EnumNames {
			if e == x {
				names = append(names, n)
			}
		}
		sort.Strings(names)
		if len(names) > 0 {
			tk.enumPick++
			name = names[tk.enumPick%len(names)]
		}
		id := c18EnumIDs[name]
		return name, map[string]interface{}{"enum": id}, name, map[string]interface{}{"enum": id}
	case time.Time:
		s := x.UTC().Format(time.RFC3339)
		return strconv.Quote(s), map[string]interface{}{"str": tk.str(s)}, s, map[string]interface{}{"str": tk.str(s)}
	case []byte:
		s := base64.StdEncoding.EncodeToString(x)
		return strconv.Quote(s), map[string]interface{}{"str": tk.str(s)}, s, map[string]interface{}{"str": tk.str(s)}
	case c18Text:
		return strconv.Quote(x.V), map[string]interface{}{"str": tk.str(x.V)}, x.V, map[string]interface{}{"str": tk.str(x.V)}
	}
	switch v.Kind() {
	case reflect.Bool:
		return fmt.Sprint(v.Bool()), map[string]interface{}{"b": v.Bool()}, v.Bool(), map[string]interface{}{"b": v.Bool()}
	case reflect.Float32, reflect.Float64:
		f := v.Float()
		txt := strconv.FormatFloat(f, 'g', -1, 64)
		if !strings.ContainsAny(txt, ".e") {
			txt += ".0"
		}
		tr := int64(0)
		if math.Abs(f) < 9e18 {
			tr = int64(f)
		}
		return txt, map[string]interface{}{"float": []interface{}{tk.num(f), tr}}, f, map[string]interface{}{"num": []interface{}{tk.num(f), tr}}
	case reflect.String:
		s := v.String()
		return strconv.Quote(s), map[string]interface{}{"str": tk.str(s)}, s, map[string]interface{}{"str": tk.str(s)}
	case reflect.Int8, reflect.Int16, reflect.Int32, reflect.Int64, reflect.Int:
		n := v.Int()
		return fmt.Sprint(n), map[string]interface{}{"int": []interface{}{n, tk.num(float64(n))}}, float64(n), map[string]interface{}{"num": []interface{}{tk.num(float64(n)), n}}
	case reflect.Uint8, reflect.Uint16, reflect.Uint32, reflect.Uint64, reflect.Uint:
		n := int64(v.Uint())
		return fmt.Sprint(n), map[string]interface{}{"int": []interface{}{n, tk.num(float64(n))}}, float64(n), map[string]interface{}{"num": []interface{}{tk.num(float64(n)), n}}
	case reflect.Slice:
		var ts []string
		lits, js, jvs := []interface{}{}, []interface{}{}, []interface{}{}
		for i := 0; i < v.Len(); i++ {
			e := v.Index(i)
			if e.Kind() == reflect.Ptr && e.IsNil() {
				// a nil element can only be sent through a variable; here: an unbound variable literal
				ts = append(ts, "$unbound")
				lits = append(lits, map[string]interface{}{"var": 0})
				js = append(js, nil)
				jvs = append(jvs, nil)
				continue
			}
			t, l, j, jv := tk.send(e)
			if tk.mix != nil && tk.alloc != nil && tk.mix() {
				// this element travels as a variable inside the list literal
				vn, id := tk.alloc(j, jv)
				t, l = "$"+vn, map[string]interface{}{"var": id}
			}
			ts = append(ts, t)
			lits = append(lits, l)
			js = append(js, j)
			jvs = append(jvs, jv)
		}
		return "[" + strings.Join(ts, ", ") + "]", map[string]interface{}{"list": lits}, js, jvs
	case reflect.Struct:
		var ts []string
		lits, jvs := []interface{}{}, []interface{}{}
		js := map[string]interface{}{}
		for i := 0; i < v.NumField(); i++ {
			f := v.Field(i)
			name := lowerFirst(v.Type().Field(i).Name)
			if f.Kind() == reflect.Ptr && f.IsNil() {
				continue // left out
			}
			t, l, j, jv := tk.send(f)
			ts = append(ts, name+": "+t)
			lits = append(lits, []interface{}{c18FieldID(name), l})
			js[name] = j
			jvs = append(jvs, []interface{}{c18FieldID(name), jv})
		}
		return "{" + strings.Join(ts, ", ") + "}", map[string]interface{}{"obj": lits}, js, map[string]interface{}{"obj": jvs}
	}
	return "null", nil, nil, nil
}

// ---- generation -------------------------------------------------------------------------

var c18Strs = []string{"", "a", "héllo", "x y", "q\"uote", "0"}

func c18GenInt(r *Rand, bits int, signed bool) int64 {
	lim := int64(1) << 53
	var lo, hi int64
	if signed {
		lo, hi = -(int64(1) << uint(bits-1)), (int64(1)<<uint(bits-1))-1
		if bits == 64 {
			lo, hi = -lim, lim
		}
	} else {
		lo, hi = 0, (int64(1)<<uint(bits))-1
		if bits == 64 {
			hi = lim
		}
	}
	switch r.Intn(6) {
	case 0:
		return 0
	case 1:
		return lo
	case 2:
		return hi
	case 3:
		return 1
	default:
		span := uint64(hi - lo)
		return lo + int64(r.U64()%(span+1))
	}
}

func c18GenInner(r *Rand) c18Inner {
	in := c18Inner{X: int32(c18GenInt(r, 32, true))}
	if r.Bool() {
		s := c18Strs[r.Intn(len(c18Strs))]
		in.Y = &s
	}
	for i := r.Intn(3); i > 0; i-- {
		in.Z = append(in.Z, c18GenInt(r, 64, true))
	}
	return in
}

func c18GenRec(r *Rand, depth int) c18Rec {
	x := c18Rec{Name: c18Strs[r.Intn(len(c18Strs))], Limit: c18GenInt(r, 64, true)}
	if r.Bool() {
		s := c18Strs[r.Intn(len(c18Strs))]
		x.Tag = &s
	}
	if depth < 3 && r.Chance(0.6) {
		n := c18GenRec(r, depth+1)
		x.Not = &n
	}
	if depth < 3 {
		for i := r.Intn(3); i > 0; i-- {
			x.Any = append(x.Any, c18GenRec(r, depth+1))
		}
	}
	return x
}

func c18GenArgs(r *Rand) c18Args {
	a := c18Args{Rec: c18GenRec(r, 0)}
	a.B = r.Bool()
	a.I8 = int8(c18GenInt(r, 8, true))
	a.I16 = int16(c18GenInt(r, 16, true))
	a.I32 = int32(c18GenInt(r, 32, true))
	a.I64 = c18GenInt(r, 64, true)
	a.I = int(c18GenInt(r, 64, true))
	a.U8 = uint8(c18GenInt(r, 8, false))
	a.U16 = uint16(c18GenInt(r, 16, false))
	a.U32 = uint32(c18GenInt(r, 32, false))
	a.U64 = uint64(c18GenInt(r, 64, false))
	a.U = uint(c18GenInt(r, 64, false))
	fl := []float64{0, 1, -1.5, 0.25, 1e10, -3.75}
	a.F32 = float32(fl[r.Intn(len(fl))])
	a.F64 = []float64{0, 1.5, -2, 0.1, 1e100, 7}[r.Intn(6)]
	a.S = c18Strs[r.Intn(len(c18Strs))]
	a.By = []byte(c18Strs[r.Intn(len(c18Strs))])
	a.T = time.Date(1990+r.Intn(40), time.Month(1+r.Intn(12)), 1+r.Intn(28), r.Intn(24), r.Intn(60), r.Intn(60), 0, time.UTC)
	a.E = c18Enum(1 + r.Intn(3))
	a.Txt = c18Text{V: c18Strs[r.Intn(len(c18Strs))]}
	a.Nm = c18Named(c18Strs[r.Intn(len(c18Strs))])
	if r.Bool() {
		v := c18GenInt(r, 64, true)
		a.PI = &v
	}
	if r.Bool() {
		v := c18Strs[r.Intn(len(c18Strs))]
		a.PS = &v
	}
	if r.Bool() {
		v := r.Bool()
		a.PB = &v
	}
	if r.Bool() {
		v := c18Enum(1 + r.Intn(3))
		a.PE = &v
	}
	if r.Bool() {
		v := fl[r.Intn(len(fl))]
		a.PF = &v
	}
	a.OI = c18GenInt(r, 64, true)
	a.OS = c18Strs[r.Intn(len(c18Strs))]
	a.OE = c18Enum(1 + r.Intn(3))
	for i := r.Intn(3); i > 0; i-- {
		a.L = append(a.L, int32(c18GenInt(r, 32, true)))
	}
	for i := r.Intn(3); i > 0; i-- {
		a.LS = append(a.LS, c18Strs[r.Intn(len(c18Strs))])
	}
	for i := r.Intn(3); i > 0; i-- {
		if r.Chance(0.3) {
			a.LP = append(a.LP, nil)
		} else {
			v := c18GenInt(r, 64, true)
			a.LP = append(a.LP, &v)
		}
	}
	for i := r.Intn(3); i > 0; i-- {
		a.LI = append(a.LI, c18GenInner(r))
	}
	a.In = c18GenInner(r)
	if r.Bool() {
		in := c18GenInner(r)
		a.PIn = &in
	}
	a.OIn = c18GenInner(r)
	return a
}

type c18Case struct {
	Args     c18Args           `json:"args"`
	Modes    map[string]string `json:"modes"`    // field -> literal | variable | default | omit | null
	Tamper   string            `json:"tamper"`   // field whose value is replaced by one of the wrong kind ("" = none)
	TamperAs string            `json:"tamperAs"` // literal text used instead
}

func c18GenCase(r *Rand) c18Case {
	cs := c18Case{Args: c18GenArgs(r), Modes: map[string]string{}}
	t := reflect.TypeOf(cs.Args)
	v := reflect.ValueOf(cs.Args)
	for i := 0; i < t.NumField(); i++ {
		f := t.Field(i)
		name := lowerFirst(f.Name)
		optional := strings.Contains(f.Tag.Get("graphql"), "optional")
		isNilPtr := f.Type.Kind() == reflect.Ptr && v.Field(i).IsNil()
		switch {
		case isNilPtr:
			cs.Modes[name] = []string{"omit", "null"}[r.Intn(2)]
		case optional && r.Chance(0.3):
			cs.Modes[name] = []string{"omit", "null"}[r.Intn(2)]
		default:
			cs.Modes[name] = []string{"literal", "variable", "default", "variable"}[r.Intn(4)]
			if cs.Modes[name] == "literal" && r.Chance(0.5) {
				cs.Modes[name] = "mixed" // a literal whose list elements (at any depth) are partly variables
			}
		}
	}
	if r.Chance(0.08) {
		// a null element in a list of non-nullable elements
		for _, cand := range []string{"L", "LS", "LI"} {
			if fv := v.FieldByName(cand); fv.Len() > 0 {
				cs.Tamper = lowerFirst(cand)
				cs.TamperAs = "nullelem"
			}
		}
	} else if r.Chance(0.2) {
		f := t.Field(r.Intn(t.NumField()))
		cs.Tamper = lowerFirst(f.Name)
		cs.TamperAs = []string{"true", "12", "\"str\"", "[1]", "{x: 1}", "1.5"}[r.Intn(6)]
		if cs.TamperAs == "\"str\"" && (f.Name == "T" || f.Name == "By") {
			// whether an arbitrary string is a valid time / base64 text is not modelled (opaque tokens)
			cs.TamperAs = "12"
		}
	}
	return cs
}

func c18One(c *Ctx, m *Model, schema *graphql.Schema, cs c18Case) {
	rep := c.Rep
	tk := newC18Toks()
	t := reflect.TypeOf(cs.Args)
	v := reflect.ValueOf(cs.Args)
	expected := reflect.New(t).Elem()
	expected.Set(v)
	var argTexts, varDefs []string
	vars := map[string]interface{}{}
	var modelVars, modelDefs, litFields []interface{}
	varID := 1
	for i := 0; i < t.NumField(); i++ {
		f := t.Field(i)
		name := lowerFirst(f.Name)
		mode := cs.Modes[name]
		fid := c18FieldID(name)
		if name == cs.Tamper && cs.TamperAs == "nullelem" {
			// a null element inside a list whose element type is not nullable: once as an unbound
			// variable inside a list literal, once inside a list-valued variable
			fv := v.Field(i)
			var ts []string
			lits, js, jvs := []interface{}{}, []interface{}{}, []interface{}{}
			for k := 0; k < fv.Len(); k++ {
				if k == 0 {
					ts = append(ts, "$unbound")
					lits = append(lits, map[string]interface{}{"var": 0})
					js = append(js, nil)
					jvs = append(jvs, nil)
					continue
				}
				t, l, j, jv := tk.send(fv.Index(k))
				ts = append(ts, t)
				lits = append(lits, l)
				js = append(js, j)
				jvs = append(jvs, jv)
			}
			if len(cs.Args.LS)%2 == 0 {
				argTexts = append(argTexts, name+": ["+strings.Join(ts, ", ")+"]")
				litFields = append(litFields, []interface{}{fid, map[string]interface{}{"list": lits}})
			} else {
				vn := fmt.Sprintf("v%d", varID)
				argTexts = append(argTexts, name+": $"+vn)
				varDefs = append(varDefs, "$"+vn+": [String]")
				vars[vn] = js
				modelVars = append(modelVars, []interface{}{varID, jvs})
				modelDefs = append(modelDefs, map[string]interface{}{"name": varID, "nonNull": false, "default": nil})
				litFields = append(litFields, []interface{}{fid, map[string]interface{}{"var": varID}})
				varID++
			}
			continue
		}
		if name == cs.Tamper {
			argTexts = append(argTexts, name+": "+cs.TamperAs)
			litFields = append(litFields, []interface{}{fid, c18TamperLit(cs.TamperAs, tk)})
			continue
		}
		if mode == "omit" || mode == "null" {
			// nil pointer stays nil; optional takes the zero value
			if f.Type.Kind() != reflect.Ptr {
				expected.Field(i).Set(reflect.Zero(f.Type))
			}
			if mode == "null" {
				vn := fmt.Sprintf("v%d", varID)
				argTexts = append(argTexts, name+": $"+vn)
				varDefs = append(varDefs, "$"+vn+": "+c18GqlType(f.Type, true))
				vars[vn] = nil
				modelVars = append(modelVars, []interface{}{varID, nil})
				modelDefs = append(modelDefs, map[string]interface{}{"name": varID, "nonNull": false, "default": nil})
				litFields = append(litFields, []interface{}{fid, map[string]interface{}{"var": varID}})
				varID++
			}
			continue
		}
		tk.mix, tk.alloc = nil, nil
		if mode == "mixed" {
			mr := NewRand(uint64(varID)*7919 + uint64(i))
			tk.mix = func() bool { return mr.Chance(0.5) }
			tk.alloc = func(j, jv interface{}) (string, int) {
				vn := fmt.Sprintf("v%d", varID)
				id := varID
				varDefs = append(varDefs, "$"+vn+": String")
				vars[vn] = j
				modelVars = append(modelVars, []interface{}{id, jv})
				modelDefs = append(modelDefs, map[string]interface{}{"name": id, "nonNull": false, "default": nil})
				varID++
				return vn, id
			}
		}
		text, lit, jsonV, jv := tk.send(v.Field(i))
		tk.mix, tk.alloc = nil, nil
		if mode == "mixed" {
			mode = "literal"
		}
		if mode == "default" && strings.Contains(text, "$unbound") {
			mode = "variable" // a default value is a constant: it cannot spell a nil list element
		}
		switch mode {
		case "literal":
			argTexts = append(argTexts, name+": "+text)
			litFields = append(litFields, []interface{}{fid, lit})
		case "variable":
			vn := fmt.Sprintf("v%d", varID)
			argTexts = append(argTexts, name+": $"+vn)
			varDefs = append(varDefs, "$"+vn+": "+c18GqlType(f.Type, false))
			vars[vn] = jsonV
			modelVars = append(modelVars, []interface{}{varID, jv})
			modelDefs = append(modelDefs, map[string]interface{}{"name": varID, "nonNull": false, "default": nil})
			litFields = append(litFields, []interface{}{fid, map[string]interface{}{"var": varID}})
			varID++
		case "default":
			vn := fmt.Sprintf("v%d", varID)
			argTexts = append(argTexts, name+": $"+vn)
			varDefs = append(varDefs, "$"+vn+": "+c18GqlType(f.Type, true)+" = "+text)
			// sometimes supply an explicit null: the default must still be used
			if varID%2 == 0 {
				vars[vn] = nil
				modelVars = append(modelVars, []interface{}{varID, nil})
			}
			modelDefs = append(modelDefs, map[string]interface{}{"name": varID, "nonNull": false, "default": lit})
			litFields = append(litFields, []interface{}{fid, map[string]interface{}{"var": varID}})
			varID++
		}
	}
	query := "query Q"
	if len(varDefs) > 0 {
		query += "(" + strings.Join(varDefs, ", ") + ")"
	}
	query += " { echo(" + strings.Join(argTexts, ", ") + ") }"
	// implementation
	var got []c18Args
	ctx := context.WithValue(context.Background(), c18Key{}, &got)
	// variables arrive JSON-decoded
	vb, _ := json.Marshal(vars)
	var decodedVars map[string]interface{}
	json.Unmarshal(vb, &decodedVars)
	_, ierr := gqlRun(ctx, schema, query, decodedVars)
	// model
	if modelVars == nil {
		modelVars = []interface{}{}
	}
	if modelDefs == nil {
		modelDefs = []interface{}{}
	}
	resp, err := m.Call(map[string]interface{}{"op": "args", "type": c18TypeEnc(t), "lit": map[string]interface{}{"obj": litFields},
		"vars": modelVars, "defs": modelDefs})
	if err != nil {
		rep.Fail("harness_error", nil, cs, map[string]interface{}{"error": err.Error(), "query": query})
		return
	}
	mres, _ := resp["res"].(map[string]interface{})
	_, modelRejects := mres["err"]
	detail := map[string]interface{}{"query": query, "vars": vars}
	if ierr != nil && len(got) > 0 {
		rep.Fail("impl_ne_spec", nil, cs, map[string]interface{}{"what": "resolver ran although the query was rejected", "query": query, "error": ierr.Error()})
	}
	if (ierr != nil) != modelRejects {
		detail["what"] = "accept/reject differs from model"
		detail["impl_error"] = fmt.Sprint(ierr)
		detail["model"] = mres
		rep.Fail("impl_ne_model", nil, cs, detail)
	}
	// S: untampered case must be accepted and deliver exactly the value sent
	if cs.Tamper == "" {
		if ierr != nil {
			rep.Fail("impl_ne_spec", nil, cs, map[string]interface{}{"what": "well-typed arguments rejected", "query": query, "vars": vars, "error": ierr.Error()})
		} else if len(got) != 1 {
			rep.Fail("impl_ne_spec", nil, cs, map[string]interface{}{"what": fmt.Sprintf("resolver called %d times", len(got)), "query": query})
		} else {
			want := Canon(tk.gv(expected))
			have := Canon(tk.gv(reflect.ValueOf(got[0])))
			if want != have {
				rep.Fail("impl_ne_spec", nil, cs, map[string]interface{}{"what": "resolver received a different value than was sent", "query": query, "vars": vars, "sent": tk.gv(expected), "received": tk.gv(reflect.ValueOf(got[0]))})
			}
		}
	}
	if cs.TamperAs == "nullelem" && ierr == nil {
		rep.Fail("impl_ne_spec", nil, cs, map[string]interface{}{"what": "a null element of a list whose elements are required was accepted instead of rejected as a client error", "query": query, "vars": vars, "received": fmt.Sprint(got)})
	}
	if ierr == nil && !modelRejects && len(got) == 1 {
		if Canon(tk.gv(reflect.ValueOf(got[0]))) != Canon(mres["ok"]) {
			rep.Fail("impl_ne_model", nil, cs, map[string]interface{}{"what": "received value differs from model", "query": query, "impl": tk.gv(reflect.ValueOf(got[0])), "model": mres["ok"]})
		}
	}
	for _, md := range cs.Modes {
		rep.Count("mode:" + md)
	}
	if cs.Tamper != "" {
		rep.Count("tampered")
		if ierr != nil {
			rep.Count("tampered:rejected")
		}
	}
	rep.Eval(query+Canon(vars), true, map[string]interface{}{"query": firstN(query, 400)})
}

// c18Twins: one field selected twice (two aliases) with argument values that look alike - equal when printed with
// fmt, different as values - and pairs in which the second value is of the wrong kind: each call must receive its
// own value, and the wrong kind must be rejected whatever its neighbour is.
func c18Twins(c *Ctx, schema *graphql.Schema) {
	rep := c.Rep
	type twin struct {
		a, b    string // argument texts of the two selections
		wantA   c18Small
		wantB   *c18Small // nil: the second selection is of the wrong kind and the query must be rejected
		byVar   bool
		varsA   map[string]interface{}
		comment string
	}
	sp := func(s string) *string { return &s }
	ip := func(n int64) *int64 { return &n }
	bp := func(b bool) *bool { return &b }
	twins := []twin{
		{a: `tags: ["x y"]`, b: `tags: ["x", "y"]`, wantA: c18Small{Tags: []string{"x y"}}, wantB: &c18Small{Tags: []string{"x", "y"}}},
		{a: `tags: []`, b: `tags: [""]`, wantA: c18Small{Tags: []string{}}, wantB: &c18Small{Tags: []string{""}}},
		{a: `tags: ["[a b]"]`, b: `tags: [["a", "b"]]`, wantA: c18Small{Tags: []string{"[a b]"}}, wantB: nil},
		{a: `tags: [], note: "<nil>"`, b: `tags: []`, wantA: c18Small{Tags: []string{}, Note: sp("<nil>")}, wantB: &c18Small{Tags: []string{}}},
		{a: `tags: [], name: "1"`, b: `tags: [], name: 1`, wantA: c18Small{Tags: []string{}, Name: sp("1")}, wantB: nil},
		{a: `tags: [], count: 5`, b: `tags: [], count: "5"`, wantA: c18Small{Tags: []string{}, Count: ip(5)}, wantB: nil},
		{a: `tags: [], flag: true`, b: `tags: [], flag: "true"`, wantA: c18Small{Tags: []string{}, Flag: bp(true)}, wantB: nil},
		{a: `tags: [], pair: {left: "1 right:2"}`, b: `tags: [], pair: {left: "1", right: "2"}`, wantA: c18Small{Tags: []string{}, Pair: &c18Pair{Left: "1 right:2"}}, wantB: &c18Small{Tags: []string{}, Pair: &c18Pair{Left: "1", Right: sp("2")}}},
		{a: `tags: ["a"], count: 1`, b: `tags: ["a"], count: 1`, wantA: c18Small{Tags: []string{"a"}, Count: ip(1)}, wantB: &c18Small{Tags: []string{"a"}, Count: ip(1)}},
	}
	canon := func(x c18Small) string { b, _ := json.Marshal(x); return string(b) }
	for _, tw := range twins {
		for _, order := range []bool{false, true} {
			first, second := tw.a, tw.b
			if order {
				first, second = tw.b, tw.a
			}
			query := "query Q { x: echo2(" + first + ") y: echo2(" + second + ") }"
			var got []c18Small
			ctx := context.WithValue(context.Background(), c18Key{}, &got)
			_, ierr := gqlRun(ctx, schema, query, map[string]interface{}{})
			cs := map[string]interface{}{"twins": query}
			if tw.wantB == nil {
				if ierr == nil {
					rep.Fail("impl_ne_spec", nil, cs, map[string]interface{}{"what": "a value of the wrong kind was accepted next to a look-alike of the right kind", "query": query, "received": fmt.Sprint(len(got))})
					return
				}
				if len(got) > 0 {
					rep.Fail("impl_ne_spec", nil, cs, map[string]interface{}{"what": "a resolver ran although the query was rejected", "query": query})
					return
				}
			} else {
				if ierr != nil {
					rep.Fail("impl_ne_spec", nil, cs, map[string]interface{}{"what": "well-typed arguments rejected", "query": query, "error": ierr.Error()})
					return
				}
				var have, want []string
				for _, g := range got {
					have = append(have, canon(g))
				}
				want = []string{canon(tw.wantA), canon(*tw.wantB)}
				sort.Strings(have)
				sort.Strings(want)
				if fmt.Sprint(have) != fmt.Sprint(want) {
					rep.Fail("impl_ne_spec", nil, cs, map[string]interface{}{"what": "two selections of one field with look-alike arguments: the resolver calls did not receive the two values sent", "query": query, "received": have, "sent": want})
					return
				}
			}
			rep.Count("twins")
			rep.Eval(query, true, map[string]interface{}{"query": query})
		}
	}
}

func c18TamperLit(text string, tk *c18Toks) interface{} {
	switch text {
	case "true":
		return map[string]interface{}{"b": true}
	case "12":
		return map[string]interface{}{"int": []interface{}{12, tk.num(12)}}
	case "\"str\"":
		return map[string]interface{}{"str": tk.str("str")}
	case "[1]":
		return map[string]interface{}{"list": []interface{}{map[string]interface{}{"int": []interface{}{1, tk.num(1)}}}}
	case "{x: 1}":
		return map[string]interface{}{"obj": []interface{}{[]interface{}{c18FieldID("x"), map[string]interface{}{"int": []interface{}{1, tk.num(1)}}}}}
	default:
		return map[string]interface{}{"float": []interface{}{tk.num(1.5), 1}}
	}
}

// c18GqlType prints a variable type; thunder does not check it, only NON_NULL matters.
func c18GqlType(t reflect.Type, nullable bool) string {
	s := "String"
	switch t.Kind() {
	case reflect.Slice:
		if t != reflect.TypeOf([]byte(nil)) {
			s = "[String]"
		}
	case reflect.Struct:
		s = "Obj"
	}
	return s
}

func runC18(c *Ctx) error {
	m, err := StartModel("C18")
	if err != nil {
		return err
	}
	defer m.Close()
	schema := c18Schema()
	c.Rep.Rule = "random values of a 34-field argument struct (all integer widths within ±2^53, floats, string, bytes, time, enum, text-unmarshaler, named scalar, pointers, optional tags, lists incl. nil elements, nested and optional input objects); an enum with two names for one value; each field sent as literal / literal whose list elements are partly variables / variable / variable default (sometimes with an explicit null) / omitted / null; one field in five replaced by a value of another kind; one field selected twice with look-alike values (equal when printed, different as values, or of the wrong kind); all non-trivial; distinct by query text + variables"
	c.Rep.Assumptions = append(c.Rep.Assumptions,
		"Env laws (opaque tokens): base64, RFC 3339 and UnmarshalText invert their encoders; float literals print/parse exactly (strconv)",
		"the GraphQL lexer/parser (graphql-go) is exercised, not modelled",
		"integers are within ±2^53 (exact in a JSON number)")
	if c.Replay != "" {
		var f struct {
			Case c18Case `json:"case"`
		}
		b, err := os.ReadFile(c.Replay)
		if err != nil {
			return err
		}
		if err := json.Unmarshal(b, &f); err != nil {
			return err
		}
		c18One(c, m, schema, f.Case)
		return nil
	}
	kfReproC18(c.Rep)
	c18Twins(c, schema)
	n := c.N(1500, 60000)
	for i := 0; i < n; i++ {
		c18One(c, m, schema, c18GenCase(c.Rng))
	}
	_ = sort.Strings
	return nil
}
