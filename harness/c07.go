package main

// C07 — Live SQL: every committed write reaches every live query it affects.
//
// Real livesql.LiveDB over the fake SQL driver; a livesql.Binlog built by the verif-tagged constructor
// around a replication.BinlogStreamer whose channel the harness feeds with the events the fake database
// "commits" (go-mysql's typed row representation; undecodable variants; foreign noise). Live queries run
// in real rerunners. Every critical section (write and read in the fake driver, register / deliver /
// invalidate in the tracker) is logged; the log is replayed in the Lean model.

import (
	"context"
	"database/sql"
	"database/sql/driver"
	"encoding/json"
	"errors"
	"fmt"
	"os"
	"reflect"
	"runtime"
	"sort"
	"strings"
	"sync"
	"time"
	"unsafe"

	"github.com/samsarahq/thunder/livesql"
	"github.com/samsarahq/thunder/reactive"
	"github.com/samsarahq/thunder/sqlgen"
	"github.com/siddontang/go-mysql/replication"
)

func init() { register("C07", runC07) }

type c07RowB struct {
	Id int64 `sql:",primary"`
	A  *int64
	B  int64
	S  string
	P  int64 `sql:",implicitnull"`
	T  string
	U  string
	Y  []byte
}

var c07Cols = []string{"id", "a", "b", "s", "p", "t", "u", "y"}

// c07At: element i of a row tuple (older recorded cases are shorter: 0)
func c07At(r []int64, i int) int64 {
	if len(r) > i {
		return r[i]
	}
	return 0
}

func c07SpIdx(v driver.Value) int64 {
	s := fmt.Sprint(fsNorm(v))
	for i, x := range c10SpaceStrs {
		if x == s {
			return int64(i)
		}
	}
	return 0
}

func c07Blob(i int64) []byte {
	if i == 0 {
		return []byte{}
	}
	return []byte("x")
}

// c07P: the fifth element of a row tuple (older recorded cases have four: NULL)
func c07P(r []int64) int64 {
	if len(r) > 4 {
		return r[4]
	}
	return 0
}

var c07Tables = []string{"rows", "rowsb"}

type c07Query struct {
	Table  int     `json:"table"`
	Filter []c10KV `json:"filter"`
	Kind   string  `json:"kind"`  // query | row (QueryRow) | dep (AddDependency + plain read)
	Group  int     `json:"group"` // queries of one group run in one rerunner, one after the other
}

type c07Op struct {
	Op    string    `json:"op"` // insert | upsert | update | delete | insertRows | upsertRows | deliver | noise | pause | reorder (N: permutation seed)
	Table int       `json:"table"`
	Rows  [][]int64 `json:"rows,omitempty"` // id, a (-1 NULL), b, s
	Bad   int       `json:"bad,omitempty"`  // 0: decodable; 1: column count; 2: type mismatch; 3: odd update
	N     int       `json:"n,omitempty"`
}

type c07Case struct {
	Seed    uint64      `json:"seed"`
	Init    [][][]int64 `json:"init"` // per table
	Queries []c07Query  `json:"queries"`
	Mid     []c07Op     `json:"mid,omitempty"` // writes committed (and their events delivered) right after a live query's read, before it returns
	Ops     []c07Op     `json:"ops"`
}

// ---- the in-process change log ---------------------------------------------------------------------------

func c07NewStreamer() (*replication.BinlogStreamer, chan *replication.BinlogEvent, chan error) {
	s := &replication.BinlogStreamer{}
	v := reflect.ValueOf(s).Elem()
	ch := make(chan *replication.BinlogEvent, 10240)
	ech := make(chan error, 4)
	set := func(name string, x interface{}) {
		f := v.FieldByName(name)
		reflect.NewAt(f.Type(), unsafe.Pointer(f.UnsafeAddr())).Elem().Set(reflect.ValueOf(x))
	}
	set("ch", ch)
	set("ech", ech)
	return s, ch, ech
}

// c07Label is one entry of the linearised log, in the model's vocabulary
type c07Label struct {
	L   string        `json:"l"`
	T   int           `json:"t,omitempty"`
	Q   int           `json:"q,omitempty"`
	Cs  []interface{} `json:"cs,omitempty"`
	Bad bool          `json:"bad,omitempty"`
	// observations of the implementation, compared with what the model's step shows
	images      [][2]interface{} // write: before / after images carried by the emitted event
	invalidated []int            // deliver: live queries whose current resource was invalidated
	hadErr      bool             // deliver
	nDeltas     int              // deliver
	table       string           // deliver
	rows        []int64          // read
}

func (l c07Label) enc() map[string]interface{} {
	switch l.L {
	case "write":
		cs := l.Cs
		if cs == nil {
			cs = []interface{}{}
		}
		return map[string]interface{}{"l": "write", "t": l.T, "cs": cs, "bad": l.Bad}
	case "register", "read":
		return map[string]interface{}{"l": l.L, "q": l.Q}
	}
	return map[string]interface{}{"l": "deliver"}
}

type c07Pending struct {
	ev     *replication.BinlogEvent
	expect bool // the tracker must process it
}

type c07Change struct {
	table         string
	idx           int
	before, after map[string]driver.Value
}

type c07World struct {
	pushMu   sync.Mutex
	mu       sync.Mutex
	rnd      *Rand
	labels   []c07Label
	seq      int                 // grows with every logged event: activity indicator
	cur      map[int64]int       // goroutine -> live query it is working on
	resOf    map[interface{}]int // *dbResource -> live query
	curRes   map[int]interface{} // live query -> its current resource
	held     map[int][]int64     // live query -> ids it holds (result of its last call)
	heldFull map[int][]string    // the same, whole rows
	errs     []string
	stmt     []c07Change // changes of the write statement in progress
	nextBad  int
	pending  []c07Pending
	pushed   int
	polled   int
	expected int
	delivers int
	foreign  map[int64]bool // goroutines of the harness's own direct reads
	fdb      *fsDB
	tableID  int
	// the poll loop's column-map cache, per table: schema version (grows with every reorder), the version each
	// event was written under, and what the poll loop saw and fetched, in order
	tver   map[string]int
	evVer  map[*replication.BinlogEvent]int
	colLog map[string][]map[string]interface{}
}

// colPoll records an event the poll loop received (called under w.mu)
func (w *c07World) colPoll(ev *replication.BinlogEvent) {
	switch inner := ev.Event.(type) {
	case *replication.RowsEvent:
		t := string(inner.Table.Table)
		if _, ok := w.tver[t]; !ok || string(inner.Table.Schema) != "db" {
			return
		}
		w.colLog[t] = append(w.colLog[t], map[string]interface{}{"k": "rows", "v": w.evVer[ev], "cur": w.tver[t]})
	case *replication.TableMapEvent:
		t := string(inner.Table)
		if _, ok := w.tver[t]; !ok || string(inner.Schema) != "db" {
			return
		}
		w.colLog[t] = append(w.colLog[t], map[string]interface{}{"k": "tmap", "id": inner.TableID, "v": w.evVer[ev]})
	}
}

func c07ModelRow(r map[string]driver.Value) interface{} {
	var a interface{}
	if r["a"] != nil {
		a = toInt64(r["a"])
	}
	var sv int64
	fmt.Sscanf(fmt.Sprint(r["s"]), "s%d", &sv)
	var pv interface{}
	if r["p"] != nil {
		pv = toInt64(r["p"])
	}
	return []interface{}{[]interface{}{0, toInt64(r["id"])}, []interface{}{1, a}, []interface{}{2, toInt64(r["b"])}, []interface{}{3, sv}, []interface{}{5, pv},
		[]interface{}{6, 100 + c07SpIdx(r["t"])}, []interface{}{7, 100 + c07SpIdx(r["u"])}, []interface{}{8, int64(len(fmt.Sprint(fsNorm(r["y"]))))}}
}

// c07EncFilter: the filter in the model's terms: 0 on the implicitnull column means NULL
func c07EncFilter(f []c10KV) interface{} {
	out := []interface{}{}
	for _, kv := range f {
		v := kv.Val.enc()
		if kv.Col == "p" && kv.Val.V == 0 {
			v = nil
		}
		out = append(out, []interface{}{c10ColID[kv.Col], v})
	}
	return out
}

// c07BinlogRow: the row as go-mysql hands it over: integers in the width of the column type, strings as
// string or []byte, NULL as nil
func (w *c07World) binlogRow(table string, r map[string]driver.Value, bad int) []interface{} {
	id := toInt64(r["id"])
	val := map[string]interface{}{"id": id, "a": nil, "b": int32(toInt64(r["b"])), "s": fmt.Sprint(r["s"]), "p": nil,
		"t": fmt.Sprint(fsNorm(r["t"])), "u": fmt.Sprint(fsNorm(r["u"])), "y": []byte(fmt.Sprint(fsNorm(r["y"])))}
	if w.rnd.Chance(0.3) {
		val["t"] = []byte(fmt.Sprint(fsNorm(r["t"])))
	}
	if r["a"] != nil {
		if w.rnd.Bool() {
			val["a"] = int32(toInt64(r["a"]))
		} else {
			val["a"] = toInt64(r["a"])
		}
	}
	if r["p"] != nil {
		if w.rnd.Bool() {
			val["p"] = int32(toInt64(r["p"]))
		} else {
			val["p"] = toInt64(r["p"])
		}
	}
	if w.rnd.Chance(0.3) {
		val["id"] = int32(id)
	}
	if w.rnd.Chance(0.3) {
		val["s"] = []byte(fmt.Sprint(r["s"]))
	}
	if w.rnd.Chance(0.3) {
		val["b"] = int8(toInt64(r["b"]))
	}
	if bad == 2 {
		val["id"] = "not-a-number"
	}
	// values in the table's current column order (called under the fake database's lock)
	var row []interface{}
	for _, cn := range w.fdb.tables[table].Cols {
		row = append(row, val[cn])
	}
	if bad == 1 {
		row = append(row, int64(0)) // a column more than information_schema reports
	}
	return row
}

// reorder: the table's columns change their order (ALTER TABLE .. MODIFY COLUMN .. AFTER ..): done while no event
// written under the old order is still on its way (a column map fetched too late is livesql's documented
// limitation), and announced in the change log by a table map event with a new table id.
func (w *c07World) reorder(ch chan *replication.BinlogEvent, table string, seed int) bool {
	for try := 0; try < 50; try++ {
		w.push(ch, 1<<30)
		w.fdb.mu.Lock()
		w.mu.Lock()
		idle := len(w.pending) == 0 && w.delivers >= w.expected && w.polled == w.pushed && len(w.stmt) == 0
		if idle {
			t := w.fdb.tables[table]
			cols := append([]string{}, t.Cols...)
			pr := NewRand(uint64(seed) + 77)
			for i := len(cols) - 1; i > 0; i-- {
				j := pr.Intn(i + 1)
				cols[i], cols[j] = cols[j], cols[i]
			}
			t.Cols = cols
			w.tableID++
			w.tver[table]++
			ev := &replication.BinlogEvent{Header: &replication.EventHeader{EventType: replication.TABLE_MAP_EVENT},
				Event: &replication.TableMapEvent{Schema: []byte("db"), Table: []byte(table), TableID: uint64(100 + w.tableID)}}
			w.evVer[ev] = w.tver[table]
			w.pending = append(w.pending, c07Pending{ev, false})
			w.seq++
		}
		w.mu.Unlock()
		w.fdb.mu.Unlock()
		if idle {
			return true
		}
		time.Sleep(2 * time.Millisecond)
	}
	return false
}

// endStatement turns the row changes of the finished write statement into events of the change log
// (one per run of changes of the same kind, as MySQL writes them) and the model's write labels.
// Called under the fake database's lock.
func (w *c07World) endStatement() {
	w.mu.Lock()
	defer w.mu.Unlock()
	changes := w.stmt
	w.stmt = nil
	bad := w.nextBad
	w.nextBad = 0
	deleted := 0
	kindOf := func(c c07Change) string {
		switch {
		case c.before == nil:
			return "ins"
		case c.after == nil:
			return "del"
		}
		return "upd"
	}
	for i := 0; i < len(changes); {
		j := i
		for j < len(changes) && kindOf(changes[j]) == kindOf(changes[i]) && changes[j].table == changes[i].table {
			j++
		}
		group := changes[i:j]
		kind := kindOf(group[0])
		t := 0
		for k, n := range c07Tables {
			if n == group[0].table {
				t = k
			}
		}
		lab := c07Label{L: "write", T: t, Bad: bad != 0}
		ev := &replication.BinlogEvent{Header: &replication.EventHeader{}, Event: nil}
		re := &replication.RowsEvent{Version: 2, Table: &replication.TableMapEvent{Schema: []byte("db"), Table: []byte(group[0].table)}}
		rowBad := bad
		if bad == 3 && kind != "upd" {
			rowBad = 1
		}
		for _, c := range group {
			switch kind {
			case "ins":
				lab.Cs = append(lab.Cs, map[string]interface{}{"c": "ins", "r": c07ModelRow(c.after)})
				lab.images = append(lab.images, [2]interface{}{nil, c07ModelRow(c.after)})
				re.Rows = append(re.Rows, w.binlogRow(group[0].table, c.after, rowBad))
			case "del":
				lab.Cs = append(lab.Cs, map[string]interface{}{"c": "del", "i": c.idx - deleted})
				deleted++
				lab.images = append(lab.images, [2]interface{}{c07ModelRow(c.before), nil})
				re.Rows = append(re.Rows, w.binlogRow(group[0].table, c.before, rowBad))
			case "upd":
				lab.Cs = append(lab.Cs, map[string]interface{}{"c": "upd", "i": c.idx, "r": c07ModelRow(c.after)})
				lab.images = append(lab.images, [2]interface{}{c07ModelRow(c.before), c07ModelRow(c.after)})
				re.Rows = append(re.Rows, w.binlogRow(group[0].table, c.before, rowBad), w.binlogRow(group[0].table, c.after, rowBad))
			}
		}
		switch kind {
		case "ins":
			ev.Header.EventType = []replication.EventType{replication.WRITE_ROWS_EVENTv1, replication.WRITE_ROWS_EVENTv2}[w.rnd.Intn(2)]
		case "del":
			ev.Header.EventType = []replication.EventType{replication.DELETE_ROWS_EVENTv1, replication.DELETE_ROWS_EVENTv2}[w.rnd.Intn(2)]
		case "upd":
			ev.Header.EventType = []replication.EventType{replication.UPDATE_ROWS_EVENTv1, replication.UPDATE_ROWS_EVENTv2}[w.rnd.Intn(2)]
			if bad == 3 {
				re.Rows = re.Rows[:len(re.Rows)-1]
			}
		}
		ev.Event = re
		w.evVer[ev] = w.tver[group[0].table]
		w.labels = append(w.labels, lab)
		w.seq++
		w.pending = append(w.pending, c07Pending{ev, true})
		w.expected++
		i = j
	}
}

func (w *c07World) noise(kind int) {
	w.mu.Lock()
	defer w.mu.Unlock()
	row := []interface{}{int64(1), int64(1), int32(1), "s1"}
	switch kind {
	case 0: // another schema
		w.pending = append(w.pending, c07Pending{&replication.BinlogEvent{Header: &replication.EventHeader{EventType: replication.WRITE_ROWS_EVENTv2},
			Event: &replication.RowsEvent{Table: &replication.TableMapEvent{Schema: []byte("elsewhere"), Table: []byte("rows")}, Rows: [][]interface{}{row}}}, false})
	case 1: // a table sqlgen does not know
		w.pending = append(w.pending, c07Pending{&replication.BinlogEvent{Header: &replication.EventHeader{EventType: replication.WRITE_ROWS_EVENTv2},
			Event: &replication.RowsEvent{Table: &replication.TableMapEvent{Schema: []byte("db"), Table: []byte("unknown_table")}, Rows: [][]interface{}{row}}}, false})
	case 2: // a table map event (MySQL writes one before every rows event): a new id makes the poll loop fetch column information again
		t := c07Tables[w.rnd.Intn(2)]
		ev := &replication.BinlogEvent{Header: &replication.EventHeader{EventType: replication.TABLE_MAP_EVENT},
			Event: &replication.TableMapEvent{Schema: []byte("db"), Table: []byte(t), TableID: uint64(w.rnd.Intn(5))}}
		w.evVer[ev] = w.tver[t]
		w.pending = append(w.pending, c07Pending{ev, false})
	case 3: // some other event
		w.pending = append(w.pending, c07Pending{&replication.BinlogEvent{Header: &replication.EventHeader{EventType: replication.XID_EVENT}, Event: &replication.XIDEvent{}}, false})
	}
}

func (w *c07World) push(ch chan *replication.BinlogEvent, n int) {
	w.pushMu.Lock() // the change log is one sequence: events enter the stream in commit order
	defer w.pushMu.Unlock()
	w.mu.Lock()
	if n > len(w.pending) {
		n = len(w.pending)
	}
	out := w.pending[:n]
	w.pending = w.pending[n:]
	w.pushed += n
	w.mu.Unlock()
	for _, p := range out {
		ch <- p.ev
	}
}

func c07Row(r []int64) *c10Row {
	row := &c10Row{Id: r[0], B: r[2], S: fmt.Sprintf("s%d", r[3]), P: c07P(r),
		T: c10SpaceStrs[int(c07At(r, 5))%len(c10SpaceStrs)], U: c10SpaceStrs[int(c07At(r, 6))%len(c10SpaceStrs)], Y: c07Blob(c07At(r, 7))}
	if r[1] >= 0 {
		a := r[1]
		row.A = &a
	}
	return row
}

func c07RowBOf(r []int64) *c07RowB {
	x := c07Row(r)
	return &c07RowB{Id: x.Id, A: x.A, B: x.B, S: x.S, P: x.P, T: x.T, U: x.U, Y: x.Y}
}

func c07FullRow(id int64, a *int64, b int64, s string, p int64, t, u string, y []byte) string {
	as := "NULL"
	if a != nil {
		as = fmt.Sprint(*a)
	}
	return fmt.Sprintf("%d|%s|%d|%s|%d|%s|%s|%d", id, as, b, s, p, t, u, len(y))
}

// c07RowView: what a QueryRow caller holds: the row, nothing (sql.ErrNoRows), or the refusal of several rows
func c07RowView(ids []int64, full []string) ([]int64, []string) {
	if len(ids) > 1 {
		return []int64{-1}, []string{"<more than one row>"}
	}
	return ids, full
}

// c07Direct evaluates a filter on the fake table as it is now (the database's answer), through a plain,
// non-live query on a goroutine the log ignores.
func (w *c07World) direct(db *sqlgen.DB, q c07Query) ([]int64, []string, error) {
	w.mu.Lock()
	w.foreign[goid()] = true
	w.mu.Unlock()
	var ids []int64
	var full []string
	if q.Table == 0 {
		var out []*c10Row
		if err := db.Query(context.Background(), &out, c10Filter(q.Filter), nil); err != nil {
			return nil, nil, err
		}
		for _, r := range out {
			ids = append(ids, r.Id)
			full = append(full, c07FullRow(r.Id, r.A, r.B, r.S, r.P, r.T, r.U, r.Y))
		}
	} else {
		var out []*c07RowB
		if err := db.Query(context.Background(), &out, c10Filter(q.Filter), nil); err != nil {
			return nil, nil, err
		}
		for _, r := range out {
			ids = append(ids, r.Id)
			full = append(full, c07FullRow(r.Id, r.A, r.B, r.S, r.P, r.T, r.U, r.Y))
		}
	}
	return ids, full, nil
}

func c07One(c *Ctx, m *Model, cs c07Case) {
	rep := c.Rep
	w := &c07World{rnd: NewRand(cs.Seed), cur: map[int64]int{}, resOf: map[interface{}]int{}, curRes: map[int]interface{}{},
		held: map[int][]int64{}, heldFull: map[int][]string{}, foreign: map[int64]bool{},
		tver: map[string]int{}, evVer: map[*replication.BinlogEvent]int{}, colLog: map[string][]map[string]interface{}{}}
	for _, t := range c07Tables {
		w.tver[t] = 0
	}
	fdb, conn := newFakeDB()
	fdb.declaredUpper = cs.Seed%2 == 1 // finding C07-5: column names are not case sensitive in MySQL
	w.fdb = fdb
	tablesEnc := []interface{}{}
	for t, name := range c07Tables {
		fdb.createTable(name, append([]string{}, c07Cols...), []string{"id"})
		rows := []interface{}{}
		if t < len(cs.Init) {
			for _, r := range cs.Init[t] {
				row := map[string]driverValue{"id": r[0], "a": driverNull(r[1], r[1] < 0), "b": r[2], "s": fmt.Sprintf("s%d", r[3]), "p": driverNull(c07P(r), c07P(r) == 0),
					"t": c10SpaceStrs[int(c07At(r, 5))%len(c10SpaceStrs)], "u": c10SpaceStrs[int(c07At(r, 6))%len(c10SpaceStrs)], "y": c07Blob(c07At(r, 7))}
				fdb.tables[name].Rows = append(fdb.tables[name].Rows, row)
				rows = append(rows, c07ModelRow(row))
			}
		}
		tablesEnc = append(tablesEnc, rows)
	}
	schema := sqlgen.NewSchema()
	schema.MustRegisterType("rows", sqlgen.UniqueId, c10Row{})
	schema.MustRegisterType("rowsb", sqlgen.UniqueId, c07RowB{})
	db := sqlgen.NewDB(conn, schema)
	ldb := livesql.NewLiveDB(db)
	streamer, ch, ech := c07NewStreamer()
	bl := livesql.NewBinlogForVerif(ldb, "db", streamer)

	fdb.onWrite = func(table string, idx int, before, after map[string]driver.Value) {
		w.mu.Lock()
		w.stmt = append(w.stmt, c07Change{table, idx, before, after})
		w.mu.Unlock()
	}
	fdb.onExecEnd = w.endStatement
	fdb.onLog = func(st fsStmt) {
		if strings.Contains(st.SQL, "information_schema") && len(st.Args) == 2 {
			// the poll loop fetches the column information of a table
			w.mu.Lock()
			t := fmt.Sprint(st.Args[1])
			w.colLog[t] = append(w.colLog[t], map[string]interface{}{"k": "fetch"})
			w.mu.Unlock()
			return
		}
		if !strings.HasPrefix(st.SQL, "SELECT") || strings.Contains(st.SQL, "information_schema") {
			return
		}
		w.mu.Lock()
		defer w.mu.Unlock()
		g := goid()
		if w.foreign[g] {
			return
		}
		q, ok := w.cur[g]
		if !ok {
			w.errs = append(w.errs, "a SELECT on a goroutine the harness cannot attribute to a live query: "+st.SQL)
			return
		}
		w.labels = append(w.labels, c07Label{L: "read", Q: q})
		w.seq++
	}
	livesql.VerifHook = func(kind string, table string, a, b interface{}) {
		w.mu.Lock()
		defer w.mu.Unlock()
		w.seq++
		switch kind {
		case "register":
			q, ok := w.cur[goid()]
			if !ok {
				w.errs = append(w.errs, "a registration on a goroutine the harness cannot attribute to a live query")
				return
			}
			w.resOf[a] = q
			w.curRes[q] = a
			w.labels = append(w.labels, c07Label{L: "register", Q: q})
		case "deliver":
			w.delivers++
			w.labels = append(w.labels, c07Label{L: "deliver", table: table, nDeltas: a.(int), hadErr: b.(bool)})
		case "invalidate":
			q, ok := w.resOf[a]
			if ok && w.curRes[q] == a && len(w.labels) > 0 {
				l := &w.labels[len(w.labels)-1]
				for i := len(w.labels) - 1; i >= 0; i-- {
					if w.labels[i].L == "deliver" {
						l = &w.labels[i]
						break
					}
				}
				l.invalidated = append(l.invalidated, q)
			}
		case "poll":
			w.polled++
			if ev, ok := a.(*replication.BinlogEvent); ok {
				w.colPoll(ev)
			}
		}
	}
	defer func() { livesql.VerifHook = nil }()
	oldDelay := reactive.WriteThenReadDelay
	reactive.WriteThenReadDelay = 0
	defer func() { reactive.WriteThenReadDelay = oldDelay }()

	pollDone := make(chan error, 1)
	go func() { pollDone <- bl.RunPollLoop() }()

	// the history
	wctx := context.Background()
	doOp := func(op c07Op) {
		var err error
		tbl := op.Table
		do := func(a func(*c10Row) error, b func(*c07RowB) error, r []int64) error {
			if tbl == 0 {
				return a(c07Row(r))
			}
			return b(c07RowBOf(r))
		}
		w.mu.Lock()
		w.nextBad = op.Bad
		w.mu.Unlock()
		switch op.Op {
		case "insert":
			err = do(func(r *c10Row) error { _, e := db.InsertRow(wctx, r); return e }, func(r *c07RowB) error { _, e := db.InsertRow(wctx, r); return e }, op.Rows[0])
		case "upsert":
			err = do(func(r *c10Row) error { _, e := db.UpsertRow(wctx, r); return e }, func(r *c07RowB) error { _, e := db.UpsertRow(wctx, r); return e }, op.Rows[0])
		case "update":
			err = do(func(r *c10Row) error { return db.UpdateRow(wctx, r) }, func(r *c07RowB) error { return db.UpdateRow(wctx, r) }, op.Rows[0])
		case "delete":
			err = do(func(r *c10Row) error { return db.DeleteRow(wctx, r) }, func(r *c07RowB) error { return db.DeleteRow(wctx, r) }, op.Rows[0])
		case "insertRows", "upsertRows":
			if tbl == 0 {
				var rows []*c10Row
				for _, r := range op.Rows {
					rows = append(rows, c07Row(r))
				}
				if op.Op == "insertRows" {
					err = db.InsertRows(wctx, rows, 10)
				} else {
					err = db.UpsertRows(wctx, rows, 10)
				}
			} else {
				var rows []*c07RowB
				for _, r := range op.Rows {
					rows = append(rows, c07RowBOf(r))
				}
				if op.Op == "insertRows" {
					err = db.InsertRows(wctx, rows, 10)
				} else {
					err = db.UpsertRows(wctx, rows, 10)
				}
			}
		case "updateWhere": // one statement changing several rows: one event with several before/after pairs
			_, err = conn.ExecContext(wctx, "UPDATE "+c07Tables[tbl]+" SET b = ? WHERE b = ?", op.Rows[0][2], op.Rows[0][3])
		case "deleteWhere":
			_, err = conn.ExecContext(wctx, "DELETE FROM "+c07Tables[tbl]+" WHERE b = ?", op.Rows[0][2])
		case "deliver":
			w.push(ch, op.N)
		case "reorder":
			if !w.reorder(ch, c07Tables[tbl], op.N) {
				w.mu.Lock()
				w.errs = append(w.errs, "reorder: the change log never became idle")
				w.mu.Unlock()
			}
		case "noise":
			w.noise(op.N)
		case "pause":
			time.Sleep(time.Duration(op.N) * time.Microsecond)
		}
		_ = err // a duplicate key or a missing row: the fake database refused, nothing was written
	}
	// writes squeezed in right after a live query's read: committed, handed to the poll loop and processed by the
	// tracker before the read returns to the live query
	var midMu sync.Mutex
	mid := append([]c07Op{}, cs.Mid...)
	fdb.afterSelect = func(q string) {
		if strings.Contains(q, "information_schema") {
			return
		}
		w.mu.Lock()
		_, live := w.cur[goid()]
		if w.foreign[goid()] {
			live = false
		}
		w.mu.Unlock()
		if !live {
			return
		}
		midMu.Lock()
		if len(mid) == 0 {
			midMu.Unlock()
			return
		}
		op := mid[0]
		mid = mid[1:]
		midMu.Unlock()
		doOp(op)
		w.push(ch, 1<<30)
		deadline := newPatience(2 * time.Second)
		for !deadline.expired() {
			w.mu.Lock()
			done := w.delivers >= w.expected && w.polled == w.pushed
			w.mu.Unlock()
			if done {
				break
			}
			time.Sleep(200 * time.Microsecond)
		}
	}
	// the live queries, grouped into rerunners
	groups := map[int][]int{}
	var order []int
	for i, q := range cs.Queries {
		if _, ok := groups[q.Group]; !ok {
			order = append(order, q.Group)
		}
		groups[q.Group] = append(groups[q.Group], i)
	}
	// LiveDB.Query caches by statement and arguments within a rerunner: members of a group with the same table and
	// the same filter (whatever Go types carry the values) are one computation, hence one live query of the model
	alias := make([]int, len(cs.Queries)) // query -> the query whose computation it shares
	midx := make([]int, len(cs.Queries))  // query -> index in the model (of its alias)
	var modelQs []int
	keyOf := func(q c07Query) string {
		var parts []string
		for _, kv := range q.Filter {
			parts = append(parts, fmt.Sprintf("%s=%v", kv.Col, fsNorm(derefAny(kv.Val.goValue()))))
		}
		sort.Strings(parts)
		return fmt.Sprint(q.Group, q.Table, parts)
	}
	firstOf := map[string]int{}
	for i, q := range cs.Queries {
		alias[i] = i
		if q.Kind == "query" || q.Kind == "row" {
			if j, ok := firstOf[keyOf(q)]; ok {
				alias[i] = j
			} else {
				firstOf[keyOf(q)] = i
			}
		}
		if alias[i] == i {
			midx[i] = len(modelQs)
			modelQs = append(modelQs, i)
		} else {
			midx[i] = midx[alias[i]]
		}
	}
	ctx, cancel := context.WithCancel(context.Background())
	var rrs []*reactive.Rerunner
	var running int32
	var runMu sync.Mutex
	for _, g := range order {
		members := groups[g]
		rrs = append(rrs, reactive.NewRerunner(ctx, func(ctx context.Context) (interface{}, error) {
			runMu.Lock()
			running++
			runMu.Unlock()
			defer func() { runMu.Lock(); running--; runMu.Unlock() }()
			for _, qi := range members {
				q := cs.Queries[qi]
				w.mu.Lock()
				w.cur[goid()] = midx[qi]
				w.seq++
				w.mu.Unlock()
				var ids []int64
				var full []string
				var err error
				read := func(query func(result interface{}) error) {
					if q.Table == 0 {
						var out []*c10Row
						err = query(&out)
						for _, r := range out {
							ids = append(ids, r.Id)
							full = append(full, c07FullRow(r.Id, r.A, r.B, r.S, r.P, r.T, r.U, r.Y))
						}
					} else {
						var out []*c07RowB
						err = query(&out)
						for _, r := range out {
							ids = append(ids, r.Id)
							full = append(full, c07FullRow(r.Id, r.A, r.B, r.S, r.P, r.T, r.U, r.Y))
						}
					}
				}
				if q.Kind == "dep" {
					if derr := ldb.AddDependency(ctx, livesql.QueryDependency{Table: c07Tables[q.Table], Filter: c10Filter(q.Filter)}); derr != nil {
						err = derr
					} else {
						read(func(result interface{}) error { return ldb.DB.Query(ctx, result, c10Filter(q.Filter), nil) })
					}
				} else if q.Kind == "row" {
					// QueryRow: "no row" and "several rows" are answers the caller handles and carries on with
					var full1 []string
					if q.Table == 0 {
						var one *c10Row
						if err = ldb.QueryRow(ctx, &one, c10Filter(q.Filter), nil); err == nil {
							ids, full1 = []int64{one.Id}, []string{c07FullRow(one.Id, one.A, one.B, one.S, one.P, one.T, one.U, one.Y)}
						}
					} else {
						var one *c07RowB
						if err = ldb.QueryRow(ctx, &one, c10Filter(q.Filter), nil); err == nil {
							ids, full1 = []int64{one.Id}, []string{c07FullRow(one.Id, one.A, one.B, one.S, one.P, one.T, one.U, one.Y)}
						}
					}
					full = full1
					if err == sql.ErrNoRows {
						err = nil
					} else if err != nil && strings.Contains(err.Error(), "expected no more than 1 result") {
						err = nil
						ids, full = c07RowView([]int64{0, 0}, nil)
					}
				} else {
					read(func(result interface{}) error { return ldb.Query(ctx, result, c10Filter(q.Filter), nil) })
				}
				w.mu.Lock()
				if err != nil {
					w.errs = append(w.errs, fmt.Sprintf("live query %d failed: %v", qi, err))
				} else {
					w.held[qi] = ids
					w.heldFull[qi] = full
				}
				w.seq++
				w.mu.Unlock()
				if err != nil {
					return nil, err
				}
			}
			return nil, nil
		}, 0, false))
	}

	mainRnd := NewRand(cs.Seed ^ 0x9e3779b97f4a7c15)
	for _, op := range cs.Ops {
		doOp(op)
		if mainRnd.Chance(0.5) {
			runtime.Gosched()
		}
	}
	// writes have stopped: hand over the rest of the change log and wait until nothing happens any more
	w.push(ch, 1<<30)
	settled := false
	deadline := newPatience(8 * time.Second)
	for !deadline.expired() {
		w.mu.Lock()
		before := w.seq
		donePoll := w.polled == w.pushed
		w.mu.Unlock()
		time.Sleep(15 * time.Millisecond)
		w.mu.Lock()
		same := w.seq == before
		w.mu.Unlock()
		runMu.Lock()
		idle := running == 0
		runMu.Unlock()
		if same && donePoll && idle {
			settled = true
			break
		}
	}
	// the database's own answers now
	type answer struct {
		ids  []int64
		full []string
	}
	want := map[int]answer{}
	for i, q := range cs.Queries {
		ids, full, err := w.direct(db, q)
		if err != nil {
			rep.Fail("harness_error", nil, cs, map[string]interface{}{"error": err.Error()})
			cancel()
			ech <- errors.New("done")
			return
		}
		if q.Kind == "row" {
			ids, full = c07RowView(ids, full)
		}
		want[i] = answer{ids, full}
	}
	for _, rr := range rrs {
		rr.Stop()
	}
	cancel()
	ech <- errors.New("harness: end of the change log")
	select {
	case <-pollDone:
	case <-patient(3 * time.Second):
		rep.Fail("impl_ne_spec", nil, cs, map[string]interface{}{"what": "RunPollLoop did not end after the stream reported an error"})
		return
	}
	w.mu.Lock()
	defer w.mu.Unlock()
	if len(w.errs) > 0 {
		rep.Fail("harness_error", nil, cs, map[string]interface{}{"errors": w.errs})
		return
	}
	if !settled {
		rep.Fail("impl_ne_spec", nil, cs, map[string]interface{}{"what": "the live queries did not settle within 8 s after the last write", "polled": w.polled, "pushed": w.pushed})
		return
	}
	// the property, on the implementation: every live query holds what the database returns now
	for i, q := range cs.Queries {
		if fmt.Sprint(w.heldFull[i]) != fmt.Sprint(want[i].full) {
			rep.Fail("impl_ne_spec", nil, cs, map[string]interface{}{"what": "after writes stopped and the change log was processed, a live query does not hold the rows the database returns for its filter",
				"query": i, "filter": q.Filter, "table": c07Tables[q.Table], "held": w.heldFull[i], "database": want[i].full, "delivered": w.delivers, "expected_deliveries": w.expected})
			return
		}
	}
	// every event of a known table reaches the tracker, decodable or not
	if w.delivers != w.expected {
		rep.Fail("impl_ne_spec", nil, cs, map[string]interface{}{"what": "a change event of a tracked table did not reach the tracker (dropped)", "delivered": w.delivers, "expected": w.expected})
		return
	}
	// the poll loop's column-map cache, per table: the model says for which rows events column information is
	// fetched (the first one, and the first one after a table map event with a new id) and that under the change
	// log's discipline every event is decoded with the map of its own version
	for _, t := range c07Tables {
		var evs []interface{}
		var want []string
		for _, e := range w.colLog[t] {
			if e["k"] != "fetch" {
				evs = append(evs, e)
			}
		}
		if len(evs) == 0 {
			continue
		}
		cresp, err := m.Call(map[string]interface{}{"op": "colmap", "v0": 0, "events": evs})
		if err != nil {
			rep.Fail("harness_error", nil, cs, map[string]interface{}{"error": err.Error()})
			return
		}
		if !cresp["wf"].(bool) {
			rep.Fail("harness_error", nil, cs, map[string]interface{}{"error": "the harness's change log breaks the discipline the column-map theorem assumes", "table": t, "log": w.colLog[t]})
			return
		}
		if !cresp["right"].(bool) {
			rep.Fail("model_ne_spec", nil, cs, map[string]interface{}{"what": "model: a rows event decoded with the map of another version under the discipline (theorem schema_change_decodes_right)", "table": t})
			return
		}
		outs := cresp["outs"].([]interface{})
		for i, e := range evs {
			want = append(want, fmt.Sprint(e.(map[string]interface{})["k"]))
			if om, ok := outs[i].(map[string]interface{}); ok && om["fetched"].(bool) {
				want = append(want, "fetch")
			}
		}
		var got []string
		for _, e := range w.colLog[t] {
			got = append(got, fmt.Sprint(e["k"]))
		}
		if fmt.Sprint(got) != fmt.Sprint(want) {
			rep.Fail("impl_ne_model", nil, cs, map[string]interface{}{"what": "the poll loop's fetches of column information differ from the model's (a kept column map not dropped on a new table id, or dropped needlessly)", "table": t, "impl": got, "model": want, "log": w.colLog[t]})
			return
		}
		rep.Count(fmt.Sprintf("column_map_fetches=%d", len(got)-len(evs)))
	}
	// the log, replayed in the model
	labels := []interface{}{}
	for _, l := range w.labels {
		labels = append(labels, l.enc())
	}
	queries := []interface{}{}
	for _, qi := range modelQs {
		q := cs.Queries[qi]
		queries = append(queries, map[string]interface{}{"t": q.Table, "f": c07EncFilter(q.Filter)})
	}
	resp, err := m.Call(map[string]interface{}{"op": "run", "tables": tablesEnc, "queries": queries, "labels": labels})
	if err != nil {
		rep.Fail("harness_error", nil, cs, map[string]interface{}{"error": err.Error()})
		return
	}
	trace := func() []interface{} {
		out := []interface{}{}
		for _, l := range w.labels {
			e := l.enc()
			if l.L == "deliver" {
				e["impl_invalidated"] = l.invalidated
				e["impl_error"] = l.hadErr
			}
			out = append(out, e)
		}
		return out
	}
	if rj := resp["rejected"]; rj != nil {
		i := int(toInt64(rj))
		rep.Fail("impl_ne_model", nil, cs, map[string]interface{}{"what": "the implementation's history is not a history of the model (a read without a registration, a delivery with nothing pending)", "step": i, "label": w.labels[i].enc(), "trace": trace()})
		return
	}
	steps := resp["steps"].([]interface{})
	for i, l := range w.labels {
		switch l.L {
		case "write":
			got := []interface{}{}
			if sm, ok := steps[i].(map[string]interface{}); ok {
				for _, d := range sm["deltas"].([]interface{}) {
					dm := d.(map[string]interface{})
					got = append(got, []interface{}{dm["before"], dm["after"]})
				}
			}
			wantImg := []interface{}{}
			for _, im := range l.images {
				wantImg = append(wantImg, []interface{}{im[0], im[1]})
			}
			if Canon(got) != Canon(wantImg) {
				rep.Fail("impl_ne_model", nil, cs, map[string]interface{}{"what": "the model's event for a write differs from the event the fake database emitted", "step": i, "model": got, "fake": wantImg})
				return
			}
		case "deliver":
			sm, _ := steps[i].(map[string]interface{})
			var mi []int
			if sm != nil {
				for _, x := range sm["invalidated"].([]interface{}) {
					mi = append(mi, int(toInt64(x)))
				}
			}
			ii := append([]int{}, l.invalidated...)
			sort.Ints(ii)
			sort.Ints(mi)
			if fmt.Sprint(ii) != fmt.Sprint(mi) {
				rep.Fail("impl_ne_model", nil, cs, map[string]interface{}{"what": "the live queries invalidated by a delivery differ from the model's", "step": i, "impl": ii, "model": mi, "decode_error": l.hadErr, "trace": trace()})
				return
			}
		}
	}
	if !resp["quiescent"].(bool) {
		rep.Fail("impl_ne_model", nil, cs, map[string]interface{}{"what": "the implementation settled but the model's state is not quiescent", "model": resp["queries"], "queue": resp["queue"], "trace": trace()})
		return
	}
	if !resp["fresh"].(bool) {
		rep.Fail("model_ne_spec", nil, cs, map[string]interface{}{"what": "model: quiescent but not fresh (theorem quiescent_rows_fresh)"})
		return
	}
	for i := range cs.Queries {
		mq := resp["queries"].([]interface{})[midx[i]].(map[string]interface{})
		var mids []int64
		if mq["rows"] != nil {
			mids = c10ModelIds(mq["rows"])
		}
		if cs.Queries[i].Kind == "row" {
			mids, _ = c07RowView(mids, nil)
		}
		if fmt.Sprint(mids) != fmt.Sprint(append([]int64{}, w.held[i]...)) {
			rep.Fail("impl_ne_model", nil, cs, map[string]interface{}{"what": "rows held by a live query differ from the model's", "query": i, "impl": w.held[i], "model": mids})
			return
		}
	}
	nBad, nDel := 0, 0
	for _, l := range w.labels {
		if l.L == "write" && l.Bad {
			nBad++
		}
		if l.L == "deliver" {
			nDel++
		}
	}
	if nBad > 3 {
		nBad = 3
	}
	rep.Count(fmt.Sprintf("undecodable_events=%d", nBad))
	rep.Count(fmt.Sprintf("labels~%d", len(w.labels)/20*20))
	rep.Eval(Canon(cs), nDel > 0, map[string]interface{}{"queries": len(cs.Queries), "labels": len(w.labels), "deliveries": nDel, "undecodable": nBad})
}

func derefAny(v interface{}) interface{} {
	rv := reflect.ValueOf(v)
	if rv.Kind() == reflect.Ptr {
		if rv.IsNil() {
			return nil
		}
		return rv.Elem().Interface()
	}
	return v
}

func c07GenRow(r *Rand) []int64 {
	return []int64{int64(1 + r.Intn(8)), int64(r.Intn(4)) - 1, int64(r.Intn(3)), int64(r.Intn(3)), []int64{0, 0, 1, 2}[r.Intn(4)],
		int64(r.Intn(2)), int64(2 + r.Intn(2)), int64(r.Intn(2))}
}

// c07GenFilter: C10's filters on the plain columns, and filters on the implicitnull column carried in the driver's
// own types (int64) and others: 0 selects the NULLs
func c07GenFilter(r *Rand) []c10KV {
	if r.Chance(0.65) {
		return c10GenFilter(r)
	}
	if r.Chance(0.3) {
		// two string columns with blanks: ("a b","c") and ("a","b c") are different argument lists that print alike
		return []c10KV{{"t", c10Val{"sp", int64(r.Intn(2))}}, {"u", c10Val{"sp", int64(2 + r.Intn(2))}}}
	}
	if r.Chance(0.25) {
		// a blob column: the empty blob is a value, not NULL
		return []c10KV{{"y", c10Val{"bytes", int64(r.Intn(2))}}}
	}
	pv := c10Val{[]string{"int64", "int64", "int", "named"}[r.Intn(4)], []int64{0, 0, 1, 2}[r.Intn(4)]}
	if r.Chance(0.3) {
		return []c10KV{{"p", pv}, {"b", c10Val{"int64", int64(r.Intn(3))}}}
	}
	return []c10KV{{"p", pv}}
}

func c07Gen(r *Rand) c07Case {
	cs := c07Case{Seed: r.U64()}
	for t := 0; t < 2; t++ {
		var rows [][]int64
		for id := int64(1); id <= 8; id++ {
			if r.Chance(0.4) {
				row := c07GenRow(r)
				row[0] = id
				rows = append(rows, row)
			}
		}
		cs.Init = append(cs.Init, rows)
	}
	nq := 1 + r.Intn(4)
	for i := 0; i < nq; i++ {
		q := c07Query{Table: 0, Filter: c07GenFilter(r), Kind: "query", Group: i}
		if r.Chance(0.25) {
			q.Table = 1
		}
		if r.Chance(0.2) {
			q.Kind = "dep"
		} else if r.Chance(0.25) {
			q.Kind = "row"
		}
		if i > 0 && r.Chance(0.3) {
			q.Group = cs.Queries[i-1].Group // shares a rerunner with its predecessor: cache hits
			if prev := cs.Queries[i-1]; len(prev.Filter) == 2 && prev.Filter[0].Col == "t" && prev.Filter[1].Col == "u" && r.Chance(0.7) {
				// the look-alike of its predecessor's argument list, on the same table
				q.Table, q.Kind = prev.Table, prev.Kind
				q.Filter = []c10KV{{"t", c10Val{"sp", 1 - prev.Filter[0].Val.V}}, {"u", c10Val{"sp", 5 - prev.Filter[1].Val.V}}}
			}
		}
		cs.Queries = append(cs.Queries, q)
	}
	n := 4 + r.Intn(20)
	for i := 0; i < n; i++ {
		op := c07Op{Table: 0}
		if r.Chance(0.25) {
			op.Table = 1
		}
		switch r.Intn(13) {
		case 12:
			op.Op, op.N = "reorder", r.Intn(1000)
		case 0, 1:
			op.Op, op.Rows = "insert", [][]int64{c07GenRow(r)}
		case 2:
			op.Op, op.Rows = "upsert", [][]int64{c07GenRow(r)}
		case 3, 4:
			op.Op, op.Rows = "update", [][]int64{c07GenRow(r)}
		case 5:
			op.Op, op.Rows = "delete", [][]int64{c07GenRow(r)}
		case 6:
			op.Op = []string{"insertRows", "upsertRows"}[r.Intn(2)]
			seen := map[int64]bool{}
			for k := 1 + r.Intn(3); k > 0; k-- {
				row := c07GenRow(r)
				if !seen[row[0]] {
					seen[row[0]] = true
					op.Rows = append(op.Rows, row)
				}
			}
		case 7:
			op.Op = []string{"updateWhere", "deleteWhere", "upsertRows"}[r.Intn(3)]
			if op.Op == "upsertRows" {
				seen := map[int64]bool{}
				for k := 2 + r.Intn(4); k > 0; k-- {
					row := c07GenRow(r)
					if !seen[row[0]] {
						seen[row[0]] = true
						op.Rows = append(op.Rows, row)
					}
				}
			} else {
				op.Rows = [][]int64{{0, 0, int64(r.Intn(3)), int64(r.Intn(3))}} // SET b = [2] WHERE b = [3] / DELETE WHERE b = [2]
			}
		case 8, 9:
			op.Op, op.N = "deliver", 1+r.Intn(3)
		case 10:
			op.Op, op.N = "noise", r.Intn(4)
		case 11:
			op.Op, op.N = "pause", r.Intn(600)
		}
		if op.Rows != nil && r.Chance(0.12) {
			op.Bad = 1 + r.Intn(3)
		}
		cs.Ops = append(cs.Ops, op)
	}
	for k := r.Intn(3); k > 0; k-- {
		op := c07Op{Op: []string{"insert", "update", "delete", "upsert"}[r.Intn(4)], Table: 0, Rows: [][]int64{c07GenRow(r)}}
		if r.Chance(0.25) {
			op.Table = 1
		}
		cs.Mid = append(cs.Mid, op)
	}
	return cs
}

func runC07(c *Ctx) error {
	m, err := StartModel("C07")
	if err != nil {
		return err
	}
	defer m.Close()
	if c.Replay == "" {
		kfReproC07(c.Rep)
	}
	c.Rep.Rule = "random histories on a real livesql.LiveDB over the fake SQL driver and a livesql.Binlog fed in-process: 1-4 live queries (LiveDB.Query, LiveDB.QueryRow whose caller carries on after 'no row' / 'several rows', or AddDependency + plain read; two tables; filters over id / a (nullable pointer, nil filters) / b / s / p (an implicitnull column: 0 selects the NULLs, carried as int64, int or a named type) / t,u (strings with blanks: argument lists that print alike, in one rerunner) / y (a blob that may be empty) in several Go representations; alone or sharing a rerunner so that reruns hit the reactive cache) x 4-24 operations (InsertRow, UpsertRow, UpdateRow, DeleteRow, InsertRows, UpsertRows; events handed to the poll loop late, in bursts, between registration and read; events in go-mysql's typed representation with varying integer widths and []byte strings; undecodable events: column count, type mismatch, odd update; noise: other schema, unknown table, table map with a new id, other event types; the columns of a table change their order, announced by a table map event with a new id, later events in the new order); after writes stop, each live query's rows are compared with the database's answer (the property), every tracked event must reach the tracker, and the linearised log (write / register / read / deliver) is replayed in the Lean model: accepted, same events, same invalidated queries per delivery, quiescent, same rows"
	c.Rep.Assumptions = append(c.Rep.Assumptions,
		"the change log carries the before / after images of exactly the rows a statement changed (MySQL row-based replication with full row images; here: the fake database)",
		"go-mysql's wire decoding is not exercised: events enter at replication.BinlogStreamer")
	if c.Replay != "" {
		var f struct {
			Case c07Case `json:"case"`
		}
		b, err := os.ReadFile(c.Replay)
		if err != nil {
			return err
		}
		if err := json.Unmarshal(b, &f); err != nil {
			return err
		}
		c07One(c, m, f.Case)
		fmt.Printf("replay: %d failures\n", len(c.Rep.Failures))
		return nil
	}
	// corpus: the recorded finding (an undecodable event after the live query has read)
	c07One(c, m, c07Case{Seed: 1, Init: [][][]int64{{{1, 1, 0, 0}}, {}}, Queries: []c07Query{{Table: 0, Filter: []c10KV{{"b", c10Val{"int64", 0}}}, Kind: "query", Group: 0}},
		Ops: []c07Op{{Op: "pause", N: 2000}, {Op: "insert", Table: 0, Rows: [][]int64{{2, 1, 0, 0}}, Bad: 1}, {Op: "deliver", N: 1}}})
	r := c.Rng
	n := c.N(250, 12000)
	for i := 0; i < n && !c.Rep.ShouldStop(); i++ {
		cs := c07Gen(r)
		before := len(c.Rep.Failures)
		c07One(c, m, cs)
		if len(c.Rep.Failures) > before && c.Rep.Failures[len(c.Rep.Failures)-1].Kind == "impl_ne_model" {
			// the implementation left the model: look for a history on which the property itself fails - cut the
			// history after each write in turn, so that nothing later repairs a missed invalidation
			for k := len(cs.Ops); k >= 1; k-- {
				if cs.Ops[k-1].Rows == nil {
					continue
				}
				cut := cs
				cut.Ops = append([]c07Op{{Op: "pause", N: 3000}}, cs.Ops[:k]...)
				cut.Mid = nil
				at := len(c.Rep.Failures)
				c07One(c, m, cut)
				if len(c.Rep.Failures) > at && c.Rep.Failures[len(c.Rep.Failures)-1].Kind == "impl_ne_spec" {
					break
				}
			}
		}
	}
	return nil
}
