package main

// Generator shared by the GraphQL execution family (C01, C14, C16, C19): one schema built with
// the real schemabuilder in which every logical field is exposed under several execution modes
// (struct field, FieldFunc, Expensive, BatchFieldFunc, BatchFieldFuncWithFallback,
// NumParallelInvocationsFunc), random data trees, type-directed random queries rendered to
// GraphQL text (so the real parser runs) and, in parallel, to the model's encoding.

import (
	"context"
	"fmt"
	"sort"
	"strconv"
	"strings"
	"sync"

	"github.com/samsarahq/thunder/batch"
	"github.com/samsarahq/thunder/graphql"
	"github.com/samsarahq/thunder/graphql/schemabuilder"
)

// ---- data ---------------------------------------------------------------------------------

type xVal struct {
	Kind string  `json:"k"` // null | sc | list | node | fail
	Sc   int64   `json:"sc,omitempty"`
	List []*xVal `json:"l,omitempty"`
	Node *xNode  `json:"n,omitempty"`
	Code int     `json:"code,omitempty"`
	Safe bool    `json:"safe,omitempty"`
	// NNull: a nil returned by a resolver that is marked NonNullable (thunder turns it into an error)
	NNull bool `json:"nnull,omitempty"`
}

type xNode struct {
	Typ string           `json:"t"` // A | B | Q
	ID  int64            `json:"id"`
	F   map[string]*xVal `json:"f"`
	// one wrapper per node and execution (set by xPrewrap): an object reached on two paths is the same Go value,
	// as it is when resolvers hand out cached pointers
	wa *XA
}

type XA struct {
	N    *xNode `graphql:"-"`
	Z    int64  `graphql:"z"`
	BIn  *XB    `graphql:"bIn"`
	ZsIn []int64
}
type XB struct {
	N *xNode `graphql:"-"`
}
type XU struct {
	schemabuilder.Union
	*XA
	*XB
}
type xQ struct{ N *xNode }

type xFlagKey struct{}

// xErr builds the error of a failing resolver; the Go shape of the error depends on the code so
// that every shape occurs: safe, wrapped-as-safe, plain, %w-wrapping of a safe error, panic.
// application error types that declare themselves safe for clients through the exported interface
type xAppErr struct{ code int }

func (e xAppErr) Error() string          { return fmt.Sprintf("S%d", e.code) }
func (e xAppErr) SanitizedError() string { return fmt.Sprintf("S%d", e.code) }

type xAppErrP struct{ code int }

func (e *xAppErrP) Error() string          { return fmt.Sprintf("S%d", e.code) }
func (e *xAppErrP) SanitizedError() string { return fmt.Sprintf("S%d", e.code) }

func xErr(v *xVal) error {
	if v.Safe {
		switch v.Code % 4 {
		case 0:
			return graphql.NewSafeError("S%d", v.Code)
		case 2:
			if v.Code%8 == 2 {
				return xAppErr{v.Code}
			}
			return &xAppErrP{v.Code}
		}
		return graphql.WrapAsSafeError(fmt.Errorf("inner-secret-%d", v.Code), "S%d", v.Code)
	}
	switch v.Code % 3 {
	case 0:
		return fmt.Errorf("E%d", v.Code)
	case 1:
		return fmt.Errorf("E%d (%w)", v.Code, graphql.NewSafeError("hidden-safe-text"))
	default:
		panic(fmt.Sprintf("E%d", v.Code))
	}
}

// xGoErrEnc is the model's GoErr for the same error.
func xGoErrEnc(code int, safe bool) interface{} {
	if safe {
		if code%2 == 0 {
			return map[string]interface{}{"k": "safe", "t": code}
		}
		return map[string]interface{}{"k": "wrapSafe", "t": code, "inner": map[string]interface{}{"k": "plain", "t": 1000000 + code}}
	}
	switch code % 3 {
	case 0:
		return map[string]interface{}{"k": "plain", "t": code}
	case 1:
		return map[string]interface{}{"k": "wrapf", "t": code, "inner": map[string]interface{}{"k": "safe", "t": 2000000}}
	default:
		return map[string]interface{}{"k": "panic", "t": code}
	}
}

// xPrewrap gives every A node of the tree its wrapper (before execution starts: no races later).
func xPrewrap(n *xNode, seen map[*xNode]bool) {
	if n == nil || seen[n] {
		return
	}
	seen[n] = true
	var walk func(v *xVal)
	walk = func(v *xVal) {
		if v == nil {
			return
		}
		if v.Node != nil {
			xPrewrap(v.Node, seen)
		}
		for _, e := range v.List {
			walk(e)
		}
	}
	for _, v := range n.F {
		walk(v)
	}
	if n.Typ == "A" {
		n.wa = nil
		n.wa = wrapA(n)
	}
}

func wrapA(n *xNode) *XA {
	if n == nil {
		return nil
	}
	if n.wa != nil {
		return n.wa
	}
	a := &XA{N: n}
	if v := n.F["z"]; v != nil && v.Kind == "sc" {
		a.Z = v.Sc
	}
	if v := n.F["bIn"]; v != nil && v.Kind == "node" {
		a.BIn = &XB{N: v.Node}
	}
	a.ZsIn = []int64{}
	if v := n.F["zsIn"]; v != nil && v.Kind == "list" {
		for _, e := range v.List {
			a.ZsIn = append(a.ZsIn, e.Sc)
		}
	}
	return a
}

func gqlName(t string) string {
	switch t {
	case "A", "B", "U":
		return "X" + t
	case "Q":
		return "Query"
	}
	return t
}

func get(n *xNode, f string) *xVal {
	if n != nil && f == "id" {
		return &xVal{Kind: "sc", Sc: n.ID}
	}
	if n == nil || n.F[f] == nil {
		return &xVal{Kind: "null"}
	}
	return n.F[f]
}

func asScalar(v *xVal) (int64, error) {
	if v.Kind == "fail" {
		return 0, xErr(v)
	}
	return v.Sc, nil
}
func asA(v *xVal) (*XA, error) {
	if v.Kind == "fail" {
		return nil, xErr(v)
	}
	if v.Kind != "node" {
		return nil, nil
	}
	return wrapA(v.Node), nil
}
func asB(v *xVal) (*XB, error) {
	if v.Kind == "fail" {
		return nil, xErr(v)
	}
	if v.Kind != "node" {
		return nil, nil
	}
	return &XB{N: v.Node}, nil
}
func asU(v *xVal) (*XU, error) {
	if v.Kind == "fail" {
		return nil, xErr(v)
	}
	if v.Kind != "node" {
		return nil, nil
	}
	if v.Node.Typ == "A" {
		return &XU{XA: wrapA(v.Node)}, nil
	}
	return &XU{XB: &XB{N: v.Node}}, nil
}
func asInts(v *xVal) ([]int64, error) {
	if v.Kind == "fail" {
		return nil, xErr(v)
	}
	var out []int64 // nil for an empty list: an empty list, not null, also out of a batch function's result map
	for _, e := range v.List {
		out = append(out, e.Sc)
	}
	return out, nil
}
func asAs(v *xVal) ([]*XA, error) {
	if v.Kind == "fail" {
		return nil, xErr(v)
	}
	var out []*XA // nil for an empty list: an empty list, not null, also out of a batch function's result map
	for _, e := range v.List {
		a, _ := asA(e)
		out = append(out, a)
	}
	return out, nil
}
func asBs(v *xVal) ([]*XB, error) {
	if v.Kind == "fail" {
		return nil, xErr(v)
	}
	var out []*XB // nil for an empty list: an empty list, not null, also out of a batch function's result map
	for _, e := range v.List {
		b, _ := asB(e)
		out = append(out, b)
	}
	return out, nil
}

// asBsV: the same list as values (sources then reach batch functions as values, not pointers)
func asBsV(v *xVal) ([]XB, error) {
	if v.Kind == "fail" {
		return nil, xErr(v)
	}
	out := []XB{}
	for _, e := range v.List {
		if b, _ := asB(e); b != nil {
			out = append(out, *b)
		}
	}
	return out, nil
}
func asUs(v *xVal) ([]*XU, error) {
	if v.Kind == "fail" {
		return nil, xErr(v)
	}
	var out []*XU // nil for an empty list: an empty list, not null, also out of a batch function's result map
	for _, e := range v.List {
		u, _ := asU(e)
		out = append(out, u)
	}
	return out, nil
}

// ---- schema table ---------------------------------------------------------------------------

type xField struct {
	ID    int    // model name id (>= 1)
	Obj   string // A | B | Q
	Name  string // GraphQL field name
	Src   string // logical datum
	Ty    string // sc | ints | A | B | U | As | Bs | Us   (value type)
	Mode  string // inline | external | expensive | batch | fallback
	Par   int    // NumParallelInvocations (0: none)
	SrcID int
}

var xFields []*xField
var xFieldByName = map[string]*xField{} // "A.xEx"
var xSrcIDs = map[string]int{}
var xTypeID = map[string]int{"A": 1, "B": 2, "U": 3, "Q": 4}
var xTypeName = map[int]string{1: "A", 2: "B", 3: "U", 4: "Q"}

func xSrcID(s string) int {
	if id, ok := xSrcIDs[s]; ok {
		return id
	}
	xSrcIDs[s] = len(xSrcIDs) + 1
	return xSrcIDs[s]
}

func addField(obj, name, src, ty, mode string, par int) {
	f := &xField{ID: len(xFields) + 1, Obj: obj, Name: name, Src: src, Ty: ty, Mode: mode, Par: par, SrcID: xSrcID(src)}
	xFields = append(xFields, f)
	xFieldByName[obj+"."+name] = f
}

var xModes = []struct {
	suffix, mode string
	par          int
}{{"Ex", "external", 0}, {"Xp", "expensive", 0}, {"Ba", "batch", 0}, {"Bf", "fallback", 0}, {"P2", "external", 2}, {"Bp", "batch", 3}}

func init() {
	// A
	addField("A", "id", "id", "sc", "external", 0)
	addField("A", "z", "z", "sc", "inline", 0)
	addField("A", "bIn", "bIn", "B", "inline", 0)
	addField("A", "zsIn", "zsIn", "ints", "inline", 0)
	for _, m := range xModes {
		addField("A", "x"+m.suffix, "x", "sc", m.mode, m.par)
		addField("A", "b"+m.suffix, "b", "B", m.mode, m.par)
	}
	for _, m := range xModes[:4] {
		addField("A", "bs"+m.suffix, "bs", "Bs", m.mode, m.par)
		addField("A", "u"+m.suffix, "u", "U", m.mode, m.par)
	}
	// batch functions marked Expensive (no fallback)
	addField("A", "xBx", "x", "sc", "batchexp", 0)
	addField("A", "bBx", "b", "B", "batchexp", 0)
	addField("A", "bsBx", "bs", "Bs", "batchexp", 0)
	addField("A", "usEx", "us", "Us", "external", 0)
	addField("A", "usBa", "us", "Us", "batch", 0)
	addField("A", "sEx", "s", "ints", "external", 0)
	addField("A", "sBa", "s", "ints", "batch", 0)
	addField("A", "a2Ex", "a2", "A", "external", 0)
	addField("A", "a2Xp", "a2", "A", "expensive", 0)
	addField("A", "yEx", "y", "sc", "external", 0)
	addField("A", "bvEx", "bv", "BsV", "external", 0)
	addField("A", "cEx", "x", "sc", "external", 0) // B.cEx is an object: same name, different type
	// B
	for _, m := range xModes[:4] {
		addField("B", "p"+m.suffix, "p", "sc", m.mode, m.par)
		addField("B", "a"+m.suffix, "a", "A", m.mode, m.par)
	}
	addField("B", "pBx", "p", "sc", "batchexp", 0)
	addField("B", "qEx", "q", "sc", "external", 0)
	addField("B", "cEx", "a", "A", "external", 0)
	// a pointer-returning batch resolver marked NonNullable: a nil entry is an error, never null
	addField("B", "qNn", "qn", "scN", "batch", 0)
	// batch resolvers without a result map (error only): every source resolves to `true`
	addField("B", "okBa", "ok", "tr", "batch", 0)
	addField("B", "okBf", "ok", "tr", "fallback", 0)
	addField("B", "okBp", "ok", "tr", "batch", 2)
	addField("B", "asEx", "as", "As", "external", 0)
	addField("B", "asBa", "as", "As", "batch", 0)
	addField("B", "asP2", "as", "As", "external", 2)
	// Query
	addField("Q", "a", "a", "A", "external", 0)
	addField("Q", "as", "as", "As", "external", 0)
	addField("Q", "b", "b", "B", "external", 0)
	addField("Q", "bs", "bs", "Bs", "external", 0)
	addField("Q", "u", "u", "U", "external", 0)
	addField("Q", "us", "us", "Us", "external", 0)
	addField("Q", "n", "n", "sc", "external", 0)
	addField("Q", "bv", "bv", "BsV", "external", 0)
	addField("Q", "aXp", "a", "A", "expensive", 0)
}

func xFieldsOf(obj string) []*xField {
	var out []*xField
	for _, f := range xFields {
		if f.Obj == obj {
			out = append(out, f)
		}
	}
	return out
}

var xSchemaOnce sync.Once
var xSchema *graphql.Schema

func useBatchFlag(ctx context.Context) bool { b, _ := ctx.Value(xFlagKey{}).(bool); return b }

// registerA registers one field of A/B/Q with the real schema builder in its mode.
func registerField(obj *schemabuilder.Object, f *xField) {
	var opts []schemabuilder.FieldFuncOption
	if f.Mode == "expensive" || f.Mode == "batchexp" {
		opts = append(opts, schemabuilder.Expensive)
	}
	if f.Par > 0 {
		k := f.Par
		opts = append(opts, schemabuilder.NumParallelInvocationsFunc(func(ctx context.Context, n int) int { return k }))
	}
	src := f.Src
	nodeOf := func(s interface{}) *xNode {
		switch s := s.(type) {
		case *XA:
			return s.N
		case *XB:
			return s.N
		case *xQ:
			return s.N
		}
		return nil
	}
	batchy := f.Mode == "batch" || f.Mode == "fallback" || f.Mode == "batchexp"
	switch f.Obj + ":" + f.Ty {
	case "A:sc":
		one := func(ctx context.Context, a *XA) (int64, error) { return asScalar(get(a.N, src)) }
		many := func(ctx context.Context, in map[batch.Index]*XA) (map[batch.Index]int64, error) {
			out := map[batch.Index]int64{}
			return out, batchEach(in, func(i batch.Index, s interface{}) error { v, e := asScalar(get(nodeOf(s), src)); out[i] = v; return e })
		}
		regOne(obj, f, batchy, one, many, opts)
	case "A:ints":
		one := func(ctx context.Context, a *XA) ([]int64, error) { return asInts(get(a.N, src)) }
		many := func(ctx context.Context, in map[batch.Index]*XA) (map[batch.Index][]int64, error) {
			out := map[batch.Index][]int64{}
			return out, batchEach(in, func(i batch.Index, s interface{}) error { v, e := asInts(get(nodeOf(s), src)); out[i] = v; return e })
		}
		regOne(obj, f, batchy, one, many, opts)
	case "A:A":
		one := func(ctx context.Context, a *XA) (*XA, error) { return asA(get(a.N, src)) }
		many := func(ctx context.Context, in map[batch.Index]*XA) (map[batch.Index]*XA, error) {
			out := map[batch.Index]*XA{}
			return out, batchEach(in, func(i batch.Index, s interface{}) error { v, e := asA(get(nodeOf(s), src)); out[i] = v; return e })
		}
		regOne(obj, f, batchy, one, many, opts)
	case "A:B":
		one := func(ctx context.Context, a *XA) (*XB, error) { return asB(get(a.N, src)) }
		many := func(ctx context.Context, in map[batch.Index]*XA) (map[batch.Index]*XB, error) {
			out := map[batch.Index]*XB{}
			return out, batchEach(in, func(i batch.Index, s interface{}) error { v, e := asB(get(nodeOf(s), src)); out[i] = v; return e })
		}
		regOne(obj, f, batchy, one, many, opts)
	case "A:Bs":
		one := func(ctx context.Context, a *XA) ([]*XB, error) { return asBs(get(a.N, src)) }
		many := func(ctx context.Context, in map[batch.Index]*XA) (map[batch.Index][]*XB, error) {
			out := map[batch.Index][]*XB{}
			return out, batchEach(in, func(i batch.Index, s interface{}) error { v, e := asBs(get(nodeOf(s), src)); out[i] = v; return e })
		}
		regOne(obj, f, batchy, one, many, opts)
	case "A:BsV":
		obj.FieldFunc(f.Name, func(ctx context.Context, a *XA) ([]XB, error) { return asBsV(get(a.N, src)) }, opts...)
	case "A:U":
		one := func(ctx context.Context, a *XA) (*XU, error) { return asU(get(a.N, src)) }
		many := func(ctx context.Context, in map[batch.Index]*XA) (map[batch.Index]*XU, error) {
			out := map[batch.Index]*XU{}
			return out, batchEach(in, func(i batch.Index, s interface{}) error { v, e := asU(get(nodeOf(s), src)); out[i] = v; return e })
		}
		regOne(obj, f, batchy, one, many, opts)
	case "A:Us":
		one := func(ctx context.Context, a *XA) ([]*XU, error) { return asUs(get(a.N, src)) }
		many := func(ctx context.Context, in map[batch.Index]*XA) (map[batch.Index][]*XU, error) {
			out := map[batch.Index][]*XU{}
			return out, batchEach(in, func(i batch.Index, s interface{}) error { v, e := asUs(get(nodeOf(s), src)); out[i] = v; return e })
		}
		regOne(obj, f, batchy, one, many, opts)
	case "B:sc":
		one := func(ctx context.Context, b *XB) (int64, error) { return asScalar(get(b.N, src)) }
		many := func(ctx context.Context, in map[batch.Index]*XB) (map[batch.Index]int64, error) {
			out := map[batch.Index]int64{}
			return out, batchEach(in, func(i batch.Index, s interface{}) error { v, e := asScalar(get(nodeOf(s), src)); out[i] = v; return e })
		}
		regOne(obj, f, batchy, one, many, opts)
	case "B:scN":
		many := func(ctx context.Context, in map[batch.Index]*XB) (map[batch.Index]*int64, error) {
			out := map[batch.Index]*int64{}
			return out, batchEach(in, func(i batch.Index, s interface{}) error {
				v := get(nodeOf(s), src)
				if v.Kind == "fail" {
					return xErr(v)
				}
				if v.Kind == "null" {
					out[i] = nil
					return nil
				}
				x := v.Sc
				out[i] = &x
				return nil
			})
		}
		obj.BatchFieldFunc(f.Name, many, schemabuilder.NonNullable)
	case "B:tr":
		one := func(ctx context.Context, b *XB) error { _, e := asScalar(get(b.N, src)); return e }
		many := func(ctx context.Context, in map[batch.Index]*XB) error {
			return batchEach(in, func(i batch.Index, s interface{}) error { _, e := asScalar(get(nodeOf(s), src)); return e })
		}
		regOne(obj, f, batchy, one, many, opts)
	case "B:A":
		one := func(ctx context.Context, b *XB) (*XA, error) { return asA(get(b.N, src)) }
		many := func(ctx context.Context, in map[batch.Index]*XB) (map[batch.Index]*XA, error) {
			out := map[batch.Index]*XA{}
			return out, batchEach(in, func(i batch.Index, s interface{}) error { v, e := asA(get(nodeOf(s), src)); out[i] = v; return e })
		}
		regOne(obj, f, batchy, one, many, opts)
	case "B:As":
		one := func(ctx context.Context, b *XB) ([]*XA, error) { return asAs(get(b.N, src)) }
		many := func(ctx context.Context, in map[batch.Index]*XB) (map[batch.Index][]*XA, error) {
			out := map[batch.Index][]*XA{}
			return out, batchEach(in, func(i batch.Index, s interface{}) error { v, e := asAs(get(nodeOf(s), src)); out[i] = v; return e })
		}
		regOne(obj, f, batchy, one, many, opts)
	case "Q:sc":
		obj.FieldFunc(f.Name, func(ctx context.Context, q *xQ) (int64, error) { return asScalar(get(q.N, src)) }, opts...)
	case "Q:A":
		obj.FieldFunc(f.Name, func(ctx context.Context, q *xQ) (*XA, error) { return asA(get(q.N, src)) }, opts...)
	case "Q:As":
		obj.FieldFunc(f.Name, func(ctx context.Context, q *xQ) ([]*XA, error) { return asAs(get(q.N, src)) }, opts...)
	case "Q:B":
		obj.FieldFunc(f.Name, func(ctx context.Context, q *xQ) (*XB, error) { return asB(get(q.N, src)) }, opts...)
	case "Q:Bs":
		obj.FieldFunc(f.Name, func(ctx context.Context, q *xQ) ([]*XB, error) { return asBs(get(q.N, src)) }, opts...)
	case "Q:U":
		obj.FieldFunc(f.Name, func(ctx context.Context, q *xQ) (*XU, error) { return asU(get(q.N, src)) }, opts...)
	case "Q:Us":
		obj.FieldFunc(f.Name, func(ctx context.Context, q *xQ) ([]*XU, error) { return asUs(get(q.N, src)) }, opts...)
	default:
		panic("no registration for " + f.Obj + ":" + f.Ty)
	}
}

// batchEach visits the sources in index order and returns the first error.
func batchEach(in interface{}, f func(i batch.Index, s interface{}) error) error {
	type kv struct {
		i batch.Index
		s interface{}
		k string
	}
	var all []kv
	switch m := in.(type) {
	case map[batch.Index]*XA:
		for i, s := range m {
			t, _ := i.MarshalText()
			all = append(all, kv{i, s, string(t)})
		}
	case map[batch.Index]*XB:
		for i, s := range m {
			t, _ := i.MarshalText()
			all = append(all, kv{i, s, string(t)})
		}
	}
	sort.Slice(all, func(a, b int) bool {
		if len(all[a].k) != len(all[b].k) {
			return len(all[a].k) < len(all[b].k)
		}
		return all[a].k < all[b].k
	})
	var first error
	for _, e := range all {
		if err := f(e.i, e.s); err != nil && first == nil {
			first = err
		}
	}
	return first
}

func regOne(obj *schemabuilder.Object, f *xField, batchy bool, one, many interface{}, opts []schemabuilder.FieldFuncOption) {
	if batchy {
		switch f.Ty {
		case "sc", "ints", "As", "Bs", "Us":
			// value-typed results: mark the batch function's result non-null like the plain one
			opts = append(opts, schemabuilder.NonNullable)
		}
	}
	switch {
	case f.Mode == "batch", f.Mode == "batchexp":
		obj.BatchFieldFunc(f.Name, many, opts...)
	case f.Mode == "fallback":
		obj.BatchFieldFuncWithFallback(f.Name, many, one, useBatchFlag, opts...)
	default:
		obj.FieldFunc(f.Name, one, opts...)
	}
}

func buildXSchema() *graphql.Schema {
	xSchemaOnce.Do(func() { xSchema = newXSchema() })
	return xSchema
}

// newXSchema builds a fresh copy of the tie schema.
func newXSchema() *graphql.Schema {
	var out *graphql.Schema
	func() {
		sb := schemabuilder.NewSchema()
		a := sb.Object("XA", XA{})
		a.Key("id")
		b := sb.Object("XB", XB{})
		q := sb.Query()
		_ = sb.Object("Q", xQ{})
		for _, f := range xFields {
			if f.Mode == "inline" {
				continue
			}
			switch f.Obj {
			case "A":
				registerField(a, f)
			case "B":
				registerField(b, f)
			}
		}
		// the query root delegates to a Q node carried by the context
		for _, f := range xFieldsOf("Q") {
			f := f
			src := f.Src
			qn := func(ctx context.Context) *xNode { n, _ := ctx.Value(xRootKey{}).(*xNode); return n }
			var opts []schemabuilder.FieldFuncOption
			if f.Mode == "expensive" {
				opts = append(opts, schemabuilder.Expensive)
			}
			switch f.Ty {
			case "sc":
				q.FieldFunc(f.Name, func(ctx context.Context) (int64, error) { return asScalar(get(qn(ctx), src)) }, opts...)
			case "A":
				q.FieldFunc(f.Name, func(ctx context.Context) (*XA, error) { return asA(get(qn(ctx), src)) }, opts...)
			case "As":
				q.FieldFunc(f.Name, func(ctx context.Context) ([]*XA, error) { return asAs(get(qn(ctx), src)) }, opts...)
			case "B":
				q.FieldFunc(f.Name, func(ctx context.Context) (*XB, error) { return asB(get(qn(ctx), src)) }, opts...)
			case "Bs":
				q.FieldFunc(f.Name, func(ctx context.Context) ([]*XB, error) { return asBs(get(qn(ctx), src)) }, opts...)
			case "BsV":
				q.FieldFunc(f.Name, func(ctx context.Context) ([]XB, error) { return asBsV(get(qn(ctx), src)) }, opts...)
			case "U":
				q.FieldFunc(f.Name, func(ctx context.Context) (*XU, error) { return asU(get(qn(ctx), src)) }, opts...)
			case "Us":
				q.FieldFunc(f.Name, func(ctx context.Context) ([]*XU, error) { return asUs(get(qn(ctx), src)) }, opts...)
			}
		}
		sb.Mutation()
		out = sb.MustBuild()
	}()
	return out
}

type xRootKey struct{}

// ---- model encodings ------------------------------------------------------------------------

func xTyEnc(ty string) interface{} {
	switch ty {
	case "sc", "tr", "scN":
		return map[string]interface{}{"nn": "scalar"}
	case "ints":
		return map[string]interface{}{"nn": map[string]interface{}{"list": map[string]interface{}{"nn": "scalar"}}}
	case "A":
		return map[string]interface{}{"obj": 1}
	case "B":
		return map[string]interface{}{"obj": 2}
	case "U":
		return map[string]interface{}{"union": 3}
	case "As":
		return map[string]interface{}{"nn": map[string]interface{}{"list": map[string]interface{}{"obj": 1}}}
	case "Bs":
		return map[string]interface{}{"nn": map[string]interface{}{"list": map[string]interface{}{"obj": 2}}}
	case "Us":
		return map[string]interface{}{"nn": map[string]interface{}{"list": map[string]interface{}{"union": 3}}}
	case "BsV":
		return map[string]interface{}{"nn": map[string]interface{}{"list": map[string]interface{}{"nn": map[string]interface{}{"obj": 2}}}}
	}
	return "scalar"
}

func xSchemaEnc(flag bool) interface{} {
	objs := []interface{}{}
	for _, o := range []string{"A", "B", "Q"} {
		fs := []interface{}{}
		for _, f := range xFieldsOf(o) {
			mode := f.Mode
			if mode == "batchexp" {
				mode = "batch" // a batch function marked Expensive: the same answers, scheduled as its own work unit
			}
			if mode == "fallback" {
				if flag {
					mode = "fallbackT"
				} else {
					mode = "fallbackF"
				}
			}
			var par interface{}
			if f.Par > 0 {
				par = f.Par
			}
			fs = append(fs, map[string]interface{}{"name": f.ID, "ty": xTyEnc(f.Ty), "mode": mode, "par": par, "src": f.SrcID})
		}
		var key interface{}
		if o == "A" {
			key = xFieldByName["A.id"].ID
		}
		objs = append(objs, []interface{}{xTypeID[o], map[string]interface{}{"fields": fs, "key": key}})
	}
	return map[string]interface{}{"objects": objs, "unions": []interface{}{[]interface{}{3, []int{1, 2}}}}
}

func xValEnc(v *xVal) interface{} {
	if v == nil {
		return nil
	}
	switch v.Kind {
	case "sc":
		return map[string]interface{}{"s": v.Sc}
	case "list":
		l := []interface{}{}
		for _, e := range v.List {
			l = append(l, xValEnc(e))
		}
		return map[string]interface{}{"l": l}
	case "node":
		return xNodeEnc(v.Node)
	case "fail":
		return map[string]interface{}{"fail": []interface{}{v.Code, v.Safe}}
	case "null":
		if v.NNull {
			// the executor reports "marked non-nullable but returned a null value": a failing resolver
			return map[string]interface{}{"fail": []interface{}{777777, false}}
		}
	}
	return nil
}

func xNodeEnc(n *xNode) interface{} {
	if n == nil {
		return nil
	}
	fs := []interface{}{}
	var keys []string
	for k := range n.F {
		keys = append(keys, k)
	}
	sort.Strings(keys)
	for _, k := range keys {
		fs = append(fs, []interface{}{xSrcID(k), xValEnc(n.F[k])})
	}
	if n.Typ == "A" {
		fs = append(fs, []interface{}{xSrcID("id"), map[string]interface{}{"s": n.ID}})
	}
	return map[string]interface{}{"o": []interface{}{xTypeID[n.Typ], fs}}
}

// ---- data generation ------------------------------------------------------------------------

type xGen struct {
	r        *Rand
	nextID   int64
	failProb float64
	nnNulls  bool // let NonNullable pointer resolvers return nil (C14 only)
	nextCode int
}

func (g *xGen) val(ty string, depth int) *xVal {
	if g.failProb > 0 && g.r.Chance(g.failProb) && ty != "inline" {
		g.nextCode++
		return &xVal{Kind: "fail", Code: g.nextCode, Safe: g.r.Chance(0.3)}
	}
	switch ty {
	case "sc":
		return &xVal{Kind: "sc", Sc: int64(g.r.Intn(9))}
	case "tr":
		return &xVal{Kind: "sc", Sc: 1}
	case "scN":
		if g.nnNulls && g.r.Chance(0.25) {
			return &xVal{Kind: "null", NNull: true}
		}
		return &xVal{Kind: "sc", Sc: int64(g.r.Intn(9))}
	case "ints":
		v := &xVal{Kind: "list"}
		for i := g.r.Intn(4); i > 0; i-- {
			v.List = append(v.List, &xVal{Kind: "sc", Sc: int64(g.r.Intn(9))})
		}
		return v
	case "A", "B":
		if depth <= 0 || g.r.Chance(0.2) {
			return &xVal{Kind: "null"}
		}
		return &xVal{Kind: "node", Node: g.node(ty, depth-1)}
	case "U":
		if depth <= 0 || g.r.Chance(0.2) {
			return &xVal{Kind: "null"}
		}
		t := "A"
		if g.r.Bool() {
			t = "B"
		}
		return &xVal{Kind: "node", Node: g.node(t, depth-1)}
	case "BsV":
		v := &xVal{Kind: "list"}
		if depth <= 0 {
			return v
		}
		for i := g.r.Intn(6); i > 0; i-- {
			v.List = append(v.List, &xVal{Kind: "node", Node: g.node("B", depth-1)})
		}
		return v
	case "As", "Bs", "Us":
		v := &xVal{Kind: "list"}
		if depth <= 0 {
			return v
		}
		n := g.r.Intn(5)
		for i := 0; i < n; i++ {
			e := g.val(ty[:1], depth)
			if e.Kind == "fail" {
				e = &xVal{Kind: "null"}
			}
			v.List = append(v.List, e)
		}
		return v
	}
	return &xVal{Kind: "null"}
}

func (g *xGen) node(typ string, depth int) *xNode {
	g.nextID++
	n := &xNode{Typ: typ, ID: g.nextID, F: map[string]*xVal{}}
	srcs := map[string]string{}
	for _, f := range xFieldsOf(typ) {
		srcs[f.Src] = f.Ty
	}
	var names []string
	for s := range srcs {
		names = append(names, s)
	}
	sort.Strings(names)
	for _, s := range names {
		if s == "id" {
			continue
		}
		save := g.failProb
		if s == "z" || s == "bIn" || s == "zsIn" {
			g.failProb = 0 // struct fields cannot fail
		}
		n.F[s] = g.val(srcs[s], depth)
		g.failProb = save
	}
	return n
}

// ---- query generation -----------------------------------------------------------------------

type xDirs struct {
	Skip *bool
	Incl *bool
	text string
}

type xSel struct {
	Alias string
	Raw   string  // a field name that is not in the schema (ill-formed queries only)
	Field *xField // nil for __typename
	Dirs  xDirs
	Sub   *xSelSet
}
type xFrag struct {
	On    string
	Dirs  xDirs
	Set   *xSelSet
	Named string // name of the fragment definition, "" for inline
}
type xSelSet struct {
	Sels  []*xSel
	Frags []*xFrag
}

type xQuery struct {
	Set  *xSelSet
	Defs map[string]*xFrag // named fragment definitions in use
	Vars map[string]interface{}
	// Defaults: declared default values of variables ($c: Boolean = true); a variable with a default may be
	// supplied (the supplied value wins, also false over a default of true) or left out (the default counts)
	Defaults map[string]bool
	Text     string
	alias    map[string]int
}

type xQGen struct {
	r        *Rand
	q        *xQuery
	dirProb  float64
	nextVar  int
	nextFrag int
	pool     map[string][]*xFrag // reusable named fragments by type
	badType  float64             // probability of a fragment with a foreign type condition (known-finding region)
}

func (g *xQGen) dirs() xDirs {
	var d xDirs
	if !g.r.Chance(g.dirProb) {
		return d
	}
	var parts []string
	mk := func(name string) *bool {
		b := g.r.Bool()
		if g.r.Chance(0.4) {
			g.nextVar++
			vn := fmt.Sprintf("c%d", g.nextVar)
			if g.q.Defaults == nil {
				g.q.Defaults = map[string]bool{}
			}
			switch g.r.Intn(10) {
			case 0, 1, 2: // a default the supplied value overrides
				g.q.Defaults[vn] = !b
				g.q.Vars[vn] = b
			case 3, 4: // the default counts: nothing supplied
				g.q.Defaults[vn] = b
			case 5: // default and supplied value agree
				g.q.Defaults[vn] = b
				g.q.Vars[vn] = b
			default:
				g.q.Vars[vn] = b
			}
			parts = append(parts, fmt.Sprintf("@%s(if: $%s)", name, vn))
		} else {
			parts = append(parts, fmt.Sprintf("@%s(if: %v)", name, b))
		}
		return &b
	}
	switch g.r.Intn(5) {
	case 0, 1:
		d.Skip = mk("skip")
	case 2, 3:
		d.Incl = mk("include")
	default:
		if g.r.Bool() {
			d.Skip = mk("skip")
			d.Incl = mk("include")
		} else {
			d.Incl = mk("include")
			d.Skip = mk("skip")
		}
	}
	d.text = " " + strings.Join(parts, " ")
	return d
}

// typenameAlias: __typename under its own name or under an alias
func (g *xQGen) typenameAlias() string {
	if g.r.Chance(0.4) {
		return "tn"
	}
	return "__typename"
}

func (g *xQGen) aliasFor(name string) string {
	return name
}

func (g *xQGen) selSet(typ string, depth int) *xSelSet {
	ss := &xSelSet{}
	if typ == "U" {
		if g.r.Chance(0.4) {
			ss.Sels = append(ss.Sels, &xSel{Alias: g.typenameAlias()})
		}
		n := 1 + g.r.Intn(3)
		for i := 0; i < n; i++ {
			on := []string{"A", "B"}[g.r.Intn(2)]
			ss.Frags = append(ss.Frags, g.frag(on, depth))
		}
		return ss
	}
	fields := xFieldsOf(typ)
	if depth <= 0 {
		// leaves only
		var leaves []*xField
		for _, f := range fields {
			if f.Ty == "sc" || f.Ty == "ints" || f.Ty == "tr" || f.Ty == "scN" {
				leaves = append(leaves, f)
			}
		}
		fields = leaves
	}
	n := 1 + g.r.Intn(4)
	used := map[string]*xField{}
	for i := 0; i < n; i++ {
		if g.r.Chance(0.08) && typ != "Q" {
			ss.Sels = append(ss.Sels, &xSel{Alias: g.typenameAlias(), Dirs: g.dirs()})
			continue
		}
		f := fields[g.r.Intn(len(fields))]
		alias := f.Name
		switch {
		case g.r.Chance(0.25): // an alias; always the same field behind one alias, so that merged selections never conflict
			alias = []string{"k_", "j_"}[g.r.Intn(2)] + f.Name
		}
		if prev, ok := used[alias]; ok && prev != f {
			alias = f.Name // a repeated alias must name the same field
			if prev2, ok2 := used[alias]; ok2 && prev2 != f {
				continue
			}
		}
		used[alias] = f
		sel := &xSel{Alias: alias, Field: f, Dirs: g.dirs()}
		switch f.Ty {
		case "A", "B", "U":
			sel.Sub = g.selSet(f.Ty, depth-1)
		case "As", "Bs", "Us", "BsV":
			sel.Sub = g.selSet(f.Ty[:1], depth-1)
		}
		ss.Sels = append(ss.Sels, sel)
	}
	if depth > 0 {
		for g.r.Chance(0.3) {
			on := typ
			if g.r.Chance(g.badType) {
				on = map[string]string{"A": "B", "B": "A", "Q": "A"}[typ]
			}
			ss.Frags = append(ss.Frags, g.frag(on, depth))
		}
	}
	// next to a named fragment that selects an object field, another fragment selecting the same alias with its own
	// sub-selection: where the named fragment is spread at several places, its selection is the first occurrence of
	// several different merges (merging must not write into what the occurrences share)
	if depth > 0 && g.r.Chance(0.35) {
		for _, fr := range ss.Frags {
			if fr.Named == "" || fr.On != typ || fr.Set == nil {
				continue
			}
			var cand *xSel
			for _, s2 := range fr.Set.Sels {
				if s2.Field != nil && s2.Sub != nil {
					if prev, ok := used[s2.Alias]; !ok || prev == s2.Field {
						cand = s2
						break
					}
				}
			}
			if cand == nil {
				continue
			}
			own := false
			for _, s2 := range ss.Sels {
				if s2.Alias == cand.Alias {
					own = true
				}
			}
			if own {
				continue
			}
			used[cand.Alias] = cand.Field
			extra := &xSel{Alias: cand.Alias, Field: cand.Field}
			switch cand.Field.Ty {
			case "A", "B", "U":
				extra.Sub = g.selSet(cand.Field.Ty, depth-1)
			case "As", "Bs", "Us", "BsV":
				extra.Sub = g.selSet(cand.Field.Ty[:1], depth-1)
			}
			if extra.Sub != nil {
				ss.Frags = append(ss.Frags, &xFrag{On: typ, Set: &xSelSet{Sels: []*xSel{extra}}})
			}
			break
		}
	}
	// repeat one of the selections under the same alias with its own sub-selection
	if len(ss.Sels) > 0 && g.r.Chance(0.25) {
		s := ss.Sels[g.r.Intn(len(ss.Sels))]
		if s.Field != nil {
			dup := &xSel{Alias: s.Alias, Field: s.Field, Dirs: g.dirs()}
			switch s.Field.Ty {
			case "A", "B", "U":
				dup.Sub = g.selSet(s.Field.Ty, depth-1)
			case "As", "Bs", "Us", "BsV":
				dup.Sub = g.selSet(s.Field.Ty[:1], depth-1)
			}
			ss.Sels = append(ss.Sels, dup)
		}
	}
	// the same object on two paths: an A-valued field under two aliases, and below both an Expensive object field
	// under one alias with different sub-selections (what a cache keyed too coarsely would confuse)
	if depth > 1 && g.r.Chance(0.12) {
		var toA, expA *xField
		for _, f := range fields {
			if f.Ty == "A" && f.Mode != "batch" && f.Mode != "fallback" && toA == nil {
				toA = f
			}
		}
		for _, f := range xFieldsOf("A") {
			if f.Ty == "A" && f.Mode == "expensive" {
				expA = f
			}
		}
		if prev, ok := used["k_"+fieldName(toA)]; toA != nil && expA != nil && (!ok || prev == toA) {
			if prev0, ok0 := used[toA.Name]; !ok0 || prev0 == toA {
				used[toA.Name], used["k_"+toA.Name] = toA, toA
				for _, alias := range []string{toA.Name, "k_" + toA.Name} {
					sub := &xSelSet{Sels: []*xSel{{Alias: expA.Name, Field: expA, Sub: g.selSet("A", depth-2)}}}
					ss.Sels = append(ss.Sels, &xSel{Alias: alias, Field: toA, Sub: sub})
				}
			}
		}
	}
	return ss
}

func fieldName(f *xField) string {
	if f == nil {
		return ""
	}
	return f.Name
}

// frag returns an inline fragment or a spread of a (possibly reused) named fragment.
func (g *xQGen) frag(on string, depth int) *xFrag {
	if depth > 0 && g.r.Chance(0.45) {
		// named fragment: reuse one from the pool or define a new one
		if p := g.pool[on]; len(p) > 0 && g.r.Chance(0.6) {
			def := p[g.r.Intn(len(p))]
			g.q.Defs[def.Named] = def
			return &xFrag{On: on, Dirs: g.dirs(), Set: def.Set, Named: def.Named}
		}
		g.nextFrag++
		def := &xFrag{On: on, Named: fmt.Sprintf("F%d", g.nextFrag)}
		def.Set = g.selSet(on, depth-1) // fragments only use fragments defined later: no cycles
		g.pool[on] = append(g.pool[on], def)
		g.q.Defs[def.Named] = def
		return &xFrag{On: on, Dirs: g.dirs(), Set: def.Set, Named: def.Named}
	}
	return &xFrag{On: on, Dirs: g.dirs(), Set: g.selSet(on, depth-1)}
}

func (ss *xSelSet) render(b *strings.Builder) {
	b.WriteString("{ ")
	for _, s := range ss.Sels {
		if s.Raw != "" {
			b.WriteString(s.Raw + s.Dirs.text + " ")
			continue
		}
		if s.Field == nil {
			if s.Alias != "__typename" {
				b.WriteString(s.Alias + ": ")
			}
			b.WriteString("__typename" + s.Dirs.text + " ")
			if s.Sub != nil {
				s.Sub.render(b)
			}
			continue
		}
		if s.Alias != s.Field.Name {
			b.WriteString(s.Alias + ": ")
		}
		b.WriteString(s.Field.Name + s.Dirs.text + " ")
		if s.Sub != nil {
			s.Sub.render(b)
		}
	}
	for _, f := range ss.Frags {
		if f.Named != "" {
			b.WriteString("..." + f.Named + f.Dirs.text + " ")
			continue
		}
		b.WriteString("... on " + gqlName(f.On) + f.Dirs.text + " ")
		f.Set.render(b)
	}
	b.WriteString("} ")
}

func (q *xQuery) render() string {
	var b strings.Builder
	b.WriteString("query Q")
	if len(q.Vars)+len(q.Defaults) > 0 {
		seen := map[string]bool{}
		var names []string
		for n := range q.Vars {
			seen[n] = true
			names = append(names, n)
		}
		for n := range q.Defaults {
			if !seen[n] {
				names = append(names, n)
			}
		}
		sort.Strings(names)
		var defs []string
		for _, n := range names {
			if d, ok := q.Defaults[n]; ok {
				defs = append(defs, fmt.Sprintf("$%s: Boolean = %v", n, d))
			} else {
				defs = append(defs, "$"+n+": Boolean")
			}
		}
		b.WriteString("(" + strings.Join(defs, ", ") + ")")
	}
	b.WriteString(" ")
	q.Set.render(&b)
	var names []string
	for n := range q.Defs {
		names = append(names, n)
	}
	sort.Strings(names)
	for _, n := range names {
		d := q.Defs[n]
		b.WriteString("fragment " + n + " on " + gqlName(d.On) + " ")
		d.Set.render(&b)
	}
	return b.String()
}

func (q *xQuery) aliasID(a string) int {
	if a == "__key" {
		return 0
	}
	if id, ok := q.alias[a]; ok {
		return id
	}
	q.alias[a] = len(q.alias) + 1
	return q.alias[a]
}

func dirsEnc(d xDirs) interface{} {
	var s, i interface{}
	if d.Skip != nil {
		s = *d.Skip
	}
	if d.Incl != nil {
		i = *d.Incl
	}
	return map[string]interface{}{"skip": s, "incl": i}
}

func (q *xQuery) enc(ss *xSelSet) interface{} {
	if ss == nil {
		return nil
	}
	sels := []interface{}{}
	for _, s := range ss.Sels {
		name := 0
		if s.Field != nil {
			name = s.Field.ID
		}
		if s.Raw != "" {
			name = 99999
		}
		var sub interface{}
		if s.Sub != nil {
			sub = q.enc(s.Sub)
		}
		sels = append(sels, map[string]interface{}{"a": q.aliasID(s.Alias), "n": name, "d": dirsEnc(s.Dirs), "sub": sub})
	}
	frags := []interface{}{}
	for _, f := range ss.Frags {
		frags = append(frags, map[string]interface{}{"on": xTypeID[f.On], "d": dirsEnc(f.Dirs), "set": q.enc(f.Set)})
	}
	return map[string]interface{}{"sels": sels, "frags": frags}
}

func genXQuery(r *Rand, depth int, dirProb, badType float64) *xQuery {
	q := &xQuery{Defs: map[string]*xFrag{}, Vars: map[string]interface{}{}, alias: map[string]int{}}
	g := &xQGen{r: r, q: q, dirProb: dirProb, pool: map[string][]*xFrag{}, badType: badType}
	q.Set = g.selSet("Q", depth)
	q.Text = q.render()
	return q
}

// ---- running and comparing ------------------------------------------------------------------

// jEnc converts an implementation response into the model's J encoding.
func (q *xQuery) jEnc(v interface{}) interface{} {
	switch v := v.(type) {
	case nil:
		return nil
	case map[string]interface{}:
		type kv struct {
			k int
			v interface{}
		}
		var kvs []kv
		for k, x := range v {
			kvs = append(kvs, kv{q.aliasID(k), q.jEnc(x)})
		}
		sort.Slice(kvs, func(i, j int) bool { return kvs[i].k < kvs[j].k })
		o := []interface{}{}
		for _, p := range kvs {
			o = append(o, []interface{}{p.k, p.v})
		}
		return map[string]interface{}{"o": o}
	case []interface{}:
		a := []interface{}{}
		for _, x := range v {
			a = append(a, q.jEnc(x))
		}
		return a
	case string:
		if id, ok := xTypeID[strings.TrimPrefix(v, "X")]; ok && strings.HasPrefix(v, "X") {
			return map[string]interface{}{"s": id}
		}
		if v == "Query" {
			return map[string]interface{}{"s": xTypeID["Q"]}
		}
		return map[string]interface{}{"str": v}
	case bool:
		if v {
			return map[string]interface{}{"s": 1}
		}
		return map[string]interface{}{"s": 0}
	case int64:
		return map[string]interface{}{"s": v}
	case int:
		return map[string]interface{}{"s": v}
	case float64:
		return map[string]interface{}{"s": int64(v)}
	}
	return map[string]interface{}{"other": fmt.Sprintf("%T", v)}
}

// sortJ sorts the object keys of a model J value so that it compares with jEnc's output.
func sortJ(v interface{}) interface{} {
	switch v := v.(type) {
	case []interface{}:
		out := make([]interface{}, len(v))
		for i, x := range v {
			out[i] = sortJ(x)
		}
		return out
	case map[string]interface{}:
		if o, ok := v["o"].([]interface{}); ok {
			type kv struct {
				k int64
				v interface{}
			}
			var kvs []kv
			for _, p := range o {
				pp := p.([]interface{})
				kvs = append(kvs, kv{toInt64(pp[0]), sortJ(pp[1])})
			}
			sort.SliceStable(kvs, func(i, j int) bool { return kvs[i].k < kvs[j].k })
			out := []interface{}{}
			for _, p := range kvs {
				out = append(out, []interface{}{p.k, p.v})
			}
			return map[string]interface{}{"o": out}
		}
		return v
	}
	return v
}

type xErrInfo struct {
	Code int      `json:"code"`
	Safe bool     `json:"safe"`
	Path []string `json:"path"`
	Raw  string   `json:"raw"`
}

func parseXErr(err error) xErrInfo {
	s := err.Error()
	info := xErrInfo{Raw: firstN(s, 200)}
	msg := s
	if i := strings.Index(s, "graphql: panic: "); i >= 0 {
		msg = s[i+len("graphql: panic: "):]
		if i >= 2 {
			info.Path = strings.Split(s[:i-2], ".")
		}
	} else if i := strings.LastIndex(s, ": "); i >= 0 {
		msg = s[i+2:]
		info.Path = strings.Split(s[:i], ".")
	}
	if strings.HasPrefix(msg, "S") {
		info.Safe = true
	}
	j := 1
	for j < len(msg) && msg[j] >= '0' && msg[j] <= '9' {
		j++
	}
	if len(msg) > 1 {
		info.Code, _ = strconv.Atoi(msg[1:j])
	}
	return info
}

// modelErrPath renders a model error path with the query's alias names.
func (q *xQuery) modelErrPath(path []interface{}) []string {
	rev := map[int]string{}
	for a, id := range q.alias {
		rev[id] = a
	}
	out := []string{}
	for _, pe := range path {
		m := pe.(map[string]interface{})
		if k, ok := m["k"]; ok {
			out = append(out, rev[int(toInt64(k))])
		} else {
			out = append(out, fmt.Sprint(toInt64(m["i"])))
		}
	}
	return out
}
