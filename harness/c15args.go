package main

// C15, arguments: whatever argument lists and values a client attaches to fields - declared or not, of the right
// kind or not, literal or by variable - validation and execution end with a result or an error, never a panic.

import (
	"context"
	"fmt"
	"strings"
	"sync/atomic"
	"time"

	"github.com/samsarahq/thunder/federation"
	"github.com/samsarahq/thunder/graphql"
	"github.com/samsarahq/thunder/graphql/schemabuilder"
)

type c15Item struct {
	Id   int64
	Name string
}

func c15ArgSchema() *graphql.Schema {
	sb := schemabuilder.NewSchema()
	sb.Enum(c18Enum(0), map[string]c18Enum{"ONE": 1, "TWO": 2, "THREE": 3})
	items := []c15Item{{1, "a"}, {2, "b"}, {3, "c"}}
	q := sb.Query()
	// a paginated field whose function takes no arguments of its own, and one that does
	q.FieldFunc("items", func() []c15Item { return items }, schemabuilder.Paginated)
	q.FieldFunc("itemsBy", func(args struct{ Prefix *string }) []c15Item { return items }, schemabuilder.Paginated)
	q.FieldFunc("echo", func(ctx context.Context, args c18Args) string { return "ok" })
	q.FieldFunc("plain", func() int64 { return 1 })
	q.FieldFunc("one", func(args struct {
		N   int64
		E   *c18Enum
		In  *c18Inner
		Rec *c18Rec
	}) int64 {
		return args.N
	})
	obj := sb.Object("c15Item", c15Item{})
	obj.Key("id")
	sb.Mutation()
	return sb.MustBuild()
}

func c15GenArgValue(r *Rand, depth int, vars map[string]interface{}, decl *[]string) string {
	switch r.Intn(13) {
	case 0:
		return fmt.Sprint(r.Intn(5) - 1)
	case 1:
		return []string{"1.5", "-0.0", "1e3", "9999999999999999999999"}[r.Intn(4)]
	case 2:
		return []string{`"x"`, `""`, `"\u0000"`, `"""block"""`}[r.Intn(4)]
	case 3:
		return []string{"true", "false"}[r.Intn(2)]
	case 4:
		return "null"
	case 5:
		return []string{"ONE", "FOUR", "one", "id"}[r.Intn(4)]
	case 6, 7:
		if depth <= 0 {
			return "[]"
		}
		var parts []string
		for k := r.Intn(3); k > 0; k-- {
			parts = append(parts, c15GenArgValue(r, depth-1, vars, decl))
		}
		return "[" + strings.Join(parts, ", ") + "]"
	case 8, 9:
		if depth <= 0 {
			return "{}"
		}
		var parts []string
		for k := r.Intn(3); k > 0; k-- {
			name := []string{"x", "y", "z", "n", "name", "not", "any", "limit", "tag", "bogus"}[r.Intn(10)]
			parts = append(parts, name+": "+c15GenArgValue(r, depth-1, vars, decl))
		}
		return "{" + strings.Join(parts, ", ") + "}"
	default:
		// a variable: declared (with some type, maybe a default) or not, supplied (with arbitrary JSON) or not
		name := fmt.Sprintf("v%d", r.Intn(4))
		if r.Chance(0.8) {
			typ := []string{"Int", "String", "Boolean", "[Int]", "c18Inner_InputObject", "Nope", "int64!", "[String!]!"}[r.Intn(8)]
			d := "$" + name + ": " + typ
			if r.Chance(0.3) {
				d += " = " + []string{"1", `"d"`, "true", "null", "[1]", "{x: 1}"}[r.Intn(6)]
			}
			dup := false
			for _, x := range *decl {
				if strings.HasPrefix(x, "$"+name+":") {
					dup = true
				}
			}
			if !dup {
				*decl = append(*decl, d)
			}
		}
		if r.Chance(0.6) {
			vars[name] = c15RandJSON(r, 2)
		}
		return "$" + name
	}
}

func c15GenArgs(r *Rand, vars map[string]interface{}, decl *[]string) string {
	if r.Chance(0.15) {
		return ""
	}
	var parts []string
	for k := 1 + r.Intn(3); k > 0; k-- {
		name := []string{"first", "after", "last", "before", "sortBy", "sortOrder", "filterText", "filterTextFields", "prefix", "n", "e", "in", "rec", "bogus", "b", "s", "l", "lI"}[r.Intn(18)]
		parts = append(parts, name+": "+c15GenArgValue(r, 2, vars, decl))
	}
	return "(" + strings.Join(parts, ", ") + ")"
}

// c15Args: argument fuzzing (totality)
func c15Args(c *Ctx, rounds int) {
	rep := c.Rep
	schema := c15ArgSchema()
	r := c.Rng.Fork()
	conn := "{ edges { node { id name } cursor } totalCount pageInfo { hasNextPage } }"
	for i := 0; i < rounds && !rep.ShouldStop(); i++ {
		vars := map[string]interface{}{}
		var decl []string
		var sels []string
		for k := 1 + r.Intn(3); k > 0; k-- {
			switch r.Intn(5) {
			case 0:
				sels = append(sels, fmt.Sprintf("a%d: items%s %s", k, c15GenArgs(r, vars, &decl), conn))
			case 1:
				sels = append(sels, fmt.Sprintf("a%d: itemsBy%s %s", k, c15GenArgs(r, vars, &decl), conn))
			case 2:
				sels = append(sels, fmt.Sprintf("a%d: echo%s", k, c15GenArgs(r, vars, &decl)))
			case 3:
				sels = append(sels, fmt.Sprintf("a%d: plain%s", k, c15GenArgs(r, vars, &decl)))
			default:
				sels = append(sels, fmt.Sprintf("a%d: one%s", k, c15GenArgs(r, vars, &decl)))
			}
		}
		query := "query A"
		if len(decl) > 0 {
			query += "(" + strings.Join(decl, ", ") + ")"
		}
		query += " { " + strings.Join(sels, " ") + " }"
		cs := map[string]interface{}{"args": true, "query": query, "vars": vars}
		class := "?"
		t0 := time.Now()
		p := safely(func() {
			q, err := graphql.Parse(query, vars)
			if err != nil {
				class = "parse_error"
				return
			}
			if err := graphql.PrepareQuery(context.Background(), schema.Query, q.SelectionSet); err != nil {
				class = "rejected"
				return
			}
			if _, err := graphql.NewExecutor(&seqScheduler{policy: "fifo"}).Execute(context.Background(), schema.Query, nil, q); err != nil {
				class = "exec_error"
				return
			}
			class = "result"
		})
		if p != nil {
			rep.Fail("impl_ne_spec", nil, cs, map[string]interface{}{"what": "panic on untrusted arguments", "panic": firstN(fmt.Sprint(p), 400)})
			return
		}
		if time.Since(t0) > 3*time.Second {
			rep.Fail("impl_ne_spec", nil, cs, map[string]interface{}{"what": "arguments take too long"})
			return
		}
		rep.Count("args:" + class)
	}
}

// c15Sibling: a federated request in which one sub-query fails while a sibling is slow must end promptly, and the
// slow sibling must see its context cancelled.
func c15Sibling(c *Ctx) {
	rep := c.Rep
	cs := map[string]interface{}{"gateway": "one sub-query fails while a sibling sub-query waits on its context"}
	slowSeen := make(chan string, 4)
	var slowStarted int32
	mk := func(name string, reg func(q *schemabuilder.Object)) federation.ExecutorClient {
		sb := schemabuilder.NewSchemaWithName(name)
		reg(sb.Query())
		sb.Mutation()
		srv, err := federation.NewServer(sb.MustBuild())
		if err != nil {
			panic(err)
		}
		return &federation.DirectExecutorClient{Client: srv}
	}
	execs := map[string]federation.ExecutorClient{
		"s1": mk("s1", func(q *schemabuilder.Object) {
			q.FieldFunc("fail", func(ctx context.Context) (int64, error) { return 0, fmt.Errorf("sub-query failed") })
		}),
		"s2": mk("s2", func(q *schemabuilder.Object) {
			q.FieldFunc("slow", func(ctx context.Context) (int64, error) {
				atomic.StoreInt32(&slowStarted, 1)
				select {
				case <-ctx.Done():
					slowSeen <- "cancelled"
					return 0, ctx.Err()
				case <-time.After(8 * time.Second):
					slowSeen <- "timeout"
					return 1, nil
				}
			})
		}),
	}
	ctx, cancel := context.WithCancel(context.Background())
	defer cancel()
	var e *federation.Executor
	var err error
	if p := safely(func() {
		e, err = federation.NewExecutor(ctx, execs, &federation.SchemaSyncerConfig{SchemaSyncer: federation.NewIntrospectionSchemaSyncer(ctx, execs, nil)})
	}); p != nil || err != nil {
		rep.Fail("harness_error", nil, cs, map[string]interface{}{"error": fmt.Sprint(p, err)})
		return
	}
	q, _ := graphql.Parse("query Q { fail slow }", map[string]interface{}{})
	done := make(chan error, 1)
	t0 := time.Now()
	go func() {
		var gerr error
		if p := safely(func() { _, _, gerr = e.Execute(context.Background(), q, nil) }); p != nil {
			gerr = fmt.Errorf("panic: %v", p)
		}
		done <- gerr
	}()
	select {
	case gerr := <-done:
		if gerr == nil {
			rep.Fail("impl_ne_spec", nil, cs, map[string]interface{}{"what": "the gateway answered without error although a sub-query failed"})
			return
		}
	case <-patient(3 * time.Second):
		rep.Fail("impl_ne_spec", nil, cs, map[string]interface{}{"what": "the gateway is still blocked 3 s after a sub-query failed: the slow sibling was not cancelled", "elapsed_ms": time.Since(t0).Milliseconds()})
		return
	}
	// the slow sibling, if it was started at all (the failure may have cancelled the request before), must see
	// its context cancelled
	if atomic.LoadInt32(&slowStarted) == 1 {
		select {
		case how := <-slowSeen:
			if how != "cancelled" {
				rep.Fail("impl_ne_spec", nil, cs, map[string]interface{}{"what": "the slow sibling ran to its own timeout instead of being cancelled"})
				return
			}
		case <-patient(3 * time.Second):
			rep.Fail("impl_ne_spec", nil, cs, map[string]interface{}{"what": "the slow sibling sub-query was started and never cancelled after the request ended"})
			return
		}
	}
	rep.Count("gateway_sibling_failure:prompt")
}

// c15ShortService: a federated service whose key lookup answers with fewer objects than keys (or none): the
// gateway must fail the request with an error; a panic in one of its goroutines would end the process.
type c15FU struct {
	Id int64
}

func c15ShortService(c *Ctx) {
	rep := c.Rep
	for _, drop := range []int{1, 3} {
		cs := map[string]interface{}{"gateway": "a service returns fewer objects than keys", "dropped": drop}
		s1 := schemabuilder.NewSchemaWithName("s1")
		u1 := s1.Object("c15FU", c15FU{}, schemabuilder.FetchObjectFromKeys(func(args struct{ Keys []*c15FU }) []*c15FU { return args.Keys }))
		u1.Key("id")
		s1.Query().FieldFunc("users", func() []*c15FU { return []*c15FU{{Id: 1}, {Id: 2}, {Id: 3}} })
		s1.Mutation()
		s2 := schemabuilder.NewSchemaWithName("s2")
		d := drop
		u2 := s2.Object("c15FU", c15FU{}, schemabuilder.FetchObjectFromKeys(func(args struct{ Keys []*c15FU }) []*c15FU {
			if d >= len(args.Keys) {
				return []*c15FU{}
			}
			return args.Keys[:len(args.Keys)-d]
		}))
		u2.Key("id")
		u2.FieldFunc("cool", func(u *c15FU) bool { return u.Id%2 == 0 })
		s2.Query().FieldFunc("other", func() int64 { return 1 })
		s2.Mutation()
		execs := map[string]federation.ExecutorClient{}
		for name, sb := range map[string]*schemabuilder.Schema{"s1": s1, "s2": s2} {
			srv, err := federation.NewServer(sb.MustBuild())
			if err != nil {
				rep.Fail("harness_error", nil, cs, map[string]interface{}{"error": err.Error()})
				return
			}
			execs[name] = &federation.DirectExecutorClient{Client: srv}
		}
		ctx, cancel := context.WithCancel(context.Background())
		e, err := federation.NewExecutor(ctx, execs, &federation.SchemaSyncerConfig{SchemaSyncer: federation.NewIntrospectionSchemaSyncer(ctx, execs, nil)})
		if err != nil {
			cancel()
			rep.Fail("harness_error", nil, cs, map[string]interface{}{"error": err.Error()})
			return
		}
		q, err := graphql.Parse("{ users { id cool } }", map[string]interface{}{})
		if err != nil {
			cancel()
			rep.Fail("harness_error", nil, cs, map[string]interface{}{"error": err.Error()})
			return
		}
		// the request runs in-process: a panic in a goroutine of the gateway ends the harness, which the check
		// reports with this case as the one in flight
		Inflight(cs)
		done := make(chan error, 1)
		go func() {
			defer func() {
				if p := recover(); p != nil {
					done <- fmt.Errorf("panic: %v", p)
				}
			}()
			_, _, err := e.Execute(ctx, q, nil)
			done <- err
		}()
		select {
		case err := <-done:
			if err == nil || strings.HasPrefix(err.Error(), "panic:") {
				rep.Fail("impl_ne_spec", nil, cs, map[string]interface{}{"what": "the gateway did not answer a short result of a service with an error", "error": fmt.Sprint(err)})
			}
		case <-patient(5 * time.Second):
			rep.Fail("impl_ne_spec", nil, cs, map[string]interface{}{"what": "the gateway did not return after a service answered with fewer objects than keys"})
		}
		InflightDone()
		cancel()
		rep.Count("gateway_short_service")
	}
}

// c15ConnGone: websocket histories in which a resolver reports a cancellation itself, or the client goes away
// while runs are in flight: the connection keeps answering (or ends), ServeJSONSocket returns, nothing is left behind.
func c15ConnGone(c *Ctx) {
	rep := c.Rep
	histories := [][]cnAction{
		{{Op: "fail", Arg: 5}, {Op: "subscribe", ID: 1, Query: 4}, {Op: "pause", Arg: 2000}, {Op: "echo", ID: 2}, {Op: "subscribe", ID: 2, Query: 0}, {Op: "settle"}, {Op: "echo", ID: 3}},
		{{Op: "subscribe", ID: 1, Query: 4}, {Op: "settle"}, {Op: "fail", Arg: 5}, {Op: "settle"}, {Op: "echo", ID: 2}, {Op: "heal"}, {Op: "subscribe", ID: 3, Query: 0}, {Op: "settle"}},
		{{Op: "fail", Arg: 5}, {Op: "subscribe", ID: 1, Query: 4}, {Op: "subscribe", ID: 2, Query: 4}},
		// finding C15-6: a list aliased as __key; the first re-run's diff must not take the process down
		{{Op: "subscribe", ID: 1, Query: 6}, {Op: "settle"}, {Op: "change", Arg: 3}, {Op: "settle"}, {Op: "change", Arg: 11}, {Op: "settle"}, {Op: "echo", ID: 2}},
		{{Op: "subscribe", ID: 1, Query: 7}, {Op: "settle"}, {Op: "change", Arg: 3}, {Op: "settle"}, {Op: "change", Arg: 11}, {Op: "settle"}, {Op: "change", Arg: 2}, {Op: "settle"}, {Op: "echo", ID: 2}},
	}
	for i, acts := range histories {
		for _, early := range []bool{false, true} {
			cs := cnCase{Seed: uint64(40 + i), Actions: acts, CloseEarly: early, SlowUs: 300 * i}
			Inflight(cs) // a panic on the rerunner's goroutine ends the process
			res := cnRun(cs)
			InflightDone()
			if res.Problem != "" {
				rep.Fail("impl_ne_spec", nil, cs, map[string]interface{}{"what": "websocket, a resolver reports a cancellation / the client goes away: " + res.Problem})
				return
			}
			// every echo was answered
			asked, answered := 0, 0
			for _, e := range res.Events {
				if m, ok := e.Data.(map[string]interface{}); ok && m["type"] == "echo" {
					if e.Kind == "in" {
						asked++
					} else if e.Kind == "write" {
						answered++
					}
				}
			}
			if !early && answered < asked {
				rep.Fail("impl_ne_spec", nil, cs, map[string]interface{}{"what": "websocket: the connection stopped answering after a resolver reported a cancellation", "echo_sent": asked, "echo_answered": answered})
				return
			}
			rep.Count("conn_gone_histories")
		}
	}
}

// c15GatewayBomb (finding C15-10, notes/hunt/C15 find4): fragments that spread each other twice must not make the
// gateway's planning exponential: 25 levels (about 1 KB) are planned and answered within 2 s.
func c15GatewayBomb(c *Ctx) {
	rep := c.Rep
	cs := map[string]interface{}{"gateway": "fragments that spread each other twice, 25 levels"}
	sb := schemabuilder.NewSchemaWithName("s1")
	sb.Query().FieldFunc("a", func() int64 { return 1 })
	sb.Mutation()
	srv, err := federation.NewServer(sb.MustBuild())
	if err != nil {
		rep.Fail("harness_error", nil, cs, map[string]interface{}{"error": err.Error()})
		return
	}
	execs := map[string]federation.ExecutorClient{"s1": &federation.DirectExecutorClient{Client: srv}}
	ctx, cancel := context.WithCancel(context.Background())
	defer cancel()
	e, err := federation.NewExecutor(ctx, execs, &federation.SchemaSyncerConfig{SchemaSyncer: federation.NewIntrospectionSchemaSyncer(ctx, execs, nil)})
	if err != nil {
		rep.Fail("harness_error", nil, cs, map[string]interface{}{"error": err.Error()})
		return
	}
	var b strings.Builder
	b.WriteString("query Q { ...F0 }\n")
	for i := 0; i < 25; i++ {
		fmt.Fprintf(&b, "fragment F%d on Query { ...F%d ...F%d }\n", i, i+1, i+1)
	}
	b.WriteString("fragment F25 on Query { a }\n")
	q, err := graphql.Parse(b.String(), map[string]interface{}{})
	if err != nil {
		rep.Fail("harness_error", nil, cs, map[string]interface{}{"error": err.Error()})
		return
	}
	done := make(chan string, 1)
	Inflight(cs)
	go func() {
		var out interface{}
		var gerr error
		if p := safely(func() { out, _, gerr = e.Execute(context.Background(), q, nil) }); p != nil {
			gerr = fmt.Errorf("panic: %v", p)
		}
		if gerr != nil {
			done <- "error: " + gerr.Error()
		} else {
			done <- Canon(out)
		}
	}()
	select {
	case got := <-done:
		InflightDone()
		if got != `{"a":1}` {
			rep.Fail("impl_ne_spec", nil, cs, map[string]interface{}{"what": "the gateway's answer to the query with shared fragments", "got": firstN(got, 200)})
			return
		}
	case <-patient(2 * time.Second):
		// the planning goes on (and eats memory): end the run here; bin/check re-runs the journalled case alone
		// (the planning goes on in its goroutine: this case runs last)
		rep.Fail("impl_ne_spec", nil, cs, map[string]interface{}{"what": "the gateway needs more than 2 s to plan a 1 KB query whose fragments spread each other twice (planning exponential in the number of fragments)"})
		return
	}
	rep.Count("gateway_fragment_bomb")
	rep.Eval("gateway-bomb", true, cs)
}
