package main

// C13 — Row codec round trip.
// Implementation: sqlgen.Schema.UnbuildStruct / BuildStruct (the Valuer/Scanner pair of
// internal/fields), sqlgen.MakeTester, livesql.FilterToProto / FilterFromProto through the
// marshalled protobuf.  Model: ThunderModel/Sql/Codec.lean (`tmodel C13`).

import (
	"bytes"
	"database/sql/driver"
	"encoding/json"
	"fmt"
	"math"
	"os"
	"reflect"
	"strconv"
	"time"

	"github.com/samsarahq/thunder/livesql"
	"github.com/samsarahq/thunder/sqlgen"
	"github.com/samsarahq/thunder/thunderpb"
)

func init() { register("C13", runC13) }

type c13NamedS string
type c13NamedI int16

// c13NamedB: a named type over []byte (finding C13-5)
type c13NamedB []byte

// c13Scan: a column type with its own Scan / Value written against driver.Value kinds, stored in an INT column
// (finding C13-8: the change log hands an INT column over as int32)
type c13Scan struct{ N int32 }

func (s c13Scan) Value() (driver.Value, error) { return int64(s.N), nil }
func (s *c13Scan) Scan(src interface{}) error {
	switch x := src.(type) {
	case int64:
		s.N = int32(x)
		return nil
	case []byte:
		n, err := strconv.ParseInt(string(x), 10, 32)
		s.N = int32(n)
		return err
	}
	return fmt.Errorf("c13Scan: int64 or []byte expected, got %T", src)
}

type c13Text struct{ V string }

func (t c13Text) MarshalText() ([]byte, error) { return []byte("T:" + t.V), nil }
func (t *c13Text) UnmarshalText(b []byte) error {
	t.V = string(bytes.TrimPrefix(b, []byte("T:")))
	return nil
}

type c13Bin struct{ N uint16 }

func (b c13Bin) Marshal() ([]byte, error) { return []byte{byte(b.N >> 8), byte(b.N)}, nil }
func (b *c13Bin) Unmarshal(x []byte) error {
	if len(x) != 2 {
		return fmt.Errorf("c13Bin: bad length %d", len(x))
	}
	b.N = uint16(x[0])<<8 | uint16(x[1])
	return nil
}

// encoders with pointer receivers: only a pointer to the value implements them
type c13PText struct{ V string }

func (t *c13PText) MarshalText() ([]byte, error) { return []byte("P:" + t.V), nil }
func (t *c13PText) UnmarshalText(b []byte) error {
	t.V = string(bytes.TrimPrefix(b, []byte("P:")))
	return nil
}

type c13PBin struct{ N uint16 }

func (b *c13PBin) Marshal() ([]byte, error) { return []byte{byte(b.N), byte(b.N >> 8), 7}, nil }
func (b *c13PBin) Unmarshal(x []byte) error {
	if len(x) != 3 {
		return fmt.Errorf("c13PBin: bad length %d", len(x))
	}
	b.N = uint16(x[0]) | uint16(x[1])<<8
	return nil
}

type c13JSON struct {
	A int    `json:"a"`
	B string `json:"b"`
}

type c13Row struct {
	Id   int64 `sql:",primary"`
	I8   int8
	I16  int16
	I32  int32
	I64  int64
	I    int
	U8   uint8
	U16  uint16
	U32  uint32
	U64  uint64
	U    uint
	B    bool
	F32  float32
	F64  float64
	S    string
	By   []byte
	T    time.Time
	PI64 *int64
	PU8  *uint8
	PU64 *uint64
	PS   *string
	PB   *bool
	PF   *float64
	PT   *time.Time
	NI32 int32     `sql:",implicitnull"`
	NS   string    `sql:",implicitnull"`
	NU64 uint64    `sql:",implicitnull"`
	NB   bool      `sql:",implicitnull"`
	NF   float64   `sql:",implicitnull"`
	NT   time.Time `sql:",implicitnull"`
	NmS  c13NamedS
	NmI  c13NamedI
	Txt  c13Text   `sql:",string"`
	Bin  c13Bin    `sql:",binary"`
	Js   c13JSON   `sql:",json"`
	PTxt *c13Text  `sql:",string"`
	NTxt c13Text   `sql:",string,implicitnull"`
	PPTx *c13PText `sql:",string"`
	PPBn *c13PBin  `sql:",binary"`
	NmB  c13NamedB
	PNmB *c13NamedB
	Sc   c13Scan
	PSc  *c13Scan
}

var c13Schema *sqlgen.Schema

func c13Setup() {
	if c13Schema != nil {
		return
	}
	c13Schema = sqlgen.NewSchema()
	c13Schema.MustRegisterType("rows", sqlgen.UniqueId, c13Row{})
}

// ---- generation -------------------------------------------------------------------------

func c13Int(r *Rand, bits int, signed bool) int64 {
	var lo, hi int64
	if signed {
		if bits == 64 {
			lo, hi = math.MinInt64, math.MaxInt64
		} else {
			lo, hi = -(1 << uint(bits-1)), (1<<uint(bits-1))-1
		}
	}
	switch r.Intn(8) {
	case 0:
		return 0
	case 1:
		if signed {
			return lo
		}
		return 0
	case 2:
		if signed {
			return hi
		}
		return -1 // all ones: the unsigned maximum when converted
	case 3:
		return 1
	case 4:
		if signed {
			return -1
		}
		return 1 << uint(bits-1) // first value above the signed range
	default:
		v := int64(r.U64())
		if bits < 64 {
			v >>= uint(64 - bits)
		}
		return v
	}
}

var c13Strings = []string{"", "a", "0", "héllo", "x y", "NULL", "\x00z"}
var c13Floats = []float64{0, 1, -1.5, 0.1, 1e100, -1e-7, 3.4028234663852886e+38, 16777217}

func c13Time(r *Rand) time.Time {
	switch r.Intn(4) {
	case 0:
		return time.Time{}
	default:
		return time.Date(1971+r.Intn(80), time.Month(1+r.Intn(12)), 1+r.Intn(28), r.Intn(24), r.Intn(60), r.Intn(60), 0, time.UTC)
	}
}

func c13GenRow(r *Rand) *c13Row {
	row := &c13Row{}
	row.Id = c13Int(r, 64, true)
	row.I8 = int8(c13Int(r, 8, true))
	row.I16 = int16(c13Int(r, 16, true))
	row.I32 = int32(c13Int(r, 32, true))
	row.I64 = c13Int(r, 64, true)
	row.I = int(c13Int(r, 64, true))
	row.U8 = uint8(c13Int(r, 8, false))
	row.U16 = uint16(c13Int(r, 16, false))
	row.U32 = uint32(c13Int(r, 32, false))
	row.U64 = uint64(c13Int(r, 64, false))
	row.U = uint(c13Int(r, 64, false))
	row.B = r.Bool()
	row.F32 = float32(c13Floats[(r.Intn(len(c13Floats)-1)+5)%len(c13Floats)]) // not 1e100: +Inf as float32
	row.F64 = c13Floats[r.Intn(len(c13Floats))]
	row.S = c13Strings[r.Intn(len(c13Strings))]
	switch r.Intn(3) {
	case 0:
		row.By = nil
	case 1:
		row.By = []byte{}
	default:
		row.By = []byte(c13Strings[r.Intn(len(c13Strings))] + "\xff")
	}
	row.T = c13Time(r)
	if r.Bool() {
		v := c13Int(r, 64, true)
		row.PI64 = &v
	}
	if r.Bool() {
		v := uint8(c13Int(r, 8, false))
		row.PU8 = &v
	}
	if r.Bool() {
		v := uint64(c13Int(r, 64, false))
		row.PU64 = &v
	}
	if r.Bool() {
		v := c13Strings[r.Intn(len(c13Strings))]
		row.PS = &v
	}
	if r.Bool() {
		v := r.Bool()
		row.PB = &v
	}
	if r.Bool() {
		v := c13Floats[r.Intn(len(c13Floats))]
		row.PF = &v
	}
	if r.Bool() {
		v := c13Time(r)
		row.PT = &v
	}
	if r.Bool() {
		row.NI32 = int32(c13Int(r, 32, true))
	}
	if r.Bool() {
		row.NS = c13Strings[r.Intn(len(c13Strings))]
	}
	if r.Bool() {
		row.NU64 = uint64(c13Int(r, 64, false))
	}
	row.NB = r.Bool()
	if r.Bool() {
		row.NF = c13Floats[r.Intn(len(c13Floats))]
	}
	if r.Bool() {
		row.NT = c13Time(r)
	}
	row.NmS = c13NamedS(c13Strings[r.Intn(len(c13Strings))])
	row.NmI = c13NamedI(c13Int(r, 16, true))
	row.Txt = c13Text{V: c13Strings[r.Intn(len(c13Strings))]}
	row.Bin = c13Bin{N: uint16(c13Int(r, 16, false))}
	row.Js = c13JSON{A: r.Intn(5), B: c13Strings[r.Intn(5)]}
	if r.Bool() {
		row.PTxt = &c13Text{V: c13Strings[r.Intn(len(c13Strings))]}
	}
	if r.Bool() {
		row.NTxt = c13Text{V: c13Strings[r.Intn(len(c13Strings))]}
	}
	if r.Bool() {
		row.PPTx = &c13PText{V: c13Strings[r.Intn(len(c13Strings))]}
	}
	if r.Bool() {
		row.PPBn = &c13PBin{N: uint16(c13Int(r, 16, false))}
	}
	switch r.Intn(3) {
	case 1:
		row.NmB = c13NamedB{}
	case 2:
		row.NmB = c13NamedB(c13Strings[r.Intn(len(c13Strings))] + "\xfe")
	}
	if r.Bool() {
		v := c13NamedB(c13Strings[r.Intn(len(c13Strings))] + "p") // never nil inside: a pointer to a nil slice is NULL, as for *[]byte
		row.PNmB = &v
	}
	row.Sc = c13Scan{N: int32(c13Int(r, 32, true))}
	if r.Bool() {
		row.PSc = &c13Scan{N: int32(c13Int(r, 32, true))}
	}
	return row
}

// ---- descriptors and tokens -------------------------------------------------------------

type c13Col struct {
	Name  string
	Index int
	Kind  interface{} // model wire form
	Ptr   bool
	INull bool
	Base  reflect.Type // type with pointer removed
	table map[string]int
}

func c13Cols() []*c13Col {
	c13Setup()
	t := c13Schema.ByName["rows"]
	var cols []*c13Col
	for _, c := range t.Columns {
		d := c.Descriptor
		col := &c13Col{Name: c.Name, Index: c.Index[0], Ptr: d.Ptr, INull: d.Tags.Contains("implicitnull"), Base: d.Type, table: map[string]int{}}
		enc := d.Tags.Contains("string") || d.Tags.Contains("binary") || d.Tags.Contains("json")
		switch {
		case enc:
			col.Kind = "enc"
		case d.Type == reflect.TypeOf(time.Time{}):
			col.Kind = "time"
		case d.Type.Kind() == reflect.Slice && d.Type.Elem().Kind() == reflect.Uint8:
			col.Kind = "bytes"
		case d.Type == reflect.TypeOf(c13Scan{}):
			col.Kind = map[string]interface{}{"int": []interface{}{32, true}}
		default:
			switch d.Kind {
			case reflect.Bool:
				col.Kind = "bool"
			case reflect.Float32, reflect.Float64:
				col.Kind = "float"
			case reflect.String:
				col.Kind = "str"
			case reflect.Int8, reflect.Uint8:
				col.Kind = map[string]interface{}{"int": []interface{}{8, d.Kind == reflect.Int8}}
			case reflect.Int16, reflect.Uint16:
				col.Kind = map[string]interface{}{"int": []interface{}{16, d.Kind == reflect.Int16}}
			case reflect.Int32, reflect.Uint32:
				col.Kind = map[string]interface{}{"int": []interface{}{32, d.Kind == reflect.Int32}}
			case reflect.Int64, reflect.Int, reflect.Uint64, reflect.Uint:
				col.Kind = map[string]interface{}{"int": []interface{}{64, d.Kind == reflect.Int64 || d.Kind == reflect.Int}}
			}
		}
		// token 0 = the zero value
		col.tok(c13Content(reflect.Zero(d.Type)))
		cols = append(cols, col)
	}
	return cols
}

func (c *c13Col) desc() map[string]interface{} {
	return map[string]interface{}{"kind": c.Kind, "ptr": c.Ptr, "inull": c.INull}
}

func (c *c13Col) tok(content string) int {
	if content == "float:NaN" {
		return -1
	}
	if t, ok := c.table[content]; ok {
		return t
	}
	t := len(c.table)
	c.table[content] = t
	return t
}

// c13Content is the harness's own canonical text of the stored content of an opaque value
// (float / string / bytes / time / encoded): what the column holds, independent of thunder.
func c13Content(v reflect.Value) string {
	switch x := v.Interface().(type) {
	case time.Time:
		return "time:" + x.UTC().Format("2006-01-02 15:04:05")
	case []byte:
		return "bytes:" + string(x)
	case c13NamedB:
		return "bytes:" + string(x)
	case c13Text:
		b, _ := x.MarshalText()
		return "bytes:" + string(b)
	case c13Bin:
		b, _ := x.Marshal()
		return "bytes:" + string(b)
	case c13JSON:
		b, _ := json.Marshal(x)
		return "bytes:" + string(b)
	case c13PText:
		b, _ := (&x).MarshalText()
		return "bytes:" + string(b)
	case c13PBin:
		b, _ := (&x).Marshal()
		return "bytes:" + string(b)
	}
	switch v.Kind() {
	case reflect.Float32, reflect.Float64:
		if math.IsNaN(v.Float()) {
			return "float:NaN"
		}
		return "float:" + strconv.FormatFloat(v.Float(), 'g', -1, 64)
	case reflect.String:
		return "bytes:" + v.String()
	}
	return fmt.Sprintf("other:%v", v.Interface())
}

// fv encodes a field value for the model.
func (c *c13Col) fv(v reflect.Value) interface{} {
	if v.Kind() == reflect.Ptr {
		if v.IsNil() {
			return nil
		}
		v = v.Elem()
	}
	if v.Kind() == reflect.Slice && v.IsNil() {
		return nil
	}
	switch k := c.Kind.(type) {
	case string:
		switch k {
		case "bool":
			return map[string]interface{}{"b": v.Bool()}
		case "float":
			return map[string]interface{}{"f": c.tok(c13Content(v))}
		case "str":
			return map[string]interface{}{"s": c.tok(c13Content(v))}
		case "bytes":
			return map[string]interface{}{"y": c.tok(c13Content(v))}
		case "time":
			return map[string]interface{}{"t": c.tok(c13Content(v))}
		case "enc":
			return map[string]interface{}{"e": c.tok(c13Content(v))}
		}
	}
	if sc, ok := v.Interface().(c13Scan); ok {
		return map[string]interface{}{"i": []interface{}{32, true, int64(sc.N)}}
	}
	return c13IntFV(v)
}

func c13IntFV(v reflect.Value) interface{} {
	bits := v.Type().Bits()
	switch v.Kind() {
	case reflect.Int, reflect.Int8, reflect.Int16, reflect.Int32, reflect.Int64:
		return map[string]interface{}{"i": []interface{}{bits, true, v.Int()}}
	default:
		return map[string]interface{}{"i": []interface{}{bits, false, v.Uint()}}
	}
}

// dv encodes a driver value produced by the implementation.
func (c *c13Col) dv(v driver.Value) interface{} {
	switch x := v.(type) {
	case nil:
		return nil
	case int64:
		return map[string]interface{}{"int": x}
	case bool:
		return map[string]interface{}{"bool": x}
	case float64:
		return map[string]interface{}{"float": c.tok(c13Content(reflect.ValueOf(x)))}
	case string:
		return map[string]interface{}{"str": c.tok("bytes:" + x)}
	case []byte:
		return map[string]interface{}{"bytes": c.tok("bytes:" + string(x))}
	case time.Time:
		return map[string]interface{}{"time": c.tok(c13Content(reflect.ValueOf(x)))}
	}
	if rv := reflect.ValueOf(v); rv.Kind() == reflect.Slice && rv.Type().Elem().Kind() == reflect.Uint8 {
		// driver.DefaultParameterConverter: a named byte slice goes to the driver as its bytes
		return map[string]interface{}{"bytes": c.tok("bytes:" + string(rv.Bytes()))}
	}
	return map[string]interface{}{"unknown": fmt.Sprintf("%T", v)}
}

// c13Repr produces the Go value a source hands to Scan for stored value dv of column c.
func c13Repr(rep string, c *c13Col, dv driver.Value) driver.Value {
	if rv := reflect.ValueOf(dv); dv != nil && rv.Kind() == reflect.Slice && rv.Type() != reflect.TypeOf([]byte(nil)) && rv.Type().Elem().Kind() == reflect.Uint8 {
		dv = append([]byte{}, rv.Bytes()...) // what MySQL stored
	}
	switch x := dv.(type) {
	case int64:
		switch rep {
		case "text":
			return []byte(strconv.FormatInt(x, 10))
		case "binlog":
			if c.Base == reflect.TypeOf(c13Scan{}) {
				return int32(x) // an INT column
			}
			switch c.Base.Kind() {
			case reflect.Int8, reflect.Uint8:
				return int8(x)
			case reflect.Int16, reflect.Uint16:
				return int16(x)
			case reflect.Int32, reflect.Uint32:
				return int32(x)
			}
			return x
		}
		return x
	case bool:
		n := int64(0)
		if x {
			n = 1
		}
		switch rep {
		case "text":
			return []byte(strconv.FormatInt(n, 10))
		case "binlog":
			return int8(n)
		}
		return n
	case float64:
		switch rep {
		case "text":
			return []byte(strconv.FormatFloat(x, 'g', -1, 64))
		case "binlog":
			if c.Base.Kind() == reflect.Float32 {
				return float32(x)
			}
		}
		return x
	case string:
		if rep == "binlog" {
			return x
		}
		return []byte(x)
	case time.Time:
		switch rep {
		case "driver":
			return x
		case "text":
			return []byte(x.Format("2006-01-02 15:04:05"))
		default:
			return x.Format("2006-01-02 15:04:05")
		}
	}
	return dv
}

func c13RowEqual(a, b *c13Row) bool {
	va, vb := reflect.ValueOf(*a), reflect.ValueOf(*b)
	for i := 0; i < va.NumField(); i++ {
		fa, fb := va.Field(i), vb.Field(i)
		if fa.Kind() == reflect.Ptr {
			if fa.IsNil() != fb.IsNil() {
				return false
			}
			if fa.IsNil() {
				continue
			}
			fa, fb = fa.Elem(), fb.Elem()
		}
		if ta, ok := fa.Interface().(time.Time); ok {
			if !ta.Equal(fb.Interface().(time.Time)) {
				return false
			}
			continue
		}
		if !reflect.DeepEqual(fa.Interface(), fb.Interface()) {
			return false
		}
	}
	return true
}

func c13FVs(cols []*c13Col, row *c13Row) []interface{} {
	v := reflect.ValueOf(*row)
	out := make([]interface{}, len(cols))
	for i, c := range cols {
		out[i] = c.fv(v.Field(c.Index))
	}
	return out
}

func c13One(c *Ctx, m *Model, row *c13Row) {
	rep := c.Rep
	cols := c13Cols()
	descs := make([]interface{}, len(cols))
	for i, col := range cols {
		descs[i] = col.desc()
	}
	vals := c13FVs(cols, row)
	resp, err := m.Call(map[string]interface{}{"op": "row", "descs": descs, "vals": vals})
	if err != nil {
		rep.Fail("harness_error", nil, row, map[string]interface{}{"error": err.Error()})
		return
	}
	// UnbuildStruct
	var dvs []interface{}
	var uerr error
	if p := safely(func() { dvs, uerr = c13Schema.UnbuildStruct("rows", row) }); p != nil {
		uerr = fmt.Errorf("panic: %v", p)
	}
	if uerr != nil {
		rep.Fail("impl_ne_spec", nil, row, map[string]interface{}{"what": "UnbuildStruct failed", "error": uerr.Error()})
		return
	}
	implDVs := make([]interface{}, len(cols))
	for i, col := range cols {
		implDVs[i] = col.dv(dvs[i])
	}
	if Canon(implDVs) != Canon(resp["dvs"]) {
		rep.Fail("impl_ne_model", nil, row, map[string]interface{}{"what": "driver values differ from model unbuild", "impl": implDVs, "model": resp["dvs"]})
	}
	// BuildStruct from each representation
	for _, r := range []string{"driver", "text", "binlog"} {
		src := make([]driver.Value, len(cols))
		for i, col := range cols {
			src[i] = c13Repr(r, col, dvs[i])
		}
		var built interface{}
		var berr error
		if p := safely(func() { built, berr = c13Schema.BuildStruct("rows", src) }); p != nil {
			berr = fmt.Errorf("panic: %v", p)
		}
		if berr != nil {
			rep.Fail("impl_ne_spec", nil, row, map[string]interface{}{"what": "BuildStruct(" + r + ") failed on a row produced by UnbuildStruct", "error": berr.Error()})
			continue
		}
		b := built.(*c13Row)
		if !c13RowEqual(row, b) {
			rep.Fail("impl_ne_spec", nil, row, map[string]interface{}{"what": "struct does not survive the round trip through its " + r + " representation", "rebuilt": b})
		}
		implBuilt := map[string]interface{}{"ok": c13FVs(cols, b)}
		if Canon(implBuilt) != Canon(resp[r]) {
			rep.Fail("impl_ne_model", nil, row, map[string]interface{}{"what": "rebuilt struct differs from model build (" + r + ")", "impl": implBuilt, "model": resp[r]})
		}
		rep.Count("rep:" + r)
	}
	// wrong length is rejected
	if _, err := c13Schema.BuildStruct("rows", dvsToDriver(dvs[1:])); err == nil {
		rep.Fail("impl_ne_spec", nil, row, map[string]interface{}{"what": "BuildStruct accepted a row with a missing column"})
	}
	// tester: the row's own column values match the row
	filter := sqlgen.Filter{}
	rv := reflect.ValueOf(*row)
	hasNaN := false
	for _, col := range cols {
		filter[col.Name] = rv.Field(col.Index).Interface()
	}
	tester, err := c13Schema.MakeTester("rows", filter)
	if err != nil {
		rep.Fail("impl_ne_spec", nil, row, map[string]interface{}{"what": "MakeTester failed", "error": err.Error()})
	} else {
		ok := tester.Test(row)
		if !ok && !hasNaN {
			rep.Fail("impl_ne_spec", nil, row, map[string]interface{}{"what": "a filter made from the row's own column values does not match the row"})
		}
		if mt, _ := resp["testSelf"].(bool); mt != ok {
			rep.Fail("impl_ne_model", nil, row, map[string]interface{}{"what": "tester verdict differs from model", "impl": ok, "model": mt})
		}
	}
	rep.Eval(Canon(vals), true, map[string]interface{}{"row": row})
}

func dvsToDriver(in []interface{}) []driver.Value {
	out := make([]driver.Value, len(in))
	for i, v := range in {
		out[i] = v
	}
	return out
}

// ---- filters through protobuf -----------------------------------------------------------

// c13FilterValue picks a value for column col: the column's own type, another integer type
// holding a value of the column's range, a pointer, or nil.
func c13FilterValue(r *Rand, col *c13Col, row *c13Row) (interface{}, interface{}) {
	fv := reflect.ValueOf(*row).Field(col.Index)
	if r.Chance(0.1) {
		return nil, nil
	}
	if _, isInt := col.Kind.(map[string]interface{}); isInt && col.Base != reflect.TypeOf(c13Scan{}) {
		base := fv
		if base.Kind() == reflect.Ptr {
			if base.IsNil() {
				return nil, nil
			}
			base = base.Elem()
		}
		switch base.Kind() {
		case reflect.Int, reflect.Int8, reflect.Int16, reflect.Int32, reflect.Int64:
			x := base.Int()
			switch r.Intn(4) {
			case 0:
				return x, c13IntFV(reflect.ValueOf(x))
			case 1:
				return int(x), c13IntFV(reflect.ValueOf(int(x)))
			case 2:
				if x >= 0 {
					return uint64(x), c13IntFV(reflect.ValueOf(uint64(x)))
				}
			}
		default:
			x := base.Uint()
			switch r.Intn(3) {
			case 0:
				return x, c13IntFV(reflect.ValueOf(x))
			case 1:
				if x <= math.MaxInt64 {
					return int64(x), c13IntFV(reflect.ValueOf(int64(x)))
				}
			}
		}
	}
	return fv.Interface(), col.fv(fv)
}

func c13Proto(c *Ctx, m *Model, r *Rand, row *c13Row, others []*c13Row) {
	rep := c.Rep
	cols := c13Cols()
	col := cols[r.Intn(len(cols))]
	val, fvEnc := c13FilterValue(r, col, row)
	cs := map[string]interface{}{"column": col.Name, "value": fmt.Sprintf("%T(%v)", val, derefPrint(val))}
	filter := sqlgen.Filter{col.Name: val}
	var back sqlgen.Filter
	var perr error
	if p := safely(func() {
		var pb *thunderpb.SQLFilter
		pb, perr = livesql.FilterToProto(c13Schema, "rows", filter)
		if perr != nil {
			return
		}
		wire, err := pb.Marshal()
		if err != nil {
			perr = err
			return
		}
		var pb2 thunderpb.SQLFilter
		if err := pb2.Unmarshal(wire); err != nil {
			perr = err
			return
		}
		_, back, perr = livesql.FilterFromProto(c13Schema, &pb2)
	}); p != nil {
		rep.Fail("impl_ne_spec", nil, cs, map[string]interface{}{"what": "filter proto round trip panicked", "panic": fmt.Sprint(p)})
		return
	}
	resp, err := m.Call(map[string]interface{}{"op": "proto", "desc": col.desc(), "x": fvEnc})
	if err != nil {
		rep.Fail("harness_error", nil, cs, map[string]interface{}{"error": err.Error()})
		return
	}
	mres, _ := resp["res"].(map[string]interface{})
	_, modelErr := mres["err"]
	if (perr != nil) != modelErr {
		rep.Fail("impl_ne_model", nil, cs, map[string]interface{}{"what": "accept/reject differs from model viaProto", "impl_error": fmt.Sprint(perr), "model": mres})
	}
	rep.Count("proto")
	if perr != nil {
		rep.Count("proto:rejected")
		return
	}
	implBack := col.fv(reflect.ValueOf(back[col.Name]))
	if !modelErr && Canon(implBack) != Canon(mres["ok"]) {
		rep.Fail("impl_ne_model", nil, cs, map[string]interface{}{"what": "shipped filter value differs from model", "impl": implBack, "model": mres["ok"]})
	}
	t1, e1 := c13Schema.MakeTester("rows", filter)
	t2, e2 := c13Schema.MakeTester("rows", back)
	if e1 != nil || e2 != nil {
		rep.Fail("impl_ne_spec", nil, cs, map[string]interface{}{"what": "MakeTester failed", "e1": fmt.Sprint(e1), "e2": fmt.Sprint(e2)})
		return
	}
	for _, o := range append([]*c13Row{row}, others...) {
		if t1.Test(o) != t2.Test(o) {
			rep.Fail("impl_ne_spec", nil, cs, map[string]interface{}{"what": "filter matches different rows after its protobuf round trip", "row": o, "before": t1.Test(o), "after": t2.Test(o)})
			break
		}
	}
}

func derefPrint(v interface{}) interface{} {
	rv := reflect.ValueOf(v)
	if rv.IsValid() && rv.Kind() == reflect.Ptr && !rv.IsNil() {
		return rv.Elem().Interface()
	}
	return v
}

func runC13(c *Ctx) error {
	m, err := StartModel("C13")
	if err != nil {
		return err
	}
	defer m.Close()
	if c.Replay == "" {
		kfReproC13(c.Rep)
	}
	if p := safely(func() { c13Setup() }); p != nil {
		// the reproducers above have the concrete inputs; the generated table cannot be built at all
		c13Schema = nil
		c.Rep.Fail("impl_ne_spec", nil, map[string]interface{}{"table": "c13Row"}, map[string]interface{}{"what": "a table struct made of supported field types is refused at registration", "panic": firstN(fmt.Sprint(p), 300)})
		return nil
	}
	c.Rep.Rule = "random values of a 41-column table struct (every integer width/signedness at its extremes, bool, float32/64, string, []byte nil/empty, time, pointers, implicitnull, named types incl. a named []byte and a pointer to one, a column type with its own Scan / Value stored in an INT column, string/binary/json-tagged fields) x 3 source representations (int64 / text / typed binlog); filters shipped through the marshalled protobuf; every case non-trivial; distinct by the model encoding of the row"
	c.Rep.Assumptions = append(c.Rep.Assumptions,
		"Env laws (opaque tokens): strconv/encoding text of a float, the MySQL text of a time and the (un)marshalers of tagged fields parse back to the same value; exercised here on real values",
		"source representations are produced by the harness the way database/sql (binary and text protocol) and go-mysql (typed, signed integers of the column width; strings) produce them",
		"uint64 above MaxInt64 is stored as the wrapped int64 the Valuer produces; its unsigned decimal text is outside the modelled sources")
	if c.Replay != "" {
		var f struct {
			Case c13Row `json:"case"`
		}
		b, err := os.ReadFile(c.Replay)
		if err != nil {
			return err
		}
		if err := json.Unmarshal(b, &f); err != nil {
			return err
		}
		c13One(c, m, &f.Case)
		return nil
	}
	n := c.N(1500, 80000)
	var recent []*c13Row
	for i := 0; i < n; i++ {
		row := c13GenRow(c.Rng)
		c13One(c, m, row)
		recent = append(recent, row)
		if len(recent) > 6 {
			recent = recent[1:]
		}
		for k := 0; k < 3; k++ {
			c13Proto(c, m, c.Rng, row, recent)
		}
	}
	return nil
}
