package main

// C12 — A shard-limited DB handle can never read or write outside its shard.

import (
	"context"
	"encoding/json"
	"fmt"
	"os"
	"sort"
	"strings"
	"sync"

	"github.com/samsarahq/thunder/batch"
	"github.com/samsarahq/thunder/sqlgen"
)

func init() { register("C12", runC12) }

type c12Row struct {
	Id    int64 `sql:",primary"`
	Shard int64
	Org   *int64
	Name  string
	N     int64
}

// c12Auto: a table with a composite primary key registered as AutoIncrement: an INSERT leaves the primary-key
// columns out, so on a handle limited on `shard` no insert into it can comply
type c12Auto struct {
	Shard int64 `sql:",primary"`
	Id    int64 `sql:",primary"`
	Name  string
	N     int64
}

var c12Cols = []string{"id", "shard", "org", "name", "n"}
var c12ColID = map[string]int{"id": 0, "shard": 1, "org": 2, "name": 3, "n": 4}

// a filter / limit value as the harness describes it: Go type tag and integer payload (nil: Nil)
type c12Val struct {
	Ty  int   `json:"ty"` // 0 int64, 1 int, 2 *int64, 3 string
	V   int64 `json:"v"`
	Nil bool  `json:"nil"`
}

func (v c12Val) goValue() interface{} {
	if v.Nil {
		return nil
	}
	switch v.Ty {
	case 0:
		return v.V
	case 1:
		return int(v.V)
	case 2:
		x := v.V
		return &x
	case 3:
		return fmt.Sprintf("s%d", v.V)
	}
	return v.V
}

func (v c12Val) enc() interface{} {
	if v.Nil {
		return nil
	}
	return map[string]interface{}{"ty": v.Ty, "v": v.V}
}

type c12KV struct {
	Col string `json:"col"`
	Val c12Val `json:"val"`
}

func c12EncKVs(kvs []c12KV) interface{} {
	out := []interface{}{}
	for _, kv := range kvs {
		out = append(out, []interface{}{c12ColID[kv.Col], kv.Val.enc()})
	}
	return out
}

func c12Filter(kvs []c12KV) sqlgen.Filter {
	f := sqlgen.Filter{}
	for _, kv := range kvs {
		f[kv.Col] = kv.Val.goValue()
	}
	return f
}

type c12Handle struct {
	Shard    []c12KV `json:"shard"`
	Dyn      []c12KV `json:"dyn"`
	HasDyn   bool    `json:"has_dyn"`
	DynNil   bool    `json:"dyn_nil"` // the callback returns no filter for the table
	Continue bool    `json:"continue"`
	DynFirst bool    `json:"dyn_first,omitempty"` // WithDynamicLimit(...).WithShardLimit(...) instead of the other order
	NilCont  bool    `json:"nil_cont,omitempty"`  // the dynamic limit is given without ShouldContinueOnError: nothing may continue
}

func (h c12Handle) enc() interface{} {
	out := map[string]interface{}{"shard": nil, "dyn": nil}
	if h.Shard != nil {
		out["shard"] = c12EncKVs(h.Shard)
	}
	if h.HasDyn {
		var f interface{}
		if !h.DynNil {
			f = c12EncKVs(h.Dyn)
		}
		out["dyn"] = map[string]interface{}{"filter": f, "continue": h.Continue && !h.NilCont}
	}
	return out
}

func (h c12Handle) open(base *sqlgen.DB) (*sqlgen.DB, error) {
	db := base
	var err error
	// the two limits in either order of derivation
	if h.Shard != nil && !h.DynFirst {
		if db, err = db.WithShardLimit(c12Filter(h.Shard)); err != nil {
			return nil, err
		}
	}
	if h.HasDyn {
		cont := h.Continue
		var f sqlgen.Filter
		if !h.DynNil {
			f = c12Filter(h.Dyn)
		}
		dl := sqlgen.DynamicLimit{GetLimitFilter: func(context.Context, string) sqlgen.Filter { return f }}
		if !h.NilCont {
			dl.ShouldContinueOnError = func(error, string) bool { return cont }
		}
		if db, err = db.WithDynamicLimit(dl); err != nil {
			return nil, err
		}
	}
	if h.Shard != nil && h.DynFirst {
		if db, err = db.WithShardLimit(c12Filter(h.Shard)); err != nil {
			return nil, err
		}
	}
	return db, nil
}

type c12Call struct {
	Op     string    `json:"op"` // query | queryRow | count | insertRow | upsertRow | insertRows | upsertRows | updateRow | deleteRow
	Filter []c12KV   `json:"filter,omitempty"`
	Rows   [][]int64 `json:"rows,omitempty"` // id, shard, org (-1: NULL), n
	Chunk  int       `json:"chunk,omitempty"`
	Tx     bool      `json:"tx"`
	Where  int       `json:"where,omitempty"` // query / queryRow with SelectOptions.Where = c12Wheres[Where-1]
	Auto   bool      `json:"auto,omitempty"`  // insertRow / insertRows into the AutoIncrement table
}

// custom WHERE clauses handed to Query / QueryRow through SelectOptions: the limits must confine the whole
// statement, whatever the clause's own structure (a top-level OR must not escape the filter)
var c12Wheres = []struct {
	where  string
	values []interface{}
}{
	{"n = ?", []interface{}{int64(10)}},
	{"n = ? OR n = ?", []interface{}{int64(10), int64(20)}},
	{"id = ? AND n = ? OR id = ?", []interface{}{int64(1), int64(10), int64(2)}},
	{"(n = ? OR id = ?) AND n IN (?, ?)", []interface{}{int64(0), int64(3), int64(0), int64(10)}},
	// other spellings of a top-level disjunction
	{"n = ? or n = ?", []interface{}{int64(10), int64(20)}},
	{"id = ? AND n = ? Or id = ?", []interface{}{int64(1), int64(10), int64(2)}},
	{"n = ?\nOR\tn = ?", []interface{}{int64(10), int64(20)}},
	{"n = ? || id = ?", []interface{}{int64(10), int64(2)}},
}

func (cl c12Call) options() *sqlgen.SelectOptions {
	if cl.Where == 0 {
		return nil
	}
	w := c12Wheres[cl.Where-1]
	return &sqlgen.SelectOptions{Where: w.where, Values: append([]interface{}{}, w.values...)}
}

type c12Case struct {
	Handle c12Handle `json:"handle"`
	Call   c12Call   `json:"call"`
}

func c12MkRow(r []int64) *c12Row {
	row := &c12Row{Id: r[0], Shard: r[1], Name: "x", N: r[3]}
	if r[2] >= 0 {
		o := r[2]
		row.Org = &o
	}
	return row
}

// the column values sqlgen derives from a row (all columns, in table order)
func c12RowKVs(r []int64) []c12KV {
	out := []c12KV{{"id", c12Val{Ty: 0, V: r[0]}}, {"shard", c12Val{Ty: 0, V: r[1]}}}
	if r[2] >= 0 {
		out = append(out, c12KV{"org", c12Val{Ty: 0, V: r[2]}})
	} else {
		out = append(out, c12KV{"org", c12Val{Nil: true}})
	}
	out = append(out, c12KV{"name", c12Val{Ty: 3, V: 0}}, c12KV{"n", c12Val{Ty: 0, V: r[3]}})
	return out
}

// the column values of an insert into the AutoIncrement table: the primary-key columns are not part of the statement
func c12AutoKVs(r []int64) []c12KV {
	return []c12KV{{"name", c12Val{Ty: 3, V: 0}}, {"n", c12Val{Ty: 0, V: r[3]}}}
}

func (cl c12Call) enc() interface{} {
	if cl.Auto {
		if cl.Op == "insertRow" {
			return map[string]interface{}{"op": "insertRow", "row": c12EncKVs(c12AutoKVs(cl.Rows[0])), "upsert": false}
		}
		rows := []interface{}{}
		for _, r := range cl.Rows {
			rows = append(rows, c12EncKVs(c12AutoKVs(r)))
		}
		return map[string]interface{}{"op": "insertRows", "rows": rows, "chunk": cl.Chunk, "upsert": false}
	}
	switch cl.Op {
	case "query", "queryRow", "count":
		return map[string]interface{}{"op": "query", "filter": c12EncKVs(cl.Filter)}
	case "insertRow", "upsertRow":
		return map[string]interface{}{"op": "insertRow", "row": c12EncKVs(c12RowKVs(cl.Rows[0])), "upsert": cl.Op == "upsertRow"}
	case "insertRows", "upsertRows":
		rows := []interface{}{}
		for _, r := range cl.Rows {
			rows = append(rows, c12EncKVs(c12RowKVs(r)))
		}
		return map[string]interface{}{"op": "insertRows", "rows": rows, "chunk": cl.Chunk, "upsert": cl.Op == "upsertRows"}
	case "updateRow":
		kvs := c12RowKVs(cl.Rows[0])
		return map[string]interface{}{"op": "updateRow", "pk": c12EncKVs(kvs[:1]), "rest": c12EncKVs(kvs[1:])}
	case "deleteRow":
		kvs := c12RowKVs(cl.Rows[0])
		return map[string]interface{}{"op": "deleteRow", "pk": c12EncKVs(kvs[:1])}
	}
	return nil
}

// c12Parsed is a received statement in the model's vocabulary: kind and (column, value) lists.
type c12Parsed struct {
	Kind  string
	Where [][]string // OR-branches of "col=value"
	Rows  [][]string
	Set   []string
}

func c12Val2Str(v interface{}) string {
	if v == nil {
		return "NULL"
	}
	return fmt.Sprint(v)
}

func c12ParseStmt(st fsStmt) (c12Parsed, error) {
	q := st.SQL
	var p c12Parsed
	whereOf := func(w string, args []interface{}) ([][]string, error) {
		cond, err := fsParseWhere(w)
		if err != nil {
			return nil, err
		}
		var out [][]string
		for _, g := range cond {
			// an IN group stands for one branch per value
			branches := [][]string{{}}
			for _, a := range g {
				vals := args[a.at : a.at+a.n]
				if a.op == "ISNULL" {
					for i := range branches {
						branches[i] = append(branches[i], a.col+"=NULL")
					}
				} else if a.op == "IN" {
					var nb [][]string
					for _, b := range branches {
						for _, v := range vals {
							nb = append(nb, append(append([]string{}, b...), a.col+"="+c12Val2Str(v)))
						}
					}
					branches = nb
				} else {
					for i := range branches {
						branches[i] = append(branches[i], a.col+"="+c12Val2Str(vals[0]))
					}
				}
			}
			out = append(out, branches...)
		}
		for _, b := range out {
			sort.Strings(b)
		}
		return out, nil
	}
	switch {
	case strings.HasPrefix(q, "SELECT"):
		m := fsSelectRe.FindStringSubmatch(q)
		if m == nil {
			return p, fmt.Errorf("unparsed %q", q)
		}
		p.Kind = "select"
		w, err := whereOf(m[3], st.Args)
		if err != nil {
			return p, err
		}
		if m[3] == "" {
			w = [][]string{{}}
		}
		p.Where = w
	case strings.HasPrefix(q, "INSERT"):
		m := fsInsertRe.FindStringSubmatch(q)
		if m == nil {
			return p, fmt.Errorf("unparsed %q", q)
		}
		p.Kind = "insert"
		if m[4] != "" {
			p.Kind = "upsert"
		}
		cols := strings.Split(m[2], ", ")
		for i := 0; i+len(cols) <= len(st.Args); i += len(cols) {
			var row []string
			for j, c := range cols {
				row = append(row, c+"="+c12Val2Str(st.Args[i+j]))
			}
			sort.Strings(row)
			p.Rows = append(p.Rows, row)
		}
	case strings.HasPrefix(q, "UPDATE"):
		m := fsUpdateRe.FindStringSubmatch(q)
		if m == nil {
			return p, fmt.Errorf("unparsed %q", q)
		}
		p.Kind = "update"
		var setCols []string
		for _, a := range strings.Split(m[2], ", ") {
			setCols = append(setCols, strings.TrimSuffix(a, " = ?"))
		}
		for j, c := range setCols {
			p.Set = append(p.Set, c+"="+c12Val2Str(st.Args[j]))
		}
		sort.Strings(p.Set)
		w, err := whereOf(m[3], st.Args[len(setCols):])
		if err != nil {
			return p, err
		}
		p.Where = w
	case strings.HasPrefix(q, "DELETE"):
		m := fsDeleteRe.FindStringSubmatch(q)
		if m == nil {
			return p, fmt.Errorf("unparsed %q", q)
		}
		p.Kind = "delete"
		w, err := whereOf(m[2], st.Args)
		if err != nil {
			return p, err
		}
		p.Where = w
	default:
		return p, fmt.Errorf("unparsed %q", q)
	}
	return p, nil
}

// c12Carries: the property itself on one received statement: every enforced limit column is pinned.
func c12Carries(p c12Parsed, enforced []string) bool {
	has := func(list []string, kv string) bool {
		for _, x := range list {
			if x == kv {
				return true
			}
		}
		return false
	}
	for _, kv := range enforced {
		switch p.Kind {
		case "select", "delete":
			if len(p.Where) == 0 {
				return false
			}
			for _, b := range p.Where {
				if !has(b, kv) {
					return false
				}
			}
		case "insert", "upsert":
			for _, r := range p.Rows {
				if !has(r, kv) {
					return false
				}
			}
		case "update":
			ok := has(p.Set, kv)
			for _, b := range p.Where {
				if has(b, kv) {
					ok = true
				}
			}
			if !ok {
				return false
			}
		}
	}
	return true
}

func c12ModelKVs(v interface{}) []string {
	var out []string
	for _, kv := range v.([]interface{}) {
		p := kv.([]interface{})
		col := c12Cols[int(toInt64(p[0]))]
		val := "NULL"
		if p[1] != nil {
			m := p[1].(map[string]interface{})
			val = fmt.Sprint(toInt64(m["v"]))
			if int(toInt64(m["ty"])) == 3 {
				val = "x"
			}
		}
		out = append(out, col+"="+val)
	}
	sort.Strings(out)
	return out
}

func c12ModelStmt(s map[string]interface{}) string {
	switch s["k"] {
	case "select":
		return "select " + fmt.Sprint(c12ModelKVs(s["where"]))
	case "insert":
		k := "insert"
		if s["upsert"].(bool) {
			k = "upsert"
		}
		var rows []string
		for _, r := range s["rows"].([]interface{}) {
			rows = append(rows, fmt.Sprint(c12ModelKVs(r)))
		}
		return k + " " + fmt.Sprint(rows)
	case "update":
		return "update set " + fmt.Sprint(c12ModelKVs(s["set"])) + " where " + fmt.Sprint(c12ModelKVs(s["where"]))
	case "delete":
		return "delete " + fmt.Sprint(c12ModelKVs(s["where"]))
	}
	return "?"
}

func c12ImplStmt(p c12Parsed) string {
	switch p.Kind {
	case "select":
		if len(p.Where) == 1 {
			return "select " + fmt.Sprint(p.Where[0])
		}
		return "selectBatch " + fmt.Sprint(p.Where)
	case "insert", "upsert":
		var rows []string
		for _, r := range p.Rows {
			rows = append(rows, fmt.Sprint(r))
		}
		return p.Kind + " " + fmt.Sprint(rows)
	case "update":
		w := []string{}
		if len(p.Where) > 0 {
			w = p.Where[0]
		}
		return "update set " + fmt.Sprint(p.Set) + " where " + fmt.Sprint(w)
	case "delete":
		w := []string{}
		if len(p.Where) > 0 {
			w = p.Where[0]
		}
		return "delete " + fmt.Sprint(w)
	}
	return "?"
}

type c12Env struct {
	fdb    *fsDB
	base   *sqlgen.DB
	schema *sqlgen.Schema
}

func c12NewEnv() *c12Env {
	fdb, conn := newFakeDB()
	fdb.createTable("rows", c12Cols, []string{"id"})
	fdb.createTable("autos", []string{"shard", "id", "name", "n"}, []string{"shard", "id"})
	schema := sqlgen.NewSchema()
	schema.MustRegisterType("rows", sqlgen.UniqueId, c12Row{})
	schema.MustRegisterType("autos", sqlgen.AutoIncrement, c12Auto{})
	// some rows of several shards
	for i := int64(1); i <= 12; i++ {
		org := driverNull(i%3, i%4 == 0)
		fdb.tables["rows"].Rows = append(fdb.tables["rows"].Rows, map[string]driverValue{"id": i, "shard": i % 3, "org": org, "name": "x", "n": i * 10})
	}
	return &c12Env{fdb: fdb, base: sqlgen.NewDB(conn, schema), schema: schema}
}

func (e *c12Env) call(db *sqlgen.DB, ctx context.Context, cl c12Call) error {
	if cl.Tx {
		var err error
		ctx, tx, err := db.WithTx(ctx)
		if err != nil {
			return err
		}
		defer tx.Rollback()
		_ = ctx
		return e.callIn(db, ctx, cl)
	}
	return e.callIn(db, ctx, cl)
}

func (e *c12Env) callIn(db *sqlgen.DB, ctx context.Context, cl c12Call) error {
	if cl.Auto {
		mk := func(r []int64) *c12Auto { return &c12Auto{Shard: r[1], Id: r[0], Name: "x", N: r[3]} }
		if cl.Op == "insertRow" {
			_, err := db.InsertRow(ctx, mk(cl.Rows[0]))
			return err
		}
		var rows []*c12Auto
		for _, r := range cl.Rows {
			rows = append(rows, mk(r))
		}
		return db.InsertRows(ctx, rows, cl.Chunk)
	}
	switch cl.Op {
	case "query":
		var out []*c12Row
		return db.Query(ctx, &out, c12Filter(cl.Filter), cl.options())
	case "queryRow":
		var out *c12Row
		return db.QueryRow(ctx, &out, c12Filter(cl.Filter), cl.options())
	case "count":
		_, err := db.Count(ctx, &c12Row{}, c12Filter(cl.Filter))
		return err
	case "insertRow":
		_, err := db.InsertRow(ctx, c12MkRow(cl.Rows[0]))
		return err
	case "upsertRow":
		_, err := db.UpsertRow(ctx, c12MkRow(cl.Rows[0]))
		return err
	case "insertRows", "upsertRows":
		var rows []*c12Row
		for _, r := range cl.Rows {
			rows = append(rows, c12MkRow(r))
		}
		if cl.Op == "insertRows" {
			return db.InsertRows(ctx, rows, cl.Chunk)
		}
		return db.UpsertRows(ctx, rows, cl.Chunk)
	case "updateRow":
		return db.UpdateRow(ctx, c12MkRow(cl.Rows[0]))
	case "deleteRow":
		return db.DeleteRow(ctx, c12MkRow(cl.Rows[0]))
	}
	return fmt.Errorf("unknown op %s", cl.Op)
}

func c12One(c *Ctx, m *Model, cs c12Case) {
	rep := c.Rep
	env := c12NewEnv()
	db, err := cs.Handle.open(env.base)
	if err != nil {
		rep.Fail("harness_error", nil, cs, map[string]interface{}{"error": err.Error()})
		return
	}
	env.fdb.resetLog()
	var callErr error
	if p := safely(func() { callErr = env.call(db, context.Background(), cs.Call) }); p != nil {
		rep.Fail("impl_ne_spec", nil, cs, map[string]interface{}{"what": "panic in a sqlgen.DB operation", "panic": firstN(fmt.Sprint(p), 300)})
		return
	}
	stmts := env.fdb.statements()
	resp, err := m.Call(map[string]interface{}{"op": "exec", "handle": cs.Handle.enc(), "call": cs.Call.enc()})
	if err != nil {
		rep.Fail("harness_error", nil, cs, map[string]interface{}{"error": err.Error()})
		return
	}
	enforced := c12ModelKVs(resp["enforced"])
	var impl []string
	for _, st := range stmts {
		p, err := c12ParseStmt(st)
		if err != nil {
			rep.Fail("harness_error", nil, cs, map[string]interface{}{"error": err.Error()})
			return
		}
		// the property, directly: whatever reached the driver is confined to the shard
		if !c12Carries(p, enforced) {
			rep.Fail("impl_ne_spec", nil, cs, map[string]interface{}{"what": "a statement reached the database that is not confined to the handle's limits", "statement": st, "enforced": enforced})
			return
		}
		impl = append(impl, c12ImplStmt(p))
	}
	mErr := resp["error"].(bool)
	limitErr := callErr != nil && strings.Contains(callErr.Error(), "check failed for db with")
	if mErr && !limitErr {
		rep.Fail("impl_ne_spec", nil, cs, map[string]interface{}{"what": "an operation that does not comply with the limits was not rejected by the limit check", "error": fmt.Sprint(callErr), "statements": stmts})
		return
	}
	if limitErr && len(stmts) > 0 {
		// the property, directly: a call that does not comply returns an error without touching the database
		rep.Fail("impl_ne_spec", nil, cs, map[string]interface{}{"what": "a call refused by the limit check had already sent statements to the database", "error": callErr.Error(), "statements": stmts})
		return
	}
	if !mErr && limitErr {
		rep.Fail("impl_ne_model", nil, cs, map[string]interface{}{"what": "an operation the model accepts was rejected by the limit check", "error": callErr.Error(), "statements": stmts})
		return
	}
	if callErr != nil && !limitErr {
		// the database itself refused (duplicate key, more than one row for QueryRow): statements up to the failure
		rep.Count("db_error_after_compliant_statement")
		if n := len(resp["stmts"].([]interface{})); len(impl) < n {
			resp["stmts"] = resp["stmts"].([]interface{})[:len(impl)]
		}
	}
	var model []string
	for _, s := range resp["stmts"].([]interface{}) {
		model = append(model, c12ModelStmt(s.(map[string]interface{})))
	}
	if cs.Call.Where > 0 {
		// the custom clause is not part of the model's statement; the statement was checked against the limits above
		rep.Count("custom_where")
		if len(impl) != len(model) {
			rep.Fail("impl_ne_model", nil, cs, map[string]interface{}{"what": "number of statements differs from the model's", "impl": impl, "model": model})
			return
		}
	} else if fmt.Sprint(impl) != fmt.Sprint(model) {
		rep.Fail("impl_ne_model", nil, cs, map[string]interface{}{"what": "statements received by the driver differ from the model's", "impl": impl, "model": model})
		return
	}
	if !resp["carries"].(bool) {
		rep.Fail("model_ne_spec", nil, cs, map[string]interface{}{"what": "model: an issued statement does not carry the limits (theorem ok_implies_carries)"})
		return
	}
	verdict := "accepted"
	if mErr {
		verdict = "rejected"
	}
	rep.Count(cs.Call.Op + ":" + verdict)
	rep.Eval(Canon(cs), len(enforced) > 0, map[string]interface{}{"op": cs.Call.Op, "verdict": verdict, "enforced": len(enforced)})
}

// c12Reuse: one *SelectOptions handed to several Query / QueryRow calls on differently limited handles, one after
// the other (sqlgen writes the filter into the options it is given): every statement must be confined to the
// limits of the handle it was made on, with that handle's values.
type c12Step struct {
	Handle c12Handle `json:"handle"`
	Call   c12Call   `json:"call"`
}

func c12Reuse(c *Ctx, m *Model, r *Rand) {
	var steps []c12Step
	for k := 2 + r.Intn(3); k > 0; k-- {
		h := c12GenHandle(r)
		if r.Chance(0.2) {
			h = c12Handle{}
		}
		steps = append(steps, c12Step{h, c12Call{Op: []string{"query", "queryRow"}[r.Intn(2)], Filter: c12GenFilter(r, h)}})
	}
	c12ReuseRun(c, m, r.Intn(4), steps)
}

func c12ReuseRun(c *Ctx, m *Model, kind int, steps []c12Step) {
	rep := c.Rep
	env := c12NewEnv()
	opts := &sqlgen.SelectOptions{}
	switch kind {
	case 0:
		opts.OrderBy = "id"
	case 1:
		opts.Limit = 5
	case 2:
		opts.Where, opts.Values = "n = ?", []interface{}{int64(10)}
	case 3:
		opts.ForUpdate = true
	}
	cs := map[string]interface{}{"reused_options": kind, "steps": steps}
	for i, st := range steps {
		db, err := st.Handle.open(env.base)
		if err != nil {
			rep.Fail("harness_error", nil, cs, map[string]interface{}{"error": err.Error()})
			return
		}
		env.fdb.resetLog()
		var callErr error
		if p := safely(func() {
			if st.Call.Op == "query" {
				var out []*c12Row
				callErr = db.Query(context.Background(), &out, c12Filter(st.Call.Filter), opts)
			} else {
				var out *c12Row
				callErr = db.QueryRow(context.Background(), &out, c12Filter(st.Call.Filter), opts)
			}
		}); p != nil {
			rep.Fail("impl_ne_spec", nil, cs, map[string]interface{}{"what": "panic in a sqlgen.DB operation", "panic": firstN(fmt.Sprint(p), 300)})
			return
		}
		resp, err := m.Call(map[string]interface{}{"op": "exec", "handle": st.Handle.enc(), "call": st.Call.enc()})
		if err != nil {
			rep.Fail("harness_error", nil, cs, map[string]interface{}{"error": err.Error()})
			return
		}
		enforced := c12ModelKVs(resp["enforced"])
		for _, s := range env.fdb.statements() {
			p, err := c12ParseStmt(s)
			if err != nil {
				rep.Fail("harness_error", nil, cs, map[string]interface{}{"error": err.Error(), "statement": s})
				return
			}
			if !c12Carries(p, enforced) {
				rep.Fail("impl_ne_spec", nil, cs, map[string]interface{}{"what": "with SelectOptions used before on another handle, a statement reached the database that is not confined to the limits of the handle it was made on", "step": i, "statement": s, "enforced": enforced})
				return
			}
		}
		mErr := resp["error"].(bool)
		limitErr := callErr != nil && strings.Contains(callErr.Error(), "check failed for db with")
		if mErr != limitErr {
			rep.Fail("impl_ne_spec", nil, cs, map[string]interface{}{"what": "with reused SelectOptions the limit check's verdict differs from the verdict for the same call with fresh options", "step": i, "model_rejects": mErr, "error": fmt.Sprint(callErr)})
			return
		}
	}
	rep.Count("reused_select_options")
	rep.Eval(Canon(cs), true, map[string]interface{}{"steps": len(steps)})
}

// c12Batch: concurrent queries of several handles on one table under batching.
func c12Batch(c *Ctx, m *Model, handles []c12Handle, filters [][]c12KV) {
	rep := c.Rep
	cs := map[string]interface{}{"handles": handles, "filters": filters}
	env := c12NewEnv()
	ctx := batch.WithBatching(context.Background())
	var dbs []*sqlgen.DB
	for _, h := range handles {
		db, err := h.open(env.base)
		if err != nil {
			rep.Fail("harness_error", nil, cs, map[string]interface{}{"error": err.Error()})
			return
		}
		dbs = append(dbs, db)
	}
	env.fdb.resetLog()
	errs := make([]error, len(dbs))
	var wg sync.WaitGroup
	for i := range dbs {
		wg.Add(1)
		go func(i int) {
			defer wg.Done()
			var out []*c12Row
			errs[i] = dbs[i].Query(ctx, &out, c12Filter(filters[i]), nil)
		}(i)
	}
	wg.Wait()
	// every OR-branch of every statement must belong to a query that complied with its own handle
	type want struct {
		branch   string
		enforced []string
	}
	var ok []want
	var verdictDiff map[string]interface{}
	for i, h := range handles {
		resp, err := m.Call(map[string]interface{}{"op": "exec", "handle": h.enc(), "call": map[string]interface{}{"op": "query", "filter": c12EncKVs(filters[i])}})
		if err != nil {
			rep.Fail("harness_error", nil, cs, map[string]interface{}{"error": err.Error()})
			return
		}
		mErr := resp["error"].(bool)
		if mErr != (errs[i] != nil && strings.Contains(errs[i].Error(), "check failed for db with")) {
			// keep looking: if a statement of this batch escapes the limits, that is the violation itself
			if verdictDiff == nil {
				verdictDiff = map[string]interface{}{"what": "verdict of a batched query differs from the model", "query": i, "impl_error": fmt.Sprint(errs[i]), "model_error": mErr}
			}
		}
		if !mErr {
			var b []string
			for _, kv := range filters[i] {
				b = append(b, kv.Col+"="+c12Val2Str(fsNorm(derefForSQL(kv.Val.goValue()))))
			}
			sort.Strings(b)
			ok = append(ok, want{fmt.Sprint(b), c12ModelKVs(resp["enforced"])})
		}
	}
	for _, st := range env.fdb.statements() {
		p, err := c12ParseStmt(st)
		if err != nil {
			rep.Fail("harness_error", nil, cs, map[string]interface{}{"error": err.Error()})
			return
		}
		branches := p.Where
		if len(branches) == 0 {
			branches = [][]string{nil} // no WHERE at all: only an unlimited query with an empty filter may ask for that
		}
		for _, b := range branches {
			found := false
			for _, w := range ok {
				if len(b) == 0 {
					if w.branch == "[]" && len(w.enforced) == 0 {
						found = true
					}
					continue
				}
				if w.branch == fmt.Sprint(b) && c12Carries(c12Parsed{Kind: "select", Where: [][]string{b}}, w.enforced) {
					found = true
				}
			}
			if !found {
				rep.Fail("impl_ne_spec", nil, cs, map[string]interface{}{"what": "a branch of a batched SELECT does not belong to a complying query of a handle whose limits it carries", "branch": b, "statement": st})
				return
			}
		}
	}
	if verdictDiff != nil {
		rep.Fail("impl_ne_model", nil, cs, verdictDiff)
		return
	}
	rep.Count("batch")
	rep.Eval(Canon(cs), true, map[string]interface{}{"op": "batch", "queries": len(handles)})
}

func derefForSQL(v interface{}) interface{} {
	if p, ok := v.(*int64); ok {
		if p == nil {
			return nil
		}
		return *p
	}
	return v
}

func c12GenVal(r *Rand, want int64, comply bool) c12Val {
	if comply {
		return c12Val{Ty: 0, V: want}
	}
	switch r.Intn(4) {
	case 0:
		return c12Val{Ty: 0, V: want + 1 + int64(r.Intn(2))}
	case 1:
		return c12Val{Ty: 1, V: want} // same number, Go type int
	case 2:
		return c12Val{Ty: 2, V: want} // pointer to the same number
	}
	return c12Val{Nil: true}
}

func c12GenHandle(r *Rand) c12Handle {
	var h c12Handle
	switch r.Intn(5) {
	case 0:
	case 1, 2:
		h.Shard = []c12KV{{"shard", c12Val{Ty: 0, V: int64(r.Intn(3))}}}
	case 3:
		h.Shard = []c12KV{{"shard", c12Val{Ty: 0, V: int64(r.Intn(3))}}, {"org", c12Val{Ty: 0, V: int64(r.Intn(3))}}}
	case 4:
		h.Shard = []c12KV{{"org", c12Val{Nil: true}}}
	}
	h.DynFirst = r.Bool()
	if r.Chance(0.4) {
		h.HasDyn = true
		h.DynNil = r.Chance(0.2)
		h.Continue = r.Chance(0.4)
		h.NilCont = r.Chance(0.2)
		h.Dyn = []c12KV{{"shard", c12Val{Ty: 0, V: int64(r.Intn(3))}}}
		if r.Chance(0.3) {
			h.Dyn = []c12KV{{"n", c12Val{Ty: 0, V: int64(10 * r.Intn(3))}}}
		}
	}
	return h
}

func c12GenFilter(r *Rand, h c12Handle) []c12KV {
	var f []c12KV
	comply := r.Chance(0.6)
	for _, l := range append(append([]c12KV{}, h.Shard...), h.Dyn...) {
		if !comply && r.Chance(0.4) {
			continue // limit column missing
		}
		v := l.Val
		if !comply && r.Chance(0.6) {
			v = c12GenVal(r, l.Val.V, false)
		}
		dup := false
		for _, x := range f {
			if x.Col == l.Col {
				dup = true
			}
		}
		if !dup {
			f = append(f, c12KV{l.Col, v})
		}
	}
	if r.Chance(0.5) {
		has := false
		for _, x := range f {
			if x.Col == "id" {
				has = true
			}
		}
		if !has {
			f = append(f, c12KV{"id", c12Val{Ty: 0, V: int64(1 + r.Intn(12))}})
		}
	}
	return f
}

func c12GenRow(r *Rand, h c12Handle, comply bool) []int64 {
	row := []int64{int64(1 + r.Intn(30)), int64(r.Intn(3)), int64(r.Intn(4)) - 1, int64(10 * r.Intn(3))}
	if comply {
		for _, l := range append(append([]c12KV{}, h.Shard...), h.Dyn...) {
			switch l.Col {
			case "shard":
				row[1] = l.Val.V
			case "org":
				if l.Val.Nil {
					row[2] = -1
				} else {
					row[2] = l.Val.V
				}
			case "n":
				row[3] = l.Val.V
			}
		}
	}
	return row
}

func runC12(c *Ctx) error {
	m, err := StartModel("C12")
	if err != nil {
		return err
	}
	defer m.Close()
	c.Rep.Rule = "random handles (no limit, shard limit on one or two columns incl. a NULL limit, dynamic limit that rejects or lets through or returns no filter, both) x every operation of sqlgen.DB (Query, QueryRow, Count, InsertRow, UpsertRow, InsertRows, UpsertRows with chunk sizes, UpdateRow, DeleteRow; inside and outside a transaction; inserts into an AutoIncrement table whose statements leave the primary-key columns out; one SelectOptions value reused across calls on differently limited handles) with complying arguments and with non-complying ones (limit column missing, other value, same number under another Go type, pointer, nil) on a fake SQL driver; every statement the driver receives is parsed and checked against the limits directly (the property) and against the statements the Lean model issues; verdicts compared; batched concurrent queries of several differently limited handles: every OR-branch must belong to a complying query and carry that handle's limits"
	c.Rep.Assumptions = append(c.Rep.Assumptions,
		"DB.Conn and DB.QueryExecer hand out the raw connection on purpose: outside the operations the property lists",
		"statements are those of sqlgen's own generators (the fake driver parses exactly that dialect)")
	if c.Replay != "" {
		var f struct {
			Case c12Case `json:"case"`
		}
		var g struct {
			Case struct {
				Kind  int       `json:"reused_options"`
				Steps []c12Step `json:"steps"`
			} `json:"case"`
		}
		b, err := os.ReadFile(c.Replay)
		if err != nil {
			return err
		}
		if err := json.Unmarshal(b, &f); err != nil {
			return err
		}
		if json.Unmarshal(b, &g) == nil && len(g.Case.Steps) > 0 {
			c12ReuseRun(c, m, g.Case.Kind, g.Case.Steps)
			fmt.Printf("replay: %d failures\n", len(c.Rep.Failures))
			return nil
		}
		c12One(c, m, f.Case)
		fmt.Printf("replay: %d failures\n", len(c.Rep.Failures))
		return nil
	}
	kfReproC12(c.Rep)
	// the recorded finding C12-4: a dynamic limit given without ShouldContinueOnError
	{
		before := len(c.Rep.Failures)
		c12One(c, m, c12Case{Handle: c12Handle{HasDyn: true, NilCont: true, Dyn: []c12KV{{"shard", c12Val{Ty: 0, V: 1}}}}, Call: c12Call{Op: "query", Filter: []c12KV{{"shard", c12Val{Ty: 0, V: 2}}}}})
		c.Rep.Repros["C12-4"] = Repro{Fails: len(c.Rep.Failures) > before, Detail: "WithDynamicLimit(DynamicLimit{GetLimitFilter: shard=1}) and Query(shard=2)"}
	}
	r := c.Rng
	n := c.N(3000, 150000)
	for i := 0; i < n && !c.Rep.ShouldStop(); i++ {
		h := c12GenHandle(r)
		var cl c12Call
		switch r.Intn(9) {
		case 0, 1:
			cl = c12Call{Op: []string{"query", "queryRow", "count"}[r.Intn(3)], Filter: c12GenFilter(r, h)}
		case 2:
			cl = c12Call{Op: []string{"query", "queryRow"}[r.Intn(2)], Filter: c12GenFilter(r, h), Where: 1 + r.Intn(len(c12Wheres))}
		case 3:
			cl = c12Call{Op: []string{"insertRow", "upsertRow"}[r.Intn(2)], Rows: [][]int64{c12GenRow(r, h, r.Chance(0.6))}}
		case 4, 5:
			var rows [][]int64
			for k := 1 + r.Intn(5); k > 0; k-- {
				rows = append(rows, c12GenRow(r, h, r.Chance(0.85)))
			}
			for k := range rows {
				rows[k][0] = int64(40 + k) // distinct fresh ids
			}
			cl = c12Call{Op: []string{"insertRows", "upsertRows"}[r.Intn(2)], Rows: rows, Chunk: 1 + r.Intn(3)}
		case 6, 7:
			cl = c12Call{Op: "updateRow", Rows: [][]int64{c12GenRow(r, h, r.Chance(0.6))}}
		case 8:
			cl = c12Call{Op: "deleteRow", Rows: [][]int64{c12GenRow(r, h, r.Chance(0.6))}}
		}
		if (cl.Op == "insertRow" || cl.Op == "insertRows") && r.Chance(0.3) {
			cl.Auto = true // the struct carries the shard value, the statement does not
		}
		cl.Tx = r.Chance(0.25) && cl.Op != "insertRows" && cl.Op != "upsertRows"
		c12One(c, m, c12Case{Handle: h, Call: cl})
		if i%10 == 5 {
			c12Reuse(c, m, r)
		}
		if i%10 == 0 {
			k := 2 + r.Intn(3)
			var hs []c12Handle
			var fs [][]c12KV
			for j := 0; j < k; j++ {
				h := c12GenHandle(r)
				hs = append(hs, h)
				fs = append(fs, c12GenFilter(r, h))
			}
			c12Batch(c, m, hs, fs)
		}
	}
	return nil
}
