package main

import (
	"flag"
	"fmt"
	"os"
	"strconv"
)

func main() {
	tier := flag.String("tier", "quick", "quick | thorough")
	seed := flag.Uint64("seed", 0, "PRNG seed (default: VERIF_SEED or 1)")
	out := flag.String("out", "", "write the run report (JSON) here")
	replay := flag.String("replay", "", "re-run the case stored in this replay file")
	only := flag.String("only", "", "run only the reproducer of this known finding")
	flag.Parse()
	if flag.NArg() != 1 {
		fmt.Fprintln(os.Stderr, "usage: vh [flags] <PROPERTY>")
		os.Exit(2)
	}
	prop := flag.Arg(0)
	run, ok := registry[prop]
	if !ok {
		fmt.Fprintf(os.Stderr, "vh: no harness for %s\n", prop)
		os.Exit(2)
	}
	if *seed == 0 {
		if s := os.Getenv("VERIF_SEED"); s != "" {
			if v, err := strconv.ParseUint(s, 10, 64); err == nil {
				*seed = v
			}
		}
	}
	if *seed == 0 {
		*seed = 1
	}
	c := &Ctx{Prop: prop, Tier: *tier, Seed: *seed, Rng: NewRand(*seed), Rep: NewReport(prop, *tier, *seed), Replay: *replay, Only: *only}
	if err := run(c); err != nil {
		c.Rep.Fail("harness_error", nil, nil, map[string]interface{}{"error": err.Error()})
	}
	if *out != "" {
		if err := c.Rep.Write(*out); err != nil {
			fmt.Fprintln(os.Stderr, "vh: cannot write report:", err)
			os.Exit(2)
		}
	}
	fmt.Printf("vh %s: %d evaluations, %d distinct non-trivial, %d failures recorded\n", prop, c.Rep.Evaluations, c.Rep.Distinct, len(c.Rep.Failures))
}
