package main

// C15 — Untrusted input never crashes the server; resolver panics stay contained; cancelled
// requests return.

import (
	"bytes"
	"context"
	"encoding/json"
	"fmt"
	"net/http"
	"net/http/httptest"
	"os"
	"runtime"
	"strings"
	"sync"
	"time"

	"github.com/samsarahq/thunder/federation"
	"github.com/samsarahq/thunder/graphql"
	"github.com/samsarahq/thunder/graphql/schemabuilder"
	"github.com/samsarahq/thunder/thunderpb"
)

func init() { register("C15", runC15) }

// ---- cost --------------------------------------------------------------------------------------

type c15Graph struct {
	adj [][]int
}

func (g *c15Graph) node() int { g.adj = append(g.adj, []int{}); return len(g.adj) - 1 }

// fragment graph of detectConflicts: sets reachable through fragment spreads
func c15FragGraph(root *graphql.SelectionSet) (*c15Graph, int) {
	g := &c15Graph{}
	idx := map[*graphql.SelectionSet]int{}
	var visit func(ss *graphql.SelectionSet) int
	visit = func(ss *graphql.SelectionSet) int {
		if i, ok := idx[ss]; ok {
			return i
		}
		i := g.node()
		idx[ss] = i
		for _, fr := range ss.Fragments {
			c := visit(fr.SelectionSet)
			g.adj[i] = append(g.adj[i], c)
		}
		return i
	}
	r := visit(root)
	return g, r
}

type c15Key struct {
	typ graphql.Type
	ss  *graphql.SelectionSet
}

// product graph of prepareQuery: (type, selection set) pairs; a call with a nil selection set is
// not memoised, so every such call is a node of its own
func c15PrepareGraph(typ graphql.Type, root *graphql.SelectionSet) (*c15Graph, int, int) {
	g := &c15Graph{}
	idx := map[c15Key]int{}
	sets := map[*graphql.SelectionSet]bool{}
	var visit func(typ graphql.Type, ss *graphql.SelectionSet) int
	visit = func(typ graphql.Type, ss *graphql.SelectionSet) int {
		if ss != nil {
			sets[ss] = true
			if i, ok := idx[c15Key{typ, ss}]; ok {
				return i
			}
		}
		i := g.node()
		if ss != nil {
			idx[c15Key{typ, ss}] = i
		}
		add := func(c int) { g.adj[i] = append(g.adj[i], c) }
		switch typ := typ.(type) {
		case *graphql.Union:
			if ss == nil {
				return i
			}
			for _, fr := range ss.Fragments {
				for name, obj := range typ.Types {
					if fr.On == name {
						add(visit(obj, fr.SelectionSet))
					}
				}
			}
		case *graphql.Object:
			if ss == nil {
				return i
			}
			for _, sel := range ss.Selections {
				if sel.Name == "__typename" {
					continue
				}
				if f, ok := typ.Fields[sel.Name]; ok {
					add(visit(f.Type, sel.SelectionSet))
				}
			}
			for _, fr := range ss.Fragments {
				add(visit(typ, fr.SelectionSet))
			}
		case *graphql.List:
			add(visit(typ.Type, ss))
		case *graphql.NonNull:
			add(visit(typ.Type, ss))
		}
		return i
	}
	r := visit(typ, root)
	return g, r, len(sets)
}

func c15Bombs(n int) map[string]string {
	out := map[string]string{}
	var b strings.Builder
	b.WriteString("query Q { ...F0 }\n")
	for i := 0; i < n; i++ {
		fmt.Fprintf(&b, "fragment F%d on Query { ...F%d ...F%d }\n", i, i+1, i+1)
	}
	fmt.Fprintf(&b, "fragment F%d on Query { a { z } }\n", n)
	out["top"] = b.String()
	b.Reset()
	b.WriteString("query Q { a { ...G0 } }\n")
	for i := 0; i < n; i++ {
		fmt.Fprintf(&b, "fragment G%d on XA { p: a2Ex { ...G%d } q: a2Ex { ...G%d } }\n", i, i+1, i+1)
	}
	fmt.Fprintf(&b, "fragment G%d on XA { z }\n", n)
	out["nested"] = b.String()
	for _, rep := range []int{2, 3, 5, 6} {
		b.Reset()
		b.WriteString("query Q { a { ...H0 } }\n")
		for i := 0; i < n; i++ {
			fmt.Fprintf(&b, "fragment H%d on XA {", i)
			for _, al := range []string{"p", "q"} {
				for k := 0; k < rep; k++ {
					extra := ""
					if k > 0 {
						extra = " z"
					}
					if k > 1 {
						extra = fmt.Sprintf(" z k%d: z", k)
					}
					fmt.Fprintf(&b, " %s: a2Ex { ...H%d%s }", al, i+1, extra)
				}
			}
			b.WriteString(" }\n")
		}
		fmt.Fprintf(&b, "fragment H%d on XA { z }\n", n)
		out[fmt.Sprintf("merged%d", rep)] = b.String()
	}
	// finding C15-9 (notes/hunt/C15 find3): a clock C_i that spreads marker fragments under the aliases x and y, the
	// markers shifting by one position per level: every one of the 2^n alias paths reaches another merged set of
	// selection sets, so that a check that memoises on merged sets never hits
	if n <= 18 {
		b.Reset()
		b.WriteString("query Q { a { ...C0 } }\n")
		for i := 0; i < n; i++ {
			fmt.Fprintf(&b, "fragment C%d on XA { x: a2Ex { ...C%d ...M1a } y: a2Ex { ...C%d ...M1b } }\n", i, i+1, i+1)
		}
		fmt.Fprintf(&b, "fragment C%d on XA { z }\n", n)
		for p := 1; p < n; p++ {
			for _, ab := range []string{"a", "b"} {
				fmt.Fprintf(&b, "fragment M%d%s on XA { x: a2Ex { ...M%d%s } y: a2Ex { ...M%d%s } }\n", p, ab, p+1, ab, p+1, ab)
			}
		}
		if n >= 1 {
			fmt.Fprintf(&b, "fragment M%da on XA { z }\nfragment M%db on XA { z }\n", n, n)
			out["clock"] = b.String()
		}
	}
	return out
}

type c15CostCase struct {
	Kind  string `json:"kind"`
	N     int    `json:"n"`
	Query string `json:"query"`
}

func c15Cost(c *Ctx, m *Model, cs c15CostCase, vars map[string]interface{}) {
	rep := c.Rep
	schema := buildXSchema()
	graphql.VerifResetCounters()
	t0 := time.Now()
	var q *graphql.Query
	var err error
	if p := safely(func() {
		q, err = graphql.Parse(cs.Query, vars)
		if err == nil {
			err = graphql.PrepareQuery(context.Background(), schema.Query, q.SelectionSet)
		}
	}); p != nil {
		rep.Fail("impl_ne_spec", nil, cs, map[string]interface{}{"what": "panic in Parse/PrepareQuery", "panic": firstN(fmt.Sprint(p), 300)})
		return
	}
	el := time.Since(t0)
	if err != nil {
		rep.Fail("harness_error", nil, cs, map[string]interface{}{"error": "cost input is not a valid query: " + err.Error()})
		return
	}
	cnt := graphql.VerifCounters()
	fg, froot := c15FragGraph(q.SelectionSet)
	pg, proot, nsets := c15PrepareGraph(schema.Query, q.SelectionSet)
	call := func(g *c15Graph, root int) (int64, int64, error) {
		resp, err := m.Call(map[string]interface{}{"op": "cost", "graph": g.adj, "root": root, "fuel": 4*len(g.adj)*len(g.adj) + 100})
		if err != nil {
			return 0, 0, err
		}
		return toInt64(resp["memo"]), toInt64(resp["nodes"]), nil
	}
	fm, fn, err1 := call(fg, froot)
	pm, pn, err2 := call(pg, proot)
	if err1 != nil || err2 != nil {
		rep.Fail("harness_error", nil, cs, map[string]interface{}{"error": fmt.Sprint(err1, err2)})
		return
	}
	d := map[string]interface{}{"counters": cnt, "model_detectConflicts": fm, "model_prepareQuery": pm, "frag_nodes": fn, "prepare_nodes": pn, "sets": nsets, "bytes": len(cs.Query), "elapsed_ms": el.Milliseconds()}
	// the property itself, on the implementation: cost polynomial in the input
	limit := int64(nsets*nsets + 10*nsets + 10)
	if cnt["detectConflicts.visit"] > fn || cnt["prepareQuery.visit"] > pn || cnt["detectMergeConflicts.visit"] > limit || el > 2*time.Second {
		d["what"] = "validation cost exceeds the number of (type, selection set) nodes of the query: repeated fragment spreads blow up"
		rep.Fail("impl_ne_spec", nil, cs, d)
		return
	}
	if cnt["detectConflicts.visit"] != fm || cnt["prepareQuery.visit"] != pm {
		d["what"] = "traversal counters differ from the memoised traversal of the model"
		rep.Fail("impl_ne_model", nil, cs, d)
		return
	}
	rep.Count("cost:" + cs.Kind)
	rep.Eval("cost"+cs.Query, true, map[string]interface{}{"kind": cs.Kind, "n": cs.N, "prepare_visits": cnt["prepareQuery.visit"], "bytes": len(cs.Query)})
}

// ---- totality ------------------------------------------------------------------------------------

var c15Constructs = []string{
	"subscription S { a { z } }",
	"query Q { a @skip { z } }",
	"query Q { a @foo(if: true) { z } }",
	"query Q($v: Int = $w, $w: Int = 1) { a { z } }",
	"query Q { a { ... { z } } }",
	"query Q { a { ... @include(if: true) { z } } }",
	"query Q { ...A } fragment A on Query { ...B } fragment B on Query { ...A }",
	"query Q { a { z } } fragment Unused on XA { z }",
	"query Q { ...A } fragment A on Query { a { z } } fragment A on Query { n }",
	"query Q { a { z } } query R { n }",
	"",
	"fragment A on Query { n }",
	"query Q { a(x: 99999999999999999999) { z } }",
	"query Q { a(x: 1e400) { z } }",
	"query Q { a(x: \"\\u00\") { z } }",
	"query Q { a(x: \"\"\"block\n string\"\"\") { z } }",
	"# comment only",
	"\ufeffquery Q { n }",
	"query Q { n \x00 }",
	"query Q { n \xff\xfe }",
	"mutation M { n }",
	"query Q { a { z } } extend type Query { x: Int }",
	"type Query { x: Int }",
	"{ n }",
	"query { n }",
	"query Q { n: }",
	"query Q { a { z }",
	"query Q { a(: 1) { z } }",
	"query Q($v: [[[Int!]!]!]!) { a { z } }",
	"query Q { a(x: $undefined) { z } }",
	"query Q { a(x: {a: [1, {b: null}], c: ENUM}) { z } }",
	"query Q { __schema { types { name } } }",
	"query Q { __type(name: \"XA\") { name } }",
	"query Q { a { __typename @skip(if: \"yes\") } }",
	"query Q { a @skip(if: 1) { z } }",
	"query Q { a @skip(unless: true) { z } }",
	"query Q { a @include(if: null) { z } }",
}

func c15Deep(n int) []string {
	return []string{
		"query Q " + strings.Repeat("{ a ", n) + "{ z }" + strings.Repeat(" }", n),
		"query Q { a(x: " + strings.Repeat("[", n) + "1" + strings.Repeat("]", n) + ") { z } }",
		"query Q { a(x: " + strings.Repeat("{k: ", n) + "1" + strings.Repeat("}", n) + ") { z } }",
		"query Q { a { " + strings.Repeat("... on XA { ", n) + "z" + strings.Repeat(" }", n) + " } }",
		"query Q { " + strings.Repeat("n ", n) + "}",
		"query Q { " + strings.Repeat("x", n) + ": n }",
	}
}

func c15MutateBytes(r *Rand, s string) string {
	b := []byte(s)
	for k := 1 + r.Intn(4); k > 0 && len(b) > 0; k-- {
		i := r.Intn(len(b))
		switch r.Intn(6) {
		case 0:
			b = append(b[:i], b[i+1:]...)
		case 1:
			b[i] = byte(r.Intn(256))
		case 2:
			ins := []string{"{", "}", "(", ")", "[", "]", "$", "@", "...", ":", "\"", "#", "!", "=", "on", "fragment", "query", "\\", "\n", " ", "null", "1.5e3", "-"}[r.Intn(23)]
			b = append(b[:i], append([]byte(ins), b[i:]...)...)
		case 3:
			b = b[:i]
		case 4:
			j := i + r.Intn(len(b)-i)
			b = append(b[:j], append(append([]byte{}, b[i:j]...), b[j:]...)...)
		case 5:
			j := r.Intn(len(b))
			b[i], b[j] = b[j], b[i]
		}
	}
	return string(b)
}

// c15RotateSels moves the last selection of every selection set to the front.
func c15RotateSels(ss *xSelSet, seen map[*xSelSet]bool) {
	if ss == nil || seen[ss] {
		return
	}
	seen[ss] = true
	if n := len(ss.Sels); n > 1 {
		ss.Sels = append([]*xSel{ss.Sels[n-1]}, ss.Sels[:n-1]...)
	}
	for _, s := range ss.Sels {
		c15RotateSels(s.Sub, seen)
	}
	for _, f := range ss.Frags {
		c15RotateSels(f.Set, seen)
	}
}

func c15RandJSON(r *Rand, depth int) interface{} {
	switch r.Intn(8) {
	case 0:
		return nil
	case 1:
		return r.Bool()
	case 2:
		return float64(r.Intn(100)) - 50.5
	case 3:
		return fmt.Sprintf("s%d", r.Intn(10))
	case 4:
		if depth <= 0 {
			return []interface{}{}
		}
		var a []interface{}
		for i := r.Intn(3); i > 0; i-- {
			a = append(a, c15RandJSON(r, depth-1))
		}
		return a
	case 5:
		if depth <= 0 {
			return map[string]interface{}{}
		}
		o := map[string]interface{}{}
		for i := r.Intn(3); i > 0; i-- {
			o[fmt.Sprintf("k%d", r.Intn(4))] = c15RandJSON(r, depth-1)
		}
		return o
	case 6:
		return float64(r.Intn(3))
	}
	return "true"
}

type c15FuzzCase struct {
	Root  *xNode                 `json:"root"`
	Query string                 `json:"query"`
	Vars  map[string]interface{} `json:"vars"`
	Via   string                 `json:"via"`
}

// c15Total: whatever the bytes, parsing / validation / execution end with a result or an error.
func c15Total(c *Ctx, cs c15FuzzCase) {
	rep := c.Rep
	schema := buildXSchema()
	t0 := time.Now()
	class := "?"
	p := safely(func() {
		switch cs.Via {
		case "http":
			body, _ := json.Marshal(map[string]interface{}{"query": cs.Query, "variables": cs.Vars})
			if strings.HasPrefix(cs.Query, "RAWBODY:") {
				body = []byte(strings.TrimPrefix(cs.Query, "RAWBODY:"))
			}
			req := httptest.NewRequest("POST", "/graphql", bytes.NewReader(body))
			ctx := context.WithValue(req.Context(), xRootKey{}, cs.Root)
			ctx = context.WithValue(ctx, xFlagKey{}, false)
			w := httptest.NewRecorder()
			graphql.HTTPHandler(schema).ServeHTTP(w, req.WithContext(ctx))
			class = fmt.Sprintf("http:%d", w.Code)
			var resp map[string]interface{}
			if json.Unmarshal(w.Body.Bytes(), &resp) != nil {
				class = "http:unparseable-response"
			} else if resp["errors"] != nil {
				class = "http:errors"
			} else {
				class = "http:data"
			}
		default:
			_, err := xRun(cs.Root, cs.Query, cs.Vars, false, &seqScheduler{policy: "fifo"})
			switch {
			case err == nil:
				class = "result"
			case strings.HasPrefix(err.Error(), "panic: "):
				panic(err.Error())
			default:
				class = "error"
			}
		}
	})
	el := time.Since(t0)
	if p != nil {
		rep.Fail("impl_ne_spec", nil, cs, map[string]interface{}{"what": "panic on untrusted input", "panic": firstN(fmt.Sprint(p), 400)})
		return
	}
	if class == "http:unparseable-response" {
		rep.Fail("impl_ne_spec", nil, cs, map[string]interface{}{"what": "HTTP handler wrote something that is not a JSON response"})
		return
	}
	if el > 3*time.Second {
		rep.Fail("impl_ne_spec", nil, cs, map[string]interface{}{"what": "input takes too long", "elapsed_ms": el.Milliseconds(), "bytes": len(cs.Query)})
		return
	}
	rep.Count("total:" + cs.Via + ":" + class)
	rep.Eval("total"+cs.Via+cs.Query+Canon(cs.Vars), true, map[string]interface{}{"class": class, "bytes": len(cs.Query)})
}

// ---- cancellation -----------------------------------------------------------------------------------

type c15Gate struct {
	started chan struct{}
	release chan struct{}
}

type c15GateKey struct{}

var c15CancelSchema *graphql.Schema

func c15BuildCancelSchema() *graphql.Schema {
	if c15CancelSchema != nil {
		return c15CancelSchema
	}
	sb := schemabuilder.NewSchema()
	q := sb.Query()
	q.FieldFunc("block", func(ctx context.Context) (int64, error) {
		g, _ := ctx.Value(c15GateKey{}).(*c15Gate)
		if g == nil {
			return 1, nil
		}
		close(g.started)
		select {
		case <-g.release:
			return 1, nil
		case <-ctx.Done():
			return 0, ctx.Err()
		}
	})
	sb.Mutation()
	c15CancelSchema = sb.MustBuild()
	return c15CancelSchema
}

type c15CancelCase struct {
	Target string `json:"target"` // http | federation
	When   string `json:"when"`   // none | before | during | after | look
	Look   int    `json:"look"`   // when = look: cancel right after the k-th time anybody looks at the context
}

// c15LookCtx cancels itself right after the k-th call of Done / Err: every point at which the
// code under test consults the context becomes a cancellation point.
type c15LookCtx struct {
	context.Context
	cancel context.CancelFunc
	mu     sync.Mutex
	left   int
}

func (c *c15LookCtx) look() {
	c.mu.Lock()
	c.left--
	fire := c.left == 0
	c.mu.Unlock()
	if fire {
		c.cancel()
	}
}

func (c *c15LookCtx) Done() <-chan struct{} { d := c.Context.Done(); c.look(); return d }
func (c *c15LookCtx) Err() error            { e := c.Context.Err(); c.look(); return e }

// c15Cancel runs one request with a cancellation point and reports whether the call returned.
func c15Cancel(c *Ctx, m *Model, cs c15CancelCase) {
	rep := c.Rep
	schema := c15BuildCancelSchema()
	before := runtime.NumGoroutine()
	gate := &c15Gate{started: make(chan struct{}), release: make(chan struct{})}
	ctx, cancel := context.WithCancel(context.WithValue(context.Background(), c15GateKey{}, gate))
	defer cancel()
	if cs.When == "look" {
		ctx = &c15LookCtx{Context: ctx, cancel: cancel, left: cs.Look}
	}
	done := make(chan string, 1)
	helperStop := make(chan struct{})
	labels := []string{}
	switch cs.When {
	case "before":
		cancel()
		labels = []string{"cancel", "sched", "wake", "stopped"}
	case "during":
		labels = []string{"sched", "cancel", "finish", "wake", "stopped"}
	case "none", "after":
		labels = []string{"sched", "finish", "wake", "stopped"}
	case "look":
		labels = nil // decided after the fact: did the resolver start?
	}
	go func() {
		defer func() {
			if p := recover(); p != nil {
				done <- fmt.Sprintf("panic: %v", p)
			}
		}()
		switch cs.Target {
		case "http":
			body, _ := json.Marshal(map[string]interface{}{"query": "query Q { block }", "variables": map[string]interface{}{}})
			req := httptest.NewRequest("POST", "/graphql", bytes.NewReader(body)).WithContext(ctx)
			w := httptest.NewRecorder()
			graphql.HTTPHandler(schema).ServeHTTP(w, req)
			done <- "returned"
		case "federation":
			q, err := graphql.Parse("query Q { block }", map[string]interface{}{})
			if err != nil {
				done <- "harness: " + err.Error()
				return
			}
			pq, err := federation.MarshalQuery(q)
			if err != nil {
				done <- "harness: " + err.Error()
				return
			}
			_, _ = federation.ExecuteRequest(ctx, &thunderpb.ExecuteRequest{Query: pq}, schema, graphql.NewExecutor(graphql.NewImmediateGoroutineScheduler()))
			done <- "returned"
		}
	}()
	switch cs.When {
	case "during":
		select {
		case <-gate.started:
		case <-patient(3 * time.Second):
		}
		cancel()
	case "none", "after":
		select {
		case <-gate.started:
		case <-patient(3 * time.Second):
		}
		close(gate.release)
	case "look":
		// let the resolver finish if it was started and nobody cancelled
		go func() {
			select {
			case <-gate.started:
				time.Sleep(2 * time.Millisecond)
				close(gate.release)
			case <-helperStop:
			}
		}()
	}
	outcome := "hang"
	select {
	case outcome = <-done:
	case <-patient(3 * time.Second):
	}
	if cs.When == "after" {
		cancel()
	}
	close(helperStop)
	if cs.When == "look" {
		started := false
		select {
		case <-gate.started:
			started = true
		default:
		}
		switch {
		case ctx.Err() == nil:
			labels = []string{"sched", "finish", "wake", "stopped"}
		case started:
			labels = []string{"sched", "cancel", "finish", "wake", "stopped"}
		default:
			labels = []string{"cancel", "sched", "wake", "stopped"}
		}
	}
	// the model's verdict for this schedule
	resp, err := m.Call(map[string]interface{}{"op": "oneshot", "labels": labels, "repaired": true})
	if err != nil {
		rep.Fail("harness_error", nil, cs, map[string]interface{}{"error": err.Error()})
		return
	}
	if ok, _ := resp["ok"].(bool); !ok || !resp["returned"].(bool) {
		rep.Fail("model_ne_spec", nil, cs, map[string]interface{}{"what": "model: the schedule does not end with the handler returned", "labels": labels, "model": resp})
		return
	}
	if outcome != "returned" {
		rep.Fail("impl_ne_spec", nil, cs, map[string]interface{}{"what": "a request whose context is cancelled does not return promptly", "outcome": outcome, "schedule": labels})
		return
	}
	// no goroutine left behind
	leaked := 0
	for i := 0; i < 40; i++ {
		leaked = runtime.NumGoroutine() - before
		if leaked <= 0 {
			break
		}
		time.Sleep(50 * time.Millisecond)
	}
	if leaked > 0 {
		rep.Fail("impl_ne_spec", nil, cs, map[string]interface{}{"what": "goroutines left behind after the request returned", "leaked": leaked})
		return
	}
	if cs.When == "look" {
		rep.Count(fmt.Sprintf("cancel:%s:look:%s", cs.Target, labels[0]+"-first"))
	}
	rep.Count("cancel:" + cs.Target + ":" + cs.When)
	rep.Eval("cancel"+cs.Target+cs.When+fmt.Sprint(c.Rng.Intn(1<<30)), true, map[string]interface{}{"target": cs.Target, "when": cs.When})
}

func runC15(c *Ctx) error {
	m, err := StartModel("C15")
	if err != nil {
		return err
	}
	defer m.Close()
	buildXSchema()
	c.Rep.Rule = "(cost) fragment bombs of three families (top-level spreads, nested selections spread twice, merged aliases spread twice) with n = 1..40 fragments and random queries with shared fragments: traversal counters of detectConflicts / detectMergeConflicts / prepareQuery (verif hooks) must not exceed the number of (type, selection set) nodes and must equal the Lean memoised traversal of the same DAG; (totality) hand-written unsupported or ill-formed constructs, deeply nested inputs, byte-mutated valid queries and random JSON variables, through Parse+PrepareQuery+Execute and through HTTPHandler.ServeHTTP (also raw bodies): no panic, a JSON response, bounded time; (cancellation) ServeHTTP and federation.ExecuteRequest with the context cancelled before the rerunner's first run, during the resolver, after the response, or never: must return within 3 s and leave no goroutine; schedules replayed in the Lean one-shot protocol model"
	c.Rep.Assumptions = append(c.Rep.Assumptions,
		"the lexer / JSON decoder are exercised, not modelled",
		"execution time is bounded by the size of the response, which GraphQL allows to be exponential in the query text; only parsing and validation are required to be polynomial",
		"panic containment at the level of one request is C16's model (a panic is a failing resolver); connection-level containment is exercised by the connection harness",
		"a resolver returns once its context is cancelled")
	if c.Replay != "" {
		b, err := os.ReadFile(c.Replay)
		if err != nil {
			return err
		}
		var f struct {
			Case map[string]interface{} `json:"case"`
		}
		if err := json.Unmarshal(b, &f); err != nil {
			return err
		}
		raw, _ := json.Marshal(f.Case)
		switch {
		case f.Case["gateway"] != nil && strings.Contains(fmt.Sprint(f.Case["gateway"]), "fewer objects"):
			c15ShortService(c)
		case f.Case["gateway"] != nil:
			c15Sibling(c)
		case f.Case["actions"] != nil:
			var cs cnCase
			json.Unmarshal(raw, &cs)
			if res := cnRun(cs); res.Problem != "" {
				c.Rep.Fail("impl_ne_spec", nil, cs, map[string]interface{}{"what": res.Problem})
			}
		case f.Case["target"] != nil:
			var cs c15CancelCase
			json.Unmarshal(raw, &cs)
			c15Cancel(c, m, cs)
		case f.Case["kind"] != nil:
			var cs c15CostCase
			json.Unmarshal(raw, &cs)
			c15Cost(c, m, cs, map[string]interface{}{})
		default:
			var cs c15FuzzCase
			json.Unmarshal(raw, &cs)
			c15Total(c, cs)
		}
		fmt.Printf("replay: %d failures\n", len(c.Rep.Failures))
		return nil
	}
	// a failing federated sub-query next to a slow one
	for k := 0; k < c.N(2, 6); k++ {
		c15Sibling(c)
		c15ShortService(c)
		c15ConnGone(c)
	}
	// cancellation first: few, slow cases
	for _, target := range []string{"http", "federation"} {
		for _, when := range []string{"none", "before", "during", "after"} {
			for k := 0; k < c.N(2, 10); k++ {
				c15Cancel(c, m, c15CancelCase{Target: target, When: when})
			}
		}
	}
	for _, target := range []string{"http", "federation"} {
		for k := 1; k <= c.N(14, 30); k++ {
			c15Cancel(c, m, c15CancelCase{Target: target, When: "look", Look: k})
		}
	}
	// cost
	for n := 1; n <= c.N(24, 40) && !c.Rep.ShouldStop(); n++ {
		for kind, q := range c15Bombs(n) {
			c15Cost(c, m, c15CostCase{Kind: kind, N: n, Query: q}, map[string]interface{}{})
		}
	}
	for i := 0; i < c.N(150, 3000) && !c.Rep.ShouldStop(); i++ {
		q := genXQuery(c.Rng, 3+c.Rng.Intn(2), 0, 0)
		c15Cost(c, m, c15CostCase{Kind: "random", Query: q.Text}, q.Vars)
	}
	// totality: arguments
	c15Args(c, c.N(1500, 40000))
	// totality
	g := &xGen{r: c.Rng}
	root := g.node("Q", 2)
	for _, q := range c15Constructs {
		c15Total(c, c15FuzzCase{Root: root, Query: q, Vars: map[string]interface{}{}, Via: "exec"})
		c15Total(c, c15FuzzCase{Root: root, Query: q, Vars: map[string]interface{}{}, Via: "http"})
	}
	for _, n := range []int{50, 500, c.N(3000, 20000)} {
		for _, q := range c15Deep(n) {
			c15Total(c, c15FuzzCase{Root: root, Query: q, Vars: map[string]interface{}{}, Via: "exec"})
		}
	}
	// wide and deep beyond what the loop above reaches in the quick tier: 20000 copies of one selection (the pairwise
	// conflict check was quadratic in them for one commit of /repo), 20000 distinct aliases, and nesting beyond the
	// parser's bound (finding C15-8: refused, not a stack overflow)
	for _, q := range []string{
		"query Q { " + strings.Repeat("n ", 20000) + "}",
		"query Q { a { " + strings.Repeat("z ", 20000) + "} }",
		"query Q { a { " + strings.Repeat("k: a2Ex { z } ", 4000) + "} }",
		"query Q " + strings.Repeat("{ a ", 200000) + "{ z }" + strings.Repeat(" }", 200000),
		"query Q { a(x: " + strings.Repeat("[", 200000) + "1" + strings.Repeat("]", 200000) + ") { z } }",
	} {
		c15Total(c, c15FuzzCase{Root: root, Query: q, Vars: map[string]interface{}{}, Via: "exec"})
	}
	// every ill-forming mutation of C14's repertoire at every selection set of a fixed family of queries, as
	// generated and with the mutated selection moved to the front (independent of the seed)
	for b := 0; b < c.N(16, 60) && !c.Rep.ShouldStop(); b++ {
		for site := 0; site < 14; site++ {
			for _, kind := range c14Kinds {
				for _, rotate := range []bool{false, true} {
					br := NewRand(uint64(5000 + b))
					q := genXQuery(br, 2, 0.3, 0)
					if c14MutateAt(br, q, site, kind) == "" {
						continue
					}
					if rotate {
						c15RotateSels(q.Set, map[*xSelSet]bool{})
						q.Text = q.render()
					}
					c.Rep.Count("systematic_mutation:" + kind)
					c15Total(c, c15FuzzCase{Root: root, Query: q.Text, Vars: q.Vars, Via: "exec"})
				}
			}
		}
	}
	for i := 0; i < c.N(1500, 60000) && !c.Rep.ShouldStop(); i++ {
		q := genXQuery(c.Rng, 2, 0.3, 0)
		if c.Rng.Chance(0.35) {
			// an ill-forming mutation of the selection tree (C14's repertoire), sometimes placed first
			c14Mutate(c.Rng, q)
			if c.Rng.Chance(0.5) {
				c15RotateSels(q.Set, map[*xSelSet]bool{})
				q.Text = q.render()
			}
		}
		text := q.Text
		if c.Rng.Chance(0.6) {
			text = c15MutateBytes(c.Rng, text)
		}
		vars := map[string]interface{}{}
		for k, v := range q.Vars {
			if c.Rng.Chance(0.5) {
				vars[k] = c15RandJSON(c.Rng, 2)
			} else {
				vars[k] = v
			}
		}
		via := "exec"
		if c.Rng.Chance(0.3) {
			via = "http"
			if c.Rng.Chance(0.3) {
				body, _ := json.Marshal(map[string]interface{}{"query": text, "variables": vars})
				text = "RAWBODY:" + c15MutateBytes(c.Rng, string(body))
			}
		}
		c15Total(c, c15FuzzCase{Root: root, Query: text, Vars: vars, Via: via})
	}
	_ = http.StatusOK
	c15GatewayBomb(c) // last: on a tree with the defect its planning goroutine keeps running
	return nil
}
