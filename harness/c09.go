package main

// C09 — Merged gateway schema.
// Implementation: federation.MergeIntrospectionSchemas (intersection over the versions of each
// service, union over services) on generated families of introspection schemas.
// Model: ThunderModel/Fed/SchemaMerge.lean (`tmodel C09`).

import (
	"encoding/json"
	"fmt"
	"os"
	"sort"
	"strconv"
	"strings"

	"github.com/samsarahq/thunder/federation"
	"github.com/samsarahq/thunder/graphql/introspection"
	"github.com/samsarahq/thunder/graphql/schemabuilder"
)

func init() { register("C09", runC09) }

// abstract schema used by the generator
type c09Ref struct {
	Kind   string  `json:"kind"` // SCALAR ENUM INPUT_OBJECT UNION OBJECT LIST NON_NULL
	Name   string  `json:"name,omitempty"`
	OfType *c09Ref `json:"ofType,omitempty"`
}
type c09Arg struct {
	Name string  `json:"name"`
	Type *c09Ref `json:"type"`
}
type c09Field struct {
	Name string   `json:"name"`
	Type *c09Ref  `json:"type"`
	Args []c09Arg `json:"args"`
}
type c09Type struct {
	Name          string     `json:"name"`
	Kind          string     `json:"kind"`
	Fields        []c09Field `json:"fields"`
	InputFields   []c09Arg   `json:"inputFields"`
	PossibleTypes []*c09Ref  `json:"possibleTypes"`
	EnumValues    []struct {
		Name string `json:"name"`
	} `json:"enumValues"`
}
type c09Schema struct {
	Types []c09Type `json:"types"`
}

func (s *c09Schema) clone() *c09Schema {
	b, _ := json.Marshal(s)
	var c c09Schema
	json.Unmarshal(b, &c)
	return &c
}

func (s *c09Schema) toResult() *federation.IntrospectionQueryResult {
	b, _ := json.Marshal(map[string]interface{}{"__schema": map[string]interface{}{"types": s.Types}})
	var r federation.IntrospectionQueryResult
	if err := json.Unmarshal(b, &r); err != nil {
		panic(err)
	}
	return &r
}

var c09KindCode = map[string]int{"SCALAR": 0, "ENUM": 1, "INPUT_OBJECT": 2, "UNION": 3, "OBJECT": 4}

// names are letter + two digits so that string order is the order of the interned numbers
func c09Intern(name string) int {
	// "S07" -> 1007 etc.: prefix class * 1000 + number keeps string order within the generator's names
	if len(name) == 3 {
		n, err := strconv.Atoi(name[1:])
		if err == nil {
			return int(name[0])*100 + n
		}
	}
	h := 0
	for _, c := range name {
		h = h*131 + int(c)
	}
	return 1000000 + h%1000000
}

func c09EncRef(r *c09Ref) interface{} {
	if r == nil {
		return map[string]interface{}{"n": []int{9, 0}}
	}
	switch r.Kind {
	case "NON_NULL":
		return map[string]interface{}{"nn": c09EncRef(r.OfType)}
	case "LIST":
		return map[string]interface{}{"l": c09EncRef(r.OfType)}
	}
	code, ok := c09KindCode[r.Kind]
	if !ok {
		code = 8
	}
	return map[string]interface{}{"n": []int{code, c09Intern(r.Name)}}
}

type c09Pair struct {
	k int
	v interface{}
}

func c09Sorted(ps []c09Pair) []interface{} {
	sort.Slice(ps, func(i, j int) bool { return ps[i].k < ps[j].k })
	out := make([]interface{}, 0, len(ps))
	for _, p := range ps {
		out = append(out, []interface{}{p.k, p.v})
	}
	return out
}

func c09EncArgs(args []c09Arg) []interface{} {
	var ps []c09Pair
	for _, a := range args {
		ps = append(ps, c09Pair{c09Intern(a.Name), c09EncRef(a.Type)})
	}
	return c09Sorted(ps)
}

func c09EncSchema(s *c09Schema) []interface{} {
	var ts []c09Pair
	for _, t := range s.Types {
		var def interface{}
		switch t.Kind {
		case "SCALAR":
			def = map[string]interface{}{"scalar": true}
		case "ENUM":
			var ns []int
			for _, v := range t.EnumValues {
				ns = append(ns, c09Intern(v.Name))
			}
			sort.Ints(ns)
			if ns == nil {
				ns = []int{}
			}
			def = map[string]interface{}{"enum": ns}
		case "UNION":
			var ns []int
			for _, v := range t.PossibleTypes {
				ns = append(ns, c09Intern(v.Name))
			}
			sort.Ints(ns)
			if ns == nil {
				ns = []int{}
			}
			def = map[string]interface{}{"union": ns}
		case "OBJECT":
			var fs []c09Pair
			for _, f := range t.Fields {
				fs = append(fs, c09Pair{c09Intern(f.Name), map[string]interface{}{"type": c09EncRef(f.Type), "args": c09EncArgs(f.Args)}})
			}
			def = map[string]interface{}{"object": c09Sorted(fs)}
		case "INPUT_OBJECT":
			def = map[string]interface{}{"input": c09EncArgs(t.InputFields)}
		default:
			def = map[string]interface{}{"scalar": false}
		}
		ts = append(ts, c09Pair{c09Intern(t.Name), def})
	}
	return c09Sorted(ts)
}

// ---- generator --------------------------------------------------------------------------

func nm(prefix string, i int) string { return fmt.Sprintf("%s%02d", prefix, i) }

func c09GenRef(r *Rand, base *c09Schema, input bool) *c09Ref {
	var cands []*c09Ref
	for _, t := range base.Types {
		switch t.Kind {
		case "SCALAR", "ENUM":
			cands = append(cands, &c09Ref{Kind: t.Kind, Name: t.Name})
		case "INPUT_OBJECT":
			if input {
				cands = append(cands, &c09Ref{Kind: t.Kind, Name: t.Name})
			}
		case "OBJECT", "UNION":
			if !input {
				cands = append(cands, &c09Ref{Kind: t.Kind, Name: t.Name})
			}
		}
	}
	t := cands[r.Intn(len(cands))]
	if r.Chance(0.3) {
		t = &c09Ref{Kind: "NON_NULL", OfType: t}
	}
	if r.Chance(0.25) {
		t = &c09Ref{Kind: "LIST", OfType: t}
		if r.Chance(0.4) {
			t = &c09Ref{Kind: "NON_NULL", OfType: t}
		}
		if r.Chance(0.3) { // a list of lists, non-null or not at each level
			t = &c09Ref{Kind: "LIST", OfType: t}
			if r.Chance(0.4) {
				t = &c09Ref{Kind: "NON_NULL", OfType: t}
			}
		}
	}
	return t
}

// c09Levels takes a reference apart: is it non-null at list depth 0, 1, ... and the named type at the bottom
func c09Levels(t *c09Ref) (nn []bool, named *c09Ref) {
	for {
		n := false
		if t.Kind == "NON_NULL" {
			n = true
			t = t.OfType
		}
		nn = append(nn, n)
		if t.Kind != "LIST" {
			return nn, t
		}
		t = t.OfType
	}
}

func c09FromLevels(nn []bool, named *c09Ref) *c09Ref {
	t := &c09Ref{Kind: named.Kind, Name: named.Name}
	for d := len(nn) - 1; d >= 0; d-- {
		if nn[d] {
			t = &c09Ref{Kind: "NON_NULL", OfType: t}
		}
		if d > 0 {
			t = &c09Ref{Kind: "LIST", OfType: t}
		}
	}
	return t
}

// toggleDeep flips the non-null modifier at a random list depth
func toggleDeep(r *Rand, t *c09Ref) *c09Ref {
	nn, named := c09Levels(t)
	d := r.Intn(len(nn))
	nn[d] = !nn[d]
	return c09FromLevels(nn, named)
}

// c09NNViolation: for an output, the merged reference is non-null at a depth where the version's is not
// (references of another shape are not compared)
func c09OutputTooStrict(merged, version *c09Ref) bool {
	mn, _ := c09Levels(merged)
	vn, _ := c09Levels(version)
	if len(mn) != len(vn) {
		return false
	}
	for d := range mn {
		if mn[d] && !vn[d] {
			return true
		}
	}
	return false
}

// for an input, the version requires a value at a depth where the merged reference does not
func c09InputTooLax(merged, version *c09Ref) bool {
	if merged == nil {
		return c09IsNN(version)
	}
	mn, _ := c09Levels(merged)
	vn, _ := c09Levels(version)
	if len(mn) != len(vn) {
		return false
	}
	for d := range mn {
		if vn[d] && !mn[d] {
			return true
		}
	}
	return false
}

func c09GenBase(r *Rand) *c09Schema {
	s := &c09Schema{}
	for i := 0; i < 2; i++ {
		s.Types = append(s.Types, c09Type{Name: nm("S", i), Kind: "SCALAR"})
	}
	for i := 0; i < 1+r.Intn(2); i++ {
		t := c09Type{Name: nm("E", i), Kind: "ENUM"}
		for v := 0; v < 1+r.Intn(3); v++ {
			t.EnumValues = append(t.EnumValues, struct {
				Name string `json:"name"`
			}{nm("V", v)})
		}
		s.Types = append(s.Types, t)
	}
	nObj := 2 + r.Intn(3)
	for i := 0; i < nObj; i++ {
		s.Types = append(s.Types, c09Type{Name: nm("O", i), Kind: "OBJECT"})
	}
	for i := 0; i < 1+r.Intn(2); i++ {
		s.Types = append(s.Types, c09Type{Name: nm("I", i), Kind: "INPUT_OBJECT"})
	}
	if r.Bool() {
		u := c09Type{Name: "U00", Kind: "UNION"}
		for i := 0; i < nObj; i++ {
			if r.Bool() {
				u.PossibleTypes = append(u.PossibleTypes, &c09Ref{Kind: "OBJECT", Name: nm("O", i)})
			}
		}
		s.Types = append(s.Types, u)
	}
	for i := range s.Types {
		t := &s.Types[i]
		switch t.Kind {
		case "OBJECT":
			for f := 0; f < 1+r.Intn(4); f++ {
				fld := c09Field{Name: nm("f", f), Type: c09GenRef(r, s, false), Args: []c09Arg{}}
				for a := 0; a < r.Intn(3); a++ {
					fld.Args = append(fld.Args, c09Arg{Name: nm("a", a), Type: c09GenRef(r, s, true)})
				}
				t.Fields = append(t.Fields, fld)
			}
		case "INPUT_OBJECT":
			for f := 0; f < 1+r.Intn(3); f++ {
				t.InputFields = append(t.InputFields, c09Arg{Name: nm("k", f), Type: c09GenRef(r, s, true)})
			}
		}
	}
	return s
}

func toggleNN(t *c09Ref) *c09Ref {
	if t.Kind == "NON_NULL" {
		return t.OfType
	}
	return &c09Ref{Kind: "NON_NULL", OfType: t}
}

// c09Mutate derives another version / another service's view of the schema.
func c09Mutate(r *Rand, base *c09Schema) *c09Schema {
	s := base.clone()
	n := 1 + r.Intn(4)
	for m := 0; m < n; m++ {
		if len(s.Types) == 0 {
			break
		}
		ti := r.Intn(len(s.Types))
		t := &s.Types[ti]
		switch r.Intn(14) {
		case 12, 13: // a list-typed output or argument gets another pattern of non-null modifiers over its levels
			if t.Kind == "OBJECT" && len(t.Fields) > 0 {
				var outs []*c09Field
				var args []*c09Arg
				for i := range t.Fields {
					if nn, _ := c09Levels(t.Fields[i].Type); len(nn) > 1 {
						outs = append(outs, &t.Fields[i])
					}
					for j := range t.Fields[i].Args {
						if nn, _ := c09Levels(t.Fields[i].Args[j].Type); len(nn) > 1 {
							args = append(args, &t.Fields[i].Args[j])
						}
					}
				}
				reroll := func(ref *c09Ref) *c09Ref {
					nn, named := c09Levels(ref)
					for d := range nn {
						nn[d] = r.Bool()
					}
					return c09FromLevels(nn, named)
				}
				if len(outs) > 0 && (len(args) == 0 || r.Bool()) {
					f := outs[r.Intn(len(outs))]
					f.Type = reroll(f.Type)
				} else if len(args) > 0 {
					a := args[r.Intn(len(args))]
					a.Type = reroll(a.Type)
				}
			}
		case 0: // drop a type
			if t.Kind != "SCALAR" {
				s.Types = append(s.Types[:ti], s.Types[ti+1:]...)
			}
		case 1: // add a field
			if t.Kind == "OBJECT" {
				name := nm("f", 5+r.Intn(3))
				dup := false
				for _, f := range t.Fields {
					if f.Name == name {
						dup = true
					}
				}
				if !dup {
					t.Fields = append(t.Fields, c09Field{Name: name, Type: c09GenRef(r, base, false), Args: []c09Arg{}})
				}
			}
		case 2: // drop a field
			if t.Kind == "OBJECT" && len(t.Fields) > 0 {
				i := r.Intn(len(t.Fields))
				t.Fields = append(t.Fields[:i], t.Fields[i+1:]...)
			}
		case 3: // add an argument (optional, sometimes required)
			if t.Kind == "OBJECT" && len(t.Fields) > 0 {
				f := &t.Fields[r.Intn(len(t.Fields))]
				typ := c09GenRef(r, base, true)
				if typ.Kind == "NON_NULL" && r.Chance(0.7) {
					typ = typ.OfType
				}
				name := nm("a", 3+r.Intn(3))
				dup := false
				for _, a := range f.Args {
					if a.Name == name {
						dup = true
					}
				}
				if !dup {
					f.Args = append(f.Args, c09Arg{Name: name, Type: typ})
				}
			}
		case 4: // drop an argument
			if t.Kind == "OBJECT" && len(t.Fields) > 0 {
				f := &t.Fields[r.Intn(len(t.Fields))]
				if len(f.Args) > 0 {
					i := r.Intn(len(f.Args))
					f.Args = append(f.Args[:i], f.Args[i+1:]...)
				}
			}
		case 5: // toggle non-null on an output
			if t.Kind == "OBJECT" && len(t.Fields) > 0 {
				f := &t.Fields[r.Intn(len(t.Fields))]
				if r.Bool() {
					f.Type = toggleNN(f.Type)
				} else {
					f.Type = toggleDeep(r, f.Type)
				}
			}
		case 6: // toggle non-null on an argument
			if t.Kind == "OBJECT" && len(t.Fields) > 0 {
				f := &t.Fields[r.Intn(len(t.Fields))]
				if len(f.Args) > 0 {
					a := &f.Args[r.Intn(len(f.Args))]
					if r.Bool() {
						a.Type = toggleNN(a.Type)
					} else {
						a.Type = toggleDeep(r, a.Type)
					}
				}
			}
		case 7: // enum values
			if t.Kind == "ENUM" {
				if r.Bool() && len(t.EnumValues) > 1 {
					t.EnumValues = t.EnumValues[1:]
				} else {
					name := nm("V", 4+r.Intn(3))
					dup := false
					for _, v := range t.EnumValues {
						if v.Name == name {
							dup = true
						}
					}
					if !dup {
						t.EnumValues = append(t.EnumValues, struct {
							Name string `json:"name"`
						}{name})
					}
				}
			}
		case 8: // union members
			if t.Kind == "UNION" {
				if r.Bool() && len(t.PossibleTypes) > 0 {
					t.PossibleTypes = t.PossibleTypes[1:]
				} else {
					name := nm("O", 5+r.Intn(2))
					dup := false
					for _, v := range t.PossibleTypes {
						if v.Name == name {
							dup = true
						}
					}
					if !dup {
						t.PossibleTypes = append(t.PossibleTypes, &c09Ref{Kind: "OBJECT", Name: name})
					}
				}
			}
		case 9: // input object fields
			if t.Kind == "INPUT_OBJECT" {
				if r.Bool() && len(t.InputFields) > 0 {
					t.InputFields = t.InputFields[1:]
				} else {
					typ := c09GenRef(r, base, true)
					if typ.Kind == "NON_NULL" && r.Chance(0.7) {
						typ = typ.OfType
					}
					name := nm("k", 4+r.Intn(2))
					dup := false
					for _, a := range t.InputFields {
						if a.Name == name {
							dup = true
						}
					}
					if !dup {
						t.InputFields = append(t.InputFields, c09Arg{Name: name, Type: typ})
					}
				}
			}
		case 10: // incompatible change (rare)
			if t.Kind == "OBJECT" && len(t.Fields) > 0 && r.Chance(0.3) {
				f := &t.Fields[r.Intn(len(t.Fields))]
				f.Type = &c09Ref{Kind: "LIST", OfType: f.Type}
			}
		case 11: // shuffle declaration order
			p := r.Perm(len(s.Types))
			ts := make([]c09Type, len(s.Types))
			for i, j := range p {
				ts[i] = s.Types[j]
			}
			s.Types = ts
		}
	}
	return s
}

type c09Case struct {
	Services map[string]map[string]*c09Schema `json:"services"`
}

func c09Gen(r *Rand) c09Case {
	base := c09GenBase(r)
	cs := c09Case{Services: map[string]map[string]*c09Schema{}}
	nServ := 1 + r.Intn(3)
	for s := 0; s < nServ; s++ {
		sbase := base
		if s > 0 || r.Bool() {
			sbase = c09Mutate(r, base)
		}
		vs := map[string]*c09Schema{}
		nVer := 1 + r.Intn(4)
		// versions form a history: each one is derived from an earlier one, so that later
		// versions share what an early one lacks; version names are then assigned in random order
		hist := []*c09Schema{sbase}
		for v := 1; v < nVer; v++ {
			hist = append(hist, c09Mutate(r, hist[r.Intn(len(hist))]))
		}
		for i, j := range r.Perm(nVer) {
			vs[nm("v", i)] = hist[j]
		}
		cs.Services[nm("svc", s)] = vs
	}
	return cs
}

func c09RunImpl(cs c09Case, rename map[string]string) (*c09Schema, error) {
	in := map[string]map[string]*federation.IntrospectionQueryResult{}
	for sn, vs := range cs.Services {
		name := sn
		if rename != nil && rename[sn] != "" {
			name = rename[sn]
		}
		in[name] = map[string]*federation.IntrospectionQueryResult{}
		for vn, s := range vs {
			if rename != nil && rename[sn+"/"+vn] != "" {
				vn = rename[sn+"/"+vn]
			}
			in[name][vn] = s.toResult()
		}
	}
	var res *federation.IntrospectionQueryResult
	var err error
	if p := safely(func() { res, err = federation.MergeIntrospectionSchemas(in) }); p != nil {
		return nil, fmt.Errorf("panic: %v", p)
	}
	if err != nil {
		return nil, err
	}
	b, _ := json.Marshal(res)
	var w struct {
		Schema c09Schema `json:"__schema"`
	}
	if err := json.Unmarshal(b, &w); err != nil {
		return nil, err
	}
	return &w.Schema, nil
}

func c09SortedNames(m map[string]map[string]*c09Schema) []string {
	var ns []string
	for n := range m {
		ns = append(ns, n)
	}
	sort.Strings(ns)
	return ns
}

func c09ModelServices(cs c09Case, order []string) []interface{} {
	var services []interface{}
	for _, sn := range order {
		vs := cs.Services[sn]
		var vns []string
		for vn := range vs {
			vns = append(vns, vn)
		}
		sort.Strings(vns)
		var versions []interface{}
		for _, vn := range vns {
			versions = append(versions, c09EncSchema(vs[vn]))
		}
		services = append(services, versions)
	}
	return services
}

func c09One(c *Ctx, m *Model, cs c09Case) {
	rep := c.Rep
	names := c09SortedNames(cs.Services)
	impl, ierr := c09RunImpl(cs, nil)
	resp, err := m.Call(map[string]interface{}{"op": "merge", "services": c09ModelServices(cs, names)})
	if err != nil {
		rep.Fail("harness_error", nil, cs, map[string]interface{}{"error": err.Error()})
		return
	}
	var implEnc interface{}
	if ierr == nil {
		implEnc = map[string]interface{}{"some": c09EncSchema(impl)}
	}
	if Canon(implEnc) != Canon(resp["merged"]) {
		rep.Fail("impl_ne_model", nil, cs, map[string]interface{}{"what": "merged schema differs from model", "impl_error": fmt.Sprint(ierr), "impl": implEnc, "model": resp["merged"]})
	}
	// S on the implementation: the outcome does not depend on how services are named (= ordered)
	if len(names) >= 2 {
		perm := c.Rng.Perm(len(names))
		rename := map[string]string{}
		identity := true
		for i, sn := range names {
			rename[sn] = names[perm[i]]
			if perm[i] != i {
				identity = false
			}
		}
		if !identity {
			impl2, ierr2 := c09RunImpl(cs, rename)
			same := (ierr == nil) == (ierr2 == nil)
			if same && ierr == nil {
				same = Canon(c09EncSchema(impl)) == Canon(c09EncSchema(impl2))
			}
			if !same {
				kf := []string{}
				if c09IsOrderFinding(len(names), ierr, ierr2) {
					kf = []string{"c09_union_order_three_services"}
				}
				rep.Fail("impl_ne_spec", kf, cs, map[string]interface{}{"what": "outcome depends on how services are named", "rename": rename, "err1": fmt.Sprint(ierr), "err2": fmt.Sprint(ierr2)})
			}
			rep.Count("renamed")
		}
	}
	// ... nor on how the versions of a service are named
	for _, sn := range names {
		vnames := []string{}
		for vn := range cs.Services[sn] {
			vnames = append(vnames, vn)
		}
		if len(vnames) < 2 {
			continue
		}
		sort.Strings(vnames)
		perm := c.Rng.Perm(len(vnames))
		rename := map[string]string{}
		identity := true
		for i, vn := range vnames {
			rename[sn+"/"+vn] = vnames[perm[i]]
			if perm[i] != i {
				identity = false
			}
		}
		if identity {
			continue
		}
		impl2, ierr2 := c09RunImpl(cs, rename)
		same := (ierr == nil) == (ierr2 == nil)
		if same && ierr == nil {
			same = Canon(c09EncSchema(impl)) == Canon(c09EncSchema(impl2))
		}
		if !same {
			kf := []string{}
			if len(vnames) >= 3 && (ierr == nil) != (ierr2 == nil) {
				// known finding C09-2: a conflict between two versions is only seen when the fold puts them side by side
				kf = []string{"c09_version_order_three_versions"}
			}
			rep.Fail("impl_ne_spec", kf, cs, map[string]interface{}{"what": "outcome depends on how the versions of a service are named", "rename": rename, "err1": fmt.Sprint(ierr), "err2": fmt.Sprint(ierr2)})
		}
		rep.Count("versions-renamed")
		break
	}
	// S: bounds (two versions of one service: intersection; two services: union)
	if ierr == nil {
		c09Bounds(rep, cs, impl)
		rep.Count("merged:ok")
	} else {
		rep.Count("merged:rejected")
	}
	rep.Count(fmt.Sprintf("services:%d", len(names)))
	rep.Eval(Canon(cs), len(names) > 1 || len(cs.Services[names[0]]) > 1, nil)
	if len(rep.Samples) < 2 && ierr == nil {
		rep.Samples = append(rep.Samples, map[string]interface{}{"services": len(names), "merged_types": len(impl.Types)})
	}
}

// c09IsOrderFinding is the signature of known finding C09-1: at least three services, one
// naming is accepted and the other is rejected with "new field … is non-null" (an argument or
// input field required by one service, unknown to a second, optional in a third).
func c09IsOrderFinding(nServices int, e1, e2 error) bool {
	if nServices < 3 || (e1 == nil) == (e2 == nil) {
		return false
	}
	e := e1
	if e == nil {
		e = e2
	}
	return strings.Contains(e.Error(), "is non-null")
}

// c09Repro runs the reproducer of known finding C09-1.
func c09Repro(rep *Report) {
	ref := func(name string, nn bool) *c09Ref {
		t := &c09Ref{Kind: "SCALAR", Name: name}
		if nn {
			return &c09Ref{Kind: "NON_NULL", OfType: t}
		}
		return t
	}
	mk := func(args []c09Arg) *c09Schema {
		return &c09Schema{Types: []c09Type{{Name: "S00", Kind: "SCALAR"}, {Name: "O00", Kind: "OBJECT", Fields: []c09Field{{Name: "f00", Type: ref("S00", false), Args: args}}}}}
	}
	x := mk([]c09Arg{{Name: "a00", Type: ref("S00", true)}})
	y := mk([]c09Arg{})
	z := mk([]c09Arg{{Name: "a00", Type: ref("S00", false)}})
	_, e1 := c09RunImpl(c09Case{Services: map[string]map[string]*c09Schema{"svc00": {"v": x}, "svc01": {"v": y}, "svc02": {"v": z}}}, nil)
	_, e2 := c09RunImpl(c09Case{Services: map[string]map[string]*c09Schema{"svc00": {"v": y}, "svc01": {"v": z}, "svc02": {"v": x}}}, nil)
	rep.Repros["C09-1"] = Repro{Fails: (e1 == nil) != (e2 == nil), Detail: fmt.Sprintf("services [x,y,z]: %v; services [y,z,x]: %v", e1, e2)}
	// C09-2: three versions of one service: f: S00, no f, f: S01
	mkf := func(t string) *c09Schema {
		fields := []c09Field{{Name: "g00", Type: ref("S00", false), Args: []c09Arg{}}}
		if t != "" {
			fields = append(fields, c09Field{Name: "f00", Type: ref(t, false), Args: []c09Arg{}})
		}
		return &c09Schema{Types: []c09Type{{Name: "S00", Kind: "SCALAR"}, {Name: "S01", Kind: "SCALAR"}, {Name: "O00", Kind: "OBJECT", Fields: fields}}}
	}
	old, mid, neu := mkf("S00"), mkf(""), mkf("S01")
	_, e1 = c09RunImpl(c09Case{Services: map[string]map[string]*c09Schema{"svc00": {"v00": old, "v01": mid, "v02": neu}}}, nil)
	_, e2 = c09RunImpl(c09Case{Services: map[string]map[string]*c09Schema{"svc00": {"v00": old, "v01": neu, "v02": mid}}}, nil)
	rep.Repros["C09-2"] = Repro{Fails: (e1 == nil) != (e2 == nil), Detail: fmt.Sprintf("versions [f: S00, no f, f: S01]: %v; versions [f: S00, f: S01, no f]: %v", e1, e2)}
	// C09-3: union mode keeps the input side of one service: an argument only one of two services knows
	f, d := kfTry(func() (bool, string) {
		a := mk([]c09Arg{{Name: "a00", Type: ref("S00", false)}})
		b := mk([]c09Arg{})
		merged, err := c09RunImpl(c09Case{Services: map[string]map[string]*c09Schema{"svc00": {"v": a}, "svc01": {"v": b}}}, nil)
		if err != nil {
			return false, ""
		}
		for _, t := range merged.Types {
			for _, fl := range t.Fields {
				if fl.Name == "f00" && len(fl.Args) == 1 {
					return true, "field f00 is served by svc00 (f00(a00)) and svc01 (f00()); the merged schema advertises f00(a00), which svc01 refuses with 'unexpected args'"
				}
			}
		}
		return false, ""
	})
	rep.Repros["C09-3"] = Repro{Fails: f, Detail: d}
	// C09-4 (fixed): every name of an enum value is introspected, the same ones in every build
	f, d = kfTry(func() (bool, string) {
		seen := map[string]bool{}
		for i := 0; i < 12; i++ {
			sb := schemabuilder.NewSchema()
			type c09Color int64
			sb.Enum(c09Color(0), map[string]c09Color{"RED": 1, "CRIMSON": 1, "BLUE": 2, "NAVY": 2, "AZURE": 2})
			sb.Query().FieldFunc("paint", func(args struct{ C c09Color }) c09Color { return args.C })
			sb.Mutation()
			b, err := introspection.RunIntrospectionQuery(introspection.BareIntrospectionSchema(sb.MustBuild()))
			if err != nil {
				return true, err.Error()
			}
			var w struct {
				Schema c09Schema `json:"__schema"`
			}
			if err := json.Unmarshal(b, &w); err != nil {
				return true, err.Error()
			}
			for _, t := range w.Schema.Types {
				if t.Kind == "ENUM" && t.Name == "c09Color" {
					names := []string{}
					for _, v := range t.EnumValues {
						names = append(names, v.Name)
					}
					seen[strings.Join(names, ",")] = true
				}
			}
		}
		if len(seen) != 1 || !seen["AZURE,BLUE,CRIMSON,NAVY,RED"] {
			return true, fmt.Sprintf("enum with two names for 1 and three for 2 is introspected as %v in 12 builds", seen)
		}
		return false, ""
	})
	rep.Repros["C09-4"] = Repro{Fails: f, Detail: d}
	// C09-5 (fixed): two argument struct types of one name
	f, d = kfTry(func() (bool, string) {
		sb := schemabuilder.NewSchema()
		{
			type Filter struct{ A int64 }
			sb.Query().FieldFunc("fa", func(args struct{ In Filter }) int64 { return 1 })
		}
		{
			type Filter struct{ B *string }
			sb.Query().FieldFunc("fb", func(args struct{ In Filter }) int64 { return 1 })
		}
		sb.Mutation()
		var berr error
		if p := safely(func() { _, berr = sb.Build() }); p != nil {
			berr = fmt.Errorf("%v", p)
		}
		if berr == nil {
			return true, "two different argument structs named Filter are both advertised as Filter_InputObject"
		}
		return false, ""
	})
	rep.Repros["C09-5"] = Repro{Fails: f, Detail: d}
}

func c09TypeMap(s *c09Schema) map[string]*c09Type {
	m := map[string]*c09Type{}
	for i := range s.Types {
		m[s.Types[i].Name] = &s.Types[i]
	}
	return m
}

func c09IsNN(r *c09Ref) bool { return r != nil && r.Kind == "NON_NULL" }

// c09Bounds checks on the implementation's output what the property states: per service only
// what all versions support; everything a service supports is in the gateway schema; an
// argument is required if any side requires it; an output is non-null only if all sides are.
func c09Bounds(rep *Report, cs c09Case, merged *c09Schema) {
	mt := c09TypeMap(merged)
	names := c09SortedNames(cs.Services)
	if len(names) == 1 {
		// pure intersection: every type/field/arg of the result is in every version
		for _, v := range cs.Services[names[0]] {
			vt := c09TypeMap(v)
			for tn, t := range mt {
				o, ok := vt[tn]
				if !ok {
					rep.Fail("impl_ne_spec", nil, cs, map[string]interface{}{"what": "intersection contains a type one version lacks", "type": tn})
					return
				}
				of := map[string]*c09Field{}
				for i := range o.Fields {
					of[o.Fields[i].Name] = &o.Fields[i]
				}
				for _, f := range t.Fields {
					vf, ok := of[f.Name]
					if !ok {
						rep.Fail("impl_ne_spec", nil, cs, map[string]interface{}{"what": "intersection contains a field one version lacks", "type": tn, "field": f.Name})
						return
					}
					if c09OutputTooStrict(f.Type, vf.Type) {
						rep.Fail("impl_ne_spec", nil, cs, map[string]interface{}{"what": "merged output is non-null (at some list depth) although one version may return null there", "type": tn, "field": f.Name, "merged": f.Type, "version": vf.Type})
						return
					}
					ma := map[string]*c09Ref{}
					for _, a := range f.Args {
						ma[a.Name] = a.Type
					}
					for _, a := range vf.Args {
						if c09InputTooLax(ma[a.Name], a.Type) {
							rep.Fail("impl_ne_spec", nil, cs, map[string]interface{}{"what": "an argument one version requires is not required by the merged schema", "type": tn, "field": f.Name, "arg": a.Name})
							return
						}
					}
					for an := range ma {
						found := false
						for _, a := range vf.Args {
							if a.Name == an {
								found = true
							}
						}
						if !found {
							rep.Fail("impl_ne_spec", nil, cs, map[string]interface{}{"what": "intersection contains an argument one version lacks", "type": tn, "field": f.Name, "arg": an})
							return
						}
					}
				}
			}
		}
		rep.Count("bounds:intersection")
		return
	}
	// union of single-version services: everything is there
	for _, sn := range names {
		if len(cs.Services[sn]) != 1 {
			return
		}
	}
	for _, sn := range names {
		for _, v := range cs.Services[sn] {
			for _, t := range v.Types {
				m, ok := mt[t.Name]
				if !ok {
					rep.Fail("impl_ne_spec", nil, cs, map[string]interface{}{"what": "union lacks a type a service supports", "type": t.Name})
					return
				}
				mf := map[string]bool{}
				for _, f := range m.Fields {
					mf[f.Name] = true
				}
				for _, f := range t.Fields {
					if !mf[f.Name] {
						rep.Fail("impl_ne_spec", nil, cs, map[string]interface{}{"what": "union lacks a field a service supports", "type": t.Name, "field": f.Name})
						return
					}
				}
			}
		}
	}
	rep.Count("bounds:union")
}

func runC09(c *Ctx) error {
	m, err := StartModel("C09")
	if err != nil {
		return err
	}
	defer m.Close()
	c.Rep.Rule = "families of introspection schemas derived from one base by adding/removing types, fields, arguments (optional and required), input-object fields, enum values, union members, toggling non-null, incompatible changes and reordering; 1..3 services x 1..3 versions; non-trivial = more than one schema merged; distinct by canonical family"
	c.Rep.Assumptions = append(c.Rep.Assumptions,
		"names are interned so that number order is string order (generator names: one letter + two digits)",
		"descriptions, deprecation and directives are not part of the model")
	if c.Replay != "" {
		var f struct {
			Case c09Case `json:"case"`
		}
		b, err := os.ReadFile(c.Replay)
		if err != nil {
			return err
		}
		if err := json.Unmarshal(b, &f); err != nil {
			return err
		}
		c09One(c, m, f.Case)
		return nil
	}
	c09Repro(c.Rep)
	n := c.N(2500, 150000)
	for i := 0; i < n; i++ {
		c09One(c, m, c09Gen(c.Rng))
	}
	return nil
}
