package main

// C16 — A failing resolver fails the whole query; clients only see sanitised errors.

import (
	"context"
	"encoding/json"
	"errors"
	"fmt"
	"os"
	"regexp"
	"strings"

	"github.com/samsarahq/thunder/batch"
	"github.com/samsarahq/thunder/graphql"
	"github.com/samsarahq/thunder/graphql/schemabuilder"
)

func init() { register("C16", runC16) }

type c16Case struct {
	Root  *xNode                 `json:"root"`
	Query string                 `json:"query"`
	Vars  map[string]interface{} `json:"vars"`
	Flag  bool                   `json:"flag"`
}

type c16Adm struct {
	Code  int
	Safe  bool
	Path  []string
	Batch bool
}

var idxRe = regexp.MustCompile(`^[0-9]+$`)

func eraseIdx(p []string) string {
	out := make([]string, len(p))
	for i, s := range p {
		if idxRe.MatchString(s) {
			out[i] = "*"
		} else {
			out[i] = s
		}
	}
	return strings.Join(out, ".")
}

// c16Check evaluates the property on one implementation outcome against the admissible errors.
func c16Check(out interface{}, err error, adm []c16Adm) (string, map[string]interface{}) {
	if len(adm) == 0 {
		if err != nil {
			return "impl_ne_spec", map[string]interface{}{"what": "no needed resolver fails, but execution returned an error", "error": firstN(err.Error(), 300)}
		}
		return "", nil
	}
	if err == nil {
		return "impl_ne_spec", map[string]interface{}{"what": "a needed resolver fails, but execution returned data (partial data / swallowed error)", "data": out, "failing": fmt.Sprint(adm)}
	}
	if out != nil {
		return "impl_ne_spec", map[string]interface{}{"what": "execution returned both data and an error", "data": out}
	}
	info := parseXErr(err)
	if len(info.Path) > 0 && info.Path[0] == "Q" {
		info.Path = info.Path[1:] // thunder starts the path with the operation name
	}
	for _, a := range adm {
		if a.Code != info.Code || a.Safe != info.Safe {
			continue
		}
		if a.Safe {
			if len(info.Path) == 0 {
				return "", nil
			}
			continue
		}
		if a.Batch {
			if eraseIdx(a.Path) == eraseIdx(info.Path) {
				return "", nil
			}
		} else if strings.Join(a.Path, ".") == strings.Join(info.Path, ".") {
			return "", nil
		}
	}
	return "impl_ne_spec", map[string]interface{}{"what": "the error is not one raised by a failing field of the query with that field's response path", "error": info, "admissible": fmt.Sprint(adm)}
}

func c16Sanitized(err error) (string, map[string]interface{}) {
	info := parseXErr(err)
	got := graphql.SanitizeError(err)
	want := "Internal server error"
	if info.Safe {
		want = fmt.Sprintf("S%d", info.Code)
	}
	if got != want {
		return "impl_ne_spec", map[string]interface{}{"what": "SanitizeError forwards text that is not the message of a safe error (or hides a safe one)", "got": got, "want": want, "error": info}
	}
	if strings.Contains(got, "secret") || strings.Contains(got, "hidden") || strings.Contains(got, "panic") {
		return "impl_ne_spec", map[string]interface{}{"what": "SanitizeError leaks inner text", "got": got}
	}
	return "", nil
}

func c16One(c *Ctx, m *Model, root *xNode, q *xQuery, flag bool) {
	rep := c.Rep
	cs := c16Case{Root: root, Query: q.Text, Vars: q.Vars, Flag: flag}
	resp, err := m.Call(map[string]interface{}{"op": "exec", "schema": xSchemaEnc(flag), "root": 4,
		"data": xNodeEnc(root), "query": q.enc(q.Set), "fuel": 40})
	if err != nil {
		rep.Fail("harness_error", nil, cs, map[string]interface{}{"error": err.Error()})
		return
	}
	ref, _ := resp["ref"].(map[string]interface{})
	exec, _ := resp["exec"].(map[string]interface{})
	var adm []c16Adm
	for _, e := range resp["errs"].([]interface{}) {
		em := e.(map[string]interface{})
		ee := em["err"].(map[string]interface{})
		adm = append(adm, c16Adm{Code: int(toInt64(ee["code"])), Safe: ee["safe"].(bool), Path: q.modelErrPath(ee["path"].([]interface{})), Batch: em["batch"].(bool)})
	}
	// model-internal consistency (theorems ok_iff, failing_resolver_fails_query)
	if (ref["err"] != nil) != (len(adm) > 0) || (exec["err"] != nil) != (ref["err"] != nil) {
		rep.Fail("model_ne_spec", nil, cs, map[string]interface{}{"what": "model: reference fails iff some reachable resolver fails iff executor fails", "ref": ref, "exec": exec, "errs": resp["errs"]})
		return
	}
	if ref["err"] == nil && Canon(sortJ(ref["ok"])) != Canon(sortJ(exec["ok"])) {
		rep.Fail("model_ne_spec", nil, cs, map[string]interface{}{"what": "model: executor differs from reference", "ref": ref, "exec": exec})
		return
	}
	var seen error
	for name, sched := range xSchedulers(c.Rng) {
		out, ierr := xRun(root, q.Text, q.Vars, flag, sched)
		if ierr != nil && strings.HasPrefix(ierr.Error(), "panic: ") {
			rep.Fail("impl_ne_spec", nil, cs, map[string]interface{}{"what": "a panic escaped the executor", "scheduler": name, "error": firstN(ierr.Error(), 300)})
			return
		}
		if kind, d := c16Check(out, ierr, adm); kind != "" {
			d["scheduler"] = name
			rep.Fail(kind, nil, cs, d)
			return
		}
		if ierr != nil {
			seen = ierr
			if kind, d := c16Sanitized(ierr); kind != "" {
				rep.Fail(kind, nil, cs, d)
				return
			}
		} else if got := Canon(q.jEnc(out)); got != Canon(sortJ(exec["ok"])) {
			rep.Fail("impl_ne_model", nil, cs, map[string]interface{}{"what": "result differs from the executor model", "scheduler": name, "impl": q.jEnc(out), "model": sortJ(exec["ok"])})
			return
		}
	}
	if seen != nil {
		// sanitisation model on the same error shape
		info := parseXErr(seen)
		keys := []int{}
		for range info.Path {
			keys = append(keys, 1)
		}
		sresp, err := m.Call(map[string]interface{}{"op": "sanitize", "err": xGoErrEnc(info.Code, info.Safe), "keys": keys})
		if err != nil {
			rep.Fail("harness_error", nil, cs, map[string]interface{}{"error": err.Error()})
			return
		}
		msg := sresp["msg"].(map[string]interface{})
		got := graphql.SanitizeError(seen)
		modelMsg := "Internal server error"
		if t, ok := msg["text"]; ok {
			modelMsg = fmt.Sprintf("S%d", toInt64(t))
		}
		if got != modelMsg {
			rep.Fail("impl_ne_model", nil, cs, map[string]interface{}{"what": "SanitizeError differs from the model's sanitize", "impl": got, "model": modelMsg})
			return
		}
		rep.Count("failing")
		rep.Count(fmt.Sprintf("errshape_safe=%v_mod=%d", info.Safe, info.Code%6))
	} else {
		rep.Count("succeeding")
	}
	rep.Eval(q.Text+Canon(xNodeEnc(root)), len(adm) > 0, map[string]interface{}{"query": firstN(q.Text, 300), "failing_fields": len(adm)})
}

func runC16(c *Ctx) error {
	m, err := StartModel("C16")
	if err != nil {
		return err
	}
	defer m.Close()
	buildXSchema()
	c.Rep.Rule = "random data trees in which resolvers fail with probability 0.03/0.1/0.3 per datum (plain error, %w-wrapping of a safe error, panic, SafeError, WrapAsSafeError; in external, Expensive, batch, batch-with-fallback and parallel-split fields; often several at once) x random queries x 5 work schedulers; oracle on the implementation: error iff a reachable resolver fails, no data with an error, the error is one of the reachable failures with its response path (indices compared unless the field ran as a batch), SanitizeError forwards only safe messages; non-trivial = at least one reachable failing resolver"
	c.Rep.Assumptions = append(c.Rep.Assumptions,
		"which of several concurrent failures is reported is left open (any reachable failure is admissible)",
		"for a failing batch resolver thunder records the path of the unit's first destination; list indices are therefore not compared for batch fields",
		"error envelopes over the websocket protocol are covered by the connection harness, not here")
	if c.Replay != "" {
		var f struct {
			Case c16Case `json:"case"`
		}
		b, err := os.ReadFile(c.Replay)
		if err != nil {
			return err
		}
		if err := json.Unmarshal(b, &f); err != nil {
			return err
		}
		for name, sched := range xSchedulers(c.Rng) {
			out, ierr := xRun(f.Case.Root, f.Case.Query, f.Case.Vars, f.Case.Flag, sched)
			es := ""
			if ierr != nil {
				es = firstN(ierr.Error(), 200)
			}
			fmt.Printf("replay %s: data=%v error=%q\n", name, Canon(out), es)
		}
		return nil
	}
	c16Directed(c)
	// the websocket part: error envelopes of real connections
	for i := 0; i < c.N(60, 1500) && !c.Rep.ShouldStop(); i++ {
		c16WS(c, i)
	}
	n := c.N(600, 30000)
	for i := 0; i < n && !c.Rep.ShouldStop(); i++ {
		g := &xGen{r: c.Rng, failProb: []float64{0.03, 0.1, 0.3}[c.Rng.Intn(3)]}
		root := g.node("Q", 3)
		root.F = g.cleanRoot(root.F)
		q := genXQuery(c.Rng, 3, []float64{0, 0.2}[c.Rng.Intn(2)], 0)
		c16One(c, m, root, q, c.Rng.Bool())
	}
	return nil
}

// c16WS: over the websocket protocol only messages of errors marked safe are forwarded; an
// initially failing subscription is reported once and then closed.
func c16WS(c *Ctx, i int) {
	rep := c.Rep
	r := c.Rng
	var acts []cnAction
	for k := 0; k < 3+r.Intn(8); k++ {
		id := 1 + r.Intn(3)
		switch r.Intn(7) {
		case 0, 1:
			acts = append(acts, cnAction{Op: "fail", Arg: []int64{1, 2, 3, 4, 5, 6}[r.Intn(6)]})
		case 2, 3:
			acts = append(acts, cnAction{Op: "subscribe", ID: id, Query: 4}) // the query with the flaky field
		case 4:
			acts = append(acts, cnAction{Op: "mutateFail", ID: id})
		case 5:
			acts = append(acts, cnAction{Op: "heal"})
		case 6:
			acts = append(acts, cnAction{Op: "change", Arg: int64(r.Intn(100))}, cnAction{Op: "pause", Arg: 200})
		}
	}
	cs := cnCase{Seed: r.U64(), Actions: acts}
	res := cnRun(cs)
	if res.Problem != "" {
		rep.Fail("impl_ne_spec", nil, cs, map[string]interface{}{"what": res.Problem})
		return
	}
	if kind, d := cnLifecycleOracle(res, 200); kind != "" {
		rep.Fail(kind, nil, cs, d)
		return
	}
	nErr := 0
	for _, e := range res.Events {
		if e.Kind != "write" {
			continue
		}
		m := e.Data.(map[string]interface{})
		if m["type"] == "error" {
			nErr++
			msg, _ := m["message"].(string)
			switch msg {
			case "Internal server error", "safe-text", "app-client-text", "duplicate subscription", "too many subscriptions", "unknown message type":
			default:
				rep.Fail("impl_ne_spec", nil, cs, map[string]interface{}{"what": "an error envelope carries text that is not a safe error's message", "message": msg})
				return
			}
		}
		b, _ := json.Marshal(m)
		if strings.Contains(string(b), "secret") {
			rep.Fail("impl_ne_spec", nil, cs, map[string]interface{}{"what": "an envelope leaks the text of an error not marked safe", "envelope": m})
			return
		}
	}
	for _, g := range c02Split(res.Events) {
		if len(g.kinds) > 0 && g.kinds[0] == "error" && (len(g.kinds) != 1 || !g.ended) {
			rep.Fail("impl_ne_spec", nil, cs, map[string]interface{}{"what": "an initially failing subscription must be reported once and then closed", "envelopes": g.kinds, "closed": g.ended, "id": g.id})
			return
		}
		// a subscription that ended on its own before any run succeeded has failed initially: that must have been said
		if g.ended && !g.unsub && g.execs > 0 && len(g.results) == 0 && len(g.kinds) == 0 {
			rep.Fail("impl_ne_spec", nil, cs, map[string]interface{}{"what": "a subscription whose first run failed was closed without the failure being reported", "id": g.id, "query": g.query})
			return
		}
	}
	rep.Count("ws")
	rep.Eval(fmt.Sprintf("ws-%d", cs.Seed), nErr > 0, map[string]interface{}{"error_envelopes": nErr})
}

// cleanRoot: nothing to clean at present (kept for symmetry with other generators)
func (g *xGen) cleanRoot(f map[string]*xVal) map[string]*xVal { return f }

// ---- directed cases (findings C16-2, C16-3) ---------------------------------------------------------------------

type c16Stamp struct{ Bad bool }

func (s c16Stamp) MarshalText() ([]byte, error) {
	if s.Bad {
		return nil, errors.New("E77")
	}
	return []byte("ok"), nil
}

type c16Item struct {
	Idx   int64
	Stamp c16Stamp
}

type C16UA struct{ N int64 }
type C16UB struct{ N int64 }
type c16U struct {
	schemabuilder.Union
	*C16UA
	*C16UB
}
type c16H struct {
	Idx int64
	U   *c16U
}

func c16DirectedSchema() *graphql.Schema {
	sb := schemabuilder.NewSchema()
	q := sb.Query()
	q.FieldFunc("fine", func() string { return "x" })
	q.FieldFunc("boom", func() (string, error) { panic(nil) })
	q.FieldFunc("items", func() []c16Item {
		return []c16Item{{Idx: 0}, {Idx: 1}, {Idx: 2, Stamp: c16Stamp{Bad: true}}, {Idx: 3}}
	})
	q.FieldFunc("hs", func() []c16H {
		return []c16H{{Idx: 0, U: &c16U{C16UA: &C16UA{1}}}, {Idx: 1, U: &c16U{C16UA: &C16UA{1}, C16UB: &C16UB{2}}}, {Idx: 2, U: &c16U{C16UB: &C16UB{3}}}}
	})
	it := sb.Object("c16Item", c16Item{})
	it.FieldFunc("exp", func(o c16Item) (string, error) { panic(nil) }, schemabuilder.Expensive)
	it.BatchFieldFunc("bat", func(m map[batch.Index]c16Item) (map[batch.Index]string, error) { panic(nil) })
	sb.Object("C16UA", C16UA{})
	sb.Object("C16UB", C16UB{})
	sb.Object("c16H", c16H{})
	sb.Mutation()
	return sb.MustBuild()
}

// c16Directed: a resolver that panics with nil fails the query like any other panic; an error raised while a value is
// written out (a text marshaler, a union with two members set) carries the path of that value.
func c16Directed(c *Ctx) {
	rep := c.Rep
	schema := c16DirectedSchema()
	cases := []struct {
		query string
		path  string // "" = any
		text  string
	}{
		{"{ fine boom }", "boom", "panic"},
		{"{ fine items { idx exp } }", "", "panic"},
		{"{ fine items { idx bat } }", "", "panic"},
		{"{ fine items { idx stamp } }", "items.2.stamp", "E77"},
		{"{ fine xs: items { s: stamp } }", "xs.2.s", "E77"},
		{"{ hs { idx u { ... on C16UA { n } ... on C16UB { n } } } }", "hs.1.u", "union type field should only return one value"},
	}
	for _, tc := range cases {
		for name, sched := range xSchedulers(c.Rng) {
			cs := map[string]interface{}{"directed": tc.query, "scheduler": name}
			var out interface{}
			var err error
			if p := safely(func() { out, err = gqlRunSched(context.Background(), schema, tc.query, nil, sched) }); p != nil {
				rep.Fail("impl_ne_spec", nil, cs, map[string]interface{}{"what": "a panic escaped the executor", "panic": firstN(fmt.Sprint(p), 200)})
				continue
			}
			switch {
			case err == nil:
				rep.Fail("impl_ne_spec", nil, cs, map[string]interface{}{"what": "a needed resolver fails, but execution returned data (partial data / swallowed error)", "data": out})
			case out != nil:
				rep.Fail("impl_ne_spec", nil, cs, map[string]interface{}{"what": "execution returned both data and an error", "data": out})
			case !strings.Contains(err.Error(), tc.text):
				rep.Fail("impl_ne_spec", nil, cs, map[string]interface{}{"what": "the error is not the one raised by the failing field", "error": firstN(err.Error(), 200)})
			case tc.path != "" && !strings.HasPrefix(err.Error(), tc.path+": "):
				rep.Fail("impl_ne_spec", nil, cs, map[string]interface{}{"what": "the error does not carry the response path of the value that failed", "want_path": tc.path, "error": firstN(err.Error(), 200)})
			default:
				rep.Count("directed")
				rep.Eval("directed|"+tc.query+"|"+name, true, cs)
			}
		}
	}
}
