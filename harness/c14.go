package main

// C14 — Validated queries cannot go wrong and responses match the advertised schema.

import (
	"context"
	"encoding/json"
	"fmt"
	"os"
	"strings"

	"github.com/samsarahq/thunder/batch"
	"github.com/samsarahq/thunder/graphql"
	"github.com/samsarahq/thunder/graphql/introspection"
	"github.com/samsarahq/thunder/internal"
)

func init() { register("C14", runC14) }

// ---- the advertised schema, read from introspection ------------------------------------------

type introType struct {
	Kind   string     `json:"kind"`
	Name   string     `json:"name"`
	OfType *introType `json:"ofType"`
}

type introFull struct {
	Kind   string `json:"kind"`
	Name   string `json:"name"`
	Fields []struct {
		Name string    `json:"name"`
		Type introType `json:"type"`
	} `json:"fields"`
	PossibleTypes []introType `json:"possibleTypes"`
	EnumValues    []struct {
		Name string `json:"name"`
	} `json:"enumValues"`
}

func introTyEnc(t *introType) (interface{}, error) {
	switch t.Kind {
	case "NON_NULL":
		in, err := introTyEnc(t.OfType)
		return map[string]interface{}{"nn": in}, err
	case "LIST":
		in, err := introTyEnc(t.OfType)
		return map[string]interface{}{"list": in}, err
	case "SCALAR", "ENUM":
		return "scalar", nil
	case "OBJECT":
		id, ok := xTypeID[strings.TrimPrefix(t.Name, "X")]
		if !ok {
			return nil, fmt.Errorf("unknown object %s", t.Name)
		}
		return map[string]interface{}{"obj": id}, nil
	case "UNION":
		id, ok := xTypeID[strings.TrimPrefix(t.Name, "X")]
		if !ok {
			return nil, fmt.Errorf("unknown union %s", t.Name)
		}
		return map[string]interface{}{"union": id}, nil
	}
	return nil, fmt.Errorf("unknown kind %s", t.Kind)
}

func introTypes() (map[string]*introFull, error) {
	schema := newXSchema()
	introspection.AddIntrospectionToSchema(schema)
	b, err := introspection.RunIntrospectionQuery(schema)
	if err != nil {
		return nil, err
	}
	var doc struct {
		Schema struct {
			Types []*introFull `json:"types"`
		} `json:"__schema"`
	}
	if err := json.Unmarshal(b, &doc); err != nil {
		return nil, err
	}
	out := map[string]*introFull{}
	for _, t := range doc.Schema.Types {
		out[t.Name] = t
	}
	return out, nil
}

// xSchemaFromIntrospection builds the model schema from what the server advertises; execution
// modes, sources and the key field are not part of the advertised schema and come from the table.
func xSchemaFromIntrospection() (interface{}, error) {
	types, err := introTypes()
	if err != nil {
		return nil, err
	}
	objs := []interface{}{}
	for _, o := range []string{"A", "B", "Q"} {
		name := map[string]string{"A": "XA", "B": "XB", "Q": "Query"}[o]
		t := types[name]
		if t == nil {
			return nil, fmt.Errorf("type %s not advertised", name)
		}
		fs := []interface{}{}
		adv := map[string]bool{}
		for _, f := range t.Fields {
			if strings.HasPrefix(f.Name, "__") {
				continue
			}
			adv[f.Name] = true
			xf := xFieldByName[o+"."+f.Name]
			if xf == nil {
				return nil, fmt.Errorf("advertised field %s.%s is not in the harness table", name, f.Name)
			}
			ty, err := introTyEnc(&f.Type)
			if err != nil {
				return nil, err
			}
			fs = append(fs, map[string]interface{}{"name": xf.ID, "ty": ty, "mode": "inline", "par": nil, "src": xf.SrcID})
		}
		for _, xf := range xFieldsOf(o) {
			if !adv[xf.Name] {
				return nil, fmt.Errorf("field %s.%s of the harness table is not advertised", name, xf.Name)
			}
		}
		var key interface{}
		if o == "A" {
			key = xFieldByName["A.id"].ID
		}
		objs = append(objs, []interface{}{xTypeID[o], map[string]interface{}{"fields": fs, "key": key}})
	}
	u := types["XU"]
	if u == nil {
		return nil, fmt.Errorf("union XU not advertised")
	}
	var members []int
	for _, pt := range u.PossibleTypes {
		members = append(members, xTypeID[strings.TrimPrefix(pt.Name, "X")])
	}
	if len(members) == 2 && members[0] > members[1] {
		members[0], members[1] = members[1], members[0]
	}
	return map[string]interface{}{"objects": objs, "unions": []interface{}{[]interface{}{3, members}}}, nil
}

// ---- ill-formed selection trees ---------------------------------------------------------------

// c14Mutate applies one ill-forming mutation somewhere in the query and says which.
var c14Kinds = []string{"unknown_field", "sub_on_scalar", "no_sub_on_object", "alias_conflict", "field_on_union", "typename_sub", "foreign_fragment", "root_typename", "shared_fragment_elsewhere"}

func c14Mutate(r *Rand, q *xQuery) string { return c14MutateAt(r, q, -1, "") }

// c14MutateAt: the mutation `kind` at the site-th selection set of the query (site < 0, kind "": chosen at random);
// "" when the mutation does not apply there
func c14MutateAt(r *Rand, q *xQuery, site int, kind string) string {
	var sets []*xSelSet
	var typs []string
	seen := map[*xSelSet]bool{}
	var walk func(ss *xSelSet, typ string)
	walk = func(ss *xSelSet, typ string) {
		if ss == nil || seen[ss] {
			return
		}
		seen[ss] = true
		sets = append(sets, ss)
		typs = append(typs, typ)
		for _, s := range ss.Sels {
			if s.Field != nil && s.Sub != nil {
				walk(s.Sub, s.Field.Ty[:1])
			}
		}
		for _, f := range ss.Frags {
			walk(f.Set, f.On)
		}
	}
	walk(q.Set, "Q")
	i := site
	if i < 0 {
		i = r.Intn(len(sets))
	} else if i >= len(sets) {
		return ""
	}
	ss, typ := sets[i], typs[i]
	if kind == "" {
		kind = []string{"unknown_field", "sub_on_scalar", "no_sub_on_object", "alias_conflict", "field_on_union", "typename_sub", "foreign_fragment", "root_typename", "shared_fragment_elsewhere", "shared_fragment_elsewhere"}[r.Intn(10)]
	}
	pick := func(pred func(*xSel) bool) *xSel {
		var c []*xSel
		for _, s := range ss.Sels {
			if pred(s) {
				c = append(c, s)
			}
		}
		if len(c) == 0 {
			return nil
		}
		return c[r.Intn(len(c))]
	}
	leafSub := func() *xSelSet { return &xSelSet{Sels: []*xSel{{Alias: "__typename"}}} }
	switch kind {
	case "shared_fragment_elsewhere":
		// spread a named fragment that is used (validly) under one object type also under the other
		// object type, where its selections are unknown or have another type
		if typ != "A" && typ != "B" {
			return ""
		}
		other := map[string]string{"A": "B", "B": "A"}[typ]
		var cands []*xFrag
		for _, d := range q.Defs {
			if d.On == other {
				cands = append(cands, d)
			}
		}
		if len(cands) == 0 {
			// define one on the other type, use it there validly if such a place exists, and here
			var leaf *xField
			for _, f := range xFieldsOf(other) {
				if f.Name == "cEx" {
					leaf = f
				}
			}
			def := &xFrag{On: other, Named: "FX"}
			sel := &xSel{Alias: "cEx", Field: leaf}
			if other == "B" {
				sel.Sub = &xSelSet{Sels: []*xSel{{Alias: "z", Field: xFieldByName["A.z"]}}}
			}
			def.Set = &xSelSet{Sels: []*xSel{sel}}
			q.Defs["FX"] = def
			cands = append(cands, def)
			// a valid use under the fragment's own type, if the query has a place for it
			for j, t := range typs {
				if t == other {
					sets[j].Frags = append(sets[j].Frags, &xFrag{On: other, Set: def.Set, Named: "FX"})
					break
				}
			}
		}
		sortFrags(cands)
		d := cands[r.Intn(len(cands))]
		// no cycles: the place must not lie inside the fragment itself
		inside := false
		seenIn := map[*xSelSet]bool{}
		var reach func(x *xSelSet)
		reach = func(x *xSelSet) {
			if x == nil || seenIn[x] {
				return
			}
			seenIn[x] = true
			if x == ss {
				inside = true
			}
			for _, s := range x.Sels {
				reach(s.Sub)
			}
			for _, f := range x.Frags {
				reach(f.Set)
			}
		}
		reach(d.Set)
		if inside {
			return ""
		}
		ss.Frags = append(ss.Frags, &xFrag{On: d.On, Set: d.Set, Named: d.Named})
	case "root_typename":
		q.Set.Sels = append(q.Set.Sels, &xSel{Alias: "__typename"})
	case "unknown_field":
		ss.Sels = append(ss.Sels, &xSel{Alias: "nope", Raw: "nope"})
	case "sub_on_scalar":
		s := pick(func(s *xSel) bool { return s.Field != nil && s.Sub == nil })
		if s == nil {
			return ""
		}
		s.Sub = leafSub()
	case "no_sub_on_object":
		s := pick(func(s *xSel) bool { return s.Field != nil && s.Sub != nil })
		if s == nil {
			return ""
		}
		s.Sub = nil
	case "alias_conflict":
		if typ == "U" {
			return ""
		}
		a := pick(func(s *xSel) bool { return s.Field != nil })
		if a == nil {
			return ""
		}
		var other *xField
		for _, f := range xFieldsOf(typ) {
			if f != a.Field && (f.Ty == "sc") != (a.Sub == nil) {
				other = f
				break
			}
		}
		if other == nil {
			return ""
		}
		dup := &xSel{Alias: a.Alias, Field: other}
		if other.Ty != "sc" && other.Ty != "ints" && other.Ty != "tr" {
			dup.Sub = leafSub()
			if other.Ty[:1] == "U" {
				dup.Sub = &xSelSet{Sels: []*xSel{{Alias: "__typename"}}}
			}
		}
		ss.Sels = append(ss.Sels, dup)
	case "field_on_union":
		if typ != "U" {
			return ""
		}
		ss.Sels = append(ss.Sels, &xSel{Alias: "z", Field: xFieldByName["A.z"]})
	case "typename_sub":
		ss.Sels = append(ss.Sels, &xSel{Alias: "__typename", Sub: leafSub()})
	case "foreign_fragment":
		if typ == "U" || typ == "Q" {
			return ""
		}
		other := map[string]string{"A": "B", "B": "A"}[typ]
		// a fragment on another object type selecting one of *its* fields
		var leaf *xField
		for _, f := range xFieldsOf(other) {
			if f.Ty == "sc" && xFieldByName[typ+"."+f.Name] == nil {
				leaf = f
				break
			}
		}
		if leaf == nil {
			return ""
		}
		ss.Frags = append(ss.Frags, &xFrag{On: other, Set: &xSelSet{Sels: []*xSel{{Alias: leaf.Name, Field: leaf}}}})
	}
	q.Text = q.render()
	return kind
}

type c14Case struct {
	Root     *xNode                 `json:"root"`
	Query    string                 `json:"query"`
	Vars     map[string]interface{} `json:"vars"`
	Mutation string                 `json:"mutation"`
}

// c14Impl: verdict of Parse + PrepareQuery, and the outcome of Execute when accepted.
func c14Impl(cs c14Case) (accepted bool, rejectMsg string, out interface{}, execErr error, panicked interface{}) {
	schema := buildXSchema()
	panicked = safely(func() {
		q, err := graphql.Parse(cs.Query, cs.Vars)
		if err != nil {
			rejectMsg = "parse: " + err.Error()
			return
		}
		ctx := context.WithValue(context.Background(), xRootKey{}, cs.Root)
		ctx = context.WithValue(ctx, xFlagKey{}, false)
		ctx = batch.WithBatching(ctx)
		if err := graphql.PrepareQuery(ctx, schema.Query, q.SelectionSet); err != nil {
			rejectMsg = "prepare: " + err.Error()
			return
		}
		accepted = true
		v, err := graphql.NewExecutor(&seqScheduler{policy: "fifo"}).Execute(ctx, schema.Query, nil, q)
		if err != nil {
			execErr = err
			return
		}
		out = internal.AsJSON(v)
	})
	return
}

func c14One(c *Ctx, m *Model, schemaEnc interface{}, root *xNode, q *xQuery, mutation string) {
	rep := c.Rep
	cs := c14Case{Root: root, Query: q.Text, Vars: q.Vars, Mutation: mutation}
	resp, err := m.Call(map[string]interface{}{"op": "verdict", "schema": schemaEnc, "root": 4, "query": q.enc(q.Set), "fuel": 40})
	if err != nil {
		rep.Fail("harness_error", nil, cs, map[string]interface{}{"error": err.Error()})
		return
	}
	mValidate, mNoConf, mValidF := resp["validate"].(bool), resp["noConflict"].(bool), resp["validF"].(bool)
	mAccept := mValidate && mNoConf
	if mAccept && !mValidF {
		rep.Fail("model_ne_spec", nil, cs, map[string]interface{}{"what": "model: validate && noConflict but the merged selection is not valid (bridge validate+noConflict => validF)", "verdict": resp})
		return
	}
	accepted, rejectMsg, out, execErr, panicked := c14Impl(cs)
	if panicked != nil {
		kind := "impl_ne_spec"
		rep.Fail(kind, c14KF(cs, mValidate, mNoConf), cs, map[string]interface{}{"what": "panic while parsing / validating / executing", "accepted_before_panic": accepted, "panic": firstN(fmt.Sprint(panicked), 300), "model": resp})
		return
	}
	if accepted && execErr != nil && strings.Contains(execErr.Error(), "marked non-nullable but returned a null value") {
		// a NonNullable resolver returned nil: an error is the advertised behaviour; the model must agree
		cresp, err := m.Call(map[string]interface{}{"op": "conform", "schema": schemaEnc, "root": 4, "data": xNodeEnc(root),
			"query": q.enc(q.Set), "fuel": 40, "response": nil})
		if err != nil {
			rep.Fail("harness_error", nil, cs, map[string]interface{}{"error": err.Error()})
			return
		}
		if exec, _ := cresp["exec"].(map[string]interface{}); exec["err"] == nil {
			rep.Fail("impl_ne_model", nil, cs, map[string]interface{}{"what": "non-null enforcement failed the query although no NonNullable resolver returns nil", "error": firstN(execErr.Error(), 200)})
			return
		}
		rep.Count("accepted:nonnull_error")
		rep.Eval(q.Text+Canon(xNodeEnc(root)), true, map[string]interface{}{"query": firstN(q.Text, 200), "mutation": mutation})
		return
	}
	if accepted && execErr != nil {
		rep.Fail("impl_ne_spec", c14KF(cs, mValidate, mNoConf), cs, map[string]interface{}{"what": "a query accepted by validation fails at execution on error-free data (type/shape reason)", "error": firstN(execErr.Error(), 300), "model": resp})
		return
	}
	if accepted && mValidate && !mNoConf {
		// every selection is well-formed on its own, but one response key of one object stands for two different
		// fields: whatever is executed, the response cannot hold the object's fields "exactly as selected"
		rep.Fail("impl_ne_spec", c14KF(cs, mValidate, mNoConf), cs, map[string]interface{}{"what": "validation accepted a query in which one response key of an object stands for two different fields", "response": out, "model": resp})
		return
	}
	if accepted != mAccept {
		rep.Fail("impl_ne_model", c14KF(cs, mValidate, mNoConf), cs, map[string]interface{}{"what": "validation verdict differs from the model", "impl_accepted": accepted, "impl_reject": rejectMsg, "model": resp})
		return
	}
	if !accepted {
		rep.Count("rejected:" + mutation)
		rep.Eval(q.Text, true, map[string]interface{}{"query": firstN(q.Text, 200), "mutation": mutation})
		return
	}
	// accepted: the response must conform to the advertised type (Lean `conforms`) and equal the model's
	cresp, err := m.Call(map[string]interface{}{"op": "conform", "schema": schemaEnc, "root": 4, "data": xNodeEnc(root),
		"query": q.enc(q.Set), "fuel": 40, "response": q.jEnc(out)})
	if err != nil {
		rep.Fail("harness_error", nil, cs, map[string]interface{}{"error": err.Error()})
		return
	}
	if !cresp["wellTyped"].(bool) {
		rep.Fail("harness_error", nil, cs, map[string]interface{}{"error": "generated data is not well typed for the advertised schema"})
		return
	}
	if !cresp["conforms"].(bool) {
		rep.Fail("impl_ne_spec", nil, cs, map[string]interface{}{"what": "the response does not conform to the advertised type under the selection", "response": out})
		return
	}
	if !cresp["shapeOk"].(bool) {
		rep.Fail("model_ne_spec", nil, cs, map[string]interface{}{"what": "model: accepted query is not shape-safe (theorem validated_never_goes_wrong)"})
		return
	}
	exec, _ := cresp["exec"].(map[string]interface{})
	if exec["err"] != nil {
		rep.Fail("impl_ne_spec", nil, cs, map[string]interface{}{"what": "a NonNullable resolver returned nil (or a resolver failed) but the response carries data: null under a type advertised as non-null", "response": out, "model": exec})
		return
	}
	if Canon(q.jEnc(out)) != Canon(sortJ(exec["ok"])) {
		rep.Fail("impl_ne_model", nil, cs, map[string]interface{}{"what": "response differs from the executor model", "impl": q.jEnc(out), "model": sortJ(exec["ok"])})
		return
	}
	rep.Count("accepted:" + mutation)
	rep.Eval(q.Text+Canon(xNodeEnc(root)), true, map[string]interface{}{"query": firstN(q.Text, 200), "mutation": mutation})
}

func sortFrags(fs []*xFrag) {
	for i := 1; i < len(fs); i++ {
		for j := i; j > 0 && fs[j].Named < fs[j-1].Named; j-- {
			fs[j], fs[j-1] = fs[j-1], fs[j]
		}
	}
}

// c14KF: signatures of recorded findings (none listed at present).
func c14KF(cs c14Case, mValidate, mNoConf bool) []string { return nil }

func runC14(c *Ctx) error {
	m, err := StartModel("C14")
	if err != nil {
		return err
	}
	defer m.Close()
	buildXSchema()
	schemaEnc, err := xSchemaFromIntrospection()
	if err != nil {
		return fmt.Errorf("advertised schema: %v", err)
	}
	// the advertised types must be the ones the harness table (used by C01/C16/C19) assumes
	for _, o := range []string{"A", "B", "Q"} {
		_ = o
	}
	if d := c14SchemaDiff(schemaEnc, xSchemaEnc(false)); d != "" {
		return fmt.Errorf("advertised schema differs from the harness table: %s", d)
	}
	c.Rep.Rule = "model schema read from the server's introspection JSON; random data trees x (a) well-formed random queries, (b) the same with one ill-forming mutation at a random node: unknown field, selections under a scalar, composite without selections, same alias for two different fields at any depth, field directly under a union, __typename with selections, fragment on a foreign type; verdict of Parse+PrepareQuery compared with the model's validate && noConflict; accepted queries are executed (must not panic or fail) and the response is checked by the Lean `conforms` against the advertised type and compared with the executor model"
	c.Rep.Assumptions = append(c.Rep.Assumptions,
		"scalar kinds and enum values are compared by the Go-side kind oracle on the type-shape schema, not by the Lean model (scalars are one kind there)",
		"arguments are not part of this check (C18)")
	if c.Replay != "" {
		var f struct {
			Case c14Case `json:"case"`
		}
		b, err := os.ReadFile(c.Replay)
		if err != nil {
			return err
		}
		if err := json.Unmarshal(b, &f); err != nil {
			return err
		}
		accepted, rejectMsg, out, execErr, panicked := c14Impl(f.Case)
		fmt.Printf("replay: accepted=%v reject=%q out=%s execErr=%v panic=%v\n", accepted, rejectMsg, firstN(Canon(out), 300), execErr, firstN(fmt.Sprint(panicked), 300))
		return nil
	}
	n := c.N(1200, 60000)
	for i := 0; i < n && !c.Rep.ShouldStop(); i++ {
		g := &xGen{r: c.Rng, nnNulls: c.Rng.Chance(0.5)}
		root := g.node("Q", 3)
		q := genXQuery(c.Rng, 3, []float64{0, 0.2}[c.Rng.Intn(2)], 0)
		mutation := "none"
		if c.Rng.Chance(0.6) {
			if k := c14Mutate(c.Rng, q); k != "" {
				mutation = k
			}
		}
		c14One(c, m, schemaEnc, root, q, mutation)
	}
	// the Go type shapes the builder accepts, with zero / empty / nil values, against the schema advertised for them
	kfReproC14(c.Rep)
	c14SharedFragmentArgs(c)
	c14Zoo(c, c.Rng.Fork(), c.N(150, 6000))
	return nil
}

// c14SchemaDiff compares field types of two schema encodings.
func c14SchemaDiff(a, b interface{}) string {
	ty := func(s interface{}) map[string]string {
		out := map[string]string{}
		for _, o := range s.(map[string]interface{})["objects"].([]interface{}) {
			pair := o.([]interface{})
			for _, f := range pair[1].(map[string]interface{})["fields"].([]interface{}) {
				fm := f.(map[string]interface{})
				out[fmt.Sprint(pair[0], ".", fm["name"])] = Canon(fm["ty"])
			}
		}
		return out
	}
	ta, tb := ty(a), ty(b)
	for k, v := range ta {
		if tb[k] != v {
			return fmt.Sprintf("field %s: advertised %s, table %s", k, v, tb[k])
		}
	}
	if len(ta) != len(tb) {
		return "different number of fields"
	}
	if Canon(a.(map[string]interface{})["unions"]) != Canon(b.(map[string]interface{})["unions"]) {
		return "unions differ"
	}
	return ""
}
