// Runs client/src/merge.ts (turned into JavaScript by dropping the type annotations of its
// signature) on {"prev":…, "delta":…} lines from stdin; prints one JSON result per line.
const fs = require("fs");
const path = process.argv[2];
let src = fs.readFileSync(path, "utf8");
src = src.replace(/export\s+function/g, "function").replace(/:\s*any/g, "");
let merge;
try {
  merge = new Function(src + "\nreturn merge;")();
} catch (e) {
  console.log(JSON.stringify({ fatal: "cannot load merge.ts: " + e }));
  process.exit(0);
}
// undefined anywhere in the merged value (JSON.stringify would print it as null or drop it)
function hasUndefined(v) {
  if (v === undefined) return true;
  if (Array.isArray(v)) {
    for (let i = 0; i < v.length; i++) if (hasUndefined(v[i])) return true;
    return false;
  }
  if (v !== null && typeof v === "object") {
    for (const k of Object.keys(v)) if (hasUndefined(v[k])) return true;
  }
  return false;
}
const lines = fs.readFileSync(0, "utf8").split("\n");
const out = [];
for (const line of lines) {
  if (!line.trim()) continue;
  let r;
  try {
    const c = JSON.parse(line);
    const v = merge(c.prev, c.delta === undefined ? null : c.delta);
    if (hasUndefined(v)) {
      r = { err: "the merged value contains undefined" };
    } else {
      r = { ok: v };
    }
  } catch (e) {
    r = { err: String(e) };
  }
  // JSON.stringify prints -0 as 0: carry it across as a marker
  out.push(JSON.stringify(r, (k, v) => (Object.is(v, -0) ? "@@negzero" : v)));
}
console.log(out.join("\n"));
