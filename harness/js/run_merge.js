// Runs client/src/merge.ts (turned into JavaScript by dropping the type annotations of its
// signature) on {"prev":…, "delta":…} lines from stdin; prints one JSON result per line.
const fs = require("fs");
const path = process.argv[2];
let src = fs.readFileSync(path, "utf8");
src = src.replace(/export\s+function/g, "function").replace(/:\s*any/g, "");
let merge;
try {
  merge = new Function(src + "\nreturn merge;")();
} catch (e) {
  console.log(JSON.stringify({ fatal: "cannot load merge.ts: " + e }));
  process.exit(0);
}
const lines = fs.readFileSync(0, "utf8").split("\n");
const out = [];
for (const line of lines) {
  if (!line.trim()) continue;
  let r;
  try {
    const c = JSON.parse(line);
    const v = c.delta === undefined ? c.prev : merge(c.prev, c.delta);
    r = { ok: v === undefined ? null : v, undef: v === undefined };
  } catch (e) {
    r = { err: String(e) };
  }
  out.push(JSON.stringify(r));
}
console.log(out.join("\n"));
