package main

// C19 — @skip/@include behave as if the node were removed from or kept in the query.

import (
	"encoding/json"
	"fmt"
	"os"
)

func init() { register("C19", runC19) }

func (d xDirs) included() bool {
	if d.Skip != nil && *d.Skip {
		return false
	}
	if d.Incl != nil && !*d.Incl {
		return false
	}
	return true
}

// xPruner deletes every node whose directives exclude it and drops the directives of the rest
// (the harness's own, independent statement of the right-hand side of the property).
type xPruner struct {
	defs  map[string]*xFrag
	memo  map[*xSelSet]*xSelSet
	empty bool // some pruned selection set is empty: the pruned query has no textual form
}

func (p *xPruner) set(ss *xSelSet) *xSelSet {
	if ss == nil {
		return nil
	}
	if out, ok := p.memo[ss]; ok {
		return out
	}
	out := &xSelSet{}
	p.memo[ss] = out
	for _, s := range ss.Sels {
		if !s.Dirs.included() {
			continue
		}
		out.Sels = append(out.Sels, &xSel{Alias: s.Alias, Field: s.Field, Sub: p.set(s.Sub)})
	}
	for _, f := range ss.Frags {
		if !f.Dirs.included() {
			continue
		}
		nf := &xFrag{On: f.On, Named: f.Named, Set: p.set(f.Set)}
		if f.Named != "" {
			p.defs[f.Named] = &xFrag{On: f.On, Named: f.Named, Set: nf.Set}
		}
		out.Frags = append(out.Frags, nf)
	}
	if len(out.Sels) == 0 && len(out.Frags) == 0 {
		p.empty = true
	}
	return out
}

// pruneXQuery returns the textually pruned query (sharing the alias numbering) and whether it
// can be written down (no empty selection set).
func pruneXQuery(q *xQuery) (*xQuery, bool) {
	p := &xPruner{defs: map[string]*xFrag{}, memo: map[*xSelSet]*xSelSet{}}
	out := &xQuery{Defs: p.defs, Vars: map[string]interface{}{}, alias: q.alias}
	out.Set = p.set(q.Set)
	if p.empty {
		return out, false
	}
	out.Text = out.render()
	return out, true
}

type c19Case struct {
	Root   *xNode                 `json:"root"`
	Query  string                 `json:"query"`
	Vars   map[string]interface{} `json:"vars"`
	Pruned string                 `json:"pruned_query"`
	Flag   bool                   `json:"flag"`
}

// c19Direct evaluates the property on the implementation alone: annotated query vs pruned query.
func c19Direct(c *Ctx, cs c19Case) (string, map[string]interface{}) {
	want, werr := xRun(cs.Root, cs.Pruned, nil, cs.Flag, &seqScheduler{policy: "fifo"})
	if werr != nil {
		return "harness_error", map[string]interface{}{"what": "pruned query failed", "error": werr.Error()}
	}
	for name, sched := range xSchedulers(c.Rng) {
		if name != "goroutines" && name != "random" {
			continue
		}
		got, gerr := xRun(cs.Root, cs.Query, cs.Vars, cs.Flag, sched)
		if gerr != nil {
			return "impl_ne_spec", map[string]interface{}{"what": "annotated query fails although the pruned query succeeds", "scheduler": name, "error": gerr.Error(), "pruned_result": want}
		}
		if Canon(got) != Canon(want) {
			return "impl_ne_spec", map[string]interface{}{"what": "annotated query and textually pruned query return different results", "scheduler": name, "annotated_result": got, "pruned_result": want}
		}
	}
	return "", nil
}

func c19One(c *Ctx, m *Model, root *xNode, q *xQuery, flag bool) {
	rep := c.Rep
	pq, textual := pruneXQuery(q)
	cs := c19Case{Root: root, Query: q.Text, Vars: q.Vars, Pruned: pq.Text, Flag: flag}
	resp, err := m.Call(map[string]interface{}{"op": "exec", "schema": xSchemaEnc(flag), "root": 4,
		"data": xNodeEnc(root), "query": q.enc(q.Set), "fuel": 40})
	if err != nil {
		rep.Fail("harness_error", nil, cs, map[string]interface{}{"error": err.Error()})
		return
	}
	ref, _ := resp["ref"].(map[string]interface{})
	exec, _ := resp["exec"].(map[string]interface{})
	refP, _ := resp["refPruned"].(map[string]interface{})
	refJ, execJ, refPJ := Canon(sortJ(ref["ok"])), Canon(sortJ(exec["ok"])), Canon(sortJ(refP["ok"]))
	if refJ != execJ || refJ != refPJ || ref["ok"] == nil {
		rep.Fail("model_ne_spec", nil, cs, map[string]interface{}{"what": "model: executor / reference / reference of the pruned query differ (theorems execute_prune, reference_prune)", "exec": exec, "ref": ref, "refPruned": refP})
		return
	}
	// the model's prune and the harness's prune are two statements of "textual deletion"
	if Canon(resp["pruned"]) != Canon(q.enc(pq.Set)) {
		rep.Fail("model_ne_spec", nil, cs, map[string]interface{}{"what": "SelSet.prune differs from the harness's textual pruning", "model": resp["pruned"], "harness": q.enc(pq.Set)})
		return
	}
	// implementation on the annotated query vs model
	out, ierr := xRun(root, q.Text, q.Vars, flag, &seqScheduler{policy: "lifo"})
	if ierr != nil {
		if textual {
			if kind, d := c19Direct(c, cs); kind != "" {
				rep.Fail(kind, nil, cs, d)
				return
			}
		}
		rep.Fail("impl_ne_model", nil, cs, map[string]interface{}{"what": "annotated query fails on the implementation, evaluates in the model", "error": ierr.Error()})
		return
	}
	if textual {
		rep.Count("textual")
		if kind, d := c19Direct(c, cs); kind != "" {
			rep.Fail(kind, nil, cs, d)
			return
		}
	} else {
		rep.Count("pruned_has_empty_selection_set(model-only)")
	}
	if got := Canon(q.jEnc(out)); got != execJ {
		rep.Fail("impl_ne_model", nil, cs, map[string]interface{}{"what": "annotated query: implementation differs from the executor model", "impl": q.jEnc(out), "model": sortJ(exec["ok"])})
		return
	}
	rep.Count("ok")
	nd := countDirs(q.Set, map[*xSelSet]bool{})
	rep.Eval(q.Text+Canon(xNodeEnc(root)), nd > 0, map[string]interface{}{"query": firstN(q.Text, 300), "directives": nd})
}

func countDirs(ss *xSelSet, seen map[*xSelSet]bool) int {
	if ss == nil || seen[ss] {
		return 0
	}
	seen[ss] = true
	n := 0
	for _, s := range ss.Sels {
		if s.Dirs.Skip != nil || s.Dirs.Incl != nil {
			n++
		}
		n += countDirs(s.Sub, seen)
	}
	for _, f := range ss.Frags {
		if f.Dirs.Skip != nil || f.Dirs.Incl != nil {
			n++
		}
		n += countDirs(f.Set, seen)
	}
	return n
}

func runC19(c *Ctx) error {
	m, err := StartModel("C19")
	if err != nil {
		return err
	}
	defer m.Close()
	buildXSchema()
	c.Rep.Rule = "random data trees x type-directed random queries whose fields, inline fragments and fragment spreads carry @skip / @include / both (either order), with literal or variable conditions; the same named fragment spread several times with different conditions; directives on union-member fragments and on __typename; each annotated query is executed on the real executor (two schedulers) and compared with the real executor's result for the textually pruned query, with the Lean executor model, and the Lean pruning with the harness's pruning; non-trivial = at least one directive; distinct by query+data"
	c.Rep.Assumptions = append(c.Rep.Assumptions,
		"conditions are booleans (ill-typed conditions are rejected: C18/C15)",
		"a pruned query with an empty selection set has no textual form: those cases are compared with the model only",
		"the federation gateway's handling of directives (flattenFragments, planObject) is not exercised by this check")
	if c.Replay != "" {
		var f struct {
			Case c19Case `json:"case"`
		}
		b, err := os.ReadFile(c.Replay)
		if err != nil {
			return err
		}
		if err := json.Unmarshal(b, &f); err != nil {
			return err
		}
		kind, d := c19Direct(c, f.Case)
		fmt.Printf("replay: %s %v\n", kind, Canon(d))
		if kind != "" {
			c.Rep.Fail(kind, nil, f.Case, d)
		}
		return nil
	}
	// corpus of minimised past violations first (findings C19-1..3)
	for _, qp := range [][2]string{
		{"query Q { k_n: n n @skip(if: false) @include(if: false) }", "query Q { k_n: n }"},
		{"query Q { k_n: n n @include(if: false) @skip(if: false) }", "query Q { k_n: n }"},
		{"query Q { a { ...F @skip(if: true) z } k_a: a { ...F z } } fragment F on XA { xEx }", "query Q { a { z } k_a: a { ...F z } } fragment F on XA { xEx }"},
		{"query Q { a { ...F z } k_a: a { ...F @include(if: false) z } } fragment F on XA { xEx }", "query Q { a { ...F z } k_a: a { z } } fragment F on XA { xEx }"},
		{"query Q { k_n: n n @skip(if: true) n }", "query Q { k_n: n n }"},
		{"query Q { k_n: n n n @skip(if: true) }", "query Q { k_n: n n }"},
		{"query Q { a { z __typename @skip(if: true) } }", "query Q { a { z } }"},
		// finding C19-4: a repeated directive (not legal GraphQL, but accepted): every occurrence counts
		{"query Q { k_n: n a @skip(if: false) @skip(if: true) { z } }", "query Q { k_n: n }"},
		{"query Q { k_n: n a @include(if: true) @include(if: false) { z } }", "query Q { k_n: n }"},
		{"query Q { k_n: n a @skip(if: false) @include(if: true) @skip(if: true) { z } }", "query Q { k_n: n }"},
		{"query Q { k_n: n a { z ... on XA @include(if: true) @include(if: false) { xEx } } }", "query Q { k_n: n a { z } }"},
		{"query Q { k_n: n a { z ...F @skip(if: false) @skip(if: true) } } fragment F on XA { xEx }", "query Q { k_n: n a { z } }"},
		{"query Q { k_n: n a @skip(if: false) @skip(if: false) @include(if: true) @include(if: true) { z } }", "query Q { k_n: n a { z } }"},
	} {
		g := &xGen{r: c.Rng}
		root := g.node("Q", 3)
		if root.F["a"] == nil || root.F["a"].Node == nil {
			root = g.node("Q", 3)
		}
		cs := c19Case{Root: root, Query: qp[0], Vars: map[string]interface{}{}, Pruned: qp[1]}
		if kind, d := c19Direct(c, cs); kind != "" {
			c.Rep.Fail(kind, nil, cs, d)
		}
		c.Rep.Count("corpus")
	}
	n := c.N(800, 40000)
	for i := 0; i < n && !c.Rep.ShouldStop(); i++ {
		g := &xGen{r: c.Rng}
		root := g.node("Q", 3)
		q := genXQuery(c.Rng, 3, []float64{0.15, 0.4, 0.7}[c.Rng.Intn(3)], 0)
		c19One(c, m, root, q, c.Rng.Bool())
	}
	// through the federation gateway: on random partitions of the C06 field pool the gateway must answer
	// directive-carrying queries (fields, inline and named fragments, fragments on union members and on the union
	// itself) like the combined server, for which the rule is checked above
	gr := c.Rng.Fork()
	c06QuietKnown = true
	defer func() { c06QuietKnown = false }()
	for i := 0; i < c.N(12, 400) && !c.Rep.ShouldStop(); i++ {
		cs := c06Case{Store: c06GenStore(gr), Partition: c06GenPartition(gr)}
		for k := 0; k < 25; k++ {
			cs.Queries = append(cs.Queries, c06GenQuery(gr))
		}
		// directed (seeded change C19-m6 was once caught only on some seeds): an excluding directive on a fragment
		// whose type condition is the union itself, and on fragments on its members
		cs.Queries = append(cs.Queries,
			"query Q { us { ... on fdU @skip(if: true) { ... on A { id } ... on B { id } } ... on A { k: id } } }",
			"query Q { us { ... on fdU @include(if: false) { __typename } ... on B { k: id } } }",
			"query Q($v: Boolean = true) { us { ... on fdU @skip(if: $v) { ... on A { id } } ... on A @skip(if: $v) { id } ... on B { k: id } } }",
			"query Q { us { ... on A @include(if: false) { id } ... on B @skip(if: true) { id } ... on A { k: id } } }")
		c06One(c, nil, cs)
		c.Rep.Count("gateway_worlds")
	}
	return nil
}
