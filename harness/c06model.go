package main

// C06: the Lean gateway model on the real normalizer's output — same plan, same answer.

import (
	"encoding/json"
	"fmt"
	"sort"
	"strings"
	"sync/atomic"

	"github.com/samsarahq/thunder/federation"
	"github.com/samsarahq/thunder/graphql"
)

const (
	fdTQuery = 1000000
	fdTA     = 1000001
	fdTB     = 1000002
)

var fdTypeID = map[string]int{"Query": fdTQuery, "A": fdTA, "B": fdTB}
var fdTypeName = map[int]string{fdTQuery: "Query", fdTA: "A", fdTB: "B"}

// the object type a field leads to ("" for scalars)
func fdChild(typ, field string) string {
	switch typ + "." + field {
	case "Query.as", "Query.oneA", "B.a", "B.as":
		return "A"
	case "Query.bs", "A.b", "A.bs":
		return "B"
	}
	return ""
}

type fdIntern struct {
	ids   map[string]int
	names []string
}

func newFdIntern() *fdIntern {
	in := &fdIntern{ids: map[string]int{}}
	for _, s := range []string{"_federation", "__typename", "id"} {
		in.id(s)
	}
	return in
}

func (in *fdIntern) id(s string) int {
	if v, ok := in.ids[s]; ok {
		return v
	}
	in.ids[s] = len(in.names)
	in.names = append(in.names, s)
	return len(in.names) - 1
}

func fdNameKey(s *graphql.Selection) string {
	if len(s.UnparsedArgs) == 0 {
		return s.Name
	}
	b, _ := json.Marshal(s.UnparsedArgs)
	return s.Name + "|" + string(b)
}

func fdBaseField(nameKey string) string {
	if i := strings.Index(nameKey, "|"); i >= 0 {
		return nameKey[:i]
	}
	return nameKey
}

type fdUse struct{ typ, nameKey string }

// fdEncSel turns a (fragment-free) selection set on object type typ into the model's query
func fdEncSel(in *fdIntern, ss *graphql.SelectionSet, typ string, uses map[fdUse]bool) ([]interface{}, error) {
	return fdEncSelIn(in, ss, typ, uses, false)
}

func fdEncSelIn(in *fdIntern, ss *graphql.SelectionSet, typ string, uses map[fdUse]bool, inFed bool) ([]interface{}, error) {
	out := []interface{}{}
	if ss == nil {
		return out, nil
	}
	if len(ss.Fragments) > 0 {
		return nil, fmt.Errorf("fragments in a normalized selection set on %s", typ)
	}
	for _, s := range ss.Selections {
		if inFed && s.Name == "org" {
			continue // the model's keys are identities: the second key field is checked at the services (fdMissingKey)
		}
		key := fdNameKey(s)
		uses[fdUse{typ, key}] = true
		kids := []interface{}{}
		if s.Name == "_federation" {
			k, err := fdEncSelIn(in, s.SelectionSet, typ, uses, true)
			if err != nil {
				return nil, err
			}
			kids = k
		} else if ct := fdChild(typ, s.Name); ct != "" {
			k, err := fdEncSel(in, s.SelectionSet, ct, uses)
			if err != nil {
				return nil, err
			}
			kids = k
		}
		out = append(out, map[string]interface{}{"a": in.id(s.Alias), "n": in.id(key), "k": kids})
	}
	return out, nil
}

func fdEncPlan(in *fdIntern, p *federation.Plan, svcID map[string]int, uses map[fdUse]bool) (interface{}, error) {
	path := []interface{}{}
	for _, st := range p.Path {
		if st.Kind != federation.KindField {
			return nil, fmt.Errorf("type step in a union-free plan")
		}
		path = append(path, in.id(st.Name))
	}
	sel, err := fdEncSel(in, p.SelectionSet, p.Type, uses)
	if err != nil {
		return nil, err
	}
	after := []interface{}{}
	for _, a := range p.After {
		e, err := fdEncPlan(in, a, svcID, uses)
		if err != nil {
			return nil, err
		}
		after = append(after, e)
	}
	return map[string]interface{}{"path": path, "svc": svcID[p.Service], "typ": fdTypeID[p.Type], "sel": sel, "after": after}, nil
}

// picks: the service a selection was handed to where a hop occurred (the top-level selections of every
// sub-plan); below that, selections stay with the current service whenever it can serve them
func fdPicks(in *fdIntern, p *federation.Plan, svcID map[string]int, picks map[[3]int]int, conflict *bool) {
	if p.Service != "gateway-coordinator-service" && p.SelectionSet != nil {
		for _, s := range p.SelectionSet.Selections {
			if s.Name == "_federation" || s.Name == "__typename" {
				continue
			}
			k := [3]int{fdTypeID[p.Type], in.id(fdNameKey(s)), in.id(s.Alias)}
			if prev, ok := picks[k]; ok && prev != svcID[p.Service] {
				*conflict = true
			}
			picks[k] = svcID[p.Service]
		}
	}
	for _, a := range p.After {
		fdPicks(in, a, svcID, picks, conflict)
	}
}

func fdValue(st *fdStore, typ string, key int64, nameKey string) interface{} {
	null := map[string]interface{}{"k": "null"}
	sc := func(v int64) interface{} { return map[string]interface{}{"k": "sc", "v": v} }
	ref := func(t int, id int64) interface{} {
		if id == 0 {
			return null
		}
		return map[string]interface{}{"k": "ref", "r": map[string]interface{}{"t": t, "k": id}}
	}
	refs := func(t int, ids []int64) interface{} {
		rs := []interface{}{}
		for _, id := range ids {
			if id == 0 {
				rs = append(rs, nil)
			} else {
				rs = append(rs, map[string]interface{}{"t": t, "k": id})
			}
		}
		return map[string]interface{}{"k": "refs", "rs": rs}
	}
	field := fdBaseField(nameKey)
	var n int64
	if i := strings.Index(nameKey, "|"); i >= 0 {
		var args map[string]interface{}
		json.Unmarshal([]byte(nameKey[i+1:]), &args)
		n = toInt64(args["n"])
	}
	switch typ {
	case "Query":
		switch field {
		case "as":
			return refs(fdTA, st.RootAs)
		case "bs":
			return refs(fdTB, st.RootBs)
		case "oneA":
			return ref(fdTA, st.OneA)
		case "num":
			return sc(2 * n)
		}
	case "A":
		a := st.A[key]
		switch field {
		case "id":
			return sc(key)
		case "a0", "a2":
			return sc(a.V[int(field[1]-'0')])
		case "a1":
			return sc(a.V[1] + 1000*fdOrg(key))
		case "aPlus":
			return sc(a.V[0] + n)
		case "echo":
			return sc(fdEchoHash(key, fdEchoArgs(nameKey)))
		case "b":
			return ref(fdTB, a.B)
		case "bs":
			return refs(fdTB, a.Bs)
		}
	case "B":
		b := st.B[key]
		switch field {
		case "id":
			return sc(key)
		case "b0", "b1":
			return sc(b.V[int(field[1]-'0')])
		case "a":
			return ref(fdTA, b.A)
		case "as":
			return refs(fdTA, b.As)
		}
	}
	return null
}

// fdDecR: the model's result as the JSON a client sees
func fdDecR(in *fdIntern, v interface{}) interface{} {
	switch v := v.(type) {
	case nil:
		return nil
	case []interface{}:
		out := make([]interface{}, len(v))
		for i, x := range v {
			out[i] = fdDecR(in, x)
		}
		return out
	case map[string]interface{}:
		if s, ok := v["s"]; ok {
			n := toInt64(s)
			if name, ok := fdTypeName[int(n)]; ok {
				return name
			}
			return float64(n)
		}
		o := map[string]interface{}{}
		for _, kv := range v["o"].([]interface{}) {
			p := kv.([]interface{})
			k := in.names[int(toInt64(p[0]))]
			if _, dup := o[k]; dup {
				o["!duplicate:"+k] = true
			}
			o[k] = fdDecR(in, p[1])
		}
		return o
	}
	return v
}

// services that register an object type (they all expose its key field id)
func fdHasType(p fdPartition, svc, typ string) bool {
	has := func(f fdField) bool { return p.owns(svc, f) }
	for _, f := range fdPool {
		if !has(f) {
			continue
		}
		switch typ {
		case "A":
			if f.Typ == "A" || f.Name == "as" || f.Name == "oneA" || f.Name == "us" || f.Name == "pickA" || (f.Typ == "B" && (f.Name == "a" || f.Name == "as")) {
				return true
			}
		case "B":
			if f.Typ == "B" || f.Name == "bs" || f.Name == "us" || (f.Typ == "A" && (f.Name == "b" || f.Name == "bs")) {
				return true
			}
		}
	}
	return false
}

// fdEncRaw turns a parsed (raw) selection set into the model's raw query: every selection and fragment carries the
// verdict of its directives; sub-selections are encoded with the type the field leads to
func fdEncRaw(in *fdIntern, ss *graphql.SelectionSet, depth *int, d int) (interface{}, error) {
	if d > *depth {
		*depth = d
	}
	sels := []interface{}{}
	frags := []interface{}{}
	if ss != nil {
		for _, s := range ss.Selections {
			ok, err := graphql.ShouldIncludeNode(s.Directives)
			if err != nil {
				return nil, err
			}
			sub, err := fdEncRaw(in, s.SelectionSet, depth, d+1)
			if err != nil {
				return nil, err
			}
			sels = append(sels, map[string]interface{}{"a": in.id(s.Alias), "n": in.id(fdNameKey(s)), "i": ok, "s": sub})
		}
		for _, f := range ss.Fragments {
			ok, err := graphql.ShouldIncludeNode(f.Directives)
			if err != nil {
				return nil, err
			}
			on, known := fdTypeID[f.On]
			if !known {
				return nil, fmt.Errorf("fragment on %s", f.On)
			}
			sub, err := fdEncRaw(in, f.SelectionSet, depth, d+1)
			if err != nil {
				return nil, err
			}
			frags = append(frags, map[string]interface{}{"on": on, "i": ok, "s": sub})
		}
	}
	return map[string]interface{}{"sels": sels, "frags": frags}, nil
}

func fdSortQ(v interface{}) {
	l, ok := v.([]interface{})
	if !ok {
		return
	}
	for _, x := range l {
		if m, ok := x.(map[string]interface{}); ok {
			fdSortQ(m["k"])
		}
	}
	sort.SliceStable(l, func(i, j int) bool {
		a, _ := l[i].(map[string]interface{})
		b, _ := l[j].(map[string]interface{})
		return toInt64(a["a"]) < toInt64(b["a"])
	})
}

// fdKeySelections checks every `_federation { ... }` selection of the plan against the model's key selection
// (theorem key_selection_covers): the fields, in name order, that a service of the hop declares as key of the object.
func fdKeySelections(m *Model, p *federation.Plan, part fdPartition, svcID map[string]int) (string, map[string]interface{}) {
	fieldNames := map[string][]string{"A": {"a0", "a1", "a2", "aPlus", "b", "bs", "id", "org"}, "B": {"a", "as", "b0", "b1", "id"}}
	var walk func(ss *graphql.SelectionSet, typ string, path []string) (string, map[string]interface{})
	walk = func(ss *graphql.SelectionSet, typ string, path []string) (string, map[string]interface{}) {
		if ss == nil {
			return "", nil
		}
		for _, sel := range ss.Selections {
			if sel.Name == "_federation" && p.Service != "gateway-coordinator-service" && len(fieldNames[typ]) > 0 && (len(path) > 0 || typ != "Query") {
				var targets []interface{}
				for _, a := range p.After {
					var ap []string
					for _, st := range a.Path {
						ap = append(ap, st.Name)
					}
					if fmt.Sprint(ap) == fmt.Sprint(path) {
						targets = append(targets, svcID[a.Service])
					}
				}
				names := fieldNames[typ]
				var fields, keys []interface{}
				for i := range names {
					fields = append(fields, i)
				}
				for k := 0; k < part.Services; k++ {
					svc := fmt.Sprintf("s%d", k+1)
					if !fdHasType(part, svc, typ) {
						continue
					}
					for i, n := range names {
						if n == "id" || (n == "org" && !part.idOnly(svc)) {
							keys = append(keys, map[string]interface{}{"s": k + 1, "f": i})
						}
					}
				}
				resp, err := m.Call(map[string]interface{}{"op": "keysel", "fields": fields, "keys": nzList(keys), "targets": nzList(targets)})
				if err != nil {
					return "harness_error", map[string]interface{}{"error": err.Error()}
				}
				var want, got []string
				for _, x := range resp["sel"].([]interface{}) {
					want = append(want, names[int(toInt64(x))])
				}
				if sel.SelectionSet != nil {
					for _, k := range sel.SelectionSet.Selections {
						got = append(got, k.Name)
					}
				}
				atomic.AddInt64(&fdKeySelN, 1)
				if len(want) > 1 {
					atomic.AddInt64(&fdKeySelTwo, 1)
				}
				if fmt.Sprint(got) != fmt.Sprint(want) {
					return "impl_ne_model", map[string]interface{}{"what": "the key fields selected for a hop differ from the model's (the key fields of all services hopped to)", "type": typ, "path": path, "service": p.Service, "targets": targets, "impl": got, "model": want}
				}
				continue
			}
			if ct := fdChild(typ, sel.Name); ct != "" {
				if k, d := walk(sel.SelectionSet, ct, append(append([]string{}, path...), sel.Alias)); k != "" {
					return k, d
				}
			}
		}
		return "", nil
	}
	if k, d := walk(p.SelectionSet, p.Type, nil); k != "" {
		return k, d
	}
	for _, a := range p.After {
		if k, d := fdKeySelections(m, a, part, svcID); k != "" {
			return k, d
		}
	}
	return "", nil
}

var fdKeySelN, fdKeySelTwo int64

func nzList(l []interface{}) []interface{} {
	if l == nil {
		return []interface{}{}
	}
	return l
}

// c06Model compares the real normalizer + planner + executor with the Lean model on one union-free query.
func c06Model(c *Ctx, m *Model, w *fdWorld, cs c06Case, query string, gotGateway, wantMono interface{}) {
	rep := c.Rep
	one := c06Case{Store: cs.Store, Partition: cs.Partition, Queries: []string{query}}
	q, err := graphql.Parse(query, fdVars())
	if err != nil {
		return
	}
	flat, plan, err := federation.VerifPlan(w.gateway, q)
	if err != nil {
		rep.Fail("harness_error", nil, one, map[string]interface{}{"error": "VerifPlan: " + err.Error()})
		return
	}
	in := newFdIntern()
	uses := map[fdUse]bool{}
	svcID := map[string]int{"gateway-coordinator-service": 0}
	for k := 0; k < cs.Partition.Services; k++ {
		svcID[fmt.Sprintf("s%d", k+1)] = k + 1
	}
	qs, err := fdEncSel(in, flat, "Query", uses)
	if err != nil {
		rep.Fail("harness_error", nil, one, map[string]interface{}{"error": err.Error()})
		return
	}
	realAfter := []interface{}{}
	for _, a := range plan.After {
		e, err := fdEncPlan(in, a, svcID, uses)
		if err != nil {
			rep.Fail("harness_error", nil, one, map[string]interface{}{"error": err.Error()})
			return
		}
		realAfter = append(realAfter, e)
	}
	n0, t0 := atomic.LoadInt64(&fdKeySelN), atomic.LoadInt64(&fdKeySelTwo)
	if kind, d := fdKeySelections(m, plan, cs.Partition, svcID); kind != "" {
		d["query"] = query
		rep.Fail(kind, nil, one, d)
		return
	}
	if atomic.LoadInt64(&fdKeySelN) > n0 {
		rep.Count("key_selections_compared_with_model")
	}
	if atomic.LoadInt64(&fdKeySelTwo) > t0 {
		rep.Count("key_selections_with_two_fields")
	}
	picks := map[[3]int]int{}
	conflict := false
	fdPicks(in, plan, svcID, picks, &conflict)
	if conflict {
		rep.Count("model_skipped:same_selection_served_by_two_services")
		return
	}
	var owners, child, store, pickList []interface{}
	var useList []fdUse
	for u := range uses {
		useList = append(useList, u)
	}
	sort.Slice(useList, func(i, j int) bool { return fmt.Sprint(useList[i]) < fmt.Sprint(useList[j]) })
	for _, u := range useList {
		base := fdBaseField(u.nameKey)
		if base == "_federation" || base == "__typename" {
			continue
		}
		var ss []interface{}
		for k := 0; k < cs.Partition.Services; k++ {
			svc := fmt.Sprintf("s%d", k+1)
			if base == "id" {
				if fdHasType(cs.Partition, svc, u.typ) {
					ss = append(ss, k+1)
				}
			} else if cs.Partition.owns(svc, fdField{u.typ, base}) {
				ss = append(ss, k+1)
			}
		}
		owners = append(owners, map[string]interface{}{"t": fdTypeID[u.typ], "n": in.id(u.nameKey), "s": ss})
		if ct := fdChild(u.typ, base); ct != "" {
			child = append(child, map[string]interface{}{"t": fdTypeID[u.typ], "n": in.id(u.nameKey), "c": fdTypeID[ct]})
		}
		var keys []int64
		switch u.typ {
		case "Query":
			keys = []int64{0}
		case "A":
			for k := range cs.Store.A {
				keys = append(keys, k)
			}
		case "B":
			for k := range cs.Store.B {
				keys = append(keys, k)
			}
		}
		sort.Slice(keys, func(i, j int) bool { return keys[i] < keys[j] })
		for _, k := range keys {
			store = append(store, map[string]interface{}{"t": fdTypeID[u.typ], "k": k, "n": in.id(u.nameKey), "v": fdValue(cs.Store, u.typ, k, u.nameKey)})
		}
	}
	var pk [][3]int
	for k := range picks {
		pk = append(pk, k)
	}
	sort.Slice(pk, func(i, j int) bool { return fmt.Sprint(pk[i]) < fmt.Sprint(pk[j]) })
	for _, k := range pk {
		pickList = append(pickList, map[string]interface{}{"t": k[0], "n": k[1], "a": k[2], "s": picks[k]})
	}
	nz := func(l []interface{}) []interface{} {
		if l == nil {
			return []interface{}{}
		}
		return l
	}
	// the normalizer: the model's normal form of the raw query is the real flattener's output
	rawQ, perr := graphql.Parse(query, fdVars())
	if perr == nil {
		depth := 0
		raw, rerr := fdEncRaw(in, rawQ.SelectionSet, &depth, 1)
		if rerr == nil {
			// child types for every (type, field) the raw query may mention, excluded selections included
			var childAll []interface{}
			for name, id := range in.ids {
				base := fdBaseField(name)
				for _, typ := range []string{"Query", "A", "B"} {
					if ct := fdChild(typ, base); ct != "" {
						childAll = append(childAll, map[string]interface{}{"t": fdTypeID[typ], "n": id, "c": fdTypeID[ct]})
					}
				}
			}
			sort.Slice(childAll, func(i, j int) bool { return Canon(childAll[i]) < Canon(childAll[j]) })
			applies := []interface{}{}
			for _, t := range []int{fdTQuery, fdTA, fdTB} {
				applies = append(applies, map[string]interface{}{"on": t, "t": t})
			}
			nresp, nerr := m.Call(map[string]interface{}{"op": "normalize", "child": nz(childAll), "applies": applies, "raw": raw, "t": fdTQuery, "fuel": 2*depth + 4})
			if nerr != nil {
				rep.Fail("harness_error", nil, one, map[string]interface{}{"error": nerr.Error()})
				return
			}
			var mn, rn interface{}
			b, _ := json.Marshal(nresp["normalized"])
			json.Unmarshal(b, &mn)
			b, _ = json.Marshal(qs)
			json.Unmarshal(b, &rn)
			// the real normalizer orders selections by alias string, the model by interned id: compare as sets per level
			fdSortQ(mn)
			fdSortQ(rn)
			if Canon(mn) != Canon(rn) {
				rep.Fail("impl_ne_model", nil, one, map[string]interface{}{"what": "the normalizer's output differs from the model's normal form", "query": query, "impl": rn, "model": mn, "names": in.names})
				return
			}
			rep.Count("normalizer_compared")
		}
	}
	resp, err := m.Call(map[string]interface{}{"op": "gateway", "owners": nz(owners), "picks": nz(pickList), "child": nz(child), "store": nz(store),
		"root": map[string]interface{}{"t": fdTQuery, "k": 0}, "svc": 0, "query": qs})
	if err != nil {
		rep.Fail("harness_error", nil, one, map[string]interface{}{"error": err.Error()})
		return
	}
	// same plan
	var modelAfter interface{}
	b, _ := json.Marshal(resp["after"])
	json.Unmarshal(b, &modelAfter)
	var realAfterJ interface{}
	b, _ = json.Marshal(realAfter)
	json.Unmarshal(b, &realAfterJ)
	if Canon(modelAfter) != Canon(realAfterJ) {
		rep.Fail("impl_ne_model", nil, one, map[string]interface{}{"what": "the planner's sub-plans differ from the model's", "query": query, "impl": realAfterJ, "model": modelAfter, "names": in.names})
		return
	}
	// same answers
	mg := fdDecR(in, resp["gateway"])
	mf := fdDecR(in, resp["fused"])
	mm := fdDecR(in, resp["mono"])
	if Canon(mf) != Canon(mm) {
		rep.Fail("model_ne_spec", nil, one, map[string]interface{}{"what": "model: the object-by-object answer differs from the combined server's (theorem fused_eq_monolith)", "query": query, "fused": mf, "mono": mm})
		return
	}
	if Canon(mg) != Canon(mf) {
		rep.Fail("model_ne_spec", nil, one, map[string]interface{}{"what": "model: executing the plan (extract / stitch by position) differs from the object-by-object answer", "query": query, "gateway": mg, "fused": mf})
		return
	}
	if Canon(mm) != Canon(fdStrip(wantMono)) {
		rep.Fail("impl_ne_model", nil, one, map[string]interface{}{"what": "the combined server's answer differs from the model's", "query": query, "impl": fdStrip(wantMono), "model": mm})
		return
	}
	if Canon(mg) != Canon(fdStrip(gotGateway)) {
		rep.Fail("impl_ne_model", nil, one, map[string]interface{}{"what": "the gateway's answer differs from the model's", "query": query, "impl": fdStrip(gotGateway), "model": mg})
		return
	}
	rep.Count("model_compared")
}

// fdEchoArgs: the argument of A.echo as the resolver receives it, from the selection's arguments (after variable
// substitution) as they appear in the name key
func fdEchoArgs(nameKey string) fdIn {
	var in fdIn
	i := strings.Index(nameKey, "|")
	if i < 0 {
		return in
	}
	var args struct {
		In fdIn `json:"in"`
	}
	json.Unmarshal([]byte(nameKey[i+1:]), &args)
	return args.In
}
