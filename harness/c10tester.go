package main

// C10 — the row tester against the database's `=` on integer columns (ThunderModel/Sql/Tester.lean, theorem
// tester_agrees_with_database): for a column of every integer kind but uint64 holding x, and a filter value written
// as an integer of some Go type (in or out of the column's range), as a whole or fractional float64, or as a bool,
// MakeTester(...).Test(row) must say what `col = ?` says. The database's side is the fake driver's `=` (fsEq) on
// the value database/sql hands to the driver.

import (
	"database/sql/driver"
	"fmt"
	"math"
	"reflect"

	"github.com/samsarahq/thunder/sqlgen"
)

type c10TRow struct {
	Id  int64 `sql:",primary"`
	I8  int8
	I16 int16
	I32 int32
	I64 int64
	U8  uint8
	U16 uint16
	U32 uint32
}

type c10TCase struct {
	Col   string  `json:"col"`
	X     int64   `json:"x"`
	Spell string  `json:"spell"` // int | wholeFloat | fracFloat | bool
	V     int64   `json:"v"`
	GoTy  string  `json:"goTy"` // for int: int64 | int | int32 | uint64 | named | ptr | pptr
	F     float64 `json:"-"`
}

type c10TNamed int64

var c10TCols = []struct {
	name   string
	field  string
	bits   int
	signed bool
}{{"i8", "I8", 8, true}, {"i16", "I16", 16, true}, {"i32", "I32", 32, true}, {"i64", "I64", 64, true}, {"u8", "U8", 8, false}, {"u16", "U16", 16, false}, {"u32", "U32", 32, false}}

func (cs c10TCase) goValue() interface{} {
	switch cs.Spell {
	case "wholeFloat":
		return float64(cs.V)
	case "fracFloat":
		return float64(cs.V) + 0.5
	case "bool":
		return cs.V != 0
	}
	switch cs.GoTy {
	case "int":
		return int(cs.V)
	case "int32":
		return int32(cs.V)
	case "uint64":
		return uint64(cs.V)
	case "named":
		return c10TNamed(cs.V)
	case "ptr":
		v := cs.V
		return &v
	case "pptr":
		v := cs.V
		p := &v
		return &p
	}
	return cs.V
}

func c10TesterTie(c *Ctx, m *Model, n int) {
	rep := c.Rep
	r := c.Rng
	schema := sqlgen.NewSchema()
	schema.MustRegisterType("trows", sqlgen.UniqueId, c10TRow{})
	for i := 0; i < n && !rep.ShouldStop(); i++ {
		col := c10TCols[r.Intn(len(c10TCols))]
		lo, hi := int64(0), int64(1)<<uint(col.bits)-1
		if col.signed {
			lo, hi = -(int64(1) << uint(col.bits-1)), int64(1)<<uint(col.bits-1)-1
			if col.bits == 64 {
				lo, hi = math.MinInt64, math.MaxInt64
			}
		}
		var x int64
		switch r.Intn(5) {
		case 0:
			x = lo
		case 1:
			x = hi
		case 2:
			x = int64(r.Intn(3))
		default:
			x = lo + int64(r.U64()%uint64(hi-lo)) // hi-lo fits for every kind below 64 bits; for int64 see below
			if col.bits == 64 {
				x = int64(r.U64())
			}
		}
		cs := c10TCase{Col: col.name, X: x}
		span := int64(1) << uint(col.bits%64)
		vs := []int64{x, x, x, x + 1, x - 1, 0, 1, -1, 300, 1234567, 4294967297, x + span, x - span, x + 2*span}
		cs.V = vs[r.Intn(len(vs))]
		switch r.Intn(8) {
		case 0:
			cs.Spell = "wholeFloat"
			if cs.V > 1<<52 || cs.V < -(1<<52) {
				cs.V = x % (1 << 52) // floats hold these exactly
			}
		case 1:
			cs.Spell = "fracFloat"
			cs.V %= 1 << 40
		case 2:
			cs.Spell = "bool"
			cs.V = int64(r.Intn(2))
		default:
			cs.Spell = "int"
			cs.GoTy = []string{"int64", "int", "int32", "uint64", "named", "ptr", "pptr"}[r.Intn(7)]
			if cs.GoTy == "int32" && (cs.V > math.MaxInt32 || cs.V < math.MinInt32) {
				cs.GoTy = "int64"
			}
			if cs.GoTy == "uint64" && cs.V < 0 {
				cs.GoTy = "int64"
			}
		}
		// the row
		row := &c10TRow{Id: 1}
		fv := reflect.ValueOf(row).Elem().FieldByName(col.field)
		if col.signed {
			fv.SetInt(x)
		} else {
			fv.SetUint(uint64(x))
		}
		gv := cs.goValue()
		// the database's side: what database/sql hands to the driver, compared as the fake database compares
		arg, cerr := driver.DefaultParameterConverter.ConvertValue(gv)
		if cerr != nil {
			rep.Fail("harness_error", nil, cs, map[string]interface{}{"error": cerr.Error()})
			continue
		}
		dbSays := fsEq(x, arg)
		// the tester
		var testerSays bool
		var terr error
		if p := safely(func() {
			var t sqlgen.Tester
			t, terr = schema.MakeTester("trows", sqlgen.Filter{col.name: gv})
			if terr == nil {
				testerSays = t.Test(row)
			}
		}); p != nil {
			terr = fmt.Errorf("panic: %v", p)
		}
		if terr != nil {
			rep.Fail("impl_ne_spec", nil, cs, map[string]interface{}{"what": "MakeTester refuses a filter value the database accepts", "error": terr.Error(), "value": fmt.Sprintf("%T(%v)", gv, derefPrint(gv))})
			continue
		}
		var spell interface{} = "fracFloat"
		switch cs.Spell {
		case "int":
			spell = map[string]interface{}{"int": cs.V}
		case "wholeFloat":
			spell = map[string]interface{}{"wholeFloat": cs.V}
		case "bool":
			spell = map[string]interface{}{"bool": cs.V != 0}
		}
		resp, err := m.Call(map[string]interface{}{"op": "tester", "kind": []interface{}{col.bits, col.signed}, "x": x, "spell": spell})
		if err != nil {
			rep.Fail("harness_error", nil, cs, map[string]interface{}{"error": err.Error()})
			continue
		}
		mt, md := resp["tester"].(bool), resp["db"].(bool)
		d := map[string]interface{}{"value": fmt.Sprintf("%T(%v)", gv, derefPrint(derefPrint(gv))), "tester": testerSays, "database": dbSays, "model_tester": mt, "model_database": md}
		switch {
		case testerSays != dbSays:
			d["what"] = "the row tester and the database disagree about whether the row belongs to the query"
			rep.Fail("impl_ne_spec", nil, cs, d)
		case md != dbSays:
			d["what"] = "the model's `=` differs from the fake database's"
			rep.Fail("model_ne_spec", nil, cs, d)
		case mt != testerSays:
			d["what"] = "the tester's verdict differs from the model's"
			rep.Fail("impl_ne_model", nil, cs, d)
		default:
			rep.Count("tester:" + cs.Spell)
			if testerSays {
				rep.Count("tester:match")
			}
			rep.Eval(Canon(cs), true, map[string]interface{}{"op": "tester", "spell": cs.Spell, "match": testerSays})
		}
	}
}
