package main

// A cooperative scheduler for the concurrent cores: task goroutines park at gates (hook points
// compiled into thunder with -tags verif, or gates placed by the harness itself) and the
// harness lets exactly one task run from its gate to its next gate at a time.  The order of
// those steps is the schedule; it is chosen by the harness (seeded, scripted, or replayed).

import (
	"bytes"
	"runtime"
	"strconv"
	"sync"
	"time"
)

func goid() int64 {
	var buf [64]byte
	n := runtime.Stack(buf[:], false)
	// "goroutine 123 [running]:"
	b := buf[:n]
	b = bytes.TrimPrefix(b, []byte("goroutine "))
	i := bytes.IndexByte(b, ' ')
	if i < 0 {
		return -1
	}
	id, _ := strconv.ParseInt(string(b[:i]), 10, 64)
	return id
}

type Task struct {
	ID      int
	Name    string
	At      string      // gate the task is parked at ("" while running)
	Data    interface{} // data passed with the gate
	Done    bool
	Stuck   bool
	proceed chan struct{}
	User    interface{} // per-property bookkeeping
}

type schedEvent struct {
	t     *Task
	point string
	data  interface{}
	done  bool
	pan   interface{}
}

type Sched struct {
	mu     sync.Mutex
	byGoid map[int64]*Task
	Tasks  []*Task
	events chan schedEvent
	Panics []interface{}
}

func NewSched() *Sched {
	return &Sched{byGoid: map[int64]*Task{}, events: make(chan schedEvent, 64)}
}

// Gate parks the calling goroutine if it is a task of this scheduler; other goroutines pass.
func (s *Sched) Gate(point string, data interface{}) {
	id := goid()
	s.mu.Lock()
	t := s.byGoid[id]
	s.mu.Unlock()
	if t == nil {
		return
	}
	s.events <- schedEvent{t: t, point: point, data: data}
	<-t.proceed
}

// Go starts f as a task; it returns once the task is parked at its "start" gate.
func (s *Sched) Go(name string, f func()) *Task {
	t := &Task{ID: len(s.Tasks), Name: name, proceed: make(chan struct{})}
	s.Tasks = append(s.Tasks, t)
	ready := make(chan struct{})
	go func() {
		id := goid()
		s.mu.Lock()
		s.byGoid[id] = t
		s.mu.Unlock()
		close(ready)
		defer func() {
			r := recover()
			s.mu.Lock()
			delete(s.byGoid, id)
			s.mu.Unlock()
			s.events <- schedEvent{t: t, done: true, pan: r}
		}()
		s.Gate("start", nil)
		f()
	}()
	<-ready
	s.await(t, 5*time.Second)
	return t
}

func (s *Sched) await(t *Task, timeout time.Duration) bool {
	timer := time.NewTimer(timeout)
	defer timer.Stop()
	for {
		select {
		case ev := <-s.events:
			if ev.done {
				ev.t.Done = true
				ev.t.At = ""
				if ev.pan != nil {
					s.Panics = append(s.Panics, ev.pan)
				}
			} else {
				ev.t.At = ev.point
				ev.t.Data = ev.data
			}
			if ev.t == t {
				return true
			}
		case <-timer.C:
			t.Stuck = true
			return false
		}
	}
}

// Step lets t run from its gate to its next gate (or to completion). It reports false if the
// task did not get there within the timeout (it is blocked on something else).
func (s *Sched) Step(t *Task, timeout time.Duration) bool {
	if t.Done || t.At == "" {
		return false
	}
	t.At = ""
	t.proceed <- struct{}{}
	return s.await(t, timeout)
}

// Pending returns the tasks that are parked at a gate.
func (s *Sched) Pending() []*Task {
	var out []*Task
	for _, t := range s.Tasks {
		if !t.Done && !t.Stuck && t.At != "" {
			out = append(out, t)
		}
	}
	return out
}
