package main

// C03 — Diff/merge round trip.
//
// Implementation under test: diff.Diff, diff.StripKey, merge.Merge (Go) and client/src/merge.ts
// (run under node).  Model: ThunderModel/{Diff,Merge}.lean through `tmodel C03`.
// Specification: merge(strip old, Diff(old,new)) = strip new; Diff(x,x) = nil; arguments untouched;
// the delta survives JSON.

import (
	"bytes"
	"encoding/base64"
	"encoding/json"
	"fmt"
	"math"
	"os"
	"os/exec"
	"sort"
	"strconv"
	"strings"

	"github.com/samsarahq/thunder/diff"
	"github.com/samsarahq/thunder/merge"
)

func init() { register("C03", runC03) }

var c03Names = []string{"$", "__proto__", "a", "b", "c", "d", "e", "f"} // sorted; interned as 1..; "__key" is 0; "$" is an ordinary field name in an object

type c03Intern struct {
	byText map[string]int // JSON text of a scalar -> token
	bytes  map[string]bool
	next   int
}

func newC03Intern() *c03Intern {
	return &c03Intern{byText: map[string]int{}, bytes: map[string]bool{}, next: 100}
}

func (in *c03Intern) tok(text string) int {
	if t, ok := in.byText[text]; ok {
		return t
	}
	in.next++
	in.byText[text] = in.next
	return in.next
}

func scalarText(v interface{}) string {
	b, _ := json.Marshal(v)
	return string(b)
}

// encData encodes a data value (pre- or post-JSON) in the J wire form.
func (in *c03Intern) encData(v interface{}) interface{} {
	switch v := v.(type) {
	case nil:
		return nil
	case map[string]interface{}:
		type kv struct {
			k int
			v interface{}
		}
		var kvs []kv
		for k, x := range v {
			kvs = append(kvs, kv{in.nameKey(k), in.encData(x)})
		}
		sort.Slice(kvs, func(i, j int) bool { return kvs[i].k < kvs[j].k })
		o := make([]interface{}, 0, len(kvs))
		for _, p := range kvs {
			o = append(o, []interface{}{p.k, p.v})
		}
		return map[string]interface{}{"o": o}
	case []interface{}:
		a := make([]interface{}, 0, len(v))
		for _, x := range v {
			a = append(a, in.encData(x))
		}
		return a
	case []byte:
		t := scalarText(v)
		in.bytes[t] = true
		return map[string]interface{}{"y": in.tok(t)}
	default:
		t := scalarText(v)
		if in.bytes[t] {
			return map[string]interface{}{"y": in.tok(t)}
		}
		return map[string]interface{}{"s": in.tok(t)}
	}
}

func (in *c03Intern) nameKey(k string) int {
	if k == "__key" {
		return 0
	}
	for i, n := range c03Names {
		if n == k {
			return i + 1
		}
	}
	// unknown names (only a mutated implementation can produce them) sort after the pool
	return 50 + in.tok("name:"+k)
}

func isArrayDelta(m map[string]interface{}) bool {
	for k := range m {
		if k == "$" {
			continue
		}
		if _, err := strconv.Atoi(k); err != nil {
			return false
		}
	}
	return len(m) > 0
}

// c03ExpandIdx: the reorder list under "$" with its runs [start, count] expanded
func c03ExpandIdx(v interface{}) []int {
	num := func(x interface{}) (int, bool) {
		switch x := x.(type) {
		case float64:
			return int(x), true
		case json.Number:
			n, err := x.Int64()
			return int(n), err == nil
		case int64:
			return int(x), true
		case int:
			return x, true
		}
		return 0, false
	}
	var out []int
	l, _ := v.([]interface{})
	for _, e := range l {
		if n, ok := num(e); ok {
			out = append(out, n)
		} else if p, ok := e.([]interface{}); ok && len(p) == 2 {
			a, _ := num(p[0])
			c, _ := num(p[1])
			for k := 0; k < c; k++ {
				out = append(out, a+k)
			}
		}
	}
	return out
}

// encRawIdx encodes the value under "$": numbers stay raw.
func encRawIdx(v interface{}) interface{} {
	switch v := v.(type) {
	case []interface{}:
		a := make([]interface{}, 0, len(v))
		for _, x := range v {
			a = append(a, encRawIdx(x))
		}
		return a
	case float64:
		return map[string]interface{}{"s": int64(v)}
	case json.Number:
		n, _ := v.Int64()
		return map[string]interface{}{"s": n}
	default:
		return map[string]interface{}{"s": fmt.Sprintf("?%v", v)}
	}
}

// encDelta encodes a JSON-decoded delta in the J wire form. A nested delta is an array delta or an object delta
// according to the old value it applies to (an object may have a field named "$" or "0"); where the old value
// is not at hand the shape decides.
func (in *c03Intern) encDelta(v interface{}) interface{} { return in.encDeltaCtx(v, nil, false) }

func (in *c03Intern) encDeltaCtx(v interface{}, old interface{}, known bool) interface{} {
	m, ok := v.(map[string]interface{})
	if !ok {
		return in.encData(v) // scalar replacement, [wrapped], []
	}
	type kv struct {
		k int
		v interface{}
	}
	var kvs []kv
	oldMap, oldIsMap := old.(map[string]interface{})
	arrayDelta := isArrayDelta(m)
	if known {
		_, oldIsArr := old.([]interface{})
		arrayDelta = oldIsArr
	}
	if known && oldIsMap {
		for k, x := range m {
			sub, has := oldMap[k]
			kvs = append(kvs, kv{in.nameKey(k), in.encDeltaCtx(x, sub, has)})
		}
	} else if arrayDelta {
		oldArr, _ := old.([]interface{})
		var idx []int
		reordered := false
		if r, ok := m["$"]; ok {
			reordered = true
			idx = c03ExpandIdx(r)
		}
		for k, x := range m {
			if k == "$" {
				kvs = append(kvs, kv{0, encRawIdx(x)})
			} else {
				i, _ := strconv.Atoi(k)
				// the element delta applies to the old element that the reorder list puts at position i
				j := i
				if reordered {
					j = -1
					if i < len(idx) {
						j = idx[i]
					}
				}
				if known && j >= 0 && j < len(oldArr) {
					kvs = append(kvs, kv{i + 1, in.encDeltaCtx(x, oldArr[j], true)})
				} else {
					kvs = append(kvs, kv{i + 1, in.encDelta(x)})
				}
			}
		}
	} else {
		for k, x := range m {
			kvs = append(kvs, kv{in.nameKey(k), in.encDelta(x)})
		}
	}
	sort.Slice(kvs, func(i, j int) bool { return kvs[i].k < kvs[j].k })
	o := make([]interface{}, 0, len(kvs))
	for _, p := range kvs {
		o = append(o, []interface{}{p.k, p.v})
	}
	return map[string]interface{}{"o": o}
}

// ---------------------------------------------------------------------------------------
// Generator

type c03Gen struct {
	r      *Rand
	nextID int
}

var c03Scalars = []interface{}{int64(-1), int64(0), int64(1), int64(2), int64(3), int64(7), "a", "b", "", "x y", true, false, 1.5, -2.25}

func (g *c03Gen) scalar() interface{} {
	if g.r.Chance(0.04) {
		return []byte{0xff, 0xfe, byte(g.r.Intn(3))}
	}
	return c03Scalars[g.r.Intn(len(c03Scalars))]
}

func (g *c03Gen) keyVal() interface{} {
	switch g.r.Intn(12) {
	case 11:
		if g.r.Chance(0.3) {
			return nil // a nil key field (nullable scalar key)
		}
		return int64(10)
	case 0:
		return "k" + strconv.Itoa(g.r.Intn(4))
	case 4:
		// a string that prints like one of the integer keys: another key
		return strconv.Itoa(10 + g.r.Intn(6))
	case 1, 2, 3:
		// keys that collide with scalar elements: a scalar and an object keyed by it share a reorder key
		return []interface{}{int64(1), int64(2), int64(3), "a", "b", int64(-1)}[g.r.Intn(6)]
	default:
		return int64(10 + g.r.Intn(6))
	}
}

func (g *c03Gen) value(depth int) interface{} {
	k := g.r.Intn(10)
	if depth <= 0 && k >= 4 {
		k = g.r.Intn(4)
	}
	switch {
	case k == 0:
		return nil
	case k < 4:
		return g.scalar()
	case k < 7:
		return g.object(depth-1, g.r.Chance(0.3))
	default:
		return g.array(depth - 1)
	}
}

func (g *c03Gen) object(depth int, keyed bool) map[string]interface{} {
	m := map[string]interface{}{}
	n := g.r.Intn(4)
	for i := 0; i < n; i++ {
		m[c03Names[g.r.Intn(len(c03Names))]] = g.value(depth)
	}
	if keyed {
		m["__key"] = g.keyVal()
	}
	return m
}

func (g *c03Gen) array(depth int) []interface{} {
	n := g.r.Intn(7)
	a := make([]interface{}, 0, n)
	kind := g.r.Intn(6)
	for i := 0; i < n; i++ {
		switch kind {
		case 5: // keyed objects mixed with scalars (possibly equal to a key)
			if g.r.Bool() {
				a = append(a, g.object(depth, true))
			} else {
				a = append(a, g.scalar())
			}
		case 0: // scalars, duplicates likely
			a = append(a, g.scalar())
		case 1: // keyed objects
			a = append(a, g.object(depth, true))
		case 2: // key-less objects
			a = append(a, g.object(depth, false))
		case 3: // numbers around -1 (the value merge.ts compares indices with)
			a = append(a, int64(g.r.Intn(4)-1))
		default:
			a = append(a, g.value(depth))
		}
	}
	if g.r.Chance(0.1) {
		return a[:g.r.Intn(len(a)+1)] // spare capacity holding further elements
	}
	return a
}

// mutate derives a new value from old.
func (g *c03Gen) mutate(v interface{}, depth int) interface{} {
	if g.r.Chance(0.08) {
		return g.value(depth) // type change / fresh value
	}
	switch v := v.(type) {
	case map[string]interface{}:
		if g.r.Chance(0.2) {
			return v // aliased, identical
		}
		m := map[string]interface{}{}
		for _, k := range sortedKeys(v) {
			x := v[k]
			switch {
			case k == "__key":
				if g.r.Chance(0.1) {
					if g.r.Chance(0.5) {
						m[k] = g.keyVal()
					}
				} else if g.r.Chance(0.08) {
					// a key of another JSON type that prints alike: a different object
					switch kv := x.(type) {
					case int64:
						m[k] = strconv.FormatInt(kv, 10)
					case string:
						if n, err := strconv.ParseInt(kv, 10, 64); err == nil {
							m[k] = n
						} else {
							m[k] = x
						}
					case bool:
						m[k] = strconv.FormatBool(kv)
					default:
						m[k] = x
					}
				} else {
					m[k] = x
				}
			case g.r.Chance(0.15): // field disappears
			case g.r.Chance(0.5):
				m[k] = g.mutate(x, depth-1)
			default:
				m[k] = x
			}
		}
		for g.r.Chance(0.3) { // field appears
			k := c03Names[g.r.Intn(len(c03Names))]
			if _, ok := m[k]; !ok {
				m[k] = g.value(depth - 1)
			}
		}
		if _, ok := m["__key"]; !ok && g.r.Chance(0.03) {
			m["__key"] = g.keyVal()
		}
		return m
	case []interface{}:
		if g.r.Chance(0.15) {
			return v
		}
		if g.r.Chance(0.08) {
			return v[:g.r.Intn(cap(v)+1)] // a re-slice of the old array: same backing array, other length
		}
		a := append([]interface{}(nil), v...)
		for i := range a {
			if g.r.Chance(0.3) {
				a[i] = g.mutate(a[i], depth-1)
			}
		}
		ops := g.r.Intn(4)
		for o := 0; o < ops; o++ {
			switch g.r.Intn(8) {
			case 0: // shuffle
				p := g.r.Perm(len(a))
				b := make([]interface{}, len(a))
				for i, j := range p {
					b[i] = a[j]
				}
				a = b
			case 1: // rotate
				if len(a) > 1 {
					k := 1 + g.r.Intn(len(a)-1)
					a = append(append([]interface{}(nil), a[k:]...), a[:k]...)
				}
			case 2: // delete
				if len(a) > 0 {
					i := g.r.Intn(len(a))
					a = append(append([]interface{}(nil), a[:i]...), a[i+1:]...)
				}
			case 3: // insert
				i := g.r.Intn(len(a) + 1)
				var x interface{}
				if len(a) > 0 && g.r.Bool() {
					x = g.mutate(a[g.r.Intn(len(a))], depth-1)
				} else {
					x = g.value(depth - 1)
				}
				a = append(append(append([]interface{}(nil), a[:i]...), x), a[i:]...)
			case 4: // duplicate
				if len(a) > 0 {
					a = append(a, a[g.r.Intn(len(a))])
				}
			case 5: // truncate
				if len(a) > 0 {
					a = a[:g.r.Intn(len(a))]
				}
			case 6: // reverse
				for i, j := 0, len(a)-1; i < j; i, j = i+1, j-1 {
					a[i], a[j] = a[j], a[i]
				}
			case 7: // drop a prefix (long runs)
				if len(a) > 2 {
					a = a[1+g.r.Intn(2):]
				}
			}
		}
		return a
	default:
		if g.r.Chance(0.3) {
			return g.scalar()
		}
		return v
	}
}

// ---------------------------------------------------------------------------------------

func jsonRound(v interface{}) (interface{}, error) {
	b, err := json.Marshal(v)
	if err != nil {
		return nil, err
	}
	var out interface{}
	if err := json.Unmarshal(b, &out); err != nil {
		return nil, err
	}
	return out, nil
}

type c03Case struct {
	Old interface{} `json:"old"`
	New interface{} `json:"new"`
}

type c03JSJob struct {
	modelJS interface{}
	in      *c03Intern
	c       c03Case
	prev    interface{}
	d       interface{}
	spec    string
	has     bool
}

func c03HasNullKey(v interface{}) bool {
	switch v := v.(type) {
	case map[string]interface{}:
		if k, ok := v["__key"]; ok && k == nil {
			return true
		}
		for _, x := range v {
			if c03HasNullKey(x) {
				return true
			}
		}
	case []interface{}:
		for _, x := range v {
			if c03HasNullKey(x) {
				return true
			}
		}
	}
	return false
}

// c03One evaluates one (old,new) pair on implementation, model and spec.
func c03One(c *Ctx, m *Model, cs c03Case, js *[]c03JSJob) {
	rep := c.Rep
	in := newC03Intern()
	oldCopy, newCopy := deepCopyJSON(cs.Old), deepCopyJSON(cs.New)
	oldCanon, newCanon := Canon(cs.Old), Canon(cs.New)

	var implDelta interface{}
	if p := safely(func() { implDelta = diff.Diff(cs.Old, cs.New) }); p != nil {
		rep.Fail("impl_ne_spec", nil, cs, map[string]interface{}{"what": "diff.Diff panicked", "panic": fmt.Sprint(p)})
		return
	}
	if Canon(cs.Old) != oldCanon || Canon(cs.New) != newCanon {
		rep.Fail("impl_ne_spec", nil, c03Case{oldCopy, newCopy}, map[string]interface{}{"what": "Diff modified its arguments"})
		return
	}
	specV, _ := jsonRound(diff.StripKey(cs.New))
	spec := Canon(specV)
	prev, _ := jsonRound(diff.StripKey(cs.Old))

	var wire interface{}
	nontrivial := implDelta != nil
	if implDelta != nil {
		var err error
		wire, err = jsonRound(implDelta)
		if err != nil {
			rep.Fail("impl_ne_spec", nil, cs, map[string]interface{}{"what": "delta does not survive JSON", "error": err.Error()})
			return
		}
	}
	// Go merge: the delta after its JSON round trip (also the empty one), and the delta exactly as Diff returned it
	var merged interface{} = prev
	var mergeErr error
	if p := safely(func() { merged, mergeErr = merge.Merge(deepCopyJSON(prev), wire) }); p != nil {
		mergeErr = fmt.Errorf("panic: %v", p)
	}
	{
		var rawMerged interface{}
		var rawErr error
		if p := safely(func() { rawMerged, rawErr = merge.Merge(deepCopyJSON(prev), implDelta) }); p != nil {
			rawErr = fmt.Errorf("panic: %v", p)
		}
		rawCanon := "error"
		if rawErr == nil {
			if rt, err := jsonRound(rawMerged); err == nil {
				rawCanon = Canon(rt)
			}
		}
		if rawCanon != Canon(specV) {
			detail := map[string]interface{}{"what": "merge.Merge(strip old, Diff(old,new)) with the delta as Diff returned it (no JSON round trip) != strip new", "delta": wire, "merged": rawMerged, "spec": specV}
			if rawErr != nil {
				detail["merge_error"] = rawErr.Error()
			}
			rep.Fail("impl_ne_spec", []string{}, cs, detail)
		}
		rep.Count("raw-delta-merged")
	}
	implMerged := "error"
	if mergeErr == nil {
		implMerged = Canon(merged)
	}
	kf := []string{}
	if implMerged != spec {
		detail := map[string]interface{}{"what": "merge.Merge(strip old, Diff(old,new)) != strip new", "delta": wire, "merged": merged, "spec": specV}
		if mergeErr != nil {
			detail["merge_error"] = mergeErr.Error()
		}
		rep.Fail("impl_ne_spec", kf, cs, detail)
	}
	// self-diff
	if Canon(cs.Old) == Canon(cs.New) && implDelta != nil && !c03HasNullKey(cs.Old) {
		rep.Fail("impl_ne_spec", kf, cs, map[string]interface{}{"what": "Diff(x,x) is not empty", "delta": wire})
	}

	// model
	resp, err := m.Call(map[string]interface{}{"op": "case", "old": in.encData(cs.Old), "new": in.encData(cs.New)})
	if err != nil {
		rep.Fail("harness_error", nil, cs, map[string]interface{}{"error": err.Error()})
		return
	}
	var implDeltaEnc interface{}
	if implDelta != nil {
		implDeltaEnc = map[string]interface{}{"some": in.encDeltaCtx(wire, oldCopy, true)}
	}
	if Canon(implDeltaEnc) != Canon(resp["delta"]) {
		rep.Fail("impl_ne_model", kf, cs, map[string]interface{}{"what": "delta differs from model", "impl": implDeltaEnc, "model": resp["delta"], "delta": wire})
	}
	var implMergedEnc interface{}
	if mergeErr != nil {
		implMergedEnc = "err"
	} else {
		implMergedEnc = map[string]interface{}{"ok": in.encData(merged)}
	}
	modelMerged := resp["merged"]
	if mm, ok := modelMerged.(map[string]interface{}); ok {
		if _, isErr := mm["err"]; isErr {
			modelMerged = "err"
		}
	}
	if Canon(implMergedEnc) != Canon(modelMerged) {
		rep.Fail("impl_ne_model", kf, cs, map[string]interface{}{"what": "merged value differs from model", "impl": implMergedEnc, "model": modelMerged})
	}
	if wf, _ := resp["wf"].(bool); wf {
		if Canon(modelMerged) != Canon(map[string]interface{}{"ok": resp["spec"]}) {
			rep.Fail("model_ne_spec", kf, cs, map[string]interface{}{"what": "model contradicts theorem merge_diff", "model": modelMerged, "spec": resp["spec"]})
		}
		rep.Count("wf")
	} else {
		rep.Count("not-wf")
	}
	if Canon(in.encData(specV)) != Canon(resp["spec"]) {
		rep.Fail("impl_ne_model", kf, cs, map[string]interface{}{"what": "StripKey differs from model strip", "impl": in.encData(specV), "model": resp["spec"]})
	}
	*js = append(*js, c03JSJob{c: cs, prev: prev, d: wire, spec: spec, has: implDelta != nil, modelJS: resp["mergedJs"], in: in})

	// histogram
	switch d := wire.(type) {
	case nil:
		rep.Count("delta:none")
	case map[string]interface{}:
		if _, ok := d["$"]; ok {
			rep.Count("delta:top-reorder")
		}
		rep.Count("delta:object")
	case []interface{}:
		rep.Count("delta:replace")
	default:
		rep.Count("delta:scalar")
	}
	if strings.Contains(Canon(wire), `"$"`) {
		rep.Count("delta:has-reorder")
	}
	if bytes.Contains([]byte(Canon(wire)), []byte("[[")) {
		rep.Count("delta:has-wrapped-array-or-run")
	}
	rep.Eval(oldCanon+"|"+newCanon, nontrivial, cs)
}

func mergeTSPath() string {
	repo := os.Getenv("VERIF_REPO")
	if repo == "" {
		repo = "/repo"
	}
	return repo + "/client/src/merge.ts"
}

func harnessDir() string {
	if d := os.Getenv("VERIF_HARNESS_DIR"); d != "" {
		return d
	}
	return "/verif/harness"
}

// c03RunJS runs merge.ts under node on all collected (prev, delta) pairs.
func c03RunJS(c *Ctx, jobs []c03JSJob) {
	rep := c.Rep
	if len(jobs) == 0 {
		return
	}
	node, err := exec.LookPath("node")
	if err != nil {
		rep.Fail("harness_error", nil, nil, map[string]interface{}{"error": "node not found; merge.ts not exercised"})
		return
	}
	var in bytes.Buffer
	for _, j := range jobs {
		line := map[string]interface{}{"prev": j.prev, "delta": nil} // no delta: merge(prev, null)
		if j.has {
			line["delta"] = j.d
		}
		b, _ := json.Marshal(line)
		in.Write(b)
		in.WriteByte('\n')
	}
	cmd := exec.Command(node, harnessDir()+"/js/run_merge.js", mergeTSPath())
	cmd.Stdin = &in
	var out bytes.Buffer
	cmd.Stdout = &out
	cmd.Stderr = os.Stderr
	if err := cmd.Run(); err != nil {
		rep.Fail("harness_error", nil, nil, map[string]interface{}{"error": "node: " + err.Error()})
		return
	}
	lines := strings.Split(strings.TrimSpace(out.String()), "\n")
	if len(lines) != len(jobs) {
		rep.Fail("impl_ne_model", nil, nil, map[string]interface{}{"what": "merge.ts could not be run", "output": firstN(out.String(), 300)})
		return
	}
	for i, l := range lines {
		var r map[string]interface{}
		if err := json.Unmarshal([]byte(l), &r); err != nil {
			rep.Fail("harness_error", nil, jobs[i].c, map[string]interface{}{"error": "node output: " + l})
			continue
		}
		rep.Count("js:evaluated")
		if ok, has := r["ok"]; has {
			r["ok"] = c03NegZero(ok)
		}
		got := "error"
		if _, bad := r["err"]; !bad {
			got = Canon(r["ok"])
		}
		var implEnc interface{} = "err"
		if _, bad := r["err"]; !bad {
			implEnc = map[string]interface{}{"ok": jobs[i].in.encData(r["ok"])}
		}
		mj := jobs[i].modelJS
		if mm, ok := mj.(map[string]interface{}); ok {
			if _, isErr := mm["err"]; isErr {
				mj = "err"
			}
		}
		if Canon(implEnc) != Canon(mj) {
			rep.Fail("impl_ne_model", []string{}, jobs[i].c, map[string]interface{}{"what": "merge.ts result differs from model mergeJs", "impl": implEnc, "model": mj, "delta": jobs[i].d})
		}
		if got != jobs[i].spec {
			rep.Fail("impl_ne_spec", []string{}, jobs[i].c, map[string]interface{}{"what": "merge.ts(strip old, Diff(old,new)) != strip new", "delta": jobs[i].d, "merged_js": r, "spec": jobs[i].spec})
		}
	}
}

func firstN(s string, n int) string {
	if len(s) > n {
		return s[:n]
	}
	return s
}

func runC03(c *Ctx) error {
	m, err := StartModel("C03")
	if err != nil {
		return err
	}
	defer m.Close()
	c.Rep.Rule = "mutation-based JSON pairs (new derived from old by reorder/insert/delete/duplicate/truncate/type change/null/field appear+disappear/__key change, also to a key of another JSON type that prints alike); a case is non-trivial when Diff(old,new) is non-empty; distinct by canonical (old,new)"
	c.Rep.Assumptions = append(c.Rep.Assumptions,
		"encoding/json marshalling of Go scalars and base64 of []byte is trusted",
		"merge.ts is executed by node after stripping the type annotations of its signature",
		"scalars are interned by their JSON text; reorder indices are compared numerically")
	var js []c03JSJob
	if c.Replay != "" {
		cs, err := c03LoadReplay(c.Replay)
		if err != nil {
			return err
		}
		c03One(c, m, cs, &js)
		c03RunJS(c, js)
		return nil
	}
	// corpus of minimised past disagreements first
	for _, cs := range c03Corpus() {
		c03One(c, m, cs, &js)
	}
	n := c.N(6000, 400000)
	g := &c03Gen{r: c.Rng}
	for i := 0; i < n; i++ {
		depth := 1 + g.r.Intn(4)
		var old interface{}
		switch g.r.Intn(4) {
		case 0:
			old = g.array(depth)
		case 1:
			old = g.value(depth)
		default:
			old = g.object(depth, g.r.Chance(0.2))
		}
		var nw interface{}
		if g.r.Chance(0.06) {
			nw = old
		} else {
			nw = g.mutate(old, depth)
		}
		c03One(c, m, c03Case{old, nw}, &js)
		if len(js) >= 20000 {
			c03RunJS(c, js)
			js = js[:0]
		}
	}
	c03RunJS(c, js)
	return nil
}

// c03Corpus: hand-minimised cases that once disagreed (findings C03-1..C03-3 and design examples).
func c03Corpus() []c03Case {
	o := func(kv ...interface{}) map[string]interface{} {
		m := map[string]interface{}{}
		for i := 0; i+1 < len(kv); i += 2 {
			m[kv[i].(string)] = kv[i+1]
		}
		return m
	}
	a := func(xs ...interface{}) []interface{} { return append([]interface{}{}, xs...) }
	i := func(n int) interface{} { return int64(n) }
	return []c03Case{
		{o("a", i(1)), o("a", i(1), "f", a("x", "y"))},                     // new array field
		{o("a", i(1)), o("a", i(1), "f", o("b", i(2)))},                    // new object field
		{o("a", i(1)), o("a", i(1), "f", nil)},                             // new null field
		{a(i(0), i(1), i(2), i(3), i(4), i(5)), a(i(2), i(3), i(4), i(0))}, // run [2,3]
		{a(i(7), i(-1)), a(i(-1), i(7))},                                   // merge.ts: merged[x] === -1
		{a(o("__key", i(10), "a", "bob"), o("__key", i(13), "a", "alice")), a(o("__key", i(13), "a", "alice"), o("__key", i(10), "a", "bob", "b", i(23)))},
		{o("a", []byte{1, 2}), o("a", []byte{1, 3})},
		{a(o("__key", "a", "b", i(1)), o("__key", "b", "b", i(2))), a(o("__key", "a", "b", i(1)), "b")}, // scalar equal to the key of the object it replaces
		{o("__key", nil, "a", i(1)), o("a", i(1))},                                                      // nil __key disappears
		{o("a", i(1)), o("__key", nil, "a", i(1))},                                                      // nil __key appears
		{o("__key", a(i(1)), "a", i(1)), o("__key", a(i(1)), "a", i(2))},                                // C15-6: a __key that is a list
		{a(o("__key", o("x", i(1)), "a", i(1)), o("__key", a(), "a", i(2))), a(o("__key", a(), "a", i(2)), o("__key", o("x", i(1)), "a", i(3)))},
		{o("a", 0.0), o("a", math.Copysign(0, -1))},                  // C02-2: 0 becomes -0 (as elements of an array 0 and -0 are one reorder key in Go and two scalar tokens in the model: not in the corpus)
		{a(i(1), i(2)), a(i(2), i(1))},                               // C03-5: reorder indices of a delta that has not been through JSON
		{o("a", i(1)), o("a", i(1))},                                 // C03-6 / C03-7: the empty delta
		{a(i(1)), a(nil)},                                            // C03-8: a new element that is null
		{o(), o("__proto__", i(1))},                                  // C03-9: a field named __proto__
		{o("a", i(1)), o("a", i(1), "__proto__", o("b", i(2)))},      // C03-9: ... with an object value
		{o("__proto__", o("b", i(2))), o("__proto__", o("b", i(3)))}, // C03-9: ... updated in place
	}
}

func c03LoadReplay(path string) (c03Case, error) {
	var f struct {
		Case c03Case `json:"case"`
	}
	b, err := os.ReadFile(path)
	if err != nil {
		return c03Case{}, err
	}
	if err := json.Unmarshal(b, &f); err != nil {
		return c03Case{}, err
	}
	return c03Case{c03Retype(f.Case.Old), c03Retype(f.Case.New)}, nil
}

// c03Retype turns JSON-decoded numbers back into the Go types the generator uses (int64 for
// integral numbers), so that a replayed case is the case that failed.
func c03Retype(v interface{}) interface{} {
	switch v := v.(type) {
	case map[string]interface{}:
		for k, x := range v {
			v[k] = c03Retype(x)
		}
		return v
	case []interface{}:
		for i, x := range v {
			v[i] = c03Retype(x)
		}
		return v
	case float64:
		if v == float64(int64(v)) {
			return int64(v)
		}
		return v
	case string:
		if strings.HasPrefix(v, "//4") { // generator's []byte values start with ff fe
			if b, err := base64.StdEncoding.DecodeString(v); err == nil {
				return b
			}
		}
		return v
	default:
		return v
	}
}

// c03NegZero puts the float -0 back where run_merge.js wrote its marker (JSON.stringify prints -0 as 0)
func c03NegZero(v interface{}) interface{} {
	switch x := v.(type) {
	case string:
		if x == "@@negzero" {
			return math.Copysign(0, -1)
		}
	case []interface{}:
		for i := range x {
			x[i] = c03NegZero(x[i])
		}
	case map[string]interface{}:
		for k := range x {
			x[k] = c03NegZero(x[k])
		}
	}
	return v
}
