package main

// C01 — directed cases from the defect hunt on the unchanged tree (notes/hunt/C01): each compares the executor, under
// every scheduler, inside and outside a rerunner, with the answer a sequential evaluation gives (written out here).

import (
	"context"
	"fmt"
	"math"
	"strings"
	"sync"
	"time"

	"github.com/samsarahq/thunder/batch"
	"github.com/samsarahq/thunder/graphql"
	"github.com/samsarahq/thunder/graphql/schemabuilder"
	"github.com/samsarahq/thunder/internal"
	"github.com/samsarahq/thunder/reactive"
)

// C01Vehicle is a union member registered under another name than its type (finding C01-1).
type C01Vehicle struct{ Wheels int64 }
type C01Boat struct{ Sails int64 }
type C01Ride struct {
	schemabuilder.Union
	*C01Vehicle
	*C01Boat
}

// c01Stat: by-value objects with an Expensive field whose value cannot be found again in a map (findings C01-2, C01-3)
type c01Stat struct {
	Id  int64
	Avg float64
}
type c01Bag struct {
	Id    int64
	extra interface{}
}

// c01Keyed: an object whose key is a batch field func (finding C01-5)
type c01Keyed struct{ N int64 }

type c01Log struct {
	mu sync.Mutex
	xs []int64
}

type c01LogKey struct{}

func c01DirectedSchema(renamed bool) (*graphql.Schema, error) {
	sb := schemabuilder.NewSchema()
	q := sb.Query()
	q.FieldFunc("stats", func() []c01Stat { return []c01Stat{{1, 1.5}, {2, math.NaN()}, {3, math.NaN()}} })
	q.FieldFunc("bags", func() []c01Bag {
		return []c01Bag{{1, nil}, {2, map[string]int{"a": 1}}, {3, []int{1}}}
	})
	q.FieldFunc("keyed", func() []c01Keyed { return []c01Keyed{{1}, {2}, {3}} })
	st := sb.Object("c01Stat", c01Stat{})
	st.FieldFunc("twice", func(s c01Stat) int64 { return 2 * s.Id }, schemabuilder.Expensive)
	bg := sb.Object("c01Bag", c01Bag{})
	bg.FieldFunc("twice", func(b c01Bag) int64 { return 2 * b.Id }, schemabuilder.Expensive)
	kd := sb.Object("c01Keyed", c01Keyed{})
	kd.BatchFieldFunc("id", func(m map[batch.Index]c01Keyed) (map[batch.Index]int64, error) {
		out := map[batch.Index]int64{}
		for i, k := range m {
			out[i] = 10 * k.N
		}
		return out, nil
	})
	kd.Key("id")
	if renamed {
		sb.Object("Car", C01Vehicle{})
	} else {
		sb.Object("C01Vehicle", C01Vehicle{})
	}
	sb.Object("C01Boat", C01Boat{})
	q.FieldFunc("rides", func() []*C01Ride {
		return []*C01Ride{{C01Vehicle: &C01Vehicle{4}}, {C01Boat: &C01Boat{2}}, nil}
	})
	mut := sb.Mutation()
	mut.FieldFunc("push", func(ctx context.Context, args struct{ V int64 }) []int64 {
		l := ctx.Value(c01LogKey{}).(*c01Log)
		l.mu.Lock()
		defer l.mu.Unlock()
		l.xs = append(l.xs, args.V)
		return append([]int64{}, l.xs...)
	})
	return sb.Build()
}

// c01RunDirected executes a query the way http.go and the websocket server do when inRerunner is set.
func c01RunDirected(schema *graphql.Schema, root graphql.Type, query string, sched graphql.WorkScheduler, inRerunner bool) (out interface{}, err error) {
	q, err := graphql.Parse(query, nil)
	if err != nil {
		return nil, err
	}
	ctx := context.WithValue(context.Background(), c01LogKey{}, &c01Log{})
	ctx = batch.WithBatching(ctx)
	if err := graphql.PrepareQuery(ctx, root, q.SelectionSet); err != nil {
		return nil, err
	}
	var v interface{}
	run := func(ctx context.Context) {
		if p := safely(func() { v, err = graphql.NewExecutor(sched).Execute(ctx, root, nil, q) }); p != nil {
			err = fmt.Errorf("panic: %v", p)
		}
	}
	if inRerunner {
		done := make(chan struct{})
		rr := reactive.NewRerunner(ctx, func(ctx context.Context) (interface{}, error) {
			defer close(done)
			run(ctx)
			return nil, nil
		}, time.Hour, false)
		<-done
		rr.Stop()
	} else {
		run(ctx)
	}
	if err != nil {
		return nil, err
	}
	return internal.AsJSON(v), nil
}

// c01DirectedOnly: when set (replay of a journalled case), only this directed case runs.
var c01DirectedOnly map[string]interface{}

func c01Directed(c *Ctx) {
	rep := c.Rep
	// C01-1: a union member registered under another name: refused at Build, or answered; never a crash
	if schema, err := c01DirectedSchema(true); err == nil {
		for name, sched := range map[string]graphql.WorkScheduler{"fifo": &seqScheduler{policy: "fifo"}} {
			cs := map[string]interface{}{"directed": "union member registered as Car", "scheduler": name}
			out, err := c01RunDirected(schema, schema.Query, `{ rides { ... on Car { wheels } ... on C01Boat { sails } } }`, sched, false)
			want := `{"rides":[{"wheels":4},{"sails":2},null]}`
			if err != nil || Canon(out) != want {
				rep.Fail("impl_ne_spec", nil, cs, map[string]interface{}{"what": "a schema with a union member registered under another name was built, and its union values are not answered", "error": fmt.Sprint(err), "data": out, "want": want})
			}
		}
	} else if !strings.Contains(err.Error(), "union") {
		rep.Fail("impl_ne_spec", nil, map[string]interface{}{"directed": "union member registered as Car"}, map[string]interface{}{"what": "Build fails for another reason", "error": err.Error()})
	}
	rep.Count("directed:renamed_union_member")

	schema, err := c01DirectedSchema(false)
	if err != nil {
		rep.Fail("harness_error", nil, nil, map[string]interface{}{"error": "directed schema: " + err.Error()})
		return
	}
	cases := []struct {
		root  graphql.Type
		query string
		want  string
	}{
		{schema.Query, `{ stats { id twice } }`, `{"stats":[{"id":1,"twice":2},{"id":2,"twice":4},{"id":3,"twice":6}]}`},
		{schema.Query, `{ bags { id twice } }`, `{"bags":[{"id":1,"twice":2},{"id":2,"twice":4},{"id":3,"twice":6}]}`},
		{schema.Query, `{ keyed { n } }`, `{"keyed":[{"__key":10,"n":1},{"__key":20,"n":2},{"__key":30,"n":3}]}`},
		{schema.Query, `{ rides { ... on C01Vehicle { wheels } ... on C01Boat { sails } } }`, `{"rides":[{"wheels":4},{"sails":2},null]}`},
		// the top-level fields of a mutation run one after the other, in the order of the query
		{schema.Mutation, `mutation { first: push(v: 1) second: push(v: 2) third: push(v: 3) }`, `{"first":[1],"second":[1,2],"third":[1,2,3]}`},
	}
	for _, tc := range cases {
		want := tc.want
		for _, inRerunner := range []bool{false, true} {
			for rep3 := 0; rep3 < 4; rep3++ { // map order differs from run to run
				for name, sched := range xSchedulers(c.Rng) {
					cs := map[string]interface{}{"directed": tc.query, "scheduler": name, "rerunner": inRerunner}
					if c01DirectedOnly != nil && Canon(c01DirectedOnly) != Canon(cs) {
						continue
					}
					// a panic on a worker goroutine ends the process: journal the case first
					Inflight(cs)
					out, err := c01RunDirected(schema, tc.root, tc.query, sched, inRerunner)
					InflightDone()
					if err != nil {
						rep.Fail("impl_ne_spec", nil, cs, map[string]interface{}{"what": "a valid query over healthy resolvers fails", "error": firstN(err.Error(), 300)})
						continue
					}
					if Canon(out) != want {
						rep.Fail("impl_ne_spec", nil, cs, map[string]interface{}{"what": "result differs from the sequential evaluation", "data": out, "want": want})
						continue
					}
					rep.Count("directed:hunt")
					rep.Eval(fmt.Sprintf("directed|%s|%s|%v", tc.query, name, inRerunner), true, cs)
				}
			}
		}
	}
}
