package main

// C06 — Federation is transparent: the gateway answers like one combined server.
//
// A pool of object fields (two federated object types, a union of them, scalar fields with and without
// arguments, links and lists of links with nulls) is partitioned at random over 2-3 real federation
// servers built by schemabuilder; a real federation.Executor with recording clients answers random valid
// queries; a monolith graphql schema with all fields over the same data answers the same queries.

import (
	"context"
	"encoding/json"
	"fmt"
	"hash/fnv"
	"os"
	"regexp"
	"sort"
	"strings"
	"sync"
	"sync/atomic"
	"time"

	"github.com/samsarahq/thunder/federation"
	"github.com/samsarahq/thunder/graphql"
	"github.com/samsarahq/thunder/graphql/schemabuilder"
	"github.com/samsarahq/thunder/internal"
)

func init() { register("C06", runC06) }

// fdVars: the variables every query of this world is parsed with (used by the `echo` arguments): lists with null
// elements can only be sent through variables
func fdVars() map[string]interface{} {
	return map[string]interface{}{
		"vt": []interface{}{"a\"b", nil, "ü\n<&>", ""},
		"vn": []interface{}{float64(1), nil, float64(3), nil},
		"vl": nil,
	}
}

// fdIn: the input object of A.echo
type fdIn struct {
	Tags  []*string `json:"tags"`
	Nums  []*int64  `json:"nums"`
	Label *string   `json:"label"`
}

// fdEchoHash: what A.echo answers: a number that depends on every detail of the argument as it arrived
func fdEchoHash(id int64, in fdIn) int64 {
	b, _ := json.Marshal(in)
	h := fnv.New32a()
	h.Write(b)
	return id*1000000 + int64(h.Sum32()%100000)
}

var fdUnionRe = regexp.MustCompile(`\bus\b`)

// A has two key fields: services that declare both are handed both; others find an A from its id alone
type A struct {
	Id  int64
	Org int64
}
type B struct{ Id int64 }

func fdOrg(id int64) int64 { return id%3 + 1 }

type fdAKeyID struct{ Id int64 }
type fdAKeyFull struct {
	Id  int64
	Org *int64
}

// fdMissingKey counts keys that reached a service without a field the service declares as key
var fdMissingKey int64

type fdU struct {
	schemabuilder.Union
	*A
	*B
}

// fdStore: the data every service and the monolith read
type fdStore struct {
	A map[int64]*fdARec
	B map[int64]*fdBRec
	// roots
	RootAs []int64 // 0: a null element
	RootBs []int64
	RootU  []int64 // >0: A id; <0: B id
	OneA   int64   // 0: null
}
type fdARec struct {
	V  [3]int64
	B  int64   // link to B, 0: null
	Bs []int64 // 0: null element
}
type fdBRec struct {
	V  [2]int64
	A  int64
	As []int64
}

// the field pool: (type, field); Query fields included
type fdField struct {
	Typ, Name string
}

var fdPool = []fdField{
	{"Query", "as"}, {"Query", "bs"}, {"Query", "us"}, {"Query", "oneA"}, {"Query", "num"},
	{"A", "a0"}, {"A", "a1"}, {"A", "a2"}, {"A", "aPlus"}, {"A", "echo"}, {"A", "b"}, {"A", "bs"},
	{"B", "b0"}, {"B", "b1"}, {"B", "a"}, {"B", "as"},
	{"Mutation", "pickA"},
}

type fdPartition struct {
	Services int                 `json:"services"`
	Owners   map[string][]string `json:"owners"`            // "Typ.field" -> services
	IDOnly   []string            `json:"id_only,omitempty"` // services that declare only `id` as the key of A (never an owner of A.a1, which reads the org it is handed)
}

func (p fdPartition) idOnly(svc string) bool {
	for _, s := range p.IDOnly {
		if s == svc {
			return true
		}
	}
	return false
}

type c06Case struct {
	Store     *fdStore    `json:"store"`
	Partition fdPartition `json:"partition"`
	Queries   []string    `json:"queries"`
}

func (p fdPartition) owns(svc string, f fdField) bool {
	for _, s := range p.Owners[f.Typ+"."+f.Name] {
		if s == svc {
			return true
		}
	}
	return false
}

// fdBuild builds one schema exposing the given fields (all = the monolith) over the store.
func fdBuild(name string, st *fdStore, has func(fdField) bool, federated bool, idOnly bool) *schemabuilder.Schema {
	var sb *schemabuilder.Schema
	if federated {
		sb = schemabuilder.NewSchemaWithName(name)
	} else {
		sb = schemabuilder.NewSchema()
	}
	q := sb.Query()
	needA, needB := false, false
	for _, f := range fdPool {
		if !has(f) {
			continue
		}
		if f.Typ == "A" || f.Name == "as" || f.Name == "oneA" || f.Name == "us" || f.Name == "pickA" || (f.Typ == "B" && (f.Name == "a" || f.Name == "as")) {
			needA = true
		}
		if f.Typ == "B" || f.Name == "bs" || f.Name == "us" || (f.Typ == "A" && (f.Name == "b" || f.Name == "bs")) {
			needB = true
		}
	}
	mkA := func(id int64) *A {
		if id == 0 {
			return nil
		}
		return &A{Id: id, Org: fdOrg(id)}
	}
	mkB := func(id int64) *B {
		if id == 0 {
			return nil
		}
		return &B{Id: id}
	}
	var oa, ob *schemabuilder.Object
	if needA {
		if federated {
			if idOnly {
				oa = sb.Object("A", A{}, schemabuilder.FetchObjectFromKeys(func(args struct{ Keys []fdAKeyID }) []*A {
					out := make([]*A, 0, len(args.Keys))
					for _, k := range args.Keys {
						out = append(out, mkA(k.Id))
					}
					return out
				}))
			} else {
				oa = sb.Object("A", A{}, schemabuilder.FetchObjectFromKeys(func(args struct{ Keys []fdAKeyFull }) []*A {
					out := make([]*A, 0, len(args.Keys))
					for _, k := range args.Keys {
						a := &A{Id: k.Id}
						if k.Org != nil {
							a.Org = *k.Org
						} else {
							atomic.AddInt64(&fdMissingKey, 1)
						}
						out = append(out, a)
					}
					return out
				}))
			}
		} else {
			oa = sb.Object("A", A{})
		}
		oa.Key("id")
	}
	if needB {
		if federated {
			ob = sb.Object("B", B{}, schemabuilder.FetchObjectFromKeys(func(args struct{ Keys []*B }) []*B { return args.Keys }))
		} else {
			ob = sb.Object("B", B{})
		}
		ob.Key("id")
	}
	for _, f := range fdPool {
		if !has(f) {
			continue
		}
		switch f.Typ + "." + f.Name {
		case "Query.as":
			q.FieldFunc("as", func() []*A {
				out := []*A{}
				for _, id := range st.RootAs {
					out = append(out, mkA(id))
				}
				return out
			})
		case "Query.bs":
			q.FieldFunc("bs", func() []*B {
				out := []*B{}
				for _, id := range st.RootBs {
					out = append(out, mkB(id))
				}
				return out
			})
		case "Query.us":
			q.FieldFunc("us", func() []*fdU {
				out := []*fdU{}
				for _, id := range st.RootU {
					if id > 0 {
						out = append(out, &fdU{A: mkA(id)})
					} else {
						out = append(out, &fdU{B: mkB(-id)})
					}
				}
				return out
			})
		case "Query.oneA":
			q.FieldFunc("oneA", func() *A { return mkA(st.OneA) })
		case "Query.num":
			q.FieldFunc("num", func(args struct{ N int64 }) int64 { return args.N * 2 })
		case "A.a0", "A.a2":
			i := int(f.Name[1] - '0')
			oa.FieldFunc(f.Name, func(a *A) int64 { return st.A[a.Id].V[i] })
		case "A.a1": // depends on the second key field, as the service was handed it
			oa.FieldFunc(f.Name, func(a *A) int64 { return st.A[a.Id].V[1] + 1000*a.Org })
		case "A.aPlus":
			oa.FieldFunc("aPlus", func(a *A, args struct{ N int64 }) int64 { return st.A[a.Id].V[0] + args.N })
		case "A.echo":
			oa.FieldFunc("echo", func(a *A, args struct{ In fdIn }) int64 { return fdEchoHash(a.Id, args.In) })
		case "Mutation.pickA":
			// a mutation without side effects (the combined server and the gateway both run it): its result has fields on other services
			sb.Mutation().FieldFunc("pickA", func(args struct{ Id int64 }) *A {
				if _, ok := st.A[args.Id]; !ok {
					return nil
				}
				return mkA(args.Id)
			})
		case "A.b":
			oa.FieldFunc("b", func(a *A) *B { return mkB(st.A[a.Id].B) })
		case "A.bs":
			oa.FieldFunc("bs", func(a *A) []*B {
				out := []*B{}
				for _, id := range st.A[a.Id].Bs {
					out = append(out, mkB(id))
				}
				return out
			})
		case "B.b0", "B.b1":
			i := int(f.Name[1] - '0')
			ob.FieldFunc(f.Name, func(b *B) int64 { return st.B[b.Id].V[i] })
		case "B.a":
			ob.FieldFunc("a", func(b *B) *A { return mkA(st.B[b.Id].A) })
		case "B.as":
			ob.FieldFunc("as", func(b *B) []*A {
				out := []*A{}
				for _, id := range st.B[b.Id].As {
					out = append(out, mkA(id))
				}
				return out
			})
		}
	}
	return sb
}

type fdRecordingClient struct {
	name   string
	inner  federation.ExecutorClient
	mu     *sync.Mutex
	record *[]fdRequest
	idOnly bool      // the service declares only `id` as the key of A
	strays *[]string // key fields handed to a service that does not declare them
}

type fdRequest struct {
	Service string
	Fields  []string // "Typ.field" reached in the sub-query, by walking it against the merged pool
	Query   string
}

func (c *fdRecordingClient) Execute(ctx context.Context, req *federation.QueryRequest) (*federation.QueryResponse, error) {
	c.mu.Lock()
	*c.record = append(*c.record, fdRequest{Service: c.name, Query: fdPrint(req.Query.SelectionSet)})
	// the keys a service is handed only carry the key fields that service declares
	if req.Query.SelectionSet != nil {
		for _, s := range req.Query.SelectionSet.Selections {
			if s.Name != "_federation" || s.SelectionSet == nil {
				continue
			}
			for _, k := range s.SelectionSet.Selections {
				keys, _ := k.UnparsedArgs["keys"].([]interface{})
				for _, key := range keys {
					km, _ := key.(map[string]interface{})
					for field := range km {
						declared := field == "id" || (field == "org" && strings.HasSuffix(k.Name, "_A") && !c.idOnly)
						if !declared && c.strays != nil {
							*c.strays = append(*c.strays, fmt.Sprintf("%s is handed key field %q in %s", c.name, field, k.Name))
						}
					}
				}
			}
		}
	}
	c.mu.Unlock()
	return c.inner.Execute(ctx, req)
}

func fdPrint(ss *graphql.SelectionSet) string {
	if ss == nil {
		return ""
	}
	var parts []string
	for _, s := range ss.Selections {
		p := s.Name
		if s.Alias != s.Name {
			p = s.Alias + ":" + s.Name
		}
		if len(s.UnparsedArgs) > 0 {
			b, _ := json.Marshal(s.UnparsedArgs)
			p += "(" + string(b) + ")"
		}
		if s.SelectionSet != nil {
			p += " " + fdPrint(s.SelectionSet)
		}
		parts = append(parts, p)
	}
	for _, f := range ss.Fragments {
		parts = append(parts, "... on "+f.On+" "+fdPrint(f.SelectionSet))
	}
	return "{ " + strings.Join(parts, " ") + " }"
}

// fdStrip removes __key entries (the diff key of keyed objects: present wherever the serving schema declares a key)
func fdStrip(v interface{}) interface{} {
	switch v := v.(type) {
	case map[string]interface{}:
		o := map[string]interface{}{}
		for k, x := range v {
			if k != "__key" {
				o[k] = fdStrip(x)
			}
		}
		return o
	case []interface{}:
		o := make([]interface{}, len(v))
		for i, x := range v {
			o[i] = fdStrip(x)
		}
		return o
	}
	return v
}

type fdWorld struct {
	gateway  *federation.Executor
	mono     *graphql.Schema
	requests []fdRequest
	strays   []string
	mu       sync.Mutex
	cancel   context.CancelFunc
}

func fdSetup(cs c06Case) (*fdWorld, error) { return fdSetupRefresh(cs, 0) }

// fdSetupRefresh: refreshSeconds > 0 makes the gateway re-fetch all schemas and replace its planner that often
func fdSetupRefresh(cs c06Case, refreshSeconds int64) (*fdWorld, error) {
	w := &fdWorld{}
	execs := map[string]federation.ExecutorClient{}
	for k := 0; k < cs.Partition.Services; k++ {
		name := fmt.Sprintf("s%d", k+1)
		sb := fdBuild(name, cs.Store, func(f fdField) bool { return cs.Partition.owns(name, f) }, true, cs.Partition.idOnly(name))
		schema, err := sb.Build()
		if err != nil {
			return nil, fmt.Errorf("building %s: %v", name, err)
		}
		srv, err := federation.NewServer(schema)
		if err != nil {
			return nil, err
		}
		execs[name] = &fdRecordingClient{name: name, inner: &federation.DirectExecutorClient{Client: srv}, mu: &w.mu, record: &w.requests, idOnly: cs.Partition.idOnly(name), strays: &w.strays}
	}
	ctx, cancel := context.WithCancel(context.Background())
	w.cancel = cancel
	cfg := &federation.SchemaSyncerConfig{SchemaSyncer: federation.NewIntrospectionSchemaSyncer(ctx, execs, nil)}
	if refreshSeconds > 0 {
		cfg.SchemaSyncIntervalSeconds = func(context.Context) int64 { return refreshSeconds }
	}
	e, err := federation.NewExecutor(ctx, execs, cfg)
	if err != nil {
		cancel()
		return nil, fmt.Errorf("gateway: %v", err)
	}
	w.gateway = e
	mono, err := fdBuild("mono", cs.Store, func(fdField) bool { return true }, false, false).Build()
	if err != nil {
		cancel()
		return nil, err
	}
	w.mono = mono
	return w, nil
}

func (w *fdWorld) monolith(query string) (interface{}, error) {
	q, err := graphql.Parse(query, fdVars())
	if err != nil {
		return nil, err
	}
	root := w.mono.Query
	if q.Kind == "mutation" {
		root = w.mono.Mutation
	}
	if err := graphql.PrepareQuery(context.Background(), root, q.SelectionSet); err != nil {
		return nil, err
	}
	v, err := graphql.NewExecutor(graphql.NewImmediateGoroutineScheduler()).Execute(context.Background(), root, nil, q)
	if err != nil {
		return nil, err
	}
	return internal.AsJSON(v), nil
}

func (w *fdWorld) federated(query string) (res interface{}, reqs []fdRequest, err error) {
	q, perr := graphql.Parse(query, fdVars())
	if perr != nil {
		return nil, nil, perr
	}
	w.mu.Lock()
	w.requests = nil
	w.strays = nil
	w.mu.Unlock()
	if p := safely(func() { res, _, err = w.gateway.Execute(context.Background(), q, nil) }); p != nil {
		err = fmt.Errorf("panic: %v", p)
	}
	w.mu.Lock()
	reqs = append([]fdRequest{}, w.requests...)
	w.mu.Unlock()
	if err != nil {
		return nil, reqs, err
	}
	// through JSON, as a client sees it
	b, jerr := json.Marshal(res)
	if jerr != nil {
		return nil, reqs, jerr
	}
	var out interface{}
	json.Unmarshal(b, &out)
	return out, reqs, nil
}

func c06One(c *Ctx, m *Model, cs c06Case) {
	rep := c.Rep
	defer InflightDone()
	w, err := fdSetup(cs)
	if err != nil {
		rep.Fail("harness_error", nil, cs, map[string]interface{}{"error": err.Error()})
		return
	}
	defer w.cancel()
	for _, query := range cs.Queries {
		one := c06Case{Store: cs.Store, Partition: cs.Partition, Queries: []string{query}}
		Inflight(one)
		// the combined server is asked the query with fragments on the union type written out per member
		expanded := c06ExpandUnionFragments(query)
		want, merr := w.monolith(expanded)
		if merr != nil {
			// not a valid query for the combined server: outside the property
			rep.Count("query_rejected_by_monolith")
			continue
		}
		b, _ := json.Marshal(want)
		var wantJ interface{}
		json.Unmarshal(b, &wantJ)
		missingBefore := atomic.LoadInt64(&fdMissingKey)
		got, reqs, gerr := w.federated(query)
		if atomic.LoadInt64(&fdMissingKey) != missingBefore {
			rep.Fail("impl_ne_spec", nil, one, map[string]interface{}{"what": "a sub-query handed a service the key of an object without a key field that service declares (objects cannot be matched back reliably)", "query": query, "requests": reqs})
			if rep.ShouldStop() {
				return
			}
			continue
		}
		w.mu.Lock()
		strays := append([]string{}, w.strays...)
		w.mu.Unlock()
		if len(strays) > 0 {
			rep.Fail("impl_ne_spec", nil, one, map[string]interface{}{"what": "a sub-query hands a service a key field the service does not declare (each sub-query only uses what its service exposes)", "query": query, "strays": strays, "requests": reqs})
			if rep.ShouldStop() {
				return
			}
			continue
		}
		if gerr != nil {
			rep.Fail("impl_ne_spec", c06KF(gerr.Error(), query), one, map[string]interface{}{"what": "the gateway fails on a query the combined server answers", "query": query, "error": firstN(gerr.Error(), 400), "monolith": wantJ, "requests": reqs})
			if rep.ShouldStop() {
				return
			}
			continue
		}
		if Canon(fdStrip(got)) != Canon(fdStrip(wantJ)) {
			// known finding C06-7: the gateway leaves the __typename it selects on every union element for dispatching
			// in the answer; anything beyond that is a new violation
			if trimmed, cut := fdDropExtraTypename(fdStrip(got), fdStrip(wantJ)); cut && Canon(trimmed) == Canon(fdStrip(wantJ)) {
				if c06QuietKnown {
					rep.Count("known_finding_of_C06:union_typename_added")
				} else {
					rep.Fail("impl_ne_spec", []string{"c06_union_typename_added"}, one, map[string]interface{}{"what": "the gateway's answer has a __typename on union elements that the query did not ask for", "query": query, "gateway": fdStrip(got), "monolith": fdStrip(wantJ)})
				}
				got = trimmed
			} else {
				rep.Fail("impl_ne_spec", c06KF("", query), one, map[string]interface{}{"what": "the gateway's answer differs from the combined server's", "query": query, "gateway": fdStrip(got), "monolith": fdStrip(wantJ), "requests": reqs})
				if rep.ShouldStop() {
					return
				}
				continue
			}
		}
		if m != nil && !fdUnionRe.MatchString(query) && !strings.HasPrefix(query, "mutation") {
			c06Model(c, m, w, cs, query, got, wantJ)
		}
		if strings.HasPrefix(query, "mutation") {
			rep.Count("mutation_through_gateway")
		}
		if expanded != query {
			// known finding C06-8: thunder's own executor ignores a fragment whose type condition is the union itself
			if raw, rerr := w.monolith(query); rerr == nil {
				b, _ := json.Marshal(raw)
				var rawJ interface{}
				json.Unmarshal(b, &rawJ)
				if Canon(fdStrip(rawJ)) != Canon(fdStrip(wantJ)) && c06QuietKnown {
					rep.Count("known_finding_of_C06:fragment_on_union_type_ignored")
				} else if Canon(fdStrip(rawJ)) != Canon(fdStrip(wantJ)) {
					rep.Fail("impl_ne_spec", []string{"c06_fragment_on_union_type_ignored"}, one, map[string]interface{}{"what": "the combined server ignores a fragment whose type condition is the union itself (the gateway honours it)", "query": query, "written_out": expanded, "monolith": fdStrip(rawJ), "monolith_written_out": fdStrip(wantJ)})
				}
			}
		}
		rep.Count(fmt.Sprintf("requests=%d", len(reqs)))
		rep.Eval(Canon(one), len(reqs) > 1, map[string]interface{}{"services": cs.Partition.Services, "requests": len(reqs)})
	}
}

func c06KF(errText, query string) []string { return nil }

// c06QuietKnown: when another property's check borrows the gateway comparison (C19), C06's known divergences are
// only counted there; they are C06's findings and are reported by C06's check
var c06QuietKnown = false

// fdDropExtraTypename removes "__typename" entries of got's objects where want's object at the same place has none.
func fdDropExtraTypename(got, want interface{}) (interface{}, bool) {
	cut := false
	var walk func(g, w interface{}) interface{}
	walk = func(g, w interface{}) interface{} {
		switch gv := g.(type) {
		case map[string]interface{}:
			wv, ok := w.(map[string]interface{})
			if !ok {
				return g
			}
			o := map[string]interface{}{}
			for k, x := range gv {
				if _, has := wv[k]; !has && k == "__typename" {
					cut = true
					continue
				}
				o[k] = walk(x, wv[k])
			}
			return o
		case []interface{}:
			wv, ok := w.([]interface{})
			if !ok || len(wv) != len(gv) {
				return g
			}
			o := make([]interface{}, len(gv))
			for i := range gv {
				o[i] = walk(gv[i], wv[i])
			}
			return o
		}
		return g
	}
	return walk(got, want), cut
}

// c06Repro: the reproducers of the recorded findings on one fixed world (C06-7 is known; the others are fixed and must stay so)
func c06Repro(rep *Report) {
	st := &fdStore{A: map[int64]*fdARec{1: {V: [3]int64{1, 11, 21}, B: 0, Bs: []int64{0, 1}}, 2: {V: [3]int64{2, 12, 22}, B: 1}},
		B: map[int64]*fdBRec{1: {V: [2]int64{30, 41}, A: 0, As: []int64{2}}}, RootAs: []int64{1, 0, 2}, RootBs: []int64{1}, RootU: []int64{1, -1}, OneA: 1}
	owners := map[string][]string{}
	for _, f := range fdPool {
		owners[f.Typ+"."+f.Name] = []string{"s1"}
	}
	owners["A.a0"] = []string{"s2"}
	owners["A.aPlus"] = []string{"s2"}
	owners["B.b1"] = []string{"s2"}
	cs := c06Case{Store: st, Partition: fdPartition{Services: 2, Owners: owners}}
	w, err := fdSetup(cs)
	if err != nil {
		return
	}
	defer w.cancel()
	run := func(id, query string, known bool) {
		want, merr := w.monolith(query)
		if merr != nil {
			return
		}
		b, _ := json.Marshal(want)
		var wantJ interface{}
		json.Unmarshal(b, &wantJ)
		got, _, gerr := w.federated(query)
		fails := gerr != nil || Canon(fdStrip(got)) != Canon(fdStrip(wantJ))
		rep.Repros[id] = Repro{Fails: fails, Detail: fmt.Sprintf("query %s: gateway %s (error %v), monolith %s", query, Canon(fdStrip(got)), gerr, Canon(fdStrip(wantJ)))}
	}
	run("C06-1", "query Q { as { b { b1 } } }", false)
	run("C06-2", "query Q { bs { b1 @skip(if: true) } bs { b1 } x: bs { id } x: bs @include(if: false) { y: b0 } }", false)
	run("C06-3", "query Q { oneA { id } oneA { aPlus(n: 1) @include(if: false) aPlus(n: 1) } }", false)
	run("C06-4", "query Q { y: __typename }", false)
	run("C06-7", "query Q { us { ... on A { id } } }", true)
	// C06-8: the combined server answers the query and its per-member spelling differently
	q8 := "query Q { us { ... on fdU { ... on A { id } } } }"
	if raw, e1 := w.monolith(q8); e1 == nil {
		if exp, e2 := w.monolith(c06ExpandUnionFragments(q8)); e2 == nil {
			rep.Repros["C06-8"] = Repro{Fails: Canon(internalJSON(raw)) != Canon(internalJSON(exp)), Detail: fmt.Sprintf("%s: combined server %s; written out per member %s", q8, Canon(internalJSON(raw)), Canon(internalJSON(exp)))}
		}
	}
}

func internalJSON(v interface{}) interface{} {
	b, _ := json.Marshal(v)
	var out interface{}
	json.Unmarshal(b, &out)
	return fdStrip(out)
}

// c06Refresh: requests from several goroutines while the gateway refreshes its schema every second
func c06Refresh(c *Ctx, r *Rand, d time.Duration) {
	rep := c.Rep
	cs := c06Case{Store: c06GenStore(r), Partition: c06GenPartition(r)}
	w, err := fdSetupRefresh(cs, 1)
	if err != nil {
		rep.Fail("harness_error", nil, cs, map[string]interface{}{"error": err.Error()})
		return
	}
	defer w.cancel()
	type job struct {
		query string
		want  interface{}
	}
	var jobs []job
	for k := 0; k < 40; k++ {
		q := c06GenQuery(r)
		want, merr := w.monolith(c06ExpandUnionFragments(q))
		if merr != nil {
			continue
		}
		b, _ := json.Marshal(want)
		var wantJ interface{}
		json.Unmarshal(b, &wantJ)
		jobs = append(jobs, job{q, fdStrip(wantJ)})
	}
	deadline := time.Now().Add(d)
	var wg sync.WaitGroup
	var n int64
	for g := 0; g < 4; g++ {
		wg.Add(1)
		go func(g int) {
			defer wg.Done()
			for i := g; time.Now().Before(deadline) && !rep.ShouldStop(); i++ {
				j := jobs[i%len(jobs)]
				q, perr := graphql.Parse(j.query, fdVars())
				if perr != nil {
					continue
				}
				var res interface{}
				var gerr error
				if p := safely(func() { res, _, gerr = w.gateway.Execute(context.Background(), q, nil) }); p != nil {
					gerr = fmt.Errorf("panic: %v", p)
				}
				one := c06Case{Store: cs.Store, Partition: cs.Partition, Queries: []string{j.query}}
				if gerr != nil {
					rep.Fail("impl_ne_spec", nil, one, map[string]interface{}{"what": "the gateway fails on a query while it refreshes its schema in the background", "query": j.query, "error": firstN(gerr.Error(), 400)})
					return
				}
				b, _ := json.Marshal(res)
				var got interface{}
				json.Unmarshal(b, &got)
				if trimmed, cut := fdDropExtraTypename(fdStrip(got), j.want); cut && Canon(trimmed) == Canon(j.want) {
					rep.Count("refresh:known_finding_c06_union_typename_added")
				} else if Canon(fdStrip(got)) != Canon(j.want) {
					rep.Fail("impl_ne_spec", nil, one, map[string]interface{}{"what": "the gateway's answer differs from the combined server's while it refreshes its schema in the background", "query": j.query, "gateway": fdStrip(got), "monolith": j.want})
					return
				}
				atomic.AddInt64(&n, 1)
			}
		}(g)
	}
	wg.Wait()
	rep.Count(fmt.Sprintf("requests_during_refresh~%d", atomic.LoadInt64(&n)/1000*1000))
	rep.Eval("refresh:"+Canon(cs.Partition), true, map[string]interface{}{"requests_during_refresh": atomic.LoadInt64(&n), "seconds": d.Seconds()})
}

// ---- generators ---------------------------------------------------------------------------------------

func c06GenStore(r *Rand) *fdStore {
	st := &fdStore{A: map[int64]*fdARec{}, B: map[int64]*fdBRec{}}
	nA, nB := 1+r.Intn(4), 1+r.Intn(4)
	link := func(n int) int64 {
		if r.Chance(0.25) {
			return 0
		}
		return int64(1 + r.Intn(n))
	}
	links := func(n int) []int64 {
		out := []int64{}
		for k := r.Intn(4); k > 0; k-- {
			out = append(out, link(n))
		}
		return out
	}
	for i := 1; i <= nA; i++ {
		st.A[int64(i)] = &fdARec{V: [3]int64{int64(r.Intn(5)), int64(10 + r.Intn(5)), int64(20 + i)}, B: link(nB), Bs: links(nB)}
	}
	for i := 1; i <= nB; i++ {
		st.B[int64(i)] = &fdBRec{V: [2]int64{int64(30 + r.Intn(5)), int64(40 + i)}, A: link(nA), As: links(nA)}
	}
	st.RootAs = links(nA)
	st.RootBs = links(nB)
	for k := r.Intn(4); k > 0; k-- {
		if r.Bool() {
			st.RootU = append(st.RootU, int64(1+r.Intn(nA)))
		} else {
			st.RootU = append(st.RootU, -int64(1+r.Intn(nB)))
		}
	}
	st.OneA = link(nA)
	return st
}

func c06GenPartition(r *Rand) fdPartition {
	p := fdPartition{Services: 2 + r.Intn(2), Owners: map[string][]string{}}
	for _, f := range fdPool {
		var owners []string
		first := r.Intn(p.Services)
		owners = append(owners, fmt.Sprintf("s%d", first+1))
		if f.Typ != "Query" && f.Typ != "Mutation" && r.Chance(0.2) {
			second := (first + 1 + r.Intn(p.Services-1)) % p.Services
			owners = append(owners, fmt.Sprintf("s%d", second+1))
			sort.Strings(owners)
		}
		p.Owners[f.Typ+"."+f.Name] = owners
	}
	for k := 0; k < p.Services; k++ {
		svc := fmt.Sprintf("s%d", k+1)
		if !p.owns(svc, fdField{"A", "a1"}) && r.Chance(0.6) {
			p.IDOnly = append(p.IDOnly, svc)
		}
	}
	return p
}

// a named fragment: unaliased fields only, so that it can be spread at any place whose aliases it agrees with
type c06FragField struct {
	name, args, child string
	sub               []c06FragField
}
type c06Frag struct {
	name, typ string
	fields    []c06FragField
	used      bool
}

func (g *c06QGen) genFragFields(typ string, depth int) []c06FragField {
	r := g.r
	var out []c06FragField
	seen := map[string]bool{}
	for k := 1 + r.Intn(3); k > 0; k-- {
		var f c06FragField
		switch typ {
		case "A":
			f.name = []string{"id", "a0", "a1", "a2", "aPlus", "__typename", "b", "bs"}[r.Intn(8)]
		case "B":
			f.name = []string{"id", "b0", "b1", "__typename", "a", "as"}[r.Intn(6)]
		}
		if seen[f.name] {
			continue
		}
		seen[f.name] = true
		if f.name == "aPlus" {
			f.args = "(n: 1)"
		}
		switch f.name {
		case "b", "bs":
			f.child = "B"
		case "a", "as":
			f.child = "A"
		}
		if f.child != "" {
			if depth == 0 {
				continue
			}
			f.sub = g.genFragFields(f.child, depth-1)
			if len(f.sub) == 0 {
				f.sub = []c06FragField{{name: "id"}}
			}
		}
		out = append(out, f)
	}
	return out
}

func c06PrintFragFields(fs []c06FragField) string {
	var parts []string
	for _, f := range fs {
		p := f.name + f.args
		if f.child != "" {
			p += " { " + c06PrintFragFields(f.sub) + " }"
		}
		parts = append(parts, p)
	}
	return strings.Join(parts, " ")
}

// fits: spreading the fields at path does not make an alias stand for two different fields
func (g *c06QGen) fits(fs []c06FragField, path string) bool {
	for _, f := range fs {
		if prev, ok := g.at(path)[f.name]; ok && prev != f.name+f.args {
			return false
		}
		if f.child != "" && !g.fits(f.sub, path+"/"+f.name) {
			return false
		}
	}
	return true
}

func (g *c06QGen) commit(fs []c06FragField, path string) {
	for _, f := range fs {
		g.at(path)[f.name] = f.name + f.args
		if f.child != "" {
			g.commit(f.sub, path+"/"+f.name)
		}
	}
}

// spread: a spread of one of the query's named fragments on typ, if one fits here
func (g *c06QGen) spread(typ, path string) string {
	for _, fr := range g.frags {
		if fr.typ == typ && g.r.Chance(0.5) && g.fits(fr.fields, path) {
			g.commit(fr.fields, path)
			fr.used = true
			return " ..." + fr.name + g.dirs()
		}
	}
	return ""
}

type c06QGen struct {
	frags []*c06Frag
	r     *Rand
	// used[path][alias] = "name(args)" the alias stands for on the object at that response path: occurrences that
	// the server merges (same path) must agree on what an alias means
	used map[string]map[string]string
}

func (g *c06QGen) at(path string) map[string]string {
	if g.used[path] == nil {
		g.used[path] = map[string]string{}
	}
	return g.used[path]
}

func (g *c06QGen) dirs() string {
	switch g.r.Intn(12) {
	case 0:
		return " @skip(if: false)"
	case 1:
		return " @include(if: true)"
	case 2:
		return " @skip(if: true)"
	case 3:
		return " @include(if: false)"
	}
	return ""
}

// selections on an object type ("A", "B", "Query") reached at response path `path`
func (g *c06QGen) sels(typ string, depth int, path string) string {
	r := g.r
	var parts []string
	n := 1 + r.Intn(4)
	usedAlias := g.at(path)
	for i := 0; i < n; i++ {
		alias := ""
		if r.Chance(0.3) {
			alias = []string{"x", "y", "z"}[r.Intn(3)]
		}
		var scal, objs []string
		switch typ {
		case "A":
			scal, objs = []string{"id", "a0", "a1", "a2", "aPlus", "echo", "__typename"}, []string{"b", "bs"}
		case "B":
			scal, objs = []string{"id", "b0", "b1", "__typename"}, []string{"a", "as"}
		case "Query":
			scal, objs = []string{"num", "__typename"}, []string{"as", "bs", "us", "oneA", "as", "bs"}
		}
		var name, args string
		isObj := depth > 0 && ((typ == "Query" && r.Chance(0.8)) || (typ != "Query" && r.Chance(0.4))) && len(objs) > 0
		if isObj {
			name = objs[r.Intn(len(objs))]
		} else {
			name = scal[r.Intn(len(scal))]
			if name == "aPlus" || name == "num" {
				args = fmt.Sprintf("(n: %d)", r.Intn(3))
			}
			if name == "echo" {
				// an input object with lists: by literal (quotes, unicode, a number above 2^53) and by variables
				// (null elements, a null field)
				args = []string{
					`(in: {tags: ["a\"b", "ü"], nums: [1, 2, 9007199254740993]})`,
					`(in: {tags: $vt, nums: $vn, label: $vl})`,
					`(in: {tags: [], nums: $vn, label: "x y"})`,
					`(in: {nums: [], tags: $vt})`,
				}[r.Intn(4)]
			}
		}
		if alias == "" {
			alias = name
		}
		if prev, ok := usedAlias[alias]; ok && prev != name+args {
			continue // an alias must not stand for two different fields
		}
		usedAlias[alias] = name + args
		sub := ""
		if isObj {
			child := path + "/" + alias
			switch name {
			case "b", "bs":
				sub = " { " + g.body("B", depth-1, child) + " }"
			case "a", "oneA":
				sub = " { " + g.body("A", depth-1, child) + " }"
			case "as":
				sub = " { " + g.body("A", depth-1, child) + " }"
			case "us":
				sub = " { " + g.unionBody(depth-1, child) + " }"
			}
			if typ == "Query" && name == "bs" {
				sub = " { " + g.body("B", depth-1, child) + " }"
			}
		}
		p := name
		if alias != name {
			p = alias + ": " + name
		}
		parts = append(parts, p+args+g.dirs()+sub)
	}
	if len(parts) == 0 {
		if typ == "Query" {
			parts = append(parts, "num(n: 1)")
			usedAlias["num"] = "num(n: 1)"
		} else {
			parts = append(parts, "id")
		}
	}
	return strings.Join(parts, " ")
}

// body: selections plus inline fragments on the same type (nested), repeating aliases
func (g *c06QGen) body(typ string, depth int, path string) string {
	s := g.sels(typ, depth, path)
	s += g.spread(typ, path)
	for k := 0; k < 2; k++ {
		if g.r.Chance(0.25) {
			s += " ... on " + typ + g.dirs() + " { " + g.body(typ, depth, path) + " }"
		}
	}
	return s
}

func (g *c06QGen) unionBody(depth int, path string) string {
	var parts []string
	if g.r.Chance(0.5) {
		parts = append(parts, "__typename")
		g.at(path + "#A")["__typename"] = "__typename"
		g.at(path + "#B")["__typename"] = "__typename"
	}
	for k := 1 + g.r.Intn(3); k > 0; k-- {
		t := []string{"A", "B"}[g.r.Intn(2)]
		parts = append(parts, "... on "+t+g.dirs()+" { "+g.body(t, depth, path+"#"+t)+" }")
	}
	if depth > 0 && g.r.Chance(0.25) {
		// a fragment whose type condition is the union itself, with its own directives
		parts = append(parts, "... on fdU"+g.dirs()+" { "+g.unionBody(depth-1, path)+" }")
	}
	return strings.Join(parts, " ")
}

// c06ExpandUnionFragments rewrites every fragment whose type condition is the union itself into the fragments
// on its members that it stands for: `... on fdU D { __typename ... on A X {..} ... on B Y {..} }` becomes
// `... on A D { __typename ... on A X {..} } ... on B D { __typename ... on B Y {..} }` (the same query by the
// GraphQL rules, in a form thunder's own executor understands; see known finding C06-8).
func c06ExpandUnionFragments(q string) string {
	const head = "... on fdU"
	for {
		i := strings.LastIndex(q, head) // innermost first: the last occurrence contains no other
		if i < 0 {
			return q
		}
		open := strings.Index(q[i:], "{") + i
		dirs := q[i+len(head) : open]
		depth, end := 0, -1
		for j := open; j < len(q); j++ {
			if q[j] == '{' {
				depth++
			} else if q[j] == '}' {
				depth--
				if depth == 0 {
					end = j
					break
				}
			}
		}
		body := q[open+1 : end]
		// top-level items of the body
		var items []string
		for k := 0; k < len(body); {
			for k < len(body) && body[k] == ' ' {
				k++
			}
			if k >= len(body) {
				break
			}
			start := k
			if strings.HasPrefix(body[k:], "...") {
				d := 0
				for ; k < len(body); k++ {
					if body[k] == '{' {
						d++
					} else if body[k] == '}' {
						d--
						if d == 0 {
							k++
							break
						}
					}
				}
			} else {
				for k < len(body) && body[k] != ' ' {
					k++
				}
			}
			items = append(items, strings.TrimSpace(body[start:k]))
		}
		var out []string
		for _, m := range []string{"A", "B"} {
			var keep []string
			for _, it := range items {
				if !strings.HasPrefix(it, "...") || strings.HasPrefix(it, "... on "+m+" ") {
					keep = append(keep, it)
				}
			}
			if len(keep) > 0 {
				out = append(out, "... on "+m+dirs+"{ "+strings.Join(keep, " ")+" }")
			}
		}
		q = q[:i] + strings.Join(out, " ") + q[end+1:]
	}
}

func c06GenQuery(r *Rand) string {
	g := &c06QGen{r: r, used: map[string]map[string]string{}}
	if r.Chance(0.35) {
		for k := 1 + r.Intn(2); k > 0; k-- {
			typ := []string{"A", "B"}[r.Intn(2)]
			g.frags = append(g.frags, &c06Frag{name: fmt.Sprintf("F%d", k), typ: typ, fields: g.genFragFields(typ, 1+r.Intn(2))})
		}
	}
	q := "query Q { " + g.sels("Query", 1+r.Intn(3), "") + " }"
	if r.Chance(0.12) {
		// a mutation whose result has fields on other services
		q = fmt.Sprintf("mutation M { pickA(id: %d) { %s } }", 1+r.Intn(4), g.body("A", 1+r.Intn(2), "/pickA"))
	}
	if strings.Contains(q, "$v") {
		q = strings.Replace(q, " {", "($vt: [String], $vn: [Int], $vl: String) {", 1)
	}
	for _, fr := range g.frags {
		if fr.used && len(fr.fields) > 0 {
			q += " fragment " + fr.name + " on " + fr.typ + " { " + c06PrintFragFields(fr.fields) + " }"
		}
	}
	return q
}

func runC06(c *Ctx) error {
	m, err := StartModel("C06")
	if err != nil {
		return err
	}
	defer m.Close()
	c.Rep.Rule = "random partitions of a pool of 15 fields (Query roots, two federated object types with scalar fields, a field with an argument, links and lists of links with nulls, a union of both) over 2-3 real federation servers (some fields served by two services) x random stores x random valid queries (aliases, the same alias repeated with different sub-selections, nested inline fragments, union fragments, __typename, @skip/@include on fields and fragments, arguments, multi-hop plans); the real federation.Executor's answer (through JSON) is compared with a monolith graphql schema serving all fields over the same data; every sub-query is executed by the receiving real server, which rejects fields or arguments it does not expose"
	if c.Replay != "" {
		var f struct {
			Case c06Case `json:"case"`
		}
		b, err := os.ReadFile(c.Replay)
		if err != nil {
			return err
		}
		if err := json.Unmarshal(b, &f); err != nil {
			return err
		}
		c06One(c, m, f.Case)
		fmt.Printf("replay: %d failures\n", len(c.Rep.Failures))
		return nil
	}
	c06Repro(c.Rep)
	r := c.Rng
	rr := r.Fork()
	n := c.N(60, 3000)
	for i := 0; i < n && !c.Rep.ShouldStop(); i++ {
		cs := c06Case{Store: c06GenStore(r), Partition: c06GenPartition(r)}
		for k := 0; k < 25; k++ {
			cs.Queries = append(cs.Queries, c06GenQuery(r))
		}
		c06One(c, m, cs)
	}
	// requests while the schema is refreshed in the background (at least two refreshes)
	if !c.Rep.ShouldStop() {
		c06Refresh(c, rr, time.Duration(c.N(2300, 8000))*time.Millisecond)
	}
	return nil
}
