package main

// C14, type shapes: a schema made of the Go type shapes the builder accepts (named scalars, enums, bytes, time,
// text marshalers by value and by pointer, pointers to scalars, slices of all of these, value and pointer
// structs, methods returning (T, error) / *T), populated with zero, empty and nil values. The schema the
// server advertises through introspection is read back and every response is checked against it, directly:
// null only where the advertised type is nullable, lists where lists are advertised, JSON scalars of the
// advertised kind, enum values among the advertised values, objects with exactly the selected fields.

import (
	"context"
	"encoding/json"
	"fmt"
	"net"
	"time"

	"github.com/samsarahq/thunder/graphql"
	"github.com/samsarahq/thunder/graphql/introspection"
	"github.com/samsarahq/thunder/graphql/schemabuilder"
	"github.com/samsarahq/thunder/internal"
)

type zooEnum int32
type zooNamedS string
type zooNamedU8 uint8
type zooNamedF float32

type zooText struct{ V string }

// zooLevel: a named integer type that marshals itself as text
type zooLevel int

func (l zooLevel) MarshalText() ([]byte, error) { return []byte(fmt.Sprintf("level-%d", int(l))), nil }

func (t zooText) MarshalText() ([]byte, error) { return []byte(t.V), nil }

type zooInner struct {
	N  int64
	S  *string
	E  zooEnum
	Tx zooText
}

// zooCell: reachable only through a list of lists
type zooCell struct {
	Label string
	N     int64
}

type zooItem struct {
	Id   int64 `graphql:",key"`
	I8   int8
	U16  uint16
	F32  float32
	F64  float64
	B    bool
	S    string
	By   []byte
	T    time.Time
	E    zooEnum
	NS   zooNamedS
	NU   zooNamedU8
	NF   zooNamedF
	Tx   zooText
	Lv   zooLevel
	PTx  *zooText
	IP   net.IP
	PI   *int64
	PS   *string
	PB   *bool
	PE   *zooEnum
	PT   *time.Time
	Ls   []string
	Le   []zooEnum
	Lp   []*int64
	Lt   []zooText
	In   zooInner
	PIn  *zooInner
	LIn  []zooInner
	LPIn []*zooInner
}

func zooSchema(items []*zooItem) (*graphql.Schema, error) {
	sb := schemabuilder.NewSchema()
	sb.Enum(zooEnum(0), map[string]zooEnum{"ZERO": 0, "ONE": 1, "TWO": 2})
	obj := sb.Object("zooItem", zooItem{})
	obj.FieldFunc("self", func(it *zooItem) *zooItem { return it })
	obj.FieldFunc("maybe", func(it *zooItem) (*zooInner, error) {
		if it.Id%2 == 0 {
			return nil, nil
		}
		return &it.In, nil
	})
	obj.FieldFunc("value", func(it *zooItem) (zooInner, error) { return it.In, nil })
	obj.FieldFunc("texts", func(it *zooItem) []*zooText { return []*zooText{&it.Tx, nil, it.PTx} })
	sb.Object("zooInner", zooInner{})
	q := sb.Query()
	q.FieldFunc("items", func(ctx context.Context) []*zooItem { return items })
	q.FieldFunc("values", func(ctx context.Context) []zooItem {
		out := []zooItem{}
		for _, it := range items {
			if it != nil {
				out = append(out, *it)
			}
		}
		return out
	})
	q.FieldFunc("first", func(ctx context.Context) *zooItem {
		if len(items) == 0 {
			return nil
		}
		return items[0]
	})
	q.FieldFunc("grid", func(ctx context.Context) [][]zooCell {
		return [][]zooCell{{{Label: "a", N: 1}, {Label: "b", N: 2}}, {}, {{Label: "c", N: int64(len(items))}}}
	})
	sb.Mutation()
	return sb.Build()
}

func zooGenInner(r *Rand) zooInner {
	in := zooInner{N: int64(r.Intn(3)), E: zooEnum(r.Intn(3))}
	if r.Bool() {
		s := []string{"", "x"}[r.Intn(2)]
		in.S = &s
	}
	if r.Bool() {
		in.Tx = zooText{V: []string{"", "t"}[r.Intn(2)]}
	}
	return in
}

func zooGenItem(r *Rand, id int64) *zooItem {
	if r.Chance(0.1) {
		return nil
	}
	it := &zooItem{Id: id}
	if r.Chance(0.7) { // otherwise: all zero values
		it.I8, it.U16, it.F32, it.F64, it.B = int8(r.Intn(5)-2), uint16(r.Intn(3)), float32(r.Intn(3))/2, float64(r.Intn(3))/4, r.Bool()
		it.S = []string{"", "s"}[r.Intn(2)]
		if r.Bool() {
			it.By = []byte{}
			if r.Bool() {
				it.By = []byte("by")
			}
		}
		if r.Bool() {
			it.T = time.Unix(int64(r.Intn(1000000)), 0).UTC()
		}
		it.E, it.NS, it.NU, it.NF = zooEnum(r.Intn(3)), zooNamedS([]string{"", "n"}[r.Intn(2)]), zooNamedU8(r.Intn(3)), zooNamedF(r.Intn(3))
		it.Tx = zooText{V: []string{"", "tx"}[r.Intn(2)]}
		if r.Bool() {
			it.PTx = &zooText{V: []string{"", "ptx"}[r.Intn(2)]}
		}
		if r.Bool() {
			it.IP = net.IPv4(10, 0, 0, byte(r.Intn(4)))
		}
		if r.Bool() {
			v := int64(r.Intn(3))
			it.PI = &v
		}
		if r.Bool() {
			v := []string{"", "ps"}[r.Intn(2)]
			it.PS = &v
		}
		if r.Bool() {
			v := r.Bool()
			it.PB = &v
		}
		if r.Bool() {
			v := zooEnum(r.Intn(3))
			it.PE = &v
		}
		if r.Bool() {
			v := time.Unix(int64(r.Intn(1000000)), 0).UTC()
			it.PT = &v
		}
		for k := r.Intn(3); k > 0; k-- {
			it.Ls = append(it.Ls, []string{"", "l"}[r.Intn(2)])
			it.Le = append(it.Le, zooEnum(r.Intn(3)))
			if r.Bool() {
				v := int64(k)
				it.Lp = append(it.Lp, &v)
			} else {
				it.Lp = append(it.Lp, nil)
			}
			it.Lt = append(it.Lt, zooText{V: []string{"", "lt"}[r.Intn(2)]})
			it.LIn = append(it.LIn, zooGenInner(r))
			if r.Bool() {
				in := zooGenInner(r)
				it.LPIn = append(it.LPIn, &in)
			} else {
				it.LPIn = append(it.LPIn, nil)
			}
		}
		it.In = zooGenInner(r)
		if r.Bool() {
			in := zooGenInner(r)
			it.PIn = &in
		}
	}
	return it
}

const zooInnerSel = "{ n s e tx }"

var zooItemFields = []string{"id", "i8", "u16", "f32", "f64", "b", "s", "by", "t", "e", "nS", "nU", "nF", "tx", "lv", "pTx", "iP", "pI", "pS", "pB", "pE", "pT", "ls", "le", "lp", "lt",
	"in " + zooInnerSel, "pIn " + zooInnerSel, "lIn " + zooInnerSel, "lPIn " + zooInnerSel, "maybe " + zooInnerSel, "value " + zooInnerSel, "texts", "__typename"}

// zooConform checks a JSON value against an advertised type under a selection; returns "" or what is wrong.
func zooConform(types map[string]*introFull, t *introType, v interface{}, sel *graphql.SelectionSet, path string) string {
	switch t.Kind {
	case "NON_NULL":
		if v == nil {
			return path + ": null where " + zooTypeString(t) + " is advertised"
		}
		return zooConform(types, t.OfType, v, sel, path)
	case "LIST":
		if v == nil {
			return ""
		}
		l, ok := v.([]interface{})
		if !ok {
			return fmt.Sprintf("%s: %T where a list is advertised", path, v)
		}
		for i, e := range l {
			// thunder marks list entries non-null whatever they are: nulls in lists are excepted by the property
			et := t.OfType
			if et.Kind == "NON_NULL" && e == nil {
				continue
			}
			if bad := zooConform(types, et, e, sel, fmt.Sprintf("%s[%d]", path, i)); bad != "" {
				return bad
			}
		}
		return ""
	}
	if v == nil {
		return ""
	}
	full := types[t.Name]
	if full == nil && (t.Kind == "OBJECT" || t.Kind == "ENUM") {
		return fmt.Sprintf("%s: type %s is referred to by a field but is not among the advertised types", path, t.Name)
	}
	switch t.Kind {
	case "SCALAR":
		switch t.Name {
		case "string", "id", "ID", "String":
			if _, ok := v.(string); !ok {
				return fmt.Sprintf("%s: %T where scalar %s is advertised", path, v, t.Name)
			}
		case "bool", "Boolean":
			if _, ok := v.(bool); !ok {
				return fmt.Sprintf("%s: %T where scalar %s is advertised", path, v, t.Name)
			}
		case "bytes", "Time", "time":
			if _, ok := v.(string); !ok {
				return fmt.Sprintf("%s: %T where scalar %s is advertised", path, v, t.Name)
			}
		default: // the numeric scalars
			if _, ok := v.(float64); !ok {
				return fmt.Sprintf("%s: %T where scalar %s is advertised", path, v, t.Name)
			}
		}
		return ""
	case "ENUM":
		s, ok := v.(string)
		if !ok {
			return fmt.Sprintf("%s: %T where enum %s is advertised", path, v, t.Name)
		}
		for _, ev := range full.EnumValues {
			if ev.Name == s {
				return ""
			}
		}
		return fmt.Sprintf("%s: %q is not a value of enum %s", path, s, t.Name)
	case "OBJECT":
		o, ok := v.(map[string]interface{})
		if !ok {
			return fmt.Sprintf("%s: %T where object %s is advertised", path, v, t.Name)
		}
		want := map[string]bool{}
		if sel != nil {
			for _, s := range sel.Selections {
				want[s.Alias] = true
				if s.Name == "__typename" {
					if o[s.Alias] != t.Name {
						return fmt.Sprintf("%s.%s: __typename %v on an object advertised as %s", path, s.Alias, o[s.Alias], t.Name)
					}
					continue
				}
				var ft *introType
				for i := range full.Fields {
					if full.Fields[i].Name == s.Name {
						ft = &full.Fields[i].Type
					}
				}
				if ft == nil {
					return fmt.Sprintf("%s.%s: field %s is not advertised on %s", path, s.Alias, s.Name, t.Name)
				}
				val, present := o[s.Alias]
				if !present {
					return fmt.Sprintf("%s.%s: selected but missing from the response", path, s.Alias)
				}
				if bad := zooConform(types, ft, val, s.SelectionSet, path+"."+s.Alias); bad != "" {
					return bad
				}
			}
		}
		for k := range o {
			if !want[k] && k != "__key" {
				return fmt.Sprintf("%s.%s: in the response but not selected", path, k)
			}
		}
		return ""
	}
	return fmt.Sprintf("%s: advertised kind %s not handled", path, t.Kind)
}

func zooTypeString(t *introType) string {
	switch t.Kind {
	case "NON_NULL":
		return zooTypeString(t.OfType) + "!"
	case "LIST":
		return "[" + zooTypeString(t.OfType) + "]"
	}
	return t.Name
}

// c14Zoo: the type-shape phase of C14 (implementation against the property, directly).
func c14Zoo(c *Ctx, r *Rand, rounds int) {
	rep := c.Rep
	for round := 0; round < rounds && !rep.ShouldStop(); round++ {
		var items []*zooItem
		for k := r.Intn(4); k >= 0; k-- {
			items = append(items, zooGenItem(r, int64(len(items)+1)))
		}
		schema, err := zooSchema(items)
		if err != nil {
			rep.Fail("harness_error", nil, "zoo", map[string]interface{}{"error": err.Error()})
			return
		}
		// what the server advertises
		b, err := introspection.ComputeSchemaJSON(*zooBuilderFor(items))
		if err != nil {
			rep.Fail("harness_error", nil, "zoo", map[string]interface{}{"error": err.Error()})
			return
		}
		var doc struct {
			Schema struct {
				Types []*introFull `json:"types"`
			} `json:"__schema"`
		}
		if err := json.Unmarshal(b, &doc); err != nil {
			rep.Fail("harness_error", nil, "zoo", map[string]interface{}{"error": err.Error()})
			return
		}
		types := map[string]*introFull{}
		for _, t := range doc.Schema.Types {
			types[t.Name] = t
		}
		// the advertised schema is closed: every type a field refers to is itself advertised
		for _, t := range doc.Schema.Types {
			for i := range t.Fields {
				ft := &t.Fields[i].Type
				for ft.OfType != nil {
					ft = ft.OfType
				}
				if ft.Name != "" && types[ft.Name] == nil {
					rep.Fail("impl_ne_spec", nil, "zoo", map[string]interface{}{"what": "type shapes: the advertised schema refers to a type it does not advertise", "type": t.Name, "field": t.Fields[i].Name, "refers_to": ft.Name})
					return
				}
			}
		}
		// a query over a random subset of the fields, under each root
		var picked []string
		for _, f := range zooItemFields {
			if r.Chance(0.6) {
				picked = append(picked, f)
			}
		}
		if len(picked) == 0 {
			picked = []string{"id"}
		}
		body := ""
		for _, f := range picked {
			body += f + " "
		}
		query := "query Z { items { " + body + "self { id tx } } values { " + body + "} first { " + body + "} grid { __typename label n } }"
		cs := map[string]interface{}{"zoo": true, "query": query, "items": items}
		q, err := graphql.Parse(query, map[string]interface{}{})
		if err != nil {
			rep.Fail("harness_error", nil, cs, map[string]interface{}{"error": err.Error()})
			return
		}
		var out interface{}
		var execErr error
		if p := safely(func() {
			if execErr = graphql.PrepareQuery(context.Background(), schema.Query, q.SelectionSet); execErr != nil {
				return
			}
			var v interface{}
			v, execErr = graphql.NewExecutor(graphql.NewImmediateGoroutineScheduler()).Execute(context.Background(), schema.Query, nil, q)
			if execErr == nil {
				jb, _ := json.Marshal(internal.AsJSON(v))
				json.Unmarshal(jb, &out)
			}
		}); p != nil {
			rep.Fail("impl_ne_spec", nil, cs, map[string]interface{}{"what": "type shapes: panic while validating / executing a well-formed query", "panic": firstN(fmt.Sprint(p), 300)})
			return
		}
		if execErr != nil {
			rep.Fail("impl_ne_spec", nil, cs, map[string]interface{}{"what": "type shapes: a well-formed query over the advertised fields fails", "error": firstN(execErr.Error(), 300)})
			return
		}
		qt := &introType{Kind: "OBJECT", Name: "Query"}
		if bad := zooConform(types, qt, out, q.SelectionSet, "$"); bad != "" {
			rep.Fail("impl_ne_spec", nil, cs, map[string]interface{}{"what": "type shapes: the response does not conform to the advertised schema: " + bad, "response": out})
			return
		}
		rep.Count("type_shape_rounds")
	}
}

// c14SharedFragmentArgs: two object types with a field of the same name whose arguments differ in type; a named
// fragment that selects the field with arguments is spread under both (thunder applies a fragment under an object
// parent whatever its type condition). Whatever validation accepts must execute without a type error.
type zooPA struct{ N int64 }
type zooPB struct{ N int64 }

func c14SharedFragmentArgs(c *Ctx) {
	rep := c.Rep
	sb := schemabuilder.NewSchema()
	a := sb.Object("zooPA", zooPA{})
	a.FieldFunc("f", func(x *zooPA, args struct{ X int64 }) int64 { return args.X + 100 })
	a.FieldFunc("g", func(x *zooPA, args struct{ X int64 }) int64 { return args.X + 200 })
	b := sb.Object("zooPB", zooPB{})
	b.FieldFunc("f", func(x *zooPB, args struct{ X string }) string { return "b:" + args.X })
	b.FieldFunc("g", func(x *zooPB, args struct{ X int64 }) int64 { return args.X + 300 })
	q := sb.Query()
	q.FieldFunc("a", func() *zooPA { return &zooPA{} })
	q.FieldFunc("b", func() *zooPB { return &zooPB{} })
	sb.Mutation()
	schema := sb.MustBuild()
	failing := false
	detail := ""
	for _, query := range []string{
		`{ a { ...F } b { ...F } } fragment F on zooPA { f(x: 1) }`,
		`{ b { ...F } a { ...F } } fragment F on zooPA { f(x: 1) }`,
		`{ a { ...F } b { ...F } } fragment F on zooPB { f(x: "s") }`,
		`{ a { ...F } b { ...F } } fragment F on zooPA { g(x: 1) }`,
		`{ a { ...F } } fragment F on zooPA { f(x: 1) }`,
	} {
		cs := map[string]interface{}{"shared_fragment_args": query}
		pq, err := graphql.Parse(query, map[string]interface{}{})
		if err != nil {
			rep.Fail("harness_error", nil, cs, map[string]interface{}{"error": err.Error()})
			return
		}
		var execErr error
		accepted := false
		p := safely(func() {
			if execErr = graphql.PrepareQuery(context.Background(), schema.Query, pq.SelectionSet); execErr != nil {
				return
			}
			accepted = true
			_, execErr = graphql.NewExecutor(graphql.NewImmediateGoroutineScheduler()).Execute(context.Background(), schema.Query, nil, pq)
		})
		if accepted && (p != nil || execErr != nil) {
			failing = true
			detail = fmt.Sprintf("%s: accepted by validation, then %v %v", query, p, firstN(fmt.Sprint(execErr), 160))
			rep.Fail("impl_ne_spec", []string{"c14_shared_fragment_args"}, cs, map[string]interface{}{"what": "a query validation accepted fails at execution for a type reason: a fragment's field arguments were parsed for the first object type only", "detail": detail})
			break
		}
		rep.Count("shared_fragment_args")
	}
	rep.Repros["C14-6"] = Repro{Fails: failing, Detail: detail}
}

// zooBuilderFor: the schemabuilder.Schema (not the built graphql.Schema) is what ComputeSchemaJSON takes
func zooBuilderFor(items []*zooItem) *schemabuilder.Schema {
	sb := schemabuilder.NewSchema()
	sb.Enum(zooEnum(0), map[string]zooEnum{"ZERO": 0, "ONE": 1, "TWO": 2})
	obj := sb.Object("zooItem", zooItem{})
	obj.FieldFunc("self", func(it *zooItem) *zooItem { return it })
	obj.FieldFunc("maybe", func(it *zooItem) (*zooInner, error) { return nil, nil })
	obj.FieldFunc("value", func(it *zooItem) (zooInner, error) { return it.In, nil })
	obj.FieldFunc("texts", func(it *zooItem) []*zooText { return nil })
	sb.Object("zooInner", zooInner{})
	q := sb.Query()
	q.FieldFunc("items", func(ctx context.Context) []*zooItem { return items })
	q.FieldFunc("values", func(ctx context.Context) []zooItem { return nil })
	q.FieldFunc("first", func(ctx context.Context) *zooItem { return nil })
	q.FieldFunc("grid", func(ctx context.Context) [][]zooCell { return nil })
	sb.Mutation()
	return sb
}
