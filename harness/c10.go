package main

// C10 — SQL batching is transparent: each query gets exactly its own rows.

import (
	"context"
	"database/sql/driver"
	"encoding/json"
	"errors"
	"fmt"
	"os"
	"sync"

	"github.com/samsarahq/thunder/batch"
	"github.com/samsarahq/thunder/sqlgen"
)

func init() { register("C10", runC10) }

type c10Int int64

type c10Row struct {
	Id int64 `sql:",primary"`
	A  *int64
	B  int64
	S  string
	P  int64 `sql:",implicitnull"` // C07: the zero value is stored as NULL, and a filter on 0 selects the NULLs
}

// c10RowJ: C10's table has a JSON column on top (C07 shares c10Row and its four columns)
type c10RowJ struct {
	Id int64 `sql:",primary"`
	A  *int64
	B  int64
	S  string
	J  c10J `sql:",json"`
}

// c10J: a column stored as JSON; a filter on it travels as the struct and is compared as the marshalled bytes
type c10J struct{ K int64 }

// c10BadValuer: a filter value its own Valuer rejects
type c10BadValuer struct{}

func (c10BadValuer) Value() (driver.Value, error) { return nil, errors.New("c10: value rejected") }

var c10ColID = map[string]int{"id": 0, "a": 1, "b": 2, "s": 3, "j": 4, "p": 5}

// c10Val: a filter value: payload and the Go representation it travels in
type c10Val struct {
	Rep string `json:"rep"` // int64 | int | ptr | named | nil | string | strptr
	V   int64  `json:"v"`
}

func (v c10Val) goValue() interface{} {
	switch v.Rep {
	case "int64":
		return v.V
	case "int":
		return int(v.V)
	case "ptr":
		x := v.V
		return &x
	case "named":
		return c10Int(v.V)
	case "nil":
		return nil
	case "nilptr":
		var p *int64
		return p
	case "string":
		return fmt.Sprintf("s%d", v.V)
	case "strptr":
		s := fmt.Sprintf("s%d", v.V)
		return &s
	case "json":
		return c10J{K: v.V}
	case "jsonptr":
		return &c10J{K: v.V}
	case "bad":
		return c10BadValuer{}
	}
	return v.V
}

func (v c10Val) enc() interface{} {
	if v.Rep == "nil" || v.Rep == "nilptr" {
		return nil
	}
	ty := map[string]int{"int64": 0, "int": 1, "ptr": 2, "named": 3, "string": 4, "strptr": 5, "json": 6, "jsonptr": 7}[v.Rep]
	return map[string]interface{}{"ty": ty, "v": v.V}
}

type c10KV struct {
	Col string `json:"col"`
	Val c10Val `json:"val"`
}

type c10Case struct {
	Table   [][]int64 `json:"table"` // id, a (-1: NULL), b, s
	Filters [][]c10KV `json:"filters"`
}

func c10Filter(f []c10KV) sqlgen.Filter {
	out := sqlgen.Filter{}
	for _, kv := range f {
		out[kv.Col] = kv.Val.goValue()
	}
	return out
}

func c10EncFilter(f []c10KV) interface{} {
	out := []interface{}{}
	for _, kv := range f {
		out = append(out, []interface{}{c10ColID[kv.Col], kv.Val.enc()})
	}
	return out
}

func c10Ids(rows []*c10RowJ) []int64 {
	out := []int64{}
	for _, r := range rows {
		out = append(out, r.Id)
	}
	return out
}

func c10ModelIds(v interface{}) []int64 {
	out := []int64{}
	for _, r := range v.([]interface{}) {
		for _, kv := range r.([]interface{}) {
			p := kv.([]interface{})
			if toInt64(p[0]) == 0 {
				out = append(out, toInt64(p[1]))
			}
		}
	}
	return out
}

func c10One(c *Ctx, m *Model, cs c10Case) {
	rep := c.Rep
	fdb, conn := newFakeDB()
	fdb.createTable("rows", []string{"id", "a", "b", "s", "j"}, []string{"id"})
	table := []interface{}{}
	for _, r := range cs.Table {
		for len(r) < 5 {
			r = append(r, 0)
		}
		a := driverNull(r[1], r[1] < 0)
		fdb.tables["rows"].Rows = append(fdb.tables["rows"].Rows, map[string]driverValue{"id": r[0], "a": a, "b": r[2], "s": fmt.Sprintf("s%d", r[3]), "j": []byte(fmt.Sprintf(`{"K":%d}`, r[4]))})
		var am interface{}
		if r[1] >= 0 {
			am = r[1]
		}
		table = append(table, []interface{}{[]interface{}{0, r[0]}, []interface{}{1, am}, []interface{}{2, r[2]}, []interface{}{3, r[3]}, []interface{}{4, r[4]}})
	}
	schema := sqlgen.NewSchema()
	schema.MustRegisterType("rows", sqlgen.UniqueId, c10RowJ{})
	db := sqlgen.NewDB(conn, schema)
	k := len(cs.Filters)
	alone := make([][]int64, k)
	aloneErr := make([]error, k)
	for i, f := range cs.Filters {
		var out []*c10RowJ
		aloneErr[i] = db.Query(context.Background(), &out, c10Filter(f), nil)
		alone[i] = c10Ids(out)
	}
	fdb.resetLog()
	ctx := batch.WithBatching(context.Background())
	batched := make([][]int64, k)
	batchedErr := make([]error, k)
	var wg sync.WaitGroup
	var panicked interface{}
	for i := range cs.Filters {
		wg.Add(1)
		go func(i int) {
			defer wg.Done()
			defer func() {
				if p := recover(); p != nil {
					panicked = p
				}
			}()
			var out []*c10RowJ
			batchedErr[i] = db.Query(ctx, &out, c10Filter(cs.Filters[i]), nil)
			batched[i] = c10Ids(out)
		}(i)
	}
	wg.Wait()
	if panicked != nil {
		rep.Fail("impl_ne_spec", nil, cs, map[string]interface{}{"what": "panic in a batched query", "panic": firstN(fmt.Sprint(panicked), 300)})
		return
	}
	nStmts := len(fdb.statements())
	// the model is given every call; a filter sqlgen rejects travels as the marker [[999, null]]
	fsEnc := []interface{}{}
	for _, f := range cs.Filters {
		if c10Valid(f) {
			fsEnc = append(fsEnc, c10EncFilter(f))
		} else {
			fsEnc = append(fsEnc, []interface{}{[]interface{}{999, nil}})
		}
	}
	resp, err := m.Call(map[string]interface{}{"op": "batch", "filters": fsEnc, "table": table})
	if err != nil {
		rep.Fail("harness_error", nil, cs, map[string]interface{}{"error": err.Error()})
		return
	}
	for i := range cs.Filters {
		// the property itself: with batching exactly what the call returns on its own
		if (aloneErr[i] != nil) != (batchedErr[i] != nil) || fmt.Sprint(alone[i]) != fmt.Sprint(batched[i]) {
			rep.Fail("impl_ne_spec", c10KF(cs, i), cs, map[string]interface{}{"what": "a batched query returns other rows than the same query on its own", "query": i, "filter": cs.Filters[i],
				"alone": alone[i], "batched": batched[i], "alone_error": fmt.Sprint(aloneErr[i]), "batched_error": fmt.Sprint(batchedErr[i]), "statements": fdb.statements()})
			return
		}
		ca, cb := resp["callAlone"].([]interface{})[i], resp["callBatched"].([]interface{})[i]
		if (ca == nil) != (cb == nil) {
			rep.Fail("model_ne_spec", nil, cs, map[string]interface{}{"what": "model: a call errs batched but not alone, or the reverse (theorem call_batched_eq_alone)", "query": i})
			return
		}
		if (ca == nil) != (aloneErr[i] != nil) {
			rep.Fail("impl_ne_model", nil, cs, map[string]interface{}{"what": "a query on its own: error expected iff the filter names an unknown column or carries a rejected value", "query": i, "filter": cs.Filters[i], "error": fmt.Sprint(aloneErr[i])})
			return
		}
		if aloneErr[i] != nil {
			rep.Count("invalid_filter_in_batch")
			continue
		}
		mAlone := c10ModelIds(ca)
		mBatched := c10ModelIds(cb)
		if fmt.Sprint(mAlone) != fmt.Sprint(mBatched) {
			rep.Fail("model_ne_spec", nil, cs, map[string]interface{}{"what": "model: the batched call differs from the call alone (theorems batch_eq_alone, call_batched_eq_alone)", "query": i})
			return
		}
		if fmt.Sprint(alone[i]) != fmt.Sprint(mAlone) {
			rep.Fail("impl_ne_model", nil, cs, map[string]interface{}{"what": "rows of a query on its own differ from the model", "query": i, "filter": cs.Filters[i], "impl": alone[i], "model": mAlone})
			return
		}
	}
	rep.Count(fmt.Sprintf("statements_for_%d_queries=%d", k, nStmts))
	rep.Eval(Canon(cs), k > 1, map[string]interface{}{"queries": k, "statements": nStmts})
}

func c10KF(cs c10Case, i int) []string { return nil }

func c10Valid(f []c10KV) bool {
	for _, kv := range f {
		if _, ok := c10ColID[kv.Col]; !ok || kv.Val.Rep == "bad" {
			return false
		}
	}
	return true
}

func c10GenFilter(r *Rand) []c10KV { return c10GenFilterN(r, 8) }

// c10GenFilterN: kinds 0..7 are filters on the four plain columns; 8, 9 use the JSON column; 10 is rejected by sqlgen
func c10GenFilterN(r *Rand, kinds int) []c10KV {
	intRep := func() string { return []string{"int64", "int64", "int", "ptr", "named"}[r.Intn(5)] }
	var f []c10KV
	switch r.Intn(kinds) {
	case 8:
		f = []c10KV{{"j", c10Val{[]string{"json", "jsonptr"}[r.Intn(2)], int64(r.Intn(3))}}}
	case 9:
		f = []c10KV{{"j", c10Val{"json", int64(r.Intn(3))}}, {"b", c10Val{intRep(), int64(r.Intn(3))}}}
	case 10:
		switch r.Intn(3) {
		case 0:
			f = []c10KV{{"zz", c10Val{"int64", int64(r.Intn(3))}}}
		case 1:
			f = []c10KV{{"b", c10Val{"bad", 0}}}
		default:
			f = []c10KV{{"id", c10Val{intRep(), int64(1 + r.Intn(8))}}, {"zz", c10Val{"int64", 0}}}
		}
	case 0:
	case 1, 2:
		f = []c10KV{{"id", c10Val{intRep(), int64(1 + r.Intn(8))}}}
	case 3:
		f = []c10KV{{"b", c10Val{intRep(), int64(r.Intn(3))}}}
	case 4:
		if r.Chance(0.4) {
			f = []c10KV{{"a", c10Val{[]string{"nil", "nilptr"}[r.Intn(2)], 0}}}
		} else {
			f = []c10KV{{"a", c10Val{intRep(), int64(r.Intn(3))}}}
		}
	case 5:
		av := c10Val{intRep(), int64(r.Intn(3))}
		if r.Chance(0.3) {
			av = c10Val{"nil", 0}
		}
		f = []c10KV{{"a", av}, {"b", c10Val{intRep(), int64(r.Intn(3))}}}
	case 6:
		f = []c10KV{{"s", c10Val{[]string{"string", "strptr"}[r.Intn(2)], int64(r.Intn(3))}}}
	case 7:
		f = []c10KV{{"b", c10Val{intRep(), int64(r.Intn(3))}}, {"s", c10Val{"string", int64(r.Intn(3))}}}
	}
	return f
}

func runC10(c *Ctx) error {
	m, err := StartModel("C10")
	if err != nil {
		return err
	}
	defer m.Close()
	c.Rep.Rule = "random tables (0-8 rows, nullable pointer column, small value domains so that filters overlap) x sets of 1-5 filters (every 40th case 90-270) over different column sets (id / b / a / a+b / s / b+s / j (a JSON column, filtered by struct or pointer) / j+b / empty), filters sqlgen rejects (unknown column, a value whose Valuer fails) mixed in, equal filters repeated, values carried as int64, int, *int64, a named integer type, string, *string, nil and typed nil pointers; every filter is queried on its own and then all of them concurrently under batch.WithBatching on the same fake database; rows per call compared (the property), and compared with the Lean model's alone / dispatched"
	c.Rep.Assumptions = append(c.Rep.Assumptions,
		"string comparison is case-sensitive in the fake database and in sqlgen's row tester (MySQL collations are not modelled)",
		"whether concurrent calls end up in one batch is up to the batch timer; the number of statements is recorded")
	if c.Replay != "" {
		var f struct {
			Case c10Case `json:"case"`
		}
		b, err := os.ReadFile(c.Replay)
		if err != nil {
			return err
		}
		if err := json.Unmarshal(b, &f); err != nil {
			return err
		}
		c10One(c, m, f.Case)
		fmt.Printf("replay: %d failures\n", len(c.Rep.Failures))
		return nil
	}
	// corpus: the two shapes of the recorded finding
	c10One(c, m, c10Case{Table: [][]int64{{10, 1, 0, 0}}, Filters: [][]c10KV{{{"id", c10Val{"int", 10}}}, {{"id", c10Val{"int64", 11}}}}})
	c10One(c, m, c10Case{Table: [][]int64{{1, -1, 0, 0}, {2, 5, 0, 0}}, Filters: [][]c10KV{{{"a", c10Val{"nil", 0}}}, {{"id", c10Val{"int64", 2}}}}})
	r := c.Rng
	n := c.N(700, 40000)
	for i := 0; i < n && !c.Rep.ShouldStop(); i++ {
		var cs c10Case
		for id := int64(1); id <= int64(r.Intn(9)); id++ {
			cs.Table = append(cs.Table, []int64{id, int64(r.Intn(4)) - 1, int64(r.Intn(3)), int64(r.Intn(3)), int64(r.Intn(3))})
		}
		k := 1 + r.Intn(5)
		if i%40 == 7 {
			k = 90 + r.Intn(180) // a large batch: more queries than any internal chunk or size limit one might pick
			c.Rep.Count("large_batch")
		}
		for ; k > 0; k-- {
			if len(cs.Filters) > 0 && r.Chance(0.15) {
				cs.Filters = append(cs.Filters, cs.Filters[r.Intn(len(cs.Filters))])
			} else {
				cs.Filters = append(cs.Filters, c10GenFilterN(r, 11))
			}
		}
		c10One(c, m, cs)
	}
	return nil
}
