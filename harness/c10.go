package main

// C10 — SQL batching is transparent: each query gets exactly its own rows.

import (
	"context"
	"database/sql/driver"
	"encoding/json"
	"errors"
	"fmt"
	"os"
	"sort"
	"sync"
	"time"

	"github.com/samsarahq/thunder/batch"
	"github.com/samsarahq/thunder/sqlgen"
)

func init() { register("C10", runC10) }

type c10Int int64

type c10Row struct {
	Id int64 `sql:",primary"`
	A  *int64
	B  int64
	S  string
	P  int64  `sql:",implicitnull"` // C07: the zero value is stored as NULL, and a filter on 0 selects the NULLs
	T  string // C07: T and U hold strings with blanks (argument lists that print alike), Y a blob that may be empty
	U  string
	Y  []byte
}

// c10RowJ: C10's table has a JSON column on top (C07 shares c10Row and its four columns)
type c10RowJ struct {
	Id int64 `sql:",primary"`
	A  *int64
	B  int64
	S  string
	J  c10J   `sql:",json"`
	T  string // T and U hold strings with blanks: value tuples over (u, t) that print alike are different tuples
	U  string
	W  time.Time // an instant; filters name it in another time zone, or with a monotonic clock reading
	F  bool      // filters name it as true / false and as 1 / 0
}

var c10TimeBase = time.Date(2021, 3, 4, 5, 6, 7, 0, time.UTC)

var c10SpaceStrs = []string{"a b", "a", "b c", "c", "<nil>"}

// c10Pair: a table with a composite primary key
type c10Pair struct {
	K1 int64 `sql:",primary"`
	K2 int64 `sql:",primary"`
	V  int64
}

// c10J: a column stored as JSON; a filter on it travels as the struct and is compared as the marshalled bytes
type c10J struct{ K int64 }

// c10BadValuer: a filter value its own Valuer rejects
type c10BadValuer struct{}

func (c10BadValuer) Value() (driver.Value, error) { return nil, errors.New("c10: value rejected") }

var c10ColID = map[string]int{"id": 0, "a": 1, "b": 2, "s": 3, "j": 4, "p": 5, "t": 6, "u": 7, "y": 8, "w": 9, "f": 10}

// c10Val: a filter value: payload and the Go representation it travels in
type c10Val struct {
	Rep string `json:"rep"` // int64 | int | ptr | named | nil | string | strptr
	V   int64  `json:"v"`
}

func (v c10Val) goValue() interface{} {
	switch v.Rep {
	case "int64":
		return v.V
	case "int":
		return int(v.V)
	case "ptr":
		x := v.V
		return &x
	case "named":
		return c10Int(v.V)
	case "nil":
		return nil
	case "nilptr":
		var p *int64
		return p
	case "string":
		return fmt.Sprintf("s%d", v.V)
	case "strptr":
		s := fmt.Sprintf("s%d", v.V)
		return &s
	case "json":
		return c10J{K: v.V}
	case "jsonptr":
		return &c10J{K: v.V}
	case "bad":
		return c10BadValuer{}
	case "sp":
		return c10SpaceStrs[int(v.V)%len(c10SpaceStrs)]
	case "bool":
		return v.V != 0
	case "boolint":
		return int(v.V)
	case "strbytes":
		// a string column's value written as []byte
		return []byte(fmt.Sprintf("s%d", v.V))
	case "time":
		return c10TimeBase.Add(time.Duration(v.V) * time.Second)
	case "timez":
		// the same instant, written in another zone
		return c10TimeBase.Add(time.Duration(v.V) * time.Second).In(time.FixedZone("plus2", 2*3600))
	case "bytes":
		if v.V == 0 {
			return []byte{}
		}
		return []byte("x")
	}
	return v.V
}

func (v c10Val) enc() interface{} {
	if v.Rep == "nil" || v.Rep == "nilptr" {
		return nil
	}
	ty := map[string]int{"int64": 0, "int": 1, "ptr": 2, "named": 3, "string": 4, "strptr": 5, "json": 6, "jsonptr": 7, "sp": 4, "bytes": 8, "time": 9, "timez": 9, "bool": 10, "boolint": 10, "strbytes": 4}[v.Rep]
	if v.Rep == "time" || v.Rep == "timez" {
		return map[string]interface{}{"ty": ty, "v": 200 + v.V}
	}
	if v.Rep == "sp" {
		return map[string]interface{}{"ty": ty, "v": 100 + v.V%int64(len(c10SpaceStrs))}
	}
	return map[string]interface{}{"ty": ty, "v": v.V}
}

type c10KV struct {
	Col string `json:"col"`
	Val c10Val `json:"val"`
}

type c10Case struct {
	Table   [][]int64 `json:"table"` // id, a (-1: NULL), b, s, j, t, u
	Filters [][]c10KV `json:"filters"`
	Order   []int     `json:"order,omitempty"` // per call: 0 no options, 1 OrderBy id DESC, 2 OrderBy b DESC
}

func (cs c10Case) options(i int) *sqlgen.SelectOptions {
	if i >= len(cs.Order) {
		return nil
	}
	switch cs.Order[i] {
	case 1:
		return &sqlgen.SelectOptions{OrderBy: "id DESC"}
	case 2:
		return &sqlgen.SelectOptions{OrderBy: "b DESC"}
	}
	return nil
}

func c10Filter(f []c10KV) sqlgen.Filter {
	out := sqlgen.Filter{}
	for _, kv := range f {
		out[kv.Col] = kv.Val.goValue()
	}
	return out
}

func c10EncFilter(f []c10KV) interface{} {
	out := []interface{}{}
	for _, kv := range f {
		out = append(out, []interface{}{c10ColID[kv.Col], kv.Val.enc()})
	}
	return out
}

func c10Ids(rows []*c10RowJ) []int64 {
	out := []int64{}
	for _, r := range rows {
		out = append(out, r.Id)
	}
	return out
}

func c10ModelIds(v interface{}) []int64 {
	out := []int64{}
	for _, r := range v.([]interface{}) {
		for _, kv := range r.([]interface{}) {
			p := kv.([]interface{})
			if toInt64(p[0]) == 0 {
				out = append(out, toInt64(p[1]))
			}
		}
	}
	return out
}

func c10One(c *Ctx, m *Model, cs c10Case) {
	rep := c.Rep
	fdb, conn := newFakeDB()
	fdb.createTable("rows", []string{"id", "a", "b", "s", "j", "t", "u", "w", "f"}, []string{"id"})
	table := []interface{}{}
	for _, r := range cs.Table {
		for len(r) < 9 {
			r = append(r, 0)
		}
		ti, ui := int(r[5])%len(c10SpaceStrs), int(r[6])%len(c10SpaceStrs)
		a := driverNull(r[1], r[1] < 0)
		fdb.tables["rows"].Rows = append(fdb.tables["rows"].Rows, map[string]driverValue{"id": r[0], "a": a, "b": r[2], "s": fmt.Sprintf("s%d", r[3]), "j": []byte(fmt.Sprintf(`{"K":%d}`, r[4])), "t": c10SpaceStrs[ti], "u": c10SpaceStrs[ui], "w": c10TimeBase.Add(time.Duration(r[7]) * time.Second), "f": r[8] % 2})
		var am interface{}
		if r[1] >= 0 {
			am = r[1]
		}
		table = append(table, []interface{}{[]interface{}{0, r[0]}, []interface{}{1, am}, []interface{}{2, r[2]}, []interface{}{3, r[3]}, []interface{}{4, r[4]}, []interface{}{6, int64(100 + ti)}, []interface{}{7, int64(100 + ui)}, []interface{}{9, 200 + r[7]}, []interface{}{10, r[8] % 2}})
	}
	schema := sqlgen.NewSchema()
	schema.MustRegisterType("rows", sqlgen.UniqueId, c10RowJ{})
	db := sqlgen.NewDB(conn, schema)
	k := len(cs.Filters)
	alone := make([][]int64, k)
	aloneErr := make([]error, k)
	for i, f := range cs.Filters {
		var out []*c10RowJ
		aloneErr[i] = db.Query(context.Background(), &out, c10Filter(f), cs.options(i))
		alone[i] = c10Ids(out)
	}
	fdb.resetLog()
	ctx := batch.WithBatching(context.Background())
	batched := make([][]int64, k)
	batchedErr := make([]error, k)
	var wg sync.WaitGroup
	var panicked interface{}
	for i := range cs.Filters {
		wg.Add(1)
		go func(i int) {
			defer wg.Done()
			defer func() {
				if p := recover(); p != nil {
					panicked = p
				}
			}()
			var out []*c10RowJ
			batchedErr[i] = db.Query(ctx, &out, c10Filter(cs.Filters[i]), cs.options(i))
			batched[i] = c10Ids(out)
		}(i)
	}
	wg.Wait()
	if panicked != nil {
		rep.Fail("impl_ne_spec", nil, cs, map[string]interface{}{"what": "panic in a batched query", "panic": firstN(fmt.Sprint(panicked), 300)})
		return
	}
	nStmts := len(fdb.statements())
	// the model is given every call; a filter sqlgen rejects travels as the marker [[999, null]]
	fsEnc := []interface{}{}
	for _, f := range cs.Filters {
		if c10Valid(f) {
			fsEnc = append(fsEnc, c10EncFilter(f))
		} else {
			fsEnc = append(fsEnc, []interface{}{[]interface{}{999, nil}})
		}
	}
	resp, err := m.Call(map[string]interface{}{"op": "batch", "filters": fsEnc, "table": table})
	if err != nil {
		rep.Fail("harness_error", nil, cs, map[string]interface{}{"error": err.Error()})
		return
	}
	for i := range cs.Filters {
		// the property itself: with batching exactly what the call returns on its own
		if (aloneErr[i] != nil) != (batchedErr[i] != nil) || fmt.Sprint(alone[i]) != fmt.Sprint(batched[i]) {
			rep.Fail("impl_ne_spec", c10KF(cs, i), cs, map[string]interface{}{"what": "a batched query returns other rows than the same query on its own", "query": i, "filter": cs.Filters[i],
				"alone": alone[i], "batched": batched[i], "alone_error": fmt.Sprint(aloneErr[i]), "batched_error": fmt.Sprint(batchedErr[i]), "statements": fdb.statements()})
			return
		}
		ca, cb := resp["callAlone"].([]interface{})[i], resp["callBatched"].([]interface{})[i]
		if (ca == nil) != (cb == nil) {
			rep.Fail("model_ne_spec", nil, cs, map[string]interface{}{"what": "model: a call errs batched but not alone, or the reverse (theorem call_batched_eq_alone)", "query": i})
			return
		}
		if (ca == nil) != (aloneErr[i] != nil) {
			rep.Fail("impl_ne_model", nil, cs, map[string]interface{}{"what": "a query on its own: error expected iff the filter names an unknown column or carries a rejected value", "query": i, "filter": cs.Filters[i], "error": fmt.Sprint(aloneErr[i])})
			return
		}
		if aloneErr[i] != nil {
			rep.Count("invalid_filter_in_batch")
			continue
		}
		mAlone := c10ModelIds(ca)
		mBatched := c10ModelIds(cb)
		if fmt.Sprint(mAlone) != fmt.Sprint(mBatched) {
			rep.Fail("model_ne_spec", nil, cs, map[string]interface{}{"what": "model: the batched call differs from the call alone (theorems batch_eq_alone, call_batched_eq_alone)", "query": i})
			return
		}
		if cs.options(i) != nil {
			// the model returns rows in table order: an ordered call is compared as a set here (its order alone /
			// batched was compared above)
			sa, sm := append([]int64{}, alone[i]...), append([]int64{}, mAlone...)
			sort.Slice(sa, func(x, y int) bool { return sa[x] < sa[y] })
			sort.Slice(sm, func(x, y int) bool { return sm[x] < sm[y] })
			if fmt.Sprint(sa) != fmt.Sprint(sm) {
				rep.Fail("impl_ne_model", nil, cs, map[string]interface{}{"what": "rows of an ordered query on its own differ (as a set) from the model", "query": i, "impl": alone[i], "model": mAlone})
				return
			}
			rep.Count("ordered_call")
			continue
		}
		if fmt.Sprint(alone[i]) != fmt.Sprint(mAlone) {
			rep.Fail("impl_ne_model", nil, cs, map[string]interface{}{"what": "rows of a query on its own differ from the model", "query": i, "filter": cs.Filters[i], "impl": alone[i], "model": mAlone})
			return
		}
	}
	rep.Count(fmt.Sprintf("statements_for_%d_queries=%d", k, nStmts))
	rep.Eval(Canon(cs), k > 1, map[string]interface{}{"queries": k, "statements": nStmts})
}

func c10KF(cs c10Case, i int) []string { return nil }

func c10Valid(f []c10KV) bool {
	for _, kv := range f {
		if _, ok := c10ColID[kv.Col]; !ok || kv.Val.Rep == "bad" {
			return false
		}
	}
	return true
}

func c10GenFilter(r *Rand) []c10KV { return c10GenFilterN(r, 8) }

// c10GenFilterN: kinds 0..7 are filters on the four plain columns; 8, 9 use the JSON column; 10 is rejected by sqlgen
func c10GenFilterN(r *Rand, kinds int) []c10KV {
	intRep := func() string { return []string{"int64", "int64", "int", "ptr", "named"}[r.Intn(5)] }
	var f []c10KV
	if kinds > 8 && r.Chance(0.15) {
		// strings with blanks over one or two columns: ("a b", "c") and ("a", "b c") print alike
		sp := func() c10Val { return c10Val{"sp", int64(r.Intn(len(c10SpaceStrs)))} }
		if r.Chance(0.3) {
			// a bool column named by true / false or by 1 / 0; a string column named by []byte
			if r.Bool() {
				return []c10KV{{"f", c10Val{[]string{"bool", "boolint"}[r.Intn(2)], int64(r.Intn(2))}}}
			}
			return []c10KV{{"s", c10Val{"strbytes", int64(r.Intn(3))}}}
		}
		if r.Chance(0.4) {
			// an instant, in UTC or in another zone
			return []c10KV{{"w", c10Val{[]string{"time", "timez"}[r.Intn(2)], int64(r.Intn(3))}}}
		}
		switch r.Intn(3) {
		case 0:
			return []c10KV{{"u", sp()}, {"t", sp()}}
		case 1:
			return []c10KV{{"t", sp()}}
		default:
			return []c10KV{{"t", c10Val{"sp", int64(r.Intn(2))}}, {"u", c10Val{"sp", int64(2 + r.Intn(2))}}}
		}
	}
	switch r.Intn(kinds) {
	case 8:
		f = []c10KV{{"j", c10Val{[]string{"json", "jsonptr"}[r.Intn(2)], int64(r.Intn(3))}}}
	case 9:
		f = []c10KV{{"j", c10Val{"json", int64(r.Intn(3))}}, {"b", c10Val{intRep(), int64(r.Intn(3))}}}
	case 10:
		switch r.Intn(3) {
		case 0:
			f = []c10KV{{"zz", c10Val{"int64", int64(r.Intn(3))}}}
		case 1:
			f = []c10KV{{"b", c10Val{"bad", 0}}}
		default:
			f = []c10KV{{"id", c10Val{intRep(), int64(1 + r.Intn(8))}}, {"zz", c10Val{"int64", 0}}}
		}
	case 0:
	case 1, 2:
		f = []c10KV{{"id", c10Val{intRep(), int64(1 + r.Intn(8))}}}
	case 3:
		f = []c10KV{{"b", c10Val{intRep(), int64(r.Intn(3))}}}
	case 4:
		if r.Chance(0.4) {
			f = []c10KV{{"a", c10Val{[]string{"nil", "nilptr"}[r.Intn(2)], 0}}}
		} else {
			f = []c10KV{{"a", c10Val{intRep(), int64(r.Intn(3))}}}
		}
	case 5:
		av := c10Val{intRep(), int64(r.Intn(3))}
		if r.Chance(0.3) {
			av = c10Val{"nil", 0}
		}
		f = []c10KV{{"a", av}, {"b", c10Val{intRep(), int64(r.Intn(3))}}}
	case 6:
		f = []c10KV{{"s", c10Val{[]string{"string", "strptr"}[r.Intn(2)], int64(r.Intn(3))}}}
	case 7:
		f = []c10KV{{"b", c10Val{intRep(), int64(r.Intn(3))}}, {"s", c10Val{"string", int64(r.Intn(3))}}}
	}
	return f
}

func runC10(c *Ctx) error {
	m, err := StartModel("C10")
	if err != nil {
		return err
	}
	defer m.Close()
	if c.Replay == "" {
		kfReproC10(c.Rep)
		c10TesterTie(c, m, c.N(1500, 60000))
	}
	c.Rep.Rule = "random tables (0-8 rows, nullable pointer column, small value domains so that filters overlap) x sets of 1-5 filters (every 40th case 90-270) over different column sets (id / b / a / a+b / s / b+s / j (a JSON column, filtered by struct or pointer) / j+b / empty), filters sqlgen rejects (unknown column, a value whose Valuer fails) mixed in, strings with blanks over two columns (tuples that print alike), an instant named in another time zone, a bool column named by 1 / 0, a string column named by []byte, calls with an OrderBy option next to calls without options, a second table with a composite primary key (filters on one key column, QueryRow), equal filters repeated, values carried as int64, int, *int64, a named integer type, string, *string, nil and typed nil pointers; every filter is queried on its own and then all of them concurrently under batch.WithBatching on the same fake database; rows per call compared (the property), and compared with the Lean model's alone / dispatched"
	c.Rep.Assumptions = append(c.Rep.Assumptions,
		"string comparison is case-sensitive in the fake database and in sqlgen's row tester (MySQL collations are not modelled)",
		"whether concurrent calls end up in one batch is up to the batch timer; the number of statements is recorded")
	if c.Replay != "" {
		var f struct {
			Case c10Case `json:"case"`
		}
		b, err := os.ReadFile(c.Replay)
		if err != nil {
			return err
		}
		if err := json.Unmarshal(b, &f); err != nil {
			return err
		}
		c10One(c, m, f.Case)
		fmt.Printf("replay: %d failures\n", len(c.Rep.Failures))
		return nil
	}
	// corpus: the two shapes of the recorded finding
	c10One(c, m, c10Case{Table: [][]int64{{10, 1, 0, 0}}, Filters: [][]c10KV{{{"id", c10Val{"int", 10}}}, {{"id", c10Val{"int64", 11}}}}})
	c10One(c, m, c10Case{Table: [][]int64{{1, -1, 0, 0}, {2, 5, 0, 0}}, Filters: [][]c10KV{{{"a", c10Val{"nil", 0}}}, {{"id", c10Val{"int64", 2}}}}})
	// the recorded finding C10-2: an instant named in another zone
	{
		before := len(c.Rep.Failures)
		c10One(c, m, c10Case{Table: [][]int64{{1, 1, 0, 0, 0, 0, 0, 2}, {2, 1, 0, 0, 0, 0, 0, 1}}, Filters: [][]c10KV{{{"w", c10Val{"timez", 2}}}, {{"id", c10Val{"int64", 2}}}}})
		c.Rep.Repros["C10-2"] = Repro{Fails: len(c.Rep.Failures) > before, Detail: "Filter{w: the instant of row 1 written in zone +02:00} next to Filter{id: 2} under batching"}
	}
	// the recorded finding C10-3: filter values of another Go type than the column's
	{
		before := len(c.Rep.Failures)
		c10One(c, m, c10Case{Table: [][]int64{{1, 1, 0, 1, 0, 0, 0, 0, 1}, {2, 1, 0, 2, 0, 0, 0, 0, 0}}, Filters: [][]c10KV{{{"f", c10Val{"boolint", 1}}}, {{"s", c10Val{"strbytes", 2}}}, {{"id", c10Val{"int64", 2}}}}})
		c.Rep.Repros["C10-3"] = Repro{Fails: len(c.Rep.Failures) > before, Detail: "Filter{f: 1} on a bool column and Filter{s: []byte(\"s2\")} on a string column under batching"}
	}
	// directed: value tuples that print alike - sqlgen orders the columns of a group by name, (t, u): ("a b","c") and
	// ("a","b c") - in both arrival orders
	for _, fs := range [][][]c10KV{
		{{{"t", c10Val{"sp", 0}}, {"u", c10Val{"sp", 3}}}, {{"t", c10Val{"sp", 1}}, {"u", c10Val{"sp", 2}}}},
		{{{"t", c10Val{"sp", 1}}, {"u", c10Val{"sp", 2}}}, {{"t", c10Val{"sp", 0}}, {"u", c10Val{"sp", 3}}}},
		{{{"u", c10Val{"sp", 2}}, {"t", c10Val{"sp", 1}}}, {{"t", c10Val{"sp", 0}}, {"u", c10Val{"sp", 3}}}, {{"t", c10Val{"sp", 0}}, {"u", c10Val{"sp", 2}}}},
	} {
		for k := 0; k < 4; k++ {
			c10One(c, m, c10Case{Table: [][]int64{{1, 1, 0, 0, 0, 0, 3}, {2, 1, 0, 0, 0, 1, 2}, {3, -1, 1, 1, 0, 0, 2}}, Filters: fs})
		}
	}
	r := c.Rng
	n := c.N(700, 40000)
	for i := 0; i < n && !c.Rep.ShouldStop(); i++ {
		var cs c10Case
		for id := int64(1); id <= int64(r.Intn(9)); id++ {
			cs.Table = append(cs.Table, []int64{id, int64(r.Intn(4)) - 1, int64(r.Intn(3)), int64(r.Intn(3)), int64(r.Intn(3)), int64(r.Intn(len(c10SpaceStrs))), int64(r.Intn(len(c10SpaceStrs))), int64(r.Intn(3)), int64(r.Intn(2))})
		}
		k := 1 + r.Intn(5)
		if i%40 == 7 {
			k = 90 + r.Intn(180) // a large batch: more queries than any internal chunk or size limit one might pick
			c.Rep.Count("large_batch")
		}
		for ; k > 0; k-- {
			if len(cs.Filters) > 0 && r.Chance(0.15) {
				cs.Filters = append(cs.Filters, cs.Filters[r.Intn(len(cs.Filters))])
			} else {
				cs.Filters = append(cs.Filters, c10GenFilterN(r, 11))
			}
		}
		if r.Chance(0.3) {
			for range cs.Filters {
				cs.Order = append(cs.Order, []int{0, 0, 1, 2}[r.Intn(4)])
			}
		}
		c10One(c, m, cs)
		if i%6 == 0 {
			c10Pairs(c, r)
		}
	}
	return nil
}

// c10Pairs: a table with a composite primary key; filters naming one key column, both, a key column and another
// column, none; Query and QueryRow; alone and together under batching.
func c10Pairs(c *Ctx, r *Rand) {
	rep := c.Rep
	fdb, conn := newFakeDB()
	fdb.createTable("pairs", []string{"k1", "k2", "v"}, []string{"k1", "k2"})
	var table [][]int64
	seen := map[[2]int64]bool{}
	for n := 2 + r.Intn(7); n > 0; n-- {
		k := [2]int64{int64(1 + r.Intn(3)), int64(1 + r.Intn(3))}
		if seen[k] {
			continue
		}
		seen[k] = true
		row := []int64{k[0], k[1], int64(r.Intn(3))}
		table = append(table, row)
		fdb.tables["pairs"].Rows = append(fdb.tables["pairs"].Rows, map[string]driverValue{"k1": row[0], "k2": row[1], "v": row[2]})
	}
	schema := sqlgen.NewSchema()
	schema.MustRegisterType("pairs", sqlgen.UniqueId, c10Pair{})
	db := sqlgen.NewDB(conn, schema)
	type call struct {
		Filter map[string]int64 `json:"filter"`
		Row    bool             `json:"query_row"`
	}
	var calls []call
	for k := 2 + r.Intn(5); k > 0; k-- {
		f := map[string]int64{}
		switch r.Intn(6) {
		case 0:
			f["k1"] = int64(1 + r.Intn(3))
		case 1:
			f["k2"] = int64(1 + r.Intn(3))
		case 2:
			f["k1"], f["k2"] = int64(1+r.Intn(3)), int64(1+r.Intn(3))
		case 3:
			f["k1"], f["v"] = int64(1+r.Intn(3)), int64(r.Intn(3))
		case 4:
			f["v"] = int64(r.Intn(3))
		}
		calls = append(calls, call{f, r.Chance(0.3)})
	}
	cs := map[string]interface{}{"pairs": table, "calls": calls}
	run := func(ctx context.Context, cl call) (string, error) {
		f := sqlgen.Filter{}
		for k, v := range cl.Filter {
			f[k] = v
		}
		if cl.Row {
			var one *c10Pair
			if err := db.QueryRow(ctx, &one, f, nil); err != nil {
				return "", err
			}
			return fmt.Sprint(*one), nil
		}
		var out []*c10Pair
		if err := db.Query(ctx, &out, f, nil); err != nil {
			return "", err
		}
		s := ""
		for _, p := range out {
			s += fmt.Sprint(*p)
		}
		return s, nil
	}
	alone := make([]string, len(calls))
	aloneErr := make([]error, len(calls))
	for i, cl := range calls {
		alone[i], aloneErr[i] = run(context.Background(), cl)
	}
	ctx := batch.WithBatching(context.Background())
	got := make([]string, len(calls))
	gotErr := make([]error, len(calls))
	var wg sync.WaitGroup
	for i := range calls {
		wg.Add(1)
		go func(i int) {
			defer wg.Done()
			defer func() {
				if p := recover(); p != nil {
					gotErr[i] = fmt.Errorf("panic: %v", p)
				}
			}()
			got[i], gotErr[i] = run(ctx, calls[i])
		}(i)
	}
	wg.Wait()
	for i := range calls {
		if alone[i] != got[i] || fmt.Sprint(aloneErr[i]) != fmt.Sprint(gotErr[i]) {
			rep.Fail("impl_ne_spec", nil, cs, map[string]interface{}{"what": "composite primary key: a batched call returns something else than the same call on its own", "call": calls[i], "alone": alone[i], "alone_error": fmt.Sprint(aloneErr[i]), "batched": got[i], "batched_error": fmt.Sprint(gotErr[i])})
			return
		}
	}
	rep.Count("composite_key_batches")
	rep.Eval(Canon(cs), len(calls) > 1, map[string]interface{}{"calls": len(calls)})
}
