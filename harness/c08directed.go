package main

// C08 — directed cases from the defect hunt on the unchanged tree (notes/hunt/C08), free-running on the public API.

import (
	"context"
	"errors"
	"fmt"
	"math"
	"sync/atomic"
	"time"

	"github.com/samsarahq/thunder/reactive"
)

func c08WaitFor(cond func() bool) bool {
	p := newPatience(3 * time.Second)
	for !cond() {
		if p.expired() {
			return false
		}
		time.Sleep(time.Millisecond)
	}
	return true
}

func c08Directed(c *Ctx) {
	rep := c.Rep
	oldDelay := reactive.WriteThenReadDelay
	reactive.WriteThenReadDelay = 0
	defer func() { reactive.WriteThenReadDelay = oldDelay }()
	ok := func(name string, cs map[string]interface{}) {
		rep.Count("directed:" + name)
		rep.Eval("directed|"+name, true, cs)
	}

	// C08-1: a cached sub-computation fails after reading; its caller handles the error and still produces an output
	{
		cs := map[string]interface{}{"directed": "Cache child reads a resource and returns an error; the caller swallows it and outputs what was read"}
		var version, output int64
		version = 1
		res := reactive.NewResource()
		var resMu = make(chan struct{}, 1)
		resMu <- struct{}{}
		current := func() *reactive.Resource { <-resMu; r := res; resMu <- struct{}{}; return r }
		rr := reactive.NewRerunner(context.Background(), func(ctx context.Context) (interface{}, error) {
			var seen int64
			reactive.Cache(ctx, "child", func(ctx context.Context) (interface{}, error) {
				reactive.AddDependency(ctx, current(), nil)
				seen = atomic.LoadInt64(&version)
				return nil, errors.New("the rest of the child failed")
			})
			atomic.StoreInt64(&output, seen)
			return nil, nil
		}, 0, false)
		good := c08WaitFor(func() bool { return atomic.LoadInt64(&output) == 1 })
		if good {
			atomic.StoreInt64(&version, 2)
			<-resMu
			old := res
			res = reactive.NewResource()
			resMu <- struct{}{}
			old.Invalidate()
			good = c08WaitFor(func() bool { return atomic.LoadInt64(&output) == 2 })
		}
		rr.Stop()
		if !good {
			rep.Fail("impl_ne_spec", nil, cs, map[string]interface{}{"what": "the rerunner's final output holds a value read from a superseded version of a resource: the failed cached sub-computation that read it was forgotten", "output": atomic.LoadInt64(&output), "version": atomic.LoadInt64(&version)})
			return
		}
		ok("swallowed_cache_error", cs)
	}

	// C08-2: a rerunner that stops on an error releases its last good computation
	{
		cs := map[string]interface{}{"directed": "run 1 registers a resource with a cleanup; run 2 returns an error; nobody calls Stop"}
		var cleaned, runs int32
		trigger := reactive.NewResource()
		rr := reactive.NewRerunner(context.Background(), func(ctx context.Context) (interface{}, error) {
			if atomic.AddInt32(&runs, 1) == 1 {
				reactive.AddDependency(ctx, trigger, nil)
				r := reactive.NewResource()
				r.Cleanup(func() { atomic.AddInt32(&cleaned, 1) })
				reactive.AddDependency(ctx, r, nil)
				return nil, nil
			}
			return nil, errors.New("hard failure")
		}, 0, false)
		good := c08WaitFor(func() bool { return atomic.LoadInt32(&runs) == 1 })
		trigger.Invalidate()
		good = good && c08WaitFor(func() bool { return atomic.LoadInt32(&runs) >= 2 })
		released := c08WaitFor(func() bool { return atomic.LoadInt32(&cleaned) == 1 })
		rr.Stop()
		time.Sleep(20 * time.Millisecond)
		if !good {
			rep.Fail("harness_error", nil, cs, map[string]interface{}{"error": "the runs did not happen"})
			return
		}
		if !released || atomic.LoadInt32(&cleaned) != 1 {
			rep.Fail("impl_ne_spec", nil, cs, map[string]interface{}{"what": "a rerunner stopped by an error: the resource of its last good computation was not cleaned up (exactly once) without a call of Stop", "cleanups": atomic.LoadInt32(&cleaned), "cleaned_before_Stop": released})
			return
		}
		ok("stopped_by_error_releases", cs)
	}

	// C08-3: a cached sub-computation that panics after registering a resource
	{
		cs := map[string]interface{}{"directed": "Cache child registers a resource and panics; the caller recovers; Stop"}
		var cleaned int32
		done := make(chan struct{}, 1)
		rr := reactive.NewRerunner(context.Background(), func(ctx context.Context) (interface{}, error) {
			func() {
				defer func() { recover() }()
				reactive.Cache(ctx, "child", func(ctx context.Context) (interface{}, error) {
					r := reactive.NewResource()
					r.Cleanup(func() { atomic.AddInt32(&cleaned, 1) })
					reactive.AddDependency(ctx, r, nil)
					panic("the child panics")
				})
			}()
			select {
			case done <- struct{}{}:
			default:
			}
			return nil, nil
		}, time.Hour, false)
		select {
		case <-done:
		case <-patient(3 * time.Second):
		}
		rr.Stop()
		if !c08WaitFor(func() bool { return atomic.LoadInt32(&cleaned) == 1 }) {
			rep.Fail("impl_ne_spec", nil, cs, map[string]interface{}{"what": "a resource registered by a cached sub-computation that then panicked was never cleaned up, not even after Stop", "cleanups": atomic.LoadInt32(&cleaned)})
			return
		}
		ok("panicking_cache_child", cs)
	}

	// C08-4: a cache key that holds a NaN, and one that cannot be hashed
	for _, key := range []interface{}{math.NaN(), struct{ V interface{} }{[]int{1}}} {
		cs := map[string]interface{}{"directed": fmt.Sprintf("Cache with a key of type %T that cannot be found again / hashed; then Cache with a good key; Stop", key)}
		var second int32
		finished := make(chan struct{}, 1)
		rr := reactive.NewRerunner(context.Background(), func(ctx context.Context) (interface{}, error) {
			func() {
				defer func() { recover() }()
				reactive.Cache(ctx, key, func(ctx context.Context) (interface{}, error) { return 1, nil })
			}()
			reactive.Cache(ctx, "good", func(ctx context.Context) (interface{}, error) {
				atomic.StoreInt32(&second, 1)
				return 2, nil
			})
			select {
			case finished <- struct{}{}:
			default:
			}
			return nil, nil
		}, time.Hour, false)
		stopped := make(chan struct{})
		select {
		case <-finished:
		case <-patient(3 * time.Second):
		}
		go func() { rr.Stop(); close(stopped) }()
		select {
		case <-stopped:
		case <-patient(3 * time.Second):
			rep.Fail("impl_ne_spec", nil, cs, map[string]interface{}{"what": "after a Cache call with this key every later Cache call blocks: the run never ends and Stop never returns", "second_cache_ran": atomic.LoadInt32(&second) == 1})
			return
		}
		if atomic.LoadInt32(&second) != 1 {
			rep.Fail("impl_ne_spec", nil, cs, map[string]interface{}{"what": "the Cache call after the one with this key did not run"})
			return
		}
		ok("unusable_cache_key", cs)
	}
	c04Settle() // pending releases run on goroutines of their own
}
