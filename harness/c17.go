package main

// C17 — Connection lifecycle: every subscription ends exactly once and stops for good.

import (
	"encoding/json"
	"fmt"
	"os"
)

func init() { register("C17", runC17) }

type cnLabel struct {
	L   string      `json:"l"`
	A   int         `json:"a"`
	Acc bool        `json:"acc"`
	By  interface{} `json:"by"`
}

// cnLabels turns the recorded hook events into the labels of the lifecycle model.
func cnLabels(events []cnEvent, reader int64) (labels []cnLabel, ridOf map[string]int, problem string) {
	ridOf = map[string]int{}
	next := 0
	type pend struct{ id, rid int }
	var pending []pend
	kindOf := map[int]string{}
	idOf := map[int]int{}
	atoi := func(s string) int { n := 0; fmt.Sscan(s, &n); return n }
	for _, e := range events {
		if len(e.Kind) < 5 || e.Kind[:5] != "hook:" {
			continue
		}
		id := atoi(e.ID)
		switch e.Kind[5:] {
		case "sub.accept":
			ridOf[e.Key] = next
			kindOf[next] = "sub"
			idOf[next] = id
			next++
			labels = append(labels, cnLabel{L: "subscribe", A: id, Acc: true})
		case "sub.reject":
			labels = append(labels, cnLabel{L: "subscribe", A: id, Acc: false})
		case "mut.accept":
			ridOf[e.Key] = next
			kindOf[next] = "mut"
			idOf[next] = id
			next++
			labels = append(labels, cnLabel{L: "mutate", A: id, Acc: true})
		case "mut.reject":
			labels = append(labels, cnLabel{L: "mutate", A: id, Acc: false})
		case "run.ok":
			rid, ok := ridOf[e.Key]
			if !ok {
				// the first run can finish before the accept hook is reached (same critical section of conn.mu
				// is still held by the handler): the accept always follows; number it now
				ridOf[e.Key] = -1
				problem = "run outcome before accept"
				continue
			}
			labels = append(labels, cnLabel{L: "runOk", A: rid})
			if kindOf[rid] == "mut" {
				pending = append(pending, pend{idOf[rid], rid})
			}
		case "run.fail":
			rid, ok := ridOf[e.Key]
			if !ok {
				problem = "run outcome before accept"
				continue
			}
			labels = append(labels, cnLabel{L: "runFail", A: rid})
			pending = append(pending, pend{idOf[rid], rid})
		case "close.found", "close.miss", "close.deferred.found", "close.deferred.miss":
			if e.Go == reader && (e.Kind[5:] == "close.found" || e.Kind[5:] == "close.miss") {
				labels = append(labels, cnLabel{L: "closeSub", A: id})
				continue
			}
			// a deferred close: the rerunner that asked for it (by key after the repair, else the oldest pending for the id)
			by := -1
			if e.Key != "" {
				if rid, ok := ridOf[e.Key]; ok {
					by = rid
				}
			}
			for i, p := range pending {
				if p.id == id && (by == -1 || p.rid == by) {
					by = p.rid
					pending = append(pending[:i:i], pending[i+1:]...)
					break
				}
			}
			if by == -1 {
				problem = fmt.Sprintf("deferred close of id %d without a pending request", id)
				continue
			}
			labels = append(labels, cnLabel{L: "closeSub", A: id, By: by})
		case "closeAll":
			labels = append(labels, cnLabel{L: "sockClose"})
		}
	}
	return labels, ridOf, problem
}

// cnLifecycleOracle evaluates C17 directly on what the connection did.
func cnLifecycleOracle(res *cnResult, max int) (string, map[string]interface{}) {
	open := map[string]int{}
	everS := map[string]int{}
	totalOpen := 0
	ended := map[string]bool{} // ids whose last subscription ended and no new one started
	closed := false
	for _, e := range res.Events {
		switch e.Kind {
		case "closed":
			closed = true
		case "S":
			if open[e.ID] > 0 {
				return "impl_ne_spec", map[string]interface{}{"what": "two live subscriptions share id " + e.ID + " (duplicate-id rule)", "seq": e.Seq}
			}
			open[e.ID]++
			everS[e.ID]++
			totalOpen++
			ended[e.ID] = false
			if totalOpen > max {
				return "impl_ne_spec", map[string]interface{}{"what": "more live subscriptions than the limit", "seq": e.Seq}
			}
		case "U":
			if open[e.ID] == 0 {
				return "impl_ne_spec", map[string]interface{}{"what": "the logger saw Unsubscribe(" + e.ID + ") without a Subscribe it belongs to", "seq": e.Seq}
			}
			open[e.ID]--
			totalOpen--
			ended[e.ID] = true
		case "hook:mut.accept":
			ended[e.ID] = false
		case "exec", "write":
			if e.Kind == "write" {
				m := e.Data.(map[string]interface{})
				if t, _ := m["type"].(string); t == "echo" || t == "error" && m["message"] == "duplicate subscription" || t == "error" && m["message"] == "too many subscriptions" || t == "error" && m["message"] == "unknown message type" {
					continue
				}
				if t, _ := m["type"].(string); t == "error" && open[e.ID] == 0 && !closed {
					continue // errors of rejected messages
				}
			}
			if closed {
				return "impl_ne_spec", map[string]interface{}{"what": "a resolver ran or something was written after the connection closed", "event": e}
			}
			if ended[e.ID] && e.ID != "" {
				return "impl_ne_spec", map[string]interface{}{"what": "a resolver ran or an update was written for id " + e.ID + " after its subscription had ended", "event": e}
			}
		}
	}
	for id, n := range open {
		if n > 0 {
			return "impl_ne_spec", map[string]interface{}{"what": "the logger saw Subscribe(" + id + ") but no Unsubscribe, although the connection closed"}
		}
	}
	for i, n := range res.Cleanups {
		if n > 1 || (res.Used[i] == 1 && n != 1) {
			return "impl_ne_spec", map[string]interface{}{"what": fmt.Sprintf("reactive resource %d was registered by subscriptions but its cleanup ran %d times after the connection closed", i, n)}
		}
	}
	return "", nil
}

func cnSortTrailingU(l []string) {
	i := len(l)
	for i > 0 && l[i-1][0] == 'U' {
		i--
	}
	tail := l[i:]
	for a := 1; a < len(tail); a++ {
		for b := a; b > 0 && tail[b] < tail[b-1]; b-- {
			tail[b], tail[b-1] = tail[b-1], tail[b]
		}
	}
}

func c17One(c *Ctx, m *Model, cs cnCase) {
	rep := c.Rep
	res := cnRun(cs)
	if res.Problem != "" {
		rep.Fail("impl_ne_spec", nil, cs, map[string]interface{}{"what": res.Problem})
		return
	}
	max := cs.MaxSubs
	if max == 0 {
		max = 200
	}
	if kind, d := cnLifecycleOracle(res, max); kind != "" {
		rep.Fail(kind, nil, cs, d)
		return
	}
	if !cs.CloseEarly {
		// once failures have been healed and everything has settled, a subscription is either over or its latest run
		// succeeded: one whose run failed and that is neither closed nor retried is a zombie (it keeps its id and
		// its place under the subscription limit)
		for _, g := range c02Split(res.Events) {
			if !g.ended && g.execs > 0 && g.lastExec > g.lastResult {
				rep.Fail("impl_ne_spec", nil, cs, map[string]interface{}{"what": "at quiescence a subscription is still registered although its last run failed and it is not being retried", "id": g.id, "query": g.query})
				return
			}
		}
	}
	var reader int64
	for _, e := range res.Events {
		if e.Kind == "in" {
			reader = e.Go
			break
		}
	}
	labels, _, problem := cnLabels(res.Events, reader)
	if problem != "" {
		rep.Fail("harness_error", nil, cs, map[string]interface{}{"error": problem})
		return
	}
	resp, err := m.Call(map[string]interface{}{"op": "replay", "labels": labels, "max": max})
	if err != nil {
		rep.Fail("harness_error", nil, cs, map[string]interface{}{"error": err.Error()})
		return
	}
	if resp["stuck"] != nil {
		i := int(toInt64(resp["stuck"]))
		lo := i - 10
		if lo < 0 {
			lo = 0
		}
		rep.Fail("impl_ne_model", nil, cs, map[string]interface{}{"what": "the lifecycle model cannot take a step the connection took", "index": i, "label": labels[i], "before": labels[lo:i], "state": resp["state"]})
		return
	}
	st := resp["state"].(map[string]interface{})
	// logger calls: what the model's logger is told (`seen`: subscriptions only), projected to (kind, id), must be
	// what the real logger saw
	var want []string
	for _, x := range st["seen"].([]interface{}) {
		xm := x.(map[string]interface{})
		want = append(want, fmt.Sprintf("%s%d", xm["e"], toInt64(xm["id"])))
	}
	var got []string
	for _, e := range res.Events {
		if e.Kind == "S" || e.Kind == "U" {
			got = append(got, e.Kind+e.ID)
		}
	}
	// the calls made while closing the connection come in map order: compare that block as a set
	cnSortTrailingU(got)
	cnSortTrailingU(want)
	if fmt.Sprint(got) != fmt.Sprint(want) {
		rep.Fail("impl_ne_model", nil, cs, map[string]interface{}{"what": "SubscriptionLogger calls differ from the model's", "impl": got, "model": want})
		return
	}
	if len(st["subs"].([]interface{})) != 0 || len(st["orphans"].([]interface{})) != 0 {
		rep.Fail("model_ne_spec", nil, cs, map[string]interface{}{"what": "model: after the close something is still registered or alive", "state": st})
		return
	}
	rep.Count("ok")
	rep.Count(fmt.Sprintf("labels<=%d", ((len(labels)/10)+1)*10))
	nS := 0
	for _, g := range got {
		if g[0] == 'S' {
			nS++
		}
	}
	rep.Eval(fmt.Sprintf("c17-%d", cs.Seed), nS > 0, map[string]interface{}{"labels": len(labels), "subscriptions": nS})
	rep.Traces++
}

func runC17(c *Ctx) error {
	m, err := StartModel("C17")
	if err != nil {
		return err
	}
	defer m.Close()
	c.Rep.Rule = "random message histories (subscribe / unsubscribe / mutate / failing mutate / echo / malformed, ids 1..3 colliding on purpose, limit 200 or 2) interleaved with data changes, resolver failures (plain, safe, panic) and pauses, on a real conn over a fake socket; then the socket closes and the data changes again; hooks under conn.mu give the exact order of the critical sections, which is replayed in the Lean lifecycle model (every step enabled, verdicts of subscribe/mutate as in the model, logger calls equal to the model's log, nothing registered or alive at the end); the property is checked directly: every Subscribe has its Unsubscribe, no two live subscriptions share an id, the limit holds, no resolver runs and nothing is written for an id after its end or after the close, every registered reactive resource is cleaned up exactly once"
	c.Rep.Assumptions = append(c.Rep.Assumptions,
		"schedules are those the Go scheduler produces (with yields in the hooks)",
		"Rerunner.Stop's guarantees are C04's")
	if c.Replay != "" {
		var f struct {
			Case cnCase `json:"case"`
		}
		b, err := os.ReadFile(c.Replay)
		if err != nil {
			return err
		}
		if err := json.Unmarshal(b, &f); err != nil {
			return err
		}
		for i := 0; i < 10; i++ {
			c17One(c, m, f.Case)
		}
		fmt.Printf("replay (10 re-executions): %d failures\n", len(c.Rep.Failures))
		return nil
	}
	// corpus: the three histories of the recorded findings
	for _, acts := range [][]cnAction{
		{{Op: "subscribe", ID: 1, Query: 0}},
		{{Op: "subscribe", ID: 1, Query: 0}, {Op: "pause", Arg: 300}, {Op: "mutate", ID: 1, Arg: 5}, {Op: "pause", Arg: 300}, {Op: "unsubscribe", ID: 1}, {Op: "change", Arg: 7}},
		{{Op: "fail", Arg: 1}, {Op: "subscribe", ID: 1, Query: 4}, {Op: "unsubscribe", ID: 1}, {Op: "heal"}, {Op: "subscribe", ID: 1, Query: 0}, {Op: "pause", Arg: 400}},
		// a resolver waiting on its context: ending the subscription must cancel the run first (initial run, and a re-run)
		{{Op: "fail", Arg: 7}, {Op: "subscribe", ID: 1, Query: 4}, {Op: "pause", Arg: 3000}, {Op: "unsubscribe", ID: 1}, {Op: "echo", ID: 2}, {Op: "subscribe", ID: 1, Query: 0}, {Op: "heal"}},
		{{Op: "subscribe", ID: 1, Query: 4}, {Op: "settle"}, {Op: "fail", Arg: 7}, {Op: "pause", Arg: 3000}, {Op: "unsubscribe", ID: 1}, {Op: "echo", ID: 2}, {Op: "heal"}},
	} {
		c17One(c, m, cnCase{Seed: 11, Actions: acts})
	}
	// the same with the socket closed while the resolver waits
	c17One(c, m, cnCase{Seed: 12, CloseEarly: true, Actions: []cnAction{{Op: "fail", Arg: 7}, {Op: "subscribe", ID: 1, Query: 4}, {Op: "subscribe", ID: 2, Query: 4}, {Op: "pause", Arg: 3000}}})
	n := c.N(150, 4000)
	for i := 0; i < n && !c.Rep.ShouldStop(); i++ {
		cs := cnCase{Seed: c.Rng.U64(), Actions: cnGenActions(c.Rng, 3+c.Rng.Intn(14))}
		if c.Rng.Chance(0.25) {
			cs.MaxSubs = 2
		}
		if c.Rng.Chance(0.35) {
			// slow resolvers, failures of every kind, and the socket closed while runs are in flight
			cs.SlowUs = 100 + c.Rng.Intn(1500)
			cs.CloseEarly = c.Rng.Chance(0.7)
			for k := range cs.Actions {
				if cs.Actions[k].Op == "fail" {
					cs.Actions[k].Arg = int64(1 + c.Rng.Intn(5))
				}
			}
			if c.Rng.Chance(0.6) {
				cs.Actions = append(cs.Actions, cnAction{Op: "fail", Arg: int64(1 + c.Rng.Intn(5))}, cnAction{Op: "subscribe", ID: 1 + c.Rng.Intn(3), Query: 4})
			}
			if c.Rng.Chance(0.5) {
				// somewhere in the middle: a subscription whose run reports a cancellation, then time, then healing
				at := c.Rng.Intn(len(cs.Actions) + 1)
				ins := []cnAction{{Op: "fail", Arg: 5}, {Op: "subscribe", ID: 1 + c.Rng.Intn(3), Query: 4}, {Op: "pause", Arg: 3000}, {Op: "heal"}}
				cs.Actions = append(append(append([]cnAction{}, cs.Actions[:at]...), ins...), cs.Actions[at:]...)
			}
		}
		c17One(c, m, cs)
	}
	return nil
}
