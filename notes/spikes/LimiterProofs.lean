import Tv.Limiter
namespace CL

def b2i (b : Bool) : Int := if b then 1 else 0

/-- tokens a holder accounts for: +1 if acquired, +1 if it still owes the receive of `block`,
+1 per pending release receive, −1 if it owes the re-acquire send. -/
def bal (h : Holder) : Int :=
  b2i (h.status = .acquired) + b2i (h.tr = .needRecv) + (h.relRecv : Int) - b2i (h.tr = .needSend)

def total (hs : List Holder) : Int := (hs.map bal).sum

def Account (s : St) : Prop := (s.chan : Int) = total s.holders ∧ s.chan ≤ s.cap

theorem total_append (a b : List Holder) : total (a ++ b) = total a + total b := by
  simp [total, List.sum_append]

theorem total_set (hs : List Holder) (i : Nat) (h x : Holder) (hi : hs[i]? = some h) :
    total (hs.set i x) = total hs - bal h + bal x := by
  induction hs generalizing i with
  | nil => simp at hi
  | cons a tl ih =>
    cases i with
    | zero =>
      simp at hi; subst hi
      simp [total]; omega
    | succ i =>
      simp at hi
      have := ih i hi
      simp [total] at this ⊢
      omega

@[simp] theorem total_nil : total [] = 0 := by simp [total]
@[simp] theorem total_singleton (h : Holder) : total [h] = bal h := by simp [total]

theorem account_init (cap : Nat) : Account (init cap) := by simp [Account, init, total]

theorem account_step (s s' : St) (l : Label) (a : Account s) (st : step? s l = some s') : Account s' := by
  obtain ⟨ha, hc⟩ := a
  cases l with
  | acquire =>
    simp only [step?] at st
    split at st
    · injection st with st; subst st
      refine ⟨?_, by simp; omega⟩
      simp [total_append, bal, b2i]
      omega
    · cases st
  | releaseSwap i =>
    simp only [step?] at st
    split at st
    · rename_i h hh
      split at st
      · rename_i hs
        injection st with st; subst st
        refine ⟨?_, hc⟩
        simp only [setH]
        rw [total_set _ _ h _ hh]
        simp [bal, b2i, hs]
        omega
      · rename_i hs
        injection st with st; subst st
        refine ⟨?_, hc⟩
        simp only [setH]
        rw [total_set _ _ h _ hh]
        simp [bal, b2i, hs]
        omega
    · cases st
  | releaseRecv i =>
    simp only [step?] at st
    split at st
    · rename_i h hh
      split at st
      · rename_i hg
        injection st with st; subst st
        refine ⟨?_, by simp [setH]; omega⟩
        simp only [setH]
        rw [total_set _ _ h _ hh]
        simp [bal]
        omega
      · cases st
    · cases st
  | blockCas i =>
    simp only [step?] at st
    split at st
    · rename_i h hh
      split at st
      · rename_i ht
        split at st
        · rename_i hs
          injection st with st; subst st
          refine ⟨?_, hc⟩
          simp only [setH]
          rw [total_set _ _ h _ hh]
          simp [bal, b2i, hs, ht]
          omega
        · rename_i hs
          injection st with st; subst st
          refine ⟨?_, hc⟩
          simp only [setH]
          rw [total_set _ _ h _ hh]
          simp [bal, b2i, hs, ht]
          omega
      · cases st
    · cases st
  | blockRecv i =>
    simp only [step?] at st
    split at st
    · rename_i h hh
      split at st
      · rename_i hg
        injection st with st; subst st
        refine ⟨?_, by simp [setH]; omega⟩
        simp only [setH]
        rw [total_set _ _ h _ hh]
        simp [bal, b2i, hg.1]
        omega
      · cases st
    · cases st
  | fDone i =>
    simp only [step?] at st
    split at st
    · rename_i h hh
      split at st
      · rename_i ok ht
        split at st
        · rename_i hg
          injection st with st; subst st
          refine ⟨?_, hc⟩
          simp only [setH]
          rw [total_set _ _ h _ hh]
          simp [bal, b2i, hg.2, ht]
          omega
        · injection st with st; subst st
          refine ⟨?_, hc⟩
          simp only [setH]
          rw [total_set _ _ h _ hh]
          simp [bal, b2i, ht]
          omega
      · cases st
    · cases st
  | deferSend i =>
    simp only [step?] at st
    split at st
    · rename_i h hh
      split at st
      · rename_i hg
        injection st with st; subst st
        refine ⟨?_, by simp [setH]; omega⟩
        simp only [setH]
        rw [total_set _ _ h _ hh]
        simp [bal, b2i, hg.1]
        omega
      · cases st
    · cases st

/-- Token accounting holds after every schedule, for every capacity. -/
theorem account_run (cap : Nat) (ls : List Label) (s : St) (h : run (init cap) ls = some s) : Account s := by
  suffices ∀ (s0 : St), Account s0 → ∀ ls s, run s0 ls = some s → Account s from
    this _ (account_init cap) ls s h
  intro s0 a0 ls
  induction ls generalizing s0 with
  | nil => intro s h; simp [run] at h; subst h; exact a0
  | cons l ls ih =>
    intro s h
    simp only [run] at h
    cases hs : step? s0 l with
    | none => simp [hs] at h
    | some s1 =>
      simp [hs] at h
      exact ih s1 (account_step s0 s1 l a0 hs) s h

end CL
