/-! Spike: websocket connection lifecycle (graphql/server.go) as an executable transition system.
`cfg` selects the current code or the candidate repairs, so both can be examined with one model. -/
namespace Conn

structure Cfg where
  mutateDupCheck : Bool      -- handleMutate rejects an id that is live
  closeLogs : Bool           -- closeSubscriptions calls Unsubscribe
  closeByIdentity : Bool     -- deferred close only closes the rerunner that asked for it
  max : Nat := 200

def current : Cfg := ⟨false, false, false, 200⟩
def repaired : Cfg := ⟨true, true, true, 200⟩

inductive Kind | sub | mut deriving DecidableEq, Repr
inductive Ev | S (id : Nat) | U (id : Nat) deriving DecidableEq, Repr

structure Entry where
  id : Nat
  kind : Kind
  rid : Nat                  -- identity of the rerunner
deriving DecidableEq, Repr

structure St where
  subs : List Entry := []                -- conn.subscriptions
  stopped : List Nat := []               -- rerunners on which Stop() has returned
  dead : List Nat := []                  -- rerunners that ended by their own failure / completion
  nextRid : Nat := 0
  log : List Ev := []                    -- SubscriptionLogger calls, oldest first
  writes : List (Nat × Nat) := []        -- (id, rid) of every update/result/error written for a rerunner
  pending : List (Nat × Nat) := []       -- deferred `go c.closeSubscription(id)` tasks: (id, rid that asked)
  closed : Bool := false
deriving Repr

inductive Label
  | subscribe (id : Nat)
  | mutate (id : Nat)
  | unsubscribe (id : Nat)
  | runOk (rid : Nat)        -- a (re)computation of that rerunner completes and writes
  | runFail (rid : Nat)      -- initial failure: error envelope, deferred close
  | deferred (k : Nat)       -- the k-th pending deferred close runs
  | sockClose
deriving Repr

def find (subs : List Entry) (id : Nat) : Option Entry := subs.find? (·.id = id)
def findRid (subs : List Entry) (rid : Nat) : Option Entry := subs.find? (·.rid = rid)
def alive (s : St) (rid : Nat) : Bool := rid < s.nextRid && !s.stopped.contains rid && !s.dead.contains rid

/-- `closeSubscription(id)`; `only` restricts it to one rerunner identity (candidate repair). -/
def closeSub (s : St) (id : Nat) (only : Option Nat) : St :=
  match find s.subs id with
  | some e =>
      if only.all (· = e.rid) then
        { s with subs := s.subs.filter (·.id ≠ id), stopped := e.rid :: s.stopped, log := s.log ++ [.U id] }
      else s
  | none => s

def step? (cfg : Cfg) (s : St) : Label → Option St
  | .subscribe id =>
      if s.closed then none
      else if (find s.subs id).isSome then some s                       -- "duplicate subscription"
      else if s.subs.length + 1 > cfg.max then some s                   -- "too many subscriptions"
      else some { s with subs := ⟨id, .sub, s.nextRid⟩ :: s.subs, nextRid := s.nextRid + 1,
                         log := s.log ++ [.S id] }
  | .mutate id =>
      if s.closed then none
      else if cfg.mutateDupCheck && (find s.subs id).isSome then some s
      else some { s with subs := ⟨id, .mut, s.nextRid⟩ :: s.subs.filter (·.id ≠ id), nextRid := s.nextRid + 1 }
  | .unsubscribe id => if s.closed then none else some (closeSub s id none)
  | .runOk rid =>
      if alive s rid then
        match s.subs.find? (·.rid = rid) with
        | some e =>
            let s' := { s with writes := s.writes ++ [(e.id, rid)] }
            if e.kind = .mut then some { s' with dead := rid :: s'.dead, pending := s'.pending ++ [(e.id, rid)] }
            else some s'
        | none =>
            -- an orphaned rerunner (overwritten map entry) still runs and writes under its id; we do not
            -- know the id any more from the map, so orphans are tracked by the caller of `orphanWrites`
            some { s with writes := s.writes ++ [(0, rid)] }
      else none
  | .runFail rid =>
      if alive s rid then
        match s.subs.find? (·.rid = rid) with
        | some e => some { s with writes := s.writes ++ [(e.id, rid)], dead := rid :: s.dead,
                                  pending := s.pending ++ [(e.id, rid)] }
        | none => none
      else none
  | .deferred k =>
      match s.pending[k]? with
      | some (id, rid) =>
          let s' := { s with pending := s.pending.eraseIdx k }
          some (closeSub s' id (if cfg.closeByIdentity then some rid else none))
      | none => none
  | .sockClose =>
      if s.closed then none
      else some { s with closed := true, subs := [], stopped := s.subs.map (·.rid) ++ s.stopped,
                         log := if cfg.closeLogs then s.log ++ s.subs.map (fun e => .U e.id) else s.log }

def run (cfg : Cfg) (s : St) : List Label → Option St
  | [] => some s
  | l :: ls => (step? cfg s l).bind (fun s' => run cfg s' ls)

/-- every `S id` is followed by a `U id` (checked on the whole log, oldest first) -/
def paired : List Ev → Bool
  | [] => true
  | .S id :: rest => rest.contains (.U id) && paired rest
  | .U _ :: rest => paired rest

/-- rerunners that were stopped by an unsubscribe/close yet wrote afterwards, or still can -/
def orphanAlive (s : St) : List Nat :=
  (List.range s.nextRid).filter (fun rid => alive s rid && (findRid s.subs rid).isNone)

/-! ### Witnesses against the current code (each is a history replayed on the implementation) -/

/-- connection close does not log `Unsubscribe` -/
theorem current_close_unpaired :
    (run current {} [.subscribe 1, .sockClose]).map (fun s => paired s.log) = some false := by decide

/-- a `mutate` that reuses a live id orphans the subscription's rerunner: after `unsubscribe` it is still alive -/
theorem current_mutate_orphans :
    (run current {} [.subscribe 1, .mutate 1, .unsubscribe 1]).map orphanAlive = some [0] := by decide

/-- the deferred close of a failed subscription closes a *newer* subscription with the same id -/
theorem current_deferred_kills_newer :
    (run current {} [.subscribe 1, .runFail 0, .unsubscribe 1, .subscribe 1, .deferred 0]).map
      (fun s => (s.subs.length, s.stopped.contains 1)) = some (0, true) := by decide

/-! ### The same histories under the candidate repairs -/

example : (run repaired {} [.subscribe 1, .sockClose]).map (fun s => paired s.log) = some true := by decide
example : (run repaired {} [.subscribe 1, .mutate 1, .unsubscribe 1]).map orphanAlive = some [] := by decide
example : (run repaired {} [.subscribe 1, .runFail 0, .unsubscribe 1, .subscribe 1, .deferred 0]).map
    (fun s => (s.subs.length, s.stopped.contains 1)) = some (1, false) := by decide

end Conn
