/-! Spike: diff/merge round trip on maps (sorted association lists, fuel recursion). -/

inductive J where
  | null : J
  | sc : Int → J
  | arr : List J → J
  | obj : List (Nat × J) → J
deriving Repr, Inhabited

namespace J

mutual
def strip : J → J
  | .null => .null
  | .sc s => .sc s
  | .arr xs => .arr (stripL xs)
  | .obj kvs => .obj (stripO kvs)
def stripL : List J → List J
  | [] => []
  | x :: xs => strip x :: stripL xs
def stripO : List (Nat × J) → List (Nat × J)
  | [] => []
  | (k, v) :: kvs => if k = 0 then stripO kvs else (k, strip v) :: stripO kvs
end

mutual
def depth : J → Nat
  | .null => 0
  | .sc _ => 0
  | .arr xs => depthL xs + 1
  | .obj kvs => depthO kvs + 1
def depthL : List J → Nat
  | [] => 0
  | x :: xs => max (depth x) (depthL xs)
def depthO : List (Nat × J) → Nat
  | [] => 0
  | (_, v) :: kvs => max (depth v) (depthO kvs)
end

def markReplaced : J → J
  | .sc n => .sc n
  | x => .arr [strip x]

def removed : J := .arr []

def keyOf : List (Nat × J) → Option J
  | (0, v) :: _ => some v
  | _ => none

def keyEq : Option J → Option J → Bool
  | none, none => true
  | some (.sc a), some (.sc b) => a == b
  | some .null, some .null => true
  | _, _ => false

def diffKvs (d : J → J → Option J) : List (Nat × J) → List (Nat × J) → List (Nat × J)
  | [], [] => []
  | (k, _) :: os, [] => (k, removed) :: diffKvs d os []
  | [], (k, v) :: ns => (k, markReplaced v) :: diffKvs d [] ns
  | (ko, vo) :: os, (kn, vn) :: ns =>
      if ko < kn then (ko, removed) :: diffKvs d os ((kn, vn) :: ns)
      else if kn < ko then (kn, markReplaced vn) :: diffKvs d ((ko, vo) :: os) ns
      else match d vo vn with
        | none => diffKvs d os ns
        | some x => (ko, x) :: diffKvs d os ns
termination_by os ns => os.length + ns.length

def diff : Nat → J → J → Option J
  | 0, _, _ => none
  | f+1, .obj okvs, .obj nkvs =>
      if !keyEq (keyOf okvs) (keyOf nkvs) then some (markReplaced (.obj nkvs))
      else
        let d := diffKvs (diff f) okvs nkvs
        if d.isEmpty then none else some (.obj d)
  | _+1, .obj _, new => some (markReplaced new)
  | _+1, .sc a, .sc b => if a = b then none else some (.sc b)
  | _+1, .null, .null => none
  | _+1, _, new => some (markReplaced new)

def mergeReplaced : J → Except String J
  | .sc n => .ok (.sc n)
  | .arr (x :: _) => .ok x
  | _ => .error "mergeReplaced"

def isRemoved : J → Bool
  | .arr [] => true
  | _ => false

def mergeKvs (m : J → J → Except String J) :
    List (Nat × J) → List (Nat × J) → Except String (List (Nat × J))
  | [], [] => .ok []
  | (k, v) :: ps, [] => (mergeKvs m ps []).map ((k, v) :: ·)
  | [], (k, d) :: ds => do
      let v ← mergeReplaced d
      let r ← mergeKvs m [] ds
      .ok ((k, v) :: r)
  | (kp, vp) :: ps, (kd, d) :: ds =>
      if kp < kd then (mergeKvs m ps ((kd, d) :: ds)).map ((kp, vp) :: ·)
      else if kd < kp then do
        let v ← mergeReplaced d
        let r ← mergeKvs m ((kp, vp) :: ps) ds
        .ok ((kd, v) :: r)
      else if isRemoved d then mergeKvs m ps ds
      else do
        let v ← m vp d
        let r ← mergeKvs m ps ds
        .ok ((kp, v) :: r)
termination_by ps ds => ps.length + ds.length

def merge : Nat → J → J → Except String J
  | 0, _, _ => .error "fuel"
  | f+1, .obj pkvs, .obj dkvs => (mergeKvs (merge f) pkvs dkvs).map .obj
  | _+1, _, .obj _ => .ok .null
  | _+1, _, d => mergeReplaced d

/-- apply an optional delta -/
def applyD (f : Nat) (prev : J) : Option J → Except String J
  | none => .ok prev
  | some d => merge f prev d

end J
