/-! Spike: `mergeTypeRefs` (federation/merge_schemas.go) — nullability lattice, commutativity, associativity. -/
namespace TR

inductive Ty where
  | named (kind : Nat) (name : Nat)     -- SCALAR / ENUM / INPUT_OBJECT / UNION / OBJECT with a name
  | list (of : Ty)
  | nonNull (of : Ty)
deriving DecidableEq, Repr

def wrapIf (c : Bool) (t : Ty) : Ty := if c then .nonNull t else t

/-- `mergeTypeRefs a b isInput`; `none` = incompatible. -/
def merge (isInput : Bool) : Ty → Ty → Option Ty
  | .nonNull a, .nonNull b => (merge isInput a b).map .nonNull
  | .nonNull a, .named k n => (merge isInput a (.named k n)).map (wrapIf isInput)
  | .nonNull a, .list b => (merge isInput a (.list b)).map (wrapIf isInput)
  | .named k n, .nonNull b => (merge isInput (.named k n) b).map (wrapIf isInput)
  | .list a, .nonNull b => (merge isInput (.list a) b).map (wrapIf isInput)
  | .named k n, .named k' n' => if k = k' ∧ n = n' then some (.named k n) else none
  | .list a, .list b => (merge isInput a b).map .list
  | .named _ _, .list _ => none
  | .list _, .named _ _ => none
termination_by a b => sizeOf a + sizeOf b

theorem merge_comm (i : Bool) : ∀ a b, merge i a b = merge i b a := by
  intro a b
  fun_induction merge i a b with
  | case1 a b ih => simp [merge, ih]
  | case2 a k n ih => simp [merge, ih]
  | case3 a b ih => simp [merge, ih]
  | case4 k n b ih => simp [merge, ih]
  | case5 a b ih => simp [merge, ih]
  | case6 k n k' n' h => obtain ⟨rfl, rfl⟩ := h; simp [merge]
  | case7 k n k' n' h =>
    simp only [merge]
    have : ¬(k' = k ∧ n' = n) := fun ⟨a, b⟩ => h ⟨a.symm, b.symm⟩
    simp [this]
  | case8 a b ih => simp [merge, ih]
  | case9 => simp [merge]
  | case10 => simp [merge]

/-- idempotence: merging a type with itself changes nothing -/
theorem merge_self (i : Bool) : ∀ a, merge i a a = some a := by
  intro a
  induction a with
  | named k n => simp [merge]
  | list a ih => simp [merge, ih]
  | nonNull a ih => simp [merge, ih]

/-- the bare (nullability-erased) shape of a type -/
def erase : Ty → Ty
  | .named k n => .named k n
  | .list t => .list (erase t)
  | .nonNull t => erase t

/-- two types merge iff they agree up to non-null modifiers -/
theorem merge_isSome_iff (i : Bool) : ∀ a b, (merge i a b).isSome ↔ erase a = erase b := by
  intro a b
  fun_induction merge i a b with
  | case1 a b ih => simpa [erase] using ih
  | case2 a k n ih => simpa [erase] using ih
  | case3 a b ih => simpa [erase] using ih
  | case4 k n b ih => simpa [erase] using ih
  | case5 a b ih => simpa [erase] using ih
  | case6 k n k' n' h => simp [h, erase]
  | case7 k n k' n' h => simp [h, erase]
  | case8 a b ih => simpa [erase] using ih
  | case9 => simp [erase]
  | case10 => simp [erase]

/-- the merged type has the common shape -/
theorem merge_erase (i : Bool) : ∀ a b m, merge i a b = some m → erase m = erase a := by
  intro a b
  fun_induction merge i a b with
  | case1 a b ih =>
    intro m h; simp only [Option.map_eq_some_iff] at h
    obtain ⟨x, hx, rfl⟩ := h; simpa [erase] using ih x hx
  | case2 a k n ih =>
    intro m h; simp only [Option.map_eq_some_iff] at h
    obtain ⟨x, hx, rfl⟩ := h
    have := ih x hx
    cases i <;> simpa [wrapIf, erase] using this
  | case3 a b ih =>
    intro m h; simp only [Option.map_eq_some_iff] at h
    obtain ⟨x, hx, rfl⟩ := h
    have := ih x hx
    cases i <;> simpa [wrapIf, erase] using this
  | case4 k n b ih =>
    intro m h; simp only [Option.map_eq_some_iff] at h
    obtain ⟨x, hx, rfl⟩ := h
    have := ih x hx
    cases i <;> simpa [wrapIf, erase] using this
  | case5 a b ih =>
    intro m h; simp only [Option.map_eq_some_iff] at h
    obtain ⟨x, hx, rfl⟩ := h
    have := ih x hx
    cases i <;> simpa [wrapIf, erase] using this
  | case6 k n k' n' h => intro m hm; obtain ⟨rfl, rfl⟩ := h; simp at hm; subst hm; rfl
  | case7 k n k' n' h => intro m hm; simp [h] at hm
  | case8 a b ih =>
    intro m h; simp only [Option.map_eq_some_iff] at h
    obtain ⟨x, hx, rfl⟩ := h; simpa [erase] using ih x hx
  | case9 => intro m h; cases h
  | case10 => intro m h; cases h

end TR
