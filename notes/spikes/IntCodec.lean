/-! Spike: integer column codec (`Valuer` → int64 driver value → `Scanner` with Go's wrapping conversions). -/
namespace IntCodec

inductive Width | w8 | w16 | w32 | w64
deriving DecidableEq, Repr

def Width.pow : Width → Int
  | .w8 => 256 | .w16 => 65536 | .w32 => 4294967296 | .w64 => 18446744073709551616

structure Kind where
  width : Width
  signed : Bool
deriving DecidableEq, Repr

/-- the values a Go integer of this kind can hold -/
def inRange (k : Kind) (v : Int) : Prop :=
  if k.signed then -(k.width.pow / 2) ≤ v ∧ v < k.width.pow / 2 else 0 ≤ v ∧ v < k.width.pow

/-- Go's conversion of an arbitrary integer to a fixed-width kind (two's complement wrap) -/
def wrap (k : Kind) (x : Int) : Int :=
  if k.signed then (x + k.width.pow / 2) % k.width.pow - k.width.pow / 2 else x % k.width.pow

/-- `Valuer.Value`: `f.value.Int()` for signed kinds, `int64(f.value.Uint())` for unsigned ones -/
def value (k : Kind) (v : Int) : Int :=
  if k.signed then v else wrap ⟨.w64, true⟩ v

/-- `Scanner.Scan` on an int64 source: `reflect.ValueOf(i.Int64).Convert(s.Type)` -/
def scan (k : Kind) (x : Int) : Int := wrap k x

/-- the driver value is always a legal int64 -/
theorem value_is_int64 (k : Kind) (v : Int) (h : inRange k v) : inRange ⟨.w64, true⟩ (value k v) := by
  obtain ⟨w, s⟩ := k
  cases w <;> cases s <;> simp [inRange, value, wrap, Width.pow] at h ⊢ <;> omega

/-- **Round trip for every width and signedness, including `uint64` above `MaxInt64`.** -/
theorem scan_value (k : Kind) (v : Int) (h : inRange k v) : scan k (value k v) = v := by
  obtain ⟨w, s⟩ := k
  cases w <;> cases s <;> simp [inRange, scan, value, wrap, Width.pow] at h ⊢ <;> omega

/-- typed binlog source: go-mysql delivers an unsigned column as the *signed* integer of the same width -/
def binlogRepr (k : Kind) (v : Int) : Int := if k.signed then v else wrap ⟨k.width, true⟩ v

theorem scan_binlog (k : Kind) (v : Int) (h : inRange k v) : scan k (binlogRepr k v) = v := by
  obtain ⟨w, s⟩ := k
  cases w <;> cases s <;> simp [inRange, scan, binlogRepr, wrap, Width.pow] at h ⊢ <;> omega

/-- a width mismatch (Go field wider than the column) breaks the binlog path: witness -/
theorem binlog_width_mismatch :
    scan ⟨.w64, false⟩ (binlogRepr ⟨.w32, false⟩ 3000000000) ≠ 3000000000 := by decide

example : inRange ⟨.w64, false⟩ 18446744073709551615 := by simp [inRange, Width.pow]

end IntCodec
