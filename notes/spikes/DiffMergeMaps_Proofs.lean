import Tv.Basic
namespace J

def noKey0 (kvs : List (Nat × J)) : Prop := ∀ p ∈ kvs, p.1 ≠ 0

def sortedK : List (Nat × J) → Prop
  | [] => True
  | [_] => True
  | a :: b :: r => a.1 < b.1 ∧ sortedK (b :: r)

theorem sortedK_tail {a : Nat × J} {r} (h : sortedK (a :: r)) : sortedK r := by
  cases r with
  | nil => trivial
  | cons b r => exact h.2

theorem sortedK_head_lt {a : Nat × J} {r} (h : sortedK (a :: r)) : ∀ p ∈ r, a.1 < p.1 := by
  induction r generalizing a with
  | nil => intro p hp; cases hp
  | cons b r ih =>
    intro p hp
    cases hp with
    | head => exact h.1
    | tail _ hp' => exact Nat.lt_trans h.1 (ih h.2 p hp')

theorem mergeReplaced_markReplaced (v : J) : mergeReplaced (markReplaced v) = .ok (strip v) := by
  cases v <;> simp [markReplaced, mergeReplaced, strip]

theorem isRemoved_markReplaced (v : J) : isRemoved (markReplaced v) = false := by
  cases v <;> simp [markReplaced, isRemoved]


theorem diffKvs_keys (d : J → J → Option J) (os ns : List (Nat × J)) :
    ∀ p ∈ diffKvs d os ns, (∃ q ∈ os, q.1 = p.1) ∨ (∃ q ∈ ns, q.1 = p.1) := by
  fun_induction diffKvs d os ns with
  | case1 => intro p hp; cases hp
  | case2 k v os ih =>
    intro p hp
    simp only [List.mem_cons] at hp
    rcases hp with rfl | hp
    · exact Or.inl ⟨(k, v), by simp, rfl⟩
    · rcases ih p hp with ⟨q, hq, e⟩ | ⟨q, hq, e⟩
      · exact Or.inl ⟨q, by simp [hq], e⟩
      · cases hq
  | case3 k v ns ih =>
    intro p hp
    simp only [List.mem_cons] at hp
    rcases hp with rfl | hp
    · exact Or.inr ⟨(k, v), by simp, rfl⟩
    · rcases ih p hp with ⟨q, hq, e⟩ | ⟨q, hq, e⟩
      · cases hq
      · exact Or.inr ⟨q, by simp [hq], e⟩
  | case4 ko vo os kn vn ns hlt ih =>
    intro p hp
    simp only [List.mem_cons] at hp
    rcases hp with rfl | hp
    · exact Or.inl ⟨(ko, vo), by simp, rfl⟩
    · rcases ih p hp with ⟨q, hq, e⟩ | ⟨q, hq, e⟩
      · exact Or.inl ⟨q, by simp [hq], e⟩
      · exact Or.inr ⟨q, hq, e⟩
  | case5 ko vo os kn vn ns hnlt hlt ih =>
    intro p hp
    simp only [List.mem_cons] at hp
    rcases hp with rfl | hp
    · exact Or.inr ⟨(kn, vn), by simp, rfl⟩
    · rcases ih p hp with ⟨q, hq, e⟩ | ⟨q, hq, e⟩
      · exact Or.inl ⟨q, hq, e⟩
      · exact Or.inr ⟨q, by simp [hq], e⟩
  | case6 ko vo os kn vn ns hnlt hnlt' hd ih =>
    intro p hp
    rcases ih p hp with ⟨q, hq, e⟩ | ⟨q, hq, e⟩
    · exact Or.inl ⟨q, by simp [hq], e⟩
    · exact Or.inr ⟨q, by simp [hq], e⟩
  | case7 ko vo os kn vn ns hnlt hnlt' x hd ih =>
    intro p hp
    simp only [List.mem_cons] at hp
    rcases hp with rfl | hp
    · exact Or.inl ⟨(ko, vo), by simp, rfl⟩
    · rcases ih p hp with ⟨q, hq, e⟩ | ⟨q, hq, e⟩
      · exact Or.inl ⟨q, by simp [hq], e⟩
      · exact Or.inr ⟨q, by simp [hq], e⟩

theorem mergeKvs_skip (m : J → J → Except String J) (k : Nat) (v : J) (ps ds : List (Nat × J))
    (h : ∀ p ∈ ds, k < p.1) :
    mergeKvs m ((k, v) :: ps) ds = (mergeKvs m ps ds).map ((k, v) :: ·) := by
  cases ds with
  | nil => simp [mergeKvs]
  | cons hd ds =>
    obtain ⟨kd, d⟩ := hd
    have : k < kd := h (kd, d) (by simp)
    rw [mergeKvs]
    simp [this]

theorem stripO_keys (kvs : List (Nat × J)) : ∀ p ∈ stripO kvs, ∃ q ∈ kvs, q.1 = p.1 := by
  induction kvs with
  | nil => intro p hp; simp [stripO] at hp
  | cons hd tl ih =>
    obtain ⟨k, v⟩ := hd
    intro p hp
    by_cases hk : k = 0
    · simp [stripO, hk] at hp
      obtain ⟨q, hq, e⟩ := ih p hp
      exact ⟨q, by simp [hq], e⟩
    · simp [stripO, hk] at hp
      rcases hp with rfl | hp
      · exact ⟨(k, v), by simp, rfl⟩
      · obtain ⟨q, hq, e⟩ := ih p hp
        exact ⟨q, by simp [hq], e⟩

/-- Round trip for association lists that contain no `__key` entry. -/
theorem kvs_roundtrip (m : J → J → Except String J) (d : J → J → Option J)
    (okvs nkvs : List (Nat × J))
    (ho : noKey0 okvs) (hn : noKey0 nkvs) (so : sortedK okvs) (sn : sortedK nkvs)
    (H : ∀ po ∈ okvs, ∀ pn ∈ nkvs, po.1 = pn.1 →
      (match d po.2 pn.2 with
        | none => strip po.2 = strip pn.2
        | some x => isRemoved x = false ∧ m (strip po.2) x = .ok (strip pn.2))) :
    mergeKvs m (stripO okvs) (diffKvs d okvs nkvs) = .ok (stripO nkvs) := by
  fun_induction diffKvs d okvs nkvs with
  | case1 => simp [stripO, mergeKvs]
  | case2 k v os ih =>
    have hk : k ≠ 0 := ho (k, v) (by simp)
    have ho' : noKey0 os := fun p hp => ho p (by simp [hp])
    have := ih ho' hn (sortedK_tail so) sn (by intro po hpo pn hpn; cases hpn)
    simp [stripO, hk, mergeKvs, removed, isRemoved] 
    simpa [stripO] using this
  | case3 k v ns ih =>
    have hk : k ≠ 0 := hn (k, v) (by simp)
    have hn' : noKey0 ns := fun p hp => hn p (by simp [hp])
    have := ih ho hn' so (sortedK_tail sn) (by intro po hpo; cases hpo)
    simp [stripO, hk, mergeKvs, mergeReplaced_markReplaced]
    simp [stripO] at this
    simp [this]
    rfl
  | case4 ko vo os kn vn ns hlt ih =>
    have hko : ko ≠ 0 := ho (ko, vo) (by simp)
    have hkn : kn ≠ 0 := hn (kn, vn) (by simp)
    have ho' : noKey0 os := fun p hp => ho p (by simp [hp])
    have := ih ho' hn (sortedK_tail so) sn (by
      intro po hpo pn hpn hk
      exact H po (by simp [hpo]) pn hpn hk)
    simp only [stripO, hko, hkn, if_false] at this ⊢
    unfold mergeKvs
    simp [hlt, removed, isRemoved, Nat.lt_irrefl]
    exact this
  | case5 ko vo os kn vn ns hnlt hlt ih =>
    have hko : ko ≠ 0 := ho (ko, vo) (by simp)
    have hkn : kn ≠ 0 := hn (kn, vn) (by simp)
    have hn' : noKey0 ns := fun p hp => hn p (by simp [hp])
    have := ih ho hn' so (sortedK_tail sn) (by
      intro po hpo pn hpn hk
      exact H po hpo pn (by simp [hpn]) hk)
    simp only [stripO, hko, hkn, if_false] at this ⊢
    unfold mergeKvs
    simp [hnlt, hlt, mergeReplaced_markReplaced, this]
    rfl
  | case6 ko vo os kn vn ns hnlt hnlt' hd ih =>
    have hko : ko ≠ 0 := ho (ko, vo) (by simp)
    have hkn : kn ≠ 0 := hn (kn, vn) (by simp)
    have heq : ko = kn := by omega
    have ho' : noKey0 os := fun p hp => ho p (by simp [hp])
    have hn' : noKey0 ns := fun p hp => hn p (by simp [hp])
    have := ih ho' hn' (sortedK_tail so) (sortedK_tail sn) (by
      intro po hpo pn hpn hk
      exact H po (by simp [hpo]) pn (by simp [hpn]) hk)
    have hH := H (ko, vo) (by simp) (kn, vn) (by simp) heq
    simp only [hd] at hH
    simp only [stripO, hko, hkn, if_false]
    rw [mergeKvs_skip]
    · simp [this, hH, heq, Except.map]
    · intro p hp
      rcases diffKvs_keys d os ns p hp with ⟨q, hq, e⟩ | ⟨q, hq, e⟩
      · rw [← e]; exact sortedK_head_lt so q hq
      · rw [← e, heq]; exact sortedK_head_lt sn q hq
  | case7 ko vo os kn vn ns hnlt hnlt' x hd ih =>
    have hko : ko ≠ 0 := ho (ko, vo) (by simp)
    have hkn : kn ≠ 0 := hn (kn, vn) (by simp)
    have heq : ko = kn := by omega
    have ho' : noKey0 os := fun p hp => ho p (by simp [hp])
    have hn' : noKey0 ns := fun p hp => hn p (by simp [hp])
    have := ih ho' hn' (sortedK_tail so) (sortedK_tail sn) (by
      intro po hpo pn hpn hk
      exact H po (by simp [hpo]) pn (by simp [hpn]) hk)
    have hH := H (ko, vo) (by simp) (kn, vn) (by simp) heq
    simp only [hd] at hH
    simp only [stripO, hko, hkn, if_false]
    unfold mergeKvs
    simp [Nat.lt_irrefl, hH.1, hH.2, this, heq]
    rfl

end J

namespace J

def keyOK (kvs : List (Nat × J)) : Prop :=
  match keyOf kvs with
  | none => True
  | some (.sc _) => True
  | some .null => True
  | _ => False

mutual
def WFJ : J → Prop
  | .null => True
  | .sc _ => True
  | .arr xs => WFL xs
  | .obj kvs => sortedK kvs ∧ keyOK kvs ∧ WFO kvs
def WFL : List J → Prop
  | [] => True
  | x :: xs => WFJ x ∧ WFL xs
def WFO : List (Nat × J) → Prop
  | [] => True
  | (_, v) :: kvs => WFJ v ∧ WFO kvs
end

theorem WFO_mem {kvs : List (Nat × J)} (h : WFO kvs) : ∀ p ∈ kvs, WFJ p.2 := by
  induction kvs with
  | nil => intro p hp; cases hp
  | cons hd tl ih =>
    obtain ⟨k, v⟩ := hd
    intro p hp
    simp only [List.mem_cons] at hp
    rcases hp with rfl | hp
    · exact h.1
    · exact ih h.2 p hp

theorem depthO_mem {kvs : List (Nat × J)} : ∀ p ∈ kvs, depth p.2 ≤ depthO kvs := by
  induction kvs with
  | nil => intro p hp; cases hp
  | cons hd tl ih =>
    obtain ⟨k, v⟩ := hd
    intro p hp
    simp only [List.mem_cons] at hp
    rcases hp with rfl | hp
    · simp [depthO]; omega
    · have := ih p hp
      simp [depthO]; omega

theorem diff_not_removed (f : Nat) (a b x : J) (h : diff f a b = some x) : isRemoved x = false := by
  cases f with
  | zero => simp [diff] at h
  | succ f =>
    cases a <;> cases b <;> simp [diff] at h <;>
      first
        | (subst h; simp [markReplaced, isRemoved, strip])
        | skip
    · obtain ⟨_, rfl⟩ := h; simp [isRemoved]
    · split at h
      · injection h with h; subst h; simp [markReplaced, isRemoved]
      · split at h
        · cases h
        · injection h with h; subst h; simp [isRemoved]

end J

namespace J

theorem sortedK_noKey0_tail {k : Nat} {v : J} {r : List (Nat × J)} (h : sortedK ((k, v) :: r)) : noKey0 r := by
  intro p hp
  have := sortedK_head_lt h p hp
  simp at this
  omega

theorem noKey0_of_head {k : Nat} {v : J} {r : List (Nat × J)} (h : sortedK ((k, v) :: r)) (hk : k ≠ 0) :
    noKey0 ((k, v) :: r) := by
  intro p hp
  simp only [List.mem_cons] at hp
  rcases hp with rfl | hp
  · exact hk
  · exact sortedK_noKey0_tail h p hp

theorem merge_nonobj (f : Nat) (prev v : J) :
    merge (f+1) prev (markReplaced v) = .ok (strip v) := by
  cases v <;> cases prev <;> simp [markReplaced, merge, mergeReplaced, strip]


theorem mergeKvs_nil (m : J → J → Except String J) (ps : List (Nat × J)) : mergeKvs m ps [] = .ok ps := by
  induction ps with
  | nil => simp [mergeKvs]
  | cons hd tl ih => obtain ⟨k, v⟩ := hd; simp [mergeKvs, ih, Except.map]

theorem elemH (f : Nat)
    (ih : ∀ (old new : J), depth old < f → WFJ old → WFJ new →
      applyD f (strip old) (diff f old new) = .ok (strip new))
    (os ns : List (Nat × J)) (hd : depthO os < f) (wo : WFO os) (wn : WFO ns) :
    ∀ po ∈ os, ∀ pn ∈ ns, po.1 = pn.1 →
      (match diff f po.2 pn.2 with
        | none => strip po.2 = strip pn.2
        | some x => isRemoved x = false ∧ merge f (strip po.2) x = .ok (strip pn.2)) := by
  intro po hpo pn hpn _
  have h1 : depth po.2 < f := Nat.lt_of_le_of_lt (depthO_mem po hpo) hd
  have := ih po.2 pn.2 h1 (WFO_mem wo po hpo) (WFO_mem wn pn hpn)
  cases hdf : diff f po.2 pn.2 with
  | none =>
    simp [hdf, applyD] at this
    simpa using this
  | some x =>
    simp [hdf, applyD] at this
    exact ⟨diff_not_removed f _ _ x hdf, this⟩

/-- Round trip for the field lists of two objects whose `__key`s agree. -/
theorem obj_roundtrip (f : Nat)
    (ih : ∀ (old new : J), depth old < f → WFJ old → WFJ new →
      applyD f (strip old) (diff f old new) = .ok (strip new))
    (okvs nkvs : List (Nat × J)) (hd : depthO okvs < f)
    (so : sortedK okvs) (sn : sortedK nkvs) (ko : keyOK okvs) (kn : keyOK nkvs)
    (wo : WFO okvs) (wn : WFO nkvs)
    (hk : keyEq (keyOf okvs) (keyOf nkvs) = true) :
    mergeKvs (merge f) (stripO okvs) (diffKvs (diff f) okvs nkvs) = .ok (stripO nkvs) := by
  -- does the old object start with a `__key` entry?
  cases okvs with
  | nil =>
    -- old has no key, so new has none either
    cases nkvs with
    | nil => simp [stripO, diffKvs, mergeKvs]
    | cons hn tn =>
      obtain ⟨k', v'⟩ := hn
      cases k' with
      | zero => cases v' <;> simp [keyOf, keyEq] at hk
      | succ k' =>
        exact kvs_roundtrip _ _ [] _ (by intro p hp; cases hp)
          (noKey0_of_head sn (by omega)) so sn
          (elemH f ih [] _ hd wo wn)
  | cons ho to =>
    obtain ⟨k, v⟩ := ho
    cases k with
    | succ k =>
      cases nkvs with
      | nil =>
        exact kvs_roundtrip _ _ _ [] (noKey0_of_head so (by omega)) (by intro p hp; cases hp) so sn
          (elemH f ih _ [] hd wo wn)
      | cons hn tn =>
        obtain ⟨k', v'⟩ := hn
        cases k' with
        | zero => cases v' <;> simp [keyOf, keyEq] at hk
        | succ k' =>
          exact kvs_roundtrip _ _ _ _ (noKey0_of_head so (by omega)) (noKey0_of_head sn (by omega)) so sn
            (elemH f ih _ _ hd wo wn)
    | zero =>
      cases nkvs with
      | nil => cases v <;> simp [keyOf, keyEq] at hk
      | cons hn tn =>
        obtain ⟨k', v'⟩ := hn
        cases k' with
        | succ k' => cases v <;> simp [keyOf, keyEq] at hk
        | zero =>
          -- both start with `__key`; the keys are equal scalars (or both null), so no delta entry
          have hdiff : diff f v v' = none := by
            cases f with
            | zero => simp [diff]
            | succ f =>
              cases v <;> cases v' <;> simp [keyOf, keyEq] at hk <;> simp [diff, hk]
          have hdt : depthO to < f := by
            have : depthO to ≤ depthO ((0, v) :: to) := by simp [depthO]; omega
            omega
          have := kvs_roundtrip (merge f) (diff f) to tn (sortedK_noKey0_tail so) (sortedK_noKey0_tail sn)
            (sortedK_tail so) (sortedK_tail sn) (elemH f ih to tn hdt wo.2 wn.2)
          rw [diffKvs]
          simp [hdiff, stripO, this]

/-- Main round trip (maps + scalars; arrays are replaced wholesale in this spike). -/
theorem roundtrip : ∀ (f : Nat) (old new : J), depth old < f → WFJ old → WFJ new →
    applyD f (strip old) (diff f old new) = .ok (strip new) := by
  intro f
  induction f with
  | zero => intro old new h; omega
  | succ f ih =>
    intro old new hd wo wn
    cases old with
    | null =>
      cases new <;> simp [diff, applyD, strip, merge_nonobj]
    | sc a =>
      cases new with
      | sc b =>
        by_cases hab : a = b
        · simp [diff, hab, applyD, strip]
        · simp [diff, hab, applyD, strip, merge, mergeReplaced]
      | _ => simp [diff, applyD, merge_nonobj]
    | arr xs =>
      cases new <;> simp [diff, applyD, merge_nonobj]
    | obj okvs =>
      cases new with
      | obj nkvs =>
        have hdO : depthO okvs < f := by simp [depth] at hd; omega
        obtain ⟨so, ko, wo'⟩ := wo
        obtain ⟨sn, kn, wn'⟩ := wn
        by_cases hk : keyEq (keyOf okvs) (keyOf nkvs) = true
        · have L := obj_roundtrip f ih okvs nkvs hdO so sn ko kn wo' wn' hk
          by_cases hemp : diffKvs (diff f) okvs nkvs = []
          · rw [hemp, mergeKvs_nil] at L
            injection L with L
            simp [diff, hk, hemp, applyD, strip, L]
          · simp [diff, hk, hemp, applyD, strip, merge, L, Except.map]
        · simp [diff, hk, applyD, merge_nonobj]
      | _ => simp [diff, applyD, merge_nonobj]

end J
