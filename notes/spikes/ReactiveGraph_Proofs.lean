import Tv.Graph
namespace RG

theorem good_init : Good init := by
  constructor
  · intro n m h; simp [init] at h
  · intro n; simp [init]

theorem Pending.mono {ts ts' : List Tk} {m : Nat} (h : Pending ts m) (sub : ∀ t ∈ ts, t ∈ ts') : Pending ts' m := by
  rcases h with h | ⟨rest, h, hm⟩
  · exact Or.inl (sub _ h)
  · exact Or.inr ⟨rest, sub _ h, hm⟩

theorem closure_step {s s' : St} (g : Good s) (st : Step s s') : Closure s' := by
  obtain ⟨cl, _⟩ := g
  cases st with
  | extInvalidate n =>
    intro a b ha hb
    rcases cl a b ha hb with h | h
    · exact Or.inl h
    · exact Or.inr (h.mono (by intro t ht; simp [ht]))
  | extStrobe n =>
    intro a b ha hb
    rcases cl a b ha hb with h | h
    · exact Or.inl h
    · exact Or.inr (h.mono (by intro t ht; simp [ht]))
  | addOut n to =>
    intro a b ha hb
    dsimp only at ha hb ⊢
    -- flags are unchanged by addEdge
    have flag : ∀ x, (upd s.nodes n (addEdge (s.nodes n) to) x).invalidated = (s.nodes x).invalidated := by
      intro x; by_cases hx : x = n
      · subst hx; simp [addEdge]
      · simp [upd_other _ _ _ _ hx]
    simp only [flag] at ha ⊢
    have sub : ∀ t ∈ s.tasks, t ∈ (if (s.nodes n).invalidated && !(s.nodes to).invalidated
        then Tk.inv to :: s.tasks else s.tasks) := by
      intro t ht; split <;> simp [ht]
    by_cases han : a = n
    · subst han
      simp [addEdge] at hb
      rcases hb with rfl | hb
      · -- the new edge
        by_cases hto : (s.nodes b).invalidated = true
        · exact Or.inl hto
        · right; left
          simp [ha, hto]
      · rcases cl a b ha hb with h | h
        · exact Or.inl h
        · exact Or.inr (h.mono sub)
    · rw [upd_other _ _ _ _ han] at hb
      rcases cl a b ha hb with h | h
      · exact Or.inl h
      · exact Or.inr (h.mono sub)
  | handle n hh =>
    intro a b ha hb
    have flag : ∀ x, (upd s.nodes n (doHandle (s.nodes n)) x).invalidated = (s.nodes x).invalidated := by
      intro x; by_cases hx : x = n
      · subst hx; simp [doHandle]
      · simp [upd_other _ _ _ _ hx]
    have outs : ∀ x, (upd s.nodes n (doHandle (s.nodes n)) x).out = (s.nodes x).out := by
      intro x; by_cases hx : x = n
      · subst hx; simp [doHandle]
      · simp [upd_other _ _ _ _ hx]
    simp only [flag, outs] at ha hb ⊢
    exact cl a b ha hb
  | runInvNoop pre post n h hi =>
    intro a b ha hb
    rcases cl a b ha hb with hb' | hp
    · exact Or.inl hb'
    · rcases hp with hp | ⟨rest, hp, hm⟩
      · rw [h] at hp
        simp only [List.mem_append, List.mem_cons] at hp
        rcases hp with hp | hp | hp
        · exact Or.inr (Or.inl (by simp [hp]))
        · injection hp with e; subst e; exact Or.inl hi
        · exact Or.inr (Or.inl (by simp [hp]))
      · rw [h] at hp
        simp only [List.mem_append, List.mem_cons] at hp
        rcases hp with hp | hp | hp
        · exact Or.inr (Or.inr ⟨rest, by simp [hp], hm⟩)
        · cases hp
        · exact Or.inr (Or.inr ⟨rest, by simp [hp], hm⟩)
  | runInv pre post n h hi =>
    intro a b ha hb
    dsimp only at ha hb ⊢
    have outs : ∀ x, (upd s.nodes n (doInvalidate (s.nodes n)) x).out = (s.nodes x).out := by
      intro x; by_cases hx : x = n
      · subst hx; simp [doInvalidate]
      · simp [upd_other _ _ _ _ hx]
    have flagn : (upd s.nodes n (doInvalidate (s.nodes n)) n).invalidated = true := by simp [doInvalidate]
    rw [outs] at hb
    by_cases han : a = n
    · subst han
      -- the freshly invalidated node: every dependant is in the snapshot
      exact Or.inr (Or.inr ⟨(s.nodes a).out, by simp, hb⟩)
    · rw [upd_other _ _ _ _ han] at ha
      by_cases hbn : b = n
      · subst hbn; exact Or.inl flagn
      · rw [upd_other _ _ _ _ hbn]
        rcases cl a b ha hb with hb' | hp
        · exact Or.inl hb'
        · rcases hp with hp | ⟨rest, hp, hm⟩
          · rw [h] at hp
            simp only [List.mem_append, List.mem_cons] at hp
            rcases hp with hp | hp | hp
            · exact Or.inr (Or.inl (by simp [hp]))
            · injection hp with e; exact absurd e hbn
            · exact Or.inr (Or.inl (by simp [hp]))
          · rw [h] at hp
            simp only [List.mem_append, List.mem_cons] at hp
            rcases hp with hp | hp | hp
            · exact Or.inr (Or.inr ⟨rest, by simp [hp], hm⟩)
            · cases hp
            · exact Or.inr (Or.inr ⟨rest, by simp [hp], hm⟩)
  | runProp pre post m rest h =>
    intro a b ha hb
    rcases cl a b ha hb with hb' | hp
    · exact Or.inl hb'
    · rcases hp with hp | ⟨r, hp, hm⟩
      · rw [h] at hp
        simp only [List.mem_append, List.mem_cons] at hp
        rcases hp with hp | hp | hp
        · exact Or.inr (Or.inl (by simp [hp]))
        · cases hp
        · exact Or.inr (Or.inl (by simp [hp]))
      · rw [h] at hp
        simp only [List.mem_append, List.mem_cons] at hp
        rcases hp with hp | hp | hp
        · exact Or.inr (Or.inr ⟨r, by simp [hp], hm⟩)
        · injection hp with e; subst e
          simp only [List.mem_cons] at hm
          rcases hm with rfl | hm
          · exact Or.inr (Or.inl (by simp))
          · exact Or.inr (Or.inr ⟨rest, by simp, hm⟩)
        · exact Or.inr (Or.inr ⟨r, by simp [hp], hm⟩)
  | dropProp pre post h =>
    intro a b ha hb
    rcases cl a b ha hb with hb' | hp
    · exact Or.inl hb'
    · rcases hp with hp | ⟨r, hp, hm⟩
      · rw [h] at hp
        simp only [List.mem_append, List.mem_cons] at hp
        rcases hp with hp | hp | hp
        · exact Or.inr (Or.inl (by simp [hp]))
        · cases hp
        · exact Or.inr (Or.inl (by simp [hp]))
      · rw [h] at hp
        simp only [List.mem_append, List.mem_cons] at hp
        rcases hp with hp | hp | hp
        · exact Or.inr (Or.inr ⟨r, by simp [hp], hm⟩)
        · injection hp with e; subst e; cases hm
        · exact Or.inr (Or.inr ⟨r, by simp [hp], hm⟩)

theorem handler_step {s s' : St} (g : Good s) (st : Step s s') : HandlerOnce s' := by
  obtain ⟨_, ho⟩ := g
  cases st with
  | extInvalidate n => exact ho
  | extStrobe n => exact ho
  | addOut n to =>
    intro x
    by_cases hx : x = n
    · subst hx; have := ho x; simp [addEdge] at this ⊢; exact this
    · simp only [upd_other _ _ _ _ hx]; exact ho x
  | handle n hh =>
    intro x
    by_cases hx : x = n
    · subst hx
      have := ho x
      simp [hh] at this
      simp [doHandle, this]
    · simp only [upd_other _ _ _ _ hx]; exact ho x
  | runInvNoop pre post n h hi => exact ho
  | runInv pre post n h hi =>
    intro x
    by_cases hx : x = n
    · subst hx
      have := ho x
      simp [hi] at this
      simp [doInvalidate, this]
    · simp only [upd_other _ _ _ _ hx]; exact ho x
  | runProp pre post m rest h => exact ho
  | dropProp pre post h => exact ho

theorem good_reachable {s : St} (r : Reachable s) : Good s := by
  induction r with
  | init => exact good_init
  | step _ st ih => exact ⟨closure_step ih st, handler_step ih st⟩

/-- No lost invalidation (safety half): in a quiescent reachable state the set of invalidated nodes is
closed under dependency edges, and every registered handler of an invalidated node has run exactly once. -/
theorem quiescent_closed {s : St} (r : Reachable s) (q : s.tasks = []) :
    (∀ n m, (s.nodes n).invalidated = true → m ∈ (s.nodes n).out → (s.nodes m).invalidated = true) ∧
    (∀ n, (s.nodes n).handled = true → (s.nodes n).invalidated = true → (s.nodes n).fired = 1) := by
  obtain ⟨cl, ho⟩ := good_reachable r
  constructor
  · intro n m hn hm
    rcases cl n m hn hm with h | h
    · exact h
    · rcases h with h | ⟨rest, h, _⟩ <;> simp [q] at h
  · intro n hh hi
    have := ho n
    simpa [hh, hi] using this

end RG
