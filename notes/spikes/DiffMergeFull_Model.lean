import Tv.Basic
import Tv.Rle
/-! Spike: full diff/merge model with arrays (any in-bounds index assignment), repaired encodings. -/
namespace J

def pickOld (os : List J) (i : Int) : J :=
  if 0 ≤ i then os.getD i.toNat .null else .null

def encItem : Rle.Item → J
  | .one x => .sc x
  | .run s c => .arr [.sc s, .sc c]

def decItem : J → Except String Rle.Item
  | .sc x => .ok (.one x)
  | .arr [.sc s, .sc c] => if 0 ≤ c then .ok (.run s c.toNat) else .error "count"
  | _ => .error "index item"

def decItems : List J → Except String (List Rle.Item)
  | [] => .ok []
  | x :: xs => do
      let i ← decItem x
      let r ← decItems xs
      .ok (i :: r)

def encIdx (l : List Int) : J := .arr ((Rle.compress l).map encItem)

def decIdx : J → Except String (List Int)
  | .arr xs => (decItems xs).map Rle.uncompress
  | _ => .error "indices"

/-- element-wise deltas between the matched old elements `bs` and the new elements -/
def diffElems (d : J → J → Option J) : List J → List J → Nat → List (Nat × J)
  | b :: bs, n :: ns, pos =>
      match d b n with
      | none => diffElems d bs ns (pos + 1)
      | some x => (pos + 1, x) :: diffElems d bs ns (pos + 1)
  | _, _, _ => []

def identityIdx (idx : List Int) (oldLen : Nat) : Bool :=
  idx == (List.range oldLen).map Int.ofNat

def diffArr (d : J → J → Option J) (asg : List J → List J → List Int) (os ns : List J) : Option J :=
  let idx := asg os ns
  let elems := diffElems d (idx.map (pickOld os)) ns 0
  let all := if identityIdx idx os.length then elems else (0, encIdx idx) :: elems
  if all.isEmpty then none else some (.obj all)

def applyElems (m : J → J → Except String J) : List J → List (Nat × J) → Except String (List J)
  | base, [] => .ok base
  | base, (k, d) :: rest =>
      if k = 0 then .error "misplaced $"
      else if h : k - 1 < base.length then do
        let v ← m base[k - 1] d
        applyElems m (base.set (k - 1) v) rest
      else .error "index out of range"

def mergeArr (m : J → J → Except String J) (ps : List J) : List (Nat × J) → Except String J
  | (0, enc) :: rest => do
      let idx ← decIdx enc
      let r ← applyElems m (idx.map (pickOld ps)) rest
      .ok (.arr r)
  | rest => (applyElems m ps rest).map .arr

def diffA (asg : List J → List J → List Int) : Nat → J → J → Option J
  | 0, _, _ => none
  | f+1, .obj okvs, .obj nkvs =>
      if !keyEq (keyOf okvs) (keyOf nkvs) then some (markReplaced (.obj nkvs))
      else
        let d := diffKvs (diffA asg f) okvs nkvs
        if d.isEmpty then none else some (.obj d)
  | f+1, .arr os, .arr ns => diffArr (diffA asg f) asg os ns
  | _+1, .sc a, .sc b => if a = b then none else some (.sc b)
  | _+1, .null, .null => none
  | _+1, _, new => some (markReplaced new)

def mergeA : Nat → J → J → Except String J
  | 0, _, _ => .error "fuel"
  | f+1, .obj pkvs, .obj dkvs => (mergeKvs (mergeA f) pkvs dkvs).map .obj
  | f+1, .arr ps, .obj dkvs => mergeArr (mergeA f) ps dkvs
  | _+1, _, .obj _ => .ok .null
  | _+1, _, d => mergeReplaced d

def applyA (f : Nat) (prev : J) : Option J → Except String J
  | none => .ok prev
  | some d => mergeA f prev d

end J
