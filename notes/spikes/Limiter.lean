/-! Spike: concurrency limiter (current protocol) as an executable transition system. -/
namespace CL

inductive Status | acquired | blocked | released
deriving DecidableEq, Repr

inductive TR | none | needRecv | running (casOk : Bool) | needSend
deriving DecidableEq, Repr

structure Holder where
  status : Status
  tr : TR := .none
  relRecv : Nat := 0      -- release() calls that swapped from `acquired` and still owe a receive
deriving DecidableEq, Repr

structure St where
  cap : Nat
  chan : Nat
  holders : List Holder
deriving Repr

inductive Label
  | acquire
  | releaseSwap (h : Nat)
  | releaseRecv (h : Nat)
  | blockCas (h : Nat)
  | blockRecv (h : Nat)
  | fDone (h : Nat)
  | deferSend (h : Nat)
deriving Repr

def init (cap : Nat) : St := ⟨cap, 0, []⟩

def setH (s : St) (i : Nat) (h : Holder) : St := { s with holders := s.holders.set i h }

def step? (s : St) : Label → Option St
  | .acquire =>
      if s.chan < s.cap then some { s with chan := s.chan + 1, holders := s.holders ++ [⟨.acquired, .none, 0⟩] }
      else none
  | .releaseSwap i =>
      match s.holders[i]? with
      | some h =>
          if h.status = .acquired then some (setH s i { h with status := .released, relRecv := h.relRecv + 1 })
          else some (setH s i { h with status := .released })
      | none => none
  | .releaseRecv i =>
      match s.holders[i]? with
      | some h =>
          if 0 < h.relRecv ∧ 0 < s.chan then
            some { (setH s i { h with relRecv := h.relRecv - 1 }) with chan := s.chan - 1 }
          else none
      | none => none
  | .blockCas i =>
      match s.holders[i]? with
      | some h =>
          if h.tr = .none then
            if h.status = .acquired then some (setH s i { h with status := .blocked, tr := .needRecv })
            else some (setH s i { h with tr := .running false })
          else none
      | none => none
  | .blockRecv i =>
      match s.holders[i]? with
      | some h =>
          if h.tr = .needRecv ∧ 0 < s.chan then
            some { (setH s i { h with tr := .running true }) with chan := s.chan - 1 }
          else none
      | none => none
  | .fDone i =>
      match s.holders[i]? with
      | some h =>
          match h.tr with
          | .running ok =>
              if ok ∧ h.status = .blocked then some (setH s i { h with status := .acquired, tr := .needSend })
              else some (setH s i { h with tr := .none })
          | _ => none
      | none => none
  | .deferSend i =>
      match s.holders[i]? with
      | some h =>
          if h.tr = .needSend ∧ s.chan < s.cap then
            some { (setH s i { h with tr := .none }) with chan := s.chan + 1 }
          else none
      | none => none

def run (s : St) : List Label → Option St
  | [] => some s
  | l :: ls => (step? s l).bind (fun s' => run s' ls)

/-- holders that acquired, have not released and are not inside TemporarilyRelease -/
def running (s : St) : Nat := (s.holders.filter (fun h => h.status = .acquired ∧ h.tr = .none)).length

/-- Witness: limit 2, three holders running at once (release lands in the re-acquire window). -/
def badSchedule : List Label :=
  [.acquire, .acquire, .blockCas 0, .blockRecv 0, .fDone 0, .releaseSwap 0, .releaseRecv 0, .acquire, .acquire]

theorem running_le_cap_false : (run (init 2) badSchedule).map running = some 3 := by decide

end CL
