/-! Spike: reactive invalidation graph as a labelled transition system; invariants for every reachable state. -/
namespace RG

structure Node where
  out : List Nat := []
  invalidated : Bool := false
  handled : Bool := false      -- handleInvalidate has been called
  fired : Nat := 0             -- number of times the invalidate handler ran
deriving Repr

inductive Tk where
  | inv (n : Nat)                   -- about to enter invalidate's critical section on n
  | prop (rest : List Nat)          -- looping over a snapshot of out edges
deriving Repr, DecidableEq

structure St where
  nodes : Nat → Node
  tasks : List Tk

def upd (f : Nat → Node) (n : Nat) (v : Node) : Nat → Node := fun m => if m = n then v else f m

@[simp] theorem upd_same (f : Nat → Node) (n v) : upd f n v n = v := by simp [upd]
theorem upd_other (f : Nat → Node) (n v m) (h : m ≠ n) : upd f n v m = f m := by simp [upd, h]

def init : St := { nodes := fun _ => {}, tasks := [] }

def addEdge (x : Node) (to : Nat) : Node := { x with out := to :: x.out }
def doHandle (x : Node) : Node :=
  { x with handled := true, fired := if x.invalidated then x.fired + 1 else x.fired }
def doInvalidate (x : Node) : Node :=
  { x with invalidated := true, fired := if x.handled then x.fired + 1 else x.fired }

/-- One atomic step of the implementation (critical section or external call). -/
inductive Step : St → St → Prop
  /-- `Resource.Invalidate`: `go r.invalidate()` -/
  | extInvalidate (s : St) (n : Nat) :
      Step s ⟨s.nodes, Tk.inv n :: s.tasks⟩
  /-- `Resource.Strobe`: snapshot of out under the lock, then invalidate each -/
  | extStrobe (s : St) (n : Nat) :
      Step s ⟨s.nodes, Tk.prop (s.nodes n).out :: s.tasks⟩
  /-- `addOut`: one critical section over both nodes -/
  | addOut (s : St) (n to : Nat) :
      Step s ⟨upd s.nodes n (addEdge (s.nodes n) to),
              if (s.nodes n).invalidated && !(s.nodes to).invalidated then Tk.inv to :: s.tasks else s.tasks⟩
  /-- `handleInvalidate`, at most once per node -/
  | handle (s : St) (n : Nat) (h : (s.nodes n).handled = false) :
      Step s ⟨upd s.nodes n (doHandle (s.nodes n)), s.tasks⟩
  /-- `invalidate`'s critical section on an already invalid node -/
  | runInvNoop (s : St) (pre post : List Tk) (n : Nat) (h : s.tasks = pre ++ Tk.inv n :: post)
      (hi : (s.nodes n).invalidated = true) :
      Step s ⟨s.nodes, pre ++ post⟩
  /-- `invalidate`'s critical section (and the handler call that follows it) -/
  | runInv (s : St) (pre post : List Tk) (n : Nat) (h : s.tasks = pre ++ Tk.inv n :: post)
      (hi : (s.nodes n).invalidated = false) :
      Step s ⟨upd s.nodes n (doInvalidate (s.nodes n)), pre ++ Tk.prop (s.nodes n).out :: post⟩
  /-- one iteration of the loop over the snapshot -/
  | runProp (s : St) (pre post : List Tk) (m : Nat) (rest : List Nat)
      (h : s.tasks = pre ++ Tk.prop (m :: rest) :: post) :
      Step s ⟨s.nodes, pre ++ Tk.inv m :: Tk.prop rest :: post⟩
  | dropProp (s : St) (pre post : List Tk) (h : s.tasks = pre ++ Tk.prop [] :: post) :
      Step s ⟨s.nodes, pre ++ post⟩

inductive Reachable : St → Prop
  | init : Reachable init
  | step {s s'} : Reachable s → Step s s' → Reachable s'

/-- `m` is committed to being invalidated by some in-flight task. -/
def Pending (ts : List Tk) (m : Nat) : Prop :=
  Tk.inv m ∈ ts ∨ ∃ rest, Tk.prop rest ∈ ts ∧ m ∈ rest

/-- closure: an invalidated node's dependants are invalidated or about to be -/
def Closure (s : St) : Prop :=
  ∀ n m, (s.nodes n).invalidated = true → m ∈ (s.nodes n).out →
    (s.nodes m).invalidated = true ∨ Pending s.tasks m

/-- the handler has run exactly once iff the node is invalidated and a handler was registered -/
def HandlerOnce (s : St) : Prop :=
  ∀ n, (s.nodes n).fired = if (s.nodes n).handled && (s.nodes n).invalidated then 1 else 0

def Good (s : St) : Prop := Closure s ∧ HandlerOnce s

end RG
