import Tv.Conn
namespace Conn

/-- every live rerunner is reachable from `conn.subscriptions`; rerunner identities are allocated; ids are unique -/
structure Inv (s : St) : Prop where
  tracked : ∀ rid, alive s rid = true → ∃ e ∈ s.subs, e.rid = rid
  alloc : ∀ e ∈ s.subs, e.rid < s.nextRid
  ids : (s.subs.map (·.id)).Nodup

theorem inv_init : Inv ({} : St) := by
  refine ⟨?_, ?_, ?_⟩
  · intro rid h; simp [alive] at h
  · intro e he; cases he
  · simp

theorem find_none_not_mem {subs : List Entry} {id : Nat} (h : find subs id = none) : id ∉ subs.map (·.id) := by
  simp only [find, List.find?_eq_none] at h
  intro hm
  obtain ⟨e, he, rfl⟩ := List.mem_map.mp hm
  exact h e he (by simp)

theorem find_some_mem {subs : List Entry} {id : Nat} {e : Entry} (h : find subs id = some e) : e ∈ subs ∧ e.id = id := by
  simp only [find] at h
  exact ⟨List.mem_of_find?_eq_some h, by simpa using List.find?_some h⟩

theorem eq_of_nodup_map_id {l : List Entry} (nd : (l.map (·.id)).Nodup) {a b : Entry}
    (ha : a ∈ l) (hb : b ∈ l) (h : a.id = b.id) : a = b := by
  induction l with
  | nil => cases ha
  | cons x xs ih =>
    simp only [List.map_cons, List.nodup_cons] at nd
    simp only [List.mem_cons] at ha hb
    rcases ha with rfl | ha <;> rcases hb with rfl | hb
    · rfl
    · exact absurd (List.mem_map.mpr ⟨b, hb, h.symm⟩) nd.1
    · exact absurd (List.mem_map.mpr ⟨a, ha, h⟩) nd.1
    · exact ih nd.2 ha hb

/-- `closeSubscription` preserves the invariant -/
theorem inv_closeSub (s : St) (id : Nat) (only : Option Nat) (h : Inv s) : Inv (closeSub s id only) := by
  unfold closeSub
  split
  · rename_i e he
    obtain ⟨hmem, hid⟩ := find_some_mem he
    split
    · refine ⟨?_, ?_, ?_⟩
      · intro rid ha
        simp only [alive, List.contains_cons, Bool.and_eq_true, Bool.not_eq_true', Bool.or_eq_false_iff,
          decide_eq_true_eq] at ha
        obtain ⟨⟨hlt, hne, hst⟩, hdead⟩ := ha
        have hst' : rid ∉ s.stopped := by simpa using hst
        have hdead' : rid ∉ s.dead := by simpa using hdead
        have hal : alive s rid = true := by simp [alive, hlt, hst', hdead']
        obtain ⟨e', he', hr⟩ := h.tracked rid hal
        refine ⟨e', ?_, hr⟩
        simp only [List.mem_filter, decide_eq_true_eq, ne_eq]
        refine ⟨he', ?_⟩
        intro hid'
        -- two entries with the same id are the same entry
        have : e' = e := by
          have nd := h.ids
          have h1 : e'.id = e.id := by rw [hid', hid]
          exact eq_of_nodup_map_id nd he' hmem h1
        subst this
        simp [hr] at hne
      · intro e' he'
        exact h.alloc e' (List.mem_filter.mp he').1
      · exact (List.filter_sublist.map _).nodup h.ids
    · exact h
  · exact h

theorem inv_step (s s' : St) (l : Label) (h : Inv s) (st : step? repaired s l = some s') : Inv s' := by
  cases l with
  | subscribe id =>
    simp only [step?] at st
    split at st
    · cases st
    · split at st
      · injection st with st; subst st; exact h
      · split at st
        · injection st with st; subst st; exact h
        · rename_i _ hnone _
          injection st with st; subst st
          have hnone' : find s.subs id = none := by simpa using hnone
          refine ⟨?_, ?_, ?_⟩
          · intro rid ha
            simp only [alive, Bool.and_eq_true, decide_eq_true_eq] at ha
            by_cases hr : rid = s.nextRid
            · exact ⟨⟨id, .sub, s.nextRid⟩, by simp, hr.symm⟩
            · have hal : alive s rid = true := by
                simp only [alive, Bool.and_eq_true, decide_eq_true_eq]
                exact ⟨⟨by omega, ha.1.2⟩, ha.2⟩
              obtain ⟨e, he, hr'⟩ := h.tracked rid hal
              exact ⟨e, by simp [he], hr'⟩
          · intro e he
            simp only [List.mem_cons] at he
            rcases he with rfl | he
            · simp
            · have := h.alloc e he
              show e.rid < s.nextRid + 1
              omega
          · simp only [List.map_cons, List.nodup_cons]
            exact ⟨find_none_not_mem hnone', h.ids⟩
  | mutate id =>
    simp only [step?, repaired, Bool.true_and] at st
    split at st
    · cases st
    · split at st
      · injection st with st; subst st; exact h
      · rename_i _ hnone
        injection st with st; subst st
        have hnone' : find s.subs id = none := by simpa using hnone
        have hfil : s.subs.filter (fun e => decide (e.id ≠ id)) = s.subs := by
          apply List.filter_eq_self.mpr
          intro e he
          simp only [decide_eq_true_eq, ne_eq]
          intro hid
          exact find_none_not_mem hnone' (List.mem_map.mpr ⟨e, he, hid⟩)
        rw [hfil]
        refine ⟨?_, ?_, ?_⟩
        · intro rid ha
          simp only [alive, Bool.and_eq_true, decide_eq_true_eq] at ha
          by_cases hr : rid = s.nextRid
          · exact ⟨⟨id, .mut, s.nextRid⟩, by simp, hr.symm⟩
          · have hal : alive s rid = true := by
              simp only [alive, Bool.and_eq_true, decide_eq_true_eq]
              exact ⟨⟨by omega, ha.1.2⟩, ha.2⟩
            obtain ⟨e, he, hr'⟩ := h.tracked rid hal
            exact ⟨e, by simp [he], hr'⟩
        · intro e he
          simp only [List.mem_cons] at he
          rcases he with rfl | he
          · simp
          · have := h.alloc e he
            show e.rid < s.nextRid + 1
            omega
        · simp only [List.map_cons, List.nodup_cons]
          exact ⟨find_none_not_mem hnone', h.ids⟩
  | unsubscribe id =>
    simp only [step?] at st
    split at st
    · cases st
    · injection st with st; subst st; exact inv_closeSub s id none h
  | runOk rid =>
    simp only [step?] at st
    split at st
    · split at st
      · rename_i e he
        split at st
        · injection st with st; subst st
          refine ⟨?_, h.alloc, h.ids⟩
          intro r ha
          apply h.tracked r
          simp only [alive, Bool.and_eq_true, Bool.not_eq_true', List.contains_cons, Bool.or_eq_false_iff] at ha ⊢
          exact ⟨⟨ha.1.1, ha.1.2⟩, ha.2.2⟩
        · injection st with st; subst st
          exact ⟨fun r ha => h.tracked r (by simpa [alive] using ha), h.alloc, h.ids⟩
      · injection st with st; subst st
        exact ⟨fun r ha => h.tracked r (by simpa [alive] using ha), h.alloc, h.ids⟩
    · cases st
  | runFail rid =>
    simp only [step?] at st
    split at st
    · split at st
      · injection st with st; subst st
        refine ⟨?_, h.alloc, h.ids⟩
        intro r ha
        apply h.tracked r
        simp only [alive, Bool.and_eq_true, Bool.not_eq_true', List.contains_cons, Bool.or_eq_false_iff] at ha ⊢
        exact ⟨⟨ha.1.1, ha.1.2⟩, ha.2.2⟩
      · cases st
    · cases st
  | deferred k =>
    simp only [step?] at st
    split at st
    · rename_i id rid hk
      injection st with st; subst st
      apply inv_closeSub
      exact ⟨fun r ha => h.tracked r (by simpa [alive] using ha), h.alloc, h.ids⟩
    · cases st
  | sockClose =>
    simp only [step?] at st
    split at st
    · cases st
    · injection st with st; subst st
      refine ⟨?_, ?_, ?_⟩
      · intro rid ha
        exfalso
        simp only [alive, Bool.and_eq_true, Bool.not_eq_true', decide_eq_true_eq, List.contains_eq_mem,
          List.mem_append, List.mem_map, decide_eq_false_iff_not, not_or] at ha
        obtain ⟨⟨hlt, hns⟩, hd⟩ := ha
        have hal : alive s rid = true := by
          simp [alive, hlt, hns.2, hd]
        obtain ⟨e, he, hr⟩ := h.tracked rid hal
        exact hns.1 ⟨e, he, hr⟩
      · intro e he; cases he
      · simp

/-- **Under the candidate repairs, after any history, every live rerunner is in `conn.subscriptions`**
(so unsubscribe / close can always reach and stop it). -/
theorem no_orphans (ls : List Label) (s : St) (h : run repaired {} ls = some s) :
    ∀ rid, alive s rid = true → ∃ e ∈ s.subs, e.rid = rid := by
  suffices ∀ (s0 : St), Inv s0 → ∀ ls s, run repaired s0 ls = some s → Inv s from
    (this _ inv_init ls s h).tracked
  intro s0 i0 ls
  induction ls generalizing s0 with
  | nil => intro s h; simp [run] at h; subst h; exact i0
  | cons l ls ih =>
    intro s h
    simp only [run] at h
    cases hs : step? repaired s0 l with
    | none => simp [hs] at h
    | some s1 => simp [hs] at h; exact ih s1 (inv_step s0 s1 l i0 hs) s h

/-- after the socket closed, nothing is alive -/
theorem closed_all_stopped (ls : List Label) (s : St) (h : run repaired {} ls = some s) (hc : s.subs = []) :
    ∀ rid, alive s rid = false := by
  intro rid
  cases ha : alive s rid with
  | false => rfl
  | true =>
    obtain ⟨e, he, _⟩ := no_orphans ls s h rid ha
    rw [hc] at he; cases he

end Conn
