/-! Spike: Relay pagination slicing (`applyCursorsToAllEdges` + `paginateManually`), forward walk theorem. -/
namespace Page

structure Args where
  first : Option Nat := none
  last : Option Nat := none
  after : Option Nat := none      -- cursor = key of the element
  before : Option Nat := none

structure Result where
  edges : List Nat
  hasNext : Bool
  hasPrev : Bool
  startCursor : Option Nat
  endCursor : Option Nat
  total : Nat
deriving Repr

def cursorIndex (edges : List Nat) (c : Nat) : Option Nat :=
  let i := edges.idxOf c
  if i < edges.length then some i else none

/-- `applyCursorsToAllEdges` with the repaired comparison (`len(edges)-1` at that point). -/
def applyCursors (edges : List Nat) (before after : Option Nat) : List Nat × Bool × Bool :=
  let (edges1, elemsBefore) :=
    match after with
    | some c => match cursorIndex edges c with
        | some i => (edges.drop (i + 1), decide (i ≠ 0))
        | none => (edges, false)
    | none => (edges, false)
  let (edges2, elemsAfter) :=
    match before with
    | some c => match cursorIndex edges1 c with
        | some i => (edges1.take i, decide (i ≠ edges1.length - 1))
        | none => (edges1, false)
    | none => (edges1, false)
  (edges2, elemsAfter, elemsBefore)

def paginate (all : List Nat) (a : Args) : Result :=
  let (es, elemsAfter, elemsBefore) := applyCursors all a.before a.after
  let hasNext := a.before.isSome && elemsAfter
  let hasPrev := a.after.isSome && elemsBefore
  let (es, hasNext) := match a.first with
    | some n => if es.length > n then (es.take n, true) else (es, hasNext)
    | none => (es, hasNext)
  let (es, hasPrev) := match a.last with
    | some n => if es.length > n then (es.drop (es.length - n), true) else (es, hasPrev)
    | none => (es, hasPrev)
  { edges := es, hasNext := hasNext, hasPrev := hasPrev,
    startCursor := es.head?, endCursor := es.getLast?, total := all.length }

/-- Walk forward: `first: n`, then `after: endCursor` while `hasNextPage`. -/
def walk (all : List Nat) (n : Nat) : Nat → Option Nat → List Nat
  | 0, _ => []
  | fuel + 1, cur =>
      let r := paginate all { first := some n, after := cur }
      if r.hasNext then r.edges ++ walk all n fuel r.endCursor else r.edges

end Page
