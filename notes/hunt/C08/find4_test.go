// FINDING 4: a cache key that holds a NaN (a legal, hashable key; livesql
// builds its key from the filter values of the query) makes Cache panic in
// locker.Unlock while locker.mu is held. Once the panic is recovered (graphql
// recovers panics of resolvers), every later Cache call of the rerunner blocks
// forever on locker.mu, the run never ends, Stop never returns and nothing the
// rerunner registered is ever released.
//
// Copy into: reactive/   (package reactive_test, public API only)
// Run:       go test ./reactive/ -run TestFind4 -count=1 -v
package reactive_test

import (
	"context"
	"math"
	"sync/atomic"
	"testing"
	"time"

	"github.com/samsarahq/thunder/reactive"
)

func TestFind4NaNKeyWedgesTheCache(t *testing.T) {
	var cleaned int32
	var recovered atomic.Value
	secondCacheReturned := make(chan struct{})

	rr := reactive.NewRerunner(context.Background(), func(ctx context.Context) (interface{}, error) {
		r := reactive.NewResource()
		r.Cleanup(func() { atomic.AddInt32(&cleaned, 1) })
		reactive.AddDependency(ctx, r, nil)

		func() {
			defer func() {
				if p := recover(); p != nil {
					recovered.Store(p)
				}
			}()
			// e.g. the key livesql builds for a query filtered on a float column
			key := [1]interface{}{math.NaN()}
			reactive.Cache(ctx, key, func(ctx context.Context) (interface{}, error) {
				return 1, nil
			})
		}()

		// Any other cached sub-computation, with a perfectly ordinary key.
		reactive.Cache(ctx, "other", func(ctx context.Context) (interface{}, error) {
			return 2, nil
		})
		close(secondCacheReturned)
		return nil, nil
	}, 0, false)

	select {
	case <-secondCacheReturned:
	case <-time.After(2 * time.Second):
		t.Errorf("Cache with an ordinary key has been blocked for 2s after Cache with a NaN key panicked (recovered: %v)", recovered.Load())
	}

	stopped := make(chan struct{})
	go func() { rr.Stop(); close(stopped) }()
	select {
	case <-stopped:
	case <-time.After(2 * time.Second):
		t.Errorf("Stop has not returned after 2s")
	}
	time.Sleep(50 * time.Millisecond)
	if n := atomic.LoadInt32(&cleaned); n != 1 {
		t.Errorf("cleanup calls of the resource registered by the computation: %d, want 1", n)
	}
}

// Variant: a key whose hashing panics (an interface field holding a slice)
// panics inside locker.Lock, again with locker.mu held: same wedge.
func TestFind4bUnhashableKeyWedgesTheCache(t *testing.T) {
	type key struct{ v interface{} }
	secondCacheReturned := make(chan struct{})
	var recovered atomic.Value

	rr := reactive.NewRerunner(context.Background(), func(ctx context.Context) (interface{}, error) {
		func() {
			defer func() {
				if p := recover(); p != nil {
					recovered.Store(p)
				}
			}()
			reactive.Cache(ctx, key{[]int{1}}, func(ctx context.Context) (interface{}, error) {
				return 1, nil
			})
		}()
		reactive.Cache(ctx, "other", func(ctx context.Context) (interface{}, error) {
			return 2, nil
		})
		close(secondCacheReturned)
		return nil, nil
	}, 0, false)

	select {
	case <-secondCacheReturned:
	case <-time.After(2 * time.Second):
		t.Errorf("Cache with an ordinary key has been blocked for 2s after Cache with an unhashable key panicked (recovered: %v)", recovered.Load())
	}
	stopped := make(chan struct{})
	go func() { rr.Stop(); close(stopped) }()
	select {
	case <-stopped:
	case <-time.After(2 * time.Second):
		t.Errorf("Stop has not returned after 2s")
	}
}
