// FINDING 1: a Cache'd sub-computation that returns an error drops every
// dependency it registered; a caller that handles the error keeps an output
// computed from a superseded resource version forever.
//
// Copy into: reactive/   (package reactive_test, public API only)
// Run:       go test ./reactive/ -run TestFind1 -count=1 -v
package reactive_test

import (
	"context"
	"errors"
	"sync"
	"testing"
	"time"

	"github.com/samsarahq/thunder/reactive"
)

// f1Cell is a versioned value; every read registers a fresh Resource (as
// livesql does), every write invalidates the resources of the readers.
type f1Cell struct {
	mu   sync.Mutex
	val  int
	subs map[*reactive.Resource]struct{}
}

func (c *f1Cell) read(ctx context.Context) int {
	r := reactive.NewResource()
	r.Cleanup(func() {
		c.mu.Lock()
		delete(c.subs, r)
		c.mu.Unlock()
	})
	c.mu.Lock()
	if c.subs == nil {
		c.subs = map[*reactive.Resource]struct{}{}
	}
	c.subs[r] = struct{}{}
	c.mu.Unlock()
	reactive.AddDependency(ctx, r, nil) // register first, then read
	c.mu.Lock()
	defer c.mu.Unlock()
	return c.val
}

func (c *f1Cell) write(v int) {
	c.mu.Lock()
	c.val = v
	subs := c.subs
	c.subs = nil
	c.mu.Unlock()
	for r := range subs {
		r.Invalidate()
	}
}

func TestFind1SwallowedErrorLosesDependency(t *testing.T) {
	old := reactive.WriteThenReadDelay
	reactive.WriteThenReadDelay = 0
	defer func() { reactive.WriteThenReadDelay = old }()

	cell := &f1Cell{val: 0} // 0: the row is "missing"

	var mu sync.Mutex
	var outputs []string

	rr := reactive.NewRerunner(context.Background(), func(ctx context.Context) (interface{}, error) {
		v, err := reactive.Cache(ctx, "lookup", func(ctx context.Context) (interface{}, error) {
			x := cell.read(ctx) // registers the dependency on the current version
			if x == 0 {
				return nil, errors.New("not found")
			}
			return x, nil
		})
		out := "found"
		if err != nil {
			out = "default" // the caller handles the failure and goes on
		} else {
			_ = v
		}
		mu.Lock()
		outputs = append(outputs, out)
		mu.Unlock()
		return nil, nil
	}, 0, false)
	defer rr.Stop()

	waitFor := func(n int) bool {
		deadline := time.Now().Add(2 * time.Second)
		for time.Now().Before(deadline) {
			mu.Lock()
			l := len(outputs)
			mu.Unlock()
			if l >= n {
				return true
			}
			time.Sleep(time.Millisecond)
		}
		return false
	}
	if !waitFor(1) {
		t.Fatal("no first run")
	}

	// The resource version the output was computed from is superseded.
	cell.write(7)

	if !waitFor(2) {
		mu.Lock()
		defer mu.Unlock()
		t.Fatalf("the cell changed from 0 to 7, the rerunner never reran: final output %q was computed from the superseded version (outputs %v)", outputs[len(outputs)-1], outputs)
	}
	mu.Lock()
	defer mu.Unlock()
	if got := outputs[len(outputs)-1]; got != "found" {
		t.Fatalf("final output %q", got)
	}
}
