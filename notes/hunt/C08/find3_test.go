// FINDING 3: a Cache'd sub-computation that panics is never released. When
// the panic is recovered by the caller (graphql's SafeExecuteResolver does
// that for every resolver), the resources the sub-computation had registered
// before panicking are never cleaned up, not even by Stop.
//
// Copy into: reactive/   (package reactive_test, public API only)
// Run:       go test ./reactive/ -run TestFind3 -count=1 -v
package reactive_test

import (
	"context"
	"sync/atomic"
	"testing"
	"time"

	"github.com/samsarahq/thunder/reactive"
)

func TestFind3PanickingSubComputationLeaks(t *testing.T) {
	var cleanedInner, cleanedOuter int32
	done := make(chan struct{})

	rr := reactive.NewRerunner(context.Background(), func(ctx context.Context) (interface{}, error) {
		defer close(done)
		outer := reactive.NewResource()
		outer.Cleanup(func() { atomic.AddInt32(&cleanedOuter, 1) })
		reactive.AddDependency(ctx, outer, nil)

		func() {
			defer func() { recover() }()
			reactive.Cache(ctx, "k", func(ctx context.Context) (interface{}, error) {
				inner := reactive.NewResource()
				inner.Cleanup(func() { atomic.AddInt32(&cleanedInner, 1) })
				reactive.AddDependency(ctx, inner, nil)
				reactive.InvalidateAfter(ctx, time.Hour) // this timer is never stopped either
				panic("resolver bug")
			})
		}()
		return nil, nil
	}, 0, false)

	<-done
	rr.Stop()

	deadline := time.Now().Add(2 * time.Second)
	for time.Now().Before(deadline) && (atomic.LoadInt32(&cleanedOuter) == 0 || atomic.LoadInt32(&cleanedInner) == 0) {
		time.Sleep(5 * time.Millisecond)
	}
	if o, i := atomic.LoadInt32(&cleanedOuter), atomic.LoadInt32(&cleanedInner); o != 1 || i != 1 {
		t.Fatalf("2s after Stop: cleanup calls: resource of the top-level computation %d, resource registered by the sub-computation that panicked %d (want 1 and 1)", o, i)
	}
}
