// FINDING 2: a rerunner that stops because a re-run returned an error ("The
// computation stops when it returns an error or after calling Stop") never
// releases the resources of its last successful computation: their cleanup
// callbacks, and the timers behind InvalidateAfter, stay registered until
// somebody calls Stop as well.
//
// Copy into: reactive/   (package reactive_test, public API only)
// Run:       go test ./reactive/ -run TestFind2 -count=1 -v
package reactive_test

import (
	"context"
	"errors"
	"sync/atomic"
	"testing"
	"time"

	"github.com/samsarahq/thunder/reactive"
)

func TestFind2ErrorStopLeaksPreviousComputation(t *testing.T) {
	old := reactive.WriteThenReadDelay
	reactive.WriteThenReadDelay = 0
	defer func() { reactive.WriteThenReadDelay = old }()

	var cleanedDirect, cleanedCached int32
	trigger := reactive.NewResource()
	var runs int32
	secondRunDone := make(chan struct{})

	rr := reactive.NewRerunner(context.Background(), func(ctx context.Context) (interface{}, error) {
		n := atomic.AddInt32(&runs, 1)
		if n == 2 {
			defer close(secondRunDone)
			return nil, errors.New("boom") // not the retry sentinel: the rerunner stops
		}
		reactive.AddDependency(ctx, trigger, nil)

		direct := reactive.NewResource()
		direct.Cleanup(func() { atomic.AddInt32(&cleanedDirect, 1) })
		reactive.AddDependency(ctx, direct, nil)

		reactive.Cache(ctx, "k", func(ctx context.Context) (interface{}, error) {
			r := reactive.NewResource()
			r.Cleanup(func() { atomic.AddInt32(&cleanedCached, 1) })
			reactive.AddDependency(ctx, r, nil)
			reactive.InvalidateAfter(ctx, time.Hour)
			return nil, nil
		})
		return nil, nil
	}, 0, false)

	for atomic.LoadInt32(&runs) < 1 {
		time.Sleep(time.Millisecond)
	}
	time.Sleep(20 * time.Millisecond)
	trigger.Strobe()
	select {
	case <-secondRunDone:
	case <-time.After(2 * time.Second):
		t.Fatal("no second run")
	}

	// The rerunner has stopped for good: further invalidations do nothing.
	time.Sleep(300 * time.Millisecond)
	trigger.Strobe()
	time.Sleep(100 * time.Millisecond)
	if n := atomic.LoadInt32(&runs); n != 2 {
		t.Fatalf("expected the rerunner to have stopped after the error, runs=%d", n)
	}

	d, c := atomic.LoadInt32(&cleanedDirect), atomic.LoadInt32(&cleanedCached)
	if d != 1 || c != 1 {
		t.Errorf("rerunner stopped on an error 400ms ago; cleanup calls: direct resource %d, resource of the cached sub-computation %d (want 1 and 1)", d, c)
	}

	// Only an explicit Stop releases them.
	rr.Stop()
	time.Sleep(100 * time.Millisecond)
	t.Logf("after Stop: direct %d cached %d", atomic.LoadInt32(&cleanedDirect), atomic.LoadInt32(&cleanedCached))
}
