package reactive

// Randomised comparison of the reactive cache against a reference reading of
// the property. Exploration file, not a deliverable.

import (
	"context"
	"errors"
	"fmt"
	"math/rand"
	"os"
	"strconv"
	"sync"
	"sync/atomic"
	"testing"
	"time"
)

// ---- world: versioned cells, one fresh Resource per read (as livesql does) ----

type hCell struct {
	mu   sync.Mutex
	ver  int
	subs map[*Resource]struct{}
}

type hWorld struct {
	cells []*hCell

	mu       sync.Mutex
	cleanups map[*Resource]int // number of cleanup calls per registered resource
	double   int32
}

func newHWorld(n int) *hWorld {
	w := &hWorld{cleanups: map[*Resource]int{}}
	for i := 0; i < n; i++ {
		w.cells = append(w.cells, &hCell{subs: map[*Resource]struct{}{}})
	}
	return w
}

type hObs struct {
	cell, ver int
	res       *Resource
}

func (w *hWorld) read(ctx context.Context, i int) hObs {
	c := w.cells[i]
	r := NewResource()
	w.mu.Lock()
	w.cleanups[r] = 0
	w.mu.Unlock()
	r.Cleanup(func() {
		c.mu.Lock()
		delete(c.subs, r)
		c.mu.Unlock()
		w.mu.Lock()
		w.cleanups[r]++
		if w.cleanups[r] > 1 {
			atomic.AddInt32(&w.double, 1)
		}
		w.mu.Unlock()
	})
	c.mu.Lock()
	c.subs[r] = struct{}{}
	c.mu.Unlock()
	// register before reading, as livesql does (Strobe only reaches the
	// computations that already depend on r)
	AddDependency(ctx, r, nil)
	c.mu.Lock()
	v := c.ver
	c.mu.Unlock()
	return hObs{i, v, r}
}

func (w *hWorld) bump(i int, strobe bool) {
	c := w.cells[i]
	c.mu.Lock()
	c.ver++
	var rs []*Resource
	for r := range c.subs {
		rs = append(rs, r)
	}
	if !strobe {
		c.subs = map[*Resource]struct{}{}
	}
	c.mu.Unlock()
	for _, r := range rs {
		if strobe {
			r.Strobe()
		} else {
			r.Invalidate()
		}
	}
}

func (w *hWorld) current(i int) int {
	c := w.cells[i]
	c.mu.Lock()
	defer c.mu.Unlock()
	return c.ver
}

// ---- program: DAG of cached functions ----

type hStepKind int

const (
	sRead hStepKind = iota
	sCall
	sCallSwallow
	sPar
	sCond
	sFailIf
	sPurge
	sTimer
	sCallTwice
)

type hStep struct {
	kind hStepKind
	cell int
	fn   int
	a, b []hStep
	d    time.Duration
}

type hProg struct {
	fns [][]hStep // fns[0] is the top-level body; fn j may only call fns > j
}

type hFail struct{ cell int }

func (e *hFail) Error() string { return "fail on cell " + strconv.Itoa(e.cell) }

func genSteps(rng *rand.Rand, self, nfn, ncell, depth int) []hStep {
	n := 1 + rng.Intn(4)
	var out []hStep
	for i := 0; i < n; i++ {
		k := rng.Intn(100)
		switch {
		case k < 30:
			out = append(out, hStep{kind: sRead, cell: rng.Intn(ncell)})
		case k < 55 && self+1 < nfn:
			out = append(out, hStep{kind: sCall, fn: self + 1 + rng.Intn(nfn-self-1)})
		case k < 65 && self+1 < nfn:
			out = append(out, hStep{kind: sCallSwallow, fn: self + 1 + rng.Intn(nfn-self-1)})
		case k < 70 && self+1 < nfn:
			out = append(out, hStep{kind: sCallTwice, fn: self + 1 + rng.Intn(nfn-self-1)})
		case k < 78 && depth < 2:
			out = append(out, hStep{kind: sPar, a: genSteps(rng, self, nfn, ncell, depth+1), b: genSteps(rng, self, nfn, ncell, depth+1)})
		case k < 88 && depth < 2:
			out = append(out, hStep{kind: sCond, cell: rng.Intn(ncell), a: genSteps(rng, self, nfn, ncell, depth+1), b: genSteps(rng, self, nfn, ncell, depth+1)})
		case k < 92 && self != 0:
			out = append(out, hStep{kind: sFailIf, cell: rng.Intn(ncell)})
		case k < 94:
			out = append(out, hStep{kind: sPurge})
		case k < 100:
			d := time.Hour
			if rng.Intn(4) == 0 {
				d = time.Duration(1+rng.Intn(10)) * time.Millisecond
			}
			out = append(out, hStep{kind: sTimer, d: d})
		default:
			out = append(out, hStep{kind: sRead, cell: rng.Intn(ncell)})
		}
	}
	return out
}

func genProg(rng *rand.Rand, nfn, ncell int) *hProg {
	p := &hProg{}
	for j := 0; j < nfn; j++ {
		p.fns = append(p.fns, genSteps(rng, j, nfn, ncell, 0))
	}
	return p
}

type hRun struct {
	w *hWorld
	p *hProg
	// computes counts the executions of every cached function
	computes []int64
}

func (h *hRun) call(ctx context.Context, fn int) ([]hObs, error) {
	v, err := Cache(ctx, fn, func(ctx context.Context) (interface{}, error) {
		atomic.AddInt64(&h.computes[fn], 1)
		return h.exec(ctx, h.p.fns[fn])
	})
	if err != nil {
		return nil, err
	}
	obs, _ := v.([]hObs)
	return obs, nil
}

func (h *hRun) exec(ctx context.Context, steps []hStep) (interface{}, error) {
	obs, err := h.execObs(ctx, steps)
	if err != nil {
		return nil, err
	}
	return obs, nil
}

func (h *hRun) execObs(ctx context.Context, steps []hStep) ([]hObs, error) {
	var obs []hObs
	for _, s := range steps {
		switch s.kind {
		case sRead:
			obs = append(obs, h.w.read(ctx, s.cell))
		case sCall:
			o, err := h.call(ctx, s.fn)
			if err != nil {
				return nil, err
			}
			obs = append(obs, o...)
		case sCallTwice:
			for k := 0; k < 2; k++ {
				o, err := h.call(ctx, s.fn)
				if err != nil {
					return nil, err
				}
				obs = append(obs, o...)
			}
		case sCallSwallow:
			o, err := h.call(ctx, s.fn)
			if err != nil {
				var f *hFail
				if errors.As(err, &f) {
					// The caller handles the failure; it reads the culprit cell
					// itself so that its own output keeps a dependency on it.
					obs = append(obs, h.w.read(ctx, f.cell))
					continue
				}
				return nil, err
			}
			obs = append(obs, o...)
		case sPar:
			var wg sync.WaitGroup
			var oa, ob []hObs
			var ea, eb error
			wg.Add(2)
			go func() { defer wg.Done(); oa, ea = h.execObs(ctx, s.a) }()
			go func() { defer wg.Done(); ob, eb = h.execObs(ctx, s.b) }()
			wg.Wait()
			if ea != nil {
				return nil, ea
			}
			if eb != nil {
				return nil, eb
			}
			obs = append(obs, oa...)
			obs = append(obs, ob...)
		case sCond:
			o := h.w.read(ctx, s.cell)
			obs = append(obs, o)
			br := s.a
			if o.ver%2 == 1 {
				br = s.b
			}
			oo, err := h.execObs(ctx, br)
			if err != nil {
				return nil, err
			}
			obs = append(obs, oo...)
		case sFailIf:
			o := h.w.read(ctx, s.cell)
			obs = append(obs, o)
			if o.ver%3 == 0 {
				return nil, &hFail{s.cell}
			}
		case sPurge:
			PurgeCache(ctx)
		case sTimer:
			InvalidateAfter(ctx, s.d)
		}
	}
	return obs, nil
}

type hOutput struct {
	seq int
	obs []hObs
	err bool
}

func runTrial(t *testing.T, seed int64, hooks *hHooks) (fail string) {
	rng := rand.New(rand.NewSource(seed))
	ncell := 2 + rng.Intn(4)
	nfn := 1 + rng.Intn(5)
	w := newHWorld(ncell)
	p := genProg(rng, nfn, ncell)
	h := &hRun{w: w, p: p, computes: make([]int64, nfn)}
	spawn := rng.Intn(2) == 0
	retryP := 0
	if rng.Intn(3) == 0 {
		retryP = 15
	}
	var runSeed int64 = seed * 7919

	var omu sync.Mutex
	var latest *hOutput
	seq := 0
	stopped := false

	rr := NewRerunner(context.Background(), func(ctx context.Context) (interface{}, error) {
		omu.Lock()
		seq++
		mySeq := seq
		rs := rand.New(rand.NewSource(runSeed + int64(mySeq)))
		omu.Unlock()
		obs, err := h.execObs(ctx, p.fns[0])
		if err != nil {
			var f *hFail
			if errors.As(err, &f) {
				// the top-level treats a failure like graphql does: retry.
				omu.Lock()
				if !stopped && (latest == nil || latest.seq < mySeq) {
					latest = &hOutput{seq: mySeq, err: true}
				}
				omu.Unlock()
				return nil, RetrySentinelError
			}
			return nil, err
		}
		if retryP > 0 && rs.Intn(100) < retryP {
			return nil, RetrySentinelError
		}
		omu.Lock()
		if !stopped && (latest == nil || latest.seq < mySeq) {
			latest = &hOutput{seq: mySeq, obs: obs}
		}
		omu.Unlock()
		return nil, nil
	}, time.Duration(rng.Intn(2))*time.Millisecond, spawn)

	// mutate
	nb := rng.Intn(25)
	for i := 0; i < nb; i++ {
		w.bump(rng.Intn(ncell), rng.Intn(4) == 0)
		if rng.Intn(3) == 0 {
			time.Sleep(time.Duration(rng.Intn(1500)) * time.Microsecond)
		}
	}

	// Changes have stopped. The final output must be current.
	check := func() string {
		omu.Lock()
		l := latest
		omu.Unlock()
		if l == nil {
			return "no output"
		}
		for _, o := range l.obs {
			if cur := w.current(o.cell); cur != o.ver {
				return fmt.Sprintf("run %d: cell %d seen at version %d, current %d", l.seq, o.cell, o.ver, cur)
			}
		}
		return ""
	}
	deadline := time.Now().Add(3 * time.Second)
	okSince := time.Time{}
	var last string
	for {
		last = check()
		if last == "" {
			if okSince.IsZero() {
				okSince = time.Now()
			}
			if time.Since(okSince) > 30*time.Millisecond {
				break
			}
		} else {
			okSince = time.Time{}
		}
		if time.Now().After(deadline) {
			// a top-level that always fails on FailIf (retry loop) has no output
			if last == "no output" {
				last = ""
				break
			}
			rr.Stop()
			return "stale: " + last
		}
		rr.RerunImmediately()
		time.Sleep(2 * time.Millisecond)
	}

	// No resource behind the final (current, still valid) output may have been
	// cleaned up yet.
	for try := 0; try < 50; try++ {
		omu.Lock()
		l := latest
		omu.Unlock()
		if l == nil {
			break
		}
		early := 0
		w.mu.Lock()
		for _, o := range l.obs {
			if w.cleanups[o.res] != 0 {
				early++
			}
		}
		w.mu.Unlock()
		if early == 0 {
			break
		}
		time.Sleep(20 * time.Millisecond)
		omu.Lock()
		same := latest == l
		omu.Unlock()
		if same && try > 5 {
			rr.Stop()
			return fmt.Sprintf("early cleanup: %d resources of the current output (run %d) already cleaned", early, l.seq)
		}
	}

	omu.Lock()
	stopped = true
	omu.Unlock()
	rr.Stop()

	// every registered resource is cleaned up exactly once
	deadline = time.Now().Add(3 * time.Second)
	for {
		missing := 0
		w.mu.Lock()
		for _, n := range w.cleanups {
			if n == 0 {
				missing++
			}
		}
		total := len(w.cleanups)
		w.mu.Unlock()
		if atomic.LoadInt32(&w.double) > 0 {
			return "double cleanup"
		}
		pendingHook := 0
		if hooks != nil {
			pendingHook = hooks.unreleasedResources()
		}
		if missing == 0 && pendingHook == 0 {
			break
		}
		if time.Now().After(deadline) {
			return fmt.Sprintf("leak: %d of %d cell resources never cleaned, %d resources (incl. timers) never released", missing, total, pendingHook)
		}
		time.Sleep(2 * time.Millisecond)
	}
	// let late double cleanups show up
	time.Sleep(2 * time.Millisecond)
	if atomic.LoadInt32(&w.double) > 0 {
		return "double cleanup"
	}
	if hooks != nil {
		if s := hooks.doubleReleased(); s != "" {
			return s
		}
	}
	return ""
}

// hHooks is filled by the verif build (see zz_harness_verif_test.go).
type hHooks struct {
	mu       sync.Mutex
	resNew   map[*node]int
	resRel   map[*node]int
	isRes    map[*node]bool
	registed map[*node]bool
	rng      *rand.Rand
	perturb  bool
}

func (h *hHooks) reset() {
	h.mu.Lock()
	h.resNew = map[*node]int{}
	h.resRel = map[*node]int{}
	h.isRes = map[*node]bool{}
	h.registed = map[*node]bool{}
	h.mu.Unlock()
}

func (h *hHooks) unreleasedResources() int {
	h.mu.Lock()
	defer h.mu.Unlock()
	n := 0
	for nd := range h.registed {
		if h.isRes[nd] && h.resRel[nd] == 0 {
			n++
		}
	}
	return n
}

func (h *hHooks) doubleReleased() string {
	h.mu.Lock()
	defer h.mu.Unlock()
	for nd, c := range h.resRel {
		if c > 1 {
			return fmt.Sprintf("node %p released %d times", nd, c)
		}
	}
	return ""
}

var installHooks func(seed int64, perturb bool) *hHooks

func TestHarness(t *testing.T) {
	old := WriteThenReadDelay
	WriteThenReadDelay = 0
	defer func() { WriteThenReadDelay = old }()

	n := 300
	if s := os.Getenv("HARNESS_N"); s != "" {
		n, _ = strconv.Atoi(s)
	}
	base := int64(1)
	if s := os.Getenv("HARNESS_SEED"); s != "" {
		base, _ = strconv.ParseInt(s, 10, 64)
	}
	var hooks *hHooks
	fails := 0
	for i := 0; i < n; i++ {
		seed := base + int64(i)
		if installHooks != nil {
			hooks = installHooks(seed, os.Getenv("HARNESS_PERTURB") != "")
		}
		if msg := runTrial(t, seed, hooks); msg != "" {
			t.Errorf("seed %d: %s", seed, msg)
			fails++
			if fails > 5 {
				return
			}
		}
	}
}
