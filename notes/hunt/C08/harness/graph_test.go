package reactive

import (
	"math/rand"
	"sync"
	"sync/atomic"
	"testing"
	"time"
)

// Random concurrent operations on the bare graph, invariants checked at rest.
func TestGraphRandom(t *testing.T) {
	totalI6 := 0
	for seed := int64(1); seed <= 3000; seed++ {
		rng := rand.New(rand.NewSource(seed))
		n := 3 + rng.Intn(8)
		nodes := make([]*node, n)
		rel := make([]int32, n)
		inv := make([]int32, n)
		added := make([]int32, n) // addOut called on it at least once
		for i := range nodes {
			nodes[i] = &node{}
			i := i
			nodes[i].afterRelease = func() { atomic.AddInt32(&rel[i], 1) }
			nodes[i].afterInvalidate = func() { atomic.AddInt32(&inv[i], 1) }
		}
		type op struct{ kind, a, b int }
		var ops []op
		nops := 5 + rng.Intn(30)
		for k := 0; k < nops; k++ {
			a := rng.Intn(n)
			switch r := rng.Intn(10); {
			case r < 6 && a < n-1:
				ops = append(ops, op{0, a, a + 1 + rng.Intn(n-a-1)})
			case r < 7:
				ops = append(ops, op{1, a, 0})
			case r < 9:
				ops = append(ops, op{2, a, 0})
			default:
				ops = append(ops, op{3, a, 0})
			}
		}
		workers := 1 + rng.Intn(4)
		var wg sync.WaitGroup
		ch := make(chan op)
		for wk := 0; wk < workers; wk++ {
			wg.Add(1)
			go func() {
				defer wg.Done()
				for o := range ch {
					switch o.kind {
					case 0:
						atomic.StoreInt32(&added[o.a], 1)
						nodes[o.a].addOut(nodes[o.b])
					case 1:
						nodes[o.a].invalidate()
					case 2:
						nodes[o.a].release()
					case 3:
						nodes[o.a].strobe()
					}
				}
			}()
		}
		for _, o := range ops {
			ch <- o
		}
		close(ch)
		wg.Wait()
		// wait for the spawned goroutines
		stable := 0
		var lastSum int32 = -1
		for stable < 3 {
			time.Sleep(300 * time.Microsecond)
			var sum int32
			for i := range nodes {
				sum += atomic.LoadInt32(&rel[i]) + atomic.LoadInt32(&inv[i])
			}
			if sum == lastSum {
				stable++
			} else {
				stable = 0
			}
			lastSum = sum
		}
		for i, nd := range nodes {
			nd.mu.Lock()
			if nd.released && !nd.invalidated {
				t.Errorf("seed %d: node %d released but not invalidated", seed, i)
			}
			if nd.released != (rel[i] == 1) || rel[i] > 1 {
				t.Errorf("seed %d: node %d released=%v handler calls=%d", seed, i, nd.released, rel[i])
			}
			if nd.invalidated != (inv[i] == 1) || inv[i] > 1 {
				t.Errorf("seed %d: node %d invalidated=%v handler calls=%d", seed, i, nd.invalidated, inv[i])
			}
			if added[i] == 1 && len(nd.out) == 0 && !nd.released {
				t.Errorf("seed %d: node %d has no dependee left and is not released", seed, i)
			}
			for to := range nd.out {
				j := -1
				for k := range nodes {
					if nodes[k] == to {
						j = k
					}
				}
				// nd.mu is held; "to" is a dependee (locked after its dependency)
				to.mu.Lock()
				if nd.invalidated && !to.invalidated {
					t.Errorf("seed %d: edge %d->%d: invalidation not propagated", seed, i, j)
				}
				if to.released {
					t.Errorf("seed %d: edge %d->%d: released dependee still registered", seed, i, j)
				}
				if nd.released && !to.released {
					totalI6++
				}
				to.mu.Unlock()
			}
			nd.mu.Unlock()
		}
		if t.Failed() {
			t.Logf("ops: %v", ops)
			return
		}
	}
	t.Logf("released dependency with a live dependee (explicit release of a node with dependees, or the release/addOut window): %d edges", totalI6)
}
