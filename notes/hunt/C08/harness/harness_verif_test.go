//go:build verif
// +build verif

package reactive

import (
	"math/rand"
	"runtime"
	"sync/atomic"
	"time"
)

var curHooks atomic.Value // *hHooks

func init() {
	VerifHook = func(kind string, a, b interface{}) {
		h, _ := curHooks.Load().(*hHooks)
		if h == nil {
			return
		}
		switch kind {
		case "node.new":
			h.mu.Lock()
			h.isRes[a.(*node)] = true
			h.mu.Unlock()
		case "addOut", "addOut.skip":
			h.mu.Lock()
			h.registed[a.(*node)] = true
			h.mu.Unlock()
		case "rel":
			h.mu.Lock()
			h.resRel[a.(*node)]++
			h.mu.Unlock()
		case "yield", "rel.spawn", "inv.spawn":
			if h.perturb {
				h.mu.Lock()
				k := h.rng.Intn(10)
				d := time.Duration(h.rng.Intn(300)) * time.Microsecond
				h.mu.Unlock()
				switch {
				case k < 4:
					runtime.Gosched()
				case k < 6:
					time.Sleep(d)
				}
			}
		}
	}
	installHooks = func(seed int64, perturb bool) *hHooks {
		h := &hHooks{rng: rand.New(rand.NewSource(seed)), perturb: perturb}
		h.reset()
		curHooks.Store(h)
		return h
	}
}
