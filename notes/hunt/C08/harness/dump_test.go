package reactive

import (
	"fmt"
	"math/rand"
	"os"
	"strconv"
	"strings"
	"testing"
)

func dumpSteps(sb *strings.Builder, steps []hStep, ind string) {
	for _, s := range steps {
		switch s.kind {
		case sRead:
			fmt.Fprintf(sb, "%sread c%d\n", ind, s.cell)
		case sCall:
			fmt.Fprintf(sb, "%scall K%d\n", ind, s.fn)
		case sCallSwallow:
			fmt.Fprintf(sb, "%scallswallow K%d\n", ind, s.fn)
		case sCallTwice:
			fmt.Fprintf(sb, "%scalltwice K%d\n", ind, s.fn)
		case sPar:
			fmt.Fprintf(sb, "%spar A:\n", ind)
			dumpSteps(sb, s.a, ind+"  ")
			fmt.Fprintf(sb, "%spar B:\n", ind)
			dumpSteps(sb, s.b, ind+"  ")
		case sCond:
			fmt.Fprintf(sb, "%scond c%d even:\n", ind, s.cell)
			dumpSteps(sb, s.a, ind+"  ")
			fmt.Fprintf(sb, "%sodd:\n", ind)
			dumpSteps(sb, s.b, ind+"  ")
		case sFailIf:
			fmt.Fprintf(sb, "%sfailif c%d%%3==0\n", ind, s.cell)
		case sPurge:
			fmt.Fprintf(sb, "%spurge\n", ind)
		case sTimer:
			fmt.Fprintf(sb, "%stimer %v\n", ind, s.d)
		}
	}
}

func TestDump(t *testing.T) {
	seed, _ := strconv.ParseInt(os.Getenv("HARNESS_SEED"), 10, 64)
	rng := rand.New(rand.NewSource(seed))
	ncell := 2 + rng.Intn(4)
	nfn := 1 + rng.Intn(5)
	p := genProg(rng, nfn, ncell)
	var sb strings.Builder
	fmt.Fprintf(&sb, "ncell=%d nfn=%d\n", ncell, nfn)
	for j, f := range p.fns {
		fmt.Fprintf(&sb, "K%d:\n", j)
		dumpSteps(&sb, f, "  ")
	}
	spawn := rng.Intn(2) == 0
	retry := rng.Intn(3) == 0
	fmt.Fprintf(&sb, "spawn=%v retry=%v\n", spawn, retry)
	t.Log(sb.String())
}
