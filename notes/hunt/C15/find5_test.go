// FINDING 5: the federation gateway's query normaliser takes time exponential
// in the nesting depth of a query that goes through a union again and again.
//
// Copy into:  federation/       (package federation)
// Run with:   go test ./federation/ -run 'TestFind5' -count=1 -v
//
// flattener.flatten (federation/normalize.go:211), case *graphql.Union
// (normalize.go:272-303), normalises the selection set once per member of the
// union. When the selections below reach the union again (Find5A.u: Find5U,
// Find5B.u: Find5U), each of those copies is again normalised once per member,
// and so on: a query of depth d through a union with k members that selects
// through fragments that apply to every member (`... on Find5U { u { ... } }`)
// costs k^d calls and builds a k^d-sized sub-query, although its text is
// 34 bytes per level and the response has one object per level. Measured here:
// depth 14 (500 bytes) 0.4 s, depth 16 1.6 s, depth 18 6.6 s, x4 per two levels.
// graphql.Parse and a plain (non-federated) graphql.PrepareQuery/Execute handle
// the same query in microseconds.
//
// Repair: normalise a (selection set, member) pair once and share the result,
// or bound the size of the expansion.
//
// The test fails when the gateway has not answered the depth-22 query (700
// bytes) within 3 s.
package federation

import (
	"context"
	"fmt"
	"strings"
	"testing"
	"time"

	"github.com/samsarahq/thunder/graphql"
	"github.com/samsarahq/thunder/graphql/schemabuilder"
)

type Find5A struct{ Id int64 }
type Find5B struct{ Id int64 }
type Find5U struct {
	schemabuilder.Union
	*Find5A
	*Find5B
}

func find5Gateway(t *testing.T) *Executor {
	s1 := schemabuilder.NewSchemaWithName("s1")
	s1.Query().FieldFunc("u", func() *Find5U { return &Find5U{Find5A: &Find5A{Id: 1}} })
	a := s1.Object("Find5A", Find5A{})
	a.FieldFunc("u", func() *Find5U { return &Find5U{Find5B: &Find5B{Id: 2}} })
	b := s1.Object("Find5B", Find5B{})
	b.FieldFunc("u", func() *Find5U { return nil })
	s1.Mutation()
	srv, err := NewServer(s1.MustBuild())
	if err != nil {
		t.Fatal(err)
	}
	execs := map[string]ExecutorClient{"s1": &DirectExecutorClient{Client: srv}}
	ctx := context.Background()
	e, err := NewExecutor(ctx, execs, &SchemaSyncerConfig{SchemaSyncer: NewIntrospectionSchemaSyncer(ctx, execs, nil)})
	if err != nil {
		t.Fatal(err)
	}
	return e
}

func find5Query(depth int) string {
	return "{ u " + strings.Repeat("{ ... on Find5U { __typename u ", depth) + "{ __typename }" + strings.Repeat("} }", depth) + "}"
}

func TestFind5GatewayNestedUnionExponential(t *testing.T) {
	e := find5Gateway(t)

	run := func(depth int) string {
		text := find5Query(depth)
		q, err := graphql.Parse(text, nil)
		if err != nil {
			return err.Error()
		}
		start := time.Now()
		res, _, err := e.Execute(context.Background(), q, nil)
		return fmt.Sprintf("depth=%2d query=%3d bytes  gateway Execute %v  result=%v err=%v", depth, len(text), time.Since(start), res, err)
	}

	for _, d := range []int{4, 8, 10, 12, 14} {
		t.Log(run(d))
	}

	const depth = 22
	done := make(chan string, 1)
	go func() { done <- run(depth) }()
	select {
	case s := <-done:
		t.Log(s)
	case <-time.After(3 * time.Second):
		t.Fatalf("the gateway is still planning a %d byte query (depth %d) after 3s", len(find5Query(depth)), depth)
	}
}
