// FINDING 6: a cancelled (unsubscribed) mutation that is still waiting for its
// turn does not return; it blocks the whole websocket connection until the
// mutation in front of it has finished.
//
// Copy into:  graphql/          (package graphql_test)
// Run with:   go test ./graphql/ -run 'TestFind6' -count=1 -v
//
// handleMutate (graphql/server.go:310-313) serialises the mutations of a
// connection with `c.mutateMu.Lock()` *inside* the rerunner's computation. That
// lock knows nothing about the context: a second mutation sits in
// Rerunner.run (reactive/rerunner.go:385-410) holding the rerunner's mutex r.mu
// and waiting for mutateMu. When the client now cancels it ("unsubscribe" with
// its id), closeSubscription (server.go:394-400) takes c.mu and calls
// runner.Stop(), which cancels the context and then waits for r.mu
// (rerunner.go:454-459) - i.e. for the first mutation to finish, however long
// that takes. closeSubscription runs on the connection's read loop
// (ServeJSONSocket -> handle) with c.mu held, so until then no further message
// of this client is read: no echo, no subscribe, no unsubscribe. The cancelled
// request neither returns promptly nor leaves the connection working. (Once the
// first mutation is done, the cancelled one goes on to execute its resolvers
// with the dead context.)
//
// Repair: wait for mutateMu with the context (e.g. a channel-based lock as
// reactive/ctxmutex.go, selecting on ctx.Done()), and return before running
// anything when the context is cancelled.
//
// The test: mutation m1 blocks in its resolver (a slow but legitimate mutation
// whose context nobody cancels); m2 is sent and then unsubscribed; an "echo"
// sent right after must be answered promptly. It is not answered until m1 is
// released.
package graphql_test

import (
	"context"
	"encoding/json"
	"sync"
	"testing"
	"time"

	"github.com/gorilla/websocket"
	"github.com/samsarahq/thunder/graphql"
	"github.com/samsarahq/thunder/graphql/schemabuilder"
)

type find6Socket struct {
	in     chan []byte
	out    chan map[string]interface{}
	closed chan struct{}
	once   sync.Once
}

func (s *find6Socket) ReadJSON(v interface{}) error {
	select {
	case b := <-s.in:
		return json.Unmarshal(b, v)
	case <-s.closed:
		return &websocket.CloseError{Code: 1000}
	}
}

func (s *find6Socket) WriteJSON(v interface{}) error {
	b, err := json.Marshal(v)
	if err != nil {
		return err
	}
	var m map[string]interface{}
	json.Unmarshal(b, &m)
	select {
	case s.out <- m:
	case <-s.closed:
	}
	return nil
}

func (s *find6Socket) Close() error {
	s.once.Do(func() { close(s.closed) })
	return nil
}

func (s *find6Socket) send(typ, id, query string) {
	env := map[string]interface{}{"id": id, "type": typ}
	if query != "" {
		msg, _ := json.Marshal(map[string]interface{}{"query": query})
		env["message"] = json.RawMessage(msg)
	}
	b, _ := json.Marshal(env)
	s.in <- b
}

func TestFind6CancelledQueuedMutationBlocksConnection(t *testing.T) {
	entered := make(chan struct{}, 1)
	release := make(chan struct{})
	noopRan := make(chan struct{}, 1)

	schema := schemabuilder.NewSchema()
	schema.Query().FieldFunc("ok", func() int64 { return 1 })
	m := schema.Mutation()
	m.FieldFunc("slow", func(ctx context.Context) (int64, error) {
		entered <- struct{}{}
		select {
		case <-ctx.Done():
			return 0, ctx.Err()
		case <-release:
			return 1, nil
		}
	})
	m.FieldFunc("noop", func() bool {
		select {
		case noopRan <- struct{}{}:
		default:
		}
		return true
	})

	sock := &find6Socket{in: make(chan []byte, 10), out: make(chan map[string]interface{}, 100), closed: make(chan struct{})}
	conn := graphql.CreateConnection(context.Background(), sock, schema.MustBuild())
	served := make(chan struct{})
	go func() { conn.ServeJSONSocket(); close(served) }()

	sock.send("mutate", "m1", "mutation { slow }")
	select {
	case <-entered:
	case <-time.After(5 * time.Second):
		t.Fatal("m1 did not start")
	}
	sock.send("mutate", "m2", "mutation { noop }")
	time.Sleep(100 * time.Millisecond) // let m2's rerunner reach the queue
	sock.send("unsubscribe", "m2", "")
	sock.send("echo", "e1", "")

	waitEcho := func(d time.Duration) bool {
		deadline := time.After(d)
		for {
			select {
			case msg := <-sock.out:
				if msg["type"] == "echo" && msg["id"] == "e1" {
					return true
				}
			case <-deadline:
				return false
			}
		}
	}

	start := time.Now()
	if !waitEcho(2 * time.Second) {
		t.Errorf("after cancelling the queued mutation m2 the connection did not answer an echo for 2s (m1 is still running, nobody cancelled it)")
		close(release)
		if waitEcho(5 * time.Second) {
			t.Logf("the echo was answered %v after it was sent, only once m1 had been released", time.Since(start))
		}
		select {
		case <-noopRan:
			t.Logf("and the cancelled mutation m2 then ran its resolver all the same")
		case <-time.After(time.Second):
		}
	} else {
		close(release)
	}
	sock.Close()
	<-served
}
