// FINDING 3: validation (graphql.PrepareQuery -> detectMergeConflicts) takes time
// exponential in the size of the query.
//
// Copy into:  graphql/          (package graphql_test)
// Run with:   go test ./graphql/ -run 'TestFind3' -count=1 -v
//
// detectMergeConflicts (graphql/parser.go:348) remembers the groups of
// selection sets it has already checked (the "done" map keyed by the members of
// the group, parser.go:351-381), which keeps it polynomial as long as the same
// fragment reaches an alias along every path. With 3n small fragments one can
// make every one of the 2^n alias paths x/y/x/.../y of length n lead to a
// *different* group: fragment C<i> is a clock that spreads a marker fragment
// F1a under alias x and F1b under alias y, and the markers shift by one
// position per level (F<p>a -> F<p+1>a). The group reached by an alias path
// then spells out the path, so no two groups are the same, the memo never hits,
// and visitGroup runs 2^(n+1) times. The query text grows linearly with n
// (about 190 bytes per level): 3.3 KB of query take 20 s, each further 190
// bytes double that. The response is tiny (`{"t": null}`): the blow-up is in
// validation, before any resolver runs, so HTTP and websocket clients can pin
// a CPU per request with a few KB.
//
// A polynomial check is possible: compare selections pairwise and memoise on
// pairs of selection sets (what graphql-js does for
// OverlappingFieldsCanBeMerged), instead of materialising every merged group.
//
// The test validates the n=22 query (4 KB) and fails when that is not done
// within 5 seconds (the unmodified tree needs minutes; a polynomial check needs
// milliseconds). The table it logs first shows the doubling.
package graphql_test

import (
	"context"
	"fmt"
	"strings"
	"testing"
	"time"

	"github.com/samsarahq/thunder/graphql"
	"github.com/samsarahq/thunder/graphql/schemabuilder"
)

type Find3T struct{ V int64 }

func find3Query(n int) string {
	var sb strings.Builder
	sb.WriteString("{ t { ...C0 } }\n")
	for i := 0; i < n; i++ {
		fmt.Fprintf(&sb, "fragment C%d on Find3T { x: t { ...C%d ...F1a } y: t { ...C%d ...F1b } }\n", i, i+1, i+1)
	}
	fmt.Fprintf(&sb, "fragment C%d on Find3T { v }\n", n)
	for p := 1; p < n; p++ {
		for _, b := range []string{"a", "b"} {
			fmt.Fprintf(&sb, "fragment F%d%s on Find3T { x: t { ...F%d%s } y: t { ...F%d%s } }\n", p, b, p+1, b, p+1, b)
		}
	}
	fmt.Fprintf(&sb, "fragment F%da on Find3T { v }\nfragment F%db on Find3T { v }\n", n, n)
	return sb.String()
}

func TestFind3ValidationExponential(t *testing.T) {
	schema := schemabuilder.NewSchema()
	schema.Query().FieldFunc("t", func() *Find3T { return nil })
	obj := schema.Object("Find3T", Find3T{})
	obj.FieldFunc("t", func() *Find3T { return nil })
	schema.Mutation()
	built := schema.MustBuild()

	validate := func(n int) (int, time.Duration, error) {
		text := find3Query(n)
		q, err := graphql.Parse(text, nil)
		if err != nil {
			return len(text), 0, err
		}
		start := time.Now()
		err = graphql.PrepareQuery(context.Background(), built.Query, q.SelectionSet)
		return len(text), time.Since(start), err
	}

	for _, n := range []int{6, 8, 10, 12, 14} {
		size, d, err := validate(n)
		t.Logf("n=%2d query=%5d bytes  PrepareQuery took %v (err=%v)", n, size, d, err)
	}

	const n = 22
	done := make(chan string, 1)
	go func() {
		size, d, err := validate(n)
		done <- fmt.Sprintf("n=%d query=%d bytes PrepareQuery took %v (err=%v)", n, size, d, err)
	}()
	select {
	case s := <-done:
		t.Log(s)
	case <-time.After(5 * time.Second):
		t.Fatalf("PrepareQuery of a %d byte query (n=%d) still running after 5s", len(find3Query(n)), n)
	}
}
