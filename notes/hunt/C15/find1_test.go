// FINDING 1: a deeply nested query text kills the whole server process with
// "fatal error: stack overflow" (not a recoverable panic).
//
// Copy into:  graphql/          (package graphql_test)
// Run with:   go test ./graphql/ -run 'TestFind1' -count=1 -v
// Needs about 1.5 GB of free memory (the Go runtime lets the stack of the
// parsing goroutine grow to its 1 GB limit before it gives up).
//
// graphql.Parse (graphql/parser.go:502) hands the text to the recursive-descent
// parser of graphql-go and then walks the result with its own recursive
// functions (parseSelectionSet, valueToJson, ...). Nothing bounds the nesting
// depth or the size of the request (graphql/http.go:73 decodes an unbounded
// body, the websocket upgrader in graphql/server.go:483 sets no read limit), so
// about 800 000 nested selection sets "{a{a{a..." (2.4 MB) or nested list
// literals "[[[[..." (2 MB) exhaust the 1 GB goroutine stack. A stack overflow
// is a fatal error: no recover() (net/http's, SafeExecuteResolver's) can catch
// it, every connection of the process dies.
//
// The test runs the HTTP handler in a child process (this test binary
// re-executed) and fails because the child dies.
package graphql_test

import (
	"bytes"
	"encoding/json"
	"net/http"
	"net/http/httptest"
	"os"
	"os/exec"
	"strings"
	"testing"

	"github.com/samsarahq/thunder/graphql"
	"github.com/samsarahq/thunder/graphql/schemabuilder"
)

func find1Queries() map[string]string {
	const n = 1000000
	return map[string]string{
		"nested selection sets": strings.Repeat("{a", n) + strings.Repeat("}", n),
		"nested list literal":   "{a(b:" + strings.Repeat("[", n) + strings.Repeat("]", n) + ")}",
	}
}

func TestFind1DeepNestingStackOverflow(t *testing.T) {
	if which := os.Getenv("FIND1_CHILD"); which != "" {
		schema := schemabuilder.NewSchema()
		schema.Query().FieldFunc("a", func() int64 { return 1 })
		schema.Mutation()
		handler := graphql.HTTPHandler(schema.MustBuild())

		body, _ := json.Marshal(map[string]interface{}{"query": find1Queries()[which]})
		req, _ := http.NewRequest("POST", "/graphql", bytes.NewReader(body))
		rr := httptest.NewRecorder()
		handler.ServeHTTP(rr, req)
		resp := rr.Body.String()
		if len(resp) > 100 {
			resp = resp[:100]
		}
		os.Stdout.WriteString("FIND1 SURVIVED, response: " + resp + "\n")
		return
	}

	for name, q := range find1Queries() {
		cmd := exec.Command(os.Args[0], "-test.run=^TestFind1DeepNestingStackOverflow$", "-test.v")
		cmd.Env = append(os.Environ(), "FIND1_CHILD="+name)
		out, err := cmd.CombinedOutput()
		if err != nil || !bytes.Contains(out, []byte("FIND1 SURVIVED")) {
			head := string(out)
			if len(head) > 600 {
				head = head[:600]
			}
			t.Errorf("%s (%d bytes of query text): the server process died: %v\n%s", name, len(q), err, head)
		}
	}
}
