// FINDING 7: a panic in the custom filter function of a paginated field is not
// contained: it kills the whole server process.
//
// Copy into:  graphql/          (package graphql_test)
// Run with:   go test ./graphql/ -run 'TestFind7' -count=1 -v
//
// Reading of the property used here: the functions a schema author registers
// for a field - the field function itself and the options that go with it
// (schemabuilder.FilterFunc / FilterField / SortField) - together are that
// field's resolver; a panic in any of them must fail the request, not the
// process. For the field function, the filter-text fields and the sort fields
// this holds (they go through graphql.SafeExecuteResolver /
// SafeExecuteBatchResolver). The matching function given to
// schemabuilder.FilterFunc does not: applyTextFilter
// (graphql/schemabuilder/pagination.go:529-600) runs the filtering in errgroup
// goroutines (g.Go at pagination.go:578/583/588, and again inside
// applyBatchTextFilter :435 and applyTextFilterNotBatchedExpensive :505), and
// checkFilters (:489) / applyBatchTextFilter (:450) call
// c.FilterFunctions[*filterType](text, tokens) there directly. The recover() of
// SafeExecuteResolver is on another goroutine's stack, so the panic is fatal.
// The function is fed with client input (the tokens of the "filterText"
// argument), so a client that finds an input the filter chokes on (index out of
// range on an empty token, a bad regexp, ...) takes the server down.
//
// Repair: run the filter functions under a recover (e.g. wrap the bodies passed
// to g.Go), turning a panic into the error of the field.
//
// The test serves one HTTP request in a child process (this test binary
// re-executed) and fails because the child dies instead of answering with an
// error.
package graphql_test

import (
	"bytes"
	"net/http"
	"net/http/httptest"
	"os"
	"os/exec"
	"strings"
	"testing"

	"github.com/samsarahq/thunder/graphql"
	"github.com/samsarahq/thunder/graphql/schemabuilder"
)

type Find7Item struct {
	Id   int64
	Name string
}

func TestFind7FilterFuncPanicKillsProcess(t *testing.T) {
	if os.Getenv("FIND7_CHILD") == "1" {
		schema := schemabuilder.NewSchema()
		item := schema.Object("Find7Item", Find7Item{})
		item.Key("id")
		schema.Query().FieldFunc("items", func() []*Find7Item {
			return []*Find7Item{{1, "apple"}, {2, "banana"}}
		},
			schemabuilder.Paginated,
			schemabuilder.FilterField("name", func(i *Find7Item) string { return i.Name }),
			schemabuilder.FilterFunc("prefix",
				func(filterText string) []string { return strings.Split(filterText, " ") },
				func(text string, tokens []string) bool {
					for _, token := range tokens {
						// A typical slip: an empty token (two spaces in the
						// filter text) is indexed without a length check.
						if text[0] == token[0] {
							return true
						}
					}
					return false
				}),
		)
		schema.Mutation()
		handler := graphql.HTTPHandler(schema.MustBuild())

		for _, filterText := range []string{"a", "b  a"} {
			body := `{"query": "{ items(filterType: \"prefix\", filterText: \"` + filterText + `\") { totalCount } }"}`
			req, _ := http.NewRequest("POST", "/graphql", strings.NewReader(body))
			rr := httptest.NewRecorder()
			handler.ServeHTTP(rr, req)
			os.Stdout.WriteString("FIND7 RESPONSE to filterText=\"" + filterText + "\": " + rr.Body.String() + "\n")
		}
		os.Stdout.WriteString("FIND7 SURVIVED\n")
		return
	}

	cmd := exec.Command(os.Args[0], "-test.run=^TestFind7FilterFuncPanicKillsProcess$", "-test.v")
	cmd.Env = append(os.Environ(), "FIND7_CHILD=1")
	out, err := cmd.CombinedOutput()
	head := string(out)
	if len(head) > 1200 {
		head = head[:1200]
	}
	if err != nil || !bytes.Contains(out, []byte("FIND7 SURVIVED")) {
		t.Errorf("the server process died on the second request: %v\n%s", err, head)
	} else {
		t.Log(head)
	}
}
