// FINDING 2: a subscription whose query aliases a list or object field as
// "__key" crashes the whole server process the first time it is re-run.
//
// Copy into:  graphql/          (package graphql_test)
// Run with:   go test ./graphql/ -run 'TestFind2' -count=1 -v
//
// "__key" is the name under which the executor stores an object's key field
// for package diff (graphql/batch_executor.go:577-596), but nothing stops a
// client from using it as an alias: `{ __key: things { name } }` parses,
// validates and executes, and the result map holds a []interface{} (or a
// map[string]interface{}) under "__key". When the subscription is re-run
// (any dependency invalidated), handleSubscribe (graphql/server.go:241) calls
// diff.Diff(previous, current):
//   - diffMap (diff/diff.go:155) evaluates `oldKey != newKey` on two interface
//     values holding slices/maps -> "runtime error: comparing uncomparable type
//     []interface {}";
//   - for objects inside a list, reorderKey/computeReorderIndices
//     (diff/diff.go:193-225) uses the "__key" value as a map key -> "runtime
//     error: hash of unhashable type []interface {}".
// Both happen in the rerunner's goroutine, outside any recover(): the process
// dies and takes every connection with it.
//
// Minimal repair: refuse the alias "__key" (Parse or PrepareQuery), and/or let
// package diff only compare / hash keys of comparable types.
//
// The test runs a connection with a harmless subscription and the hostile one
// in a child process (this test binary re-executed) and fails because the child
// dies instead of keeping both subscriptions alive.
package graphql_test

import (
	"bytes"
	"context"
	"encoding/json"
	"os"
	"os/exec"
	"sync"
	"testing"
	"time"

	"github.com/gorilla/websocket"
	"github.com/samsarahq/thunder/graphql"
	"github.com/samsarahq/thunder/graphql/schemabuilder"
	"github.com/samsarahq/thunder/reactive"
)

type find2Socket struct {
	in     chan []byte
	out    chan map[string]interface{}
	closed chan struct{}
	once   sync.Once
}

func (s *find2Socket) ReadJSON(v interface{}) error {
	select {
	case b := <-s.in:
		return json.Unmarshal(b, v)
	case <-s.closed:
		return &websocket.CloseError{Code: 1000}
	}
}

func (s *find2Socket) WriteJSON(v interface{}) error {
	b, err := json.Marshal(v)
	if err != nil {
		return err
	}
	var m map[string]interface{}
	json.Unmarshal(b, &m)
	select {
	case s.out <- m:
	case <-s.closed:
	}
	return nil
}

func (s *find2Socket) Close() error {
	s.once.Do(func() { close(s.closed) })
	return nil
}

func (s *find2Socket) subscribe(id, query string) {
	msg, _ := json.Marshal(map[string]interface{}{"query": query})
	b, _ := json.Marshal(map[string]interface{}{"id": id, "type": "subscribe", "message": json.RawMessage(msg)})
	s.in <- b
}

type Find2Thing struct {
	Name string
	Tags []string
}

var find2Queries = map[string]string{
	"top-level alias (uncomparable key compared)": `{ __key: things { name } }`,
	"alias inside a list (unhashable key hashed)":  `{ things { __key: tags } }`,
}

func TestFind2KeyAliasCrashesServer(t *testing.T) {
	if which := os.Getenv("FIND2_CHILD"); which != "" {
		schema := schemabuilder.NewSchema()
		q := schema.Query()
		q.FieldFunc("things", func(ctx context.Context) []*Find2Thing {
			// Something this query depends on changes every 20ms.
			reactive.InvalidateAfter(ctx, 20*time.Millisecond)
			return []*Find2Thing{{Name: "a", Tags: []string{"x"}}, {Name: "b", Tags: []string{"y"}}}
		})
		q.FieldFunc("tick", func(ctx context.Context) int64 {
			reactive.InvalidateAfter(ctx, 20*time.Millisecond)
			return time.Now().UnixNano()
		})
		schema.Mutation()

		sock := &find2Socket{in: make(chan []byte, 10), out: make(chan map[string]interface{}, 1000), closed: make(chan struct{})}
		conn := graphql.CreateConnection(context.Background(), sock, schema.MustBuild(), graphql.WithMinRerunInterval(time.Millisecond))
		go conn.ServeJSONSocket()
		sock.subscribe("good", `{ tick }`)
		sock.subscribe("hostile", find2Queries[which])

		// Both subscriptions must keep producing updates for a second.
		updates := map[string]int{}
		deadline := time.After(1500 * time.Millisecond)
		for {
			select {
			case m := <-sock.out:
				id, _ := m["id"].(string)
				updates[id]++
			case <-deadline:
				b, _ := json.Marshal(updates)
				os.Stdout.WriteString("FIND2 SURVIVED " + string(b) + "\n")
				return
			}
		}
	}

	for name, q := range find2Queries {
		cmd := exec.Command(os.Args[0], "-test.run=^TestFind2KeyAliasCrashesServer$", "-test.v")
		cmd.Env = append(os.Environ(), "FIND2_CHILD="+name)
		out, err := cmd.CombinedOutput()
		if err != nil || !bytes.Contains(out, []byte("FIND2 SURVIVED")) {
			head := string(out)
			if len(head) > 900 {
				head = head[:900]
			}
			t.Errorf("%s: subscribing to %s killed the server process: %v\n%s", name, q, err, head)
		} else {
			t.Logf("%s: %s", name, bytes.TrimSpace(out[bytes.Index(out, []byte("FIND2 SURVIVED")):]))
		}
	}
}
