// FINDING 4: the federation gateway's query normaliser takes time (and memory)
// exponential in the number of fragments when fragments are spread repeatedly.
//
// Copy into:  federation/       (package federation)
// Run with:   go test ./federation/ -run 'TestFind4' -count=1 -v
//
// Executor.Execute -> Planner.planRoot -> flattener.flatten
// (federation/normalize.go:211) -> flattenFragments (normalize.go:113-148).
// flattenFragments descends into every fragment spread, every time, without
// remembering which selection sets it has already inlined at this level, and
// appends their selections to the target slice. With
//
//     { ...F0 }
//     fragment F0 on Query { ...F1 ...F1 }
//     fragment F1 on Query { ...F2 ...F2 }
//     ...
//     fragment Fn on Query { a }
//
// fragment Fn is inlined 2^n times (2^n copies of the selection `a` are
// collected and then sorted and merged by mergeSameAlias): 900 bytes of query
// (n=22) take 1.2 s and 130 MB, n=24 4.5 s and 600 MB, n=26 (1 KB) 17 s and
// 2.2 GB, every further 40 bytes double it. graphql.Parse accepts the query in microseconds (the same shape
// was fixed there: detectConflicts and Flatten visit a shared fragment once),
// and the response is just {"a": 1}.
//
// Minimal repair: in flattenFragments keep a set of the selection sets already
// visited for this object (as graphql.Flatten does) and skip repeats; the
// source file itself carries the note "TODO: Add some limit to the expansion
// logic above for adversarial inputs".
//
// The test fails when the gateway has not answered the n=26 query within 3 s
// (it allocates several hundred MB until then).
package federation

import (
	"context"
	"fmt"
	"strings"
	"testing"
	"time"

	"github.com/samsarahq/thunder/graphql"
	"github.com/samsarahq/thunder/graphql/schemabuilder"
)

func find4Gateway(t *testing.T) *Executor {
	s1 := schemabuilder.NewSchemaWithName("s1")
	s1.Query().FieldFunc("a", func() int64 { return 1 })
	s1.Mutation()
	srv, err := NewServer(s1.MustBuild())
	if err != nil {
		t.Fatal(err)
	}
	execs := map[string]ExecutorClient{"s1": &DirectExecutorClient{Client: srv}}
	ctx := context.Background()
	e, err := NewExecutor(ctx, execs, &SchemaSyncerConfig{SchemaSyncer: NewIntrospectionSchemaSyncer(ctx, execs, nil)})
	if err != nil {
		t.Fatal(err)
	}
	return e
}

func find4Query(n int) string {
	var sb strings.Builder
	sb.WriteString("{ ...F0 }\n")
	for i := 0; i < n; i++ {
		fmt.Fprintf(&sb, "fragment F%d on Query { ...F%d ...F%d }\n", i, i+1, i+1)
	}
	fmt.Fprintf(&sb, "fragment F%d on Query { a }\n", n)
	return sb.String()
}

func TestFind4GatewayRepeatedSpreadsExponential(t *testing.T) {
	e := find4Gateway(t)

	run := func(n int) string {
		text := find4Query(n)
		start := time.Now()
		q, err := graphql.Parse(text, nil)
		if err != nil {
			return err.Error()
		}
		parse := time.Since(start)
		start = time.Now()
		res, _, err := e.Execute(context.Background(), q, nil)
		return fmt.Sprintf("n=%2d query=%4d bytes  Parse %v  gateway Execute %v  result=%v err=%v", n, len(text), parse, time.Since(start), res, err)
	}

	for _, n := range []int{8, 12, 16, 18, 20} {
		t.Log(run(n))
	}

	const n = 26
	done := make(chan string, 1)
	go func() { done <- run(n) }()
	select {
	case s := <-done:
		t.Log(s)
	case <-time.After(3 * time.Second):
		t.Fatalf("the gateway is still planning a %d byte query (n=%d) after 3s", len(find4Query(n)), n)
	}
}
