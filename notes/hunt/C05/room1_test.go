// room1_test.go - NOT claimed as a finding (within room, see README "W1").
// Copy into /tmp/hunt-C05/batch/ and run:
//   go test -run TestRoom1 ./batch/
// It is in package batch (internal) only to wait deterministically until both
// calls have joined the same batch group.
//
// Behaviour: the batch runs under the context of whichever call happened to
// create the group (the leader). If that call's context is a private child
// (e.g. a resolver that did context.WithTimeout) and it is cancelled, every
// other caller of the batch - whose own context and the batching context are
// alive - gets context.Canceled and its argument is never handed to Many.
// Under the reading "the context" = "the caller's own context" this breaks
// "exactly once unless the context is cancelled first"; under the reading
// "the context the batch runs under" (the one my reference implements) the
// waiter simply receives "the batch's error". The test fails under the strict
// reading.
package batch

import (
	"context"
	"testing"
	"time"
)

func TestRoom1LeaderPrivateContextPoisonsBatch(t *testing.T) {
	handed := 0
	f := &Func{
		MaxSize: 3, WaitInterval: 10 * time.Second, MaxDuration: 10 * time.Second,
		Many: func(ctx context.Context, a []interface{}) ([]interface{}, error) {
			handed += len(a)
			return a, nil
		},
	}
	root := WithBatching(context.Background())
	bctx := root.Value(batchContextKey{}).(*batchContext)
	joined := func() int {
		bctx.mu.Lock()
		defer bctx.mu.Unlock()
		for _, g := range bctx.pendingBatchGroups {
			return len(g.args)
		}
		return 0
	}
	waitFor := func(n int) {
		for joined() != n {
			time.Sleep(time.Millisecond)
		}
	}

	leaderCtx, cancelLeader := context.WithCancel(root)
	defer cancelLeader()
	leaderDone := make(chan error, 1)
	go func() { _, err := f.Invoke(leaderCtx, "leader"); leaderDone <- err }()
	waitFor(1)

	waiterDone := make(chan error, 1)
	go func() { _, err := f.Invoke(root, "waiter"); waiterDone <- err }()
	waitFor(2)

	cancelLeader() // only the leader's private context; root stays alive
	<-leaderDone
	if err := <-waiterDone; err != nil || handed == 0 {
		t.Errorf("waiter's own context was never cancelled, yet it got err=%v and its argument was handed to Many %d times", err, handed)
	}
}
