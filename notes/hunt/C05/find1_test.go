// find1_test.go - copy into /tmp/hunt-C05/batch/ and run:
//   go test -run TestFind1 ./batch/
//
// FINDING 1: one Invoke whose Shard value is not hashable panics inside the
// critical section of Func.Invoke (batch.go:153, the map lookup
// bctx.pendingBatchGroups[fs]) while bctx.mu is held (locked at batch.go:151,
// unlocked only at batch.go:198). The mutex of the batching context is never
// released, so EVERY later Invoke on that context - of any Func, with perfectly
// good arguments - blocks forever on bctx.mu.Lock(). The property demands that
// every call returns.
package batch_test

import (
	"context"
	"testing"
	"time"

	"github.com/samsarahq/thunder/batch"
)

func TestFind1UnhashableShardWedgesContext(t *testing.T) {
	many := func(ctx context.Context, args []interface{}) ([]interface{}, error) {
		return args, nil
	}
	// A sharded Func: the shard is whatever the caller put in the "table" slot.
	type query struct{ table interface{} }
	sharded := &batch.Func{
		Many:  many,
		Shard: func(arg interface{}) interface{} { return arg.(query).table },
	}
	// A completely unrelated Func without Shard.
	plain := &batch.Func{Many: many}

	ctx := batch.WithBatching(context.Background())

	// Call 1: a shard value that is not hashable. The call panics (fine, that
	// is the caller's bug) - the panic is recovered the way the graphql
	// executor recovers resolver panics.
	func() {
		defer func() {
			if r := recover(); r == nil {
				t.Fatal("expected the unhashable shard to panic")
			}
		}()
		sharded.Invoke(ctx, query{table: []string{"users"}})
	}()

	// Call 2 and 3: healthy calls on the same context must still return.
	for name, call := range map[string]func() (interface{}, error){
		"same Func, hashable shard": func() (interface{}, error) { return sharded.Invoke(ctx, query{table: "users"}) },
		"unrelated Func":            func() (interface{}, error) { return plain.Invoke(ctx, 42) },
	} {
		done := make(chan struct{})
		go func() {
			defer close(done)
			if _, err := call(); err != nil {
				t.Errorf("%s: unexpected error %v", name, err)
			}
		}()
		select {
		case <-done:
		case <-time.After(2 * time.Second):
			t.Errorf("%s: Invoke did not return within 2s (DefaultMaxDuration is 20ms): the batching context's mutex was left locked by the earlier panicking call", name)
		}
	}
}
