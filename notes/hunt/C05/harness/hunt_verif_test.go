//go:build verif
// +build verif

package batch

import (
	"hash/fnv"
	"runtime"
	"sync/atomic"
	"testing"
	"time"
)

func TestHuntStressHook(t *testing.T) {
	var ctr uint64
	for seed := int64(0); seed < 2000; seed++ {
		s := seed
		VerifHook = func(point string, group interface{}, index int) {
			h := fnv.New64a()
			h.Write([]byte(point))
			x := h.Sum64() ^ uint64(s)*0x9e3779b97f4a7c15 ^ atomic.AddUint64(&ctr, 1)*0xbf58476d1ce4e5b9
			x ^= x >> 31
			switch x % 6 {
			case 0:
				runtime.Gosched()
			case 1:
				time.Sleep(time.Duration(x>>8%800) * time.Microsecond)
			case 2:
				if point == "invoke.wake" || point == "invoke.unpublished" {
					time.Sleep(time.Duration(x>>8%2000) * time.Microsecond)
				}
			}
		}
		runHuntCase(t, seed, true)
		if t.Failed() {
			return
		}
	}
	VerifHook = nil
}
