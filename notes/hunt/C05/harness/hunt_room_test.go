package batch

import (
	"context"
	"encoding/json"
	"math"
	"sync"
	"testing"
	"time"
)

func TestRoomLeaderPrivateCtx(t *testing.T) {
	var got [][]interface{}
	var mu sync.Mutex
	f := &Func{MaxSize: 2, WaitInterval: time.Second, MaxDuration: time.Second,
		Many: func(ctx context.Context, a []interface{}) ([]interface{}, error) {
			mu.Lock(); got = append(got, a); mu.Unlock()
			return a, nil
		}}
	root := WithBatching(context.Background())
	lctx, cancel := context.WithCancel(root)
	res := make(chan error, 2)
	go func() { _, err := f.Invoke(lctx, "leader"); res <- err }()
	for {
		bctx := root.Value(batchContextKey{}).(*batchContext)
		bctx.mu.Lock(); n := len(bctx.pendingBatchGroups); bctx.mu.Unlock()
		if n == 1 { break }
		time.Sleep(time.Millisecond)
	}
	cancel()
	time.Sleep(0)
	_, err := f.Invoke(root, "waiter")
	t.Logf("waiter (live ctx) err=%v, leader err=%v, batches=%v", err, <-res, got)
}

func TestRoomNaNLeak(t *testing.T) {
	f := &Func{Many: func(ctx context.Context, a []interface{}) ([]interface{}, error) { return a, nil },
		Shard: func(interface{}) interface{} { return math.NaN() }}
	ctx := WithBatching(context.Background())
	for i := 0; i < 10; i++ { f.Invoke(ctx, i) }
	t.Logf("pending after 10 finished calls: %d", len(ctx.Value(batchContextKey{}).(*batchContext).pendingBatchGroups))
}

func TestRoomZeroes(t *testing.T) {
	f := &Func{MaxSize: 2, WaitInterval: time.Second, MaxDuration: time.Second,
		Many: func(ctx context.Context, a []interface{}) ([]interface{}, error) { t.Logf("batch %v", a); return a, nil },
		Shard: func(a interface{}) interface{} { return a }}
	ctx := WithBatching(context.Background())
	var wg sync.WaitGroup
	for _, v := range []float64{0, math.Copysign(0, -1)} {
		wg.Add(1)
		go func(v float64) { defer wg.Done(); f.Invoke(ctx, v) }(v)
	}
	wg.Wait()
}

func TestRoomIndex(t *testing.T) {
	b, err := json.Marshal(map[Index]string{NewIndex(0): "a", NewIndex(1): "b"})
	t.Logf("%s %v", b, err)
	var i Index
	err = i.UnmarshalText([]byte(`{"key":5}`))
	t.Logf("%v %v", i, err)
}

func TestRoomPanicNil(t *testing.T) {
	f := &Func{Many: func(ctx context.Context, a []interface{}) ([]interface{}, error) { panic(nil) }}
	_, err := f.Invoke(WithBatching(context.Background()), 1)
	t.Logf("%v", err)
}
