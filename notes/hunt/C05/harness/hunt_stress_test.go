package batch

import (
	"context"
	"errors"
	"fmt"
	"math/rand"
	"os"
	"sync"
	"sync/atomic"
	"testing"
	"time"

	"github.com/samsarahq/thunder/concurrencylimiter"
)

// Reference reading of the property:
//  - every Invoke returns (within a generous deadline)
//  - if it returns (v, nil): v == want(arg) for its own arg
//  - if it returns (nil, err): err is the error of the batch the arg was in, or the ctx error
//  - every arg (unique id) appears in at most one Many call, at most once
//  - if ctx was never cancelled, every arg appears exactly once
//  - every Many call has len(args) <= MaxSize (when > 0) and a single shard

type huntArg struct {
	id    int
	shard int
}

type huntMode int

const (
	modeOK huntMode = iota
	modeErr
	modePanic
	modePanicNil
	modeShort
	modeLong
	modeEmptyNonNilErr
	modeCount
)

func runHuntCase(t *testing.T, seed int64, hookDelays bool) {
	rng := rand.New(rand.NewSource(seed))
	n := 1 + rng.Intn(40)
	if os.Getenv("HUNT_BIG") != "" {
		n = 1 + rng.Intn(600)
	}
	nShards := 1 + rng.Intn(4)
	maxSize := 0
	if rng.Intn(2) == 0 {
		maxSize = 1 + rng.Intn(6)
	}
	mode := huntMode(rng.Intn(int(modeCount)))
	if rng.Intn(3) == 0 {
		mode = modeOK
	}
	perBatchMode := rng.Intn(3) == 0 // each batch picks its own mode
	cancelAt := time.Duration(-1)
	if rng.Intn(3) == 0 {
		cancelAt = time.Duration(rng.Intn(3000)) * time.Microsecond
	}
	useShard := rng.Intn(3) != 0
	limit := 0
	if rng.Intn(3) == 0 {
		limit = 1 + rng.Intn(5)
	}
	manyDelay := time.Duration(rng.Intn(500)) * time.Microsecond
	wait := time.Duration(rng.Intn(1500)) * time.Microsecond
	maxDur := time.Duration(rng.Intn(4000)) * time.Microsecond

	var mu sync.Mutex
	seen := map[int]int{}      // id -> batch number
	batchErr := map[int]error{} // batch number -> error returned (nil if none)
	batchNo := 0
	batchFail := map[int]bool{}
	var violations []string
	batchSeed := rng.Int63()

	f := &Func{
		MaxSize:      maxSize,
		WaitInterval: wait,
		MaxDuration:  maxDur,
	}
	if useShard {
		f.Shard = func(a interface{}) interface{} { return a.(huntArg).shard }
	}
	f.Many = func(ctx context.Context, args []interface{}) (res []interface{}, err error) {
		mu.Lock()
		b := batchNo
		batchNo++
		m := mode
		if perBatchMode {
			m = huntMode(rand.New(rand.NewSource(batchSeed + int64(b))).Intn(int(modeCount)))
		}
		if len(args) == 0 {
			violations = append(violations, "empty batch")
		}
		if maxSize > 0 && len(args) > maxSize {
			violations = append(violations, fmt.Sprintf("batch of %d > MaxSize %d", len(args), maxSize))
		}
		for _, a := range args {
			ha := a.(huntArg)
			if useShard && ha.shard != args[0].(huntArg).shard {
				violations = append(violations, "mixed shards")
			}
			if prev, ok := seen[ha.id]; ok {
				violations = append(violations, fmt.Sprintf("arg %d handed twice (batches %d, %d)", ha.id, prev, b))
			}
			seen[ha.id] = b
		}
		var e error
		switch m {
		case modeErr, modeEmptyNonNilErr:
			e = fmt.Errorf("batch %d failed", b)
		}
		batchErr[b] = e
		batchFail[b] = m != modeOK
		mu.Unlock()
		time.Sleep(manyDelay)
		out := make([]interface{}, len(args))
		for i, a := range args {
			out[i] = a.(huntArg).id * 7
		}
		switch m {
		case modeOK:
			return out, nil
		case modeErr:
			return nil, e
		case modeEmptyNonNilErr:
			return out, e
		case modePanic:
			panic(fmt.Sprintf("boom %d", b))
		case modePanicNil:
			panic(nil)
		case modeShort:
			return out[:len(out)-1], nil
		case modeLong:
			return append(out, 1), nil
		}
		return out, nil
	}

	base := context.Background()
	if limit > 0 {
		base = concurrencylimiter.With(base, limit)
	}
	ctx, cancel := context.WithCancel(WithBatching(base))
	defer cancel()
	var cancelled int32
	if cancelAt >= 0 {
		go func() {
			time.Sleep(cancelAt)
			atomic.StoreInt32(&cancelled, 1)
			cancel()
		}()
	}

	type outcome struct {
		arg huntArg
		v   interface{}
		err error
		ok  bool
	}
	outs := make([]outcome, n)
	delays := make([]time.Duration, n)
	for i := range delays {
		if rng.Intn(2) == 0 {
			delays[i] = time.Duration(rng.Intn(2500)) * time.Microsecond
		}
	}
	var wg sync.WaitGroup
	for i := 0; i < n; i++ {
		arg := huntArg{id: i, shard: rng.Intn(nShards)}
		outs[i].arg = arg
		wg.Add(1)
		go func(i int) {
			defer wg.Done()
			time.Sleep(delays[i])
			c, release := concurrencylimiter.Acquire(ctx)
			defer release()
			v, err := f.Invoke(c, arg)
			outs[i].v, outs[i].err, outs[i].ok = v, err, true
		}(i)
	}
	done := make(chan struct{})
	go func() { wg.Wait(); close(done) }()
	select {
	case <-done:
	case <-time.After(5 * time.Second):
		t.Fatalf("seed %d: calls did not return", seed)
	}

	mu.Lock()
	defer mu.Unlock()
	for _, v := range violations {
		t.Errorf("seed %d: %s", seed, v)
	}
	wasCancelled := atomic.LoadInt32(&cancelled) == 1
	for i, o := range outs {
		b, handed := seen[o.arg.id]
		if !handed && !wasCancelled {
			t.Errorf("seed %d: arg %d never handed to Many though ctx never cancelled (err=%v)", seed, i, o.err)
		}
		if o.err == nil {
			if !handed {
				t.Errorf("seed %d: arg %d got value %v without being handed", seed, i, o.v)
			}
			if o.v != o.arg.id*7 {
				t.Errorf("seed %d: arg %d got %v want %v", seed, i, o.v, o.arg.id*7)
			}
			if handed && batchFail[b] {
				t.Errorf("seed %d: arg %d got value though batch %d errored", seed, i, b)
			}
		} else {
			if o.v != nil {
				t.Errorf("seed %d: arg %d non-nil value with err", seed, i)
			}
			if handed {
				if be := batchErr[b]; be != nil && o.err != be {
					t.Errorf("seed %d: arg %d err %v, batch err %v", seed, i, o.err, be)
				}
			} else if !errors.Is(o.err, context.Canceled) {
				t.Errorf("seed %d: arg %d not handed, err %v", seed, i, o.err)
			}
		}
	}
}

func TestHuntStress(t *testing.T) {
	for seed := int64(0); seed < huntSeeds(); seed++ {
		runHuntCase(t, seed, false)
		if t.Failed() {
			return
		}
	}
}

func huntSeeds() int64 {
	if os.Getenv("HUNT_BIG") != "" {
		return 300
	}
	return 3000
}
