// find2_test.go - copy into /tmp/hunt-C05/batch/ and run:
//   go test -run TestFind2 ./batch/
//
// FINDING 2: if Func.Many ends the leader's goroutine with runtime.Goexit
// (which is what t.FailNow / t.Fatal / testify's require.* do, and they are
// commonly written inside a Many used in a test), safeInvoke (batch.go:110-125)
// does not get control back: recover() returns nil for Goexit, the deferred
// function runs, and the goroutine goes on exiting. Invoke never reaches
// close(bg.doneCh) (batch.go:231), so all OTHER callers that joined the batch
// block forever in <-bg.doneCh (batch.go:238). The property demands that every
// call returns even if the batch function fails.
//
// The test is independent of which goroutine becomes the leader: MaxSize is 2
// and both timers are long, so the batch runs exactly when the second call has
// joined; the leader's goroutine dies in Many, and the other call (the waiter)
// is the one that must return.
package batch_test

import (
	"context"
	"runtime"
	"testing"
	"time"

	"github.com/samsarahq/thunder/batch"
)

func TestFind2GoexitInManyStrandsWaiters(t *testing.T) {
	f := &batch.Func{
		MaxSize:      2,
		WaitInterval: 10 * time.Second,
		MaxDuration:  10 * time.Second,
		Many: func(ctx context.Context, args []interface{}) ([]interface{}, error) {
			if len(args) != 2 {
				t.Errorf("expected one batch of 2, got %d", len(args))
			}
			runtime.Goexit() // e.g. require.NoError(t, err) in a test's Many
			return args, nil
		},
	}
	ctx := batch.WithBatching(context.Background())

	returned := make(chan error, 2)
	for i := 0; i < 2; i++ {
		go func(i int) {
			_, err := f.Invoke(ctx, i)
			returned <- err // not deferred: must only fire if Invoke returned
		}(i)
	}

	// The leader's goroutine is gone; the waiter must still return (with an error).
	select {
	case err := <-returned:
		if err == nil {
			t.Errorf("waiter returned without error although Many never produced a result")
		}
	case <-time.After(2 * time.Second):
		t.Fatalf("the call that joined the batch never returned: bg.doneCh is never closed when Many exits the leader's goroutine")
	}
}
