// Differential harness used for the hunt (not a finding by itself).
// It is EXPECTED to fail, but only in these categories:
//   gomerge-raw*  -> find1,  js-strict -> find3,  js-loose (proto config only) -> find4.
// Every other category (ref, gomerge-json, gomerge-json-rawold, self, selfclone,
// mutated, panic, marshal, unmarshal, nil-but-differ, js-throw) must stay at 0.
//
// Copy into: diff/   together with nothing else (it defines helpers norm, clone, ...)
// Run:       go test ./diff/ -run TestHunt -v
package diff_test

import (
	"encoding/json"
	"fmt"
	"io/ioutil"
	"math/rand"
	"os"
	"os/exec"
	"path/filepath"
	"reflect"
	"regexp"
	"strconv"
	"strings"
	"testing"

	"github.com/samsarahq/thunder/diff"
	"github.com/samsarahq/thunder/merge"
)

// ---------- reference implementation of the documented delta format ----------

func refApply(orig interface{}, delta interface{}) (interface{}, error) {
	switch d := delta.(type) {
	case []interface{}:
		if len(d) != 1 {
			return nil, fmt.Errorf("ref: bad replacement %v", d)
		}
		return d[0], nil
	case map[string]interface{}:
		switch o := orig.(type) {
		case []interface{}:
			var out []interface{}
			if c, ok := d["$"]; ok {
				out = []interface{}{}
				for _, x := range c.([]interface{}) {
					switch x := x.(type) {
					case []interface{}:
						s, n := int(x[0].(float64)), int(x[1].(float64))
						for i := s; i < s+n; i++ {
							out = append(out, o[i])
						}
					case float64:
						if x == -1 {
							out = append(out, nil)
						} else {
							out = append(out, o[int(x)])
						}
					default:
						return nil, fmt.Errorf("ref: bad index %v", x)
					}
				}
			} else {
				out = append([]interface{}{}, o...)
			}
			for k, v := range d {
				if k == "$" {
					continue
				}
				i, err := strconv.Atoi(k)
				if err != nil || i < 0 || i >= len(out) {
					return nil, fmt.Errorf("ref: bad array key %q", k)
				}
				nv, err := refApply(out[i], v)
				if err != nil {
					return nil, err
				}
				out[i] = nv
			}
			return out, nil
		case map[string]interface{}:
			out := map[string]interface{}{}
			for k, v := range o {
				out[k] = v
			}
			for k, v := range d {
				if a, ok := v.([]interface{}); ok && len(a) == 0 {
					if _, ok := out[k]; !ok {
						return nil, fmt.Errorf("ref: removing absent %q", k)
					}
					delete(out, k)
					continue
				}
				nv, err := refApply(out[k], v)
				if err != nil {
					return nil, err
				}
				out[k] = nv
			}
			return out, nil
		default:
			return nil, fmt.Errorf("ref: object delta on %T", orig)
		}
	case nil:
		return nil, fmt.Errorf("ref: nil delta inside")
	default:
		return d, nil
	}
}

func toJSON(v interface{}) string {
	b, err := json.Marshal(v)
	if err != nil {
		panic(err)
	}
	return string(b)
}

func norm(v interface{}) interface{} {
	var out interface{}
	if err := json.Unmarshal([]byte(toJSON(v)), &out); err != nil {
		panic(err)
	}
	return out
}

// deep copy keeping Go types
func clone(v interface{}) interface{} {
	switch v := v.(type) {
	case map[string]interface{}:
		if v == nil {
			return v
		}
		r := map[string]interface{}{}
		for k, x := range v {
			r[k] = clone(x)
		}
		return r
	case []interface{}:
		if v == nil {
			return v
		}
		r := make([]interface{}, len(v))
		for i, x := range v {
			r[i] = clone(x)
		}
		return r
	case []byte:
		if v == nil {
			return v
		}
		return append([]byte{}, v...)
	default:
		return v
	}
}

// ---------- generator ----------

type gen struct {
	r      *rand.Rand
	goTyps bool // also use int, int64, []byte ...
	proto  bool
}

var strs = []string{"", "a", "b", "$", "0", "1", "-1", "__key", "é", " ", "<&>", "null", "[]"}
var fields = []string{"a", "b", "c", "d", "$", "0", "1", "2", "", "é"}

func (g *gen) scalar() interface{} {
	n := 5
	if g.goTyps {
		n = 9
	}
	switch g.r.Intn(n) {
	case 0:
		return nil
	case 1:
		return g.r.Intn(2) == 0
	case 2:
		return []float64{0, 1, 2, 3, -1, 0.5, 1e21, -2}[g.r.Intn(8)]
	case 3, 4:
		return strs[g.r.Intn(len(strs))]
	case 5:
		return g.r.Intn(4)
	case 6:
		return int64(g.r.Intn(4))
	case 7:
		return []byte(strs[g.r.Intn(len(strs))])
	default:
		return uint8(g.r.Intn(3))
	}
}

func (g *gen) keyVal() interface{} {
	if g.goTyps && g.r.Intn(4) == 0 {
		return []interface{}{1, int64(2), uint8(1), 2}[g.r.Intn(4)]
	}
	switch g.r.Intn(6) {
	case 0:
		return nil
	case 1:
		return g.r.Intn(2) == 0
	case 2, 3:
		return float64(g.r.Intn(4))
	default:
		return strs[g.r.Intn(4)]
	}
}

func (g *gen) value(depth int) interface{} {
	k := g.r.Intn(10)
	if depth <= 0 || k < 3 {
		return g.scalar()
	}
	if k < 6 {
		n := g.r.Intn(5)
		a := make([]interface{}, 0, n)
		// homogeneous-ish arrays
		mode := g.r.Intn(4)
		for i := 0; i < n; i++ {
			switch mode {
			case 0:
				a = append(a, g.scalar())
			case 1:
				a = append(a, g.object(depth-1, true))
			default:
				a = append(a, g.value(depth-1))
			}
		}
		return a
	}
	return g.object(depth-1, g.r.Intn(3) == 0)
}

func (g *gen) object(depth int, keyed bool) interface{} {
	m := map[string]interface{}{}
	n := g.r.Intn(4)
	for i := 0; i < n; i++ {
		m[g.field()] = g.value(depth)
	}
	if keyed {
		m["__key"] = g.keyVal()
	}
	return m
}

func (g *gen) field() string {
	if g.proto && g.r.Intn(6) == 0 {
		return "__proto__"
	}
	return fields[g.r.Intn(len(fields))]
}

// mutate returns a variant of v, possibly sharing structure with it.
func (g *gen) mutate(v interface{}, depth int) interface{} {
	switch g.r.Intn(12) {
	case 0:
		return g.value(depth)
	case 1:
		return v // alias
	case 2:
		return clone(v)
	}
	switch v := v.(type) {
	case map[string]interface{}:
		r := map[string]interface{}{}
		for k, x := range v {
			if k == "__key" {
				r[k] = x
				continue
			}
			switch g.r.Intn(8) {
			case 0: // drop
			case 1:
				r[k] = g.value(depth - 1)
			case 2:
				r[k] = x
			default:
				r[k] = g.mutate(x, depth-1)
			}
		}
		for g.r.Intn(3) == 0 {
			r[g.field()] = g.value(depth - 1)
		}
		if g.r.Intn(10) == 0 {
			r["__key"] = g.keyVal()
		}
		if g.r.Intn(15) == 0 {
			delete(r, "__key")
		}
		return r
	case []interface{}:
		r := []interface{}{}
		for _, x := range v {
			switch g.r.Intn(8) {
			case 0: // drop
			case 1:
				r = append(r, g.value(depth-1))
			case 2:
				r = append(r, x, clone(x))
			default:
				r = append(r, g.mutate(x, depth-1))
			}
		}
		for g.r.Intn(3) == 0 {
			i := g.r.Intn(len(r) + 1)
			r = append(r[:i], append([]interface{}{g.value(depth - 1)}, r[i:]...)...)
		}
		if g.r.Intn(2) == 0 {
			g.r.Shuffle(len(r), func(i, j int) { r[i], r[j] = r[j], r[i] })
		}
		if g.r.Intn(10) == 0 && len(r) == len(v) {
			// same backing array, same length
			copy(v, v)
		}
		return r
	default:
		return g.scalar()
	}
}

// ---------- JS harness ----------

func jsMergeSource(t testing.TB) string {
	src, err := ioutil.ReadFile(filepath.Join("..", "client", "src", "merge.ts"))
	if err != nil {
		t.Fatal(err)
	}
	s := string(src)
	s = regexp.MustCompile(`: any`).ReplaceAllString(s, "")
	s = strings.Replace(s, "export function", "function", 1)
	if strings.Contains(s, ": ") && regexp.MustCompile(`\w: (any|string|number)`).MatchString(s) {
		t.Fatalf("type annotations left in merge.ts transpile")
	}
	return s
}

const jsDriver = `
"use strict";
const fs = require("fs");
function strictEq(a, b) {
  if (a === b) return true;
  if (typeof a !== typeof b) return false;
  if (a === null || b === null || a === undefined || b === undefined) return false;
  if (typeof a !== "object") return false;
  if (Array.isArray(a) !== Array.isArray(b)) return false;
  if (Array.isArray(a)) {
    if (a.length !== b.length) return false;
    for (let i = 0; i < a.length; i++) { if (!(i in a) || !strictEq(a[i], b[i])) return false; }
    return true;
  }
  const ka = Object.keys(a).sort(), kb = Object.keys(b).sort();
  if (ka.length !== kb.length) return false;
  for (let i = 0; i < ka.length; i++) { if (ka[i] !== kb[i]) return false; if (!strictEq(a[ka[i]], b[kb[i]])) return false; }
  return true;
}
const lines = fs.readFileSync(process.argv[2], "utf8").split("\n").filter(x => x.length);
const out = [];
for (const line of lines) {
  const c = JSON.parse(line);
  let res, err = null;
  try { res = merge(c.old, c.delta); } catch (e) { err = String(e); }
  const strict = err === null && strictEq(res, c.want);
  let loose = false;
  try { loose = err === null && JSON.stringify(res) !== undefined && strictEq(JSON.parse(JSON.stringify(res)), c.want); } catch (e) {}
  out.push(JSON.stringify({strict, loose, err, got: err === null ? (JSON.stringify(res) === undefined ? "undefined" : JSON.stringify(res)) : null}));
}
fs.writeFileSync(process.argv[3], out.join("\n"));
`

type jsCase struct {
	Old   interface{} `json:"old"`
	Delta interface{} `json:"delta"`
	Want  interface{} `json:"want"`
}
type jsRes struct {
	Strict bool    `json:"strict"`
	Loose  bool    `json:"loose"`
	Err    *string `json:"err"`
	Got    *string `json:"got"`
}

func runJS(t testing.TB, cases []jsCase) []jsRes {
	dir, err := ioutil.TempDir("", "huntjs")
	if err != nil {
		t.Fatal(err)
	}
	defer os.RemoveAll(dir)
	var sb strings.Builder
	for _, c := range cases {
		sb.WriteString(toJSON(c))
		sb.WriteString("\n")
	}
	in, out, js := filepath.Join(dir, "in"), filepath.Join(dir, "out"), filepath.Join(dir, "m.js")
	ioutil.WriteFile(in, []byte(sb.String()), 0644)
	ioutil.WriteFile(js, []byte(jsMergeSource(t)+jsDriver), 0644)
	if b, err := exec.Command("node", js, in, out).CombinedOutput(); err != nil {
		t.Fatalf("node: %v\n%s", err, b)
	}
	b, _ := ioutil.ReadFile(out)
	var res []jsRes
	for _, l := range strings.Split(string(b), "\n") {
		if l == "" {
			continue
		}
		var r jsRes
		if err := json.Unmarshal([]byte(l), &r); err != nil {
			t.Fatal(err)
		}
		res = append(res, r)
	}
	if len(res) != len(cases) {
		t.Fatalf("js results %d != %d", len(res), len(cases))
	}
	return res
}

// ---------- the hunt ----------

func safeDiff(old, new interface{}) (d interface{}, p interface{}) {
	defer func() { p = recover() }()
	return diff.Diff(old, new), nil
}

func TestHunt(t *testing.T) {
	for _, cfg := range []struct {
		name          string
		goTyps, proto bool
		n             int
	}{{"json", false, false, 20000}, {"gotypes", true, false, 20000}, {"proto", false, true, 3000}} {
		t.Run(cfg.name, func(t *testing.T) {
			g := &gen{r: rand.New(rand.NewSource(42)), goTyps: cfg.goTyps, proto: cfg.proto}
			var jc []jsCase
			var descs []string
			fails := map[string]int{}
			report := func(kind, msg string) {
				fails[kind]++
				if fails[kind] <= 3 && kind != "gomerge-raw-intindex" && kind != "js-strict" {
					t.Errorf("[%s] %s", kind, msg)
				}
			}
			for i := 0; i < cfg.n; i++ {
				depth := 1 + g.r.Intn(4)
				old := g.value(depth)
				var new interface{}
				if g.r.Intn(5) == 0 {
					new = g.value(depth)
				} else {
					new = g.mutate(old, depth)
				}
				oldJ, newJ := toJSON(old), toJSON(new)
				desc := fmt.Sprintf("old=%s new=%s", oldJ, newJ)
				d, p := safeDiff(old, new)
				if p != nil {
					report("panic", fmt.Sprintf("%s: %v", desc, p))
					continue
				}
				if toJSON(old) != oldJ || toJSON(new) != newJ {
					report("mutated", desc)
				}
				// self diff
				if sd, p := safeDiff(old, old); p != nil || sd != nil {
					report("self", fmt.Sprintf("%s: %v %v", oldJ, sd, p))
				}
				if sd, p := safeDiff(old, clone(old)); p != nil || sd != nil {
					report("selfclone", fmt.Sprintf("%s: %v %v", oldJ, toJSON(sd), p))
				}
				sOld, sNew := diff.StripKey(old), diff.StripKey(new)
				want := norm(sNew)
				if d == nil {
					if !reflect.DeepEqual(norm(sOld), want) {
						report("nil-but-differ", desc)
					}
					continue
				}
				dj, err := json.Marshal(d)
				if err != nil {
					report("marshal", desc+": "+err.Error())
					continue
				}
				desc += " delta=" + string(dj)
				var dd interface{}
				if err := json.Unmarshal(dj, &dd); err != nil {
					report("unmarshal", desc)
					continue
				}
				// reference on serialised delta and JSON-normalised old
				if got, err := refApply(norm(sOld), dd); err != nil || !reflect.DeepEqual(got, want) {
					report("ref", fmt.Sprintf("%s: got %s err %v", desc, toJSON(got), err))
				}
				// go merge on serialised delta, normalised old
				if got, err := merge.Merge(norm(sOld), dd); err != nil || !reflect.DeepEqual(got, want) {
					report("gomerge-json", fmt.Sprintf("%s: got %s err %v", desc, toJSON(got), err))
				}
				// go merge on serialised delta, un-normalised stripped old
				if got, err := merge.Merge(sOld, dd); err != nil || !reflect.DeepEqual(norm(got), want) {
					report("gomerge-json-rawold", fmt.Sprintf("%s: got %s err %v", desc, toJSON(got), err))
				}
				// go merge on raw delta
				if got, err := merge.Merge(sOld, d); err != nil || !reflect.DeepEqual(norm(got), want) {
					kind := "gomerge-raw"
					if err != nil && strings.Contains(err.Error(), "unexpected index type: int") {
						kind = "gomerge-raw-intindex"
					}
					report(kind, fmt.Sprintf("%s: got %s err %v", desc, toJSON(got), err))
				} else if !cfg.goTyps && !reflect.DeepEqual(got, sNew) {
					report("gomerge-raw-strict", fmt.Sprintf("%s: got %#v want %#v", desc, got, sNew))
				}
				jc = append(jc, jsCase{norm(sOld), dd, want})
				descs = append(descs, desc)
			}
			if _, err := exec.LookPath("node"); err == nil {
				for i, r := range runJS(t, jc) {
					if r.Err != nil {
						report("js-throw", descs[i]+": "+*r.Err)
					} else if !r.Loose {
						report("js-loose", descs[i]+": got "+*r.Got)
					} else if !r.Strict {
						report("js-strict", descs[i]+": got "+*r.Got)
					}
				}
			}
			t.Logf("cases=%d js=%d fails=%v", cfg.n, len(jc), fails)
		})
	}
}
