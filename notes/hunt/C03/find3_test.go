// find3 (JavaScript client only): a null array element that Diff could not
// line up with an old element comes out of merge.ts as `undefined`, not null.
// diffArray (diff/diff.go lines 291-299) compares such an element with nil,
// finds no change and writes no entry for it, relying on the merge to fill a
// -1 slot with null. The Go merge does (zero value of interface{}), merge.ts
// line 27 does `merged.push(undefined)`.
//   old = [1]   new = [null]   delta = {"$": [-1]}   JS result: [undefined]
// `undefined` is not a JSON value; `x === null` checks, jest toEqual and
// lodash isEqual all tell it from null. JSON.stringify hides the difference.
//
// Copy into: diff/   (package diff_test; reads ../client/src/merge.ts and
//            needs `node` on PATH, skipped otherwise)
// Run:       go test ./diff/ -run TestFind3 -v
package diff_test

import (
	"encoding/json"
	"io/ioutil"
	"os"
	"os/exec"
	"path/filepath"
	"regexp"
	"strings"
	"testing"

	"github.com/samsarahq/thunder/diff"
)

const find3Driver = `
function show(v) {
  if (v === undefined) return "undefined";
  if (v === null || typeof v !== "object") return JSON.stringify(v);
  if (Array.isArray(v)) { const p = []; for (let i = 0; i < v.length; i++) p.push(show(v[i])); return "[" + p.join(",") + "]"; }
  return "{" + Object.keys(v).sort().map(k => JSON.stringify(k) + ":" + show(v[k])).join(",") + "}";
}
process.stdout.write(show(merge(JSON.parse(process.argv[2]), JSON.parse(process.argv[3]))));
`

func find3RunJS(t *testing.T, oldJSON, deltaJSON string) string {
	if _, err := exec.LookPath("node"); err != nil {
		t.Skip("node not found")
	}
	src, err := ioutil.ReadFile(filepath.Join("..", "client", "src", "merge.ts"))
	if err != nil {
		t.Fatal(err)
	}
	js := regexp.MustCompile(`: any`).ReplaceAllString(string(src), "")
	js = strings.Replace(js, "export function", "function", 1) + find3Driver
	dir, err := ioutil.TempDir("", "find3")
	if err != nil {
		t.Fatal(err)
	}
	defer os.RemoveAll(dir)
	f := filepath.Join(dir, "m.js")
	if err := ioutil.WriteFile(f, []byte(js), 0644); err != nil {
		t.Fatal(err)
	}
	out, err := exec.Command("node", f, oldJSON, deltaJSON).CombinedOutput()
	if err != nil {
		t.Fatalf("node: %v\n%s", err, out)
	}
	return string(out)
}

func TestFind3_JSMergeYieldsUndefinedForUnmatchedNull(t *testing.T) {
	cases := []struct {
		name     string
		old, new interface{}
		want     string // rendering of StripKey(new) with sorted keys
	}{
		{"replace", []interface{}{1.0}, []interface{}{nil}, `[null]`},
		{"append", []interface{}{}, []interface{}{nil}, `[null]`},
		{"second-null", []interface{}{nil, "a"}, []interface{}{nil, nil, "a"}, `[null,null,"a"]`},
		{"nested", map[string]interface{}{"l": []interface{}{"a"}}, map[string]interface{}{"l": []interface{}{"a", nil}}, `{"l":["a",null]}`},
	}
	for _, c := range cases {
		d := diff.Diff(c.old, c.new)
		dj, err := json.Marshal(d)
		if err != nil {
			t.Fatal(err)
		}
		oj, _ := json.Marshal(diff.StripKey(c.old))
		got := find3RunJS(t, string(oj), string(dj))
		if got != c.want {
			t.Errorf("%s: merge.ts merge(%s, %s) = %s, want %s", c.name, oj, dj, got, c.want)
		}
	}
}
