// find1: thunder's Go merge cannot apply a delta that Diff produced for an
// array whose order or length changed, unless the delta is first sent through
// JSON: Diff writes the "$" reorder list with Go ints and [2]int runs
// (diff/diff.go compressReorderIndices, lines 248/251/254), and
// merge.uncompressIndices (merge/merge.go lines 143-167) only accepts float64
// and []interface{}.
//
// Copy into: diff/   (package diff_test)
// Run:       go test ./diff/ -run TestFind1 -v
package diff_test

import (
	"reflect"
	"testing"

	"github.com/samsarahq/thunder/diff"
	"github.com/samsarahq/thunder/merge"
)

func TestFind1_GoMergeRejectsDiffsOwnReorderList(t *testing.T) {
	cases := []struct {
		name     string
		old, new interface{}
	}{
		// single index (Go int) in "$"
		{"swap", []interface{}{"a", "b"}, []interface{}{"b", "a"}},
		// -1 (Go int) in "$"
		{"append", []interface{}{}, []interface{}{"a"}},
		// run ([2]int) in "$"
		{"truncate", []interface{}{"a", "b", "c"}, []interface{}{"a", "b"}},
		// nested in an object
		{"nested", map[string]interface{}{"l": []interface{}{1.0}}, map[string]interface{}{"l": []interface{}{1.0, 2.0}}},
	}
	for _, c := range cases {
		d := diff.Diff(c.old, c.new)
		got, err := merge.Merge(diff.StripKey(c.old), d)
		if err != nil {
			t.Errorf("%s: Merge(StripKey(old), Diff(old,new)) failed: %v (delta %#v)", c.name, err, d)
			continue
		}
		if !reflect.DeepEqual(got, diff.StripKey(c.new)) {
			t.Errorf("%s: got %#v, want %#v", c.name, got, diff.StripKey(c.new))
		}
	}
}
