// find4 (JavaScript client only): a field named "__proto__" that appears in
// new but not in old is lost by merge.ts. The object branch builds
// `merged = {...original}` and then assigns `merged[key] = merge(...)`
// (client/src/merge.ts line 46). For key "__proto__" that assignment runs the
// Object.prototype.__proto__ setter instead of creating an own property: a
// scalar is dropped, an object/array becomes the prototype of the result (so
// it is neither an own key nor serialised). "__proto__" is a legal JSON
// object key and a legal GraphQL alias.
//   old = {}   new = {"__proto__": 1}   delta = {"__proto__": 1}   JS: {}
// (When old already has the field, the spread copies it as an own property
// and the update works; only newly appearing fields are lost.)
//
// Copy into: diff/   (package diff_test; reads ../client/src/merge.ts and
//            needs `node` on PATH, skipped otherwise)
// Run:       go test ./diff/ -run TestFind4 -v
package diff_test

import (
	"encoding/json"
	"io/ioutil"
	"os"
	"os/exec"
	"path/filepath"
	"reflect"
	"regexp"
	"strings"
	"testing"

	"github.com/samsarahq/thunder/diff"
	"github.com/samsarahq/thunder/merge"
)

func find4RunJS(t *testing.T, oldJSON, deltaJSON string) string {
	if _, err := exec.LookPath("node"); err != nil {
		t.Skip("node not found")
	}
	src, err := ioutil.ReadFile(filepath.Join("..", "client", "src", "merge.ts"))
	if err != nil {
		t.Fatal(err)
	}
	js := regexp.MustCompile(`: any`).ReplaceAllString(string(src), "")
	js = strings.Replace(js, "export function", "function", 1)
	js += "\nprocess.stdout.write(JSON.stringify(merge(JSON.parse(process.argv[2]), JSON.parse(process.argv[3]))));\n"
	dir, err := ioutil.TempDir("", "find4")
	if err != nil {
		t.Fatal(err)
	}
	defer os.RemoveAll(dir)
	f := filepath.Join(dir, "m.js")
	if err := ioutil.WriteFile(f, []byte(js), 0644); err != nil {
		t.Fatal(err)
	}
	out, err := exec.Command("node", f, oldJSON, deltaJSON).CombinedOutput()
	if err != nil {
		t.Fatalf("node: %v\n%s", err, out)
	}
	return string(out)
}

func TestFind4_JSMergeLosesNewProtoField(t *testing.T) {
	cases := []struct {
		name     string
		old, new map[string]interface{}
	}{
		{"scalar", map[string]interface{}{}, map[string]interface{}{"__proto__": 1.0}},
		{"object", map[string]interface{}{"a": 1.0}, map[string]interface{}{"a": 1.0, "__proto__": map[string]interface{}{"b": 2.0}}},
	}
	for _, c := range cases {
		d := diff.Diff(c.old, c.new)
		dj, _ := json.Marshal(d)
		oj, _ := json.Marshal(diff.StripKey(c.old))
		wj, _ := json.Marshal(diff.StripKey(c.new))

		// The Go merge gets it right.
		var dd interface{}
		json.Unmarshal(dj, &dd)
		g, err := merge.Merge(diff.StripKey(c.old), dd)
		if gj, _ := json.Marshal(g); err != nil || string(gj) != string(wj) {
			t.Fatalf("%s: go merge: %s %v", c.name, gj, err)
		}

		got := find4RunJS(t, string(oj), string(dj))
		var gotV, wantV interface{}
		json.Unmarshal([]byte(got), &gotV)
		json.Unmarshal(wj, &wantV)
		if !reflect.DeepEqual(gotV, wantV) {
			t.Errorf("%s: merge.ts merge(%s, %s) = %s, want %s", c.name, oj, dj, got, wj)
		}
	}
}
