// find2: the empty delta cannot be applied. Diff(v, v) is nil ("A nil diff
// indicates that the old and new objects are equal"), but
//   - Go:  merge.Merge(v, nil) returns the error "mergeReplaced: diff is not
//          an array of length 1: <nil>" (merge/merge.go lines 16-19 send every
//          non-object delta, nil included, to mergeReplaced, lines 117-123);
//   - JS:  merge(v, null) returns null, i.e. the value is silently replaced
//          by null (client/src/merge.ts lines 14-16).
// graphql/server.go never sends a nil delta for a subscription (it skips it,
// or sends {} on the first run), so the server path is unaffected; the
// round-trip law as worded is.
//
// Copy into: diff/   (package diff_test; the JS half reads
//            ../client/src/merge.ts and needs `node` on PATH, it is skipped
//            otherwise)
// Run:       go test ./diff/ -run TestFind2 -v
package diff_test

import (
	"encoding/json"
	"io/ioutil"
	"os"
	"os/exec"
	"path/filepath"
	"reflect"
	"regexp"
	"strings"
	"testing"

	"github.com/samsarahq/thunder/diff"
	"github.com/samsarahq/thunder/merge"
)

func TestFind2_GoMergeOfEmptyDelta(t *testing.T) {
	for _, v := range []interface{}{
		map[string]interface{}{"a": 1.0},
		[]interface{}{1.0, 2.0},
		"x",
	} {
		d := diff.Diff(v, v)
		if d != nil {
			t.Fatalf("Diff(v,v) = %v, want nil", d)
		}
		got, err := merge.Merge(diff.StripKey(v), d)
		if err != nil {
			t.Errorf("Merge(%v, Diff(v,v)) failed: %v", v, err)
			continue
		}
		if !reflect.DeepEqual(got, diff.StripKey(v)) {
			t.Errorf("Merge(%v, Diff(v,v)) = %v", v, got)
		}
	}
}

func find2RunJS(t *testing.T, oldJSON, deltaJSON string) string {
	if _, err := exec.LookPath("node"); err != nil {
		t.Skip("node not found")
	}
	src, err := ioutil.ReadFile(filepath.Join("..", "client", "src", "merge.ts"))
	if err != nil {
		t.Fatal(err)
	}
	js := regexp.MustCompile(`: any`).ReplaceAllString(string(src), "")
	js = strings.Replace(js, "export function", "function", 1)
	js += "\nconst r = merge(JSON.parse(process.argv[2]), JSON.parse(process.argv[3]));\n" +
		"process.stdout.write(r === undefined ? 'undefined' : JSON.stringify(r));\n"
	dir, err := ioutil.TempDir("", "find2")
	if err != nil {
		t.Fatal(err)
	}
	defer os.RemoveAll(dir)
	f := filepath.Join(dir, "m.js")
	if err := ioutil.WriteFile(f, []byte(js), 0644); err != nil {
		t.Fatal(err)
	}
	out, err := exec.Command("node", f, oldJSON, deltaJSON).CombinedOutput()
	if err != nil {
		t.Fatalf("node: %v\n%s", err, out)
	}
	return string(out)
}

func TestFind2_JSMergeOfEmptyDelta(t *testing.T) {
	v := map[string]interface{}{"a": 1.0}
	d := diff.Diff(v, v)
	dj, _ := json.Marshal(d) // "null"
	vj, _ := json.Marshal(diff.StripKey(v))
	got := find2RunJS(t, string(vj), string(dj))
	if got != string(vj) {
		t.Errorf("merge.ts: merge(%s, %s) = %s, want %s", vj, dj, got, vj)
	}
}
