// harness_federation_fuzz_test.go -- differential fuzz harness for the gateway (passes on the unmodified tree).
//
// Copy into:  federation/   (package federation; uses createExecutorWithFederatedUser from executor_test.go)
// Run with:   go test ./federation/ -run TestHuntGatewayFuzz -v
//
// Same generator and oracle as harness_graphql_fuzz_test.go, plus fragments on the union type inside union and
// member selections; the schema is the three-service schema of executor_test.go (federated fields, union,
// pagination connection, introspection).

package federation

import (
	"context"
	"encoding/json"
	"fmt"
	"math/rand"
	"reflect"
	"sort"
	"strings"
	"testing"

	"github.com/samsarahq/thunder/graphql"
)

type hFieldDesc struct {
	name string
	typ  string   // "" for leaf
	args []string // argument variants ("" = none)
}
type hTypeDesc struct {
	union   bool
	fields  []hFieldDesc
	members []string
}

var skillsFields = []hFieldDesc{{"sports", "", nil}, {"plumbing", "", nil}, {"eating", "", nil},
	{"abilities", "Abilities", nil}, {"abilitiesPointer", "Abilities", nil}, {"allAbilities", "Abilities", nil}, {"__typename", "", nil}}

var huntTypes = map[string]*hTypeDesc{
	"Query": {fields: []hFieldDesc{
		{"users", "User", nil}, {"emptyusers", "User", nil}, {"usersWithArgs", "User", []string{"(name: \"n1\")", "(name: \"n2\")"}},
		{"admins", "Admin", nil}, {"everyone", "Everyone", nil}, {"__typename", "", nil},
		{"__schema", "__Schema", nil}, {"__type", "__Type", []string{"(name: \"User\")", "(name: \"Everyone\")"}},
	}},
	"__Schema":              {fields: []hFieldDesc{{"queryType", "__Type", nil}, {"mutationType", "__Type", nil}, {"types", "__Type", nil}, {"directives", "__Directive", nil}, {"__typename", "", nil}}},
	"__Type":                {fields: []hFieldDesc{{"name", "", nil}, {"kind", "", nil}, {"description", "", nil}, {"fields", "__Field", nil}, {"ofType", "__Type", nil}, {"possibleTypes", "__Type", nil}, {"__typename", "", nil}}},
	"__Field":               {fields: []hFieldDesc{{"name", "", nil}, {"isDeprecated", "", nil}, {"type", "__Type", nil}, {"__typename", "", nil}}},
	"__Directive":           {fields: []hFieldDesc{{"name", "", nil}, {"description", "", nil}, {"locations", "", nil}, {"__typename", "", nil}}},
	"NonNullItemConnection": {fields: []hFieldDesc{{"totalCount", "", nil}, {"edges", "NonNullItemEdge", nil}, {"pageInfo", "PageInfo", nil}, {"__typename", "", nil}}},
	"NonNullItemEdge":       {fields: []hFieldDesc{{"cursor", "", nil}, {"node", "item", nil}, {"__typename", "", nil}}},
	"PageInfo":              {fields: []hFieldDesc{{"hasNextPage", "", nil}, {"hasPrevPage", "", nil}, {"startCursor", "", nil}, {"endCursor", "", nil}, {"__typename", "", nil}}},
	"item":                  {fields: []hFieldDesc{{"id", "", nil}, {"filterText", "", nil}, {"number", "", nil}, {"__typename", "", nil}}},
	"User": {fields: []hFieldDesc{
		{"id", "", nil}, {"orgId", "", nil}, {"name", "", nil}, {"email", "", nil}, {"phoneNumber", "", nil},
		{"device", "Device", nil}, {"deviceWithArgs", "Device", []string{"(id: 1)", "(id: 2)"}},
		{"secret", "", nil}, {"skills", "UserSkills", nil},
		{"testPagination", "NonNullItemConnection", []string{"(first: 2, after: \"\", additional: \"jk\")", "(first: 1, after: \"\", additional: \"jk\")"}}, {"isAdmin", "", nil}, {"privelages", "", nil},
		{"__typename", "", nil},
	}},
	"Admin":      {fields: []hFieldDesc{{"id", "", nil}, {"orgId", "", nil}, {"superPower", "", nil}, {"hiding", "", nil}, {"__typename", "", nil}}},
	"Device":     {fields: []hFieldDesc{{"id", "", nil}, {"orgId", "", nil}, {"isOn", "", nil}, {"temp", "", nil}, {"__typename", "", nil}}},
	"UserSkills": {fields: skillsFields},
	"Abilities":  {fields: []hFieldDesc{{"teleportation", "", nil}, {"breathingFire", "", nil}, {"thunder", "", nil}, {"__typename", "", nil}}},
	"Everyone":   {union: true, members: []string{"Admin", "User"}},
}

// ---------- query tree ----------

const (
	nField = iota
	nInline
	nSpread
)

type hDir struct {
	skip bool
	cond string
	val  bool
}

type hNode struct {
	kind   int
	alias  string
	name   string
	args   string
	on     string
	frag   int
	dirs   []hDir
	hasSub bool
	sub    []*hNode
}

type hFrag struct {
	name string
	on   string
	sub  []*hNode
}

type hQuery struct {
	frags []*hFrag
	body  []*hNode
}

// condition sources: literal and variables
type hCond struct {
	text string
	val  bool
}

var hConds = []hCond{
	{"true", true}, {"false", false},
	{"$t", true}, {"$f", false},
	{"$dt", true}, {"$df", false},
	{"$ot", true}, {"$of", false},
}

const hHeader = "query Q($t: Boolean!, $f: Boolean!, $dt: Boolean = true, $df: Boolean = false, $ot: Boolean = false, $of: Boolean = true) "

func hVars() map[string]interface{} {
	return map[string]interface{}{"t": true, "f": false, "ot": true, "of": false}
}

type hGen struct {
	r        *rand.Rand
	types    map[string]*hTypeDesc
	frags    []*hFrag
	maxDepth int
	dirProb  float64
	// unionSelf allows fragments on a union type inside a selection on that
	// union, and inside a selection on one of its members.
	unionSelf bool
	maxFrags  int
	spreadP   float64
}

func (g *hGen) unionOf(typ string) string {
	names := []string{}
	for n, td := range g.types {
		if td.union {
			for _, m := range td.members {
				if m == typ {
					names = append(names, n)
				}
			}
		}
	}
	sort.Strings(names)
	if len(names) == 0 {
		return ""
	}
	return names[0]
}

func (g *hGen) dirs() []hDir {
	if g.r.Float64() >= g.dirProb {
		return nil
	}
	c := func() hCond { return hConds[g.r.Intn(len(hConds))] }
	switch g.r.Intn(4) {
	case 0:
		x := c()
		return []hDir{{true, x.text, x.val}}
	case 1:
		x := c()
		return []hDir{{false, x.text, x.val}}
	case 2:
		x, y := c(), c()
		return []hDir{{true, x.text, x.val}, {false, y.text, y.val}}
	default:
		x, y := c(), c()
		return []hDir{{false, x.text, x.val}, {true, y.text, y.val}}
	}
}

func hIncluded(ds []hDir) bool {
	for _, d := range ds {
		if d.skip && d.val {
			return false
		}
		if !d.skip && !d.val {
			return false
		}
	}
	return true
}

// genSet generates a selection set for typ. firstFrag is the lowest fragment
// index that may be spread here (to keep fragments acyclic).
func (g *hGen) genSet(typ string, depth int, firstFrag int) []*hNode {
	td := g.types[typ]
	n := 1 + g.r.Intn(4)
	var out []*hNode
	for i := 0; i < n; i++ {
		roll := g.r.Float64()
		// candidate fragments
		var cands []int
		for j := firstFrag; j < len(g.frags); j++ {
			f := g.frags[j]
			if f.on == typ {
				cands = append(cands, j)
			} else if td.union {
				for _, m := range td.members {
					if m == f.on {
						cands = append(cands, j)
					}
				}
			} else if g.unionSelf && f.on == g.unionOf(typ) {
				cands = append(cands, j)
			}
		}
		switch {
		case roll < g.spreadP && len(cands) > 0:
			out = append(out, &hNode{kind: nSpread, frag: cands[g.r.Intn(len(cands))], dirs: g.dirs()})
		case (roll < g.spreadP+0.2 || td.union) && depth < g.maxDepth:
			on := typ
			if td.union {
				if g.r.Float64() < 0.25 {
					// union-level __typename
					nd := &hNode{kind: nField, name: "__typename", alias: "__typename", dirs: g.dirs()}
					if g.r.Float64() < 0.3 {
						nd.alias = "al___typename"
					}
					out = append(out, nd)
					continue
				}
				on = td.members[g.r.Intn(len(td.members))]
				if g.unionSelf && g.r.Float64() < 0.2 {
					on = typ
				}
			} else if u := g.unionOf(typ); g.unionSelf && u != "" && g.r.Float64() < 0.3 {
				on = u
			}
			out = append(out, &hNode{kind: nInline, on: on, dirs: g.dirs(), hasSub: true, sub: g.genSet(on, depth+1, firstFrag)})
		case td.union:
			nd := &hNode{kind: nField, name: "__typename", alias: "__typename", dirs: g.dirs()}
			out = append(out, nd)
		default:
			fd := td.fields[g.r.Intn(len(td.fields))]
			if fd.typ != "" && depth >= g.maxDepth {
				// pick a leaf instead
				for {
					fd = td.fields[g.r.Intn(len(td.fields))]
					if fd.typ == "" {
						break
					}
				}
			}
			nd := &hNode{kind: nField, name: fd.name, alias: fd.name, dirs: g.dirs()}
			if len(fd.args) > 0 {
				k := g.r.Intn(len(fd.args))
				nd.args = fd.args[k]
				if k > 0 {
					nd.alias = fmt.Sprintf("%s_%d", fd.name, k)
				}
			}
			if g.r.Float64() < 0.2 {
				nd.alias = "al_" + nd.alias
			}
			if fd.typ != "" {
				nd.hasSub = true
				nd.sub = g.genSet(fd.typ, depth+1, firstFrag)
			}
			out = append(out, nd)
		}
	}
	return out
}

func (g *hGen) gen() *hQuery {
	nf := g.r.Intn(g.maxFrags + 1)
	names := []string{}
	for n := range g.types {
		if n != "Query" || g.r.Float64() < 0.5 {
			names = append(names, n)
		}
	}
	sort.Strings(names)
	g.frags = nil
	for i := 0; i < nf; i++ {
		g.frags = append(g.frags, &hFrag{name: fmt.Sprintf("F%d", i), on: names[g.r.Intn(len(names))]})
	}
	// bodies: fragment i may spread j > i
	for i := nf - 1; i >= 0; i-- {
		g.frags[i].sub = g.genSet(g.frags[i].on, 1, i+1)
	}
	body := g.genSet("Query", 0, 0)
	return &hQuery{frags: g.frags, body: body}
}

// ---------- printing ----------

const hMarker = "zz9"

type hPrinter struct {
	q      *hQuery
	pruned bool
	used   map[int]bool
	empty  bool // some selection set became empty after pruning
}

func (p *hPrinter) set(sb *strings.Builder, nodes []*hNode, ind string) {
	sb.WriteString("{\n")
	cnt := 0
	for _, n := range nodes {
		if p.pruned && !hIncluded(n.dirs) {
			continue
		}
		cnt++
		sb.WriteString(ind + "  ")
		switch n.kind {
		case nField:
			if n.alias != n.name {
				sb.WriteString(n.alias + ": ")
			}
			sb.WriteString(n.name + n.args)
		case nInline:
			sb.WriteString("... on " + n.on)
		case nSpread:
			sb.WriteString("..." + p.q.frags[n.frag].name)
			p.markUsed(n.frag)
		}
		if !p.pruned {
			for _, d := range n.dirs {
				if d.skip {
					sb.WriteString(" @skip(if: " + d.cond + ")")
				} else {
					sb.WriteString(" @include(if: " + d.cond + ")")
				}
			}
		}
		if n.hasSub {
			sb.WriteString(" ")
			p.set(sb, n.sub, ind+"  ")
		}
		sb.WriteString("\n")
	}
	if cnt == 0 {
		p.empty = true
		sb.WriteString(ind + "  " + hMarker + ": __typename\n")
	}
	sb.WriteString(ind + "}")
}

// markUsed marks a fragment (and, transitively, what it spreads in the printed form) as used.
func (p *hPrinter) markUsed(i int) {
	if p.used[i] {
		return
	}
	p.used[i] = true
	var walk func(nodes []*hNode)
	walk = func(nodes []*hNode) {
		for _, n := range nodes {
			if p.pruned && !hIncluded(n.dirs) {
				continue
			}
			if n.kind == nSpread {
				p.markUsed(n.frag)
			}
			walk(n.sub)
		}
	}
	walk(p.q.frags[i].sub)
}

func (p *hPrinter) print(header string) string {
	p.used = map[int]bool{}
	var sb strings.Builder
	sb.WriteString(header)
	p.set(&sb, p.q.body, "")
	sb.WriteString("\n")
	for i, f := range p.q.frags {
		if !p.used[i] {
			continue
		}
		sb.WriteString("fragment " + f.name + " on " + f.on + " ")
		p.set(&sb, f.sub, "")
		sb.WriteString("\n")
	}
	return sb.String()
}

func hStrip(v interface{}) interface{} {
	switch v := v.(type) {
	case map[string]interface{}:
		delete(v, hMarker)
		for k, e := range v {
			v[k] = hStrip(e)
		}
		return v
	case []interface{}:
		for i, e := range v {
			v[i] = hStrip(e)
		}
		return v
	}
	return v
}

// ---------- running ----------

func hRun(e *Executor, text string, vars map[string]interface{}) (interface{}, error) {
	q, err := graphql.Parse(text, vars)
	if err != nil {
		return nil, fmt.Errorf("parse: %v", err)
	}
	res, _, err := e.Execute(context.Background(), q, nil)
	if err != nil {
		return nil, fmt.Errorf("execute: %v", err)
	}
	bs, err := json.Marshal(res)
	if err != nil {
		return nil, fmt.Errorf("marshal: %v", err)
	}
	var out interface{}
	if err := json.Unmarshal(bs, &out); err != nil {
		return nil, err
	}
	return out, nil
}

func TestHuntGatewayFuzz(t *testing.T) {
	e, _, _, _, err := createExecutorWithFederatedUser()
	if err != nil {
		t.Fatal(err)
	}
	total, mism, errBoth, empties := 0, 0, 0, 0
	for seed := int64(1); seed <= 3000; seed++ {
		r := rand.New(rand.NewSource(seed))
		g := &hGen{r: r, types: huntTypes, maxDepth: 2 + r.Intn(3), dirProb: 0.2 + 0.5*r.Float64(), maxFrags: 3 + 4*int(seed%2), spreadP: 0.2 + 0.3*float64(seed%3)/2, unionSelf: true}
		q := g.gen()
		po := &hPrinter{q: q}
		orig := po.print(hHeader)
		allUsed := true
		for i := range q.frags {
			if !po.used[i] {
				allUsed = false
			}
		}
		if !allUsed {
			var keep []*hFrag
			remap := map[int]int{}
			for i, f := range q.frags {
				if po.used[i] {
					remap[i] = len(keep)
					keep = append(keep, f)
				}
			}
			var fix func(nodes []*hNode)
			fix = func(nodes []*hNode) {
				for _, n := range nodes {
					if n.kind == nSpread {
						n.frag = remap[n.frag]
					}
					fix(n.sub)
				}
			}
			fix(q.body)
			for _, f := range keep {
				fix(f.sub)
			}
			q.frags = keep
			po = &hPrinter{q: q}
			orig = po.print(hHeader)
		}
		pp := &hPrinter{q: q, pruned: true}
		pruned := pp.print("query Q ")
		total++
		if pp.empty {
			empties++
		}

		got, gerr := hRun(e, orig, hVars())
		want, werr := hRun(e, pruned, nil)
		if gerr != nil && werr != nil {
			errBoth++
			if errBoth <= 3 {
				t.Logf("both err seed %d: %v | %v\n%s", seed, gerr, werr, orig)
			}
			continue
		}
		want = hStrip(want)
		if (gerr != nil) != (werr != nil) || !reflect.DeepEqual(got, want) {
			mism++
			if mism <= 8 {
				gj, _ := json.Marshal(got)
				wj, _ := json.Marshal(want)
				t.Errorf("seed %d (empty=%v)\nORIGINAL:\n%s\nPRUNED:\n%s\ngot  %s err=%v\nwant %s err=%v", seed, pp.empty, orig, pruned, gj, gerr, wj, werr)
			}
		}
	}
	t.Logf("total=%d mismatches=%d bothErr=%d withEmptySets=%d", total, mism, errBoth, empties)
}
