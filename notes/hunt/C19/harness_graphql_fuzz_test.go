// harness_graphql_fuzz_test.go -- differential fuzz harness (passes on the unmodified tree; evidence of conformance).
//
// Copy into:  graphql/   (package graphql_test)
// Run with:   go test ./graphql/ -run TestHuntFuzz -v     (TestHuntFuzz, TestHuntFuzzRerunner, TestHuntFuzzHTTP)
//
// Generates type-correct queries with @skip/@include (literal and variable conditions, one or both directives,
// either order) on fields, inline fragments and fragment spreads, prints the query and its pruned form (excluded
// nodes deleted, directives dropped, fragments that became unreachable dropped, a selection set that became empty
// replaced by the marker `zz9: __typename` which is stripped from the expected result), runs both and compares the
// JSON results and the number of resolver invocations.

package graphql_test

import (
	"bytes"
	"context"
	"encoding/json"
	"fmt"
	"math/rand"
	"net/http/httptest"
	"reflect"
	"sort"
	"strings"
	"sync"
	"testing"
	"time"

	"github.com/samsarahq/thunder/reactive"

	"github.com/samsarahq/thunder/batch"
	"github.com/samsarahq/thunder/graphql"
	"github.com/samsarahq/thunder/graphql/schemabuilder"
)

// ---------- schema ----------

type HO struct {
	Id    int64
	X     int64
	Y     string
	Depth int64
}
type HA struct {
	Id int64
	X  int64
	Ax string
}
type HB struct {
	Id int64
	X  int64
	Bx string
}
type HU struct {
	schemabuilder.Union
	*HA
	*HB
}

var hCountMu sync.Mutex
var hCounts = map[string]int{}

func hc(name string) {
	hCountMu.Lock()
	hCounts[name]++
	hCountMu.Unlock()
}

func hTakeCounts() map[string]int {
	hCountMu.Lock()
	defer hCountMu.Unlock()
	c := hCounts
	hCounts = map[string]int{}
	return c
}

func huntSchema() *graphql.Schema {
	s := schemabuilder.NewSchema()
	q := s.Query()
	mkO := func(id, depth int64) *HO {
		return &HO{Id: id, X: id * 10, Y: fmt.Sprintf("y%d", id), Depth: depth}
	}
	q.FieldFunc("a", func() int64 { hc("q.a"); return 1 })
	q.FieldFunc("b", func() string { hc("q.b"); return "bee" })
	q.FieldFunc("o", func() *HO { hc("q.o"); return mkO(1, 0) })
	q.FieldFunc("os", func() []*HO { hc("q.os"); return []*HO{mkO(2, 0), mkO(3, 0), nil} })
	q.FieldFunc("nilo", func() *HO { hc("q.nilo"); return nil })
	q.FieldFunc("ex", func() *HO { hc("q.ex"); return mkO(4, 0) }, schemabuilder.Expensive)
	q.FieldFunc("arg", func(args struct{ X int64 }) int64 { hc("q.arg"); return args.X * 2 })
	q.FieldFunc("u", func() *HU { hc("q.u"); return &HU{HA: &HA{Id: 5, X: 50, Ax: "ax5"}} })
	q.FieldFunc("us", func() []*HU {
		hc("q.us")
		return []*HU{{HA: &HA{Id: 6, X: 60, Ax: "ax6"}}, {HB: &HB{Id: 7, X: 70, Bx: "bx7"}}, {HB: &HB{Id: 8, X: 80, Bx: "bx8"}}}
	})

	o := s.Object("HO", HO{})
	o.FieldFunc("child", func(o *HO) *HO {
		hc("o.child")
		if o.Depth >= 3 {
			return nil
		}
		return mkO(o.Id*10+1, o.Depth+1)
	})
	o.FieldFunc("kids", func(o *HO) []*HO {
		hc("o.kids")
		if o.Depth >= 2 {
			return nil
		}
		return []*HO{mkO(o.Id*10+2, o.Depth+1), mkO(o.Id*10+3, o.Depth+1)}
	})
	o.FieldFunc("u", func(o *HO) *HU {
		hc("o.u")
		if o.Id%2 == 0 {
			return &HU{HA: &HA{Id: o.Id*10 + 4, X: 1, Ax: "oax"}}
		}
		return &HU{HB: &HB{Id: o.Id*10 + 5, X: 2, Bx: "obx"}}
	})
	o.FieldFunc("argf", func(o *HO, args struct{ X int64 }) int64 { hc("o.argf"); return o.Id*1000 + args.X })
	o.BatchFieldFunc("bat", func(ctx context.Context, in map[batch.Index]*HO) (map[batch.Index]string, error) {
		out := make(map[batch.Index]string)
		hc("o.bat")
		for i, o := range in {
			out[i] = fmt.Sprintf("bat%d", o.Id)
		}
		return out, nil
	})
	o.FieldFunc("exp", func(o *HO) *HO {
		hc("o.exp")
		if o.Depth >= 3 {
			return nil
		}
		return mkO(o.Id*10+6, o.Depth+1)
	}, schemabuilder.Expensive)

	a := s.Object("HA", HA{})
	a.FieldFunc("o", func(a *HA) *HO { hc("a.o"); return mkO(a.Id*10+7, 2) })
	b := s.Object("HB", HB{})
	b.FieldFunc("kids", func(b *HB) []*HO { hc("b.kids"); return []*HO{mkO(b.Id*10+8, 2)} })
	return s.MustBuild()
}

// ---------- schema description for the generator ----------

type hFieldDesc struct {
	name string
	typ  string   // "" for leaf
	args []string // argument variants ("" = none)
}
type hTypeDesc struct {
	union   bool
	fields  []hFieldDesc
	members []string
}

var huntTypes = map[string]*hTypeDesc{
	"Query": {fields: []hFieldDesc{
		{"a", "", nil}, {"b", "", nil}, {"o", "HO", nil}, {"os", "HO", nil}, {"nilo", "HO", nil},
		{"ex", "HO", nil}, {"arg", "", []string{"(x: 1)", "(x: 2)"}}, {"u", "HU", nil}, {"us", "HU", nil},
		{"__typename", "", nil},
	}},
	"HO": {fields: []hFieldDesc{
		{"id", "", nil}, {"x", "", nil}, {"y", "", nil}, {"child", "HO", nil}, {"kids", "HO", nil},
		{"u", "HU", nil}, {"argf", "", []string{"(x: 1)", "(x: 2)"}}, {"bat", "", nil}, {"exp", "HO", nil},
		{"__typename", "", nil},
	}},
	"HA": {fields: []hFieldDesc{{"id", "", nil}, {"x", "", nil}, {"ax", "", nil}, {"o", "HO", nil}, {"__typename", "", nil}}},
	"HB": {fields: []hFieldDesc{{"id", "", nil}, {"x", "", nil}, {"bx", "", nil}, {"kids", "HO", nil}, {"__typename", "", nil}}},
	"HU": {union: true, members: []string{"HA", "HB"}},
}

// ---------- query tree ----------

const (
	nField = iota
	nInline
	nSpread
)

type hDir struct {
	skip bool
	cond string
	val  bool
}

type hNode struct {
	kind   int
	alias  string
	name   string
	args   string
	on     string
	frag   int
	dirs   []hDir
	hasSub bool
	sub    []*hNode
}

type hFrag struct {
	name string
	on   string
	sub  []*hNode
}

type hQuery struct {
	frags []*hFrag
	body  []*hNode
}

// condition sources: literal and variables
type hCond struct {
	text string
	val  bool
}

var hConds = []hCond{
	{"true", true}, {"false", false},
	{"$t", true}, {"$f", false},
	{"$dt", true}, {"$df", false},
	{"$ot", true}, {"$of", false},
}

const hHeader = "query Q($t: Boolean!, $f: Boolean!, $dt: Boolean = true, $df: Boolean = false, $ot: Boolean = false, $of: Boolean = true) "

func hVars() map[string]interface{} {
	return map[string]interface{}{"t": true, "f": false, "ot": true, "of": false}
}

type hGen struct {
	r        *rand.Rand
	types    map[string]*hTypeDesc
	frags    []*hFrag
	maxDepth int
	dirProb  float64
	// unionSelf allows fragments on a union type inside a selection on that
	// union, and inside a selection on one of its members.
	unionSelf bool
	maxFrags  int
	spreadP   float64
}

func (g *hGen) unionOf(typ string) string {
	names := []string{}
	for n, td := range g.types {
		if td.union {
			for _, m := range td.members {
				if m == typ {
					names = append(names, n)
				}
			}
		}
	}
	sort.Strings(names)
	if len(names) == 0 {
		return ""
	}
	return names[0]
}

func (g *hGen) dirs() []hDir {
	if g.r.Float64() >= g.dirProb {
		return nil
	}
	c := func() hCond { return hConds[g.r.Intn(len(hConds))] }
	switch g.r.Intn(4) {
	case 0:
		x := c()
		return []hDir{{true, x.text, x.val}}
	case 1:
		x := c()
		return []hDir{{false, x.text, x.val}}
	case 2:
		x, y := c(), c()
		return []hDir{{true, x.text, x.val}, {false, y.text, y.val}}
	default:
		x, y := c(), c()
		return []hDir{{false, x.text, x.val}, {true, y.text, y.val}}
	}
}

func hIncluded(ds []hDir) bool {
	for _, d := range ds {
		if d.skip && d.val {
			return false
		}
		if !d.skip && !d.val {
			return false
		}
	}
	return true
}

// genSet generates a selection set for typ. firstFrag is the lowest fragment
// index that may be spread here (to keep fragments acyclic).
func (g *hGen) genSet(typ string, depth int, firstFrag int) []*hNode {
	td := g.types[typ]
	n := 1 + g.r.Intn(4)
	var out []*hNode
	for i := 0; i < n; i++ {
		roll := g.r.Float64()
		// candidate fragments
		var cands []int
		for j := firstFrag; j < len(g.frags); j++ {
			f := g.frags[j]
			if f.on == typ {
				cands = append(cands, j)
			} else if td.union {
				for _, m := range td.members {
					if m == f.on {
						cands = append(cands, j)
					}
				}
			} else if g.unionSelf && f.on == g.unionOf(typ) {
				cands = append(cands, j)
			}
		}
		switch {
		case roll < g.spreadP && len(cands) > 0:
			out = append(out, &hNode{kind: nSpread, frag: cands[g.r.Intn(len(cands))], dirs: g.dirs()})
		case (roll < g.spreadP+0.2 || td.union) && depth < g.maxDepth:
			on := typ
			if td.union {
				if g.r.Float64() < 0.25 {
					// union-level __typename
					nd := &hNode{kind: nField, name: "__typename", alias: "__typename", dirs: g.dirs()}
					if g.r.Float64() < 0.3 {
						nd.alias = "al___typename"
					}
					out = append(out, nd)
					continue
				}
				on = td.members[g.r.Intn(len(td.members))]
				if g.unionSelf && g.r.Float64() < 0.2 {
					on = typ
				}
			} else if u := g.unionOf(typ); g.unionSelf && u != "" && g.r.Float64() < 0.3 {
				on = u
			}
			out = append(out, &hNode{kind: nInline, on: on, dirs: g.dirs(), hasSub: true, sub: g.genSet(on, depth+1, firstFrag)})
		case td.union:
			nd := &hNode{kind: nField, name: "__typename", alias: "__typename", dirs: g.dirs()}
			out = append(out, nd)
		default:
			fd := td.fields[g.r.Intn(len(td.fields))]
			if fd.typ != "" && depth >= g.maxDepth {
				// pick a leaf instead
				for {
					fd = td.fields[g.r.Intn(len(td.fields))]
					if fd.typ == "" {
						break
					}
				}
			}
			nd := &hNode{kind: nField, name: fd.name, alias: fd.name, dirs: g.dirs()}
			if len(fd.args) > 0 {
				k := g.r.Intn(len(fd.args))
				nd.args = fd.args[k]
				if k > 0 {
					nd.alias = fmt.Sprintf("%s_%d", fd.name, k)
				}
			}
			if g.r.Float64() < 0.2 {
				nd.alias = "al_" + nd.alias
			}
			if fd.typ != "" {
				nd.hasSub = true
				nd.sub = g.genSet(fd.typ, depth+1, firstFrag)
			}
			out = append(out, nd)
		}
	}
	return out
}

func (g *hGen) gen() *hQuery {
	nf := g.r.Intn(g.maxFrags + 1)
	names := []string{}
	for n := range g.types {
		if n != "Query" || g.r.Float64() < 0.5 {
			names = append(names, n)
		}
	}
	sort.Strings(names)
	g.frags = nil
	for i := 0; i < nf; i++ {
		g.frags = append(g.frags, &hFrag{name: fmt.Sprintf("F%d", i), on: names[g.r.Intn(len(names))]})
	}
	// bodies: fragment i may spread j > i
	for i := nf - 1; i >= 0; i-- {
		g.frags[i].sub = g.genSet(g.frags[i].on, 1, i+1)
	}
	body := g.genSet("Query", 0, 0)
	return &hQuery{frags: g.frags, body: body}
}

// ---------- printing ----------

const hMarker = "zz9"

type hPrinter struct {
	q      *hQuery
	pruned bool
	used   map[int]bool
	empty  bool // some selection set became empty after pruning
}

func (p *hPrinter) set(sb *strings.Builder, nodes []*hNode, ind string) {
	sb.WriteString("{\n")
	cnt := 0
	for _, n := range nodes {
		if p.pruned && !hIncluded(n.dirs) {
			continue
		}
		cnt++
		sb.WriteString(ind + "  ")
		switch n.kind {
		case nField:
			if n.alias != n.name {
				sb.WriteString(n.alias + ": ")
			}
			sb.WriteString(n.name + n.args)
		case nInline:
			sb.WriteString("... on " + n.on)
		case nSpread:
			sb.WriteString("..." + p.q.frags[n.frag].name)
			p.markUsed(n.frag)
		}
		if !p.pruned {
			for _, d := range n.dirs {
				if d.skip {
					sb.WriteString(" @skip(if: " + d.cond + ")")
				} else {
					sb.WriteString(" @include(if: " + d.cond + ")")
				}
			}
		}
		if n.hasSub {
			sb.WriteString(" ")
			p.set(sb, n.sub, ind+"  ")
		}
		sb.WriteString("\n")
	}
	if cnt == 0 {
		p.empty = true
		sb.WriteString(ind + "  " + hMarker + ": __typename\n")
	}
	sb.WriteString(ind + "}")
}

// markUsed marks a fragment (and, transitively, what it spreads in the printed form) as used.
func (p *hPrinter) markUsed(i int) {
	if p.used[i] {
		return
	}
	p.used[i] = true
	var walk func(nodes []*hNode)
	walk = func(nodes []*hNode) {
		for _, n := range nodes {
			if p.pruned && !hIncluded(n.dirs) {
				continue
			}
			if n.kind == nSpread {
				p.markUsed(n.frag)
			}
			walk(n.sub)
		}
	}
	walk(p.q.frags[i].sub)
}

func (p *hPrinter) print(header string) string {
	p.used = map[int]bool{}
	var sb strings.Builder
	sb.WriteString(header)
	p.set(&sb, p.q.body, "")
	sb.WriteString("\n")
	for i, f := range p.q.frags {
		if !p.used[i] {
			continue
		}
		sb.WriteString("fragment " + f.name + " on " + f.on + " ")
		p.set(&sb, f.sub, "")
		sb.WriteString("\n")
	}
	return sb.String()
}

func hStrip(v interface{}) interface{} {
	switch v := v.(type) {
	case map[string]interface{}:
		delete(v, hMarker)
		for k, e := range v {
			v[k] = hStrip(e)
		}
		return v
	case []interface{}:
		for i, e := range v {
			v[i] = hStrip(e)
		}
		return v
	}
	return v
}

// ---------- running ----------

var hUseRerunner = false

var hUseHTTP = false
var hSeeds = int64(6000)

func hRunHTTP(schema *graphql.Schema, text string, vars map[string]interface{}) (interface{}, error) {
	body, _ := json.Marshal(map[string]interface{}{"query": text, "variables": vars})
	req := httptest.NewRequest("POST", "/graphql", bytes.NewReader(body))
	rec := httptest.NewRecorder()
	graphql.HTTPHandler(schema).ServeHTTP(rec, req)
	var resp struct {
		Data   interface{}
		Errors []string
	}
	if err := json.Unmarshal(rec.Body.Bytes(), &resp); err != nil {
		return nil, fmt.Errorf("bad response %q: %v", rec.Body.String(), err)
	}
	if len(resp.Errors) > 0 {
		return nil, fmt.Errorf("errors: %v", resp.Errors)
	}
	return resp.Data, nil
}

func hRun(schema *graphql.Schema, text string, vars map[string]interface{}) (interface{}, error) {
	if hUseHTTP {
		return hRunHTTP(schema, text, vars)
	}
	q, err := graphql.Parse(text, vars)
	if err != nil {
		return nil, fmt.Errorf("parse: %v", err)
	}
	if err := graphql.PrepareQuery(context.Background(), schema.Query, q.SelectionSet); err != nil {
		return nil, fmt.Errorf("prepare: %v", err)
	}
	e := graphql.NewExecutor(graphql.NewImmediateGoroutineScheduler())
	var res interface{}
	if hUseRerunner {
		done := make(chan struct{})
		rr := reactive.NewRerunner(context.Background(), func(ctx context.Context) (interface{}, error) {
			defer close(done)
			ctx = batch.WithBatching(ctx)
			res, err = e.Execute(ctx, schema.Query, nil, q)
			return nil, nil
		}, time.Hour, false)
		<-done
		rr.Stop()
	} else {
		res, err = e.Execute(context.Background(), schema.Query, nil, q)
	}
	if err != nil {
		return nil, fmt.Errorf("execute: %v", err)
	}
	bs, err := json.Marshal(res)
	if err != nil {
		return nil, fmt.Errorf("marshal: %v", err)
	}
	var out interface{}
	if err := json.Unmarshal(bs, &out); err != nil {
		return nil, err
	}
	return out, nil
}

func TestHuntFuzzHTTP(t *testing.T) {
	hUseHTTP = true
	defer func() { hUseHTTP = false }()
	TestHuntFuzz(t)
}

func TestHuntFuzzRerunner(t *testing.T) {
	hUseRerunner = true
	defer func() { hUseRerunner = false }()
	TestHuntFuzz(t)
}

func TestHuntFuzz(t *testing.T) {
	schema := huntSchema()
	total, mism, errBoth, empties := 0, 0, 0, 0
	for seed := int64(1); seed <= hSeeds; seed++ {
		r := rand.New(rand.NewSource(seed))
		g := &hGen{r: r, types: huntTypes, maxDepth: 2 + r.Intn(3), dirProb: 0.2 + 0.5*r.Float64(), maxFrags: 3 + 4*int(seed%2), spreadP: 0.2 + 0.3*float64(seed%3)/2}
		q := g.gen()
		po := &hPrinter{q: q}
		orig := po.print(hHeader)
		// drop unused fragments of the original by regenerating when any is unused
		allUsed := true
		for i := range q.frags {
			if !po.used[i] {
				allUsed = false
			}
		}
		if !allUsed {
			// remove unused fragments: remap
			var keep []*hFrag
			remap := map[int]int{}
			for i, f := range q.frags {
				if po.used[i] {
					remap[i] = len(keep)
					keep = append(keep, f)
				}
			}
			var fix func(nodes []*hNode)
			fix = func(nodes []*hNode) {
				for _, n := range nodes {
					if n.kind == nSpread {
						n.frag = remap[n.frag]
					}
					fix(n.sub)
				}
			}
			fix(q.body)
			for _, f := range keep {
				fix(f.sub)
			}
			q.frags = keep
			po = &hPrinter{q: q}
			orig = po.print(hHeader)
		}
		pp := &hPrinter{q: q, pruned: true}
		pruned := pp.print("query Q ")
		total++
		if pp.empty {
			empties++
		}

		hTakeCounts()
		got, gerr := hRun(schema, orig, hVars())
		gc := hTakeCounts()
		want, werr := hRun(schema, pruned, nil)
		wc := hTakeCounts()
		if !reflect.DeepEqual(gc, wc) {
			mism++
			if mism <= 8 {
				t.Errorf("seed %d: resolver invocations differ\nORIGINAL:\n%s\nPRUNED:\n%s\ngot  %v\nwant %v", seed, orig, pruned, gc, wc)
			}
		}
		if gerr != nil && werr != nil {
			errBoth++
			continue
		}
		want = hStrip(want)
		if (gerr != nil) != (werr != nil) || !reflect.DeepEqual(got, want) {
			mism++
			if mism <= 8 {
				gj, _ := json.Marshal(got)
				wj, _ := json.Marshal(want)
				t.Errorf("seed %d (empty=%v)\nORIGINAL:\n%s\nPRUNED:\n%s\ngot  %s err=%v\nwant %s err=%v", seed, pp.empty, orig, pruned, gj, gerr, wj, werr)
			}
		}
	}
	t.Logf("total=%d mismatches=%d bothErr=%d withEmptySets=%d", total, mism, errBoth, empties)
}
