// harness_graphql_probes_test.go -- hand-written edge probes (prints outcomes, asserts nothing).
// Copy into graphql/ together with harness_graphql_fuzz_test.go; run: go test ./graphql/ -run TestHuntProbe -v

package graphql_test

import (
	"encoding/json"
	"fmt"
	"testing"
)

func TestHuntProbe(t *testing.T) {
	schema := huntSchema()
	cases := []struct {
		q    string
		vars map[string]interface{}
	}{
		{`{ a @skip(if: false) @skip(if: true) b }`, nil},
		{`{ a @include(if: true) @include(if: false) b }`, nil},
		{`{ ... @skip(if: true) { a } b }`, nil},
		{`{ ... @skip(if: false) { a } b }`, nil},
		{`{ x: a @skip(if: true) x: b }`, nil},
		{`{ o @skip(if: true) { nosuch } b }`, nil},
		{`{ arg @skip(if: true) b }`, nil},
		{`query($v: Boolean = true) { a @skip(if: $v) b }`, map[string]interface{}{"v": nil}},
		{`query($v: Boolean = true) { a @skip(if: $v) b }`, nil},
		{`{ a @skip(if: $undefined) b }`, nil},
		{`{ ...F @skip(if: true) b } fragment F on Query { a }`, nil},
		{`query Q @skip(if: true) { a b }`, nil},
		{`{ a @SKIP(if: true) b }`, nil},
		{`{ a @skip(if: true, if: false) b }`, nil},
		{`{ a @skip(if: "true") b }`, nil},
		{`{ a @skip b }`, nil},
		{`{ o @skip(if: true) { x @skip(if: "bad") } b }`, nil},
		{`{ o { x @skip(if: "bad") } b }`, nil},
		{`{ o { ...F @include(if: false) } b } fragment F on HO { x @skip(if: 3) }`, nil},
		{`{ u { ... on HU @skip(if: true) { ... on HA { x } } ... on HA { ax } } }`, nil},
		{`{ u { ...F } } fragment F on HU { ... on HA { x } }`, nil},
		{`{ o { ... on Nonexistent @skip(if: true) { x } y } }`, nil},
		{`{ o { ... on Nonexistent @skip(if: false) { x } y } }`, nil},
		{`query($v: Boolean! = true) { a @skip(if: $v) b }`, nil},
		{`query($v: Boolean) { a @include(if: $v) b }`, map[string]interface{}{"v": true}},
		{`query($v: Boolean) { a @include(if: $v) b }`, map[string]interface{}{"v": "true"}},
		{`query($v: Boolean) { a @include(if: $v) b }`, map[string]interface{}{"v": 1.0}},
		{`query($v: [Boolean] = [true]) { a @include(if: $v) b }`, nil},
	}
	for _, c := range cases {
		got, err := hRun(schema, c.q, c.vars)
		j, _ := json.Marshal(got)
		fmt.Printf("%-90s vars=%v\n    => %s err=%v\n", c.q, c.vars, j, err)
	}
}
