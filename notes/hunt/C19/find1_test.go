// find1_test.go -- repeated @skip / @include on one node: only the first one of each name is honoured.
//
// Copy into:  graphql/   (package graphql_test)
// Run with:   go test ./graphql/ -run TestFind1RepeatedDirective -v
//
// Reading of the property used here: a node is excluded as soon as ONE of the
// @skip / @include directives written on it excludes it ("a node ... is
// included only if [all of them] allow it"). ShouldIncludeNode
// (graphql/directive.go:14-29) looks each name up with findDirectiveWithName
// (directive.go:32-39), which returns the first match only, so a second
// @skip(if: true) or @include(if: false) on the same node is silently ignored
// and the outcome depends on the order the directives are written in.
// Rejecting the query with a client error (repeating a directive is not legal
// GraphQL) is accepted by this test as well; silently keeping the node is not.
package graphql_test

import (
	"context"
	"encoding/json"
	"reflect"
	"testing"

	"github.com/samsarahq/thunder/graphql"
	"github.com/samsarahq/thunder/graphql/schemabuilder"
)

type find1Obj struct {
	X int64
	Y string
}

func find1Schema() *graphql.Schema {
	s := schemabuilder.NewSchema()
	q := s.Query()
	q.FieldFunc("a", func() int64 { return 1 })
	q.FieldFunc("b", func() string { return "bee" })
	q.FieldFunc("o", func() *find1Obj { return &find1Obj{X: 10, Y: "why"} })
	s.Object("Obj", find1Obj{})
	return s.MustBuild()
}

func find1Run(schema *graphql.Schema, text string, vars map[string]interface{}) (interface{}, error) {
	q, err := graphql.Parse(text, vars)
	if err != nil {
		return nil, err
	}
	if err := graphql.PrepareQuery(context.Background(), schema.Query, q.SelectionSet); err != nil {
		return nil, err
	}
	e := graphql.NewExecutor(graphql.NewImmediateGoroutineScheduler())
	res, err := e.Execute(context.Background(), schema.Query, nil, q)
	if err != nil {
		return nil, err
	}
	bs, err := json.Marshal(res)
	if err != nil {
		return nil, err
	}
	var out interface{}
	return out, json.Unmarshal(bs, &out)
}

func TestFind1RepeatedDirective(t *testing.T) {
	schema := find1Schema()
	cases := []struct {
		name   string
		query  string
		vars   map[string]interface{}
		pruned string // the query after deleting the excluded nodes and dropping the directives
	}{
		{
			name:   "field, second @skip excludes",
			query:  `{ a @skip(if: false) @skip(if: true) b }`,
			pruned: `{ b }`,
		},
		{
			name:   "field, same directives in the other order (this one is honoured)",
			query:  `{ a @skip(if: true) @skip(if: false) b }`,
			pruned: `{ b }`,
		},
		{
			name:   "field, second @include excludes",
			query:  `{ a @include(if: true) @include(if: false) b }`,
			pruned: `{ b }`,
		},
		{
			name:   "field, variable conditions",
			query:  `query Q($x: Boolean!, $y: Boolean!) { a @skip(if: $x) @skip(if: $y) b }`,
			vars:   map[string]interface{}{"x": false, "y": true},
			pruned: `{ b }`,
		},
		{
			name:   "inline fragment",
			query:  `{ o { ... on Obj @include(if: true) @include(if: false) { x } y } }`,
			pruned: `{ o { y } }`,
		},
		{
			name:   "fragment spread",
			query:  `{ o { ...F @skip(if: false) @skip(if: true) y } } fragment F on Obj { x }`,
			pruned: `{ o { y } }`,
		},
		{
			name:   "mixed: @skip(false) @include(true) @skip(true)",
			query:  `{ a @skip(if: false) @include(if: true) @skip(if: true) b }`,
			pruned: `{ b }`,
		},
	}
	for _, c := range cases {
		t.Run(c.name, func(t *testing.T) {
			want, err := find1Run(schema, c.pruned, nil)
			if err != nil {
				t.Fatalf("pruned query failed: %v", err)
			}
			got, err := find1Run(schema, c.query, c.vars)
			if err != nil {
				// Refusing a repeated directive is an acceptable outcome.
				t.Logf("query rejected: %v", err)
				return
			}
			if !reflect.DeepEqual(got, want) {
				gj, _ := json.Marshal(got)
				wj, _ := json.Marshal(want)
				t.Errorf("query %s\n  returned %s\n  but the query without the excluded node, %s, returns %s", c.query, gj, c.pruned, wj)
			}
		})
	}
}
