// find2_test.go -- the gateway manifestation of find1: a repeated @skip /
// @include on one node is honoured for its first occurrence only.
//
// Copy into:  federation/   (package federation)
// Run with:   go test ./federation/ -run TestFind2GatewayRepeatedDirective -v
//
// The gateway's normalizer (federation/normalize.go:118 and :129,
// flattenFragments) and planner (federation/planner.go:198) decide with the
// same graphql.ShouldIncludeNode (graphql/directive.go:14-29), which only looks
// at the first directive of each name (findDirectiveWithName,
// directive.go:32-39). Same reading of the property and same accepted outcomes
// as in find1_test.go: the node must be left out, or the query refused.
package federation

import (
	"context"
	"encoding/json"
	"reflect"
	"testing"

	"github.com/samsarahq/thunder/graphql"
	"github.com/samsarahq/thunder/graphql/schemabuilder"
)

func find2Gateway(t *testing.T) *Executor {
	type User struct {
		Id   int64
		Name string
	}
	s1 := schemabuilder.NewSchemaWithName("s1")
	u1 := s1.Object("User", User{}, schemabuilder.FetchObjectFromKeys(func(args struct{ Keys []*User }) []*User { return args.Keys }))
	u1.Key("id")
	s1.Query().FieldFunc("users", func() []*User { return []*User{{Id: 1, Name: "ann"}, {Id: 2, Name: "bob"}} })

	type UserOnS2 struct {
		Id   int64
		Name string
	}
	s2 := schemabuilder.NewSchemaWithName("s2")
	u2 := s2.Object("User", UserOnS2{}, schemabuilder.FetchObjectFromKeys(func(args struct{ Keys []*UserOnS2 }) []*UserOnS2 { return args.Keys }))
	u2.Key("id")
	u2.FieldFunc("secret", func(u *UserOnS2) string { return "shh" })

	execs := map[string]ExecutorClient{}
	for name, s := range map[string]*schemabuilder.Schema{"s1": s1, "s2": s2} {
		srv, err := NewServer(s.MustBuild())
		if err != nil {
			t.Fatal(err)
		}
		execs[name] = &DirectExecutorClient{Client: srv}
	}
	ctx := context.Background()
	e, err := NewExecutor(ctx, execs, &SchemaSyncerConfig{SchemaSyncer: NewIntrospectionSchemaSyncer(ctx, execs, nil)})
	if err != nil {
		t.Fatal(err)
	}
	return e
}

func find2Run(e *Executor, text string, vars map[string]interface{}) (interface{}, error) {
	q, err := graphql.Parse(text, vars)
	if err != nil {
		return nil, err
	}
	res, _, err := e.Execute(context.Background(), q, nil)
	if err != nil {
		return nil, err
	}
	bs, err := json.Marshal(res)
	if err != nil {
		return nil, err
	}
	var out interface{}
	return out, json.Unmarshal(bs, &out)
}

func TestFind2GatewayRepeatedDirective(t *testing.T) {
	e := find2Gateway(t)
	cases := []struct {
		name   string
		query  string
		vars   map[string]interface{}
		pruned string
	}{
		{
			name:   "local field",
			query:  `{ users { id name @skip(if: false) @skip(if: true) } }`,
			pruned: `{ users { id } }`,
		},
		{
			name:   "field served by the other service",
			query:  `{ users { id secret @include(if: true) @include(if: false) } }`,
			pruned: `{ users { id } }`,
		},
		{
			name:   "inline fragment, variable conditions",
			query:  `query Q($x: Boolean!, $y: Boolean!) { users { id ... on User @skip(if: $x) @skip(if: $y) { secret } } }`,
			vars:   map[string]interface{}{"x": false, "y": true},
			pruned: `{ users { id } }`,
		},
		{
			name:   "fragment spread",
			query:  `{ users { id ...F @include(if: true) @include(if: false) } } fragment F on User { name secret }`,
			pruned: `{ users { id } }`,
		},
	}
	for _, c := range cases {
		t.Run(c.name, func(t *testing.T) {
			want, err := find2Run(e, c.pruned, nil)
			if err != nil {
				t.Fatalf("pruned query failed: %v", err)
			}
			got, err := find2Run(e, c.query, c.vars)
			if err != nil {
				// Refusing a repeated directive is an acceptable outcome.
				t.Logf("query rejected: %v", err)
				return
			}
			if !reflect.DeepEqual(got, want) {
				gj, _ := json.Marshal(got)
				wj, _ := json.Marshal(want)
				t.Errorf("query %s\n  returned %s\n  but the query without the excluded node, %s, returns %s", c.query, gj, c.pruned, wj)
			}
		})
	}
}
