// harness_federation_probes_test.go -- hand-written gateway probes (prints outcomes, asserts nothing).
// Copy into federation/ together with harness_federation_fuzz_test.go; run: go test ./federation/ -run TestHuntGWProbe -v

package federation

import (
	"context"
	"encoding/json"
	"fmt"
	"testing"
)

func TestHuntGWProbe(t *testing.T) {
	execs, _ := createMutationExecutor()
	ctx := context.Background()
	me, err := NewExecutor(ctx, execs, &SchemaSyncerConfig{SchemaSyncer: NewIntrospectionSchemaSyncer(ctx, execs, nil)})
	if err != nil {
		t.Fatal(err)
	}
	e, _, _, _, _ := createExecutorWithFederatedUser()
	type c struct {
		ex   *Executor
		q    string
		vars map[string]interface{}
	}
	cases := []c{
		{me, `mutation { newUser @skip(if: true) { id } newFakeUser { id } }`, nil},
		{me, `mutation { newFakeUser { id } }`, nil},
		{me, `mutation($v: Boolean!) { newUser @include(if: $v) { id name } newFakeUser @skip(if: $v) { id } }`, map[string]interface{}{"v": true}},
		{me, `mutation { ... on Mutation @skip(if: true) { newUser { id } } newFakeUser { id } __typename }`, nil},
		{e, `{ users { id @skip(if: false) @skip(if: true) name } }`, nil},
		{e, `{ users { ... on User @include(if: true) @include(if: false) { id } name } }`, nil},
		{e, `{ users { _federation @skip(if: true) { id } secret } }`, nil},
		{e, `{ users { _federation { id } secret } }`, nil},
		{e, `{ users { secret @skip(if: true) name } }`, nil},
		{e, `{ everyone { ... on User @skip(if: true) { secret } ... on User { id } } }`, nil},
		{e, `{ everyone { ... on User { nosuch @skip(if: true) id } } }`, nil},
		{e, `{ users { ... on Nope @skip(if: true) { id } name } }`, nil},
		{e, `{ users { ... on Nope @skip(if: false) { id } name } }`, nil},
	}
	for _, c := range cases {
		got, err := hRun(c.ex, c.q, c.vars)
		j, _ := json.Marshal(got)
		fmt.Printf("%s vars=%v\n    => %s err=%v\n", c.q, c.vars, j, err)
	}
}
