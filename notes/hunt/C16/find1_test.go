// FINDING 1: a resolver that panics with a nil value (panic(nil)) is treated as
// a successful resolver that returned null: Execute returns NO error and partial
// data ({"boom":null,...}).
//
// Copy into:  graphql/   (package graphql_test)
// Run with:   go test ./graphql/ -run TestFind1 -v
//
// Note: go.mod of this module says "go 1.15", so the toolchain's default GODEBUG
// for the module is panicnil=1 (recover() returns nil after panic(nil)); that is
// the configuration the module itself builds and tests under. The same happens
// for any user whose main module declares go < 1.21 or sets GODEBUG=panicnil=1.
//
// Responsible code: graphql/executor.go, SafeExecuteResolver (lines 259-269) and
// SafeExecuteBatchResolver (lines 247-257): "if panicErr := recover(); panicErr != nil".
package graphql_test

import (
	"context"
	"encoding/json"
	"testing"

	"github.com/samsarahq/thunder/batch"
	"github.com/samsarahq/thunder/graphql"
	"github.com/samsarahq/thunder/graphql/schemabuilder"
)

type find1Obj struct{ Idx int64 }

func find1Schema() *graphql.Schema {
	schema := schemabuilder.NewSchema()
	q := schema.Query()
	q.FieldFunc("fine", func() string { return "x" })
	q.FieldFunc("boom", func() (string, error) { panic(nil) })
	q.FieldFunc("objs", func() []find1Obj { return []find1Obj{{Idx: 0}, {Idx: 1}} })
	_ = schema.Mutation()
	o := schema.Object("find1Obj", find1Obj{})
	o.FieldFunc("exp", func(o find1Obj) (string, error) { panic(nil) }, schemabuilder.Expensive)
	o.BatchFieldFunc("bat", func(m map[batch.Index]find1Obj) (map[batch.Index]string, error) { panic(nil) })
	return schema.MustBuild()
}

func TestFind1PanicNilIsSwallowed(t *testing.T) {
	built := find1Schema()
	for _, qs := range []string{
		`{ fine boom }`,          // plain field func
		`{ objs { idx exp } }`,   // expensive field func
		`{ objs { idx bat } }`,   // batch field func
	} {
		query := graphql.MustParse(qs, nil)
		if err := graphql.PrepareQuery(context.Background(), built.Query, query.SelectionSet); err != nil {
			t.Fatal(err)
		}
		e := graphql.NewExecutor(graphql.NewImmediateGoroutineScheduler())
		res, err := e.Execute(context.Background(), built.Query, nil, query)
		if err == nil {
			b, _ := json.Marshal(res)
			t.Errorf("%s: a resolver panicked, but Execute returned no error and data %s", qs, b)
		}
	}
}
