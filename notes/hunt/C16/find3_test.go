// FINDING 3: when a field fails while its resolved value is written out (an
// encoding.TextMarshaler scalar whose MarshalText returns an error; a union value
// with two members set), the error is prefixed with the response path of the
// WRONG list element: always the first element handled by the work unit
// (items.0.stamp) instead of the element whose field failed (items.2.stamp).
// The property demands the failing field's response path, list indices included.
// (An invalid enum value, handled by resolveEnumBatch, does get the right index.)
//
// Copy into:  graphql/   (package graphql_test)
// Run with:   go test ./graphql/ -run TestFind3 -v
//
// Responsible code: graphql/batch_executor.go. resolveScalarBatch (line 325-328)
// and resolveUnionBatch (line 403) return the bare error without failing the
// destination it belongs to; the callers executeNonExpensiveWorkUnit (lines
// 233-238), executeBatchWorkUnit (lines 206-211) then call dest.Fail(err) on EVERY
// destination of the unit in order, and errorRecorder keeps the first, i.e. the
// path of destinations[0].
package graphql_test

import (
	"context"
	"errors"
	"strings"
	"testing"

	"github.com/samsarahq/thunder/graphql"
	"github.com/samsarahq/thunder/graphql/schemabuilder"
)

type find3Stamp struct{ bad bool }

func (s find3Stamp) MarshalText() ([]byte, error) {
	if s.bad {
		return nil, errors.New("bad stamp")
	}
	return []byte("ok"), nil
}

type find3Item struct {
	Idx   int64
	Stamp find3Stamp
}

type Find3A struct{ X int64 }
type Find3B struct{ X int64 }
type find3Union struct {
	schemabuilder.Union
	*Find3A
	*Find3B
}
type find3Holder struct {
	Idx int64
	U   *find3Union
}

func find3Exec(t *testing.T, built *graphql.Schema, qs string) error {
	query := graphql.MustParse(qs, nil)
	if err := graphql.PrepareQuery(context.Background(), built.Query, query.SelectionSet); err != nil {
		t.Fatal(err)
	}
	e := graphql.NewExecutor(graphql.NewImmediateGoroutineScheduler())
	res, err := e.Execute(context.Background(), built.Query, nil, query)
	if err == nil || res != nil {
		t.Fatalf("expected an error and no data, got %v, %v", res, err)
	}
	return err
}

func TestFind3WrongListIndexTextMarshaler(t *testing.T) {
	schema := schemabuilder.NewSchema()
	q := schema.Query()
	q.FieldFunc("items", func() []find3Item {
		return []find3Item{{Idx: 0}, {Idx: 1}, {Idx: 2, Stamp: find3Stamp{bad: true}}}
	})
	_ = schema.Mutation()
	schema.Object("find3Item", find3Item{})
	built := schema.MustBuild()

	err := find3Exec(t, built, `{ items { idx stamp } }`)
	if err.Error() != "items.2.stamp: bad stamp" {
		t.Errorf("the failing field is items.2.stamp, but the error is %q", err.Error())
	}
}

func TestFind3WrongListIndexUnion(t *testing.T) {
	schema := schemabuilder.NewSchema()
	q := schema.Query()
	q.FieldFunc("hs", func() []find3Holder {
		return []find3Holder{
			{Idx: 0, U: &find3Union{Find3A: &Find3A{X: 1}}},
			{Idx: 1, U: &find3Union{Find3A: &Find3A{X: 1}, Find3B: &Find3B{X: 2}}}, // two members set: an error
		}
	})
	_ = schema.Mutation()
	schema.Object("find3Holder", find3Holder{})
	schema.Object("Find3A", Find3A{})
	schema.Object("Find3B", Find3B{})
	built := schema.MustBuild()

	err := find3Exec(t, built, `{ hs { idx u { ... on Find3A { x } ... on Find3B { x } } } }`)
	if !strings.HasPrefix(err.Error(), "hs.1.u: union type field should only return one value") {
		t.Errorf("the failing field is hs.1.u, but the error is %q", err.Error())
	}
}
