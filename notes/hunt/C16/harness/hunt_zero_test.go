package graphql_test

import (
	"encoding/json"
	"errors"
	"testing"

	"github.com/samsarahq/thunder/batch"
	"github.com/samsarahq/thunder/graphql/schemabuilder"
)

type hzObj struct{ Idx int64 }

func TestHuntZeroSourcesBatch(t *testing.T) {
	schema := schemabuilder.NewSchema()
	q := schema.Query()
	q.FieldFunc("objs", func() []*hzObj { return []*hzObj{nil, nil} })
	_ = schema.Mutation()
	o := schema.Object("hzObj", hzObj{})
	calls := 0
	o.BatchFieldFunc("bat", func(m map[batch.Index]*hzObj) (map[batch.Index]string, error) {
		calls++
		return nil, errors.New("batch failed")
	})
	o.FieldFunc("id", func(o *hzObj) (string, error) { return "", errors.New("key failed") })
	o.Key("id")
	built := schema.MustBuild()
	res, err := huntExec(t, built, `{ objs { idx bat } }`)
	b, _ := json.Marshal(res)
	t.Logf("calls=%d res=%s err=%v", calls, b, err)

	q2 := schemabuilder.NewSchema()
	qq := q2.Query()
	qq.FieldFunc("objs", func() []*hzObj { return []*hzObj{{Idx: 1}} })
	_ = q2.Mutation()
	o2 := q2.Object("hzObj", hzObj{})
	o2.FieldFunc("id", func(o *hzObj) (string, error) { return "", errors.New("key failed") })
	o2.Key("id")
	res, err = huntExec(t, q2.MustBuild(), `{ objs { idx } }`)
	b, _ = json.Marshal(res)
	t.Logf("res=%s err=%v", b, err)
}
