package graphql_test

import (
	"context"
	"encoding/json"
	"errors"
	"fmt"
	"math/rand"
	"os"
	"strconv"
	"reflect"
	"sort"
	"strings"
	"sync"
	"testing"
	"time"

	"github.com/samsarahq/thunder/batch"
	"github.com/samsarahq/thunder/graphql"
	"github.com/samsarahq/thunder/graphql/schemabuilder"
)

// ---------- behaviours ----------

type rBeh int

const (
	bOK rBeh = iota
	bPlain
	bSafe
	bClient
	bWrapSafe
	bFmtWrapped
	bCustom
	bPanicStr
	bPanicErr
	bPanicSafe
	bNull // object fields only: return nil object
	bNumBeh
)

type rCustomErr struct{ secret, public string }

func (e rCustomErr) Error() string          { return e.secret }
func (e rCustomErr) SanitizedError() string { return e.public }

var rPlanMu sync.RWMutex
var rPlan map[string]rBeh

func rSetPlan(p map[string]rBeh) {
	rPlanMu.Lock()
	rPlan = p
	rPlanMu.Unlock()
}

func rAct(key string) error {
	rPlanMu.RLock()
	b := rPlan[key]
	rPlanMu.RUnlock()
	switch b {
	case bPlain:
		return errors.New("E:" + key)
	case bSafe:
		return graphql.NewSafeError("S:%s", key)
	case bClient:
		return graphql.NewClientError("C:%s", key)
	case bWrapSafe:
		return graphql.WrapAsSafeError(errors.New("inner secret"), "W:%s", key)
	case bFmtWrapped:
		return fmt.Errorf("F:%s: %w", key, graphql.NewSafeError("wrapped-safe"))
	case bCustom:
		return rCustomErr{secret: "X-secret:" + key, public: "X-public:" + key}
	case bPanicStr:
		panic("P:" + key)
	case bPanicErr:
		panic(errors.New("PE:" + key))
	case bPanicSafe:
		panic(graphql.NewSafeError("PS:%s", key))
	}
	return nil
}

func rIsNull(key string) bool {
	rPlanMu.RLock()
	defer rPlanMu.RUnlock()
	return rPlan[key] == bNull
}

// ---------- schema ----------

type rnode struct {
	Path string
}
type rargs struct {
	Tag string
	N   int64
	H   bool
}
type rtag struct {
	Tag string
}
type HuntRA struct{ Path string }
type HuntRB struct{ Path string }
type rU struct {
	schemabuilder.Union
	*HuntRA
	*HuntRB
}

func rKidsH(path string, n int64, holes bool) []*rnode {
	out := make([]*rnode, n)
	for i := range out {
		if holes && i%2 == 0 {
			continue
		}
		out[i] = &rnode{Path: fmt.Sprintf("%s.%d", path, i)}
	}
	return out
}

func rKids(path string, n int64) []*rnode { return rKidsH(path, n, false) }

func rBuildSchema() *graphql.Schema {
	schema := schemabuilder.NewSchema()
	for _, root := range []*schemabuilder.Object{schema.Query(), schema.Mutation()} {
		root.FieldFunc("root", func(args rtag) (*rnode, error) {
			if err := rAct(args.Tag); err != nil {
				return nil, err
			}
			if rIsNull(args.Tag) {
				return nil, nil
			}
			return &rnode{Path: args.Tag}, nil
		})
		root.FieldFunc("qleaf", func(args rtag) (string, error) {
			if err := rAct(args.Tag); err != nil {
				return "", err
			}
			return "v:" + args.Tag, nil
		})
		root.FieldFunc("qleafExp", func(args rtag) (string, error) {
			if err := rAct(args.Tag); err != nil {
				return "", err
			}
			return "v:" + args.Tag, nil
		}, schemabuilder.Expensive)
	}

	node := schema.Object("rnode", rnode{})
	leaf := func(n *rnode, args rtag) (string, error) {
		p := n.Path + "." + args.Tag
		if err := rAct(p); err != nil {
			return "", err
		}
		return "v:" + p, nil
	}
	node.FieldFunc("leaf", leaf)
	node.FieldFunc("leafExp", leaf, schemabuilder.Expensive)
	node.FieldFunc("leafPar", leaf, schemabuilder.NumParallelInvocationsFunc(func(ctx context.Context, n int) int { return 3 }))
	leafBatch := func(ctx context.Context, ns map[batch.Index]*rnode, args rtag) (map[batch.Index]string, error) {
		if err := rAct("*." + args.Tag); err != nil {
			return nil, err
		}
		out := make(map[batch.Index]string)
		for i, n := range ns {
			out[i] = "v:" + n.Path + "." + args.Tag
		}
		return out, nil
	}
	node.BatchFieldFunc("leafBatch", leafBatch)
	node.BatchFieldFunc("leafBatchPar", leafBatch, schemabuilder.NumParallelInvocationsFunc(func(ctx context.Context, n int) int { return 2 }))
	node.BatchFieldFuncWithFallback("leafBatchFb", func(ctx context.Context, ns map[batch.Index]*rnode, args rtag) (map[batch.Index]*string, error) {
		panic("batch variant must not be used")
	}, func(ctx context.Context, n *rnode, args rtag) (*string, error) {
		p := n.Path + "." + args.Tag
		if err := rAct("*." + args.Tag); err != nil {
			return nil, err
		}
		v := "v:" + p
		return &v, nil
	}, func(ctx context.Context) bool { return false })

	kid := func(n *rnode, args rtag) (*rnode, error) {
		p := n.Path + "." + args.Tag
		if err := rAct(p); err != nil {
			return nil, err
		}
		if rIsNull(p) {
			return nil, nil
		}
		return &rnode{Path: p}, nil
	}
	node.FieldFunc("kid", kid)
	node.FieldFunc("kidExp", kid, schemabuilder.Expensive)
	kids := func(n *rnode, args rargs) ([]*rnode, error) {
		p := n.Path + "." + args.Tag
		if err := rAct(p); err != nil {
			return nil, err
		}
		if rIsNull(p) {
			return nil, nil
		}
		return rKidsH(p, args.N, args.H), nil
	}
	node.FieldFunc("kids", kids)
	node.FieldFunc("kidsExp", kids, schemabuilder.Expensive)
	node.FieldFunc("kidVals", func(n *rnode, args rargs) ([]rnode, error) {
		p := n.Path + "." + args.Tag
		if err := rAct(p); err != nil {
			return nil, err
		}
		out := make([]rnode, args.N)
		for i := range out {
			out[i] = rnode{Path: fmt.Sprintf("%s.%d", p, i)}
		}
		return out, nil
	})
	node.FieldFunc("grid", func(n *rnode, args rargs) ([][]*rnode, error) {
		p := n.Path + "." + args.Tag
		if err := rAct(p); err != nil {
			return nil, err
		}
		out := make([][]*rnode, args.N)
		for i := range out {
			out[i] = rKids(fmt.Sprintf("%s.%d", p, i), 2)
		}
		return out, nil
	})
	node.BatchFieldFunc("kidsBatch", func(ctx context.Context, ns map[batch.Index]*rnode, args rargs) (map[batch.Index][]*rnode, error) {
		if err := rAct("*." + args.Tag); err != nil {
			return nil, err
		}
		out := make(map[batch.Index][]*rnode)
		for i, n := range ns {
			out[i] = rKidsH(n.Path+"."+args.Tag, args.N, args.H)
		}
		return out, nil
	})
	node.FieldFunc("u", func(n *rnode, args rargs) (*rU, error) {
		p := n.Path + "." + args.Tag
		if err := rAct(p); err != nil {
			return nil, err
		}
		if rIsNull(p) {
			return nil, nil
		}
		if args.N%2 == 0 {
			return &rU{HuntRA: &HuntRA{Path: p}}, nil
		}
		return &rU{HuntRB: &HuntRB{Path: p}}, nil
	})
	node.FieldFunc("us", func(n *rnode, args rargs) ([]*rU, error) {
		p := n.Path + "." + args.Tag
		if err := rAct(p); err != nil {
			return nil, err
		}
		out := make([]*rU, args.N)
		for i := range out {
			ip := fmt.Sprintf("%s.%d", p, i)
			switch {
			case args.H && i%3 == 2:
			case i%2 == 0:
				out[i] = &rU{HuntRA: &HuntRA{Path: ip}}
			default:
				out[i] = &rU{HuntRB: &HuntRB{Path: ip}}
			}
		}
		return out, nil
	})
	oa := schema.Object("HuntRA", HuntRA{})
	oa.FieldFunc("leaf", func(n *HuntRA, args rtag) (string, error) {
		p := n.Path + "." + args.Tag
		if err := rAct(p); err != nil {
			return "", err
		}
		return "v:" + p, nil
	})
	ob := schema.Object("HuntRB", HuntRB{})
	ob.FieldFunc("leafExp", func(n *HuntRB, args rtag) (string, error) {
		p := n.Path + "." + args.Tag
		if err := rAct(p); err != nil {
			return "", err
		}
		return "v:" + p, nil
	}, schemabuilder.Expensive)
	return schema.MustBuild()
}

// ---------- query generation + reference ----------

type rField struct {
	kind     string // field name
	tag      string // alias == tag
	n        int64
	h        bool // holes
	children []*rField
	skip     int // 0 none, 1 @skip(if:true), 2 @include(if:false), 3 @skip(if:false), 4 @include(if:true)
	wrap     int // 0 none, 1 inline fragment, 2 named fragment
	wrapDir  int // directive on the fragment spread (same coding as skip)
	dup      int // 0 once; 1 twice; 2 twice, first copy skipped; 3 twice, second copy skipped
	typename bool
}

func rExcluded(d int) bool { return d == 1 || d == 2 }

func (f *rField) included() bool {
	if rExcluded(f.wrapDir) {
		return false
	}
	if f.dup >= 2 {
		return true // the other copy carries no directive
	}
	return !rExcluded(f.skip)
}

type rGen struct {
	r      *rand.Rand
	ctr    int
	frags  []string
	fragID int
}

var rLeafKinds = []string{"leaf", "leafExp", "leafPar", "leafBatch", "leafBatchPar", "leafBatchFb", "path"}
var rObjKinds = []string{"kid", "kidExp", "kids", "kidsExp", "kidVals", "grid", "kidsBatch", "u", "us"}

func (g *rGen) tag() string {
	g.ctr++
	return fmt.Sprintf("t%d", g.ctr)
}

func (g *rGen) genNodeSel(depth int) []*rField {
	cnt := 1 + g.r.Intn(3)
	var out []*rField
	for i := 0; i < cnt; i++ {
		f := &rField{tag: g.tag()}
		if depth > 0 && g.r.Intn(100) < 55 {
			f.kind = rObjKinds[g.r.Intn(len(rObjKinds))]
			f.n = int64(g.r.Intn(5))
			f.h = g.r.Intn(3) == 0
			if f.kind == "u" || f.kind == "us" {
				f.children = []*rField{{kind: "leaf", tag: g.tag()}, {kind: "leafExp", tag: g.tag()}}
				f.typename = g.r.Intn(2) == 0
			} else {
				f.children = g.genNodeSel(depth - 1)
			}
		} else {
			f.kind = rLeafKinds[g.r.Intn(len(rLeafKinds))]
			if f.kind == "path" {
				f.tag = "path"
			}
		}
		if g.r.Intn(10) == 0 {
			f.skip = 1 + g.r.Intn(4)
		}
		if g.r.Intn(6) == 0 {
			f.wrap = 1 + g.r.Intn(2)
			if g.r.Intn(4) == 0 {
				f.wrapDir = 1 + g.r.Intn(4)
			}
		}
		if g.r.Intn(10) == 0 {
			f.dup = 1
			if g.r.Intn(2) == 0 {
				f.dup = 2 + g.r.Intn(2)
				f.skip = 1 + g.r.Intn(2)
			}
		}
		out = append(out, f)
	}
	return out
}

func rDirText(d int) string {
	switch d {
	case 1:
		return " @skip(if: true)"
	case 2:
		return " @include(if: false)"
	case 3:
		return " @skip(if: false)"
	case 4:
		return " @include(if: true)"
	}
	return ""
}

func (g *rGen) renderOne(f *rField, dir int) string {
	var one strings.Builder
	if f.kind == "path" {
		one.WriteString("path")
	} else {
		fmt.Fprintf(&one, "%s: %s(tag: %q", f.tag, f.kind, f.tag)
		switch f.kind {
		case "kids", "kidsExp", "kidVals", "grid", "kidsBatch", "u", "us":
			fmt.Fprintf(&one, ", n: %d, h: %v", f.n, f.h)
		}
		one.WriteString(")")
	}
	one.WriteString(rDirText(dir))
	if f.children != nil {
		one.WriteString(" { ")
		if f.kind == "u" || f.kind == "us" {
			if f.typename {
				one.WriteString("__typename ")
			}
			one.WriteString("... on HuntRA { ")
			g.render(f.children[0], "HuntRA", &one)
			one.WriteString(" } ... on HuntRB { ")
			g.render(f.children[1], "HuntRB", &one)
			one.WriteString(" } ")
		} else {
			for _, c := range f.children {
				g.render(c, "rnode", &one)
				one.WriteString(" ")
			}
		}
		one.WriteString("}")
	}
	return one.String()
}

func (g *rGen) render(f *rField, parentType string, sb *strings.Builder) {
	var text string
	switch f.dup {
	case 0:
		text = g.renderOne(f, f.skip)
	case 1:
		t := g.renderOne(f, f.skip)
		text = t + " " + t
	case 2:
		text = g.renderOne(f, f.skip) + " " + g.renderOne(f, 0)
	case 3:
		text = g.renderOne(f, 0) + " " + g.renderOne(f, f.skip)
	}
	switch f.wrap {
	case 1:
		fmt.Fprintf(sb, "... on %s%s { %s }", parentType, rDirText(f.wrapDir), text)
	case 2:
		g.fragID++
		name := fmt.Sprintf("F%d", g.fragID)
		g.frags = append(g.frags, fmt.Sprintf("fragment %s on %s { %s }", name, parentType, text))
		fmt.Fprintf(sb, "...%s%s", name, rDirText(f.wrapDir))
	default:
		sb.WriteString(text)
	}
}

type rInstance struct {
	path  string // response path
	key   string // plan key
	isObj bool
}

func rKey(f *rField, p string) string {
	switch f.kind {
	case "leafBatch", "leafBatchPar", "leafBatchFb", "kidsBatch":
		return "*." + f.tag
	}
	return p
}

// rShape builds the value of an object-ish field that resolved fine, calling
// visit for every non-null element.
func rShape(f *rField, p string, isNull bool, visit func(children []*rField, path string, typename string) map[string]interface{}) interface{} {
	unionElem := func(path string, isA bool) interface{} {
		var m map[string]interface{}
		name := "HuntRB"
		if isA {
			name = "HuntRA"
			m = visit(f.children[:1], path, name)
		} else {
			m = visit(f.children[1:], path, name)
		}
		if f.typename && m != nil {
			m["__typename"] = name
		}
		return m
	}
	switch f.kind {
	case "root", "kid", "kidExp":
		if isNull {
			return nil
		}
		return visit(f.children, p, "")
	case "kids", "kidsExp", "kidVals", "kidsBatch":
		list := []interface{}{}
		if isNull && (f.kind == "kids" || f.kind == "kidsExp") {
			return list
		}
		for i := int64(0); i < f.n; i++ {
			if f.h && f.kind != "kidVals" && i%2 == 0 {
				list = append(list, nil)
				continue
			}
			list = append(list, visit(f.children, fmt.Sprintf("%s.%d", p, i), ""))
		}
		return list
	case "grid":
		list := []interface{}{}
		for i := int64(0); i < f.n; i++ {
			inner := []interface{}{}
			for j := 0; j < 2; j++ {
				inner = append(inner, visit(f.children, fmt.Sprintf("%s.%d.%d", p, i, j), ""))
			}
			list = append(list, inner)
		}
		return list
	case "u":
		if isNull {
			return nil
		}
		return unionElem(p, f.n%2 == 0)
	case "us":
		list := []interface{}{}
		for i := int64(0); i < f.n; i++ {
			if f.h && i%3 == 2 {
				list = append(list, nil)
				continue
			}
			list = append(list, unionElem(fmt.Sprintf("%s.%d", p, i), i%2 == 0))
		}
		return list
	}
	panic("not an object kind " + f.kind)
}

// enumerate all field instances assuming everything succeeds.
func rEnumerate(fields []*rField, parentPath string, out *[]rInstance) {
	for _, f := range fields {
		if !f.included() || f.kind == "path" {
			continue
		}
		p := f.tag
		if parentPath != "" {
			p = parentPath + "." + f.tag
		}
		*out = append(*out, rInstance{path: p, key: rKey(f, p), isObj: f.children != nil})
		if f.children != nil {
			rShape(f, p, false, func(children []*rField, path string, _ string) map[string]interface{} {
				rEnumerate(children, path, out)
				return map[string]interface{}{}
			})
		}
	}
}

type rMatcher struct {
	exact  string
	prefix string
	safe   bool   // forwarded verbatim over the websocket
	public string // what the websocket client must see
}

// reference evaluation: returns expected JSON (if no failures) and collects matchers
func rEval(fields []*rField, parentPath string, plan map[string]rBeh, prefix string, fails *[]rMatcher) map[string]interface{} {
	res := map[string]interface{}{}
	for _, f := range fields {
		if !f.included() {
			continue
		}
		if f.kind == "path" {
			res["path"] = parentPath
			continue
		}
		p := f.tag
		if parentPath != "" {
			p = parentPath + "." + f.tag
		}
		key := rKey(f, p)
		b := plan[key]
		full := prefix + p
		switch b {
		case bPlain:
			*fails = append(*fails, rMatcher{exact: full + ": E:" + key, public: "Internal server error"})
			continue
		case bSafe:
			*fails = append(*fails, rMatcher{exact: "S:" + key, safe: true, public: "S:" + key})
			continue
		case bClient:
			*fails = append(*fails, rMatcher{exact: "C:" + key, safe: true, public: "C:" + key})
			continue
		case bWrapSafe:
			*fails = append(*fails, rMatcher{exact: "W:" + key, safe: true, public: "W:" + key})
			continue
		case bFmtWrapped:
			*fails = append(*fails, rMatcher{exact: full + ": F:" + key + ": wrapped-safe", public: "Internal server error"})
			continue
		case bCustom:
			*fails = append(*fails, rMatcher{exact: "X-secret:" + key, safe: true, public: "X-public:" + key})
			continue
		case bPanicStr:
			*fails = append(*fails, rMatcher{prefix: full + ": graphql: panic: P:" + key + "\n", public: "Internal server error"})
			continue
		case bPanicErr:
			*fails = append(*fails, rMatcher{prefix: full + ": graphql: panic: PE:" + key + "\n", public: "Internal server error"})
			continue
		case bPanicSafe:
			*fails = append(*fails, rMatcher{prefix: full + ": graphql: panic: PS:" + key + "\n", public: "Internal server error"})
			continue
		}
		if f.children != nil {
			res[f.tag] = rShape(f, p, b == bNull, func(children []*rField, path string, _ string) map[string]interface{} {
				return rEval(children, path, plan, prefix, fails)
			})
		} else {
			res[f.tag] = "v:" + p
		}
	}
	return res
}

type rCase struct {
	query   string
	kind    string // query or mutation
	plan    map[string]rBeh
	want    map[string]interface{}
	fails   []rMatcher
	opName  string
}

func rGenCase(r *rand.Rand) *rCase {
	g := &rGen{r: r}
	c := &rCase{kind: "query"}
	if r.Intn(5) == 0 {
		c.kind = "mutation"
	}
	if r.Intn(3) == 0 {
		c.opName = "Op"
	}
	// top-level
	var top []*rField
	ntop := 1 + r.Intn(3)
	for i := 0; i < ntop; i++ {
		switch r.Intn(4) {
		case 0:
			top = append(top, &rField{kind: "qleaf", tag: g.tag()})
		case 1:
			top = append(top, &rField{kind: "qleafExp", tag: g.tag()})
		default:
			top = append(top, &rField{kind: "root", tag: g.tag(), children: g.genNodeSel(1 + r.Intn(3))})
		}
	}
	var sb strings.Builder
	rootType := "Query"
	if c.kind == "mutation" {
		rootType = "Mutation"
	}
	for _, f := range top {
		f.dup = 0
		if f.wrap == 2 {
			f.wrap = 0
		}
		g.render(f, rootType, &sb)
		sb.WriteString(" ")
	}
	c.query = fmt.Sprintf("%s %s { %s } %s", c.kind, c.opName, sb.String(), strings.Join(g.frags, " "))

	// plan: choose some instances
	var insts []rInstance
	rEnumerate(top, "", &insts)
	c.plan = map[string]rBeh{}
	nfail := 0
	switch r.Intn(10) {
	case 0:
		nfail = 0
	case 1, 2, 3, 4, 5:
		nfail = 1
	case 6, 7:
		nfail = 2
	default:
		nfail = 3
	}
	for i := 0; i < nfail && len(insts) > 0; i++ {
		in := insts[r.Intn(len(insts))]
		b := rBeh(1 + r.Intn(int(bNumBeh)-1))
		if b == bNull && (!in.isObj || strings.HasPrefix(in.key, "*.")) {
			b = bPlain
		}
		c.plan[in.key] = b
	}
	prefix := ""
	if c.opName != "" {
		prefix = c.opName + "."
	}
	c.want = rEval(top, "", c.plan, prefix, &c.fails)
	return c
}

func rMatch(err error, fails []rMatcher) *rMatcher {
	msg := err.Error()
	for i := range fails {
		m := &fails[i]
		if m.exact != "" && msg == m.exact {
			return m
		}
		if m.prefix != "" && strings.HasPrefix(msg, m.prefix) {
			return m
		}
	}
	return nil
}

func rSeed(def int64) int64 {
	if v := os.Getenv("HUNT_SEED"); v != "" {
		n, _ := strconv.ParseInt(v, 10, 64)
		return n
	}
	return def
}

func rJSON(v interface{}) interface{} {
	b, err := json.Marshal(v)
	if err != nil {
		panic(err)
	}
	var out interface{}
	if err := json.Unmarshal(b, &out); err != nil {
		panic(err)
	}
	return out
}

func TestHuntRandomExecute(t *testing.T) {
	schema := rBuildSchema()
	r := rand.New(rand.NewSource(rSeed(16)))
	e := graphql.NewExecutor(graphql.NewImmediateGoroutineScheduler())
	bad := 0
	nErr, nOK := 0, 0
	for i := 0; i < 6000; i++ {
		c := rGenCase(r)
		rSetPlan(c.plan)
		q, err := graphql.Parse(c.query, nil)
		if err != nil {
			t.Fatalf("parse %s: %v", c.query, err)
		}
		typ := schema.Query
		if c.kind == "mutation" {
			typ = schema.Mutation
		}
		if err := graphql.PrepareQuery(context.Background(), typ, q.SelectionSet); err != nil {
			t.Fatalf("prepare %s: %v", c.query, err)
		}
		res, err := e.Execute(context.Background(), typ, nil, q)
		if len(c.fails) == 0 {
			nOK++
			if err != nil {
				t.Errorf("case %d: unexpected error %v\nquery %s\nplan %v", i, err, c.query, c.plan)
				bad++
			} else if !reflect.DeepEqual(rJSON(res), rJSON(c.want)) {
				t.Errorf("case %d: data mismatch\n got %v\nwant %v\nquery %s plan %v", i, rJSON(res), rJSON(c.want), c.query, c.plan)
				bad++
			}
		} else {
			nErr++
			if err == nil {
				t.Errorf("case %d: expected error, got data %v\nquery %s\nplan %v", i, rJSON(res), c.query, c.plan)
				bad++
			} else if res != nil {
				t.Errorf("case %d: partial data with error", i)
				bad++
			} else if rMatch(err, c.fails) == nil {
				msg := err.Error()
				if len(msg) > 200 {
					msg = msg[:200]
				}
				var w []string
				for _, m := range c.fails {
					w = append(w, m.exact+m.prefix)
				}
				sort.Strings(w)
				t.Errorf("case %d: error %q not among expected %q\nquery %s\nplan %v", i, msg, w, c.query, c.plan)
				bad++
			}
		}
		if bad > 10 {
			t.Fatalf("too many failures")
		}
	}
	t.Logf("cases with failures: %d, without: %d", nErr, nOK)
}

func TestHuntRandomWebsocket(t *testing.T) {
	schema := rBuildSchema()
	r := rand.New(rand.NewSource(rSeed(1616)))
	sock := newHuntSocket()
	lg := &huntSubLogger{}
	c := graphql.CreateConnection(context.Background(), sock, schema,
		graphql.WithSubscriptionLogger(lg),
		graphql.WithMaxSubscriptions(1000000),
		graphql.WithMinRerunInterval(time.Millisecond))
	go c.ServeJSONSocket()
	defer sock.Close()
	bad := 0
	total := 0
	nErrs := 0
	for i := 0; i < 2500; i++ {
		cs := rGenCase(r)
		rSetPlan(cs.plan)
		id := fmt.Sprintf("id%d", i)
		typ := "subscribe"
		if cs.kind == "mutation" {
			typ = "mutate"
		}
		sock.send(typ, id, map[string]interface{}{"query": cs.query})
		m := sock.next(5 * time.Second)
		total++
		if m == nil {
			t.Errorf("case %d: no message; query %s plan %v", i, cs.query, cs.plan)
			bad++
		} else if m["id"] != id {
			t.Errorf("case %d: message for other id: %v", i, m)
			bad++
		} else if len(cs.fails) == 0 {
			want := "update"
			if typ == "mutate" {
				want = "result"
			}
			if m["type"] != want {
				t.Errorf("case %d: expected %s, got %v; query %s", i, want, m, cs.query)
				bad++
			}
		} else {
			nErrs++
			ok := false
			if m["type"] == "error" {
				for _, f := range cs.fails {
					if m["message"] == f.public {
						ok = true
					}
				}
			}
			if !ok {
				t.Errorf("case %d: bad error message %v; query %s plan %v", i, m, cs.query, cs.plan)
				bad++
			}
		}
		if typ == "subscribe" && len(cs.fails) == 0 {
			sock.send("unsubscribe", id, nil)
		}
		if bad > 10 {
			t.Fatalf("too many failures")
		}
	}
	// every failing subscription was closed (Unsubscribe logged exactly once per Subscribe)
	time.Sleep(200 * time.Millisecond)
	lg.mu.Lock()
	subCount := map[string]int{}
	for _, id := range lg.subs {
		subCount[id]++
	}
	unsubCount := map[string]int{}
	for _, id := range lg.unsub {
		unsubCount[id]++
	}
	for id, n := range subCount {
		if n != 1 || unsubCount[id] != 1 {
			t.Errorf("subscription %s: subscribed %d, unsubscribed %d", id, n, unsubCount[id])
		}
	}
	lg.mu.Unlock()
	// no extra messages
	if m := sock.next(300 * time.Millisecond); m != nil {
		t.Errorf("extra message %v", m)
	}
	sock.mu.Lock()
	if len(sock.out) != total {
		t.Errorf("messages %d != requests %d", len(sock.out), total)
	}
	sock.mu.Unlock()
	t.Logf("websocket cases: %d, failing: %d", total, nErrs)
}
