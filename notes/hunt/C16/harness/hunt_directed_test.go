package graphql_test

import (
	"context"
	"encoding/json"
	"errors"
	"fmt"
	"runtime"
	"strings"
	"sync"
	"testing"
	"time"

	"github.com/samsarahq/thunder/batch"
	"github.com/samsarahq/thunder/graphql"
	"github.com/samsarahq/thunder/graphql/schemabuilder"
)

// ---- fake socket ----

type huntSocket struct {
	in     chan []byte
	mu     sync.Mutex
	out    []map[string]interface{}
	outCh  chan map[string]interface{}
	closed chan struct{}
	once   sync.Once
}

func newHuntSocket() *huntSocket {
	return &huntSocket{in: make(chan []byte, 100), outCh: make(chan map[string]interface{}, 100), closed: make(chan struct{})}
}

func (s *huntSocket) ReadJSON(v interface{}) error {
	select {
	case b := <-s.in:
		return json.Unmarshal(b, v)
	case <-s.closed:
		return errors.New("closed")
	}
}

func (s *huntSocket) WriteJSON(v interface{}) error {
	b, err := json.Marshal(v)
	if err != nil {
		return err
	}
	var m map[string]interface{}
	if err := json.Unmarshal(b, &m); err != nil {
		return err
	}
	s.mu.Lock()
	s.out = append(s.out, m)
	s.mu.Unlock()
	s.outCh <- m
	return nil
}

func (s *huntSocket) Close() error {
	s.once.Do(func() { close(s.closed) })
	return nil
}

func (s *huntSocket) send(typ, id string, msg interface{}) {
	raw, _ := json.Marshal(msg)
	b, _ := json.Marshal(map[string]interface{}{"id": id, "type": typ, "message": json.RawMessage(raw)})
	s.in <- b
}

func (s *huntSocket) next(d time.Duration) map[string]interface{} {
	select {
	case m := <-s.outCh:
		return m
	case <-time.After(d):
		return nil
	}
}

type huntSubLogger struct {
	mu    sync.Mutex
	subs  []string
	unsub []string
}

func (l *huntSubLogger) Subscribe(ctx context.Context, id string, tags map[string]string) {
	l.mu.Lock()
	l.subs = append(l.subs, id)
	l.mu.Unlock()
}
func (l *huntSubLogger) Unsubscribe(ctx context.Context, id string) {
	l.mu.Lock()
	l.unsub = append(l.unsub, id)
	l.mu.Unlock()
}

type huntStamp struct{ bad bool }

func (s huntStamp) MarshalText() ([]byte, error) {
	if s.bad {
		return nil, errors.New("bad stamp")
	}
	return []byte("ok"), nil
}

type huntItem struct {
	Idx   int64
	Stamp huntStamp
}

func TestHuntDirected_TextMarshalIndex(t *testing.T) {
	schema := schemabuilder.NewSchema()
	q := schema.Query()
	q.FieldFunc("items", func() []huntItem {
		return []huntItem{{Idx: 0}, {Idx: 1}, {Idx: 2, Stamp: huntStamp{bad: true}}}
	})
	_ = schema.Mutation()
	schema.Object("item", huntItem{})
	built := schema.MustBuild()
	query := graphql.MustParse(`{ items { idx stamp } }`, nil)
	if err := graphql.PrepareQuery(context.Background(), built.Query, query.SelectionSet); err != nil {
		t.Fatal(err)
	}
	e := graphql.NewExecutor(graphql.NewImmediateGoroutineScheduler())
	_, err := e.Execute(context.Background(), built.Query, nil, query)
	t.Logf("err = %v", err)
	if err == nil || err.Error() != "items.2.stamp: bad stamp" {
		t.Errorf("unexpected: %v", err)
	}
}

func TestHuntDirected_PanicNil(t *testing.T) {
	schema := schemabuilder.NewSchema()
	q := schema.Query()
	q.FieldFunc("boom", func() (string, error) {
		panic(nil)
	})
	q.FieldFunc("fine", func() string { return "x" })
	_ = schema.Mutation()
	built := schema.MustBuild()
	query := graphql.MustParse(`{ fine boom }`, nil)
	if err := graphql.PrepareQuery(context.Background(), built.Query, query.SelectionSet); err != nil {
		t.Fatal(err)
	}
	e := graphql.NewExecutor(graphql.NewImmediateGoroutineScheduler())
	res, err := e.Execute(context.Background(), built.Query, nil, query)
	b, _ := json.Marshal(res)
	t.Logf("res=%s err = %v", b, err)
	if err == nil {
		t.Errorf("expected error")
	}
}

func TestHuntDirected_SubCanceled(t *testing.T) {
	schema := schemabuilder.NewSchema()
	q := schema.Query()
	q.FieldFunc("boom", func() (string, error) {
		return "", context.Canceled
	})
	_ = schema.Mutation()
	built := schema.MustBuild()
	sock := newHuntSocket()
	lg := &huntSubLogger{}
	c := graphql.CreateConnection(context.Background(), sock, built, graphql.WithSubscriptionLogger(lg), graphql.WithMinRerunInterval(10*time.Millisecond))
	go c.ServeJSONSocket()
	defer sock.Close()
	sock.send("subscribe", "s1", map[string]interface{}{"query": `{ boom }`})
	m := sock.next(2 * time.Second)
	t.Logf("msg: %v", m)
	if m == nil || m["type"] != "error" {
		t.Errorf("expected one error message, got %v", m)
	}
	time.Sleep(100 * time.Millisecond)
	lg.mu.Lock()
	t.Logf("subs=%v unsub=%v", lg.subs, lg.unsub)
	lg.mu.Unlock()
}

var _ = fmt.Sprint

// ---- more directed probes ----

type hColor int64

type hObj struct {
	Idx   int64
	Color hColor
}

type HA struct{ X int64 }
type HB struct{ X int64 }
type hUnion struct {
	schemabuilder.Union
	*HA
	*HB
}
type hHolder struct {
	Idx int64
	U   *hUnion
}

func huntExec(t *testing.T, built *graphql.Schema, q string) (interface{}, error) {
	query := graphql.MustParse(q, nil)
	if err := graphql.PrepareQuery(context.Background(), built.Query, query.SelectionSet); err != nil {
		t.Fatal(err)
	}
	e := graphql.NewExecutor(graphql.NewImmediateGoroutineScheduler())
	return e.Execute(context.Background(), built.Query, nil, query)
}

func TestHuntDirected_EnumIndex(t *testing.T) {
	schema := schemabuilder.NewSchema()
	schema.Enum(hColor(0), map[string]hColor{"red": 0, "blue": 1})
	q := schema.Query()
	q.FieldFunc("objs", func() []hObj {
		return []hObj{{Idx: 0}, {Idx: 1, Color: 1}, {Idx: 2, Color: 7}}
	})
	_ = schema.Mutation()
	schema.Object("obj", hObj{})
	built := schema.MustBuild()
	_, err := huntExec(t, built, `{ objs { idx color } }`)
	t.Logf("err=%v", err)
	if err == nil || err.Error() != "objs.2.color: enum is not valid" {
		t.Errorf("unexpected %v", err)
	}
}

func TestHuntDirected_UnionIndex(t *testing.T) {
	schema := schemabuilder.NewSchema()
	q := schema.Query()
	q.FieldFunc("hs", func() []hHolder {
		return []hHolder{{Idx: 0, U: &hUnion{HA: &HA{X: 1}}}, {Idx: 1, U: &hUnion{HA: &HA{X: 1}, HB: &HB{X: 2}}}}
	})
	_ = schema.Mutation()
	schema.Object("holder", hHolder{})
	schema.Object("HA", HA{})
	schema.Object("HB", HB{})
	built := schema.MustBuild()
	_, err := huntExec(t, built, `{ hs { idx u { ... on HA { x } ... on HB { x } } } }`)
	t.Logf("err=%v", err)
	if err == nil || !strings.HasPrefix(err.Error(), "hs.1.u: ") {
		t.Errorf("unexpected %v", err)
	}
}

func TestHuntDirected_PanicNilVariants(t *testing.T) {
	schema := schemabuilder.NewSchema()
	q := schema.Query()
	q.FieldFunc("objs", func() []hObj { return []hObj{{Idx: 0}, {Idx: 1}} })
	_ = schema.Mutation()
	o := schema.Object("obj", hObj{})
	o.FieldFunc("exp", func(o hObj) (string, error) { panic(nil) }, schemabuilder.Expensive)
	o.BatchFieldFunc("bat", func(m map[batch.Index]hObj) (map[batch.Index]string, error) { panic(nil) })
	o.FieldFunc("goexit", func(o hObj) (string, error) { runtime.Goexit(); return "", nil })
	built := schema.MustBuild()
	for _, qs := range []string{`{ objs { idx exp } }`, `{ objs { idx bat } }`, `{ objs { idx goexit } }`} {
		res, err := huntExec(t, built, qs)
		b, _ := json.Marshal(res)
		t.Logf("%s => %s, %v", qs, b, err)
	}
}

type hSecret struct{ v string }

func (s *hSecret) UnmarshalText(b []byte) error {
	return errors.New("db lookup failed: password=hunter2")
}

func TestHuntDirected_ArgErrorLeak(t *testing.T) {
	schema := schemabuilder.NewSchema()
	q := schema.Query()
	q.FieldFunc("f", func(args struct{ S hSecret }) string { return "x" })
	_ = schema.Mutation()
	built := schema.MustBuild()
	sock := newHuntSocket()
	c := graphql.CreateConnection(context.Background(), sock, built)
	go c.ServeJSONSocket()
	defer sock.Close()
	sock.send("subscribe", "s1", map[string]interface{}{"query": `{ f(s: "abc") }`})
	m := sock.next(2 * time.Second)
	t.Logf("msg: %v", m)
}

func TestHuntDirected_Resubscribe(t *testing.T) {
	schema := schemabuilder.NewSchema()
	q := schema.Query()
	var mu sync.Mutex
	fail := true
	q.FieldFunc("boom", func() (string, error) {
		mu.Lock()
		defer mu.Unlock()
		if fail {
			return "", errors.New("secret")
		}
		return "fine", nil
	})
	_ = schema.Mutation()
	built := schema.MustBuild()
	sock := newHuntSocket()
	lg := &huntSubLogger{}
	c := graphql.CreateConnection(context.Background(), sock, built, graphql.WithSubscriptionLogger(lg))
	go c.ServeJSONSocket()
	defer sock.Close()
	sock.send("subscribe", "s1", map[string]interface{}{"query": `{ boom }`})
	m := sock.next(2 * time.Second)
	t.Logf("msg: %v", m)
	time.Sleep(50 * time.Millisecond)
	mu.Lock()
	fail = false
	mu.Unlock()
	sock.send("subscribe", "s1", map[string]interface{}{"query": `{ boom }`})
	m = sock.next(2 * time.Second)
	t.Logf("msg: %v", m)
	if m == nil || m["type"] != "update" {
		t.Errorf("resubscribe failed: %v", m)
	}
}

func TestHuntDirected_PreExecutionAndMutateCanceled(t *testing.T) {
	schema := schemabuilder.NewSchema()
	q := schema.Query()
	q.FieldFunc("ok", func() string { return "x" })
	m := schema.Mutation()
	m.FieldFunc("boom", func() (string, error) { return "", context.Canceled })
	built := schema.MustBuild()
	sock := newHuntSocket()
	c := graphql.CreateConnection(context.Background(), sock, built)
	go c.ServeJSONSocket()
	defer sock.Close()

	expect := func(want string) {
		t.Helper()
		m := sock.next(2 * time.Second)
		if m == nil || m["type"] != "error" || m["message"] != want {
			t.Errorf("want error %q, got %v", want, m)
		}
	}
	sock.send("mutate", "m1", map[string]interface{}{"query": `mutation { boom }`})
	expect("Internal server error")
	sock.in <- []byte(`{"id":"x1","type":"subscribe","message":"not an object"}`)
	expect("Internal server error")
	sock.in <- []byte(`{"id":"x2","type":"url","message":{"a":1}}`)
	expect("Internal server error")
	sock.send("bogus", "x3", nil)
	expect("unknown message type")
	sock.send("subscribe", "x4", map[string]interface{}{"query": `{ nope }`})
	expect(`unknown field "nope"`)
	sock.send("subscribe", "x5", map[string]interface{}{"query": `{ ok { a } }`})
	expect("scalar field must have no selections")
	sock.send("subscribe", "x6", map[string]interface{}{"query": `{ ok @skip(if: "s") }`})
	expect("expected type boolean, found type string in \"if\" argument")
	sock.send("subscribe", "x7", map[string]interface{}{"query": `{ ok }`})
	if m := sock.next(2 * time.Second); m == nil || m["type"] != "update" {
		t.Errorf("want update, got %v", m)
	}
	sock.send("subscribe", "x7", map[string]interface{}{"query": `{ ok }`})
	expect("duplicate subscription")
	if m := sock.next(200 * time.Millisecond); m != nil {
		t.Errorf("stray message %v", m)
	}
}
