// FINDING 4 (sanitisation leak; see README for the reading this depends on):
// the text of an error that nobody marked as safe for clients -- the error
// returned by a user type's UnmarshalText while a field's arguments are parsed --
// is forwarded verbatim to the websocket client. PrepareQuery copies the text of
// whatever error field.ParseArguments returned into a ClientError, and the
// websocket server forwards ClientError messages verbatim. The property says that
// only errors explicitly marked safe are forwarded verbatim and that every other
// error reaches the client as the fixed generic message, never its text.
//
// Copy into:  graphql/   (package graphql_test)
// Run with:   go test ./graphql/ -run TestFind4 -v
//
// Responsible code: graphql/executor.go, prepareQuery, lines 203-206 and 214-217:
//     return NewClientError(`error parsing args for "%s": %s`, selection.Name, err)
// (reached from server.go handleSubscribe line 155 / handleMutate, whose error
// goes to SanitizeError in ServeJSONSocket).
package graphql_test

import (
	"context"
	"encoding/json"
	"errors"
	"strings"
	"sync"
	"testing"
	"time"

	"github.com/samsarahq/thunder/graphql"
	"github.com/samsarahq/thunder/graphql/schemabuilder"
)

type find4Socket struct {
	in     chan []byte
	outCh  chan map[string]interface{}
	closed chan struct{}
	once   sync.Once
}

func newFind4Socket() *find4Socket {
	return &find4Socket{in: make(chan []byte, 10), outCh: make(chan map[string]interface{}, 10), closed: make(chan struct{})}
}
func (s *find4Socket) ReadJSON(v interface{}) error {
	select {
	case b := <-s.in:
		return json.Unmarshal(b, v)
	case <-s.closed:
		return errors.New("closed")
	}
}
func (s *find4Socket) WriteJSON(v interface{}) error {
	b, err := json.Marshal(v)
	if err != nil {
		return err
	}
	var m map[string]interface{}
	if err := json.Unmarshal(b, &m); err != nil {
		return err
	}
	s.outCh <- m
	return nil
}
func (s *find4Socket) Close() error { s.once.Do(func() { close(s.closed) }); return nil }
func (s *find4Socket) send(typ, id string, msg interface{}) {
	raw, _ := json.Marshal(msg)
	b, _ := json.Marshal(map[string]interface{}{"id": id, "type": typ, "message": json.RawMessage(raw)})
	s.in <- b
}

// find4Token is an argument type that validates itself against some backend.
type find4Token struct{ v string }

func (s *find4Token) UnmarshalText(b []byte) error {
	// an ordinary, unmarked error with internal detail in it
	return errors.New("token lookup failed: dial tcp 10.0.0.7:5432: password=hunter2")
}

func TestFind4ArgumentErrorTextReachesClient(t *testing.T) {
	schema := schemabuilder.NewSchema()
	q := schema.Query()
	q.FieldFunc("f", func(args struct{ Token find4Token }) string { return "x" })
	m := schema.Mutation()
	m.FieldFunc("f", func(args struct{ Token find4Token }) string { return "x" })
	built := schema.MustBuild()

	sock := newFind4Socket()
	c := graphql.CreateConnection(context.Background(), sock, built)
	go c.ServeJSONSocket()
	defer sock.Close()

	for _, typ := range []string{"subscribe", "mutate"} {
		query := `{ f(token: "abc") }`
		if typ == "mutate" {
			query = "mutation " + query
		}
		sock.send(typ, "id-"+typ, map[string]interface{}{"query": query})
		select {
		case msg := <-sock.outCh:
			if msg["type"] != "error" {
				t.Fatalf("%s: expected an error message, got %v", typ, msg)
			}
			text, _ := msg["message"].(string)
			if strings.Contains(text, "hunter2") || strings.Contains(text, "10.0.0.7") {
				t.Errorf("%s: text of an unmarked error reached the client: %q", typ, text)
			}
		case <-time.After(2 * time.Second):
			t.Fatalf("%s: no message", typ)
		}
	}
}
