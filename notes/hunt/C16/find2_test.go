// FINDING 2: over the websocket protocol, a subscription whose FIRST run fails
// with an error whose cause is context.Canceled (a resolver returning
// context.Canceled, e.g. from a context of its own that it cancelled or from a
// downstream call) is closed WITHOUT any message to the client: no "error"
// envelope is ever written, although the connection and its context are alive.
// The property demands that an initially failing subscription is reported once
// and then closed. (handleMutate, in contrast, reports before looking at the cause.)
//
// Copy into:  graphql/   (package graphql_test)
// Run with:   go test ./graphql/ -run TestFind2 -v
//
// Responsible code: graphql/server.go, handleSubscribe, lines 200-205:
//     if ErrorCause(err) == context.Canceled { go c.closeSubscriptionOf(...); return nil, err }
// which comes before the `initial` branch that writes the error envelope (lines 223-228).
package graphql_test

import (
	"context"
	"encoding/json"
	"errors"
	"sync"
	"testing"
	"time"

	"github.com/samsarahq/thunder/graphql"
	"github.com/samsarahq/thunder/graphql/schemabuilder"
)

type find2Socket struct {
	in     chan []byte
	outCh  chan map[string]interface{}
	closed chan struct{}
	once   sync.Once
}

func newFind2Socket() *find2Socket {
	return &find2Socket{in: make(chan []byte, 10), outCh: make(chan map[string]interface{}, 10), closed: make(chan struct{})}
}
func (s *find2Socket) ReadJSON(v interface{}) error {
	select {
	case b := <-s.in:
		return json.Unmarshal(b, v)
	case <-s.closed:
		return errors.New("closed")
	}
}
func (s *find2Socket) WriteJSON(v interface{}) error {
	b, err := json.Marshal(v)
	if err != nil {
		return err
	}
	var m map[string]interface{}
	if err := json.Unmarshal(b, &m); err != nil {
		return err
	}
	s.outCh <- m
	return nil
}
func (s *find2Socket) Close() error { s.once.Do(func() { close(s.closed) }); return nil }
func (s *find2Socket) send(typ, id string, msg interface{}) {
	raw, _ := json.Marshal(msg)
	b, _ := json.Marshal(map[string]interface{}{"id": id, "type": typ, "message": json.RawMessage(raw)})
	s.in <- b
}

type find2Logger struct {
	mu    sync.Mutex
	unsub []string
}

func (l *find2Logger) Subscribe(ctx context.Context, id string, tags map[string]string) {}
func (l *find2Logger) Unsubscribe(ctx context.Context, id string) {
	l.mu.Lock()
	l.unsub = append(l.unsub, id)
	l.mu.Unlock()
}

func TestFind2InitialCanceledSubscriptionNotReported(t *testing.T) {
	schema := schemabuilder.NewSchema()
	q := schema.Query()
	q.FieldFunc("boom", func(ctx context.Context) (string, error) {
		// e.g. the result of a call made with a derived context that the
		// resolver itself timed out / cancelled.
		sub, cancel := context.WithCancel(ctx)
		cancel()
		return "", sub.Err() // == context.Canceled; ctx itself is alive
	})
	_ = schema.Mutation()
	built := schema.MustBuild()

	sock := newFind2Socket()
	lg := &find2Logger{}
	c := graphql.CreateConnection(context.Background(), sock, built, graphql.WithSubscriptionLogger(lg))
	go c.ServeJSONSocket()
	defer sock.Close()

	sock.send("subscribe", "s1", map[string]interface{}{"query": `{ boom }`})

	// The subscription is closed by the server ...
	deadline := time.Now().Add(2 * time.Second)
	for {
		lg.mu.Lock()
		n := len(lg.unsub)
		lg.mu.Unlock()
		if n > 0 || time.Now().After(deadline) {
			if n != 1 {
				t.Fatalf("expected the failed subscription to be closed once, got %d", n)
			}
			break
		}
		time.Sleep(5 * time.Millisecond)
	}
	// ... but the client was never told.
	select {
	case m := <-sock.outCh:
		if m["type"] != "error" || m["id"] != "s1" || m["message"] != "Internal server error" {
			t.Errorf("unexpected message %v", m)
		}
	case <-time.After(500 * time.Millisecond):
		t.Errorf("initially failing subscription s1 was closed by the server but no error message was sent to the client")
	}
}
