// Finding C17-1: a mutation is reported to the subscription logger as an
// Unsubscribe although no Subscribe was ever reported for it, so that the
// logger sees two Unsubscribe("a") for one Subscribe("a") when the id is
// reused, and more Unsubscribes than Subscribes in general.
//
// Copy into:  graphql/   (package graphql_test)
// Run with:   go test ./graphql/ -run TestFind1 -count=1 -v
package graphql_test

import (
	"context"
	"encoding/json"
	"fmt"
	"sync"
	"testing"
	"time"

	"github.com/gorilla/websocket"
	"github.com/samsarahq/thunder/graphql"
	"github.com/samsarahq/thunder/graphql/schemabuilder"
)

type find1Log struct {
	mu     sync.Mutex
	events []string
}

func (l *find1Log) add(format string, args ...interface{}) {
	l.mu.Lock()
	l.events = append(l.events, fmt.Sprintf(format, args...))
	l.mu.Unlock()
}

func (l *find1Log) count(s string) int {
	l.mu.Lock()
	defer l.mu.Unlock()
	n := 0
	for _, e := range l.events {
		if e == s {
			n++
		}
	}
	return n
}

func (l *find1Log) waitFor(t *testing.T, s string, n int) {
	t.Helper()
	for i := 0; i < 3000; i++ {
		if l.count(s) >= n {
			return
		}
		time.Sleep(time.Millisecond)
	}
	t.Fatalf("timed out waiting for %d x %q; log: %q", n, s, l.events)
}

func (l *find1Log) Subscribe(ctx context.Context, id string, tags map[string]string) {
	l.add("Subscribe(%s)", id)
}
func (l *find1Log) Unsubscribe(ctx context.Context, id string) { l.add("Unsubscribe(%s)", id) }

type find1Socket struct {
	log *find1Log
	in  chan string
}

func (s *find1Socket) ReadJSON(v interface{}) error {
	m, ok := <-s.in
	if !ok {
		return &websocket.CloseError{Code: websocket.CloseNormalClosure}
	}
	return json.Unmarshal([]byte(m), v)
}

func (s *find1Socket) WriteJSON(v interface{}) error {
	b, _ := json.Marshal(v)
	var env struct{ ID, Type string }
	json.Unmarshal(b, &env)
	s.log.add("write %s %s", env.Type, env.ID)
	return nil
}

func (s *find1Socket) Close() error { return nil }

func find1Serve() (*find1Log, *find1Socket, chan struct{}) {
	sb := schemabuilder.NewSchema()
	sb.Query().FieldFunc("one", func() int64 { return 1 })
	sb.Mutation().FieldFunc("set", func() int64 { return 2 })
	l := &find1Log{}
	s := &find1Socket{log: l, in: make(chan string, 16)}
	c := graphql.CreateConnection(context.Background(), s, sb.MustBuild(), graphql.WithSubscriptionLogger(l))
	done := make(chan struct{})
	go func() { c.ServeJSONSocket(); close(done) }()
	return l, s, done
}

// A client subscribes with id "a", unsubscribes, and then uses the id for a
// mutation: one Subscribe("a"), two Unsubscribe("a").
func TestFind1MutationAfterSubscriptionSameID(t *testing.T) {
	l, s, done := find1Serve()
	s.in <- `{"id":"a","type":"subscribe","message":{"query":"{ one }"}}`
	l.waitFor(t, "write update a", 1)
	s.in <- `{"id":"a","type":"unsubscribe"}`
	l.waitFor(t, "Unsubscribe(a)", 1)
	s.in <- `{"id":"a","type":"mutate","message":{"query":"mutation { set }"}}`
	l.waitFor(t, "write result a", 1)
	time.Sleep(50 * time.Millisecond) // the mutation's rerunner is closed by a goroutine
	close(s.in)
	<-done
	t.Logf("log: %q", l.events)
	if sub, unsub := l.count("Subscribe(a)"), l.count("Unsubscribe(a)"); sub != 1 || unsub != 1 {
		t.Errorf("the subscription logger saw %d Subscribe(a) and %d Unsubscribe(a); want exactly one Unsubscribe for the one Subscribe", sub, unsub)
	}
}

// The same without a subscription: a mutation alone makes the logger see an
// Unsubscribe that belongs to no Subscribe (a gauge of live subscriptions kept
// by the logger goes negative).
func TestFind1MutationAlone(t *testing.T) {
	l, s, done := find1Serve()
	s.in <- `{"id":"m","type":"mutate","message":{"query":"mutation { set }"}}`
	l.waitFor(t, "write result m", 1)
	time.Sleep(50 * time.Millisecond)
	close(s.in)
	<-done
	t.Logf("log: %q", l.events)
	if unsub := l.count("Unsubscribe(m)"); unsub != 0 {
		t.Errorf("the subscription logger saw %d Unsubscribe(m) and no Subscribe(m)", unsub)
	}
}
