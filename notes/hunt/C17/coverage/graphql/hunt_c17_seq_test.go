package graphql_test

import (
	"fmt"
	"math/rand"
	"strings"
	"sync/atomic"
	"testing"
	"time"
)

// TestHuntSequentialModel drives one connection with a random message order,
// waits for quiescence after every message and compares every verdict and the
// set of live subscriptions with a reference model:
//
//	subscribe(id): refused as duplicate iff id is live; else refused for the
//	limit iff |live| == max; else accepted (Subscribe logged); if its first
//	run fails it ends at once (error written, Unsubscribe logged), else an
//	update is written.
//	unsubscribe(id): ends id iff live (Unsubscribe logged), else nothing.
//	a change of a cell: every live subscription that reads it writes one update
//	(as soon as the cell does not fail), and nothing else is written.
//	hangup: every live subscription ends (Unsubscribe logged) before
//	ServeJSONSocket returns.
func TestHuntSequentialModel(t *testing.T) {
	defer hSetTimes()()
	n := 400
	if testing.Short() {
		n = 60
	}
	verdicts := map[string]int{}
	for seed := 0; seed < n; seed++ {
		rng := rand.New(rand.NewSource(int64(seed) + 7000))
		max := 1 + rng.Intn(3)
		c := hServe(t, max)
		ids := []string{"a", "b", "c", ""}
		cells := []string{"x", "y"}
		fields := []string{"cell", "xcell", "obj"}
		type sub struct {
			cells   []string
			tag     string
			written map[string]int64 // values last written
		}
		live := map[string]*sub{}
		val := map[string]int64{}
		failing := map[string]bool{}
		expS, expU := 0, 0
		expW := map[string]int{} // id -> number of own writes (update / Internal server error)
		echoN := 0
		barrier := func() {
			echoN++
			id := fmt.Sprintf("echo%d", echoN)
			c.sock.send("echo", id, nil)
			c.wait("echo", func(e []hEvent) bool { return hCount(e, "W", id) == 1 })
		}
		own := func(evs []hEvent, id string) int {
			k := 0
			for _, e := range evs {
				if e.kind == "W" && e.id == id && (e.typ == "update" || (e.typ == "error" && strings.Contains(e.msg, "Internal server error"))) {
					k++
				}
			}
			return k
		}
		rejected := func(evs []hEvent, id, what string) int {
			k := 0
			for _, e := range evs {
				if e.kind == "W" && e.id == id && e.typ == "error" && strings.Contains(e.msg, what) {
					k++
				}
			}
			return k
		}
		expRej := map[string]int{}
		settle := func(what string) {
			// every live subscription of a non-failing cell must have written the current value
			for id, s := range live {
				fails, differs := false, false
				for _, k := range s.cells {
					fails = fails || failing[k]
					differs = differs || s.written[k] != val[k]
				}
				if !fails && differs {
					expW[id]++
					for _, k := range s.cells {
						s.written[k] = val[k]
					}
				}
			}
			ok := c.log.waitFor(3*time.Second, func(e []hEvent) bool {
				if hCount(e, "S", "*") != expS || hCount(e, "U", "*") != expU {
					return false
				}
				for _, id := range ids {
					if own(e, id) != expW[id] {
						return false
					}
					for _, w := range []string{"duplicate subscription", "too many subscriptions"} {
						if rejected(e, id, w) != expRej[id+w] {
							return false
						}
					}
				}
				return true
			})
			if !ok {
				evs := c.log.snapshot()
				t.Fatalf("seed %d (max %d) after %s: expected S=%d U=%d writes=%v rejections=%v; got S=%d U=%d\nlog:\n%s",
					seed, max, what, expS, expU, expW, expRej, hCount(evs, "S", "*"), hCount(evs, "U", "*"), hDump(evs))
			}
		}
		tagN := 0
		steps := 5 + rng.Intn(30)
		for i := 0; i < steps; i++ {
			what := ""
			switch r := rng.Intn(100); {
			case r < 40:
				id := ids[rng.Intn(len(ids))]
				k := cells[rng.Intn(2)]
				tagN++
				tag := fmt.Sprintf("t%d", tagN)
				what = fmt.Sprintf("subscribe %q %s", id, k)
				field := fields[rng.Intn(3)]
				c.sock.subscribe(id, hQuery(field, k, tag))
				reads := []string{k}
				if field == "obj" {
					reads = []string{"x", "y"}
				}
				anyFails := false
				for _, k := range reads {
					anyFails = anyFails || failing[k]
				}
				switch {
				case live[id] != nil:
					expRej[id+"duplicate subscription"]++
					verdicts["dup"]++
				case len(live) >= max:
					expRej[id+"too many subscriptions"]++
					verdicts["limit"]++
				case anyFails:
					expS++
					expU++
					expW[id]++
					verdicts["fail"]++
				default:
					expS++
					expW[id]++
					live[id] = &sub{cells: reads, tag: tag, written: map[string]int64{"x": val["x"], "y": val["y"]}}
					verdicts["ok"]++
				}
			case r < 60:
				id := ids[rng.Intn(len(ids))]
				what = fmt.Sprintf("unsubscribe %q", id)
				c.sock.unsubscribe(id)
				if live[id] != nil {
					delete(live, id)
					expU++
					verdicts["unsub"]++
				} else {
					verdicts["unsub-miss"]++
				}
			case r < 80:
				k := cells[rng.Intn(2)]
				what = "bump " + k
				val[k]++
				c.world.bump(k)
			case r < 90:
				k := cells[rng.Intn(2)]
				failing[k] = !failing[k]
				what = fmt.Sprintf("fail %s %v", k, failing[k])
				mode := ""
				if failing[k] {
					mode = []string{"err", "canceled"}[rng.Intn(2)]
				}
				c.world.setFail(k, mode)
			default:
				// garbage and other message types must not disturb anything
				what = "noise"
				c.sock.send([]string{"url", "bogus", "subscribe", "mutate"}[rng.Intn(4)], "zz", "not a message")
			}
			barrier()
			settle(what)
			// let late (wrong) events show up now and then
			if rng.Intn(4) == 0 {
				time.Sleep(time.Duration(rng.Intn(3)) * time.Millisecond)
				settle(what + " (late)")
			}
		}
		expU += len(live)
		c.close()
		settle("hangup")
		evs := c.log.snapshot()
		if evs[len(evs)-1].kind != "closed" && evs[len(evs)-1].kind != "C" {
			t.Fatalf("seed %d: events after close\n%s", seed, hDump(evs))
		}
		ok := false
		for i := 0; i < 1000; i++ {
			if atomic.LoadInt64(&c.world.created) == atomic.LoadInt64(&c.world.cleaned) {
				ok = true
				break
			}
			time.Sleep(time.Millisecond)
		}
		if !ok {
			t.Fatalf("seed %d: resources created %d cleaned %d", seed, c.world.created, c.world.cleaned)
		}
		if bad := hCheck(c.log.snapshot(), max, func(id string) bool { return !strings.HasPrefix(id, "echo") && id != "zz" }); len(bad) > 0 {
			t.Fatalf("seed %d: %v\n%s", seed, bad, hDump(evs))
		}
		c.cancel()
	}
	t.Logf("verdicts: %v", verdicts)
}
