package graphql_test

import (
	"context"
	"fmt"
	"math/rand"
	"strings"
	"sync/atomic"
	"testing"
	"time"

	"github.com/samsarahq/thunder/graphql"
)

// hCheck checks the lifecycle invariants on a complete log. subIDs are the ids
// used by subscriptions only (mutations use other ids).
func hCheck(evs []hEvent, max int, isSubID func(string) bool) []string {
	var bad []string
	type inc struct {
		tag    string
		s, u   int64
		failed bool
		writes int
	}
	live := map[string]*inc{}
	var all []*inc
	byTag := map[string]*inc{}
	nlive := 0
	closed := false
	lastEnd := map[string]int64{}
	for _, e := range evs {
		if closed && e.kind != "C" {
			bad = append(bad, fmt.Sprintf("event after close: %d %s id=%q tag=%q typ=%q", e.seq, e.kind, e.id, e.tag, e.typ))
		}
		switch e.kind {
		case "closed":
			closed = true
		case "S":
			if !isSubID(e.id) {
				bad = append(bad, fmt.Sprintf("Subscribe for a mutation id %q", e.id))
				continue
			}
			if live[e.id] != nil {
				bad = append(bad, fmt.Sprintf("seq %d: Subscribe(%q) while live", e.seq, e.id))
			}
			tag := e.tag
			if i := strings.Index(tag, `tag: "`); i >= 0 {
				tag = tag[i+6:]
				tag = tag[:strings.Index(tag, `"`)]
			}
			in := &inc{tag: tag, s: e.seq}
			live[e.id] = in
			byTag[tag] = in
			all = append(all, in)
			nlive++
			if nlive > max {
				bad = append(bad, fmt.Sprintf("seq %d: %d live subscriptions > max %d", e.seq, nlive, max))
			}
		case "U":
			if !isSubID(e.id) {
				continue // finding 1: mutations are reported as Unsubscribe
			}
			in := live[e.id]
			if in == nil {
				bad = append(bad, fmt.Sprintf("seq %d: Unsubscribe(%q) while not live", e.seq, e.id))
				continue
			}
			in.u = e.seq
			delete(live, e.id)
			lastEnd[e.id] = e.seq
			nlive--
		case "R":
			in := byTag[e.tag]
			if in == nil {
				bad = append(bad, fmt.Sprintf("seq %d: resolver of tag %q runs before its Subscribe", e.seq, e.tag))
				continue
			}
			if in.u != 0 {
				bad = append(bad, fmt.Sprintf("seq %d: resolver of tag %q (%s) runs after its Unsubscribe at %d", e.seq, e.tag, e.typ, in.u))
			}
		case "W":
			if !isSubID(e.id) {
				continue
			}
			own := e.typ == "update" || (e.typ == "error" && strings.Contains(e.msg, "Internal server error"))
			if !own {
				continue
			}
			in := live[e.id]
			if in == nil {
				bad = append(bad, fmt.Sprintf("seq %d: write %s %s for %q while not live (ended at %d)", e.seq, e.typ, e.msg, e.id, lastEnd[e.id]))
				continue
			}
			if in.failed {
				bad = append(bad, fmt.Sprintf("seq %d: write %s for %q after its error", e.seq, e.typ, e.id))
			}
			if e.typ == "error" {
				if in.writes != 0 {
					bad = append(bad, fmt.Sprintf("seq %d: error written for %q after %d updates", e.seq, e.id, in.writes))
				}
				in.failed = true
			}
			in.writes++
		}
	}
	if !closed {
		bad = append(bad, "no closed event")
	}
	for id := range live {
		bad = append(bad, fmt.Sprintf("subscription %q never unsubscribed", id))
	}
	return bad
}

func hIsSub(id string) bool { return !strings.HasPrefix(id, "m") }

// TestHuntRandomConcurrent fires random message orders without waiting for
// quiescence, with gates that keep runs in flight, and checks the invariants.
func TestHuntRandomConcurrent(t *testing.T) {
	defer hSetTimes()()
	n := 1500
	if testing.Short() {
		n = 200
	}
	stats := map[string]int{}
	defer func() { t.Logf("stats: %v", stats) }()
	for seed := 0; seed < n; seed++ {
		rng := rand.New(rand.NewSource(int64(seed)))
		max := 1 + rng.Intn(3)
		spawn := rng.Intn(2) == 0
		c := hServe(t, max, graphql.WithAlwaysSpawnGoroutineFunc(func(_ context.Context, q *graphql.Query) bool { return spawn }))
		ids := []string{"a", "b", "c"}
		cells := []string{"x", "y"}
		fields := []string{"cell", "xcell", "obj"}
		closedGates := map[string]bool{}
		tagN := 0
		steps := 5 + rng.Intn(40)
		cancelled := false
		for i := 0; i < steps; i++ {
			switch r := rng.Intn(100); {
			case r < 22:
				tagN++
				c.sock.subscribe(ids[rng.Intn(3)], hQuery(fields[rng.Intn(3)], cells[rng.Intn(2)], fmt.Sprintf("t%d", tagN)))
			case r < 34:
				c.sock.unsubscribe(ids[rng.Intn(3)])
			case r < 65:
				c.world.bump(cells[rng.Intn(2)])
			case r < 72:
				tagN++
				c.sock.mutate(fmt.Sprintf("m%d", rng.Intn(2)), hMutation(cells[rng.Intn(2)], fmt.Sprintf("t%d", tagN)))
			case r < 80:
				c.world.setFail(cells[rng.Intn(2)], []string{"", "err", "canceled", "ctx"}[rng.Intn(4)])
			case r < 88:
				k := cells[rng.Intn(2)]
				if closedGates[k] {
					c.world.openGate(k)
					delete(closedGates, k)
				} else {
					c.world.closeGate(k)
					closedGates[k] = true
				}
			case r < 90:
				if !cancelled && i > steps/2 {
					c.cancel()
					cancelled = true
				}
			default:
				time.Sleep(time.Duration(rng.Intn(2500)) * time.Microsecond)
			}
			if rng.Intn(3) == 0 {
				time.Sleep(time.Duration(rng.Intn(300)) * time.Microsecond)
			}
		}
		// Hang up first (sometimes) and open the gates afterwards, so that the
		// connection closes with runs in flight.
		if rng.Intn(2) == 0 {
			c.sock.hangup()
			time.Sleep(time.Duration(rng.Intn(500)) * time.Microsecond)
			for k := range closedGates {
				c.world.openGate(k)
			}
			select {
			case <-c.done:
			case <-time.After(5 * time.Second):
				t.Fatalf("seed %d: no return", seed)
			}
		} else {
			for k := range closedGates {
				c.world.openGate(k)
			}
			time.Sleep(time.Duration(rng.Intn(3000)) * time.Microsecond)
			c.close()
		}
		// give stragglers a chance to show up
		ok := false
		for i := 0; i < 400; i++ {
			if atomic.LoadInt64(&c.world.created) == atomic.LoadInt64(&c.world.cleaned) {
				ok = true
				break
			}
			time.Sleep(time.Millisecond)
		}
		time.Sleep(2 * time.Millisecond)
		evs := c.log.snapshot()
		bad := hCheck(evs, max, hIsSub)
		for _, e := range evs {
			stats[e.kind+":"+e.typ]++
			if e.kind == "W" && e.typ == "error" {
				m := e.msg
				if len(m) > 30 {
					m = m[:30]
				}
				stats["err:"+m]++
			}
		}
		if !ok {
			bad = append(bad, fmt.Sprintf("resources: created %d cleaned %d", c.world.created, c.world.cleaned))
		}
		if len(bad) > 0 {
			t.Errorf("seed %d (max %d spawn %v):\n%s\nlog:\n%s", seed, max, spawn, strings.Join(bad, "\n"), hDump(evs))
			return
		}
		c.cancel()
	}
}
