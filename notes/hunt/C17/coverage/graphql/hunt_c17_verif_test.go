//go:build verif
// +build verif

package graphql_test

import (
	"math/rand"
	"runtime"
	"sync"
	"time"

	"github.com/samsarahq/thunder/graphql"
	"github.com/samsarahq/thunder/reactive"
)

func init() {
	var mu sync.Mutex
	rng := rand.New(rand.NewSource(99))
	perturb := func() {
		mu.Lock()
		r := rng.Intn(100)
		d := rng.Intn(400)
		mu.Unlock()
		switch {
		case r < 10:
			time.Sleep(time.Duration(d) * time.Microsecond)
		case r < 40:
			runtime.Gosched()
		}
	}
	reactive.VerifHook = func(kind string, a, b interface{}) {
		if kind == "yield" || kind == "rr.cancel" || kind == "rel.spawn" || kind == "inv.spawn" {
			perturb()
		}
	}
	graphql.VerifConnHook = func(kind, id string, key interface{}) {
		if kind == "run.fail" || kind == "run.ok" {
			perturb()
		}
	}
}
