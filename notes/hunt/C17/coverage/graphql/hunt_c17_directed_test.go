package graphql_test

import (
	"testing"
	"time"
)

func TestHuntMutationLogsUnsubscribe(t *testing.T) {
	defer hSetTimes()()
	c := hServe(t, 10)
	c.sock.subscribe("a", hQuery("cell", "x", "s1"))
	c.wait("first update", func(e []hEvent) bool { return hCount(e, "W", "a") == 1 })
	c.sock.unsubscribe("a")
	c.wait("unsub", func(e []hEvent) bool { return hCount(e, "U", "a") == 1 })
	c.sock.mutate("a", hMutation("x", "m1"))
	c.wait("result", func(e []hEvent) bool { return hCount(e, "W", "a") == 2 })
	time.Sleep(20 * time.Millisecond)
	c.close()
	evs := c.log.snapshot()
	t.Logf("\n%s", hDump(evs))
	if s, u := hCount(evs, "S", "a"), hCount(evs, "U", "a"); s != u {
		t.Errorf("Subscribe(a) x%d, Unsubscribe(a) x%d", s, u)
	}
}

func TestHuntMutationPlain(t *testing.T) {
	defer hSetTimes()()
	c := hServe(t, 10)
	c.sock.mutate("m", hMutation("x", "m1"))
	c.wait("result", func(e []hEvent) bool { return hCount(e, "W", "m") == 1 })
	time.Sleep(20 * time.Millisecond)
	c.close()
	evs := c.log.snapshot()
	t.Logf("\n%s", hDump(evs))
	if s, u := hCount(evs, "S", "*"), hCount(evs, "U", "*"); s != u {
		t.Errorf("Subscribe x%d, Unsubscribe x%d", s, u)
	}
}
