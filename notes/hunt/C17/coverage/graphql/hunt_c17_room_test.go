package graphql_test

import (
	"bytes"
	"log"
	"strings"
	"sync"
	"testing"
	"time"
)

type hLogWatch struct {
	mu  sync.Mutex
	buf bytes.Buffer
}

func (w *hLogWatch) Write(p []byte) (int, error) {
	w.mu.Lock()
	defer w.mu.Unlock()
	return w.buf.Write(p)
}
func (w *hLogWatch) has(s string) bool {
	w.mu.Lock()
	defer w.mu.Unlock()
	return strings.Contains(w.buf.String(), s)
}

// Within room 1 and 2: a subscription whose first run failed still holds its id
// and its slot when the client, who has already been sent the error, reacts.
func TestHuntRoomFailedStillCounts(t *testing.T) {
	for _, second := range []string{"a", "b"} {
		func() {
			defer hSetTimes()()
			c := hServe(t, 1)
			watch := &hLogWatch{}
			log.SetOutput(watch)
			want := "duplicate subscription"
			if second == "b" {
				want = "too many subscriptions"
			}
			var once sync.Once
			c.sock.onWrite = func(id, typ string) {
				if id == "a" && typ == "error" {
					once.Do(func() {
						// the client has the error for "a" in hand and reacts at once
						c.sock.subscribe(second, hQuery("cell", "y", "s2"))
						for i := 0; i < 2000 && !watch.has("c.handle:"); i++ {
							time.Sleep(time.Millisecond)
						}
					})
				}
			}
			c.world.setFail("x", "err")
			c.sock.subscribe("a", hQuery("cell", "x", "s1"))
			c.wait("verdict", func(e []hEvent) bool { return hCount(e, "W", second) >= 1 && hCount(e, "U", "a") == 1 })
			time.Sleep(5 * time.Millisecond)
			c.close()
			evs := c.log.snapshot()
			t.Logf("second=%q\n%s", second, hDump(evs))
			if !watch.has(want) {
				t.Errorf("expected the second subscribe to be refused with %q", want)
			}
		}()
	}
}

// Within room 3: a mutation in flight holds its id and a slot.
func TestHuntRoomMutationInFlight(t *testing.T) {
	defer hSetTimes()()
	c := hServe(t, 1)
	c.world.closeGate("mut:x")
	c.sock.mutate("m", hMutation("x", "m1"))
	c.wait("mutation running", func(e []hEvent) bool { return hCount(e, "M", "x") == 1 })
	c.sock.subscribe("m", hQuery("cell", "y", "s1"))
	c.sock.subscribe("b", hQuery("cell", "y", "s2"))
	c.wait("verdicts", func(e []hEvent) bool { return hCount(e, "W", "m") == 1 && hCount(e, "W", "b") == 1 })
	c.world.openGate("mut:x")
	c.wait("result", func(e []hEvent) bool { return hCount(e, "W", "m") == 2 })
	c.close()
	evs := c.log.snapshot()
	t.Logf("\n%s", hDump(evs))
	for _, e := range evs {
		if e.kind == "W" && e.id == "b" && !strings.Contains(e.msg, "too many subscriptions") {
			t.Errorf("b: %s", e.msg)
		}
	}
}
