package graphql_test

import (
	"context"
	"encoding/json"
	"errors"
	"fmt"
	"io/ioutil"
	"log"
	"sync"
	"sync/atomic"
	"testing"
	"time"

	"github.com/gorilla/websocket"
	"github.com/samsarahq/thunder/graphql"
	"github.com/samsarahq/thunder/graphql/schemabuilder"
	"github.com/samsarahq/thunder/reactive"
)

// ---- event log -------------------------------------------------------------

type hEvent struct {
	seq  int64
	kind string // "S","U","W","R" (resolver), "C" (cleanup), "closed"
	id   string
	tag  string
	typ  string
	msg  string
}

type hLog struct {
	mu     sync.Mutex
	seq    int64
	events []hEvent
	cond   *sync.Cond
}

func newHLog() *hLog {
	l := &hLog{}
	l.cond = sync.NewCond(&l.mu)
	return l
}

func (l *hLog) add(e hEvent) {
	l.mu.Lock()
	l.seq++
	e.seq = l.seq
	l.events = append(l.events, e)
	l.cond.Broadcast()
	l.mu.Unlock()
}

func (l *hLog) snapshot() []hEvent {
	l.mu.Lock()
	defer l.mu.Unlock()
	return append([]hEvent(nil), l.events...)
}

// waitFor waits until pred holds on the log (or the timeout passes).
func (l *hLog) waitFor(d time.Duration, pred func([]hEvent) bool) bool {
	deadline := time.Now().Add(d)
	l.mu.Lock()
	defer l.mu.Unlock()
	for !pred(l.events) {
		if time.Now().After(deadline) {
			return false
		}
		l.mu.Unlock()
		time.Sleep(200 * time.Microsecond)
		l.mu.Lock()
	}
	return true
}

func hCount(evs []hEvent, kind, id string) int {
	n := 0
	for _, e := range evs {
		if e.kind == kind && (id == "*" || e.id == id) {
			n++
		}
	}
	return n
}

// ---- socket ------------------------------------------------------------------

type hSocket struct {
	log    *hLog
	in     chan map[string]interface{}
	closed int32
	// onWrite, when set, is called inside WriteJSON (the write lock of the
	// connection is held).
	onWrite func(id, typ string)
}

func newHSocket(l *hLog) *hSocket {
	return &hSocket{log: l, in: make(chan map[string]interface{}, 1024)}
}

func (s *hSocket) ReadJSON(v interface{}) error {
	m, ok := <-s.in
	if !ok {
		return &websocket.CloseError{Code: websocket.CloseNormalClosure}
	}
	b, _ := json.Marshal(m)
	return json.Unmarshal(b, v)
}

func (s *hSocket) WriteJSON(v interface{}) error {
	b, err := json.Marshal(v)
	if err != nil {
		return err
	}
	var env struct {
		ID      string          `json:"id"`
		Type    string          `json:"type"`
		Message json.RawMessage `json:"message"`
	}
	json.Unmarshal(b, &env)
	s.log.add(hEvent{kind: "W", id: env.ID, typ: env.Type, msg: string(env.Message)})
	if s.onWrite != nil {
		s.onWrite(env.ID, env.Type)
	}
	if atomic.LoadInt32(&s.closed) != 0 {
		return websocket.ErrCloseSent
	}
	return nil
}

func (s *hSocket) Close() error {
	atomic.StoreInt32(&s.closed, 1)
	return nil
}

func (s *hSocket) send(typ, id string, msg interface{}) {
	m := map[string]interface{}{"id": id, "type": typ}
	if msg != nil {
		m["message"] = msg
	}
	s.in <- m
}

func (s *hSocket) subscribe(id, query string) {
	s.send("subscribe", id, map[string]interface{}{"query": query})
}
func (s *hSocket) mutate(id, query string) {
	s.send("mutate", id, map[string]interface{}{"query": query})
}
func (s *hSocket) unsubscribe(id string) { s.send("unsubscribe", id, nil) }
func (s *hSocket) hangup()               { close(s.in) }

// ---- subscription logger -----------------------------------------------------

type hSubLogger struct{ log *hLog }

func (l *hSubLogger) Subscribe(ctx context.Context, id string, tags map[string]string) {
	l.log.add(hEvent{kind: "S", id: id, tag: tags["query"]})
}
func (l *hSubLogger) Unsubscribe(ctx context.Context, id string) {
	l.log.add(hEvent{kind: "U", id: id})
}

// ---- world: reactive cells and controllable resolvers -------------------------

type hWorld struct {
	log *hLog

	mu        sync.Mutex
	cells     map[string]int64
	cellRes   map[string][]*reactive.Resource
	failing   map[string]string // cell -> "", "err", "canceled"
	gates     map[string]chan struct{}
	created   int64
	cleaned   int64
	gateWait  map[string]int
	mutations int64
}

func newHWorld(l *hLog) *hWorld {
	return &hWorld{log: l, cells: map[string]int64{}, cellRes: map[string][]*reactive.Resource{},
		failing: map[string]string{}, gates: map[string]chan struct{}{}, gateWait: map[string]int{}}
}

// read registers a dependency of the running computation on cell k.
func (w *hWorld) read(ctx context.Context, k string) int64 {
	r := reactive.NewResource()
	atomic.AddInt64(&w.created, 1)
	r.Cleanup(func() {
		atomic.AddInt64(&w.cleaned, 1)
		w.log.add(hEvent{kind: "C", id: k})
	})
	w.mu.Lock()
	w.cellRes[k] = append(w.cellRes[k], r)
	v := w.cells[k]
	w.mu.Unlock()
	reactive.AddDependency(ctx, r, nil)
	return v
}

func (w *hWorld) bump(k string) {
	w.mu.Lock()
	w.cells[k]++
	rs := w.cellRes[k]
	w.cellRes[k] = nil
	w.mu.Unlock()
	for _, r := range rs {
		r.Invalidate()
	}
}

func (w *hWorld) setFail(k, mode string) {
	w.mu.Lock()
	w.failing[k] = mode
	w.mu.Unlock()
}

func (w *hWorld) closeGate(k string) {
	w.mu.Lock()
	if w.gates[k] == nil {
		w.gates[k] = make(chan struct{})
	}
	w.mu.Unlock()
}

func (w *hWorld) openGate(k string) {
	w.mu.Lock()
	if g := w.gates[k]; g != nil {
		close(g)
		delete(w.gates, k)
	}
	w.mu.Unlock()
}

func (w *hWorld) waiting(k string) int {
	w.mu.Lock()
	defer w.mu.Unlock()
	return w.gateWait[k]
}

type hObj struct {
	K   string
	Tag string
}

type hCellArgs struct {
	K   string
	Tag string
}

func (w *hWorld) schema() *graphql.Schema {
	sb := schemabuilder.NewSchema()
	q := sb.Query()
	resolve := func(ctx context.Context, args hCellArgs) (int64, error) {
		w.log.add(hEvent{kind: "R", id: args.K, tag: args.Tag})
		v := w.read(ctx, args.K)
		w.mu.Lock()
		g := w.gates[args.K]
		if g != nil {
			w.gateWait[args.K]++
		}
		w.mu.Unlock()
		if g != nil {
			// The gate ignores the context on purpose: a run in flight stays in flight.
			<-g
			w.mu.Lock()
			w.gateWait[args.K]--
			w.mu.Unlock()
		}
		w.mu.Lock()
		mode := w.failing[args.K]
		w.mu.Unlock()
		w.log.add(hEvent{kind: "R", id: args.K, tag: args.Tag, typ: "end"})
		switch mode {
		case "err":
			return 0, errors.New("cell " + args.K + " fails")
		case "canceled":
			return 0, context.Canceled
		case "ctx":
			if ctx.Err() != nil {
				return 0, ctx.Err()
			}
		}
		return v, nil
	}
	q.FieldFunc("cell", resolve)
	q.FieldFunc("xcell", resolve, schemabuilder.Expensive)
	q.FieldFunc("obj", func(ctx context.Context, args hCellArgs) (*hObj, error) {
		_, err := resolve(ctx, args)
		if err != nil {
			return nil, err
		}
		return &hObj{K: args.K, Tag: args.Tag}, nil
	}, schemabuilder.Expensive)
	o := sb.Object("hObj", hObj{})
	o.FieldFunc("other", func(ctx context.Context, o *hObj) (int64, error) {
		k := "x"
		if o.K == "x" {
			k = "y"
		}
		return resolve(ctx, hCellArgs{K: k, Tag: o.Tag})
	}, schemabuilder.Expensive)
	o.FieldFunc("self", func(ctx context.Context, o *hObj) (int64, error) {
		return resolve(ctx, hCellArgs{K: o.K, Tag: o.Tag})
	})
	m := sb.Mutation()
	m.FieldFunc("bump", func(ctx context.Context, args hCellArgs) (int64, error) {
		w.log.add(hEvent{kind: "M", id: args.K, tag: args.Tag})
		atomic.AddInt64(&w.mutations, 1)
		w.mu.Lock()
		g := w.gates["mut:"+args.K]
		if g != nil {
			w.gateWait["mut:"+args.K]++
		}
		w.mu.Unlock()
		if g != nil {
			<-g
		}
		w.bump(args.K)
		w.mu.Lock()
		mode := w.failing["mut:"+args.K]
		w.mu.Unlock()
		if mode == "err" {
			return 0, errors.New("mutation fails")
		}
		return 1, nil
	})
	return sb.MustBuild()
}

func hQuery(field, k, tag string) string {
	if field == "obj" {
		return fmt.Sprintf(`{ obj(k: %q, tag: %q) { other self } }`, k, tag)
	}
	return fmt.Sprintf(`{ %s(k: %q, tag: %q) }`, field, k, tag)
}
func hMutation(k, tag string) string {
	return fmt.Sprintf(`mutation { bump(k: %q, tag: %q) }`, k, tag)
}

// ---- a served connection -----------------------------------------------------

type hConn struct {
	t      *testing.T
	log    *hLog
	sock   *hSocket
	world  *hWorld
	done   chan struct{}
	cancel context.CancelFunc
}

func hSetTimes() func() {
	old := reactive.WriteThenReadDelay
	reactive.WriteThenReadDelay = 0
	return func() { reactive.WriteThenReadDelay = old }
}

func hServe(t *testing.T, max int, opts ...graphql.ConnectionOption) *hConn {
	log.SetOutput(ioutil.Discard)
	l := newHLog()
	w := newHWorld(l)
	s := newHSocket(l)
	ctx, cancel := context.WithCancel(context.Background())
	all := []graphql.ConnectionOption{
		graphql.WithSubscriptionLogger(&hSubLogger{l}),
		graphql.WithMinRerunInterval(time.Millisecond),
		graphql.WithMaxSubscriptions(max),
	}
	all = append(all, opts...)
	c := graphql.CreateConnection(ctx, s, w.schema(), all...)
	hc := &hConn{t: t, log: l, sock: s, world: w, done: make(chan struct{}), cancel: cancel}
	go func() {
		c.ServeJSONSocket()
		l.add(hEvent{kind: "closed"})
		close(hc.done)
	}()
	return hc
}

func (c *hConn) close() {
	c.sock.hangup()
	select {
	case <-c.done:
	case <-time.After(5 * time.Second):
		c.t.Fatalf("ServeJSONSocket did not return")
	}
}

func (c *hConn) wait(what string, pred func([]hEvent) bool) {
	c.t.Helper()
	if !c.log.waitFor(3*time.Second, pred) {
		c.t.Fatalf("timed out waiting for %s; log:\n%s", what, hDump(c.log.snapshot()))
	}
}

func hDump(evs []hEvent) string {
	s := ""
	for _, e := range evs {
		s += fmt.Sprintf("  %3d %-6s id=%q tag=%q typ=%q %s\n", e.seq, e.kind, e.id, e.tag, e.typ, e.msg)
	}
	return s
}
