package reactive

import (
	"context"
	"errors"
	"sync/atomic"
	"testing"
	"time"
)

// Within room: a rerunner that stopped because its computation failed keeps the
// resources of its last good computation until Stop is called.
func TestHuntRoomErrorExitKeepsResources(t *testing.T) {
	old := WriteThenReadDelay
	WriteThenReadDelay = 0
	defer func() { WriteThenReadDelay = old }()
	var cleaned, runs int32
	res := NewResource()
	res.Cleanup(func() { atomic.AddInt32(&cleaned, 1) })
	trigger := NewResource()
	r := NewRerunner(context.Background(), func(ctx context.Context) (interface{}, error) {
		if atomic.AddInt32(&runs, 1) == 1 {
			AddDependency(ctx, res, nil)
			AddDependency(ctx, trigger, nil)
			return nil, nil
		}
		return nil, errors.New("fails for good")
	}, 0, false)
	for atomic.LoadInt32(&runs) < 1 {
		time.Sleep(time.Millisecond)
	}
	time.Sleep(5 * time.Millisecond)
	trigger.Strobe()
	for atomic.LoadInt32(&runs) < 2 {
		time.Sleep(time.Millisecond)
	}
	time.Sleep(50 * time.Millisecond)
	t.Logf("after the failure: runs=%d cleaned=%d", runs, atomic.LoadInt32(&cleaned))
	if atomic.LoadInt32(&cleaned) != 0 {
		t.Errorf("expected the resource to be still held")
	}
	r.Stop()
	time.Sleep(20 * time.Millisecond)
	if atomic.LoadInt32(&cleaned) != 1 {
		t.Errorf("expected the resource to be released by Stop")
	}
}
