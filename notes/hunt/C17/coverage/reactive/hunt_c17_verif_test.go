//go:build verif
// +build verif

package reactive

import (
	"math/rand"
	"runtime"
	"sync"
	"time"
)

func init() {
	var mu sync.Mutex
	rng := rand.New(rand.NewSource(99))
	VerifHook = func(kind string, a, b interface{}) {
		if kind != "yield" && kind != "rr.cancel" && kind != "rel.spawn" && kind != "inv.spawn" && kind != "rel.begin" {
			return
		}
		mu.Lock()
		r := rng.Intn(100)
		d := rng.Intn(400)
		mu.Unlock()
		switch {
		case r < 10:
			time.Sleep(time.Duration(d) * time.Microsecond)
		case r < 40:
			runtime.Gosched()
		}
	}
}
