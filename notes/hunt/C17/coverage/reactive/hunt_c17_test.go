package reactive

import (
	"context"
	"errors"
	"fmt"
	"math/rand"
	"sync"
	"sync/atomic"
	"testing"
	"time"
)

// hCell is a shared reactive value: one persistent resource per version,
// shared by every computation that reads it.
type hCell struct {
	mu      sync.Mutex
	version int
	res     *hRes
}

type hRes struct {
	r       *Resource
	used    int32
	cleaned int32
}

type hStore struct {
	mu    sync.Mutex
	all   []*hRes
	cells []*hCell
}

func (s *hStore) newRes() *hRes {
	h := &hRes{r: NewResource()}
	h.r.Cleanup(func() {
		if atomic.AddInt32(&h.cleaned, 1) != 1 {
			panic("cleanup twice")
		}
	})
	s.mu.Lock()
	s.all = append(s.all, h)
	s.mu.Unlock()
	return h
}

func (s *hStore) read(ctx context.Context, i int, fresh bool) int {
	c := s.cells[i]
	if fresh {
		// a resource of its own, like a database query
		h := s.newRes()
		atomic.StoreInt32(&h.used, 1)
		c.mu.Lock()
		v := c.version
		c.mu.Unlock()
		AddDependency(ctx, h.r, nil)
		return v
	}
	c.mu.Lock()
	if c.res == nil {
		c.res = s.newRes()
	}
	h := c.res
	v := c.version
	c.mu.Unlock()
	atomic.StoreInt32(&h.used, 1)
	AddDependency(ctx, h.r, nil)
	return v
}

func (s *hStore) bump(i int, strobe bool) {
	c := s.cells[i]
	c.mu.Lock()
	c.version++
	h := c.res
	if !strobe {
		c.res = nil
	}
	c.mu.Unlock()
	if h != nil {
		if strobe {
			h.r.Strobe()
		} else {
			h.r.Invalidate()
		}
	}
}

func TestHuntRerunnerRandom(t *testing.T) {
	old := WriteThenReadDelay
	WriteThenReadDelay = 0
	defer func() { WriteThenReadDelay = old }()

	n := 1500
	if testing.Short() {
		n = 150
	}
	hard := errors.New("hard")
	var totalRuns, totalAfter int64
	for seed := 0; seed < n; seed++ {
		rng := rand.New(rand.NewSource(int64(seed)))
		s := &hStore{}
		ncell := 1 + rng.Intn(3)
		for i := 0; i < ncell; i++ {
			s.cells = append(s.cells, &hCell{})
		}
		type rr struct {
			r       *Rerunner
			stopped int32
			after   int32
			runs    int32
			mode    int32 // 0 ok, 1 retry, 2 hard
			cancel  context.CancelFunc
		}
		nr := 1 + rng.Intn(3)
		var rrs []*rr
		var gate sync.Map // cell index -> chan
		for k := 0; k < nr; k++ {
			x := &rr{}
			plan := rng.Int63()
			ctx, cancel := context.WithCancel(context.Background())
			x.cancel = cancel
			spawn := rng.Intn(2) == 0
			f := func(ctx context.Context) (interface{}, error) {
				if atomic.LoadInt32(&x.stopped) != 0 {
					atomic.AddInt32(&x.after, 1)
				}
				run := atomic.AddInt32(&x.runs, 1)
				prng := rand.New(rand.NewSource(plan + int64(run)))
				var wg sync.WaitGroup
				for j := 0; j < 1+prng.Intn(3); j++ {
					ci := prng.Intn(ncell)
					kind := prng.Intn(5)
					fresh := prng.Intn(2) == 0
					after := time.Duration(prng.Intn(3000)) * time.Microsecond
					do := func() {
						switch kind {
						case 0:
							s.read(ctx, ci, fresh)
						case 1, 2:
							Cache(ctx, fmt.Sprint("c", ci), func(ctx context.Context) (interface{}, error) {
								v := s.read(ctx, ci, fresh)
								if kind == 2 {
									Cache(ctx, fmt.Sprint("d", ci), func(ctx context.Context) (interface{}, error) {
										return s.read(ctx, (ci+1)%ncell, fresh), nil
									})
								}
								return v, nil
							})
						case 3:
							Cache(ctx, fmt.Sprint("e", ci), func(ctx context.Context) (interface{}, error) {
								s.read(ctx, ci, fresh)
								return nil, errors.New("child fails")
							})
						case 4:
							InvalidateAfter(ctx, after)
						}
						if g, ok := gate.Load(ci); ok {
							<-g.(chan struct{})
						}
					}
					if prng.Intn(2) == 0 {
						wg.Add(1)
						go func() { defer wg.Done(); do() }()
					} else {
						do()
					}
				}
				wg.Wait()
				if prng.Intn(6) == 0 {
					PurgeCache(ctx)
				}
				if atomic.LoadInt32(&x.stopped) != 0 {
					atomic.AddInt32(&x.after, 1)
				}
				switch atomic.LoadInt32(&x.mode) {
				case 1:
					return nil, RetrySentinelError
				case 2:
					return nil, hard
				}
				if ctx.Err() != nil && prng.Intn(2) == 0 {
					return nil, ctx.Err()
				}
				return nil, nil
			}
			x.r = NewRerunner(ctx, f, time.Duration(rng.Intn(2))*time.Millisecond, spawn)
			rrs = append(rrs, x)
		}
		steps := 5 + rng.Intn(30)
		var stopWg sync.WaitGroup
		stop := func(x *rr) {
			stopWg.Add(1)
			go func() {
				defer stopWg.Done()
				x.r.Stop()
				atomic.StoreInt32(&x.stopped, 1)
			}()
		}
		stoppedAlready := map[*rr]bool{}
		for i := 0; i < steps; i++ {
			x := rrs[rng.Intn(nr)]
			switch r := rng.Intn(100); {
			case r < 35:
				s.bump(rng.Intn(ncell), rng.Intn(3) == 0)
			case r < 45:
				x.r.RerunImmediately()
			case r < 55:
				atomic.StoreInt32(&x.mode, int32(rng.Intn(3)))
			case r < 62:
				if !stoppedAlready[x] {
					stoppedAlready[x] = true
					stop(x)
				}
			case r < 66:
				x.cancel()
			case r < 74:
				ci := rng.Intn(ncell)
				if g, ok := gate.Load(ci); ok {
					gate.Delete(ci)
					close(g.(chan struct{}))
				} else {
					gate.Store(ci, make(chan struct{}))
				}
			default:
				time.Sleep(time.Duration(rng.Intn(1500)) * time.Microsecond)
			}
		}
		for _, x := range rrs {
			if !stoppedAlready[x] {
				stop(x)
			}
		}
		time.Sleep(time.Duration(rng.Intn(300)) * time.Microsecond)
		gate.Range(func(k, v interface{}) bool { gate.Delete(k); close(v.(chan struct{})); return true })
		stopWg.Wait()
		// resources must all be cleaned up
		deadline := time.Now().Add(2 * time.Second)
		for {
			pending := 0
			s.mu.Lock()
			for _, h := range s.all {
				if atomic.LoadInt32(&h.used) != 0 && atomic.LoadInt32(&h.cleaned) == 0 {
					pending++
				}
			}
			total := len(s.all)
			s.mu.Unlock()
			if pending == 0 {
				break
			}
			if time.Now().After(deadline) {
				t.Fatalf("seed %d: %d of %d resources not released after all rerunners stopped", seed, pending, total)
			}
			time.Sleep(500 * time.Microsecond)
		}
		time.Sleep(time.Millisecond)
		for i, x := range rrs {
			totalRuns += int64(x.runs)
			totalAfter += int64(x.after)
			if x.after != 0 {
				t.Fatalf("seed %d: rerunner %d ran after Stop returned (%d)", seed, i, x.after)
			}
			x.cancel()
		}
	}
	t.Logf("runs %d", totalRuns)
}
