// FINDING 1: the gateway adds "__typename" to every object of union type,
// whether or not the query asked for it (and even when the query excluded it
// with @skip), so its JSON differs from the JSON of one combined server.
//
// Copy into: federation/   (package federation)
// Run:       go test ./federation/ -run TestFind1 -v
package federation

import (
	"context"
	"encoding/json"
	"testing"

	"github.com/samsarahq/thunder/graphql"
	"github.com/samsarahq/thunder/graphql/schemabuilder"
)

func find1Service(name string) *schemabuilder.Schema {
	type Cat struct{ Id int64 }
	type Dog struct{ Id int64 }
	type Animal struct {
		schemabuilder.Union
		*Cat
		*Dog
	}
	s := schemabuilder.NewSchemaWithName(name)
	s.Query().FieldFunc("animals", func() []*Animal {
		return []*Animal{{Cat: &Cat{Id: 1}}, {Dog: &Dog{Id: 2}}}
	})
	s.Mutation()
	return s
}

func find1JSON(t *testing.T, v interface{}) string {
	b, err := json.Marshal(v)
	if err != nil {
		t.Fatal(err)
	}
	return string(b)
}

func TestFind1TypenameLeaksIntoUnionObjects(t *testing.T) {
	ctx, cancel := context.WithCancel(context.Background())
	defer cancel()

	// The gateway over a single service: there is not even a hop.
	srv, err := NewServer(find1Service("a").MustBuild())
	if err != nil {
		t.Fatal(err)
	}
	execs := map[string]ExecutorClient{"a": &DirectExecutorClient{Client: srv}}
	e, err := NewExecutor(ctx, execs, &SchemaSyncerConfig{SchemaSyncer: NewIntrospectionSchemaSyncer(ctx, execs, nil)})
	if err != nil {
		t.Fatal(err)
	}

	// The single server.
	single := find1Service("single").MustBuild()

	for _, query := range []string{
		`{ animals { ... on Cat { id } } }`,
		`{ animals { t: __typename ... on Dog { id } } }`,
		`{ animals { __typename @skip(if: true) ... on Cat { id } } }`,
	} {
		q := graphql.MustParse(query, map[string]interface{}{})
		got, _, err := e.Execute(ctx, q, nil)
		if err != nil {
			t.Fatal(err)
		}

		q2 := graphql.MustParse(query, map[string]interface{}{})
		if err := graphql.PrepareQuery(ctx, single.Query, q2.SelectionSet); err != nil {
			t.Fatal(err)
		}
		want, err := graphql.NewExecutor(graphql.NewImmediateGoroutineScheduler()).Execute(ctx, single.Query, nil, q2)
		if err != nil {
			t.Fatal(err)
		}
		if g, w := find1JSON(t, got), find1JSON(t, want); g != w {
			t.Errorf("%s\n  gateway:       %s\n  single server: %s", query, g, w)
		}
	}
}
