// FINDING 6: "_federation" is a legal alias for any field, but the gateway
// uses that result key for its own bookkeeping: Execute deletes every
// "_federation" key from the result (executor.go, deleteKey), so the aliased
// field vanishes; and when the object needs a hop the planner refuses the
// query ("Both the selection name and alias have to be _federation").
//
// Copy into: federation/   (package federation)
// Run:       go test ./federation/ -run TestFind6 -v
package federation

import (
	"context"
	"encoding/json"
	"strings"
	"testing"

	"github.com/samsarahq/thunder/graphql"
	"github.com/samsarahq/thunder/graphql/schemabuilder"
)

type find6Key struct{ Id int64 }

// which: "a" serves Query.users and User.name, "b" serves User.email,
// "single" serves everything.
func find6Service(which string) *schemabuilder.Schema {
	type User struct{ Id int64 }
	s := schemabuilder.NewSchemaWithName(which)
	var opts []schemabuilder.ObjectOption
	if which != "single" {
		opts = append(opts, schemabuilder.FetchObjectFromKeys(func(args struct{ Keys []find6Key }) []*User {
			var r []*User
			for _, k := range args.Keys {
				r = append(r, &User{Id: k.Id})
			}
			return r
		}))
	}
	u := s.Object("User", User{}, opts...)
	if which != "b" {
		s.Query().FieldFunc("users", func() []*User { return []*User{{Id: 1}} })
		u.FieldFunc("name", func(u *User) string { return "ann" })
	}
	if which != "a" {
		u.FieldFunc("email", func(u *User) string { return "ann@x.io" })
	}
	s.Mutation()
	return s
}

func TestFind6FederationAlias(t *testing.T) {
	ctx, cancel := context.WithCancel(context.Background())
	defer cancel()
	execs := map[string]ExecutorClient{}
	for _, name := range []string{"a", "b"} {
		srv, err := NewServer(find6Service(name).MustBuild())
		if err != nil {
			t.Fatal(err)
		}
		execs[name] = &DirectExecutorClient{Client: srv}
	}
	e, err := NewExecutor(ctx, execs, &SchemaSyncerConfig{SchemaSyncer: NewIntrospectionSchemaSyncer(ctx, execs, nil)})
	if err != nil {
		t.Fatal(err)
	}
	single := find6Service("single").MustBuild()

	for _, query := range []string{
		`{ users { _federation: name } }`,       // the field is dropped from the answer
		`{ users { _federation: name email } }`, // refused by the planner
	} {
		q2 := graphql.MustParse(query, map[string]interface{}{})
		if err := graphql.PrepareQuery(ctx, single.Query, q2.SelectionSet); err != nil {
			t.Fatal(err)
		}
		want, err := graphql.NewExecutor(graphql.NewImmediateGoroutineScheduler()).Execute(ctx, single.Query, nil, q2)
		if err != nil {
			t.Fatal(err)
		}
		w, _ := json.Marshal(want)
		got, _, err := e.Execute(ctx, graphql.MustParse(query, map[string]interface{}{}), nil)
		if err != nil {
			t.Errorf("%s\n  gateway error: %s\n  single server: %s", query, strings.SplitN(err.Error(), "\n", 2)[0], w)
			continue
		}
		g, _ := json.Marshal(got)
		if string(g) != string(w) {
			t.Errorf("%s\n  gateway:       %s\n  single server: %s", query, g, w)
		}
	}
}
