// FINDING 5: two services may share an object that is not federated (no
// FetchObjectFromKeys) and expose different fields of it; the schemas merge
// (the merged object has the union of the fields). A valid query that reaches
// the object through service a and asks for a field only b has makes the
// planner add "_federation" to the sub-query for a - a field a does not expose
// - and the query fails. One server over the same data answers it.
//
// Copy into: federation/   (package federation)
// Run:       go test ./federation/ -run TestFind5 -v
package federation

import (
	"context"
	"encoding/json"
	"strings"
	"testing"

	"github.com/samsarahq/thunder/graphql"
	"github.com/samsarahq/thunder/graphql/schemabuilder"
)

func find5ServiceA() *schemabuilder.Schema {
	type Address struct{ City string }
	s := schemabuilder.NewSchemaWithName("a")
	s.Object("Address", Address{})
	s.Query().FieldFunc("office", func() *Address { return &Address{City: "Oslo"} })
	s.Mutation()
	return s
}

func find5ServiceB(name string, single bool) *schemabuilder.Schema {
	type Address struct {
		City    string
		Country string
	}
	s := schemabuilder.NewSchemaWithName(name)
	s.Object("Address", Address{})
	s.Query().FieldFunc("home", func() *Address { return &Address{City: "Oslo", Country: "NO"} })
	if single {
		s.Query().FieldFunc("office", func() *Address { return &Address{City: "Oslo", Country: "NO"} })
	}
	s.Mutation()
	return s
}

func TestFind5SharedPlainObject(t *testing.T) {
	ctx, cancel := context.WithCancel(context.Background())
	defer cancel()
	execs := map[string]ExecutorClient{}
	for name, schema := range map[string]*schemabuilder.Schema{"a": find5ServiceA(), "b": find5ServiceB("b", false)} {
		srv, err := NewServer(schema.MustBuild())
		if err != nil {
			t.Fatal(err)
		}
		execs[name] = &DirectExecutorClient{Client: srv}
	}
	// The schemas merge.
	e, err := NewExecutor(ctx, execs, &SchemaSyncerConfig{SchemaSyncer: NewIntrospectionSchemaSyncer(ctx, execs, nil)})
	if err != nil {
		t.Fatal(err)
	}
	single := find5ServiceB("single", true).MustBuild()

	for _, query := range []string{
		`{ home { city country } office { city } }`, // passes
		`{ office { city country } }`,               // valid against the merged schema
	} {
		q2 := graphql.MustParse(query, map[string]interface{}{})
		if err := graphql.PrepareQuery(ctx, single.Query, q2.SelectionSet); err != nil {
			t.Fatal(err)
		}
		want, err := graphql.NewExecutor(graphql.NewImmediateGoroutineScheduler()).Execute(ctx, single.Query, nil, q2)
		if err != nil {
			t.Fatal(err)
		}
		w, _ := json.Marshal(want)
		got, _, err := e.Execute(ctx, graphql.MustParse(query, map[string]interface{}{}), nil)
		if err != nil {
			t.Errorf("%s\n  gateway error: %s\n  single server: %s", query, strings.SplitN(err.Error(), "\n", 2)[0], w)
			continue
		}
		g, _ := json.Marshal(got)
		if string(g) != string(w) {
			t.Errorf("%s\n  gateway:       %s\n  single server: %s", query, g, w)
		}
	}
}
