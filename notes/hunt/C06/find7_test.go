// FINDING 7: a union may have different members on different services; the
// merged union has all of them. The normalizer expands every selection on the
// union into one fragment per member of the MERGED union, and the planner
// sends them all to the service that serves the field: the sub-query for
// service a contains "... on Falcon { ... }" although a has no type Falcon,
// and inside it the field "_federation" of that type. (Thunder's own services
// skip fragments on types they do not know, so the answer is not affected; a
// service that validates its queries would refuse the sub-query.)
//
// The test checks every sub-query against the schema of the service it is sent
// to: every field and argument must exist, and every fragment in a union must
// name a member that service knows.
//
// Copy into: federation/   (package federation)
// Run:       go test ./federation/ -run TestFind7 -v
package federation

import (
	"context"
	"fmt"
	"testing"

	"github.com/samsarahq/thunder/graphql"
	"github.com/samsarahq/thunder/graphql/schemabuilder"
)

func find7ServiceA() *schemabuilder.Schema {
	type Eagle struct{ Id int64 }
	type Heron struct{ Id int64 }
	type Bird struct {
		schemabuilder.Union
		*Eagle
		*Heron
	}
	s := schemabuilder.NewSchemaWithName("a")
	s.Query().FieldFunc("birdsOfA", func() []*Bird { return []*Bird{{Eagle: &Eagle{1}}, {Heron: &Heron{2}}} })
	s.Mutation()
	return s
}

func find7ServiceB() *schemabuilder.Schema {
	type Eagle struct{ Id int64 }
	type Falcon struct{ Id int64 }
	type Bird struct {
		schemabuilder.Union
		*Eagle
		*Falcon
	}
	s := schemabuilder.NewSchemaWithName("b")
	s.Query().FieldFunc("birdsOfB", func() []*Bird { return []*Bird{{Eagle: &Eagle{1}}, {Falcon: &Falcon{3}}} })
	s.Mutation()
	return s
}

// find7Check reports every use of something typ's service does not expose.
func find7Check(typ graphql.Type, ss *graphql.SelectionSet, path string, report func(string)) {
	switch typ := typ.(type) {
	case *graphql.NonNull:
		find7Check(typ.Type, ss, path, report)
	case *graphql.List:
		find7Check(typ.Type, ss, path, report)
	case *graphql.Union:
		if ss == nil {
			return
		}
		for _, f := range ss.Fragments {
			member, ok := typ.Types[f.On]
			if !ok {
				report(fmt.Sprintf("%s: fragment on %s, which is no member of %s on this service", path, f.On, typ.Name))
				continue
			}
			find7Check(member, f.SelectionSet, path+"/"+f.On, report)
		}
	case *graphql.Object:
		if ss == nil {
			return
		}
		for _, sel := range ss.Selections {
			if sel.Name == "__typename" {
				continue
			}
			field, ok := typ.Fields[sel.Name]
			if !ok {
				report(fmt.Sprintf("%s: field %s.%s is not exposed by this service", path, typ.Name, sel.Name))
				continue
			}
			for arg := range sel.UnparsedArgs {
				if _, ok := field.Args[arg]; !ok {
					report(fmt.Sprintf("%s: argument %s of %s.%s is not exposed by this service", path, arg, typ.Name, sel.Name))
				}
			}
			find7Check(field.Type, sel.SelectionSet, path+"/"+sel.Alias, report)
		}
		for _, f := range ss.Fragments {
			find7Check(typ, f.SelectionSet, path, report)
		}
	}
}

type find7Client struct {
	name   string
	schema *graphql.Schema
	inner  ExecutorClient
	report func(string)
}

func (c *find7Client) Execute(ctx context.Context, req *QueryRequest) (*QueryResponse, error) {
	if req.Query.Kind == "query" && (len(req.Query.SelectionSet.Selections) == 0 || req.Query.SelectionSet.Selections[0].Name != "__schema") {
		find7Check(c.schema.Query, req.Query.SelectionSet, c.name, c.report)
	}
	return c.inner.Execute(ctx, req)
}

func TestFind7SubQueryUsesForeignUnionMembers(t *testing.T) {
	ctx, cancel := context.WithCancel(context.Background())
	defer cancel()
	var reports []string
	execs := map[string]ExecutorClient{}
	for name, sb := range map[string]*schemabuilder.Schema{"a": find7ServiceA(), "b": find7ServiceB()} {
		schema := sb.MustBuild()
		srv, err := NewServer(schema)
		if err != nil {
			t.Fatal(err)
		}
		execs[name] = &find7Client{name: name, schema: schema, inner: &DirectExecutorClient{Client: srv},
			report: func(s string) { reports = append(reports, s) }}
	}
	e, err := NewExecutor(ctx, execs, &SchemaSyncerConfig{SchemaSyncer: NewIntrospectionSchemaSyncer(ctx, execs, nil)})
	if err != nil {
		t.Fatal(err)
	}
	for _, query := range []string{
		`{ birdsOfA { __typename } }`,
		`{ birdsOfA { ... on Eagle { id } ... on Falcon { id } } }`,
	} {
		reports = nil
		if _, _, err := e.Execute(ctx, graphql.MustParse(query, map[string]interface{}{}), nil); err != nil {
			t.Fatal(err)
		}
		for _, r := range reports {
			t.Errorf("%s\n  sub-query for %s", query, r)
		}
	}
}
