// FINDING 4: federation keys that are integers beyond 2^53 are corrupted on the
// way to the next service. The gateway keeps them exact (json.Number), but the
// receiving service decodes the arguments of the sub-query with a plain
// json.Unmarshal into interface{} (server.go, unmarshalPbSelectionSet), i.e.
// as float64. The object is refetched under another id: the parent gets the
// fields of the wrong object, or, when both services key the object, the
// query fails with "key already exists in results: __key".
//
// Copy into: federation/   (package federation)
// Run:       go test ./federation/ -run TestFind4 -v
package federation

import (
	"bytes"
	"context"
	"encoding/json"
	"fmt"
	"math"
	"strings"
	"testing"

	"github.com/samsarahq/thunder/graphql"
	"github.com/samsarahq/thunder/graphql/schemabuilder"
)

type find4Key struct {
	Id  int64
	Big uint64
}

var find4Ids = []int64{1, 1<<53 + 1, math.MaxInt64}

// which: "a" serves Query.accounts, "b" serves Account.label, "single" both.
func find4Service(which string, keyed bool) *schemabuilder.Schema {
	type Account struct {
		Id  int64
		Big uint64
	}
	s := schemabuilder.NewSchemaWithName(which)
	var opts []schemabuilder.ObjectOption
	if which != "single" {
		opts = append(opts, schemabuilder.FetchObjectFromKeys(func(args struct{ Keys []find4Key }) []*Account {
			var r []*Account
			for _, k := range args.Keys {
				r = append(r, &Account{Id: k.Id, Big: k.Big})
			}
			return r
		}))
	}
	a := s.Object("Account", Account{}, opts...)
	if keyed {
		a.Key("id")
	}
	if which != "b" {
		s.Query().FieldFunc("accounts", func() []*Account {
			var r []*Account
			for _, id := range find4Ids {
				r = append(r, &Account{Id: id, Big: math.MaxUint64})
			}
			return r
		})
	}
	if which != "a" {
		a.FieldFunc("label", func(a *Account) string { return fmt.Sprintf("account %d / %d", a.Id, a.Big) })
	}
	s.Mutation()
	return s
}

func find4Run(t *testing.T, keyed bool) {
	ctx, cancel := context.WithCancel(context.Background())
	defer cancel()
	execs := map[string]ExecutorClient{}
	for _, name := range []string{"a", "b"} {
		srv, err := NewServer(find4Service(name, keyed).MustBuild())
		if err != nil {
			t.Fatal(err)
		}
		execs[name] = &DirectExecutorClient{Client: srv}
	}
	e, err := NewExecutor(ctx, execs, &SchemaSyncerConfig{SchemaSyncer: NewIntrospectionSchemaSyncer(ctx, execs, nil)})
	if err != nil {
		t.Fatal(err)
	}
	single := find4Service("single", keyed).MustBuild()

	const query = `{ accounts { id label } }`
	q2 := graphql.MustParse(query, map[string]interface{}{})
	if err := graphql.PrepareQuery(ctx, single.Query, q2.SelectionSet); err != nil {
		t.Fatal(err)
	}
	want, err := graphql.NewExecutor(graphql.NewImmediateGoroutineScheduler()).Execute(ctx, single.Query, nil, q2)
	if err != nil {
		t.Fatal(err)
	}
	w, _ := json.Marshal(want)

	got, _, err := e.Execute(ctx, graphql.MustParse(query, map[string]interface{}{}), nil)
	if err != nil {
		t.Fatalf("%s\n  gateway error: %s\n  single server: %s", query, strings.SplitN(err.Error(), "\n", 2)[0], w)
	}
	g, _ := json.Marshal(got)
	if !bytes.Equal(g, w) {
		t.Errorf("%s\n  gateway:       %s\n  single server: %s", query, g, w)
	}
}

func TestFind4LargeIntegerKeys(t *testing.T) {
	t.Run("wrong object", func(t *testing.T) { find4Run(t, false) })
	t.Run("keyed objects fail", func(t *testing.T) { find4Run(t, true) })
}
